(** Proofs about the address-manager model (C03).

    Layout:
      1. association-list and heap lemmas;
      2. the invariant [Inv] (disk rows name the seed's keys, memory caches
         agree with the disk rows, every managed-address object encodes the
         child key of its account row in the row's format, any stored private
         key is the key of the object's public key, ...);
      3. [ext]: how helper functions may grow a state, and monotonicity;
      4. helper lemmas (keyToManaged, loadAccountInfo, chainAddressRowToManaged,
         loadAndCacheAddress, nextAddresses, extendAddresses, lock, unlock);
      5. preservation of [Inv] by every admissible operation, and what the
         answers of the operations say ([ainfo_ok]);
      6. issue order of indices;
      7. availability of private keys ([Avail]) when extendAddresses uses the
         same watch-only test as nextAddresses;
      8. history-level theorems used by Properties/C03.v. *)
From Verif Require Import Base.Prelude Addr.Keys Addr.Mgr.
Local Open Scope N_scope.

(* ------------------------------------------------------------------ 1. lists *)

Section alist_lemmas.
  Context {K V : Type} (dec : forall a b : K, {a = b} + {a <> b}).

  Lemma aget_aset (l : list (K * V)) k v k' :
    aget dec (aset dec l k v) k' = if dec k' k then Some v else aget dec l k'.
  Proof.
    induction l as [|[k0 v0] l IH]; simpl.
    - destruct (dec k' k); reflexivity.
    - destruct (dec k k0) as [->|Hn]; simpl.
      + destruct (dec k' k0); reflexivity.
      + destruct (dec k' k0) as [->|Hn'].
        * destruct (dec k0 k) as [->|]; [contradiction|reflexivity].
        * exact IH.
  Qed.

  Lemma aget_aset_eq (l : list (K * V)) k v : aget dec (aset dec l k v) k = Some v.
  Proof. rewrite aget_aset. destruct (dec k k); [reflexivity|contradiction]. Qed.

  Lemma aget_aset_neq (l : list (K * V)) k v k' : k' <> k -> aget dec (aset dec l k v) k' = aget dec l k'.
  Proof. intros H. rewrite aget_aset. destruct (dec k' k); [contradiction|reflexivity]. Qed.

  Lemma aget_adel (l : list (K * V)) k k' :
    aget dec (adel dec l k) k' = if dec k' k then None else aget dec l k'.
  Proof.
    induction l as [|[k0 v0] l IH]; simpl.
    - destruct (dec k' k); reflexivity.
    - destruct (dec k k0) as [->|Hn]; simpl.
      + rewrite IH. destruct (dec k' k0); reflexivity.
      + destruct (dec k' k0) as [->|Hn'].
        * destruct (dec k0 k) as [->|]; [contradiction|reflexivity].
        * exact IH.
  Qed.

  Lemma aget_amap (f : V -> V) (l : list (K * V)) k :
    aget dec (amap f l) k = option_map f (aget dec l k).
  Proof.
    induction l as [|[k0 v0] l IH]; simpl; [reflexivity|].
    destruct (dec k k0); [reflexivity|exact IH].
  Qed.

  Lemma aget_app (l : list (K * V)) k v k' :
    aget dec (l ++ [(k, v)]) k' =
    match aget dec l k' with Some x => Some x | None => if dec k' k then Some v else None end.
  Proof.
    induction l as [|[k0 v0] l IH]; simpl; [reflexivity|].
    destruct (dec k' k0); [reflexivity|exact IH].
  Qed.

  Lemma aget_In (l : list (K * V)) k v : aget dec l k = Some v -> In (k, v) l.
  Proof.
    induction l as [|[k0 v0] l IH]; simpl; [discriminate|].
    destruct (dec k k0) as [->|]; intros H.
    - inversion H. left. reflexivity.
    - right. apply IH. exact H.
  Qed.

  Lemma In_aget (l : list (K * V)) k v : In (k, v) l -> exists v', aget dec l k = Some v'.
  Proof.
    induction l as [|[k0 v0] l IH]; simpl; [intros []|].
    intros [H|H].
    - inversion H. subst. destruct (dec k k); [eauto|contradiction].
    - destruct (dec k k0); [eauto|apply IH; exact H].
  Qed.
End alist_lemmas.

Lemma nth_error_snoc {A} (l : list A) (x : A) (i : nat) :
  nth_error (l ++ [x]) i =
  if Nat.ltb i (length l) then nth_error l i else if Nat.eqb i (length l) then Some x else None.
Proof.
  destruct (Nat.ltb_spec i (length l)) as [H|H].
  - apply nth_error_app1. exact H.
  - rewrite nth_error_app2 by exact H.
    destruct (Nat.eqb_spec i (length l)) as [->|Hn].
    + rewrite Nat.sub_diag. reflexivity.
    + destruct (i - length l)%nat as [|k] eqn:E; [lia|]. simpl. destruct k; reflexivity.
Qed.

Lemma nth_error_list_set {A} (l : list A) (i j : nat) (x : A) :
  nth_error (list_set l i x) j =
  if Nat.eqb j i then (if Nat.ltb i (length l) then Some x else None) else nth_error l j.
Proof.
  revert i j. induction l as [|y l IH]; intros i j; simpl.
  - destruct (Nat.eqb j i); destruct j; reflexivity.
  - destruct i as [|i]; destruct j as [|j]; simpl; try reflexivity.
    rewrite IH. destruct (Nat.eqb j i); [|reflexivity].
    destruct (Nat.ltb_spec i (length l)); destruct (Nat.ltb_spec (S i) (S (length l))); try reflexivity; lia.
Qed.

Lemma length_list_set {A} (l : list A) i x : length (list_set l i x) = length l.
Proof. revert i. induction l as [|y l IH]; intros [|i]; simpl; try reflexivity. rewrite IH. reflexivity. Qed.

Lemma nth_error_Some_lt {A} (l : list A) i x : nth_error l i = Some x -> (i < length l)%nat.
Proof. intros H. apply nth_error_Some. rewrite H. discriminate. Qed.

(* ------------------------------------------------------------- 2. invariant *)

Definition row_fmt (sch : schema) (row : acct_row) (branch : N) : afmt :=
  let sc := match ar_schema row with Some o => o | None => sch end in
  if branch =? internal_branch then int_fmt sc else ext_fmt sc.

(** the key at account/branch/index, child numbers read as raw uint32 *)
Definition path_skey (acct : skey) (branch index : N) : skey := raw_child (raw_child acct branch) index.

Definition row_ok (seed : N) (s : scope) (a : N) (row : acct_row) : Prop :=
  match ar_kind row with
  | ADefault => ar_pub row = acct_key seed (fst s) (snd s) a /\ ar_priv row = Some (ar_pub row)
                /\ ar_schema row = None /\ ar_fp row = 0
  | AWatchOnly => (exists x cn, ar_pub row = xpub_key x cn) /\ ar_priv row = None
  end.

(** an imported key: WIF number [n] (private key stored), or public key number
    [n] imported on its own (no private key) *)
Definition imp_name (pubonly : bool) (n : N) : skey := if pubonly then imp_pub_key n else imp_key n.
Definition imp_priv (pubonly : bool) (n : N) : option skey := if pubonly then None else Some (imp_key n).

Lemma imp_name_private po n k : imp_name po n = imp_key k -> po = false /\ n = k.
Proof. destruct po; unfold imp_name, imp_pub_key, imp_key; intros H; inversion H. auto. Qed.

Definition addr_row_ok (D : disk) (s : scope) (k : akey) (r : addr_row) : Prop :=
  match r with
  | RChain a b i =>
    exists row sch coin, aget sa_dec (d_accts D) (s, a) = Some row /\
      aget scope_eq_dec (d_scopes D) s = Some (sch, coin) /\
      k = addr_key (AKey (row_fmt sch row b) (Pub (path_skey (ar_pub row) b i)))
  | RImported pk prv =>
    exists n sch coin po, pk = imp_name po n /\ prv = imp_priv po n /\
      aget scope_eq_dec (d_scopes D) s = Some (sch, coin) /\
      k = addr_key (AKey (ext_fmt sch) (Pub pk))
  | RScript sc _ => k = KScript sc
  end.

Definition disk_ok (seed : N) (D : disk) : Prop :=
  d_master D = master seed /\
  (forall s sch coin, aget scope_eq_dec (d_scopes D) s = Some (sch, coin) -> coin = coin_key seed (fst s) (snd s)) /\
  (forall s a row, aget sa_dec (d_accts D) (s, a) = Some row ->
     row_ok seed s a row /\ is_some (aget scope_eq_dec (d_scopes D) s) = true /\
     match aget scope_eq_dec (d_last D) s with Some l => a <= l | None => a = 0 end) /\
  (forall s k r, aget sk_dec (d_addrs D) (s, k) = Some r -> addr_row_ok D s k r) /\
  (forall k n, aget sab_dec (d_next D) k = Some n -> n <= hardened_start) /\
  NoDup (map fst (d_scopes D)) /\
  (forall s l, aget scope_eq_dec (d_last D) s = Some l -> is_some (aget scope_eq_dec (d_scopes D) s) = true).

Definition scopes_ok (D : disk) (M : mem) : Prop :=
  forall s sch, In (s, sch) (m_scopes M) ->
    exists coin, aget scope_eq_dec (d_scopes D) s = Some (sch, coin).

Definition ai_ok (D : disk) (lk : bool) (s : scope) (a : N) (ai : acct_info) : Prop :=
  exists row, aget sa_dec (d_accts D) (s, a) = Some row /\
    ai_kind ai = ar_kind row /\ ai_pub ai = ar_pub row /\ ai_enc ai = ar_priv row /\
    ai_schema ai = ar_schema row /\ ai_fp ai = ar_fp row /\
    ai_priv ai = (if lk then None else ar_priv row) /\
    ai_next_ext ai = disk_next D s a false /\ ai_next_int ai = disk_next D s a true.

Definition accts_ok (D : disk) (lk : bool) (M : mem) : Prop :=
  forall s a ai, aget sa_dec (m_accts M) (s, a) = Some ai -> ai_ok D lk s a ai.

Definition keys_ok (ma : maddr) : Prop :=
  (forall k, ma_enc ma = Some k -> k = Priv (skey_of_pub (ma_pub ma))) /\
  (forall k, ma_ct ma = Some k -> k = Priv (skey_of_pub (ma_pub ma))).

(** a chain address object: the child of its account row, in the row's format *)
Definition chain_ok (D : disk) (ma : maddr) : Prop :=
  exists row sch coin,
    aget sa_dec (d_accts D) (ma_scope ma, dp_iacct (ma_path ma)) = Some row /\
    aget scope_eq_dec (d_scopes D) (ma_scope ma) = Some (sch, coin) /\
    ma_pub ma = Pub (path_skey (ar_pub row) (dp_branch (ma_path ma)) (dp_index (ma_path ma))) /\
    ma_fmt ma = row_fmt sch row (dp_branch (ma_path ma)) /\
    ma_internal ma = (dp_branch (ma_path ma) =? internal_branch).

Definition imported_ok (D : disk) (ma : maddr) : Prop :=
  exists n sch coin po,
    ma_pub ma = Pub (imp_name po n) /\ ma_enc ma = option_map Priv (imp_priv po n) /\
    ma_path ma = imported_path /\ ma_internal ma = false /\
    aget scope_eq_dec (d_scopes D) (ma_scope ma) = Some (sch, coin) /\ ma_fmt ma = ext_fmt sch.

Definition obj_ok (D : disk) (o : mobj) : Prop :=
  match o with
  | MKey ma => keys_ok ma /\ if ma_imported ma then imported_ok D ma else chain_ok D ma
  | MScript sa => sa_enc sa = Some (sa_script sa) /\ (forall c, sa_ct sa = Some c -> c = sa_script sa)
  end.

Definition heap_ok (D : disk) (M : mem) : Prop :=
  forall oid o, nth_error (m_heap M) oid = Some o -> obj_ok D o.

Definition obj_scope (o : mobj) : scope :=
  match o with MKey ma => ma_scope ma | MScript sa => sa_scope sa end.

(** the Account field of the reported path is the account key's child number *)
Definition acct_field_ok (D : disk) (o : mobj) : Prop :=
  match o with
  | MKey ma => ma_imported ma = false ->
      forall row, aget sa_dec (d_accts D) (ma_scope ma, dp_iacct (ma_path ma)) = Some row ->
        dp_acct (ma_path ma) = child_num (ar_pub row)
  | MScript _ => True
  end.

Definition cache_ok (D : disk) (M : mem) : Prop :=
  forall s k oid, aget sk_dec (m_addrs M) (s, k) = Some oid ->
    exists o, nth_error (m_heap M) oid = Some o /\ obj_akey o = k /\ obj_scope o = s /\ acct_field_ok D o.

Definition queue_ok (D : disk) (M : mem) : Prop :=
  forall s oid b i, In (s, oid, b, i) (m_queue M) ->
    exists ma, nth_error (m_heap M) oid = Some (MKey ma) /\ ma_imported ma = false /\ ma_scope ma = s /\
      dp_branch (ma_path ma) = b /\ dp_index (ma_path ma) = i /\
      is_some (aget scope_eq_dec (m_scopes M) s) = true /\
      (exists row, aget sa_dec (d_accts D) (s, dp_iacct (ma_path ma)) = Some row /\ ar_priv row <> None).

Definition pk_ok (D : disk) (M : mem) : Prop :=
  forall s p k, aget sp_dec (m_pk M) (s, p) = Some k ->
    exists row, aget sa_dec (d_accts D) (s, dp_iacct p) = Some row /\
      k = Priv (path_skey (ar_pub row) (dp_branch p) (dp_index p)).

Definition handles_ok (M : mem) : Prop :=
  forall h, In h (m_handles M) -> (h < length (m_heap M))%nat.

Record InvDM (seed : N) (lk : bool) (D : disk) (M : mem) : Prop := mkInv {
  inv_disk : disk_ok seed D;
  inv_scopes : scopes_ok D M;
  inv_accts : accts_ok D lk M;
  inv_heap : heap_ok D M;
  inv_cache : cache_ok D M;
  inv_queue : queue_ok D M;
  inv_pk : pk_ok D M;
  inv_handles : handles_ok M;
}.

Definition Inv (seed : N) (lk : bool) (st : state) : Prop := InvDM seed lk (st_disk st) (st_mem st).

(** The next indices cached in memory equal the ones on disk (only between
    operations: nextAddresses/extendAddresses write the database first). *)
Definition NextOk (st : state) : Prop :=
  forall s a ai, aget sa_dec (m_accts (st_mem st)) (s, a) = Some ai ->
    ai_next_ext ai = disk_next (st_disk st) s a false /\ ai_next_int ai = disk_next (st_disk st) s a true.

(* ------------------------------------------------------------------ 3. growth *)

(** How the helper functions change a state: account rows, scopes and the
    lock state stay, objects are only added, the unlock queue only grows. *)
Record ext (st st' : state) : Prop := mkExt {
  ext_accts : d_accts (st_disk st') = d_accts (st_disk st);
  ext_dscopes : d_scopes (st_disk st') = d_scopes (st_disk st);
  ext_last : d_last (st_disk st') = d_last (st_disk st);
  ext_master : d_master (st_disk st') = d_master (st_disk st);
  ext_dpass : d_pass (st_disk st') = d_pass (st_disk st);
  ext_locked : m_locked (st_mem st') = m_locked (st_mem st);
  ext_mpass : m_pass (st_mem st') = m_pass (st_mem st);
  ext_mscopes : m_scopes (st_mem st') = m_scopes (st_mem st);
  ext_heap : forall oid o, nth_error (m_heap (st_mem st)) oid = Some o -> nth_error (m_heap (st_mem st')) oid = Some o;
  ext_queue : incl (m_queue (st_mem st)) (m_queue (st_mem st'));
  ext_cached : forall k ai, aget sa_dec (m_accts (st_mem st)) k = Some ai ->
               exists ai', aget sa_dec (m_accts (st_mem st')) k = Some ai';
  ext_handles : m_handles (st_mem st') = m_handles (st_mem st);
  ext_pk : m_pk (st_mem st') = m_pk (st_mem st);
}.

Lemma ext_refl st : ext st st.
Proof. constructor; try reflexivity; eauto using incl_refl. Qed.

Lemma ext_trans a b c : ext a b -> ext b c -> ext a c.
Proof.
  intros [] []. constructor; try congruence; eauto using incl_tran.
  intros k ai H. destruct (ext_cached0 k ai H) as [ai' H']. eauto.
Qed.

Lemma ext_len a b : ext a b -> (length (m_heap (st_mem a)) <= length (m_heap (st_mem b)))%nat.
Proof.
  intros E. destruct (m_heap (st_mem a)) as [|x l] eqn:Ha; simpl; [lia|].
  assert (H : nth_error (m_heap (st_mem a)) (length l) <> None).
  { apply nth_error_Some. rewrite Ha. simpl. lia. }
  destruct (nth_error (m_heap (st_mem a)) (length l)) eqn:E1; [|contradiction].
  apply (ext_heap _ _ E) in E1. apply nth_error_Some_lt in E1. lia.
Qed.

(** dependence of the object predicates on the disk: account rows and scopes only *)
Lemma obj_ok_same D D' o : d_accts D' = d_accts D -> d_scopes D' = d_scopes D -> obj_ok D o -> obj_ok D' o.
Proof.
  intros Ha Hs. destruct o as [ma|sa]; simpl; [|tauto].
  intros [Hk H]. split; [exact Hk|].
  destruct (ma_imported ma).
  - unfold imported_ok in *. rewrite Hs. exact H.
  - unfold chain_ok in *. rewrite Ha, Hs. exact H.
Qed.

Lemma acct_field_ok_same D D' o : d_accts D' = d_accts D -> acct_field_ok D o -> acct_field_ok D' o.
Proof. intros Ha. destruct o; simpl; [rewrite Ha|]; tauto. Qed.

Lemma disk_next_same_next D D' s a i : d_next D' = d_next D -> disk_next D' s a i = disk_next D s a i.
Proof. unfold disk_next. intros ->. reflexivity. Qed.

(** ai_ok without the next-index clauses *)
Definition ai_static (D : disk) (lk : bool) (s : scope) (a : N) (ai : acct_info) : Prop :=
  exists row, aget sa_dec (d_accts D) (s, a) = Some row /\
    ai_kind ai = ar_kind row /\ ai_pub ai = ar_pub row /\ ai_enc ai = ar_priv row /\
    ai_schema ai = ar_schema row /\ ai_fp ai = ar_fp row /\
    ai_priv ai = (if lk then None else ar_priv row).

Definition accts_static (D : disk) (lk : bool) (M : mem) : Prop :=
  forall s a ai, aget sa_dec (m_accts M) (s, a) = Some ai -> ai_static D lk s a ai.

(** the invariant kept by every helper at every intermediate point *)
Record Inv0 (seed : N) (lk : bool) (st : state) : Prop := mkInv0 {
  i_disk : disk_ok seed (st_disk st);
  i_scopes : scopes_ok (st_disk st) (st_mem st);
  i_accts : accts_static (st_disk st) lk (st_mem st);
  i_heap : heap_ok (st_disk st) (st_mem st);
  i_cache : cache_ok (st_disk st) (st_mem st);
  i_queue : queue_ok (st_disk st) (st_mem st);
  i_pk : pk_ok (st_disk st) (st_mem st);
  i_handles : handles_ok (st_mem st);
}.

(** two objects that differ at most in the stored private keys / clear texts *)
Definition same_shape (o o' : mobj) : Prop :=
  match o, o' with
  | MKey a, MKey b => ma_scope a = ma_scope b /\ ma_path a = ma_path b /\ ma_fmt a = ma_fmt b /\ ma_pub a = ma_pub b
                      /\ ma_imported a = ma_imported b /\ ma_internal a = ma_internal b
  | MScript a, MScript b => sa_scope a = sa_scope b /\ sa_script a = sa_script b
  | _, _ => False
  end.

Lemma same_shape_akey o o' : same_shape o o' -> obj_akey o' = obj_akey o /\ obj_scope o' = obj_scope o.
Proof.
  destruct o as [a|a], o' as [b|b]; simpl; try tauto.
  - intros (H1 & H2 & H3 & H4 & _). unfold obj_akey. simpl. rewrite H1, H3, H4. tauto.
  - intros (H1 & H2). unfold obj_akey. simpl. rewrite H1, H2. tauto.
Qed.

Lemma same_shape_field D o o' : same_shape o o' -> acct_field_ok D o -> acct_field_ok D o'.
Proof.
  destruct o as [a|a], o' as [b|b]; simpl; try tauto.
  intros (H1 & H2 & H3 & H4 & H5 & _). rewrite <- H1, <- H2, <- H5. tauto.
Qed.

(* --------------------------------------------------------- primitive changes *)

Arguments alloc : simpl never.
Arguments enqueue : simpl never.
Arguments cache_addr : simpl never.
Arguments cache_acct : simpl never.
Arguments heap_set : simpl never.
Arguments put_chained : simpl never.

Ltac unf :=
  unfold alloc, enqueue, cache_addr, cache_acct, heap_set, put_chained, upd_mem, upd_disk,
    set_m_locked, set_m_pass, set_m_scopes, set_m_accts, set_m_addrs, set_m_queue, set_m_pk, set_m_heap, set_m_handles,
    set_d_pass, set_d_scopes, set_d_last, set_d_accts, set_d_next, set_d_addrs, locked, heap_get in *; simpl in *.

Ltac splits := repeat match goal with |- _ /\ _ => split end.

Ltac unfinv := unfold heap_ok, cache_ok, queue_ok, handles_ok, accts_static, scopes_ok, pk_ok in *; simpl in *.

Section prims.
  Context (seed : N) (lk : bool).

  Lemma alloc_post st o :
    Inv0 seed lk st -> obj_ok (st_disk st) o ->
    let st' := fst (alloc st o) in
    Inv0 seed lk st' /\ ext st st' /\ snd (alloc st o) = length (m_heap (st_mem st)) /\
    m_heap (st_mem st') = m_heap (st_mem st) ++ [o] /\ st_disk st' = st_disk st /\
    m_queue (st_mem st') = m_queue (st_mem st) /\ m_accts (st_mem st') = m_accts (st_mem st) /\
    m_addrs (st_mem st') = m_addrs (st_mem st).
  Proof.
    intros I Ho. destruct st as [D M]. unf.
    assert (Hh : forall oid x, nth_error (m_heap M) oid = Some x -> nth_error (m_heap M ++ [o]) oid = Some x).
    { intros oid x H. rewrite nth_error_app1; [exact H|]. eapply nth_error_Some_lt; eauto. }
    split; [|split; [|repeat split; reflexivity]].
    - destruct I. constructor; unfinv; try assumption.
      + intros oid x H. rewrite nth_error_snoc in H.
        destruct (Nat.ltb oid (length (m_heap M))); [eauto|].
        destruct (Nat.eqb oid (length (m_heap M))); [|discriminate]. inversion H. subst. exact Ho.
      + intros s k oid H. destruct (i_cache0 s k oid H) as (x & H1 & H2). exists x. split; [apply Hh; exact H1|exact H2].
      + intros s oid b i H. destruct (i_queue0 s oid b i H) as (ma & H1 & H2). exists ma. split; [apply Hh; exact H1|exact H2].
      + intros h H. rewrite app_length. simpl. specialize (i_handles0 h H). lia.
    - constructor; simpl; try reflexivity; eauto using incl_refl.
  Qed.

  Lemma enqueue_post st s oid b i ma :
    Inv0 seed lk st ->
    nth_error (m_heap (st_mem st)) oid = Some (MKey ma) -> ma_imported ma = false -> ma_scope ma = s ->
    dp_branch (ma_path ma) = b -> dp_index (ma_path ma) = i ->
    is_some (aget scope_eq_dec (m_scopes (st_mem st)) s) = true ->
    (exists row, aget sa_dec (d_accts (st_disk st)) (s, dp_iacct (ma_path ma)) = Some row /\ ar_priv row <> None) ->
    Inv0 seed lk (enqueue st s oid b i) /\ ext st (enqueue st s oid b i).
  Proof.
    intros I H1 H2 H3 H4 H5 H7 H8. destruct st as [D M]. unf. split.
    - destruct I. constructor; unfinv; try assumption.
      intros s' oid' b' i' H. apply in_app_or in H. destruct H as [H|[H|[]]].
      + apply i_queue0. exact H.
      + inversion H. subst. exists ma. repeat split; assumption.
    - constructor; simpl; try reflexivity; eauto. apply incl_appl, incl_refl.
  Qed.

  Lemma cache_addr_post st s k oid o :
    Inv0 seed lk st ->
    nth_error (m_heap (st_mem st)) oid = Some o -> obj_akey o = k -> obj_scope o = s -> acct_field_ok (st_disk st) o ->
    Inv0 seed lk (cache_addr st s k oid) /\ ext st (cache_addr st s k oid).
  Proof.
    intros I H1 H2 H3 H4. destruct st as [D M]. unf. split.
    - destruct I. constructor; unfinv; try assumption.
      intros s' k' oid' H. rewrite aget_aset in H. destruct (sk_dec (s', k') (s, k)) as [E|E].
      + inversion E. inversion H. subst. exists o. tauto.
      + apply i_cache0. exact H.
    - constructor; simpl; try reflexivity; eauto. apply incl_refl.
  Qed.

  Lemma cache_acct_post st s a ai :
    Inv0 seed lk st -> ai_static (st_disk st) lk s a ai ->
    Inv0 seed lk (cache_acct st s a ai) /\ ext st (cache_acct st s a ai).
  Proof.
    intros I H1. destruct st as [D M]. unf. split.
    - destruct I. constructor; unfinv; try assumption.
      + intros s' a' ai' H. rewrite aget_aset in H. destruct (sa_dec (s', a') (s, a)) as [E|E].
        * inversion E. inversion H. subst. exact H1.
        * apply i_accts0. exact H.
    - constructor; simpl; try reflexivity; eauto using incl_refl.
      intros k x H. rewrite aget_aset. destruct (sa_dec k (s, a)); eauto.
  Qed.

  (** replacing an object by one of the same shape *)
  Lemma heap_set_post st oid o o' :
    Inv0 seed lk st -> nth_error (m_heap (st_mem st)) oid = Some o -> same_shape o o' -> obj_ok (st_disk st) o' ->
    Inv0 seed lk (heap_set st oid o').
  Proof.
    intros I H1 H2 H3. destruct st as [D M]. unf.
    pose proof (nth_error_Some_lt _ _ _ H1) as Hlt.
    destruct I. constructor; unfinv; try assumption.
    - intros j x H. rewrite nth_error_list_set in H. destruct (Nat.eqb_spec j oid) as [->|].
      + destruct (Nat.ltb_spec oid (length (m_heap M))); [|lia]. inversion H. subst. exact H3.
      + eauto.
    - intros s k j H. destruct (i_cache0 s k j H) as (x & C1 & C2 & C3 & C4).
      rewrite nth_error_list_set. destruct (Nat.eqb_spec j oid) as [->|].
      + destruct (Nat.ltb_spec oid (length (m_heap M))); [|lia]. exists o'.
        rewrite H1 in C1. inversion C1. subst x. destruct (same_shape_akey _ _ H2) as [E1 E2].
        repeat split; try congruence. eapply same_shape_field; eauto.
      + exists x. tauto.
    - intros s j b i H. destruct (i_queue0 s j b i H) as (ma & Q1 & Q2 & Q3 & Q4 & Q5 & Q7 & Q8).
      rewrite nth_error_list_set. destruct (Nat.eqb_spec j oid) as [->|].
      + destruct (Nat.ltb_spec oid (length (m_heap M))); [|lia].
        rewrite H1 in Q1. inversion Q1. subst o. destruct o' as [mb|]; simpl in H2; [|contradiction].
        destruct H2 as (E1 & E2 & E3 & E4 & E5 & E6). exists mb. rewrite <- E1, <- E2, <- E5. repeat split; assumption.
      + exists ma. repeat split; assumption.
    - intros h H. rewrite length_list_set. eauto.
  Qed.
End prims.

(* ------------------------------------------------------ 4. derivation pieces *)

(** the key algebra: the specified rule names the child for every [lz]; the
    other rule leaves the tree below a key with a leading zero; the worst-case
    instance [all_lz] the model runs with decides for all instances *)
Lemma rule_eqb_refl r : rule_eqb r r = true.
Proof. destruct r; reflexivity. Qed.

Lemma rule_eqb_eq a b : rule_eqb a b = true <-> a = b.
Proof. destruct a, b; simpl; split; intros H; try reflexivity; try discriminate. Qed.

Lemma ckd_spec lz k i : ckd lz (spec_rule k i) k i = raw_child k i.
Proof. unfold ckd. rewrite rule_eqb_refl. simpl. rewrite andb_false_r. reflexivity. Qed.

Lemma ckd_unhardened lz r k i : is_hardened i = false -> ckd lz r k i = raw_child k i.
Proof. intros H. unfold ckd. rewrite H. reflexivity. Qed.

Lemma ckd_no_leading_zero lz r k i : lz k = false -> ckd lz r k i = raw_child k i.
Proof. intros H. unfold ckd. rewrite H, andb_false_r. reflexivity. Qed.

Lemma off_spec_ne k i : off_spec k i <> raw_child k i.
Proof.
  unfold off_spec, raw_child, child. intros H.
  assert (E : k_root (if is_hardened i then {| k_root := k_root k; k_path := k_path k ++ [(i - hardened_start, true)] |}
                      else {| k_root := k_root k; k_path := k_path k ++ [(i, false)] |}) = k_root k)
    by (destruct (is_hardened i); reflexivity).
  apply (f_equal k_root) in H. simpl in H. rewrite E in H.
  clear -H. induction (k_root k); try discriminate. inversion H. auto.
Qed.

Lemma ckd_wrong_rule lz r k i :
  is_hardened i = true -> lz k = true -> r <> spec_rule k i -> ckd lz r k i <> raw_child k i.
Proof.
  intros Hh Hz Hr. unfold ckd. rewrite Hh, Hz. simpl.
  destruct (rule_eqb r (spec_rule k i)) eqn:E; [apply rule_eqb_eq in E; contradiction|]. simpl. apply off_spec_ne.
Qed.

(** with [all_lz], a derivation names the child iff the step is unhardened or made with the specified rule ... *)
Lemma ckd_all_lz_iff r k i :
  ckd all_lz r k i = raw_child k i <-> (is_hardened i = false \/ r = spec_rule k i).
Proof.
  split.
  - intros H. destruct (is_hardened i) eqn:Hh; [|left; reflexivity]. right.
    destruct (rule_eq_dec r (spec_rule k i)) as [E|E]; [exact E|].
    exfalso. exact (ckd_wrong_rule all_lz r k i Hh eq_refl E H).
  - intros [H|H]; [apply ckd_unhardened; exact H|subst; apply ckd_spec].
Qed.

(** ... and then it does for every assignment of leading zeros *)
Lemma ckd_all_lz r k i : ckd all_lz r k i = raw_child k i -> forall lz, ckd lz r k i = raw_child k i.
Proof.
  intros H lz. apply ckd_all_lz_iff in H. destruct H as [H|H]; [apply ckd_unhardened; exact H|subst; apply ckd_spec].
Qed.

(** a step of the model is "on specification" *)
Definition on_spec (x : xkey) (i : N) : Prop :=
  match x with
  | XPriv k w => is_hardened i = true -> rule_of_width w = spec_rule k i
  | XPub _ => True
  end.

Lemma x_derive_spec x i y :
  on_spec x i -> x_derive x i = Some y -> x_skey y = raw_child (x_skey x) i /\ x_is_private y = x_is_private x.
Proof.
  destruct x as [k w|k]; simpl.
  - intros Ho H. inversion H. subst. simpl. split; [|reflexivity].
    apply ckd_all_lz_iff. destruct (is_hardened i); [right; apply Ho; reflexivity|left; reflexivity].
  - destruct (is_hardened i); [discriminate|]. intros _ H. inversion H. subst. simpl. tauto.
Qed.

Lemma on_spec_unhardened x i : is_hardened i = false -> on_spec x i.
Proof. intros H. destruct x; simpl; [rewrite H; discriminate|exact Logic.I]. Qed.

Lemma x_derive_priv k w i :
  on_spec (XPriv k w) i -> x_derive (XPriv k w) i = Some (XPriv (raw_child k i) Short).
Proof.
  intros Ho. simpl. f_equal. f_equal.
  apply ckd_all_lz_iff. simpl in Ho. destruct (is_hardened i); [right; apply Ho; reflexivity|left; reflexivity].
Qed.

Lemma x_derive_pub k i : is_hardened i = false -> x_derive (XPub k) i = Some (XPub (raw_child k i)).
Proof. intros H. simpl. rewrite H. reflexivity. Qed.

(** the shape of an account key made from a seed: m/purpose'/coin'/account' *)
Definition acct_shape (p : skey) : Prop := exists seed pu co a, p = acct_key seed pu co a.

(** both steps below a full-width account key are on specification: the branch
    step BIP32 (full-width parent), the index step legacy (shortened parent) *)
Lemma acct_shape_branch p b : acct_shape p -> on_spec (XPriv p Full) b.
Proof. intros (seed & pu & co & a & ->) _. reflexivity. Qed.

Lemma acct_shape_index p b i : acct_shape p -> on_spec (XPriv (raw_child p b) Short) i.
Proof.
  intros (seed & pu & co & a & ->) _. unfold raw_child. destruct (is_hardened b); reflexivity.
Qed.

(** every private account key in memory is the private view of the public one,
    and a seed-made account key *)
Definition ai_wf (ai : acct_info) : Prop := forall p, ai_priv ai = Some p -> p = ai_pub ai /\ acct_shape p.

Lemma derive_key_priv_ok ai b i p :
  ai_priv ai = Some p -> acct_shape p -> derive_key ai b i true = DOk (XPriv (path_skey p b i) Short).
Proof.
  intros H Hs. unfold derive_key. rewrite H. cbn [option_map].
  rewrite (x_derive_priv p Full b (acct_shape_branch p b Hs)).
  rewrite (x_derive_priv (raw_child p b) Short i (acct_shape_index p b i Hs)). reflexivity.
Qed.

Lemma derive_key_priv_wf ai b i p :
  ai_wf ai -> ai_priv ai = Some p -> derive_key ai b i true = DOk (XPriv (path_skey p b i) Short).
Proof. intros Hwf H. apply derive_key_priv_ok; [exact H|apply (Hwf p H)]. Qed.

Lemma derive_key_spec ai b i pr k :
  ai_wf ai -> derive_key ai b i pr = DOk k ->
  x_is_private k = pr /\ x_skey k = path_skey (ai_pub ai) b i /\ (pr = true -> ai_priv ai <> None).
Proof.
  intros Hwf. destruct pr.
  - destruct (ai_priv ai) as [p|] eqn:Ep; [|unfold derive_key; rewrite Ep; discriminate].
    destruct (Hwf p Ep) as (E & Hs). rewrite (derive_key_priv_ok ai b i p Ep Hs).
    intros H. inversion H. subst. simpl. repeat split. discriminate.
  - unfold derive_key. simpl. destruct (is_hardened b); [discriminate|]. simpl.
    destruct (is_hardened i); [discriminate|]. intros H. inversion H. subst. simpl. repeat split. discriminate.
Qed.

Lemma derive_key_pub_ok ai b i :
  is_hardened b = false -> is_hardened i = false ->
  derive_key ai b i false = DOk (XPub (path_skey (ai_pub ai) b i)).
Proof. intros H1 H2. unfold derive_key. simpl. rewrite H1. simpl. rewrite H2. reflexivity. Qed.

Lemma mk_maddr_spec s path key fmt ai ma :
  mk_maddr s path key fmt ai = Some ma ->
  ma_scope ma = s /\ ma_path ma = path /\ ma_fmt ma = fmt /\ ma_pub ma = Pub (x_skey key) /\
  ma_imported ma = false /\ ma_internal ma = false /\
  ma_enc ma = (if x_is_private key then Some (Priv (x_skey key)) else None) /\ ma_ct ma = ma_enc ma.
Proof.
  unfold mk_maddr. destruct key as [k w|k].
  - destruct (ai_priv ai).
    + destruct (derive_key ai (dp_branch path) (dp_index path) true) as [rk| |]; try discriminate.
      destruct (skey_eq_dec (x_skey rk) k); [|discriminate]. intros H. inversion H. subst. simpl. tauto.
    + intros H. inversion H. subst. simpl. tauto.
  - intros H. inversion H. subst. simpl. tauto.
Qed.

(** a key derived through [derive_key] always passes the re-derivation check *)
Lemma mk_maddr_total s path key fmt ai pr :
  ai_wf ai -> derive_key ai (dp_branch path) (dp_index path) pr = DOk key ->
  mk_maddr s path key fmt ai <> None.
Proof.
  intros Hwf Hd. unfold mk_maddr. destruct key as [k w|k]; [|discriminate].
  destruct (derive_key_spec _ _ _ _ _ Hwf Hd) as (Hp & Hk & Hn). simpl in Hp. subst pr. simpl in Hk.
  destruct (ai_priv ai) as [p|] eqn:Ep; [|discriminate].
  destruct (Hwf p Ep) as (Epub & Hshape).
  rewrite (derive_key_priv_ok _ _ _ _ Ep Hshape). simpl. rewrite Epub, <- Hk.
  destruct (skey_eq_dec k k); [discriminate|contradiction].
Qed.

Lemma ai_static_wf seed D lk s a ai : disk_ok seed D -> ai_static D lk s a ai -> ai_wf ai.
Proof.
  intros (_ & _ & Hr & _) (row & H1 & _ & H3 & _ & _ & _ & H7) p Hp.
  destruct (Hr s a row H1) as (Hrow & _). rewrite H7 in Hp. destruct lk; [discriminate|].
  unfold row_ok in Hrow. destruct (ar_kind row).
  - destruct Hrow as (Ek & E & _). rewrite E in Hp. inversion Hp. split; [congruence|].
    rewrite Ek. unfold acct_shape. eauto.
  - destruct Hrow as (_ & E). rewrite E in Hp. discriminate.
Qed.

Lemma acct_fmt_row_fmt sch ai row b :
  ai_schema ai = ar_schema row -> acct_fmt sch ai (b =? internal_branch) = row_fmt sch row b.
Proof. intros H. unfold acct_fmt, row_fmt. rewrite H. reflexivity. Qed.

(** what a result of a helper must satisfy *)
Definition res_post {A} (seed : N) (lk : bool) (st : state) (r : res A) (P : state -> A -> Prop) : Prop :=
  match r with
  | Ok st' a => Inv0 seed lk st' /\ ext st st' /\ P st' a
  | Err st' _ => Inv0 seed lk st' /\ ext st st'
  end.

Lemma res_post_bind {A B} seed lk st (r : res A) (f : state -> A -> res B) (P : state -> A -> Prop) (Q : state -> B -> Prop) :
  res_post seed lk st r P ->
  (forall st1 a, Inv0 seed lk st1 -> ext st st1 -> P st1 a ->
     res_post seed lk st1 (f st1 a) (fun st2 b => ext st st2 -> Q st2 b)) ->
  res_post seed lk st (bind r f) Q.
Proof.
  intros H1 H2. destruct r as [st1 a|st1 e]; simpl in *; [|exact H1].
  destruct H1 as (I1 & E1 & P1). specialize (H2 st1 a I1 E1 P1).
  destruct (f st1 a) as [st2 b|st2 e]; simpl in *.
  - destruct H2 as (I2 & E2 & Q2). pose proof (ext_trans _ _ _ E1 E2). tauto.
  - destruct H2 as (I2 & E2). pose proof (ext_trans _ _ _ E1 E2). tauto.
Qed.

Lemma res_post_weaken {A} seed lk st (r : res A) (P Q : state -> A -> Prop) :
  res_post seed lk st r P -> (forall st' a, Inv0 seed lk st' -> ext st st' -> P st' a -> Q st' a) ->
  res_post seed lk st r Q.
Proof. destruct r; simpl; [|tauto]. intros (H1 & H2 & H3) H. auto. Qed.

(** facts about a freshly created chain-address object *)
Definition new_chain_obj (st' : state) (oid : nat) (s : scope) (path : dpath) (fmt : afmt) (key : xkey) : Prop :=
  exists ma, nth_error (m_heap (st_mem st')) oid = Some (MKey ma) /\
    ma_scope ma = s /\ ma_path ma = path /\ ma_fmt ma = fmt /\ ma_pub ma = Pub (x_skey key) /\
    ma_imported ma = false /\ ma_internal ma = (dp_branch path =? internal_branch) /\
    ma_enc ma = (if x_is_private key then Some (Priv (x_skey key)) else None).

(** an object created for account (s, a): when that account has a private key
    the object holds its private key, or the manager is locked and the object
    waits in the unlock queue *)
Definition fresh_ok (st : state) (s : scope) (a : N) (oid : nat) : Prop :=
  exists ma, nth_error (m_heap (st_mem st)) oid = Some (MKey ma) /\
    ma_imported ma = false /\ ma_scope ma = s /\ dp_iacct (ma_path ma) = a /\
    (forall row, aget sa_dec (d_accts (st_disk st)) (s, a) = Some row -> ar_priv row <> None ->
       ma_enc ma <> None \/
       (m_locked (st_mem st) = true /\
        In (s, oid, dp_branch (ma_path ma), dp_index (ma_path ma)) (m_queue (st_mem st)))).

Lemma fresh_ok_ext st st' s a oid : ext st st' -> fresh_ok st s a oid -> fresh_ok st' s a oid.
Proof.
  intros E (ma & H1 & H2 & H3 & H4 & H5). exists ma.
  split; [apply (ext_heap _ _ E); exact H1|]. splits; try assumption.
  rewrite (ext_locked _ _ E), (ext_accts _ _ E). intros row Hr Hp.
  destruct (H5 row Hr Hp) as [H|(H & H')]; [left; exact H|right; split; [exact H|apply (ext_queue _ _ E); exact H']].
Qed.

Section helpers.
  Context (seed : N) (lk : bool).

  (** the object of [mk_maddr] satisfies [obj_ok] when its key is the child of the account row *)
  Lemma chain_obj_ok D M s sch path key fmt ai ma internal :
    disk_ok seed D -> scopes_ok D M -> In (s, sch) (m_scopes M) ->
    ai_static D lk s (dp_iacct path) ai ->
    mk_maddr s path key fmt ai = Some ma ->
    x_skey key = path_skey (ai_pub ai) (dp_branch path) (dp_index path) ->
    fmt = acct_fmt sch ai (dp_branch path =? internal_branch) ->
    internal = (dp_branch path =? internal_branch) ->
    obj_ok D (MKey (set_internal internal ma)).
  Proof.
    intros HD HS Hs Hai Hmk Hk Hf Hi.
    destruct (mk_maddr_spec _ _ _ _ _ _ Hmk) as (E1 & E2 & E3 & E4 & E5 & E6 & E7 & E8).
    destruct (HS s sch Hs) as (coin & Hsc).
    destruct Hai as (row & R1 & R2 & R3 & R4 & R5 & R6 & R7).
    simpl. split.
    - unfold keys_ok. simpl. rewrite E8, E7, E4. simpl.
      split; intros k Hk'; destruct (x_is_private key); inversion Hk'; reflexivity.
    - rewrite E5. unfold chain_ok. simpl. rewrite E1, E2. exists row, sch, coin.
      repeat split; try assumption.
      + rewrite E4, Hk, R3. reflexivity.
      + rewrite E3, Hf. apply acct_fmt_row_fmt. exact R5.
  Qed.

  Lemma key_to_managed_post st s sch key path ai :
    Inv0 seed lk st ->
    In (s, sch) (m_scopes (st_mem st)) ->
    ai_static (st_disk st) lk s (dp_iacct path) ai ->
    x_skey key = path_skey (ai_pub ai) (dp_branch path) (dp_index path) ->
    (m_locked (st_mem st) = false -> ai_enc ai <> None -> x_is_private key = true) ->
    res_post seed lk st (key_to_managed st s sch key path ai) (fun st' oid =>
      oid = length (m_heap (st_mem st)) /\
      new_chain_obj st' oid s path (acct_fmt sch ai (dp_branch path =? internal_branch)) key /\
      fresh_ok st' s (dp_iacct path) oid /\
      length (m_heap (st_mem st')) = S (length (m_heap (st_mem st))) /\
      st_disk st' = st_disk st /\ m_accts (st_mem st') = m_accts (st_mem st) /\
      m_addrs (st_mem st') = m_addrs (st_mem st) /\
      m_queue (st_mem st') = (if x_is_private key || negb (is_some (ai_enc ai)) then m_queue (st_mem st)
                              else m_queue (st_mem st) ++ [(s, oid, dp_branch path, dp_index path)])).
  Proof.
    intros I Hs Hai Hk Hpriv. unfold key_to_managed.
    destruct (mk_maddr s path key _ ai) as [ma|] eqn:Hmk; [|simpl; split; [exact I|apply ext_refl]].
    assert (Hobj : obj_ok (st_disk st) (MKey (set_internal (dp_branch path =? internal_branch) ma))).
    { eapply chain_obj_ok; eauto using i_disk, i_scopes. }
    destruct (alloc_post seed lk st _ I Hobj) as (I1 & E1 & A1 & A2 & A3 & A4 & A5 & A6).
    destruct (alloc st (MKey (set_internal (dp_branch path =? internal_branch) ma))) as [st1 oid] eqn:Ea.
    simpl in A1. subst oid. simpl in I1, E1, A2, A3, A4, A5, A6.
    destruct (mk_maddr_spec _ _ _ _ _ _ Hmk) as (F1 & F2 & F3 & F4 & F5 & F6 & F7 & F8).
    set (o := MKey (set_internal (dp_branch path =? internal_branch) ma)) in *.
    assert (Hnth : nth_error (m_heap (st_mem st1)) (length (m_heap (st_mem st))) = Some o).
    { rewrite A2, nth_error_snoc, Nat.ltb_irrefl, Nat.eqb_refl. reflexivity. }
    assert (Hnew : forall st2, nth_error (m_heap (st_mem st2)) (length (m_heap (st_mem st))) = Some o ->
                   new_chain_obj st2 (length (m_heap (st_mem st))) s path
                                 (acct_fmt sch ai (dp_branch path =? internal_branch)) key).
    { intros st2 H2. eexists. split; [exact H2|]. simpl. repeat split; assumption. }
    pose proof Hai as (row0 & R1 & R2 & R3 & R4 & _).
    assert (Hfresh : forall st2, nth_error (m_heap (st_mem st2)) (length (m_heap (st_mem st))) = Some o ->
                   m_locked (st_mem st2) = m_locked (st_mem st) -> d_accts (st_disk st2) = d_accts (st_disk st) ->
                   (x_is_private key = false -> ai_enc ai <> None ->
                    In (s, length (m_heap (st_mem st)), dp_branch path, dp_index path) (m_queue (st_mem st2))) ->
                   fresh_ok st2 s (dp_iacct path) (length (m_heap (st_mem st)))).
    { intros st2 H2 H3 H4 H5. exists (set_internal (dp_branch path =? internal_branch) ma).
      split; [exact H2|]. simpl. rewrite F1, F2, F7. splits; try assumption; try reflexivity.
      intros row Hrow Hp. rewrite H3. rewrite H4 in Hrow. simpl. rewrite ?F7, ?F2.
      rewrite R1 in Hrow. inversion Hrow. subst row0.
      assert (He : ai_enc ai <> None) by (rewrite R4; exact Hp).
      destruct (x_is_private key) eqn:Ek; [left; simpl; discriminate|right].
      split; [|apply H5; [reflexivity|exact He]].
      destruct (m_locked (st_mem st)) eqn:El; [reflexivity|].
      exfalso. assert (Hx : false = true) by (apply Hpriv; [reflexivity|exact He]). discriminate Hx. }
    destruct (x_is_private key || negb (is_some (ai_enc ai))) eqn:Hp; simpl.
    - split; [exact I1|]. split; [exact E1|]. repeat split; try assumption; try congruence.
      + apply Hnew. exact Hnth.
      + apply Hfresh; try assumption; try congruence; [apply (ext_locked _ _ E1)|].
        intros Ek He. rewrite Ek in Hp. simpl in Hp. destruct (ai_enc ai); [discriminate|contradiction].
      + rewrite A2, app_length. simpl. lia.
    - apply orb_false_iff in Hp. destruct Hp as (Hp1 & Hp2). apply negb_false_iff in Hp2.
      assert (Hq : Inv0 seed lk (enqueue st1 s (length (m_heap (st_mem st))) (dp_branch path) (dp_index path)) /\
                   ext st1 (enqueue st1 s (length (m_heap (st_mem st))) (dp_branch path) (dp_index path))).
      { apply (enqueue_post seed lk st1 s _ _ _ _ I1 Hnth); simpl.
        - exact F5.
        - exact F1.
        - rewrite F2. reflexivity.
        - rewrite F2. reflexivity.
        - rewrite (ext_mscopes _ _ E1). destruct (In_aget scope_eq_dec _ _ _ Hs) as (v & ->). reflexivity.
        - rewrite F2, A3. exists row0. split; [exact R1|]. rewrite <- R4. destruct (ai_enc ai); [discriminate|discriminate]. }
      destruct Hq as (I2 & E2). split; [exact I2|]. split; [eapply ext_trans; eauto|].
      repeat split; try (unf; congruence).
      + apply Hnew. unf. exact Hnth.
      + apply Hfresh; unf; try assumption; try congruence.
        * apply (ext_locked _ _ E1).
        * intros _ _. rewrite A4. apply in_or_app. right. left. reflexivity.
      + unf. rewrite A2, app_length. simpl. lia.
  Qed.

  Lemma key_to_managed_total st s sch key path ai :
    mk_maddr s path key (acct_fmt sch ai (dp_branch path =? internal_branch)) ai <> None ->
    exists st' oid, key_to_managed st s sch key path ai = Ok st' oid.
  Proof.
    intros H. unfold key_to_managed. destruct (mk_maddr _ _ _ _ _); [|contradiction].
    destruct (alloc st _). eauto.
  Qed.

  (** the "last address" objects of loadAccountInfo *)
  Definition last_obj (st : state) (s : scope) (sch : schema) (a : N) (ai : acct_info) (has_priv : bool)
             (branch next : N) : res nat :=
    match derive_key ai branch (last_index next) has_priv with
    | DOk k => key_to_managed st s sch k (mkPath a (child_num (ai_pub ai)) branch (last_index next) (ai_fp ai)) ai
    | DErr => Err st EKeyChain
    | DPanic => Err st EPanic
    end.

  Lemma last_index_not_hardened next : next <= hardened_start -> is_hardened (last_index next) = false.
  Proof.
    intros H. unfold is_hardened, last_index. destruct (0 <? next) eqn:E.
    - apply N.leb_gt. apply N.ltb_lt in E. lia.
    - reflexivity.
  Qed.

  Lemma last_obj_post st s sch a ai has_priv branch next :
    Inv0 seed lk st -> m_locked (st_mem st) = lk ->
    In (s, sch) (m_scopes (st_mem st)) ->
    ai_static (st_disk st) lk s a ai ->
    has_priv = negb lk && is_some (ai_enc ai) ->
    (branch = external_branch \/ branch = internal_branch) -> next <= hardened_start ->
    exists st' oid, last_obj st s sch a ai has_priv branch next = Ok st' oid /\
      Inv0 seed lk st' /\ ext st st' /\ oid = length (m_heap (st_mem st)) /\ fresh_ok st' s a oid /\
      length (m_heap (st_mem st')) = S (length (m_heap (st_mem st))) /\
      st_disk st' = st_disk st /\ m_accts (st_mem st') = m_accts (st_mem st) /\
      m_addrs (st_mem st') = m_addrs (st_mem st).
  Proof.
    intros I Hl Hs Hai Hhp Hb Hn.
    pose proof (ai_static_wf _ _ _ _ _ _ (i_disk _ _ _ I) Hai) as Hwf.
    assert (Hd : exists k, derive_key ai branch (last_index next) has_priv = DOk k).
    { destruct has_priv.
      - destruct Hai as (row & R1 & R2 & R3 & R4 & R5 & R6 & R7).
        destruct lk; [discriminate|]. simpl in Hhp. rewrite R4 in Hhp.
        destruct (ar_priv row) as [p|] eqn:Ep; [|discriminate].
        eexists. apply (derive_key_priv_wf _ _ _ p Hwf). exact R7.
      - eexists. apply derive_key_pub_ok; [destruct Hb; subst; reflexivity|apply last_index_not_hardened; exact Hn]. }
    destruct Hd as (k & Hd). unfold last_obj. rewrite Hd.
    set (path := mkPath a (child_num (ai_pub ai)) branch (last_index next) (ai_fp ai)).
    destruct (derive_key_spec _ _ _ _ _ Hwf Hd) as (D1 & D2 & D3).
    assert (Htot : mk_maddr s path k (acct_fmt sch ai (dp_branch path =? internal_branch)) ai <> None).
    { eapply mk_maddr_total; eauto. }
    destruct (key_to_managed_total st s sch k path ai Htot) as (st' & oid & Hk).
    assert (Hpost := key_to_managed_post st s sch k path ai I Hs Hai D2).
    rewrite Hk in Hpost. simpl in Hpost.
    destruct Hpost as (I' & E' & P1 & P2 & P3 & P4 & P5 & P6 & P7 & P8).
    { intros Hul Henc. rewrite D1, Hhp. rewrite <- Hl, Hul. simpl. destruct (ai_enc ai); [reflexivity|contradiction]. }
    exists st', oid. rewrite Hk. splits; try assumption; reflexivity.
  Qed.

  Lemma load_acct_unfold st s sch a :
    load_acct st s sch a =
    match aget sa_dec (m_accts (st_mem st)) (s, a) with
    | Some ai => Ok st ai
    | None =>
      if a =? imported_acct then Err st ECrypto
      else match aget sa_dec (d_accts (st_disk st)) (s, a) with
           | None => Err st EAcctNotFound
           | Some row =>
             let has_priv := negb (locked st) && match ar_kind row with ADefault => true | AWatchOnly => false end in
             let ai := mkAI (ar_kind row) (ar_pub row) (ar_priv row) (if has_priv then ar_priv row else None)
                            (ar_schema row) (ar_fp row) (disk_next (st_disk st) s a false)
                            (disk_next (st_disk st) s a true) in
             bind (last_obj st s sch a ai has_priv external_branch (ai_next_ext ai)) (fun st _ =>
             bind (last_obj st s sch a ai has_priv internal_branch (ai_next_int ai)) (fun st _ =>
             Ok (cache_acct st s a ai) ai))
           end
    end.
  Proof. reflexivity. Qed.

  Lemma load_acct_post st s sch a :
    Inv0 seed lk st -> m_locked (st_mem st) = lk ->
    In (s, sch) (m_scopes (st_mem st)) ->
    match load_acct st s sch a with
    | Ok st' ai =>
      Inv0 seed lk st' /\ ext st st' /\
      aget sa_dec (m_accts (st_mem st')) (s, a) = Some ai /\
      st_disk st' = st_disk st /\ m_addrs (st_mem st') = m_addrs (st_mem st) /\
      (forall k, k <> (s, a) -> aget sa_dec (m_accts (st_mem st')) k = aget sa_dec (m_accts (st_mem st)) k) /\
      (forall ai0, aget sa_dec (m_accts (st_mem st)) (s, a) = Some ai0 -> st' = st /\ ai = ai0) /\
      (aget sa_dec (m_accts (st_mem st)) (s, a) = None ->
         ai_next_ext ai = disk_next (st_disk st) s a false /\ ai_next_int ai = disk_next (st_disk st) s a true) /\
      (forall oid, (length (m_heap (st_mem st)) <= oid < length (m_heap (st_mem st')))%nat -> fresh_ok st' s a oid)
    | Err st' e => st' = st /\ aget sa_dec (m_accts (st_mem st)) (s, a) = None
    end.
  Proof.
    intros I Hl Hs. rewrite load_acct_unfold.
    destruct (aget sa_dec (m_accts (st_mem st)) (s, a)) as [ai0|] eqn:Hc.
    - splits; try reflexivity; try assumption.
      + apply ext_refl.
      + intros ai1 H. inversion H. split; reflexivity.
      + discriminate.
      + intros oid H. lia.
    - destruct (a =? imported_acct); [split; reflexivity|].
      destruct (aget sa_dec (d_accts (st_disk st)) (s, a)) as [row|] eqn:Hr; [|split; reflexivity].
      cbv zeta.
      set (has_priv := negb (locked st) && match ar_kind row with ADefault => true | AWatchOnly => false end).
      set (ai := mkAI (ar_kind row) (ar_pub row) (ar_priv row) (if has_priv then ar_priv row else None)
                      (ar_schema row) (ar_fp row) (disk_next (st_disk st) s a false) (disk_next (st_disk st) s a true)).
      destruct (i_disk _ _ _ I) as (_ & _ & HR & _ & HN & _).
      destruct (HR s a row Hr) as (Hrow & _).
      assert (Hkind : has_priv = negb lk && is_some (ar_priv row)).
      { unfold has_priv, locked. rewrite Hl. unfold row_ok in Hrow. destruct (ar_kind row).
        - destruct Hrow as (_ & E & _). rewrite E. reflexivity.
        - destruct Hrow as (_ & E). rewrite E. reflexivity. }
      assert (Hai : ai_static (st_disk st) lk s a ai).
      { exists row. unfold ai. simpl. repeat split; try assumption; try reflexivity.
        rewrite Hkind. destruct lk; simpl; [reflexivity|]. destruct (ar_priv row); reflexivity. }
      assert (Hnb : forall i, disk_next (st_disk st) s a i <= hardened_start).
      { intros i. unfold disk_next. destruct (aget sab_dec (d_next (st_disk st)) (s, a, i)) eqn:E; [eauto|].
        unfold hardened_start. lia. }
      destruct (last_obj_post st s sch a ai has_priv external_branch (ai_next_ext ai) I Hl Hs Hai Hkind
                              (or_introl eq_refl) (Hnb false))
        as (st1 & oid1 & L1 & I1 & E1 & O1 & F1 & N1 & D1 & A1 & B1).
      rewrite L1. cbn [bind].
      assert (Hai1 : ai_static (st_disk st1) lk s a ai) by (rewrite D1; exact Hai).
      assert (Hl1 : m_locked (st_mem st1) = lk) by (rewrite (ext_locked _ _ E1); exact Hl).
      assert (Hs1 : In (s, sch) (m_scopes (st_mem st1))) by (rewrite (ext_mscopes _ _ E1); exact Hs).
      destruct (last_obj_post st1 s sch a ai has_priv internal_branch (ai_next_int ai) I1 Hl1 Hs1 Hai1 Hkind
                              (or_intror eq_refl) (Hnb true))
        as (st2 & oid2 & L2 & I2 & E2 & O2 & F2 & N2 & D2 & A2 & B2).
      rewrite L2. cbn [bind].
      assert (Hai2 : ai_static (st_disk st2) lk s a ai) by (rewrite D2; exact Hai1).
      destruct (cache_acct_post seed lk st2 s a ai I2 Hai2) as (I3 & E3).
      pose proof (ext_trans _ _ _ E1 E2) as E12. pose proof (ext_trans _ _ _ E12 E3) as E13.
      split; [exact I3|]. split; [exact E13|].
      split; [unf; apply aget_aset_eq|].
      split; [unf; congruence|]. split; [unf; congruence|].
      split; [intros k Hk; unf; rewrite aget_aset_neq by exact Hk; congruence|].
      split; [intros ai1 H; discriminate|].
      split; [intros _; split; reflexivity|].
      intros oid Ho. assert (Hlen : length (m_heap (st_mem (cache_acct st2 s a ai))) = length (m_heap (st_mem st2))) by (unf; reflexivity).
      rewrite Hlen, N2, N1 in Ho.
      assert (oid = oid1 \/ oid = oid2) as [->| ->] by lia.
      + eapply fresh_ok_ext; [|exact F1]. eapply ext_trans; eauto.
      + eapply fresh_ok_ext; [|exact F2]. exact E3.
  Qed.
End helpers.

(** new objects: a chain-address object is created for a cached account and
    holds its key or is queued (imported keys and scripts carry their secret
    from the start) *)
Definition fresh (st : state) (oid : nat) : Prop :=
  forall ma, nth_error (m_heap (st_mem st)) oid = Some (MKey ma) -> ma_imported ma = false ->
    exists s a, fresh_ok st s a oid /\ is_some (aget sa_dec (m_accts (st_mem st)) (s, a)) = true.

Definition new_fresh (st st' : state) : Prop :=
  forall oid, (length (m_heap (st_mem st)) <= oid < length (m_heap (st_mem st')))%nat -> fresh st' oid.

Lemma fresh_ext st st' oid :
  ext st st' -> (oid < length (m_heap (st_mem st)))%nat -> fresh st oid -> fresh st' oid.
Proof.
  intros E Hlt F ma Hn Hi.
  destruct (nth_error (m_heap (st_mem st)) oid) as [o|] eqn:Eo.
  - pose proof (ext_heap _ _ E _ _ Eo) as Eo'. rewrite Hn in Eo'. inversion Eo'. subst o.
    destruct (F ma Eo Hi) as (s & a & H1 & H2). exists s, a. split; [eapply fresh_ok_ext; eauto|].
    destruct (aget sa_dec (m_accts (st_mem st)) (s, a)) as [ai|] eqn:Ea; [|discriminate].
    destruct (ext_cached _ _ E _ _ Ea) as (ai' & ->). reflexivity.
  - apply nth_error_None in Eo. lia.
Qed.

Lemma new_fresh_refl st : new_fresh st st.
Proof. intros oid H. lia. Qed.

Lemma new_fresh_trans a b c : ext b c -> new_fresh a b -> new_fresh b c -> new_fresh a c.
Proof.
  intros E H1 H2 oid Ho.
  destruct (Nat.ltb_spec oid (length (m_heap (st_mem b)))) as [Hlt|Hge].
  - eapply fresh_ext; [exact E|exact Hlt|]. apply H1. lia.
  - apply H2. lia.
Qed.

Lemma new_fresh_same_heap a b c :
  ext b c -> new_fresh a b -> length (m_heap (st_mem c)) = length (m_heap (st_mem b)) -> new_fresh a c.
Proof. intros E H1 Hl. eapply new_fresh_trans; eauto. intros oid Ho. lia. Qed.

Definition res_post' {A} (seed : N) (lk : bool) (st : state) (r : res A) (P : state -> A -> Prop) : Prop :=
  match r with
  | Ok st' a => Inv0 seed lk st' /\ ext st st' /\ new_fresh st st' /\ P st' a
  | Err st' _ => Inv0 seed lk st' /\ ext st st' /\ new_fresh st st'
  end.

Lemma res_post_bind' {A B} seed lk st (r : res A) (f : state -> A -> res B)
      (P : state -> A -> Prop) (Q : state -> B -> Prop) :
  res_post' seed lk st r P ->
  (forall st1 a, Inv0 seed lk st1 -> ext st st1 -> P st1 a ->
     res_post' seed lk st1 (f st1 a) Q) ->
  res_post' seed lk st (bind r f) Q.
Proof.
  intros H1 H2. destruct r as [st1 a|st1 e]; simpl in *; [|exact H1].
  destruct H1 as (I1 & E1 & N1 & P1). specialize (H2 st1 a I1 E1 P1).
  destruct (f st1 a) as [st2 b|st2 e]; simpl in *.
  - destruct H2 as (I2 & E2 & N2 & Q2). pose proof (ext_trans _ _ _ E1 E2) as E12.
    splits; [exact I2|exact E12|exact (new_fresh_trans _ _ _ E2 N1 N2)|exact Q2].
  - destruct H2 as (I2 & E2 & N2). pose proof (ext_trans _ _ _ E1 E2) as E12.
    splits; [exact I2|exact E12|exact (new_fresh_trans _ _ _ E2 N1 N2)].
Qed.

Lemma res_post_weaken' {A} seed lk st (r : res A) (P Q : state -> A -> Prop) :
  res_post' seed lk st r P ->
  (forall st' a, Inv0 seed lk st' -> ext st st' -> P st' a -> Q st' a) ->
  res_post' seed lk st r Q.
Proof. destruct r; simpl; [|tauto]. intros (H1 & H2 & H3 & H4) H. splits; auto. Qed.

(** a chain-address object of account (s, a), branch b, index i *)
Definition chain_obj_at (st : state) (oid : nat) (s : scope) (a b i : N) : Prop :=
  exists ma row sch coin,
    nth_error (m_heap (st_mem st)) oid = Some (MKey ma) /\ ma_imported ma = false /\ ma_scope ma = s /\
    dp_iacct (ma_path ma) = a /\ dp_branch (ma_path ma) = b /\ dp_index (ma_path ma) = i /\
    aget sa_dec (d_accts (st_disk st)) (s, a) = Some row /\
    aget scope_eq_dec (d_scopes (st_disk st)) s = Some (sch, coin) /\
    ma_pub ma = Pub (path_skey (ar_pub row) b i) /\ ma_fmt ma = row_fmt sch row b /\
    ma_internal ma = (b =? internal_branch).

Lemma chain_obj_at_ext st st' oid s a b i : ext st st' -> chain_obj_at st oid s a b i -> chain_obj_at st' oid s a b i.
Proof.
  intros E (ma & row & sch & coin & H1 & H). exists ma, row, sch, coin.
  rewrite (ext_accts _ _ E), (ext_dscopes _ _ E). split; [apply (ext_heap _ _ E); exact H1|exact H].
Qed.

(** from the generic facts about a new object to [chain_obj_at] *)
Lemma new_chain_obj_at seed lk st oid s path fmt key ai sch :
  Inv0 seed lk st -> In (s, sch) (m_scopes (st_mem st)) ->
  ai_static (st_disk st) lk s (dp_iacct path) ai ->
  new_chain_obj st oid s path fmt key ->
  x_skey key = path_skey (ai_pub ai) (dp_branch path) (dp_index path) ->
  fmt = acct_fmt sch ai (dp_branch path =? internal_branch) ->
  chain_obj_at st oid s (dp_iacct path) (dp_branch path) (dp_index path).
Proof.
  intros I Hs (row & R1 & R2 & R3 & R4 & R5 & R6 & R7) (ma & N1 & N2 & N3 & N4 & N5 & N6 & N7 & N8) Hk Hf.
  destruct (i_scopes _ _ _ I s sch Hs) as (coin & Hc).
  exists ma, row, sch, coin. rewrite N3. splits; try assumption; try reflexivity.
  - rewrite N5, Hk, R3. reflexivity.
  - rewrite N4, Hf. apply acct_fmt_row_fmt. exact R5.
Qed.

Lemma key_to_managed_err st s sch key path ai st' e :
  key_to_managed st s sch key path ai = Err st' e -> st' = st.
Proof.
  unfold key_to_managed. destruct (mk_maddr _ _ _ _ _).
  - destruct (alloc st _). discriminate.
  - intros H. inversion H. reflexivity.
Qed.

(** the lookup helpers never write the database *)
Definition res_disk {A} (st : state) (r : res A) : Prop :=
  match r with Ok st' _ | Err st' _ => st_disk st' = st_disk st end.

Lemma res_disk_bind {A B} st (r : res A) (f : state -> A -> res B) :
  res_disk st r -> (forall st1 a, st_disk st1 = st_disk st -> res_disk st1 (f st1 a)) -> res_disk st (bind r f).
Proof.
  destruct r as [st1 a|st1 e]; simpl; [|tauto]. intros H1 H2. specialize (H2 st1 a H1).
  destruct (f st1 a); simpl in *; congruence.
Qed.

Lemma key_to_managed_disk st s sch key path ai : res_disk st (key_to_managed st s sch key path ai).
Proof.
  unfold key_to_managed. destruct (mk_maddr _ _ _ _ _); [|reflexivity].
  destruct (alloc st _) as [st1 oid] eqn:Ea. unfold alloc in Ea. inversion Ea. subst.
  destruct (x_is_private key || _); reflexivity.
Qed.

Lemma key_to_managed_accts st s sch key path ai :
  match key_to_managed st s sch key path ai with
  | Ok st' _ | Err st' _ => m_accts (st_mem st') = m_accts (st_mem st)
  end.
Proof.
  unfold key_to_managed. destruct (mk_maddr _ _ _ _ _); [|reflexivity].
  destruct (alloc st _) as [st1 oid] eqn:Ea. unfold alloc in Ea. inversion Ea. subst.
  destruct (x_is_private key || _); reflexivity.
Qed.

Lemma load_acct_disk st s sch a : res_disk st (load_acct st s sch a).
Proof.
  unfold load_acct. destruct (aget sa_dec _ _); [reflexivity|].
  destruct (a =? imported_acct); [reflexivity|].
  destruct (aget sa_dec (d_accts _) _); [|reflexivity]. cbv zeta.
  apply res_disk_bind.
  - destruct (derive_key _ _ _ _); try reflexivity. apply key_to_managed_disk.
  - intros st1 _ H1. apply res_disk_bind.
    + destruct (derive_key _ _ _ _); try reflexivity. apply key_to_managed_disk.
    + intros st2 _ H2. reflexivity.
Qed.

Lemma chain_row_to_managed_disk st s sch a b i : res_disk st (chain_row_to_managed st s sch a b i).
Proof.
  unfold chain_row_to_managed. apply res_disk_bind; [apply load_acct_disk|].
  intros st1 ai H1. cbv zeta. destruct (derive_key _ _ _ _); try reflexivity. apply key_to_managed_disk.
Qed.

Lemma load_and_cache_disk st s sch k : res_disk st (load_and_cache st s sch k).
Proof.
  unfold load_and_cache. destruct (aget sk_dec _ _) as [row|]; [|reflexivity].
  apply res_disk_bind.
  - destruct row; simpl; try reflexivity. apply chain_row_to_managed_disk.
  - intros st1 oid H1. destruct (heap_get st1 oid); reflexivity.
Qed.

Lemma scoped_address_disk st s sch k : res_disk st (scoped_address st s sch k).
Proof. unfold scoped_address. destruct (aget sk_dec _ _); [reflexivity|apply load_and_cache_disk]. Qed.

Lemma mgr_address_disk scopes st k : res_disk st (mgr_address scopes st k).
Proof.
  revert st. induction scopes as [|[s sch] rest IH]; intros st; simpl; [reflexivity|].
  pose proof (scoped_address_disk st s sch k) as H.
  destruct (scoped_address st s sch k) as [st1 oid|st1 e]; simpl in *; [exact H|].
  specialize (IH st1). destruct (mgr_address rest st1 k); simpl in *; congruence.
Qed.

Section lookup.
  Context (seed : N) (lk : bool).

  Lemma load_acct_post' st s sch a :
    Inv0 seed lk st -> m_locked (st_mem st) = lk ->
    In (s, sch) (m_scopes (st_mem st)) ->
    res_post' seed lk st (load_acct st s sch a) (fun st' ai =>
      aget sa_dec (m_accts (st_mem st')) (s, a) = Some ai /\ ai_static (st_disk st') lk s a ai /\
      st_disk st' = st_disk st /\ m_addrs (st_mem st') = m_addrs (st_mem st) /\
      (forall k, k <> (s, a) -> aget sa_dec (m_accts (st_mem st')) k = aget sa_dec (m_accts (st_mem st)) k) /\
      (forall ai0, aget sa_dec (m_accts (st_mem st)) (s, a) = Some ai0 -> st' = st /\ ai = ai0) /\
      (aget sa_dec (m_accts (st_mem st)) (s, a) = None ->
         ai_next_ext ai = disk_next (st_disk st) s a false /\ ai_next_int ai = disk_next (st_disk st) s a true)).
  Proof.
    intros I Hl Hs. pose proof (load_acct_post seed lk st s sch a I Hl Hs) as H.
    destruct (load_acct st s sch a) as [st' ai|st' e]; simpl.
    - destruct H as (I' & E' & C & D & A & K & S & N & F). splits; try assumption.
      + intros oid Ho ma _ _. exists s, a. split; [apply F; exact Ho|rewrite C; reflexivity].
      + apply (i_accts _ _ _ I' _ _ _ C).
    - destruct H as (-> & _). splits; [exact I|apply ext_refl|apply new_fresh_refl].
  Qed.

  Lemma key_to_managed_post' st s sch key path ai :
    Inv0 seed lk st ->
    In (s, sch) (m_scopes (st_mem st)) ->
    aget sa_dec (m_accts (st_mem st)) (s, dp_iacct path) = Some ai ->
    x_skey key = path_skey (ai_pub ai) (dp_branch path) (dp_index path) ->
    (m_locked (st_mem st) = false -> ai_enc ai <> None -> x_is_private key = true) ->
    res_post' seed lk st (key_to_managed st s sch key path ai) (fun st' oid =>
      oid = length (m_heap (st_mem st)) /\
      new_chain_obj st' oid s path (acct_fmt sch ai (dp_branch path =? internal_branch)) key /\
      chain_obj_at st' oid s (dp_iacct path) (dp_branch path) (dp_index path) /\
      st_disk st' = st_disk st /\ m_accts (st_mem st') = m_accts (st_mem st) /\
      m_addrs (st_mem st') = m_addrs (st_mem st)).
  Proof.
    intros I Hs Hc Hk Hp. pose proof (i_accts _ _ _ I _ _ _ Hc) as Hai.
    pose proof (key_to_managed_post seed lk st s sch key path ai I Hs Hai Hk Hp) as H.
    destruct (key_to_managed st s sch key path ai) as [st' oid|st' e] eqn:Ek; simpl in *.
    - destruct H as (I' & E' & P1 & P2 & P3 & P4 & P5 & P6 & P7 & P8). splits; try assumption.
      + intros o Ho ma _ _. assert (o = oid) as -> by (clear - Ho P1 P4; lia). exists s, (dp_iacct path). split; [exact P3|].
        rewrite P6, Hc. reflexivity.
      + eapply new_chain_obj_at; eauto.
        * rewrite (ext_mscopes _ _ E'). exact Hs.
        * rewrite P5. exact Hai.
    - destruct H as (I' & E'). splits; try assumption.
      rewrite (key_to_managed_err _ _ _ _ _ _ _ _ Ek). apply new_fresh_refl.
  Qed.

  (** the object found under [oid] reports the account key's child number *)
  Definition field_at (st : state) (oid : nat) : Prop :=
    exists o, nth_error (m_heap (st_mem st)) oid = Some o /\ acct_field_ok (st_disk st) o.

  Lemma chain_row_to_managed_post st s sch a b i :
    Inv0 seed lk st -> m_locked (st_mem st) = lk ->
    In (s, sch) (m_scopes (st_mem st)) ->
    res_post' seed lk st (chain_row_to_managed st s sch a b i) (fun st' oid =>
      chain_obj_at st' oid s a b i /\ field_at st' oid /\
      st_disk st' = st_disk st /\ m_addrs (st_mem st') = m_addrs (st_mem st)).
  Proof.
    intros I Hl Hs. unfold chain_row_to_managed.
    eapply res_post_bind'; [apply load_acct_post'; assumption|].
    intros st1 ai I1 E1 (C1 & S1 & D1 & A1 & _). cbv zeta.
    pose proof (ai_static_wf _ _ _ _ _ _ (i_disk _ _ _ I1) S1) as Hwf.
    set (pr := negb (locked st) && is_some (ai_priv ai)).
    destruct (derive_key ai b i pr) as [k| |] eqn:Hd;
      [|simpl; splits; [exact I1|apply ext_refl|apply new_fresh_refl]..].
    destruct (derive_key_spec _ _ _ _ _ Hwf Hd) as (K1 & K2 & K3).
    set (path := mkPath a (child_num (if pr then match ai_priv ai with Some p => p | None => ai_pub ai end
                                      else ai_pub ai)) b i (ai_fp ai)).
    assert (Hl1 : m_locked (st_mem st1) = lk) by (rewrite (ext_locked _ _ E1); exact Hl).
    assert (Hs1 : In (s, sch) (m_scopes (st_mem st1))) by (rewrite (ext_mscopes _ _ E1); exact Hs).
    assert (Hpost := key_to_managed_post' st1 s sch k path ai I1 Hs1 C1 K2).
    eapply res_post_weaken'; [apply Hpost|].
    - intros Hul Henc. rewrite K1. unfold pr, locked. rewrite Hl, <- Hl1, Hul. simpl.
      destruct S1 as (row & _ & _ & _ & R4 & _ & _ & R7). rewrite R7, <- Hl1, Hul, <- R4.
      destruct (ai_enc ai); [reflexivity|contradiction].
    - intros st2 oid I2 E2 (P1 & P2 & P3 & P4 & P5 & P6). splits; try congruence.
      + exact P3.
      + destruct P2 as (ma & N1 & N2 & N3 & _). exists (MKey ma). split; [exact N1|].
        simpl. intros _ row Hrow. rewrite N3. simpl. rewrite N2, N3, P4 in Hrow. simpl in Hrow.
        destruct S1 as (row' & R1 & _ & R3 & _). rewrite R1 in Hrow. inversion Hrow. subst row'.
        rewrite <- R3. destruct pr; [|reflexivity].
        destruct (ai_priv ai) as [p|] eqn:Ep; [rewrite (proj1 (Hwf p Ep))|]; reflexivity.
  Qed.

  Lemma row_to_managed_post st s sch k row :
    Inv0 seed lk st -> m_locked (st_mem st) = lk ->
    In (s, sch) (m_scopes (st_mem st)) ->
    aget sk_dec (d_addrs (st_disk st)) (s, k) = Some row ->
    res_post' seed lk st (row_to_managed st s sch row) (fun st' oid =>
      (exists o, nth_error (m_heap (st_mem st')) oid = Some o /\ obj_akey o = k /\ obj_scope o = s /\
                 acct_field_ok (st_disk st') o /\
                 match row with
                 | RChain a b i => chain_obj_at st' oid s a b i
                 | RImported pk _ => exists ma, o = MKey ma /\ ma_imported ma = true /\ ma_pub ma = Pub pk
                 | RScript sc _ => exists sa, o = MScript sa /\ sa_script sa = sc
                 end) /\
      st_disk st' = st_disk st /\ m_addrs (st_mem st') = m_addrs (st_mem st)).
  Proof.
    intros I Hl Hs Hrow.
    destruct (i_disk _ _ _ I) as (_ & _ & _ & HA & _). pose proof (HA s k row Hrow) as Hok.
    destruct (i_scopes _ _ _ I s sch Hs) as (coin & Hsc).
    destruct row as [a b i|pk prv|sc secret]; unfold row_to_managed; simpl in Hok.
    - eapply res_post_weaken'; [apply chain_row_to_managed_post; assumption|].
      intros st' oid I' E' (P1 & P2 & P3 & P4). splits; try assumption.
      destruct P1 as (ma & row & sch' & coin' & Q1 & Q2 & Q3 & Q4 & Q5 & Q6 & Q7 & Q8 & Q9 & Q10 & Q11).
      destruct P2 as (o & O1 & O2). rewrite Q1 in O1. inversion O1. subst o.
      exists (MKey ma). splits; try assumption.
      + destruct Hok as (row0 & sch0 & coin0 & B1 & B2 & B3). rewrite P3 in Q7, Q8.
        rewrite B1 in Q7. inversion Q7. subst row0. rewrite B2 in Q8. inversion Q8. subst sch0 coin0.
        rewrite B3. unfold obj_akey. simpl. rewrite Q9, Q10. reflexivity.
      + exists ma, row, sch', coin'. splits; assumption.
    - destruct Hok as (n & sch0 & coin0 & po & B1 & B2 & B3 & B4). rewrite Hsc in B3. inversion B3. subst sch0 coin0 pk prv.
      set (o := MKey (mkMA s imported_path (ext_fmt sch) (Pub (imp_name po n)) true false (option_map Priv (imp_priv po n)) None)).
      assert (Hobj : obj_ok (st_disk st) o).
      { simpl. split.
        - unfold keys_ok. simpl. split; intros x Hx; [|discriminate].
          destruct po; simpl in Hx; inversion Hx; reflexivity.
        - exists n, sch, coin, po. simpl. splits; try reflexivity. exact Hsc. }
      destruct (alloc_post seed lk st o I Hobj) as (I1 & E1 & A1 & A2 & A3 & A4 & A5 & A6).
      destruct (alloc st o) as [st1 oid] eqn:Ea. simpl in A1, A2, A3, A4, A5, A6, I1, E1. subst oid.
      assert (Hnth : nth_error (m_heap (st_mem st1)) (length (m_heap (st_mem st))) = Some o).
      { rewrite A2, nth_error_snoc, Nat.ltb_irrefl, Nat.eqb_refl. reflexivity. }
      simpl. splits; try assumption.
      + intros oid Ho ma Hn Hi. rewrite A2, app_length in Ho. simpl in Ho.
        assert (oid = length (m_heap (st_mem st))) as -> by lia. rewrite Hnth in Hn. inversion Hn. subst ma. discriminate.
      + exists o. splits; try assumption; try reflexivity.
        * rewrite B4. reflexivity.
        * simpl. discriminate.
        * eexists. splits; reflexivity.
    - set (o := MScript (mkSA s sc (Some sc) None secret)).
      assert (Hobj : obj_ok (st_disk st) o) by (simpl; split; [reflexivity|discriminate]).
      destruct (alloc_post seed lk st o I Hobj) as (I1 & E1 & A1 & A2 & A3 & A4 & A5 & A6).
      destruct (alloc st o) as [st1 oid] eqn:Ea. simpl in A1, A2, A3, A4, A5, A6, I1, E1. subst oid.
      assert (Hnth : nth_error (m_heap (st_mem st1)) (length (m_heap (st_mem st))) = Some o).
      { rewrite A2, nth_error_snoc, Nat.ltb_irrefl, Nat.eqb_refl. reflexivity. }
      simpl. splits; try assumption.
      + intros oid Ho ma Hn Hi. rewrite A2, app_length in Ho. simpl in Ho.
        assert (oid = length (m_heap (st_mem st))) as -> by lia. rewrite Hnth in Hn. discriminate.
      + exists o. splits; try assumption; try reflexivity.
        * rewrite Hok. reflexivity.
        * eexists. split; reflexivity.
  Qed.

  (** the object [oid] is the managed address stored/cached under key [k] of scope [s] *)
  Definition found_at (st : state) (s : scope) (k : akey) (oid : nat) : Prop :=
    exists o, nth_error (m_heap (st_mem st)) oid = Some o /\ obj_akey o = k /\ obj_scope o = s /\
              acct_field_ok (st_disk st) o.

  Lemma load_and_cache_post st s sch k :
    Inv0 seed lk st -> m_locked (st_mem st) = lk -> In (s, sch) (m_scopes (st_mem st)) ->
    res_post' seed lk st (load_and_cache st s sch k) (fun st' oid =>
      found_at st' s k oid /\ st_disk st' = st_disk st /\ aget sk_dec (m_addrs (st_mem st')) (s, k) = Some oid).
  Proof.
    intros I Hl Hs. unfold load_and_cache.
    destruct (aget sk_dec (d_addrs (st_disk st)) (s, k)) as [row|] eqn:Hrow;
      [|simpl; splits; [exact I|apply ext_refl|apply new_fresh_refl]].
    eapply res_post_bind'; [apply (row_to_managed_post st s sch k row I Hl Hs Hrow)|].
    intros st1 oid I1 E1 ((o & O1 & O2 & O3 & O4 & _) & D1 & A1).
    unfold heap_get. rewrite O1.
    destruct (cache_addr_post seed lk st1 s (obj_akey o) oid o I1 O1 eq_refl O3 O4) as (I2 & E2).
    simpl. splits; try assumption; try (unf; congruence).
    - intros x Hx. unf. lia.
    - exists o. unf. splits; assumption.
    - unf. rewrite O2. apply aget_aset_eq.
  Qed.

  Lemma scoped_address_post st s sch k :
    Inv0 seed lk st -> m_locked (st_mem st) = lk -> In (s, sch) (m_scopes (st_mem st)) ->
    res_post' seed lk st (scoped_address st s sch k) (fun st' oid =>
      found_at st' s k oid /\ st_disk st' = st_disk st /\ aget sk_dec (m_addrs (st_mem st')) (s, k) = Some oid).
  Proof.
    intros I Hl Hs. unfold scoped_address.
    destruct (aget sk_dec (m_addrs (st_mem st)) (s, k)) as [oid|] eqn:Hc.
    - simpl. splits; try assumption; try reflexivity; [apply ext_refl|apply new_fresh_refl|].
      destruct (i_cache _ _ _ I s k oid Hc) as (o & H). exists o. exact H.
    - apply load_and_cache_post; assumption.
  Qed.

  Lemma mgr_address_post scopes st k :
    Inv0 seed lk st -> m_locked (st_mem st) = lk -> incl scopes (m_scopes (st_mem st)) ->
    res_post' seed lk st (mgr_address scopes st k) (fun st' r =>
      found_at st' (fst r) k (snd r) /\
      aget sk_dec (m_addrs (st_mem st')) (fst r, k) = Some (snd r) /\
      is_some (aget scope_eq_dec (m_scopes (st_mem st')) (fst r)) = true).
  Proof.
    revert st. induction scopes as [|[s sch] rest IH]; intros st I Hl Hin; simpl.
    - splits; [exact I|apply ext_refl|apply new_fresh_refl].
    - assert (Hs : In (s, sch) (m_scopes (st_mem st))) by (apply Hin; left; reflexivity).
      pose proof (scoped_address_post st s sch k I Hl Hs) as H.
      destruct (scoped_address st s sch k) as [st1 oid|st1 e]; simpl in H.
      + destruct H as (I1 & E1 & N1 & F1 & D1 & C1). simpl. splits; try assumption.
        rewrite (ext_mscopes _ _ E1). destruct (In_aget scope_eq_dec _ _ _ Hs) as (v & ->). reflexivity.
      + destruct H as (I1 & E1 & N1).
        assert (Hl1 : m_locked (st_mem st1) = lk) by (rewrite (ext_locked _ _ E1); exact Hl).
        assert (Hin1 : incl rest (m_scopes (st_mem st1))).
        { rewrite (ext_mscopes _ _ E1). intros x Hx. apply Hin. right. exact Hx. }
        specialize (IH st1 I1 Hl1 Hin1).
        destruct (mgr_address rest st1 k) as [st2 r|st2 e2]; simpl in *.
        * destruct IH as (I2 & E2 & N2 & P). pose proof (ext_trans _ _ _ E1 E2) as E12.
          splits; [exact I2|exact E12|exact (new_fresh_trans _ _ _ E2 N1 N2)|..]; try tauto.
        * destruct IH as (I2 & E2 & N2). pose proof (ext_trans _ _ _ E1 E2) as E12.
          splits; [exact I2|exact E12|exact (new_fresh_trans _ _ _ E2 N1 N2)].
  Qed.
End lookup.

(* --------------------------------------- nextAddresses / extendAddresses pieces *)

Lemma set_internal_false ma : ma_internal ma = false -> set_internal false ma = ma.
Proof. destruct ma; simpl; intros ->; reflexivity. Qed.

Lemma addr_row_ok_same D D' s k r :
  d_accts D' = d_accts D -> d_scopes D' = d_scopes D -> addr_row_ok D s k r -> addr_row_ok D' s k r.
Proof. intros Ha Hs. destruct r; simpl; rewrite ?Ha, ?Hs; tauto. Qed.

(** an object with its private key present ([b] = true) or absent, reporting account child number [c] *)
Definition enc_is (st : state) (oid : nat) (b : bool) (c : N) : Prop :=
  exists ma, nth_error (m_heap (st_mem st)) oid = Some (MKey ma) /\ is_some (ma_enc ma) = b /\
             dp_acct (ma_path ma) = c.

Lemma enc_is_ext st st' oid b c : ext st st' -> enc_is st oid b c -> enc_is st' oid b c.
Proof. intros E (ma & H1 & H2). exists ma. split; [apply (ext_heap _ _ E); exact H1|exact H2]. Qed.

Section issue.
  Context (seed : N) (lk : bool).

  Lemma put_chained_post st s k a branch idx oid :
    Inv0 seed lk st -> chain_obj_at st oid s a branch idx -> obj_key_of st oid = Some k ->
    is_hardened idx = false ->
    Inv0 seed lk (put_chained st s k a branch idx) /\ ext st (put_chained st s k a branch idx) /\
    st_mem (put_chained st s k a branch idx) = st_mem st.
  Proof.
    intros I (ma & row & sch & coin & C1 & C2 & C3 & C4 & C5 & C6 & C7 & C8 & C9 & C10 & C11) Hk Hh.
    unfold obj_key_of, heap_get in Hk. rewrite C1 in Hk. simpl in Hk. inversion Hk. subst k. clear Hk.
    destruct st as [D M]. unf. splits; [|constructor; simpl; try reflexivity; eauto using incl_refl|reflexivity].
    destruct I as [ID IS IA IH IC IQ IP IHd]. simpl in *.
    constructor; simpl; try assumption.
    destruct ID as (D1 & D2 & D3 & D4 & D5 & D6 & D7). unfold disk_ok. simpl. splits; try assumption.
    - intros s' k' r H. rewrite aget_aset in H.
      destruct (sk_dec (s', k') (s, obj_akey (MKey ma))) as [E|E].
      + inversion E. inversion H. subst. simpl. exists row, sch, coin. splits; try assumption.
        unfold obj_akey. simpl. rewrite C9, C10. reflexivity.
      + eapply addr_row_ok_same; [| |apply D4; exact H]; reflexivity.
    - intros k' n H. rewrite aget_aset in H. destruct (sab_dec k' (s, a, branch =? internal_branch)).
      + inversion H. unfold is_hardened in Hh. apply N.leb_gt in Hh. lia.
      + eauto.
  Qed.

  Context (s : scope) (sch : schema) (a : N) (ai : acct_info) (bk : xkey) (acct_child branch fp : N) (internal : bool).

  Lemma make_objs_post idxs : forall st,
    Inv0 seed lk st -> In (s, sch) (m_scopes (st_mem st)) -> ai_static (st_disk st) lk s a ai ->
    x_skey bk = raw_child (ai_pub ai) branch ->
    branch = (if internal then internal_branch else external_branch) ->
    Forall (fun idx => is_hardened idx = false) idxs ->
    exists st' objs,
      make_objs st s (acct_fmt sch ai internal) ai bk a acct_child branch fp internal idxs = Ok st' objs /\
      Inv0 seed lk st' /\ ext st st' /\ st_disk st' = st_disk st /\
      m_accts (st_mem st') = m_accts (st_mem st) /\ m_addrs (st_mem st') = m_addrs (st_mem st) /\
      m_queue (st_mem st') = m_queue (st_mem st) /\
      map snd objs = idxs /\
      length (m_heap (st_mem st')) = (length (m_heap (st_mem st)) + length idxs)%nat /\
      map fst objs = seq (length (m_heap (st_mem st))) (length idxs) /\
      Forall (fun p => chain_obj_at st' (fst p) s a branch (snd p) /\
                       enc_is st' (fst p) (x_is_private bk) acct_child) objs.
  Proof.
    induction idxs as [|idx rest IH]; intros st I Hs Hai Hbk Hbr Hnh.
    - exists st, []. simpl. splits; try reflexivity; try assumption; [apply ext_refl|lia|constructor].
    - inversion Hnh as [|? ? Hh Hrest]. subst.
      pose proof (ai_static_wf _ _ _ _ _ _ (i_disk _ _ _ I) Hai) as Hwf.
      assert (Hbi : ((if internal then internal_branch else external_branch) =? internal_branch) = internal)
        by (destruct internal; reflexivity).
      cbn [make_objs].
      assert (Hx : exists key, x_derive bk idx = Some key).
      { destruct bk as [k w|k]; simpl; [eauto|]. rewrite Hh. eauto. }
      destruct Hx as (key & Hx). rewrite Hx.
      destruct (x_derive_spec _ _ _ (on_spec_unhardened bk idx Hh) Hx) as (X1 & X2).
      set (br := if internal then internal_branch else external_branch) in *.
      set (path := mkPath a acct_child br idx fp).
      assert (Hkey : x_skey key = path_skey (ai_pub ai) (dp_branch path) (dp_index path)).
      { simpl. rewrite X1, Hbk. reflexivity. }
      assert (Hmk : exists ma, mk_maddr s path key (acct_fmt sch ai internal) ai = Some ma).
      { unfold mk_maddr. destruct key as [k w|k]; [|eauto].
        destruct (ai_priv ai) as [p|] eqn:Ep; [|eauto].
        rewrite (derive_key_priv_wf _ _ _ _ Hwf Ep). simpl. simpl in Hkey. rewrite Hkey, (proj1 (Hwf p Ep)).
        destruct (skey_eq_dec _ _); [eauto|contradiction]. }
      destruct Hmk as (ma & Hmk). rewrite Hmk.
      destruct (mk_maddr_spec _ _ _ _ _ _ Hmk) as (F1 & F2 & F3 & F4 & F5 & F6 & F7 & F8).
      set (o := MKey (if internal then set_internal true ma else ma)).
      assert (Ho : o = MKey (set_internal internal ma)).
      { unfold o. destruct internal; [reflexivity|]. rewrite set_internal_false by exact F6. reflexivity. }
      assert (Hobj : obj_ok (st_disk st) o).
      { rewrite Ho. eapply chain_obj_ok with (path := path); eauto using i_disk, i_scopes;
          simpl; fold br; rewrite Hbi; reflexivity. }
      destruct (alloc_post seed lk st o I Hobj) as (I1 & E1 & A1 & A2 & A3 & A4 & A5 & A6).
      destruct (alloc st o) as [st1 oid] eqn:Ea. simpl in A1, A2, A3, A4, A5, A6, I1, E1. subst oid.
      assert (Hs1 : In (s, sch) (m_scopes (st_mem st1))) by (rewrite (ext_mscopes _ _ E1); exact Hs).
      assert (Hai1 : ai_static (st_disk st1) lk s a ai) by (rewrite A3; exact Hai).
      destruct (IH st1 I1 Hs1 Hai1 Hbk eq_refl Hrest)
        as (st2 & objs & M1 & I2 & E2 & D2 & C2 & B2 & Q2 & S2 & L2 & G2 & P2).
      fold br in M1. cbn beta iota zeta. rewrite M1. simpl.
      exists st2, ((length (m_heap (st_mem st)), idx) :: objs).
      assert (Hlen1 : length (m_heap (st_mem st1)) = S (length (m_heap (st_mem st)))).
      { rewrite A2, app_length. simpl. lia. }
      splits; try congruence.
      + eapply ext_trans; eauto.
      + simpl. rewrite S2. reflexivity.
      + rewrite L2, Hlen1. simpl. lia.
      + simpl. rewrite G2, Hlen1. reflexivity.
      + constructor; [|exact P2]. simpl.
        assert (Hnth : nth_error (m_heap (st_mem st1)) (length (m_heap (st_mem st))) = Some o).
        { rewrite A2, nth_error_snoc, Nat.ltb_irrefl, Nat.eqb_refl. reflexivity. }
        split.
        * eapply chain_obj_at_ext; [exact E2|].
          destruct (i_scopes _ _ _ I1 s sch Hs1) as (coin & Hc).
          destruct Hai1 as (row & R1 & R2 & R3 & R4 & R5 & R6 & R7).
          exists (set_internal internal ma), row, sch, coin. rewrite <- Ho.
          simpl. rewrite F1, F2, F5. simpl. splits; try assumption; try reflexivity.
          -- rewrite F4, Hkey, R3. reflexivity.
          -- rewrite F3. rewrite <- Hbi at 1. apply acct_fmt_row_fmt. exact R5.
          -- fold br. rewrite Hbi. reflexivity.
        * eapply enc_is_ext; [exact E2|]. exists (set_internal internal ma). rewrite <- Ho.
          split; [exact Hnth|]. simpl. rewrite F7, F2, X2. split; [destruct (x_is_private bk); reflexivity|reflexivity].
  Qed.
End issue.

Section issue2.
  Context (seed : N) (lk : bool).

  (** reading back a chain row of a cached account cannot fail *)
  Lemma chain_row_to_managed_total st s sch a b i ai :
    aget sa_dec (m_accts (st_mem st)) (s, a) = Some ai -> ai_wf ai ->
    is_hardened b = false -> is_hardened i = false ->
    exists st' oid, chain_row_to_managed st s sch a b i = Ok st' oid.
  Proof.
    intros Hc Hwf Hb Hi. unfold chain_row_to_managed, load_acct. rewrite Hc. cbn [bind]. cbv zeta.
    set (pr := negb (locked st) && is_some (ai_priv ai)).
    assert (Hd : exists k, derive_key ai b i pr = DOk k).
    { unfold pr. destruct (ai_priv ai) as [p|] eqn:E.
      - destruct (negb (locked st)); simpl.
        + eexists. apply (derive_key_priv_wf _ _ _ p Hwf). exact E.
        + eexists. apply derive_key_pub_ok; assumption.
      - rewrite andb_false_r. eexists. apply derive_key_pub_ok; assumption. }
    destruct Hd as (k & Hd). rewrite Hd.
    apply key_to_managed_total. eapply mk_maddr_total; [exact Hwf|]. simpl. exact Hd.
  Qed.

  Context (s : scope) (sch : schema) (a branch : N).

  Definition objs_ok (st : state) (objs : list (nat * N)) : Prop :=
    Forall (fun p => chain_obj_at st (fst p) s a branch (snd p) /\ is_hardened (snd p) = false) objs.

  Lemma objs_ok_ext st st' objs : ext st st' -> objs_ok st objs -> objs_ok st' objs.
  Proof.
    intros E H. unfold objs_ok in *. rewrite Forall_forall in *. intros p Hp.
    destruct (H p Hp) as (H1 & H2). split; [eapply chain_obj_at_ext; eauto|exact H2].
  Qed.

  Lemma chain_obj_key st oid idx : chain_obj_at st oid s a branch idx -> exists k, obj_key_of st oid = Some k.
  Proof. intros (ma & _ & _ & _ & H & _). unfold obj_key_of, heap_get. rewrite H. simpl. eauto. Qed.

  Definition next_key : scope * N * bool := (s, a, branch =? internal_branch).

  (** the stored next index after writing [objs] in order *)
  Definition next_after (D D' : disk) (objs : list (nat * N)) : Prop :=
    (forall k, k <> next_key -> aget sab_dec (d_next D') k = aget sab_dec (d_next D) k) /\
    aget sab_dec (d_next D') next_key =
      match rev objs with
      | [] => aget sab_dec (d_next D) next_key
      | p :: _ => Some (snd p + 1)
      end.

  Lemma next_after_nil D : next_after D D [].
  Proof. split; reflexivity. Qed.

  Lemma next_after_cons D D1 D' oid idx rest :
    d_next D1 = aset sab_dec (d_next D) next_key (idx + 1) -> next_after D1 D' rest ->
    next_after D D' ((oid, idx) :: rest).
  Proof.
    intros H1 (H2 & H3). split.
    - intros k Hk. rewrite H2 by exact Hk. rewrite H1, aget_aset_neq by exact Hk. reflexivity.
    - rewrite H3. simpl. destruct (rev rest) as [|p l] eqn:E; simpl.
      + rewrite H1, aget_aset_eq. reflexivity.
      + reflexivity.
  Qed.

  Lemma write_only_post objs : forall st,
    Inv0 seed lk st -> objs_ok st objs ->
    let st' := write_only st s a branch objs in
    Inv0 seed lk st' /\ ext st st' /\ st_mem st' = st_mem st /\ next_after (st_disk st) (st_disk st') objs.
  Proof.
    induction objs as [|[oid idx] rest IH]; intros st I Ho; simpl.
    - splits; [exact I|apply ext_refl|reflexivity|apply next_after_nil].
    - apply Forall_cons_iff in Ho. destruct Ho as ((H1 & H2) & Hrest). simpl in H1, H2.
      destruct (chain_obj_key _ _ _ H1) as (k & Hk). rewrite Hk.
      destruct (put_chained_post seed lk st s k a branch idx oid I H1 Hk H2) as (I1 & E1 & M1).
      assert (Ho1 : objs_ok (put_chained st s k a branch idx) rest) by (eapply objs_ok_ext; eauto).
      destruct (IH _ I1 Ho1) as (I2 & E2 & M2 & N2).
      splits; [exact I2|eapply ext_trans; eauto|congruence|].
      eapply next_after_cons; [|exact N2]. unf. reflexivity.
  Qed.

  Lemma write_readback_post objs : forall st ai,
    Inv0 seed lk st -> m_locked (st_mem st) = lk -> In (s, sch) (m_scopes (st_mem st)) ->
    aget sa_dec (m_accts (st_mem st)) (s, a) = Some ai -> is_hardened branch = false ->
    objs_ok st objs ->
    exists st', write_readback st s sch a branch objs = Ok st' tt /\
      Inv0 seed lk st' /\ ext st st' /\ new_fresh st st' /\
      m_accts (st_mem st') = m_accts (st_mem st) /\ next_after (st_disk st) (st_disk st') objs.
  Proof.
    induction objs as [|[oid idx] rest IH]; intros st ai I Hl Hs Hc Hb Ho.
    - exists st. simpl. splits; try reflexivity; [exact I|apply ext_refl|apply new_fresh_refl|apply next_after_nil].
    - apply Forall_cons_iff in Ho. destruct Ho as ((H1 & H2) & Hrest). simpl in H1, H2.
      destruct (chain_obj_key _ _ _ H1) as (k & Hk). cbn [write_readback]. rewrite Hk.
      destruct (put_chained_post seed lk st s k a branch idx oid I H1 Hk H2) as (I1 & E1 & M1).
      set (st1 := put_chained st s k a branch idx) in *.
      assert (Hl1 : m_locked (st_mem st1) = lk) by (rewrite M1; exact Hl).
      assert (Hs1 : In (s, sch) (m_scopes (st_mem st1))) by (rewrite M1; exact Hs).
      assert (Hc1 : aget sa_dec (m_accts (st_mem st1)) (s, a) = Some ai) by (rewrite M1; exact Hc).
      assert (Hrow : aget sk_dec (d_addrs (st_disk st1)) (s, k) = Some (RChain a branch idx)).
      { unfold st1. unf. apply aget_aset_eq. }
      assert (Hpost : res_post' seed lk st1 (load_address st1 s sch k) (fun _ _ => True)).
      { unfold load_address. rewrite Hrow.
        eapply res_post_weaken'; [apply (row_to_managed_post seed lk st1 s sch k _ I1 Hl1 Hs1 Hrow)|]. auto. }
      assert (Hdisk : res_disk st1 (load_address st1 s sch k)).
      { unfold load_address. rewrite Hrow. simpl. apply chain_row_to_managed_disk. }
      assert (Hacc : match load_address st1 s sch k with
                     | Ok st2 _ | Err st2 _ => m_accts (st_mem st2) = m_accts (st_mem st1) end /\
                     exists st2 o2, load_address st1 s sch k = Ok st2 o2).
      { unfold load_address. rewrite Hrow. cbn [row_to_managed].
        pose proof (ai_static_wf _ _ _ _ _ _ (i_disk _ _ _ I1) (i_accts _ _ _ I1 _ _ _ Hc1)) as Hwf.
        destruct (chain_row_to_managed_total st1 s sch a branch idx ai Hc1 Hwf Hb H2) as (st2 & o2 & Hcr).
        rewrite Hcr.
        assert (Hm : m_accts (st_mem st2) = m_accts (st_mem st1)).
        { revert Hcr. unfold chain_row_to_managed, load_acct. rewrite Hc1. cbn [bind]. cbv zeta.
          destruct (derive_key _ _ _ _) as [kk| |]; try discriminate. intros Hk2.
          match type of Hk2 with key_to_managed _ _ _ _ ?p _ = _ =>
            pose proof (key_to_managed_accts st1 s sch kk p ai) as Hq end.
          rewrite Hk2 in Hq. exact Hq. }
        split; [exact Hm|eauto]. }
      destruct Hacc as (Hacc & st2 & o2 & Hlc). rewrite Hlc in *. simpl in Hpost, Hdisk. cbn [bind].
      destruct Hpost as (I2 & E2 & N2 & _).
      assert (Ho2 : objs_ok st2 rest) by (apply (objs_ok_ext st st2); [exact (ext_trans _ _ _ E1 E2)|exact Hrest]).
      assert (Hl2 : m_locked (st_mem st2) = lk) by (rewrite (ext_locked _ _ E2); exact Hl1).
      assert (Hs2 : In (s, sch) (m_scopes (st_mem st2))) by (rewrite (ext_mscopes _ _ E2); exact Hs1).
      assert (Hc2 : aget sa_dec (m_accts (st_mem st2)) (s, a) = Some ai) by (rewrite Hacc; exact Hc1).
      destruct (IH st2 ai I2 Hl2 Hs2 Hc2 Hb Ho2) as (st3 & W3 & I3 & E3 & N3 & A3 & X3).
      exists st3. splits; try assumption.
      + eapply ext_trans; [exact E1|]. eapply ext_trans; eauto.
      + assert (N12 : new_fresh st st2).
        { intros x Hx. apply N2. rewrite M1. exact Hx. }
        exact (new_fresh_trans _ _ _ E3 N12 N3).
      + rewrite A3, Hacc, M1. reflexivity.
      + eapply next_after_cons; [|rewrite Hdisk in X3; exact X3]. unfold st1. unf. reflexivity.
  Qed.

  (** caching (and queueing) the new objects *)
  Lemma cache_objs_post queue objs : forall st,
    Inv0 seed lk st -> In (s, sch) (m_scopes (st_mem st)) ->
    Forall (fun p => chain_obj_at st (fst p) s a branch (snd p) /\ field_at st (fst p)) objs ->
    (queue = true -> exists row, aget sa_dec (d_accts (st_disk st)) (s, a) = Some row /\ ar_priv row <> None) ->
    let st' := cache_objs st s branch queue objs in
    Inv0 seed lk st' /\ ext st st' /\ st_disk st' = st_disk st /\
    m_heap (st_mem st') = m_heap (st_mem st) /\ m_accts (st_mem st') = m_accts (st_mem st) /\
    m_queue (st_mem st') = m_queue (st_mem st) ++
       (if queue then map (fun p => (s, fst p, branch, snd p)) objs else []).
  Proof.
    induction objs as [|[oid idx] rest IH]; intros st I Hs Ho Hqr; simpl.
    - splits; try reflexivity; [exact I|apply ext_refl|destruct queue; rewrite app_nil_r; reflexivity].
    - apply Forall_cons_iff in Ho. destruct Ho as ((H1 & H2) & Hrest). simpl in H1, H2.
      destruct H1 as (ma & row & sch' & coin & C1 & C2 & C3 & C4 & C5 & C6 & C7).
      destruct H2 as (o & O1 & O2). rewrite C1 in O1. inversion O1. subst o.
      unfold obj_key_of, heap_get. rewrite C1. simpl.
      destruct (cache_addr_post seed lk st s (obj_akey (MKey ma)) oid (MKey ma) I C1 eq_refl C3 O2) as (I1 & E1).
      set (st1 := cache_addr st s (obj_akey (MKey ma)) oid) in *.
      assert (Hh1 : m_heap (st_mem st1) = m_heap (st_mem st)) by (unfold st1; unf; reflexivity).
      assert (HQ : Inv0 seed lk (if queue then enqueue st1 s oid branch idx else st1) /\
                   ext st1 (if queue then enqueue st1 s oid branch idx else st1)).
      { destruct queue; [|split; [exact I1|apply ext_refl]].
        apply (enqueue_post seed lk st1 s oid branch idx ma I1); try assumption.
        - unfold st1. unf. destruct (In_aget scope_eq_dec _ _ _ Hs) as (v & ->). reflexivity.
        - rewrite C4. unfold st1. unf. apply Hqr. reflexivity. }
      destruct HQ as (I2 & E2).
      set (st2 := if queue then enqueue st1 s oid branch idx else st1) in *.
      assert (E12 : ext st st2) by (eapply ext_trans; eauto).
      assert (Hs2 : In (s, sch) (m_scopes (st_mem st2))) by (rewrite (ext_mscopes _ _ E12); exact Hs).
      assert (Ho2 : Forall (fun p => chain_obj_at st2 (fst p) s a branch (snd p) /\ field_at st2 (fst p)) rest).
      { rewrite Forall_forall in *. intros p Hp. destruct (Hrest p Hp) as (P1 & (o & P2 & P3)).
        split; [eapply chain_obj_at_ext; eauto|]. exists o. split; [apply (ext_heap _ _ E12); exact P2|].
        eapply acct_field_ok_same; [|exact P3]. apply (ext_accts _ _ E12). }
      assert (Hqr2 : queue = true -> exists row, aget sa_dec (d_accts (st_disk st2)) (s, a) = Some row /\ ar_priv row <> None).
      { rewrite (ext_accts _ _ E12). exact Hqr. }
      destruct (IH st2 I2 Hs2 Ho2 Hqr2) as (I3 & E3 & D3 & H3 & A3 & Q3).
      splits; try assumption.
      + eapply ext_trans; eauto.
      + rewrite D3. unfold st2, st1. destruct queue; unf; reflexivity.
      + rewrite H3. unfold st2, st1. destruct queue; unf; reflexivity.
      + rewrite A3. unfold st2, st1. destruct queue; unf; reflexivity.
      + rewrite Q3. unfold st2, st1. destruct queue; unf; [rewrite <- app_assoc|]; reflexivity.
  Qed.
End issue2.

(* ------------------------------------------------- index ranges, final assembly *)

Lemma index_range_length from cnt : length (index_range from cnt) = cnt.
Proof. unfold index_range. rewrite map_length, seq_length. reflexivity. Qed.

Lemma index_range_In from cnt idx : In idx (index_range from cnt) -> from <= idx < from + N.of_nat cnt.
Proof.
  unfold index_range. rewrite in_map_iff. intros (k & <- & Hk). apply in_seq in Hk. lia.
Qed.

Lemma index_range_S from cnt : index_range from (S cnt) = index_range from cnt ++ [from + N.of_nat cnt].
Proof. unfold index_range. rewrite seq_S, map_app. reflexivity. Qed.

Lemma index_range_not_hardened from cnt :
  from + N.of_nat cnt <= hardened_start -> Forall (fun idx => is_hardened idx = false) (index_range from cnt).
Proof.
  intros H. rewrite Forall_forall. intros idx Hi. apply index_range_In in Hi.
  unfold is_hardened. apply N.leb_gt. lia.
Qed.

Lemma rev_objs_last (objs : list (nat * N)) from cnt :
  map snd objs = index_range from (S cnt) -> exists p l, rev objs = p :: l /\ snd p = from + N.of_nat cnt.
Proof.
  intros H. assert (Hr : map snd (rev objs) = rev (index_range from (S cnt))) by (rewrite map_rev, H; reflexivity).
  rewrite index_range_S, rev_app_distr in Hr. simpl in Hr.
  destruct (rev objs) as [|p l]; [discriminate|]. simpl in Hr. inversion Hr. eauto.
Qed.

Definition HC (st : state) : Prop :=
  forall oid ma, nth_error (m_heap (st_mem st)) oid = Some (MKey ma) -> ma_imported ma = false ->
    is_some (aget sa_dec (m_accts (st_mem st)) (ma_scope ma, dp_iacct (ma_path ma))) = true.

(** new chain objects belong to cached accounts (whatever their key state) *)
Definition cached_obj (st : state) (oid : nat) : Prop :=
  forall ma, nth_error (m_heap (st_mem st)) oid = Some (MKey ma) -> ma_imported ma = false ->
    is_some (aget sa_dec (m_accts (st_mem st)) (ma_scope ma, dp_iacct (ma_path ma))) = true.

Definition new_cached (st st' : state) : Prop :=
  forall oid, (length (m_heap (st_mem st)) <= oid < length (m_heap (st_mem st')))%nat -> cached_obj st' oid.

Lemma fresh_cached st oid : fresh st oid -> cached_obj st oid.
Proof.
  intros F ma Hn Hi. destruct (F ma Hn Hi) as (s & a & (ma' & F1 & F2 & F3 & F4 & _) & C).
  rewrite Hn in F1. inversion F1. subst ma'. rewrite F3, F4. exact C.
Qed.

Lemma new_fresh_cached st st' : new_fresh st st' -> new_cached st st'.
Proof. intros H oid Ho. apply fresh_cached. apply H. exact Ho. Qed.

Lemma cached_obj_ext st st' oid :
  ext st st' -> (oid < length (m_heap (st_mem st)))%nat -> cached_obj st oid -> cached_obj st' oid.
Proof.
  intros E Hlt C ma Hn Hi.
  destruct (nth_error (m_heap (st_mem st)) oid) as [o|] eqn:Eo; [|apply nth_error_None in Eo; lia].
  pose proof (ext_heap _ _ E _ _ Eo) as Eo'. rewrite Hn in Eo'. inversion Eo'. subst o.
  specialize (C ma Eo Hi).
  destruct (aget sa_dec (m_accts (st_mem st)) _) as [ai|] eqn:Ea; [|discriminate].
  destruct (ext_cached _ _ E _ _ Ea) as (ai' & ->). reflexivity.
Qed.

Lemma HC_grow_cached st st' : HC st -> ext st st' -> new_cached st st' -> HC st'.
Proof.
  intros H E N oid ma Hn Hi.
  destruct (Nat.ltb_spec oid (length (m_heap (st_mem st)))) as [Hlt|Hge].
  - apply (cached_obj_ext st st' oid E Hlt); [|exact Hn|exact Hi]. intros mb Hb Hib. exact (H oid mb Hb Hib).
  - apply (N oid); [|exact Hn|exact Hi]. split; [exact Hge|]. eapply nth_error_Some_lt; eauto.
Qed.

Lemma HC_grow st st' : HC st -> ext st st' -> new_fresh st st' -> HC st'.
Proof. intros H E N. eapply HC_grow_cached; eauto using new_fresh_cached. Qed.

Section next_ext.
  Context (seed : N) (lk : bool).

  (** the common second half of nextAddresses and extendAddresses: [st1] is the
      state after loadAccountInfo, [st2] after the objects were made, [st3]
      after the database writes (and read-backs). *)
  Lemma issue_finish st st1 st2 st3 s sch a ai bk acct_child branch queue objs cnt ai' :
    ext st st1 -> new_fresh st st1 ->
    Inv0 seed lk st1 -> In (s, sch) (m_scopes (st_mem st1)) ->
    aget sa_dec (m_accts (st_mem st1)) (s, a) = Some ai -> acct_child = child_num (ai_pub ai) ->
    ext st1 st2 -> length (m_heap (st_mem st2)) = (length (m_heap (st_mem st1)) + cnt)%nat ->
    map fst objs = seq (length (m_heap (st_mem st1))) cnt ->
    Forall (fun p => chain_obj_at st2 (fst p) s a branch (snd p) /\
                     enc_is st2 (fst p) (x_is_private bk) acct_child) objs ->
    Inv0 seed lk st3 -> ext st2 st3 -> new_fresh st2 st3 ->
    ai_static (st_disk st3) lk s a ai' -> (queue = true -> ai_enc ai <> None) ->
    let st5 := cache_acct (cache_objs st3 s branch queue objs) s a ai' in
    Inv0 seed lk st5 /\ ext st st5 /\
    ((ai_enc ai <> None -> x_is_private bk = true \/ (m_locked (st_mem st1) = true /\ queue = true)) ->
     new_fresh st st5) /\ new_cached st st5 /\ st_disk st5 = st_disk st3 /\
    m_accts (st_mem st5) = aset sa_dec (m_accts (st_mem st3)) (s, a) ai' /\ ext st2 st5.
  Proof.
    intros E01 N01 I1 Hs Hc Hchild E12 L2 G2 P2 I3 E23 N23 Hai' Hqe st5.
    assert (E13 : ext st1 st3) by (eapply ext_trans; eauto).
    assert (Hs3 : In (s, sch) (m_scopes (st_mem st3))) by (rewrite (ext_mscopes _ _ E13); exact Hs).
    pose proof (i_accts _ _ _ I1 _ _ _ Hc) as Hai.
    assert (Hobjs3 : Forall (fun p => chain_obj_at st3 (fst p) s a branch (snd p) /\ field_at st3 (fst p)) objs).
    { rewrite Forall_forall in *. intros p Hp. destruct (P2 p Hp) as (C & (ma & M1 & M2 & M3)).
      split; [exact (chain_obj_at_ext _ _ _ _ _ _ _ E23 C)|]. exists (MKey ma). split; [apply (ext_heap _ _ E23); exact M1|].
      simpl. intros Hi row Hrow.
      destruct C as (ma' & row' & sch' & coin' & Q1 & Q2 & Q3 & Q4 & _). rewrite M1 in Q1. inversion Q1. subst ma'.
      rewrite Q3, Q4, (ext_accts _ _ E13) in Hrow.
      destruct Hai as (row0 & R1 & _ & R3 & _). rewrite R1 in Hrow. inversion Hrow. subst row0.
      rewrite M3, Hchild, R3. reflexivity. }
    assert (Hqr : queue = true -> exists row, aget sa_dec (d_accts (st_disk st3)) (s, a) = Some row /\ ar_priv row <> None).
    { intros Hq. destruct Hai as (row & R1 & _ & _ & R4 & _). exists row. rewrite (ext_accts _ _ E13).
      split; [exact R1|]. rewrite <- R4. exact (Hqe Hq). }
    destruct (cache_objs_post seed lk s sch a branch queue objs st3 I3 Hs3 Hobjs3 Hqr) as (I4 & E34 & D4 & H4 & A4 & Q4).
    set (st4 := cache_objs st3 s branch queue objs) in *.
    assert (Hai4 : ai_static (st_disk st4) lk s a ai') by (rewrite D4; exact Hai').
    destruct (cache_acct_post seed lk st4 s a ai' I4 Hai4) as (I5 & E45).
    fold st5 in I5, E45.
    assert (E35 : ext st3 st5) by (eapply ext_trans; eauto).
    assert (E15 : ext st1 st5) by (eapply ext_trans; eauto).
    assert (H5 : m_heap (st_mem st5) = m_heap (st_mem st3)) by (unfold st5; unf; exact H4).
    assert (Q5 : m_queue (st_mem st5) = m_queue (st_mem st4)) by (unfold st5; unf; reflexivity).
    assert (C5 : is_some (aget sa_dec (m_accts (st_mem st5)) (s, a)) = true).
    { unfold st5. unf. rewrite aget_aset_eq. reflexivity. }
    splits; [exact I5|eapply ext_trans; eauto| | |unfold st5; unf; exact D4|unfold st5; unf; rewrite A4; reflexivity|
             exact (ext_trans _ _ _ E23 E35)].
    2: { (* the new objects belong to cached accounts *)
      intros oid Ho.
      destruct (Nat.ltb_spec oid (length (m_heap (st_mem st1)))) as [H1|H1].
      - eapply cached_obj_ext; [exact E15|exact H1|]. apply fresh_cached. apply N01. lia.
      - destruct (Nat.ltb_spec oid (length (m_heap (st_mem st2)))) as [H2|H2].
        + intros ma Hn Hi.
          assert (Hin : In oid (map fst objs)) by (rewrite G2; apply in_seq; lia).
          apply in_map_iff in Hin. destruct Hin as ([oid' idx] & Hf & Hin). simpl in Hf. subst oid'.
          rewrite Forall_forall in P2. destruct (P2 _ Hin) as (C & _). simpl in C.
          assert (E25 : ext st2 st5) by (eapply ext_trans; eauto).
          destruct C as (ma' & row' & sch' & coin' & Q1 & Q2 & Q3 & Q4' & _).
          pose proof (ext_heap _ _ E25 _ _ Q1) as Q1'. rewrite Hn in Q1'. inversion Q1'. subst ma'.
          rewrite Q3, Q4'. exact C5.
        + assert (Hlt : (oid < length (m_heap (st_mem st3)))%nat) by (rewrite <- H5; lia).
          eapply cached_obj_ext; [exact E35|exact Hlt|]. apply fresh_cached. apply N23. lia. }
    (* every new object is fresh in the final state *)
    intros Hq.
    assert (N13 : forall oid, (length (m_heap (st_mem st1)) <= oid < length (m_heap (st_mem st2)))%nat -> fresh st5 oid).
    { intros oid Ho ma Hn Hi. exists s, a. split; [|exact C5].
      assert (Hin : In oid (map fst objs)) by (rewrite G2; apply in_seq; lia).
      apply in_map_iff in Hin. destruct Hin as ([oid' idx] & Hf & Hin). simpl in Hf. subst oid'.
      rewrite Forall_forall in P2. destruct (P2 _ Hin) as (C & (mb & M1 & M2 & M3)). simpl in C, M1, M2, M3.
      assert (E25 : ext st2 st5) by (eapply ext_trans; eauto).
      pose proof (ext_heap _ _ E25 _ _ M1) as M1'. rewrite Hn in M1'. inversion M1'. subst mb.
      destruct C as (ma' & row' & sch' & coin' & Q1 & Q2 & Q3 & Q4' & Q5' & Q6 & _).
      rewrite M1 in Q1. inversion Q1. subst ma'.
      exists ma. splits; try assumption. intros row Hrow Hp.
      rewrite (ext_accts _ _ E15) in Hrow. destruct Hai as (row0 & R1 & _ & _ & R4 & _).
      rewrite R1 in Hrow. inversion Hrow. subst row0.
      destruct Hq as [Hq|(Hq1 & Hq2)]; [rewrite R4; exact Hp| |].
      - left. rewrite Hq in M2. destruct (ma_enc ma); [discriminate|discriminate].
      - right. rewrite (ext_locked _ _ E15). split; [exact Hq1|].
        rewrite Q5, Q4, Hq2. apply in_or_app. right. apply in_map_iff. exists (oid, idx). simpl.
        rewrite Q5', Q6. split; [reflexivity|exact Hin]. }
    intros oid Ho.
    destruct (Nat.ltb_spec oid (length (m_heap (st_mem st1)))) as [H1|H1].
    - eapply fresh_ext; [exact E15|exact H1|]. apply N01. lia.
    - destruct (Nat.ltb_spec oid (length (m_heap (st_mem st2)))) as [H2|H2].
      + apply N13. lia.
      + assert (Hlt : (oid < length (m_heap (st_mem st3)))%nat) by (rewrite <- H5; lia).
        eapply fresh_ext; [exact E35|exact Hlt|]. apply N23. lia.
  Qed.
End next_ext.

Lemma Forall2_imp {A B} (P Q : A -> B -> Prop) l l' :
  (forall a b, P a b -> Q a b) -> Forall2 P l l' -> Forall2 Q l l'.
Proof. intros H. induction 1; constructor; auto. Qed.

Lemma Forall_Forall2_fst_snd {A B} (P : A -> B -> Prop) (l : list (A * B)) :
  Forall (fun p => P (fst p) (snd p)) l -> Forall2 P (map fst l) (map snd l).
Proof. induction 1; simpl; constructor; assumption. Qed.

Lemma field_of_enc_is st oid b c s a br idx row :
  enc_is st oid b c -> chain_obj_at st oid s a br idx ->
  aget sa_dec (d_accts (st_disk st)) (s, a) = Some row -> c = child_num (ar_pub row) -> field_at st oid.
Proof.
  intros (ma & M1 & M2 & M3) (ma' & row' & sch' & coin' & Q1 & Q2 & Q3 & Q4 & _) Hrow Hc.
  rewrite M1 in Q1. inversion Q1. subst ma'. exists (MKey ma). split; [exact M1|].
  simpl. intros _ row0 H0. rewrite Q3, Q4, Hrow in H0. inversion H0. subst row0. congruence.
Qed.

Lemma field_at_ext st st' oid : ext st st' -> field_at st oid -> field_at st' oid.
Proof.
  intros E (o & H1 & H2). exists o. split; [apply (ext_heap _ _ E); exact H1|].
  eapply acct_field_ok_same; [|exact H2]. apply (ext_accts _ _ E).
Qed.

Lemma ai_static_set_next D lk s a ai internal n : ai_static D lk s a ai -> ai_static D lk s a (set_next internal n ai).
Proof. intros (row & H). exists row. destruct internal; simpl; exact H. Qed.

Lemma NextOk_load seed lk st s sch a :
  Inv0 seed lk st -> m_locked (st_mem st) = lk -> In (s, sch) (m_scopes (st_mem st)) -> NextOk st ->
  match load_acct st s sch a with Ok st' _ | Err st' _ => NextOk st' end.
Proof.
  intros I Hl Hs HN. pose proof (load_acct_post seed lk st s sch a I Hl Hs) as H.
  destruct (load_acct st s sch a) as [st1 ai|st1 e].
  - destruct H as (I1 & E1 & C1 & D1 & A1 & K1 & Sm1 & Nx1 & _).
    intros s' a' ai' Hc. destruct (sa_dec (s', a') (s, a)) as [E|E].
    + inversion E. subst. rewrite C1 in Hc. inversion Hc. subst ai'. rewrite D1.
      destruct (aget sa_dec (m_accts (st_mem st)) (s, a)) as [ai0|] eqn:E0.
      * destruct (Sm1 ai0 eq_refl) as (-> & ->). apply HN. exact E0.
      * apply Nx1. reflexivity.
    + rewrite K1 in Hc by exact E. rewrite D1. apply HN. exact Hc.
  - destruct H as (-> & _). exact HN.
Qed.

Lemma N_to_nat_pos n : n <> 0 -> exists c, N.to_nat n = S c.
Proof. intros H. destruct (N.to_nat n) eqn:E; [exfalso; apply H; lia|eauto]. Qed.

Lemma range_bound next n :
  n <= max_addresses_per_account -> next + n <= max_addresses_per_account ->
  next + N.of_nat (N.to_nat n) <= hardened_start.
Proof. rewrite N2Nat.id. unfold max_addresses_per_account, hardened_start. lia. Qed.

Lemma next_plus next n c : N.to_nat n = S c -> next + N.of_nat c + 1 = next + n.
Proof. intros H. assert (n = N.of_nat (S c)) as -> by (rewrite <- H, N2Nat.id; reflexivity). lia. Qed.

Section next_ext2.
  Context (seed : N) (lk : bool).

  Lemma next_addresses_post st s sch a n internal :
    Inv0 seed lk st -> m_locked (st_mem st) = lk -> In (s, sch) (m_scopes (st_mem st)) -> NextOk st ->
    match next_addresses st s sch a n internal with
    | Ok st' oids =>
      Inv0 seed lk st' /\ ext st st' /\ new_fresh st st' /\ NextOk st' /\
      disk_next (st_disk st') s a internal = disk_next (st_disk st) s a internal + n /\
      (forall s' a' i', (s', a', i') <> (s, a, internal) ->
         disk_next (st_disk st') s' a' i' = disk_next (st_disk st) s' a' i') /\
      Forall2 (fun oid idx => chain_obj_at st' oid s a (if internal then internal_branch else external_branch) idx /\
                              field_at st' oid)
              oids (index_range (disk_next (st_disk st) s a internal) (N.to_nat n))
    | Err st' e => Inv0 seed lk st' /\ ext st st' /\ new_fresh st st' /\ NextOk st' /\ st_disk st' = st_disk st
    end.
  Proof.
    intros I Hl Hs HN. unfold next_addresses.
    pose proof (load_acct_post' seed lk st s sch a I Hl Hs) as HL.
    pose proof (NextOk_load seed lk st s sch a I Hl Hs HN) as HN1.
    pose proof (load_acct_disk st s sch a) as HD.
    destruct (load_acct st s sch a) as [st1 ai|st1 e]; cbn [bind]; simpl in HL, HD;
      [|destruct HL as (I1 & E1 & N1); splits; assumption].
    destruct HL as (I1 & E1 & N1 & C1 & S1 & D1 & A1 & K1 & Sm1 & Nx1).
    assert (Hl1 : m_locked (st_mem st1) = lk) by (rewrite (ext_locked _ _ E1); exact Hl).
    assert (Hs1 : In (s, sch) (m_scopes (st_mem st1))) by (rewrite (ext_mscopes _ _ E1); exact Hs).
    pose proof (ai_static_wf _ _ _ _ _ _ (i_disk _ _ _ I1) S1) as Hwf.
    assert (Herr : Inv0 seed lk st1 /\ ext st st1 /\ new_fresh st st1 /\ NextOk st1 /\ st_disk st1 = st_disk st)
      by (splits; assumption).
    set (watch_only := negb (is_some (ai_enc ai))).
    set (branch := if internal then internal_branch else external_branch).
    set (next := if internal then ai_next_int ai else ai_next_ext ai).
    assert (Hnext : next = disk_next (st_disk st) s a internal).
    { destruct (HN1 s a ai C1) as (X1 & X2). unfold next. rewrite <- D1. destruct internal; assumption. }
    destruct ((max_addresses_per_account <? n) || (max_addresses_per_account <? next + n)) eqn:Hmax;
      [exact Herr|].
    apply orb_false_iff in Hmax. destruct Hmax as (Hm1 & Hm2). apply N.ltb_ge in Hm1, Hm2.
    set (use_priv := negb (locked st1) && negb watch_only).
    destruct (if use_priv then option_map (fun k => XPriv k Full) (ai_priv ai) else Some (XPub (ai_pub ai))) as [ak|] eqn:Hak;
      [|exact Herr].
    assert (Hakk : x_skey ak = ai_pub ai /\ x_is_private ak = (use_priv && is_some (ai_priv ai))).
    { destruct use_priv.
      - destruct (ai_priv ai) as [p|] eqn:Ep; [|discriminate]. simpl in Hak. inversion Hak. subst ak. simpl.
        rewrite (proj1 (Hwf p Ep)). split; reflexivity.
      - inversion Hak. subst ak. split; reflexivity. }
    destruct Hakk as (Hak1 & Hak2).
    destruct (x_derive ak branch) as [bk|] eqn:Hbk; [|exact Herr].
    assert (Hbrh : is_hardened branch = false) by (unfold branch; destruct internal; reflexivity).
    destruct (x_derive_spec _ _ _ (on_spec_unhardened ak branch Hbrh) Hbk) as (B1 & B2).
    destruct (n =? 0) eqn:Hn0; [exact Herr|]. apply N.eqb_neq in Hn0.
    (* the objects *)
    assert (Hidx : Forall (fun idx => is_hardened idx = false) (index_range next (N.to_nat n))).
    { apply index_range_not_hardened. apply range_bound; assumption. }
    assert (Hbks : x_skey bk = raw_child (ai_pub ai) branch) by (rewrite B1, Hak1; reflexivity).
    destruct (make_objs_post seed lk s sch a ai bk (child_num (x_skey ak)) branch (ai_fp ai) internal
                             (index_range next (N.to_nat n)) st1 I1 Hs1 S1 Hbks eq_refl Hidx)
      as (st2 & objs & M0 & I2 & E2 & D2 & C2 & A2 & Q2 & S2 & L2 & G2 & P2).
    rewrite M0. cbn [bind].
    (* write and read back *)
    assert (Hbh : is_hardened branch = false) by (unfold branch; destruct internal; reflexivity).
    assert (Hl2 : m_locked (st_mem st2) = lk) by (rewrite (ext_locked _ _ E2); exact Hl1).
    assert (Hs2 : In (s, sch) (m_scopes (st_mem st2))) by (rewrite (ext_mscopes _ _ E2); exact Hs1).
    assert (Hc2 : aget sa_dec (m_accts (st_mem st2)) (s, a) = Some ai) by (rewrite C2; exact C1).
    assert (Ho2 : objs_ok s a branch st2 objs).
    { unfold objs_ok. rewrite Forall_forall in *. intros p Hp. destruct (P2 p Hp) as (Q & _). split; [exact Q|].
      apply Hidx. rewrite <- S2. apply in_map. exact Hp. }
    destruct (write_readback_post seed lk s sch a branch objs st2 ai I2 Hl2 Hs2 Hc2 Hbh Ho2)
      as (st3 & W3 & I3 & E3 & N3 & A3 & X3).
    rewrite W3. cbn [bind].
    (* commit *)
    assert (Hlock3 : locked st3 = lk).
    { unfold locked. rewrite (ext_locked _ _ E3). exact Hl2. }
    set (ai' := set_next internal (next + n) ai).
    assert (Hai' : ai_static (st_disk st3) lk s a ai').
    { apply ai_static_set_next. destruct S1 as (row & R). exists row.
      rewrite (ext_accts _ _ E3), (ext_accts _ _ E2). exact R. }
    assert (Hq : ai_enc ai <> None ->
                 x_is_private bk = true \/ (m_locked (st_mem st1) = true /\ locked st3 && negb watch_only = true)).
    { intros He. unfold watch_only. destruct (ai_enc ai) as [x|] eqn:Ee; [|contradiction]. simpl.
      rewrite Hlock3, Hl1. destruct lk eqn:Elk; [right; split; reflexivity|left].
      rewrite B2, Hak2. unfold use_priv, locked, watch_only. rewrite Hl1, ?Ee. simpl.
      destruct S1 as (row & _ & _ & _ & R4 & _ & _ & R7). rewrite R7, <- R4, ?Ee. reflexivity. }
    rewrite index_range_length in L2, G2.
    assert (Hqe : locked st3 && negb watch_only = true -> ai_enc ai <> None).
    { unfold watch_only. intros Hqq. apply andb_true_iff in Hqq. destruct Hqq as (_ & Hqq).
      destruct (ai_enc ai); [discriminate|discriminate]. }
    destruct (issue_finish seed lk st st1 st2 st3 s sch a ai bk (child_num (x_skey ak)) branch
                           (locked st3 && negb watch_only) objs (N.to_nat n) ai'
                           E1 N1 I1 Hs1 C1 (f_equal child_num Hak1) E2 L2 G2 P2 I3 E3 N3 Hai' Hqe)
      as (I5 & E5 & N5 & _ & D5 & A5 & E25).
    specialize (N5 Hq).
    set (st5 := cache_acct (cache_objs st3 s branch (locked st3 && negb watch_only) objs) s a ai') in *.
    (* the stored next index *)
    assert (Hcnt : exists c, N.to_nat n = S c) by (apply N_to_nat_pos; exact Hn0).
    destruct Hcnt as (c & Hc).
    assert (Hbi : (branch =? internal_branch) = internal) by (unfold branch; destruct internal; reflexivity).
    assert (Hnx : disk_next (st_disk st5) s a internal = next + n /\
                  (forall s' a' i', (s', a', i') <> (s, a, internal) ->
                     disk_next (st_disk st5) s' a' i' = disk_next (st_disk st1) s' a' i')).
    { rewrite D5. destruct X3 as (X3a & X3b). unfold next_key in X3a, X3b. rewrite Hbi in X3a, X3b.
      rewrite D2 in X3a, X3b. split.
      - unfold disk_next at 1. rewrite X3b. rewrite Hc in S2.
        destruct (rev_objs_last objs next c S2) as (p & l & Hr & Hp). rewrite Hr, Hp.
        simpl. apply next_plus. exact Hc.
      - intros s' a' i' Hne. unfold disk_next. rewrite X3a by exact Hne. reflexivity. }
    destruct Hnx as (Hnx1 & Hnx2).
    splits; try assumption.
    - (* NextOk *)
      intros s' a' ai0 H0. rewrite A5, A3, C2 in H0. rewrite aget_aset in H0.
      destruct (sa_dec (s', a') (s, a)) as [E|E].
      + inversion E. subst s' a'. inversion H0. subst ai0.
        destruct (HN1 s a ai C1) as (Y1 & Y2).
        destruct internal; unfold ai', set_next; cbn [ai_next_ext ai_next_int].
        * rewrite Hnx1. split; [|reflexivity]. rewrite Y1. symmetry. apply Hnx2. intros Hx. inversion Hx.
        * rewrite Hnx1. split; [reflexivity|]. rewrite Y2. symmetry. apply Hnx2. intros Hx. inversion Hx.
      + destruct (HN1 s' a' ai0 H0) as (Y1 & Y2). rewrite Y1, Y2.
        split; symmetry; apply Hnx2; intros Hx; apply E; inversion Hx; reflexivity.
    - rewrite Hnx1, Hnext. reflexivity.
    - intros s' a' i' Hne. rewrite Hnx2 by exact Hne. rewrite D1. reflexivity.
    - rewrite <- Hnext, <- S2. apply Forall_Forall2_fst_snd.
      rewrite Forall_forall in *. intros p Hp. destruct (P2 p Hp) as (Q & Qe).
      destruct S1 as (row & R1 & _ & R3 & _).
      assert (Hrow2 : aget sa_dec (d_accts (st_disk st2)) (s, a) = Some row) by (rewrite (ext_accts _ _ E2); exact R1).
      pose proof (field_of_enc_is _ _ _ _ _ _ _ _ _ Qe Q Hrow2) as Hf.
      split; [exact (chain_obj_at_ext _ _ _ _ _ _ _ E25 Q)|]. apply (field_at_ext _ _ _ E25). apply Hf.
      rewrite Hak1, R3. reflexivity.
  Qed.
End next_ext2.

Lemma range_bound_ext next last :
  next <= last -> last <= max_addresses_per_account ->
  next + N.of_nat (N.to_nat (last + 1 - next)) <= hardened_start.
Proof. intros H1 H2. rewrite N2Nat.id. unfold max_addresses_per_account, hardened_start in *. lia. Qed.

Lemma ext_count next last : next <= last -> exists c, N.to_nat (last + 1 - next) = S c /\ next + N.of_nat c + 1 = last + 1.
Proof.
  intros H. destruct (N.to_nat (last + 1 - next)) as [|c] eqn:E; [lia|]. exists c. split; [reflexivity|].
  assert (last + 1 - next = N.of_nat (S c)) by (rewrite <- E, N2Nat.id; reflexivity). lia.
Qed.

Section extend.
  Context (seed : N) (lk : bool).

  Lemma extend_addresses_post b st s sch a last internal :
    b = true ->
    Inv0 seed lk st -> m_locked (st_mem st) = lk -> In (s, sch) (m_scopes (st_mem st)) -> NextOk st ->
    match extend_addresses b st s sch a last internal with
    | Ok st' _ =>
      Inv0 seed lk st' /\ ext st st' /\ (b = true -> new_fresh st st') /\ new_cached st st' /\ NextOk st' /\
      disk_next (st_disk st') s a internal = N.max (disk_next (st_disk st) s a internal) (last + 1) /\
      (forall s' a' i', (s', a', i') <> (s, a, internal) ->
         disk_next (st_disk st') s' a' i' = disk_next (st_disk st) s' a' i')
    | Err st' e => Inv0 seed lk st' /\ ext st st' /\ new_fresh st st' /\ NextOk st' /\ st_disk st' = st_disk st
    end.
  Proof.
    intros Hbt I Hl Hs HN. unfold extend_addresses.
    pose proof (load_acct_post' seed lk st s sch a I Hl Hs) as HL.
    pose proof (NextOk_load seed lk st s sch a I Hl Hs HN) as HN1.
    pose proof (load_acct_disk st s sch a) as HD.
    destruct (load_acct st s sch a) as [st1 ai|st1 e]; cbn [bind]; simpl in HL, HD;
      [|destruct HL as (I1 & E1 & N1); splits; assumption].
    destruct HL as (I1 & E1 & N1 & C1 & S1 & D1 & A1 & K1 & Sm1 & Nx1).
    assert (Hl1 : m_locked (st_mem st1) = lk) by (rewrite (ext_locked _ _ E1); exact Hl).
    assert (Hs1 : In (s, sch) (m_scopes (st_mem st1))) by (rewrite (ext_mscopes _ _ E1); exact Hs).
    pose proof (ai_static_wf _ _ _ _ _ _ (i_disk _ _ _ I1) S1) as Hwf.
    assert (Herr : Inv0 seed lk st1 /\ ext st st1 /\ new_fresh st st1 /\ NextOk st1 /\ st_disk st1 = st_disk st)
      by (splits; assumption).
    set (watch_only := if b then negb (is_some (ai_enc ai)) else is_some (ai_priv ai)).
    set (branch := if internal then internal_branch else external_branch).
    set (next := if internal then ai_next_int ai else ai_next_ext ai).
    assert (Hnext : next = disk_next (st_disk st) s a internal).
    { destruct (HN1 s a ai C1) as (X1 & X2). unfold next. rewrite <- D1. destruct internal; assumption. }
    destruct (last <? next) eqn:Hlast.
    { apply N.ltb_lt in Hlast. splits; try assumption; [intros _; exact N1|apply new_fresh_cached; exact N1| |intros; rewrite D1; reflexivity].
      rewrite D1, <- Hnext. clear - Hlast. lia. }
    apply N.ltb_ge in Hlast.
    destruct (max_addresses_per_account <? last) eqn:Hmax; [exact Herr|]. apply N.ltb_ge in Hmax.
    set (use_priv := negb (locked st1) && negb watch_only).
    destruct (if use_priv then option_map (fun k => XPriv k Full) (ai_priv ai) else Some (XPub (ai_pub ai))) as [ak|] eqn:Hak;
      [|exact Herr].
    assert (Hakk : x_skey ak = ai_pub ai /\ x_is_private ak = (use_priv && is_some (ai_priv ai))).
    { destruct use_priv.
      - destruct (ai_priv ai) as [p|] eqn:Ep; [|discriminate]. simpl in Hak. inversion Hak. subst ak. simpl.
        rewrite (proj1 (Hwf p Ep)). split; reflexivity.
      - inversion Hak. subst ak. split; reflexivity. }
    destruct Hakk as (Hak1 & Hak2).
    destruct (x_derive ak branch) as [bk|] eqn:Hbk; [|exact Herr].
    assert (Hbrh : is_hardened branch = false) by (unfold branch; destruct internal; reflexivity).
    destruct (x_derive_spec _ _ _ (on_spec_unhardened ak branch Hbrh) Hbk) as (B1 & B2).
    destruct (ext_count next last Hlast) as (c & Hc & Hc').
    assert (Hidx : Forall (fun idx => is_hardened idx = false) (index_range next (N.to_nat (last + 1 - next)))).
    { apply index_range_not_hardened. apply range_bound_ext; assumption. }
    assert (Hbks : x_skey bk = raw_child (ai_pub ai) branch) by (rewrite B1, Hak1; reflexivity).
    destruct (make_objs_post seed lk s sch a ai bk (child_num (ai_pub ai)) branch (ai_fp ai) internal
                             (index_range next (N.to_nat (last + 1 - next))) st1 I1 Hs1 S1 Hbks eq_refl Hidx)
      as (st2 & objs & M0 & I2 & E2 & D2 & C2 & A2 & Q2 & S2 & L2 & G2 & P2).
    rewrite M0. cbn [bind]. cbv zeta.
    assert (Ho2 : objs_ok s a branch st2 objs).
    { unfold objs_ok. rewrite Forall_forall in *. intros p Hp. destruct (P2 p Hp) as (Q & _). split; [exact Q|].
      apply Hidx. rewrite <- S2. apply in_map. exact Hp. }
    destruct (write_only_post seed lk s a branch objs st2 I2 Ho2) as (I3 & E3 & M3 & X3).
    set (st3 := write_only st2 s a branch objs) in *.
    assert (N3 : new_fresh st2 st3) by (intros oid Ho; rewrite M3 in Ho; clear - Ho; lia).
    assert (Hlock3 : locked st3 = lk).
    { unfold locked. rewrite (ext_locked _ _ E3), (ext_locked _ _ E2). exact Hl1. }
    set (ai' := set_next internal (last + 1) ai).
    assert (Hai' : ai_static (st_disk st3) lk s a ai').
    { apply ai_static_set_next. destruct S1 as (row & R). exists row.
      rewrite (ext_accts _ _ E3), (ext_accts _ _ E2). exact R. }
    rewrite index_range_length in L2, G2.
    assert (Hqe : locked st3 && negb watch_only = true -> ai_enc ai <> None).
    { unfold watch_only. rewrite Hbt. intros Hqq. apply andb_true_iff in Hqq. destruct Hqq as (_ & Hqq).
      destruct (ai_enc ai); [discriminate|discriminate]. }
    destruct (issue_finish seed lk st st1 st2 st3 s sch a ai bk (child_num (ai_pub ai)) branch
                           (locked st3 && negb watch_only) objs (N.to_nat (last + 1 - next)) ai'
                           E1 N1 I1 Hs1 C1 eq_refl E2 L2 G2 P2 I3 E3 N3 Hai' Hqe)
      as (I5 & E5 & N5 & NC5 & D5 & A5 & _).
    set (st5 := cache_acct (cache_objs st3 s branch (locked st3 && negb watch_only) objs) s a ai') in *.
    assert (Hbi : (branch =? internal_branch) = internal) by (unfold branch; destruct internal; reflexivity).
    assert (Hnx : disk_next (st_disk st5) s a internal = last + 1 /\
                  (forall s' a' i', (s', a', i') <> (s, a, internal) ->
                     disk_next (st_disk st5) s' a' i' = disk_next (st_disk st1) s' a' i')).
    { rewrite D5. destruct X3 as (X3a & X3b). unfold next_key in X3a, X3b. rewrite Hbi in X3a, X3b.
      rewrite D2 in X3a, X3b. split.
      - unfold disk_next at 1. rewrite X3b. rewrite Hc in S2.
        destruct (rev_objs_last objs next c S2) as (p & l & Hr & Hp). rewrite Hr, Hp. simpl. exact Hc'.
      - intros s' a' i' Hne. unfold disk_next. rewrite X3a by exact Hne. reflexivity. }
    destruct Hnx as (Hnx1 & Hnx2).
    splits; try assumption.
    - (* freshness needs the right watch-only test *)
      intros Hb. apply N5. intros He. subst b. unfold watch_only. destruct (ai_enc ai) as [x|] eqn:Ee; [|contradiction].
      simpl. rewrite Hlock3, Hl1. destruct lk eqn:Elk; [right; split; reflexivity|left].
      rewrite B2, Hak2. unfold use_priv, locked, watch_only. rewrite Hl1, ?Ee. simpl.
      destruct S1 as (row & _ & _ & _ & R4 & _ & _ & R7). rewrite R7, <- R4, ?Ee. reflexivity.
    - intros s' a' ai0 H0. rewrite A5, M3, C2 in H0. rewrite aget_aset in H0.
      destruct (sa_dec (s', a') (s, a)) as [E|E].
      + inversion E. subst s' a'. inversion H0. subst ai0.
        destruct (HN1 s a ai C1) as (Y1 & Y2).
        destruct internal; unfold ai', set_next; cbn [ai_next_ext ai_next_int].
        * rewrite Hnx1. split; [|reflexivity]. rewrite Y1. symmetry. apply Hnx2. intros Hx. inversion Hx.
        * rewrite Hnx1. split; [reflexivity|]. rewrite Y2. symmetry. apply Hnx2. intros Hx. inversion Hx.
      + destruct (HN1 s' a' ai0 H0) as (Y1 & Y2). rewrite Y1, Y2.
        split; symmetry; apply Hnx2; intros Hx; apply E; inversion Hx; reflexivity.
    - rewrite Hnx1, <- Hnext. clear - Hlast. lia.
    - intros s' a' i' Hne. rewrite Hnx2 by exact Hne. rewrite D1. reflexivity.
  Qed.
End extend.

(* ------------------------------------------------------ getters and reports *)

Definition enc_same (o o' : mobj) : Prop :=
  match o, o' with
  | MKey a, MKey b => ma_enc a = ma_enc b
  | MScript a, MScript b => sa_enc a = sa_enc b /\ sa_secret a = sa_secret b
  | _, _ => False
  end.

(** a change that only fills or clears clear-text slots of objects (and may
    hand out more objects) *)
Record pres (st st' : state) : Prop := mkPres {
  p_disk : st_disk st' = st_disk st;
  p_locked : m_locked (st_mem st') = m_locked (st_mem st);
  p_pass : m_pass (st_mem st') = m_pass (st_mem st);
  p_scopes : m_scopes (st_mem st') = m_scopes (st_mem st);
  p_accts : m_accts (st_mem st') = m_accts (st_mem st);
  p_addrs : m_addrs (st_mem st') = m_addrs (st_mem st);
  p_queue : m_queue (st_mem st') = m_queue (st_mem st);
  p_len : length (m_heap (st_mem st')) = length (m_heap (st_mem st));
  p_heap : forall i o, nth_error (m_heap (st_mem st)) i = Some o ->
           exists o', nth_error (m_heap (st_mem st')) i = Some o' /\ same_shape o o' /\ enc_same o o';
}.

Lemma same_shape_refl o : same_shape o o.
Proof. destruct o; simpl; tauto. Qed.
Lemma enc_same_refl o : enc_same o o.
Proof. destruct o; simpl; [reflexivity|split; reflexivity]. Qed.
Lemma same_shape_trans a b c : same_shape a b -> same_shape b c -> same_shape a c.
Proof. destruct a, b, c; simpl; try tauto; intuition congruence. Qed.
Lemma enc_same_trans a b c : enc_same a b -> enc_same b c -> enc_same a c.
Proof. destruct a, b, c; simpl; try tauto; intuition congruence. Qed.

Lemma pres_refl st : pres st st.
Proof. constructor; try reflexivity. intros i o H. exists o. auto using same_shape_refl, enc_same_refl. Qed.

Lemma pres_trans a b c : pres a b -> pres b c -> pres a c.
Proof.
  intros [] []. constructor; try congruence.
  intros i o H. destruct (p_heap0 i o H) as (o1 & H1 & S1 & E1).
  destruct (p_heap1 i o1 H1) as (o2 & H2 & S2 & E2). exists o2.
  eauto using same_shape_trans, enc_same_trans.
Qed.

Lemma pres_heap_back st st' i o' :
  pres st st' -> nth_error (m_heap (st_mem st')) i = Some o' ->
  exists o, nth_error (m_heap (st_mem st)) i = Some o /\ same_shape o o' /\ enc_same o o'.
Proof.
  intros P H. pose proof (nth_error_Some_lt _ _ _ H) as Hlt. rewrite (p_len _ _ P) in Hlt.
  destruct (nth_error (m_heap (st_mem st)) i) as [o|] eqn:E; [|apply nth_error_None in E; lia].
  destruct (p_heap _ _ P i o E) as (o2 & H2 & S2 & E2). rewrite H in H2. inversion H2. subst o2. eauto.
Qed.

Lemma NextOk_pres st st' : pres st st' -> NextOk st -> NextOk st'.
Proof. intros P H s a ai Hc. rewrite (p_accts _ _ P) in Hc. rewrite (p_disk _ _ P). exact (H s a ai Hc). Qed.

Lemma HC_pres st st' : pres st st' -> HC st -> HC st'.
Proof.
  intros P H oid ma Hn Hi. destruct (pres_heap_back _ _ _ _ P Hn) as (o & Ho & S & _).
  destruct o as [mb|]; simpl in S; [|contradiction]. destruct S as (S1 & S2 & _ & _ & S5 & _).
  rewrite (p_accts _ _ P), <- S1, <- S2. apply (H oid mb Ho). congruence.
Qed.

(** replacing the clear text of one object *)
Lemma heap_set_pres seed lk st oid o o' :
  Inv0 seed lk st -> nth_error (m_heap (st_mem st)) oid = Some o -> same_shape o o' -> enc_same o o' ->
  obj_ok (st_disk st) o' -> Inv0 seed lk (heap_set st oid o') /\ pres st (heap_set st oid o') /\
  m_handles (st_mem (heap_set st oid o')) = m_handles (st_mem st).
Proof.
  intros I H1 H2 H3 H4. split; [eapply heap_set_post; eauto|]. split; [|unf; reflexivity].
  destruct st as [D M]. unf. constructor; simpl; try reflexivity.
  - apply length_list_set.
  - intros i x Hx. rewrite nth_error_list_set. destruct (Nat.eqb_spec i oid) as [->|].
    + pose proof (nth_error_Some_lt _ _ _ H1) as Hlt. destruct (Nat.ltb_spec oid (length (m_heap M))); [|lia].
      rewrite H1 in Hx. inversion Hx. subst x. eauto.
    + exists x. auto using same_shape_refl, enc_same_refl.
Qed.

Section getters.
  Context (seed : N) (lk : bool).

  Lemma priv_key_post st oid :
    Inv0 seed lk st ->
    Inv0 seed lk (fst (priv_key st oid)) /\ pres st (fst (priv_key st oid)) /\
    m_handles (st_mem (fst (priv_key st oid))) = m_handles (st_mem st) /\
    match nth_error (m_heap (st_mem st)) oid with
    | Some (MKey ma) =>
      snd (priv_key st oid) =
      if m_locked (st_mem st) then PErr ELocked
      else match ma_enc ma with
           | None => PErr EWatching
           | Some _ => POk (Priv (skey_of_pub (ma_pub ma)))
           end
    | _ => snd (priv_key st oid) = PErr EOther
    end.
  Proof.
    intros I. unfold priv_key, heap_get, locked.
    destruct (nth_error (m_heap (st_mem st)) oid) as [[ma|sa]|] eqn:Ho; simpl;
      try (splits; [exact I|apply pres_refl|reflexivity|reflexivity]).
    destruct (m_locked (st_mem st)); simpl; [splits; [exact I|apply pres_refl|reflexivity|reflexivity]|].
    destruct (ma_enc ma) as [k|] eqn:Ek; simpl; [|splits; [exact I|apply pres_refl|reflexivity|reflexivity]].
    destruct (i_heap _ _ _ I _ _ Ho) as ((K1 & K2) & Hrest).
    set (ct := match ma_ct ma with Some c => c | None => k end).
    assert (Hct : ct = Priv (skey_of_pub (ma_pub ma))).
    { unfold ct. destruct (ma_ct ma) as [c|] eqn:Ec; [apply K2; reflexivity|apply K1; exact Ek]. }
    set (o' := MKey (set_keys (Some k) (Some ct) ma)).
    assert (Hobj : obj_ok (st_disk st) o').
    { simpl. split.
      - unfold keys_ok. simpl. split; intros x Hx; inversion Hx; subst; [apply K1; exact Ek|exact Hct].
      - destruct (ma_imported ma); [|exact Hrest].
        destruct Hrest as (n & sch & coin & po & R1 & R2 & R3). exists n, sch, coin, po. simpl. rewrite <- Ek. tauto. }
    destruct (heap_set_pres seed lk st oid (MKey ma) o' I Ho) as (I' & P' & H'); try exact Hobj.
    + simpl. tauto.
    + simpl. exact Ek.
    + splits; try assumption. rewrite Hct. reflexivity.
  Qed.

  Lemma script_of_post st oid :
    Inv0 seed lk st ->
    Inv0 seed lk (fst (script_of st oid)) /\ pres st (fst (script_of st oid)) /\
    m_handles (st_mem (fst (script_of st oid))) = m_handles (st_mem st) /\
    match nth_error (m_heap (st_mem st)) oid with
    | Some (MScript sa) =>
      snd (script_of st oid) = if sa_secret sa && m_locked (st_mem st) then SErr ELocked else SOk (sa_script sa)
    | _ => snd (script_of st oid) = SErr EOther
    end.
  Proof.
    intros I. unfold script_of, heap_get, locked.
    destruct (nth_error (m_heap (st_mem st)) oid) as [[ma|sa]|] eqn:Ho; simpl;
      try (splits; [exact I|apply pres_refl|reflexivity|reflexivity]).
    destruct (sa_secret sa && m_locked (st_mem st)); simpl; [splits; [exact I|apply pres_refl|reflexivity|reflexivity]|].
    destruct (i_heap _ _ _ I _ _ Ho) as (K1 & K2). simpl in K1, K2. rewrite K1. simpl.
    set (ct := match sa_ct sa with Some c => c | None => sa_script sa end).
    assert (Hct : ct = sa_script sa).
    { unfold ct. destruct (sa_ct sa) as [c|] eqn:Ec; [apply K2; reflexivity|reflexivity]. }
    set (o' := MScript (mkSA (sa_scope sa) (sa_script sa) (Some (sa_script sa)) (Some ct) (sa_secret sa))).
    assert (Hobj : obj_ok (st_disk st) o').
    { simpl. split; [reflexivity|]. intros c Hc. inversion Hc. subst. exact Hct. }
    destruct (heap_set_pres seed lk st oid (MScript sa) o' I Ho) as (I' & P' & H'); try exact Hobj.
    + simpl. tauto.
    + simpl. split; [exact K1|reflexivity].
    + splits; try assumption. rewrite Hct. reflexivity.
  Qed.
End getters.

(** what [report] says about object [o] in a state with lock flag [lkd] *)
Definition rinfo_desc (lkd : bool) (o : mobj) (r : rinfo) : Prop :=
  match o with
  | MKey ma =>
    r = RKey (mkInfo (if ma_imported ma then (0, 0) else ma_scope ma)
                     (if ma_imported ma then zero_path else ma_path ma)
                     (negb (ma_imported ma)) (dp_iacct (ma_path ma))
                     (ma_fmt ma) (ma_pub ma) (ma_internal ma) (ma_imported ma)
                     (if lkd then PErr ELocked
                      else match ma_enc ma with
                           | None => PErr EWatching
                           | Some _ => POk (Priv (skey_of_pub (ma_pub ma)))
                           end))
  | MScript sa =>
    r = RScr (sa_scope sa) (sa_script sa) (if sa_secret sa && lkd then SErr ELocked else SOk (sa_script sa))
  end.

Section reports.
  Context (seed : N) (lk : bool).

  Definition add_handle (st : state) (oid : nat) : state :=
    upd_mem (fun m => set_m_handles (m_handles m ++ [oid]) m) st.

  Lemma add_handle_post st oid :
    Inv0 seed lk st -> (oid < length (m_heap (st_mem st)))%nat ->
    Inv0 seed lk (add_handle st oid) /\ pres st (add_handle st oid) /\
    m_handles (st_mem (add_handle st oid)) = m_handles (st_mem st) ++ [oid].
  Proof.
    intros I Hlt. destruct st as [D M]. unfold add_handle. unf.
    splits; [|constructor; simpl; try reflexivity; intros i o H; exists o; auto using same_shape_refl, enc_same_refl|reflexivity].
    destruct I. constructor; unfinv; try assumption.
    intros h Hh. apply in_app_or in Hh. destruct Hh as [Hh|[<-|[]]]; [eauto|exact Hlt].
  Qed.

  Lemma report_post st oid o :
    Inv0 seed lk st -> nth_error (m_heap (st_mem st)) oid = Some o ->
    Inv0 seed lk (fst (report st oid)) /\ pres st (fst (report st oid)) /\
    m_handles (st_mem (fst (report st oid))) = m_handles (st_mem st) ++ [oid] /\
    rinfo_desc (m_locked (st_mem st)) o (snd (report st oid)).
  Proof.
    intros I Ho. unfold report. fold (add_handle st oid).
    destruct (add_handle_post st oid I (nth_error_Some_lt _ _ _ Ho)) as (I1 & P1 & H1).
    set (st1 := add_handle st oid) in *.
    assert (Ho1 : nth_error (m_heap (st_mem st1)) oid = Some o) by (unfold st1, add_handle; unf; exact Ho).
    assert (Hl1 : m_locked (st_mem st1) = m_locked (st_mem st)) by (apply (p_locked _ _ P1)).
    unfold heap_get. rewrite Ho1. destruct o as [ma|sa].
    - destruct (priv_key_post seed lk st1 oid I1) as (I2 & P2 & H2 & R2). rewrite Ho1 in R2.
      destruct (priv_key st1 oid) as [st2 p] eqn:Ep. simpl in *.
      splits; [exact I2|eapply pres_trans; eauto|congruence|]. rewrite R2; try rewrite Hl1; reflexivity.
    - destruct (script_of_post seed lk st1 oid I1) as (I2 & P2 & H2 & R2). rewrite Ho1 in R2.
      destruct (script_of st1 oid) as [st2 p] eqn:Ep. simpl in *.
      splits; [exact I2|eapply pres_trans; eauto|congruence|]. rewrite R2; try rewrite Hl1; reflexivity.
  Qed.

  Lemma report_all_post oids : forall st,
    Inv0 seed lk st -> Forall (fun oid => (oid < length (m_heap (st_mem st)))%nat) oids ->
    Inv0 seed lk (fst (report_all st oids)) /\ pres st (fst (report_all st oids)) /\
    m_handles (st_mem (fst (report_all st oids))) = m_handles (st_mem st) ++ oids /\
    Forall2 (fun oid r => exists o, nth_error (m_heap (st_mem st)) oid = Some o /\
                                    rinfo_desc (m_locked (st_mem st)) o r)
            oids (snd (report_all st oids)).
  Proof.
    induction oids as [|oid rest IH]; intros st I Hv; simpl.
    - splits; [exact I|apply pres_refl|rewrite app_nil_r; reflexivity|constructor].
    - apply Forall_cons_iff in Hv. destruct Hv as (Hv1 & Hv2).
      destruct (nth_error (m_heap (st_mem st)) oid) as [o|] eqn:Ho; [|apply nth_error_None in Ho; lia].
      destruct (report_post st oid o I Ho) as (I1 & P1 & H1 & R1).
      destruct (report st oid) as [st1 r] eqn:Er. simpl in *.
      assert (Hv2' : Forall (fun x => (x < length (m_heap (st_mem st1)))%nat) rest).
      { rewrite (p_len _ _ P1). exact Hv2. }
      destruct (IH st1 I1 Hv2') as (I2 & P2 & H2 & R2).
      destruct (report_all st1 rest) as [st2 rs] eqn:Era. simpl in *.
      splits; [exact I2|eapply pres_trans; eauto|rewrite H2, H1, <- app_assoc; reflexivity|].
      constructor; [exists o; split; [exact Ho|exact R1]|].
      (* the remaining objects are described relative to [st]: same shape and keys *)
      clear - R2 P1. revert R2. generalize rs. induction rest as [|x xs IHx]; intros rs' H; inversion H; subst; constructor.
      + destruct H2 as (o1 & O1 & O2). destruct (pres_heap_back _ _ _ _ P1 O1) as (o0 & O0 & S0 & E0).
        exists o0. split; [exact O0|]. rewrite <- (p_locked _ _ P1).
        destruct o0 as [a|a], o1 as [b|b]; simpl in S0, E0; try contradiction; simpl in *.
        * destruct S0 as (S1 & S2 & S3 & S4 & S5 & S6). rewrite S1, S2, S3, S4, S5, S6, E0. exact O2.
        * destruct S0 as (S1 & S2). destruct E0 as (_ & E1). rewrite S1, S2, E1. exact O2.
      + apply IHx. assumption.
  Qed.
End reports.

(* ------------------------------------------------------------- lock / unlock *)

(** heaps that differ only in clear texts *)
Definition heap_rel (h h' : list mobj) : Prop :=
  length h' = length h /\
  forall i o, nth_error h i = Some o ->
    exists o', nth_error h' i = Some o' /\ same_shape o o' /\ enc_same o o' /\ (forall D, obj_ok D o -> obj_ok D o').

Lemma heap_rel_refl h : heap_rel h h.
Proof. split; [reflexivity|]. intros i o H. exists o. auto using same_shape_refl, enc_same_refl. Qed.

Lemma heap_rel_trans a b c : heap_rel a b -> heap_rel b c -> heap_rel a c.
Proof.
  intros (L1 & H1) (L2 & H2). split; [congruence|]. intros i o Ho.
  destruct (H1 i o Ho) as (o1 & A1 & A2 & A3 & A4). destruct (H2 i o1 A1) as (o2 & B1 & B2 & B3 & B4).
  exists o2. splits; eauto using same_shape_trans, enc_same_trans.
Qed.

Lemma clear_ct_ok D o : obj_ok D o -> obj_ok D (clear_ct o).
Proof.
  destruct o as [ma|sa]; simpl.
  - intros ((K1 & K2) & H). split; [split; simpl; [exact K1|discriminate]|]. exact H.
  - intros (H1 & H2). split; [exact H1|discriminate].
Qed.

Lemma heap_rel_clear h i o : nth_error h i = Some o -> heap_rel h (list_set h i (clear_ct o)).
Proof.
  intros Ho. split; [apply length_list_set|]. intros j x Hx. rewrite nth_error_list_set.
  destruct (Nat.eqb_spec j i) as [->|].
  - pose proof (nth_error_Some_lt _ _ _ Ho). destruct (Nat.ltb_spec i (length h)); [|lia].
    rewrite Ho in Hx. inversion Hx. subst x. exists (clear_ct o). splits; [reflexivity| | |intros D; apply clear_ct_ok].
    + destruct o; simpl; tauto.
    + destruct o; simpl; [reflexivity|split; reflexivity].
  - exists x. splits; auto using same_shape_refl, enc_same_refl.
Qed.

Lemma lock_heap_rel (l : list ((scope * akey) * nat)) : forall h,
  heap_rel h (fold_left (fun h kv => match nth_error h (snd kv) with
                                     | Some o => list_set h (snd kv) (clear_ct o)
                                     | None => h end) l h).
Proof.
  induction l as [|kv l IH]; intros h; simpl; [apply heap_rel_refl|].
  destruct (nth_error h (snd kv)) as [o|] eqn:E; [|apply IH].
  eapply heap_rel_trans; [apply heap_rel_clear; exact E|apply IH].
Qed.

Section locking.
  Context (seed : N).

  (** replacing heap, cached accounts and the lock flag consistently *)
  Lemma Inv0_reheap lk lk' mlk st h' accts' pk' :
    Inv0 seed lk st -> heap_rel (m_heap (st_mem st)) h' ->
    (forall k v, aget sp_dec pk' k = Some v -> aget sp_dec (m_pk (st_mem st)) k = Some v) ->
    accts_static (st_disk st) lk' (mkMem mlk (m_pass (st_mem st)) (m_scopes (st_mem st)) accts' (m_addrs (st_mem st))
                                          (m_queue (st_mem st)) pk' h' (m_handles (st_mem st))) ->
    Inv0 seed lk' (mkState (st_disk st)
                           (mkMem mlk (m_pass (st_mem st)) (m_scopes (st_mem st)) accts' (m_addrs (st_mem st))
                                  (m_queue (st_mem st)) pk' h' (m_handles (st_mem st)))).
  Proof.
    intros I (HL & HR) Hpk HA. destruct st as [D M]. destruct I. simpl in *.
    constructor; unfinv; try assumption; [| | |intros s p k H; apply i_pk0; apply Hpk; exact H|].
    - intros oid o H. destruct (nth_error (m_heap M) oid) as [o0|] eqn:E.
      + destruct (HR oid o0 E) as (o1 & A1 & _ & _ & A4). rewrite H in A1. inversion A1. subst o1. apply A4. eauto.
      + apply nth_error_None in E. apply nth_error_Some_lt in H. lia.
    - intros s k oid H. destruct (i_cache0 s k oid H) as (o & C1 & C2 & C3 & C4).
      destruct (HR oid o C1) as (o1 & A1 & A2 & _). exists o1. destruct (same_shape_akey _ _ A2) as (E1 & E2).
      splits; try congruence. eapply same_shape_field; eauto.
    - intros s oid b i H. destruct (i_queue0 s oid b i H) as (ma & Q1 & Q2 & Q3 & Q4 & Q5 & Q6 & Q7).
      destruct (HR oid _ Q1) as (o1 & A1 & A2 & _). destruct o1 as [mb|]; simpl in A2; [|contradiction].
      destruct A2 as (S1 & S2 & _ & _ & S5 & _). exists mb. rewrite <- S1, <- S2, <- S5. splits; assumption.
    - intros h H. rewrite HL. eauto.
  Qed.

  Lemma lock_all_post lk st :
    Inv0 seed lk st ->
    Inv0 seed true (lock_all st) /\ m_locked (st_mem (lock_all st)) = true /\
    st_disk (lock_all st) = st_disk st /\ m_queue (st_mem (lock_all st)) = m_queue (st_mem st) /\
    m_accts (st_mem (lock_all st)) = amap clear_priv (m_accts (st_mem st)) /\
    heap_rel (m_heap (st_mem st)) (m_heap (st_mem (lock_all st))) /\
    m_handles (st_mem (lock_all st)) = m_handles (st_mem st).
  Proof.
    intros I. unfold lock_all. unf.
    pose proof (lock_heap_rel (m_addrs (st_mem st)) (m_heap (st_mem st))) as HR.
    splits; try reflexivity; try exact HR.
    apply (Inv0_reheap lk true true st _ _ [] I HR); [intros k v Hk; discriminate|].
    intros s a ai H. simpl in H. rewrite aget_amap in H.
    destruct (aget sa_dec (m_accts (st_mem st)) (s, a)) as [ai0|] eqn:E; [|discriminate]. inversion H. subst ai.
    destruct (i_accts _ _ _ I _ _ _ E) as (row & R1 & R2 & R3 & R4 & R5 & R6 & R7).
    exists row. simpl. splits; assumption || reflexivity.
  Qed.
End locking.

(** every cached account has its private key in memory *)
Definition filled (st : state) : Prop :=
  forall k ai, aget sa_dec (m_accts (st_mem st)) k = Some ai -> ai_priv ai <> None.

(** what the deriveOnUnlock loop does to the heap: shapes stay, present keys
    stay, and the objects named in the processed queue now have their key *)
Definition filled_rel (q : list (scope * nat * N * N)) (h h' : list mobj) : Prop :=
  length h' = length h /\
  forall i o, nth_error h i = Some o ->
    exists o', nth_error h' i = Some o' /\ same_shape o o' /\
      match o, o' with
      | MKey a, MKey b => (ma_enc a <> None -> ma_enc b <> None) /\
                          (forall s br idx, In (s, i, br, idx) q -> ma_enc b <> None)
      | MScript a, MScript b => sa_enc a = sa_enc b
      | _, _ => False
      end.

Section unlocking.
  Context (seed : N).

  Lemma pop_queue_post lk st q' :
    Inv0 seed lk st -> incl q' (m_queue (st_mem st)) ->
    Inv0 seed lk (upd_mem (fun m => set_m_queue q' m) st).
  Proof.
    intros I Hi. destruct st as [D M]. unf. destruct I. constructor; unfinv; try assumption.
    intros s oid b i H. apply i_queue0. apply Hi. exact H.
  Qed.

  Lemma derive_queue_post q : forall st,
    Inv0 seed false st -> HC st -> m_queue (st_mem st) = q ->
    exists st', derive_queue st q = Ok st' tt /\ Inv0 seed false st' /\
      m_queue (st_mem st') = [] /\ st_disk st' = st_disk st /\ m_accts (st_mem st') = m_accts (st_mem st) /\
      m_locked (st_mem st') = m_locked (st_mem st) /\ m_handles (st_mem st') = m_handles (st_mem st) /\
      filled_rel q (m_heap (st_mem st)) (m_heap (st_mem st')).
  Proof.
    induction q as [|[[[s oid] b] i] rest IH]; intros st I HCst Hq.
    - exists st. simpl. splits; try reflexivity; try assumption. split; [reflexivity|].
      intros j o Ho. exists o. split; [exact Ho|split; [apply same_shape_refl|]].
      destruct o; [split; [tauto|intros ? ? ? []]|reflexivity].
    - assert (Hin : In (s, oid, b, i) (m_queue (st_mem st))) by (rewrite Hq; left; reflexivity).
      destruct (i_queue _ _ _ I _ _ _ _ Hin) as (ma & Q1 & Q2 & Q3 & Q4 & Q5 & Q6 & (qrow & Q7 & Q8)).
      cbn [derive_queue]. unfold heap_get. rewrite Q1.
      destruct (aget scope_eq_dec (m_scopes (st_mem st)) s) as [sch|] eqn:Es; [|discriminate].
      pose proof (HCst oid ma Q1 Q2) as Hc. rewrite Q3 in Hc.
      destruct (aget sa_dec (m_accts (st_mem st)) (s, dp_iacct (ma_path ma))) as [ai|] eqn:Ec; [|discriminate].
      unfold load_acct. rewrite Ec. cbn [bind].
      destruct (ai_priv ai) as [p|] eqn:Ep.
      2: { exfalso. destruct (i_accts _ _ _ I _ _ _ Ec) as (row' & R1 & _ & _ & _ & _ & _ & R7).
           rewrite Q7 in R1. inversion R1. subst row'. rewrite Ep in R7. simpl in R7. congruence. }
      (* the filled object *)
      pose proof (i_accts _ _ _ I _ _ _ Ec) as Hai.
      pose proof (ai_static_wf _ _ _ _ _ _ (i_disk _ _ _ I) Hai) as Hwf.
      simpl is_some. rewrite (derive_key_priv_wf _ _ _ _ Hwf Ep).
      destruct (i_heap _ _ _ I _ _ Q1) as (HK & Hch). rewrite Q2 in Hch.
      destruct Hch as (row & sch' & coin & C1 & C2 & C3 & C4 & C5).
      destruct Hai as (row' & R1 & _ & R3 & _). rewrite Q3 in C1. rewrite R1 in C1. inversion C1. subst row'.
      assert (Hk : path_skey p b i = skey_of_pub (ma_pub ma)).
      { rewrite C3, Q4, Q5, (proj1 (Hwf p Ep)), R3. reflexivity. }
      set (mb := set_keys (Some (Priv (path_skey p b i))) (Some (Priv (path_skey p b i))) ma).
      assert (Hobj : obj_ok (st_disk st) (MKey mb)).
      { simpl. split.
        - unfold keys_ok. simpl. rewrite Hk. split; intros x Hx; inversion Hx; reflexivity.
        - rewrite Q2. exists row, sch', coin. simpl. rewrite Q3. rewrite Q3 in C2. splits; assumption. }
      assert (Hshape : same_shape (MKey ma) (MKey mb)) by (simpl; tauto).
      pose proof (heap_set_post seed false st oid (MKey ma) (MKey mb) I Q1 Hshape Hobj) as I1.
      set (st1 := heap_set st oid (MKey mb)) in *.
      assert (I2 : Inv0 seed false (upd_mem (fun m => set_m_queue (tl (m_queue m)) m) st1)).
      { assert (Hqq : m_queue (st_mem st1) = m_queue (st_mem st)) by (unfold st1; unf; reflexivity).
        replace (upd_mem (fun m => set_m_queue (tl (m_queue m)) m) st1)
          with (upd_mem (fun m => set_m_queue (tl (m_queue (st_mem st1))) m) st1) by reflexivity.
        apply pop_queue_post; [exact I1|]. rewrite Hqq, Hq. simpl. apply incl_tl, incl_refl. }
      set (st2 := upd_mem (fun m => set_m_queue (tl (m_queue m)) m) st1) in *.
      assert (Hh2 : m_heap (st_mem st2) = list_set (m_heap (st_mem st)) oid (MKey mb)) by (unfold st2, st1; unf; reflexivity).
      assert (Ha2 : m_accts (st_mem st2) = m_accts (st_mem st)) by (unfold st2, st1; unf; reflexivity).
      assert (Hq2 : m_queue (st_mem st2) = rest) by (unfold st2, st1; unf; rewrite Hq; reflexivity).
      assert (HC2 : HC st2).
      { intros j mc Hj Hi. rewrite Hh2, nth_error_list_set in Hj. rewrite Ha2.
        destruct (Nat.eqb_spec j oid) as [->|].
        - destruct (Nat.ltb oid (length (m_heap (st_mem st)))); [|discriminate]. inversion Hj. subst mc.
          simpl. apply (HCst oid ma Q1 Q2).
        - apply (HCst j mc Hj Hi). }
      destruct (IH st2 I2 HC2 Hq2) as (st3 & D3 & I3 & Q3' & K3 & A3 & L3 & H3 & (FL & FR)).
      exists st3. split; [exact D3|]. splits; try assumption. split.
      + rewrite FL, Hh2. apply length_list_set.
      + intros j o Ho.
        assert (Hj : exists o1, nth_error (m_heap (st_mem st2)) j = Some o1 /\ same_shape o o1 /\
                       match o, o1 with
                       | MKey a0, MKey b0 => (ma_enc a0 <> None -> ma_enc b0 <> None) /\ (j = oid -> ma_enc b0 <> None)
                       | MScript a0, MScript b0 => sa_enc a0 = sa_enc b0
                       | _, _ => False end).
        { rewrite Hh2, nth_error_list_set. destruct (Nat.eqb_spec j oid) as [->|Hne].
          - pose proof (nth_error_Some_lt _ _ _ Q1). destruct (Nat.ltb_spec oid (length (m_heap (st_mem st)))); [|lia].
            rewrite Q1 in Ho. inversion Ho. subst o. exists (MKey mb). split; [reflexivity|split; [exact Hshape|]].
            simpl. split; intros; discriminate.
          - exists o. split; [exact Ho|split; [apply same_shape_refl|]]. destruct o; [split; [tauto|intros; contradiction]|reflexivity]. }
        destruct Hj as (o1 & J1 & J2 & J3). destruct (FR j o1 J1) as (o2 & F1 & F2 & F3).
        exists o2. split; [exact F1|split; [eapply same_shape_trans; eauto|]].
        destruct o as [a0|a0], o1 as [b0|b0], o2 as [c0|c0]; simpl in *; try contradiction; try congruence.
        destruct J3 as (J3a & J3b). destruct F3 as (F3a & F3b). split; [tauto|].
        intros s0 br idx [Heq|Hin']; [inversion Heq; subst; tauto|eauto].
  Qed.
End unlocking.

(* ------------------------------------------------ 5. the invariants of a run *)

(** availability: a chain address of an account that has a private key holds
    its own private key, or the manager is locked and the address waits in
    the unlock queue *)
Definition avail_obj (st : state) (oid : nat) : Prop :=
  forall ma row, nth_error (m_heap (st_mem st)) oid = Some (MKey ma) -> ma_imported ma = false ->
    aget sa_dec (d_accts (st_disk st)) (ma_scope ma, dp_iacct (ma_path ma)) = Some row -> ar_priv row <> None ->
    ma_enc ma <> None \/
    (m_locked (st_mem st) = true /\
     In (ma_scope ma, oid, dp_branch (ma_path ma), dp_index (ma_path ma)) (m_queue (st_mem st))).

Definition Avail (st : state) : Prop := forall oid, avail_obj st oid.

Definition Good (seed : N) (st : state) : Prop :=
  Inv0 seed (m_locked (st_mem st)) st /\ NextOk st /\ HC st.

Lemma Avail_grow st st' : Avail st -> ext st st' -> new_fresh st st' -> Avail st'.
Proof.
  intros H E N oid ma row Hn Hi Hr Hp.
  destruct (Nat.ltb_spec oid (length (m_heap (st_mem st)))) as [Hlt|Hge].
  - destruct (nth_error (m_heap (st_mem st)) oid) as [o|] eqn:Eo; [|apply nth_error_None in Eo; lia].
    pose proof (ext_heap _ _ E _ _ Eo) as Eo'. rewrite Hn in Eo'. inversion Eo'. subst o.
    rewrite (ext_accts _ _ E) in Hr. rewrite (ext_locked _ _ E).
    destruct (H oid ma row Eo Hi Hr Hp) as [X|(X & Y)]; [left; exact X|right; split; [exact X|apply (ext_queue _ _ E); exact Y]].
  - assert (Hr' : (length (m_heap (st_mem st)) <= oid < length (m_heap (st_mem st')))%nat).
    { split; [exact Hge|]. eapply nth_error_Some_lt; eauto. }
    destruct (N oid Hr' ma Hn Hi) as (s & a & (ma' & F1 & F2 & F3 & F4 & F5) & _).
    rewrite Hn in F1. inversion F1. subst ma'. rewrite F3, F4 in *. exact (F5 row Hr Hp).
Qed.

Lemma Avail_pres st st' : pres st st' -> Avail st -> Avail st'.
Proof.
  intros P H oid ma row Hn Hi Hr Hp. destruct (pres_heap_back _ _ _ _ P Hn) as (o & Ho & S & E).
  destruct o as [mb|]; simpl in S, E; [|contradiction]. destruct S as (S1 & S2 & _ & _ & S5 & _).
  rewrite (p_disk _ _ P), <- S1, <- S2 in Hr. rewrite (p_locked _ _ P), (p_queue _ _ P), <- S1, <- S2, <- E.
  apply (H oid mb row Ho); congruence.
Qed.

Lemma Good_grow seed st st' :
  Good seed st -> Inv0 seed (m_locked (st_mem st)) st' -> ext st st' -> new_fresh st st' -> NextOk st' ->
  Good seed st'.
Proof.
  intros (I & N & H) I' E F N'. unfold Good. rewrite (ext_locked _ _ E).
  splits; [exact I'|exact N'|eapply HC_grow; eauto].
Qed.

Lemma Good_pres seed st st' :
  Good seed st -> Inv0 seed (m_locked (st_mem st)) st' -> pres st st' -> Good seed st'.
Proof.
  intros (I & N & H) I' P. unfold Good. rewrite (p_locked _ _ P).
  splits; [exact I'|eapply NextOk_pres; eauto|eapply HC_pres; eauto].
Qed.

(** Operations the theorems range over: account creation is only considered
    for scopes whose last-account counter is initialised and not about to wrap
    (see the finding about NewScopedKeyManager). *)
Definition last_ok (d : disk) (s : scope) : bool :=
  match aget scope_eq_dec (d_last d) s with
  | Some l => l + 1 <? 2147483647
  | None => false
  end.

Definition adm (st : state) (o : op) : bool :=
  match o with
  | ONewAccount s _ | OImportXpub s _ _ _ _ _ => last_ok (st_disk st) s
  | _ => true
  end.

(** disk growth by account / scope creation *)
Record dgrow (D D' : disk) : Prop := mkDgrow {
  g_accts : forall k row, aget sa_dec (d_accts D) k = Some row -> aget sa_dec (d_accts D') k = Some row;
  g_scopes : forall s v, aget scope_eq_dec (d_scopes D) s = Some v -> aget scope_eq_dec (d_scopes D') s = Some v;
  g_addrs : d_addrs D' = d_addrs D;
}.

Lemma obj_ok_grow D D' o : dgrow D D' -> obj_ok D o -> obj_ok D' o.
Proof.
  intros G. destruct o as [ma|sa]; simpl; [|tauto]. intros (K & H). split; [exact K|].
  destruct (ma_imported ma).
  - destruct H as (n & sch & coin & po & H1 & H2 & H3 & H4 & H5 & H6). exists n, sch, coin, po.
    splits; try assumption. apply (g_scopes _ _ G). exact H5.
  - destruct H as (row & sch & coin & H1 & H2 & H3). exists row, sch, coin.
    split; [apply (g_accts _ _ G); exact H1|split; [apply (g_scopes _ _ G); exact H2|exact H3]].
Qed.

Lemma Inv0_dgrow seed lk D M D' :
  Inv0 seed lk (mkState D M) -> dgrow D D' -> disk_ok seed D' ->
  Inv0 seed lk (mkState D' M).
Proof.
  intros I G HD. destruct I. simpl in *. constructor; unfinv; try assumption.
  - intros s sch H. destruct (i_scopes0 s sch H) as (coin & Hc). exists coin. apply (g_scopes _ _ G). exact Hc.
  - intros s a ai H. destruct (i_accts0 s a ai H) as (row & R1 & R). exists row. split; [apply (g_accts _ _ G); exact R1|exact R].
  - intros oid o H. eapply obj_ok_grow; eauto.
  - intros s k oid H. destruct (i_cache0 s k oid H) as (o & C1 & C2 & C3 & C4). exists o. splits; try assumption.
    destruct o as [ma|]; simpl in *; [|exact Logic.I]. intros Hi row Hrow.
    destruct (i_heap0 oid _ C1) as (_ & Hc). rewrite Hi in Hc. destruct Hc as (row0 & sch & coin & H1 & _).
    pose proof (g_accts _ _ G _ _ H1) as H1'. rewrite Hrow in H1'. inversion H1'. subst row0. apply (C4 Hi row H1).
  - intros s oid b0 i H. destruct (i_queue0 s oid b0 i H) as (ma & Q1 & Q2 & Q3 & Q4 & Q5 & Q6 & (row & Q7 & Q8)).
    exists ma. splits; try assumption. exists row. split; [apply (g_accts _ _ G); exact Q7|exact Q8].
  - intros s p k H. destruct (i_pk0 s p k H) as (row & R1 & R2). exists row. split; [apply (g_accts _ _ G); exact R1|exact R2].
Qed.

(* --------------------------------------------- what a reported address says *)

Definition rinfo_ok (D : disk) (lkd : bool) (r : rinfo) : Prop :=
  match r with
  | RKey i =>
    (forall k, r_priv i = POk k -> k = Priv (skey_of_pub (r_pub i))) /\
    (lkd = true -> r_priv i = PErr ELocked) /\
    if r_imported i then
      exists n po, r_pub i = Pub (imp_name po n) /\ r_known i = false /\ r_iacct i = imported_acct /\
                   (lkd = false -> r_priv i = if po then PErr EWatching else POk (Priv (imp_key n)))
    else
      exists row sch coin,
        aget sa_dec (d_accts D) (r_scope i, r_iacct i) = Some row /\
        aget scope_eq_dec (d_scopes D) (r_scope i) = Some (sch, coin) /\
        r_known i = true /\ dp_iacct (r_path i) = r_iacct i /\
        r_pub i = Pub (path_skey (ar_pub row) (dp_branch (r_path i)) (dp_index (r_path i))) /\
        r_fmt i = row_fmt sch row (dp_branch (r_path i)) /\
        r_internal i = (dp_branch (r_path i) =? internal_branch)
  | RScr s sc v => (lkd = false -> v = SOk sc) /\ (v = SOk sc \/ v = SErr ELocked)
  end.

Lemma rinfo_desc_ok D lkd o r : obj_ok D o -> rinfo_desc lkd o r -> rinfo_ok D lkd r.
Proof.
  destruct o as [ma|sa]; simpl; intros H ->; simpl.
  - destruct H as ((K1 & K2) & H). splits.
    + destruct lkd; [discriminate|]. destruct (ma_enc ma); [|discriminate]. intros k Hk. inversion Hk. reflexivity.
    + intros ->. reflexivity.
    + destruct (ma_imported ma) eqn:Ei.
      * destruct H as (n & sch & coin & po & H1 & H2 & H3 & _). exists n, po. rewrite H3. splits; try reflexivity; try assumption.
        intros ->. rewrite H2, H1. destruct po; reflexivity.
      * destruct H as (row & sch & coin & H1 & H2 & H3 & H4 & H5). exists row, sch, coin. splits; try assumption; reflexivity.
  - split; [intros ->; rewrite andb_false_r; reflexivity|].
    destruct (sa_secret sa && lkd); [right|left]; reflexivity.
Qed.

(** the reported Account field is the account key's child number *)
Definition rinfo_field_ok (D : disk) (r : rinfo) : Prop :=
  match r with
  | RKey i => r_imported i = false ->
              forall row, aget sa_dec (d_accts D) (r_scope i, r_iacct i) = Some row ->
                          dp_acct (r_path i) = child_num (ar_pub row)
  | RScr _ _ _ => True
  end.

Lemma rinfo_desc_field D lkd o r : acct_field_ok D o -> rinfo_desc lkd o r -> rinfo_field_ok D r.
Proof.
  destruct o as [ma|sa]; simpl; intros H ->; simpl; [|exact Logic.I].
  intros Hi. rewrite Hi. exact (H Hi).
Qed.

(** the address a report stands for *)
Definition rinfo_akey (r : rinfo) : akey :=
  match r with
  | RKey i => addr_key (AKey (r_fmt i) (r_pub i))
  | RScr _ sc _ => KScript sc
  end.

Lemma rinfo_desc_akey lkd o r : rinfo_desc lkd o r -> rinfo_akey r = obj_akey o.
Proof. destruct o; simpl; intros ->; reflexivity. Qed.

(** a reported chain address of an account with a private key carries its
    private key when the manager is unlocked *)
Definition rinfo_avail (D : disk) (lkd : bool) (r : rinfo) : Prop :=
  match r with
  | RKey i => r_imported i = false -> lkd = false ->
              forall row, aget sa_dec (d_accts D) (r_scope i, r_iacct i) = Some row -> ar_priv row <> None ->
                          r_priv i = POk (Priv (skey_of_pub (r_pub i)))
  | RScr _ _ _ => True
  end.

Lemma rinfo_desc_avail st oid o r :
  Avail st -> nth_error (m_heap (st_mem st)) oid = Some o -> rinfo_desc (m_locked (st_mem st)) o r ->
  rinfo_avail (st_disk st) (m_locked (st_mem st)) r.
Proof.
  intros A Ho Hd. destruct o as [ma|sa]; simpl in Hd; subst r; simpl; [|exact Logic.I].
  intros Hi Hl row Hr Hp. rewrite Hi in Hr. rewrite Hl.
  destruct (A oid ma row Ho Hi Hr Hp) as [X|(X & _)]; [|congruence].
  destruct (ma_enc ma); [reflexivity|contradiction].
Qed.

Section ops.
  Context (seed : N).

  (** reporting the objects an operation returns, after a growth step *)
  Lemma grow_then_report st st1 oids :
    Good seed st -> Inv0 seed (m_locked (st_mem st)) st1 -> ext st st1 -> new_fresh st st1 -> NextOk st1 ->
    Forall (fun oid => (oid < length (m_heap (st_mem st1)))%nat) oids ->
    let st2 := fst (report_all st1 oids) in
    Good seed st2 /\ (Avail st -> Avail st2) /\ st_disk st2 = st_disk st1 /\
    m_locked (st_mem st2) = m_locked (st_mem st) /\
    Forall2 (fun oid r => exists o, nth_error (m_heap (st_mem st1)) oid = Some o /\
                                    rinfo_desc (m_locked (st_mem st)) o r /\
                                    rinfo_ok (st_disk st1) (m_locked (st_mem st)) r /\
                                    (Avail st -> rinfo_avail (st_disk st1) (m_locked (st_mem st)) r))
            oids (snd (report_all st1 oids)).
  Proof.
    intros G I1 E1 N1 X1 Hv st2. unfold st2. clear st2.
    pose proof (Good_grow seed st st1 G I1 E1 N1 X1) as G1.
    destruct (report_all_post seed (m_locked (st_mem st)) oids st1 I1 Hv) as (I2 & P2 & H2 & R2).
    assert (Hl : m_locked (st_mem st1) = m_locked (st_mem st)) by (apply (ext_locked _ _ E1)).
    splits.
    - apply (Good_pres seed st1); [exact G1|rewrite Hl; exact I2|exact P2].
    - intros A. eapply Avail_pres; [exact P2|]. eapply Avail_grow; eauto.
    - apply (p_disk _ _ P2).
    - rewrite (p_locked _ _ P2). exact Hl.
    - rewrite Hl in R2. eapply Forall2_imp; [|exact R2]. intros oid r (o & O1 & O2).
      exists o. splits; try assumption; [eapply rinfo_desc_ok; [|exact O2]; apply (i_heap _ _ _ I1 _ _ O1)|].
      intros A. rewrite <- Hl in O2 |- *. eapply rinfo_desc_avail; eauto. eapply Avail_grow; eauto.
  Qed.
End ops.

Lemma Forall2_compose {A B C} (P : A -> B -> Prop) (Q : A -> C -> Prop) l1 l2 l3 :
  Forall2 P l1 l2 -> Forall2 Q l1 l3 -> Forall2 (fun c b => exists a, P a b /\ Q a c) l3 l2.
Proof.
  intros H. revert l3. induction H; intros l3 H3; inversion H3; subst; constructor; eauto.
Qed.

Lemma chain_obj_at_lt st oid s a b i : chain_obj_at st oid s a b i -> (oid < length (m_heap (st_mem st)))%nat.
Proof. intros (ma & _ & _ & _ & H & _). eapply nth_error_Some_lt; eauto. Qed.

(** the report of a chain object *)
Definition chain_report (r : rinfo) (s : scope) (a b idx : N) : Prop :=
  exists i, r = RKey i /\ r_imported i = false /\ r_scope i = s /\ r_iacct i = a /\
            r_path i = mkPath a (dp_acct (r_path i)) b idx (dp_fp (r_path i)).

Lemma chain_report_of st oid s a b idx o lkd r :
  chain_obj_at st oid s a b idx -> nth_error (m_heap (st_mem st)) oid = Some o -> rinfo_desc lkd o r ->
  chain_report r s a b idx.
Proof.
  intros (ma & row & sch & coin & H1 & H2 & H3 & H4 & H5 & H6 & _) Ho Hd.
  rewrite H1 in Ho. inversion Ho. subst o. simpl in Hd. subst r. eexists. split; [reflexivity|].
  simpl. rewrite H2. simpl. splits; try assumption; try reflexivity.
  destruct (ma_path ma); simpl in *. subst. reflexivity.
Qed.

Section ops2.
  Context (seed : N).

  Lemma step_next b st s a internal n :
    Good seed st ->
    let st' := fst (step b st (ONext s a internal n)) in
    Good seed st' /\ (Avail st -> Avail st') /\ m_locked (st_mem st') = m_locked (st_mem st) /\
    match snd (step b st (ONext s a internal n)) with
    | OutAddrs rs =>
      disk_next (st_disk st') s a internal = disk_next (st_disk st) s a internal + n /\
      (forall s' a' i', (s', a', i') <> (s, a, internal) ->
         disk_next (st_disk st') s' a' i' = disk_next (st_disk st) s' a' i') /\
      Forall2 (fun r idx => rinfo_ok (st_disk st') (m_locked (st_mem st)) r /\ rinfo_field_ok (st_disk st') r /\
                            chain_report r s a (if internal then internal_branch else external_branch) idx /\
                            (Avail st -> rinfo_avail (st_disk st') (m_locked (st_mem st)) r))
              rs (index_range (disk_next (st_disk st) s a internal) (N.to_nat n))
    | OutErr _ => st_disk st' = st_disk st
    | _ => False
    end.
  Proof.
    intros G. destruct G as (I & NX & HCs). assert (G : Good seed st) by exact (conj I (conj NX HCs)).
    cbn [step]. unfold with_scope.
    destruct (aget scope_eq_dec (m_scopes (st_mem st)) s) as [sch|] eqn:Es; [|simpl; splits; auto].
    pose proof (next_addresses_post seed _ st s sch a n internal I eq_refl (aget_In _ _ _ _ Es) NX) as H.
    destruct (next_addresses st s sch a n internal) as [st1 oids|st1 e].
    - destruct H as (I1 & E1 & N1 & X1 & D1 & D2 & F).
      assert (Hv : Forall (fun oid => (oid < length (m_heap (st_mem st1)))%nat) oids).
      { clear - F. induction F; constructor; [|assumption]. destruct H as (H & _). eapply chain_obj_at_lt; eauto. }
      destruct (grow_then_report seed st st1 oids G I1 E1 N1 X1 Hv) as (G2 & A2 & K2 & L2 & R2).
      destruct (report_all st1 oids) as [st2 rs] eqn:Er. simpl in *.
      splits; try assumption; try (rewrite K2; assumption).
      pose proof (Forall2_compose _ _ _ _ _ F R2) as FC. eapply Forall2_imp; [|exact FC].
      intros r idx (oid & (C1 & (o1 & O1 & O2)) & (o & Ho & Hd & Hok & Hav)). rewrite K2. splits; [exact Hok| | |exact Hav].
      + rewrite O1 in Ho. inversion Ho. subst o1. eapply rinfo_desc_field; eauto.
      + eapply chain_report_of; eauto.
    - destruct H as (I1 & E1 & N1 & X1 & D1). simpl.
      splits; [eapply Good_grow; eauto|intros A; eapply Avail_grow; eauto|apply (ext_locked _ _ E1)|exact D1].
  Qed.

  Lemma step_extend sl cg st s a internal last :
    Good seed st ->
    let st' := fst (step (mkFacts true sl cg) st (OExtend s a internal last)) in
    Good seed st' /\ (Avail st -> Avail st') /\ m_locked (st_mem st') = m_locked (st_mem st) /\
    match snd (step (mkFacts true sl cg) st (OExtend s a internal last)) with
    | OutOk =>
      disk_next (st_disk st') s a internal = N.max (disk_next (st_disk st) s a internal) (last + 1) /\
      (forall s' a' i', (s', a', i') <> (s, a, internal) ->
         disk_next (st_disk st') s' a' i' = disk_next (st_disk st) s' a' i')
    | OutErr _ => st_disk st' = st_disk st
    | _ => False
    end.
  Proof.
    intros G. destruct G as (I & NX & HCs). assert (G : Good seed st) by exact (conj I (conj NX HCs)).
    cbn [step]. unfold with_scope.
    destruct (aget scope_eq_dec (m_scopes (st_mem st)) s) as [sch|] eqn:Es; [|simpl; splits; auto].
    cbn [f_extend_priv].
    pose proof (extend_addresses_post seed _ true st s sch a last internal eq_refl I eq_refl (aget_In _ _ _ _ Es) NX) as H.
    destruct (extend_addresses true st s sch a last internal) as [st1 u|st1 e]; simpl.
    - destruct H as (I1 & E1 & N1 & NC1 & X1 & D1 & D2).
      assert (HC1 : HC st1) by (eapply HC_grow_cached; eauto).
      splits; try assumption.
      + unfold Good. rewrite (ext_locked _ _ E1). splits; assumption.
      + intros A. eapply Avail_grow; eauto.
      + apply (ext_locked _ _ E1).
    - destruct H as (I1 & E1 & N1 & X1 & D1).
      splits; [eapply Good_grow; eauto|intros A; eapply Avail_grow; eauto|apply (ext_locked _ _ E1)|exact D1].
  Qed.
End ops2.

(* ------------------------------------------ next indices through the lookups *)

Definition res_next {A} (r : res A) : Prop := match r with Ok st' _ | Err st' _ => NextOk st' end.

Lemma NextOk_same st st' :
  st_disk st' = st_disk st -> m_accts (st_mem st') = m_accts (st_mem st) -> NextOk st -> NextOk st'.
Proof. intros Hd Ha H s a ai Hc. rewrite Ha in Hc. rewrite Hd. exact (H s a ai Hc). Qed.

Section next_lookup.
  Context (seed : N) (lk : bool).

  Lemma key_to_managed_next st s sch key path ai : NextOk st -> res_next (key_to_managed st s sch key path ai).
  Proof.
    intros H. pose proof (key_to_managed_disk st s sch key path ai) as Hd.
    pose proof (key_to_managed_accts st s sch key path ai) as Ha.
    destruct (key_to_managed st s sch key path ai); simpl in *; eapply NextOk_same; eauto.
  Qed.

  Lemma chain_row_to_managed_next st s sch a b i :
    Inv0 seed lk st -> m_locked (st_mem st) = lk -> In (s, sch) (m_scopes (st_mem st)) -> NextOk st ->
    res_next (chain_row_to_managed st s sch a b i).
  Proof.
    intros I Hl Hs HN. unfold chain_row_to_managed.
    pose proof (NextOk_load seed lk st s sch a I Hl Hs HN) as H1.
    destruct (load_acct st s sch a) as [st1 ai|st1 e]; cbn [bind]; [|exact H1]. cbv zeta.
    destruct (derive_key _ _ _ _); try exact H1. apply key_to_managed_next. exact H1.
  Qed.

  Lemma load_and_cache_next st s sch k :
    Inv0 seed lk st -> m_locked (st_mem st) = lk -> In (s, sch) (m_scopes (st_mem st)) -> NextOk st ->
    res_next (load_and_cache st s sch k).
  Proof.
    intros I Hl Hs HN. unfold load_and_cache.
    destruct (aget sk_dec (d_addrs (st_disk st)) (s, k)) as [row|]; [|exact HN].
    assert (H1 : res_next (row_to_managed st s sch row)).
    { destruct row as [a b i|pk prv|sc]; unfold row_to_managed, alloc; simpl.
      - apply chain_row_to_managed_next; assumption.
      - eapply NextOk_same; [| |exact HN]; reflexivity.
      - eapply NextOk_same; [| |exact HN]; reflexivity. }
    destruct (row_to_managed st s sch row) as [st1 oid|st1 e]; cbn [bind]; [|exact H1].
    destruct (heap_get st1 oid); [|exact H1]. simpl. eapply NextOk_same; [| |exact H1]; unf; reflexivity.
  Qed.

  Lemma scoped_address_next st s sch k :
    Inv0 seed lk st -> m_locked (st_mem st) = lk -> In (s, sch) (m_scopes (st_mem st)) -> NextOk st ->
    res_next (scoped_address st s sch k).
  Proof.
    intros I Hl Hs HN. unfold scoped_address. destruct (aget sk_dec _ _); [exact HN|].
    apply load_and_cache_next; assumption.
  Qed.

  Lemma mgr_address_next scopes : forall st k,
    Inv0 seed lk st -> m_locked (st_mem st) = lk -> incl scopes (m_scopes (st_mem st)) -> NextOk st ->
    res_next (mgr_address scopes st k).
  Proof.
    induction scopes as [|[s sch] rest IH]; intros st k I Hl Hin HN; simpl; [exact HN|].
    assert (Hs : In (s, sch) (m_scopes (st_mem st))) by (apply Hin; left; reflexivity).
    pose proof (scoped_address_next st s sch k I Hl Hs HN) as H1.
    pose proof (scoped_address_post seed lk st s sch k I Hl Hs) as P1.
    destruct (scoped_address st s sch k) as [st1 oid|st1 e]; simpl in *; [exact H1|].
    destruct P1 as (I1 & E1 & _).
    apply IH; try assumption.
    - rewrite (ext_locked _ _ E1). exact Hl.
    - rewrite (ext_mscopes _ _ E1). intros x Hx. apply Hin. right. exact Hx.
  Qed.
End next_lookup.

Section ops3.
  Context (seed : N).

  Lemma found_at_lt st s k oid : found_at st s k oid -> (oid < length (m_heap (st_mem st)))%nat.
  Proof. intros (o & H & _). eapply nth_error_Some_lt; eauto. Qed.

  (** Manager.Address *)
  Lemma step_lookup b st ad :
    Good seed st ->
    let st' := fst (step b st (OLookup ad)) in
    Good seed st' /\ (Avail st -> Avail st') /\ m_locked (st_mem st') = m_locked (st_mem st) /\
    st_disk st' = st_disk st /\
    match snd (step b st (OLookup ad)) with
    | OutAddrs [r] =>
      rinfo_ok (st_disk st') (m_locked (st_mem st)) r /\ rinfo_field_ok (st_disk st') r /\
      rinfo_akey r = addr_key ad /\ (Avail st -> rinfo_avail (st_disk st') (m_locked (st_mem st)) r)
    | OutErr _ => True
    | _ => False
    end.
  Proof.
    intros G. pose proof G as (I & NX & HCs). cbn [step].
    pose proof (mgr_address_post seed _ (m_scopes (st_mem st)) st (addr_key ad) I eq_refl (incl_refl _)) as H.
    pose proof (mgr_address_next seed _ (m_scopes (st_mem st)) st (addr_key ad) I eq_refl (incl_refl _) NX) as HN.
    pose proof (mgr_address_disk (m_scopes (st_mem st)) st (addr_key ad)) as HD.
    destruct (mgr_address (m_scopes (st_mem st)) st (addr_key ad)) as [st1 [s oid]|st1 e]; simpl in H, HN, HD.
    - destruct H as (I1 & E1 & N1 & F1 & C1 & S1).
      assert (Hv : Forall (fun x => (x < length (m_heap (st_mem st1)))%nat) [oid]).
      { constructor; [eapply found_at_lt; eauto|constructor]. }
      destruct (grow_then_report seed st st1 [oid] G I1 E1 N1 HN Hv) as (G2 & A2 & K2 & L2 & R2).
      cbn [report_all] in G2, A2, K2, L2, R2.
      destruct (report st1 oid) as [st2 r] eqn:Er. simpl in *.
      inversion R2 as [|? ? ? ? (o & O1 & O2 & O3 & O4) Hnil]. subst.
      destruct F1 as (o' & P1 & P2 & P3 & P4). rewrite O1 in P1. inversion P1. subst o'.
      splits; try assumption; try congruence; try (rewrite K2; exact O3);
        try (rewrite K2; eapply rinfo_desc_field; eauto);
        try (rewrite (rinfo_desc_akey _ _ _ O2); exact P2); try (rewrite K2; exact O4).
    - destruct H as (I1 & E1 & N1). simpl.
      splits; [eapply Good_grow; eauto|intros A; eapply Avail_grow; eauto|apply (ext_locked _ _ E1)|exact HD|exact Logic.I].
  Qed.
End ops3.

Section ops4.
  Context (seed : N).

  Lemma uncache_post lk st s k :
    Inv0 seed lk st ->
    Inv0 seed lk (upd_mem (fun m => set_m_addrs (adel sk_dec (m_addrs m) (s, k)) m) st).
  Proof.
    intros I. destruct st as [D M]. unf.
    destruct I. constructor; unfinv; try assumption.
    intros s' k' oid H. rewrite aget_adel in H. destruct (sk_dec (s', k') (s, k)); [discriminate|eauto].
  Qed.

  (** [pres] up to the address cache: enough for the run invariants *)
  Lemma Good_uncache st s k :
    Good seed st -> Good seed (upd_mem (fun m => set_m_addrs (adel sk_dec (m_addrs m) (s, k)) m) st).
  Proof.
    intros (I & N & H). pose proof (uncache_post _ st s k I) as I'. destruct st as [D M]. unf.
    exact (conj I' (conj N H)).
  Qed.

  Lemma Avail_uncache st s k :
    Avail st -> Avail (upd_mem (fun m => set_m_addrs (adel sk_dec (m_addrs m) (s, k)) m) st).
  Proof. intros H. destruct st as [D M]. unf. exact H. Qed.

  Lemma step_markused b st ad :
    Good seed st ->
    let st' := fst (step b st (OMarkUsed ad)) in
    Good seed st' /\ (Avail st -> Avail st') /\ m_locked (st_mem st') = m_locked (st_mem st) /\
    st_disk st' = st_disk st.
  Proof.
    intros G. pose proof G as (I & NX & HCs). cbn [step].
    pose proof (mgr_address_post seed _ (m_scopes (st_mem st)) st (addr_key ad) I eq_refl (incl_refl _)) as H.
    pose proof (mgr_address_next seed _ (m_scopes (st_mem st)) st (addr_key ad) I eq_refl (incl_refl _) NX) as HN.
    pose proof (mgr_address_disk (m_scopes (st_mem st)) st (addr_key ad)) as HD.
    destruct (mgr_address (m_scopes (st_mem st)) st (addr_key ad)) as [st1 [s oid]|st1 e]; simpl in H, HN, HD.
    - destruct H as (I1 & E1 & N1 & _).
      pose proof (Good_grow seed st st1 G I1 E1 N1 HN) as G1. simpl.
      splits; [apply Good_uncache; exact G1|intros A; apply Avail_uncache; eapply Avail_grow; eauto| |].
      + unf. apply (ext_locked _ _ E1).
      + unf. exact HD.
    - destruct H as (I1 & E1 & N1). simpl.
      splits; [eapply Good_grow; eauto|intros A; eapply Avail_grow; eauto|apply (ext_locked _ _ E1)|exact HD].
  Qed.

  (** DeriveFromKeyPath *)
  Lemma step_derive b st s p :
    Good seed st ->
    let st' := fst (step b st (ODerive s p)) in
    Good seed st' /\ (Avail st -> Avail st') /\ m_locked (st_mem st') = m_locked (st_mem st) /\
    st_disk st' = st_disk st /\
    match snd (step b st (ODerive s p)) with
    | OutAddrs [r] =>
      rinfo_ok (st_disk st') (m_locked (st_mem st)) r /\
      (exists i, r = RKey i /\ r_imported i = false /\ r_scope i = s /\ r_path i = p) /\
      (Avail st -> rinfo_avail (st_disk st') (m_locked (st_mem st)) r)
    | OutErr _ => True
    | _ => False
    end.
  Proof.
    intros G. pose proof G as (I & NX & HCs). cbn [step]. unfold with_scope.
    destruct (aget scope_eq_dec (m_scopes (st_mem st)) s) as [sch|] eqn:Es; [|simpl; splits; auto].
    pose proof (aget_In _ _ _ _ Es) as Hs.
    assert (HR : res_post' seed (m_locked (st_mem st)) st
              (bind (load_acct st s sch (dp_iacct p)) (fun st0 ai =>
                 match derive_key ai (dp_branch p) (dp_index p) (negb (locked st) && is_some (ai_priv ai)) with
                 | DOk k => key_to_managed st0 s sch k p ai
                 | DErr => Err st0 EKeyChain
                 | DPanic => Err st0 EPanic
                 end))
              (fun st' oid => exists o, nth_error (m_heap (st_mem st')) oid = Some o /\
                  exists ma, o = MKey ma /\ ma_imported ma = false /\ ma_scope ma = s /\ ma_path ma = p)).
    { eapply res_post_bind'; [apply load_acct_post'; [exact I|reflexivity|exact Hs]|].
      intros st1 ai I1 E1 (C1 & S1 & D1 & A1 & _).
      pose proof (ai_static_wf _ _ _ _ _ _ (i_disk _ _ _ I1) S1) as Hwf.
      destruct (derive_key ai (dp_branch p) (dp_index p) _) as [k| |] eqn:Hd;
        [|simpl; splits; [exact I1|apply ext_refl|apply new_fresh_refl]..].
      destruct (derive_key_spec _ _ _ _ _ Hwf Hd) as (K1 & K2 & K3).
      assert (Hs1 : In (s, sch) (m_scopes (st_mem st1))) by (rewrite (ext_mscopes _ _ E1); exact Hs).
      eapply res_post_weaken'; [apply (key_to_managed_post' seed (m_locked (st_mem st)) st1 s sch k p ai I1 Hs1 C1 K2)|].
      - intros Hul Henc. rewrite K1. unfold locked.
        destruct S1 as (row & _ & _ & _ & R4 & _ & _ & R7). rewrite R7.
        rewrite (ext_locked _ _ E1) in Hul. rewrite Hul, <- R4. simpl.
        destruct (ai_enc ai); [reflexivity|contradiction].
      - intros st2 oid I2 E2 (P1 & (ma & N1 & N2 & N3 & N4 & N5 & N6 & _) & _).
        exists (MKey ma). split; [exact N1|]. exists ma. splits; auto. }
    assert (HN : res_next (bind (load_acct st s sch (dp_iacct p)) (fun st0 ai =>
                 match derive_key ai (dp_branch p) (dp_index p) (negb (locked st) && is_some (ai_priv ai)) with
                 | DOk k => key_to_managed st0 s sch k p ai
                 | DErr => Err st0 EKeyChain
                 | DPanic => Err st0 EPanic
                 end))).
    { pose proof (NextOk_load seed _ st s sch (dp_iacct p) I eq_refl Hs NX) as H1.
      destruct (load_acct st s sch (dp_iacct p)) as [st1 ai|st1 e]; cbn [bind]; [|exact H1].
      destruct (derive_key _ _ _ _); try exact H1. apply key_to_managed_next. exact H1. }
    assert (HD : res_disk st (bind (load_acct st s sch (dp_iacct p)) (fun st0 ai =>
                 match derive_key ai (dp_branch p) (dp_index p) (negb (locked st) && is_some (ai_priv ai)) with
                 | DOk k => key_to_managed st0 s sch k p ai
                 | DErr => Err st0 EKeyChain
                 | DPanic => Err st0 EPanic
                 end))).
    { apply res_disk_bind; [apply load_acct_disk|]. intros st1 ai H1.
      destruct (derive_key _ _ _ _); try reflexivity. apply key_to_managed_disk. }
    cbv zeta.
    destruct (bind (load_acct st s sch (dp_iacct p)) _) as [st1 oid|st1 e]; simpl in HR, HN, HD.
    - destruct HR as (I1 & E1 & N1 & (o & O1 & ma & -> & M1 & M2 & M3)).
      assert (Hv : Forall (fun x => (x < length (m_heap (st_mem st1)))%nat) [oid]).
      { constructor; [eapply nth_error_Some_lt; eauto|constructor]. }
      destruct (grow_then_report seed st st1 [oid] G I1 E1 N1 HN Hv) as (G2 & A2 & K2 & L2 & R2).
      cbn [report_all] in G2, A2, K2, L2, R2.
      destruct (report st1 oid) as [st2 r] eqn:Er. simpl in *.
      inversion R2 as [|? ? ? ? (o & O1' & O2 & O3 & O4) Hnil]. subst.
      rewrite O1 in O1'. inversion O1'. subst o.
      splits; try assumption; try congruence; try (rewrite K2; exact O3); try (rewrite K2; exact O4).
      simpl in O2. subst r. eexists. split; [reflexivity|]. simpl. rewrite M1. simpl. splits; auto.
    - destruct HR as (I1 & E1 & N1). simpl.
      splits; [eapply Good_grow; eauto|intros A; eapply Avail_grow; eauto|apply (ext_locked _ _ E1)|exact HD|exact Logic.I].
  Qed.

  (** AccountProperties *)
  Lemma step_props b st s a :
    Good seed st ->
    let st' := fst (step b st (OProps s a)) in
    Good seed st' /\ (Avail st -> Avail st') /\ m_locked (st_mem st') = m_locked (st_mem st) /\
    st_disk st' = st_disk st /\
    match snd (step b st (OProps s a)) with
    | OutProps e i => e = disk_next (st_disk st) s a false /\ i = disk_next (st_disk st) s a true
    | OutErr _ => True
    | _ => False
    end.
  Proof.
    intros G. pose proof G as (I & NX & HCs). cbn [step]. unfold with_scope.
    destruct (aget scope_eq_dec (m_scopes (st_mem st)) s) as [sch|] eqn:Es; [|simpl; splits; auto].
    pose proof (aget_In _ _ _ _ Es) as Hs.
    pose proof (load_acct_post' seed _ st s sch a I eq_refl Hs) as H.
    pose proof (NextOk_load seed _ st s sch a I eq_refl Hs NX) as HN.
    pose proof (load_acct_disk st s sch a) as HD.
    destruct (load_acct st s sch a) as [st1 ai|st1 e]; simpl in *.
    - destruct H as (I1 & E1 & N1 & C1 & _).
      splits; [eapply Good_grow; eauto|intros A; eapply Avail_grow; eauto|apply (ext_locked _ _ E1)|exact HD| |];
        destruct (HN s a ai C1) as (X1 & X2); congruence.
    - destruct H as (I1 & E1 & N1).
      splits; [eapply Good_grow; eauto|intros A; eapply Avail_grow; eauto|apply (ext_locked _ _ E1)|exact HD|exact Logic.I].
  Qed.
End ops4.

Lemma existsb_false_In {A} (f : A -> bool) l x : existsb f l = false -> In x l -> f x = false.
Proof.
  intros H Hx. destruct (f x) eqn:E; [|reflexivity].
  assert (existsb f l = true) by (apply existsb_exists; eauto). congruence.
Qed.

Lemma NoDup_In_aget {V} (l : list (scope * V)) s v :
  NoDup (map fst l) -> In (s, v) l -> aget scope_eq_dec l s = Some v.
Proof.
  induction l as [|[s0 v0] l IH]; simpl; [intros _ []|]. intros Hnd [H|H].
  - inversion H. subst. destruct (scope_eq_dec s s); [reflexivity|contradiction].
  - inversion Hnd as [|? ? Hn Hnd']. subst. destruct (scope_eq_dec s s0) as [->|].
    + exfalso. apply Hn. apply in_map_iff. exists (s0, v). split; [reflexivity|exact H].
    + apply IH; assumption.
Qed.

Section ops5.
  Context (seed : N).

  (** the invariants do not look at the lock flag, the passphrases, or the key cache keys' order *)
  Lemma Inv0_set_locked lk v st : Inv0 seed lk st -> Inv0 seed lk (upd_mem (set_m_locked v) st).
  Proof. intros I. destruct st as [D M]. unf. destruct I. constructor; unfinv; assumption. Qed.

  Lemma Inv0_set_pass lk v w st :
    Inv0 seed lk st -> Inv0 seed lk (upd_mem (set_m_pass v) (upd_disk (set_d_pass w) st)).
  Proof. intros I. destruct st as [D M]. unf. destruct I. constructor; unfinv; assumption. Qed.

  Lemma step_chpass b st old new :
    Good seed st ->
    let st' := fst (step b st (OChangePass old new)) in
    Good seed st' /\ (Avail st -> Avail st') /\ m_locked (st_mem st') = m_locked (st_mem st).
  Proof.
    intros G. pose proof G as (I & NX & HCs). cbn [step].
    destruct (negb (old =? m_pass (st_mem st))); simpl; [splits; auto|].
    pose proof (Inv0_set_pass _ new new st I) as I'. destruct st as [D M]. unf.
    splits; [exact (conj I' (conj NX HCs))|intros A; exact A|reflexivity].
  Qed.

  Lemma step_chpubpass b st old new :
    Good seed st ->
    let st' := fst (step b st (OChangePubPass old new)) in
    Good seed st' /\ (Avail st -> Avail st') /\ m_locked (st_mem st') = m_locked (st_mem st) /\
    (forall s a i, disk_next (st_disk st') s a i = disk_next (st_disk st) s a i).
  Proof.
    intros G. pose proof G as (I & NX & HCs). cbn [step].
    destruct (negb (old =? d_pubpass (st_disk st))); simpl; [splits; auto|].
    assert (I' : Inv0 seed (m_locked (st_mem st)) (upd_disk (set_d_pubpass new) st)).
    { destruct st as [D M]. unf. destruct I. constructor; unfinv; assumption. }
    destruct st as [D M]. unf.
    splits; [exact (conj I' (conj NX HCs))|intros A; exact A|reflexivity|reflexivity].
  Qed.

  Lemma step_priv b st h :
    Good seed st ->
    let st' := fst (step b st (OPriv h)) in
    Good seed st' /\ (Avail st -> Avail st') /\ m_locked (st_mem st') = m_locked (st_mem st) /\
    st_disk st' = st_disk st /\
    forall oid ma, nth_error (m_handles (st_mem st)) h = Some oid ->
      nth_error (m_heap (st_mem st)) oid = Some (MKey ma) ->
      snd (step b st (OPriv h)) =
      if m_locked (st_mem st) then OutErr ELocked
      else match ma_enc ma with
           | None => OutErr EWatching
           | Some _ => OutKey (Priv (skey_of_pub (ma_pub ma)))
           end.
  Proof.
    intros G. pose proof G as (I & NX & HCs). cbn [step].
    destruct (nth_error (m_handles (st_mem st)) h) as [oid|] eqn:Eh; simpl;
      [|splits; auto; intros; discriminate].
    destruct (priv_key_post seed _ st oid I) as (I1 & P1 & H1 & R1).
    destruct (priv_key st oid) as [st1 p] eqn:Ep. simpl in *.
    assert (G1 : Good seed st1) by (eapply Good_pres; eauto).
    destruct p as [k|e]; simpl;
      (splits; [exact G1|intros A; eapply Avail_pres; eauto|apply (p_locked _ _ P1)|apply (p_disk _ _ P1)|]);
      intros oid' ma Ho Hm; inversion Ho; subst oid'; rewrite Hm in R1;
      destruct (m_locked (st_mem st)); try discriminate; destruct (ma_enc ma); try discriminate; congruence.
  Qed.

  Lemma step_script b st h :
    Good seed st ->
    let st' := fst (step b st (OScript h)) in
    Good seed st' /\ (Avail st -> Avail st') /\ m_locked (st_mem st') = m_locked (st_mem st) /\
    st_disk st' = st_disk st /\
    forall oid sa, nth_error (m_handles (st_mem st)) h = Some oid ->
      nth_error (m_heap (st_mem st)) oid = Some (MScript sa) ->
      snd (step b st (OScript h)) = if sa_secret sa && m_locked (st_mem st) then OutErr ELocked else OutScript (sa_script sa).
  Proof.
    intros G. pose proof G as (I & NX & HCs). cbn [step].
    destruct (nth_error (m_handles (st_mem st)) h) as [oid|] eqn:Eh; simpl;
      [|splits; auto; intros; discriminate].
    destruct (script_of_post seed _ st oid I) as (I1 & P1 & H1 & R1).
    destruct (script_of st oid) as [st1 p] eqn:Ep. simpl in *.
    assert (G1 : Good seed st1) by (eapply Good_pres; eauto).
    destruct p as [k|e]; simpl;
      (splits; [exact G1|intros A; eapply Avail_pres; eauto|apply (p_locked _ _ P1)|apply (p_disk _ _ P1)|]);
      intros oid' sa Ho Hm; inversion Ho; subst oid'; rewrite Hm in R1;
      destruct (sa_secret sa && m_locked (st_mem st)); try discriminate; congruence.
  Qed.

  (** DeriveFromKeyPathCache *)
  Lemma step_derivecache b st s p :
    Good seed st ->
    let st' := fst (step b st (ODeriveCache s p)) in
    Good seed st' /\ (Avail st -> Avail st') /\ m_locked (st_mem st') = m_locked (st_mem st) /\
    st_disk st' = st_disk st /\
    forall k, snd (step b st (ODeriveCache s p)) = OutKey k ->
      exists row, aget sa_dec (d_accts (st_disk st)) (s, dp_iacct p) = Some row /\
                  k = Priv (path_skey (ar_pub row) (dp_branch p) (dp_index p)).
  Proof.
    intros G. pose proof G as (I & NX & HCs). cbn [step]. unfold with_scope.
    destruct (aget scope_eq_dec (m_scopes (st_mem st)) s) as [sch|] eqn:Es; [|simpl; splits; auto; intros; discriminate].
    destruct (locked st) eqn:Elk; [simpl; splits; auto; intros; discriminate|].
    destruct (aget sp_dec (m_pk (st_mem st)) (s, p)) as [k0|] eqn:Ek; simpl.
    { splits; auto. intros k Hk. inversion Hk. subst. apply (i_pk _ _ _ I _ _ _ Ek). }
    destruct (aget sa_dec (m_accts (st_mem st)) (s, dp_iacct p)) as [ai|] eqn:Ec; simpl;
      [|splits; auto; intros; discriminate].
    pose proof (i_accts _ _ _ I _ _ _ Ec) as Hai.
    pose proof (ai_static_wf _ _ _ _ _ _ (i_disk _ _ _ I) Hai) as Hwf.
    destruct (derive_key ai (dp_branch p) (dp_index p) _) as [[k|k]| |] eqn:Hd; simpl;
      try (splits; auto; intros; discriminate).
    destruct (derive_key_spec _ _ _ _ _ Hwf Hd) as (K1 & K2 & K3). simpl in K2.
    destruct Hai as (row & R1 & _ & R3 & _).
    assert (Hk : exists row, aget sa_dec (d_accts (st_disk st)) (s, dp_iacct p) = Some row /\
                             Priv k = Priv (path_skey (ar_pub row) (dp_branch p) (dp_index p))).
    { exists row. split; [exact R1|]. rewrite K2, R3. reflexivity. }
    assert (I' : Inv0 seed (m_locked (st_mem st))
                      (upd_mem (fun m => set_m_pk (aset sp_dec (m_pk m) (s, p) (Priv k)) m) st)).
    { destruct st as [D M]. unf. destruct I. constructor; unfinv; try assumption.
      intros s' p' k' H. rewrite aget_aset in H. destruct (sp_dec (s', p') (s, p)) as [E|E]; [|eauto].
      inversion E. inversion H. subst. exact Hk. }
    destruct st as [D M]. unf. splits; [exact (conj I' (conj NX HCs))|intros A; exact A|reflexivity|reflexivity|].
    intros k' Hk'. inversion Hk'. subst. exact Hk.
  Qed.
End ops5.

Section ops6.
  Context (seed : N).

  (** Manager.lock() in any lock state *)
  Lemma lock_all_good st :
    Good seed st -> Good seed (lock_all st) /\ (Avail st -> Avail (lock_all st)) /\
    m_locked (st_mem (lock_all st)) = true /\ st_disk (lock_all st) = st_disk st.
  Proof.
    intros (I & NX & HCs).
    destruct (lock_all_post seed _ st I) as (I1 & L1 & D1 & Q1 & A1 & (HL & HR) & H1).
    splits; try assumption.
    - unfold Good. rewrite L1. splits; [exact I1| |].
      + intros s a ai H. rewrite A1, aget_amap in H.
        destruct (aget sa_dec (m_accts (st_mem st)) (s, a)) as [ai0|] eqn:E; [|discriminate]. inversion H. subst ai.
        rewrite D1. simpl. exact (NX s a ai0 E).
      + intros oid ma Hn Hi.
        destruct (nth_error (m_heap (st_mem st)) oid) as [o|] eqn:Eo;
          [|apply nth_error_None in Eo; apply nth_error_Some_lt in Hn; lia].
        destruct (HR oid o Eo) as (o1 & R1 & R2 & _). rewrite Hn in R1. inversion R1. subst o1.
        destruct o as [mb|]; simpl in R2; [|contradiction]. destruct R2 as (S1 & S2 & _ & _ & S5 & _).
        rewrite A1, aget_amap, <- S1, <- S2.
        specialize (HCs oid mb Eo). rewrite S5 in HCs. specialize (HCs Hi).
        destruct (aget sa_dec (m_accts (st_mem st)) _); [reflexivity|discriminate].
    - intros A oid ma row Hn Hi Hr Hp.
      destruct (nth_error (m_heap (st_mem st)) oid) as [o|] eqn:Eo;
        [|apply nth_error_None in Eo; apply nth_error_Some_lt in Hn; lia].
      destruct (HR oid o Eo) as (o1 & R1 & R2 & R3 & _). rewrite Hn in R1. inversion R1. subst o1.
      destruct o as [mb|]; simpl in R2, R3; [|contradiction]. destruct R2 as (S1 & S2 & _ & _ & S5 & _).
      rewrite D1, <- S1, <- S2 in Hr. rewrite L1, Q1, <- S1, <- S2, <- R3.
      destruct (A oid mb row Eo) as [X|(X & Y)]; try congruence; [left; exact X|right; split; [reflexivity|exact Y]].
  Qed.

  Lemma step_lock b st :
    Good seed st ->
    let st' := fst (step b st OLock) in
    Good seed st' /\ (Avail st -> Avail st') /\ st_disk st' = st_disk st.
  Proof.
    intros G. cbn [step]. destruct (locked st); simpl; [splits; auto|].
    destruct (lock_all_good st G) as (G1 & A1 & _ & D1). splits; assumption.
  Qed.

  Lemma reload_queue_id lk st : Inv0 seed lk st -> HC st ->
    forall q, incl q (m_queue (st_mem st)) -> reload_queue_accts st q = Ok st tt.
  Proof.
    intros I HCs q. induction q as [|[[[s oid] b0] i] rest IH]; intros Hin; [reflexivity|].
    assert (Hi : In (s, oid, b0, i) (m_queue (st_mem st))) by (apply Hin; left; reflexivity).
    destruct (i_queue _ _ _ I _ _ _ _ Hi) as (ma & Q1 & Q2 & Q3 & Q4 & Q5 & Q6 & Q7).
    cbn [reload_queue_accts]. unfold heap_get. rewrite Q1.
    destruct (aget scope_eq_dec (m_scopes (st_mem st)) s) as [sch|]; [|discriminate].
    pose proof (HCs oid ma Q1 Q2) as Hc. rewrite Q3 in Hc.
    destruct (aget sa_dec (m_accts (st_mem st)) (s, dp_iacct (ma_path ma))) as [ai|] eqn:Ec; [|discriminate].
    unfold load_acct. rewrite Ec. cbn [bind]. apply IH. intros x Hx. apply Hin. right. exact Hx.
  Qed.

  Lemma step_unlock b st pass :
    Good seed st ->
    let st' := fst (step b st (OUnlock pass)) in
    Good seed st' /\ (Avail st -> Avail st') /\ st_disk st' = st_disk st.
  Proof.
    intros G. pose proof G as (I & NX & HCs). cbn [step]. unfold unlock.
    destruct (negb (m_locked (st_mem st))) eqn:El.
    { destruct (pass =? m_pass (st_mem st)); simpl; [splits; auto|].
      destruct (lock_all_good st G) as (G1 & A1 & _ & D1). splits; assumption. }
    apply negb_false_iff in El.
    destruct (negb (pass =? m_pass (st_mem st))); simpl.
    { destruct (lock_all_good st G) as (G1 & A1 & _ & D1). splits; assumption. }
    (* the successful path *)
    rewrite (reload_queue_id _ st I HCs _ (incl_refl _)).
    set (st1 := upd_mem (fun m => set_m_accts (amap fill_priv (m_accts m)) m) st).
    assert (Hst1 : st1 = mkState (st_disk st)
                     (mkMem (m_locked (st_mem st)) (m_pass (st_mem st)) (m_scopes (st_mem st))
                            (amap fill_priv (m_accts (st_mem st))) (m_addrs (st_mem st)) (m_queue (st_mem st))
                            (m_pk (st_mem st)) (m_heap (st_mem st)) (m_handles (st_mem st)))) by reflexivity.
    assert (I1 : Inv0 seed false st1).
    { rewrite Hst1. apply (Inv0_reheap seed _ false _ st _ _ _ I (heap_rel_refl _)); [auto|].
      intros s a ai H. simpl in H. rewrite aget_amap in H.
      destruct (aget sa_dec (m_accts (st_mem st)) (s, a)) as [ai0|] eqn:E; [|discriminate]. inversion H. subst ai.
      destruct (i_accts _ _ _ I _ _ _ E) as (row & R1 & R2 & R3 & R4 & R5 & R6 & R7).
      exists row. simpl. splits; assumption. }
    assert (HC1 : HC st1).
    { intros oid ma Hn Hi. rewrite Hst1 in *. simpl in *. rewrite aget_amap.
      specialize (HCs oid ma Hn Hi). destruct (aget sa_dec (m_accts (st_mem st)) _); [reflexivity|discriminate]. }
    destruct (derive_queue_post seed (m_queue (st_mem st)) st1 I1 HC1 eq_refl)
      as (st2 & D2 & I2 & Q2 & K2 & A2 & L2 & H2 & (FL & FR)).
    fold st1. rewrite D2. simpl.
    pose proof (Inv0_set_locked seed false false st2 I2) as I3.
    set (st3 := upd_mem (set_m_locked false) st2) in *.
    assert (Ha3 : m_accts (st_mem st3) = amap fill_priv (m_accts (st_mem st))) by (unfold st3; unf; rewrite A2; reflexivity).
    assert (Hd3 : st_disk st3 = st_disk st) by (unfold st3; unf; rewrite K2; reflexivity).
    assert (Hh3 : m_heap (st_mem st3) = m_heap (st_mem st2)) by (unfold st3; unf; reflexivity).
    assert (Hshape : forall oid mc, nth_error (m_heap (st_mem st3)) oid = Some (MKey mc) ->
              exists mb, nth_error (m_heap (st_mem st)) oid = Some (MKey mb) /\ same_shape (MKey mb) (MKey mc) /\
                         (ma_enc mb <> None -> ma_enc mc <> None) /\
                         (forall s br idx, In (s, oid, br, idx) (m_queue (st_mem st)) -> ma_enc mc <> None)).
    { intros oid mc Hn. rewrite Hh3 in Hn.
      destruct (nth_error (m_heap (st_mem st)) oid) as [o|] eqn:Eo.
      - destruct (FR oid o) as (o' & F1 & F2 & F3); [rewrite Hst1; exact Eo|].
        rewrite Hn in F1. inversion F1. subst o'. destruct o as [mb|]; [|contradiction].
        exists mb. tauto.
      - apply nth_error_None in Eo. apply nth_error_Some_lt in Hn. rewrite FL, Hst1 in Hn. simpl in Hn. lia. }
    splits; [|intros A|exact Hd3].
    - unfold Good. assert (Hl3 : m_locked (st_mem st3) = false) by (unfold st3; unf; reflexivity). rewrite Hl3.
      splits; [exact I3| |].
      + intros s a ai H. rewrite Ha3, aget_amap in H.
        destruct (aget sa_dec (m_accts (st_mem st)) (s, a)) as [ai0|] eqn:E; [|discriminate]. inversion H. subst ai.
        rewrite Hd3. simpl. exact (NX s a ai0 E).
      + intros oid mc Hn Hi. destruct (Hshape oid mc Hn) as (mb & B1 & (S1 & S2 & _ & _ & S5 & _) & _).
        rewrite Ha3, aget_amap, <- S1, <- S2. specialize (HCs oid mb B1). rewrite S5 in HCs. specialize (HCs Hi).
        destruct (aget sa_dec (m_accts (st_mem st)) _); [reflexivity|discriminate].
    - intros oid mc row Hn Hi Hr Hp. left.
      destruct (Hshape oid mc Hn) as (mb & B1 & (S1 & S2 & _ & _ & S5 & _) & E1 & E2).
      rewrite Hd3, <- S1, <- S2 in Hr.
      destruct (A oid mb row B1) as [X|(X & Y)]; try congruence; [apply E1; exact X|eapply E2; exact Y].
  Qed.

  Lemma step_open b st :
    Good seed st ->
    let st' := fst (step b st OOpen) in
    Good seed st' /\ Avail st' /\ st_disk st' = st_disk st.
  Proof.
    intros (I & NX & HCs). cbn [step]. simpl. splits; [|intros oid ma row Hn; destruct oid; discriminate|reflexivity].
    unfold Good. simpl. splits.
    - destruct (i_disk _ _ _ I) as (D1 & D2 & D3 & D4 & D5 & D6 & D7).
      constructor; unfinv; try (intros; discriminate).
      + exact (i_disk _ _ _ I).
      + intros s sch H. apply in_map_iff in H. destruct H as ([s' [sch' coin]] & E & Hin). simpl in E. inversion E. subst.
        exists coin. apply NoDup_In_aget; assumption.
      + intros oid o H. destruct oid; discriminate.
      + intros s oid b0 i [].
      + intros h [].
    - intros s a ai H. discriminate.
    - intros oid ma H. destruct oid; discriminate.
  Qed.
End ops6.

Lemma aget_None_notin {K V} (dec : forall a b : K, {a = b} + {a <> b}) (l : list (K * V)) k :
  aget dec l k = None -> ~ In k (map fst l).
Proof.
  induction l as [|[k0 v0] l IH]; simpl; [tauto|]. destruct (dec k k0) as [->|Hn]; [discriminate|].
  intros H [E|E]; [congruence|exact (IH H E)].
Qed.

Lemma NoDup_snoc {A} (l : list A) x : NoDup l -> ~ In x l -> NoDup (l ++ [x]).
Proof.
  induction 1 as [|y l Hy Hl IH]; simpl; intros Hx; [repeat constructor; tauto|].
  constructor; [|apply IH; tauto]. intros Hin. apply in_app_or in Hin. destruct Hin as [H|[H|[]]]; [tauto|subst; tauto].
Qed.

Lemma aget_app_old {K V} (dec : forall a b : K, {a = b} + {a <> b}) (l : list (K * V)) k v k' x :
  aget dec l k' = Some x -> aget dec (l ++ [(k, v)]) k' = Some x.
Proof. intros H. rewrite aget_app, H. reflexivity. Qed.

Lemma addr_row_ok_grow D D' s k r : dgrow D D' -> addr_row_ok D s k r -> addr_row_ok D' s k r.
Proof.
  intros G. destruct r; simpl.
  - intros (row & sch & coin & H1 & H2 & H3). exists row, sch, coin.
    split; [apply (g_accts _ _ G); exact H1|split; [apply (g_scopes _ _ G); exact H2|exact H3]].
  - intros (n & sch & coin & po & H1 & H2 & H3 & H4). exists n, sch, coin, po.
    split; [exact H1|split; [exact H2|split; [apply (g_scopes _ _ G); exact H3|exact H4]]].
  - tauto.
Qed.

(** DeriveNonStandard(i + HardenedKeyStart) when the width of the parent gives the specified rule *)
Lemma hard_child_on_spec k w i :
  rule_of_width w = spec_rule k (i + hardened_start) -> hard_child (XPriv k w) i = XPriv (child k i true) Short.
Proof.
  intros H. unfold hard_child.
  assert (Hh : is_hardened (i + hardened_start) = true) by (unfold is_hardened; apply N.leb_le; lia).
  rewrite (x_derive_priv k w (i + hardened_start)) by (intros _; exact H).
  unfold raw_child. rewrite Hh. replace (i + hardened_start - hardened_start) with i by lia. reflexivity.
Qed.

(** newAccount: account a >= 1 from the coin-type key held at full width (BIP32 layout) *)
Lemma ckd_later_account seed pu co a :
  a <> 0 -> ckd all_lz Std (coin_key seed pu co) (a + hardened_start) = acct_key seed pu co a.
Proof.
  intros Ha.
  assert (Hh : is_hardened (a + hardened_start) = true) by (unfold is_hardened; apply N.leb_le; lia).
  assert (Hs : Std = spec_rule (coin_key seed pu co) (a + hardened_start)).
  { unfold spec_rule, coin_key, child, master. simpl.
    destruct (a + hardened_start =? hardened_start) eqn:E; [apply N.eqb_eq in E; lia|reflexivity]. }
  rewrite (proj2 (ckd_all_lz_iff Std _ _) (or_intror Hs)).
  unfold raw_child, acct_key. rewrite Hh. replace (a + hardened_start - hardened_start) with a by lia. reflexivity.
Qed.

(** ... and what would happen to account 0 there: the coin-type key at full
    width gives BIP32 where the specification says legacy - another key *)
Lemma ckd_account0_from_parsed_coin_key seed pu co :
  ckd all_lz Std (coin_key seed pu co) hardened_start <> acct_key seed pu co 0.
Proof.
  intros H. apply (ckd_wrong_rule all_lz Std (coin_key seed pu co) hardened_start eq_refl eq_refl); [discriminate|].
  rewrite H. reflexivity.
Qed.

(** createManagerKeyScope's three steps - root (full width) -> purpose' by the
    BIP32 layout, purpose' (shortened) -> coin' and coin' (shortened) -> 0' by
    the legacy layout - are the specified ones: the keys stored are the
    specification's coin-type key and account-0 key *)
Lemma create_scope_keys seed pu co :
  let coin := hard_child (hard_child (XPriv (master seed) Full) pu) co in
  coin = XPriv (coin_key seed pu co) Short /\ hard_child coin 0 = XPriv (acct_key seed pu co 0) Short.
Proof.
  cbv zeta. rewrite (hard_child_on_spec (master seed) Full pu) by reflexivity.
  rewrite (hard_child_on_spec (child (master seed) pu true) Short co) by reflexivity.
  split; [reflexivity|]. unfold coin_key.
  rewrite (hard_child_on_spec (child (child (master seed) pu true) co true) Short 0) by reflexivity. reflexivity.
Qed.

Lemma Avail_dgrow seed lk D M D' :
  Inv0 seed lk (mkState D M) -> dgrow D D' -> Avail (mkState D M) -> Avail (mkState D' M).
Proof.
  intros I G A oid ma row Hn Hi Hr Hp. simpl in *.
  destruct (i_heap _ _ _ I _ _ Hn) as (_ & Hc). simpl in Hc. rewrite Hi in Hc.
  destruct Hc as (row0 & sch & coin & H1 & _).
  pose proof (g_accts _ _ G _ _ H1) as H1'. rewrite Hr in H1'. inversion H1'. subst row0.
  exact (A oid ma row Hn Hi H1 Hp).
Qed.

(** createManagerKeyScope on a scope that does not exist yet, with or without
    storing lastAccount *)
Lemma create_scope_grow seed sl D s sch :
  disk_ok seed D -> aget scope_eq_dec (d_scopes D) s = None ->
  disk_ok seed (create_scope sl D s sch) /\ dgrow D (create_scope sl D s sch) /\
  d_next (create_scope sl D s sch) = d_next D /\
  aget scope_eq_dec (d_scopes (create_scope sl D s sch)) s =
    Some (sch, child (child (d_master D) (fst s) true) (snd s) true).
Proof.
  intros (D1 & D2 & D3 & D4 & D5 & D6 & D7) Es.
  set (coin := child (child (d_master D) (fst s) true) (snd s) true).
  assert (Hcs : create_scope sl D s sch =
                set_d_scopes (d_scopes D ++ [(s, (sch, coin))])
                  (set_d_last (if sl then aset scope_eq_dec (d_last D) s 0 else d_last D)
                     (set_d_accts (aset sa_dec (d_accts D) (s, 0)
                        (mkRow ADefault (child coin 0 true) (Some (child coin 0 true)) None 0 0)) D))).
  { unfold create_scope, coin. rewrite D1. destruct (create_scope_keys seed (fst s) (snd s)) as (E1 & E2).
    cbv zeta in E1, E2. rewrite E2, E1. reflexivity. }
  set (D' := create_scope sl D s sch).
  assert (Hfresh : forall a, aget sa_dec (d_accts D) (s, a) = None).
  { intros a. destruct (aget sa_dec (d_accts D) (s, a)) as [r|] eqn:E; [|reflexivity].
    destruct (D3 s a r E) as (_ & X & _). rewrite Es in X. discriminate. }
  assert (Ga : forall k r, aget sa_dec (d_accts D) k = Some r -> aget sa_dec (d_accts D') k = Some r).
  { intros k r H. unfold D'. rewrite ?Hcs. unf. rewrite aget_aset. destruct (sa_dec k (s, 0)) as [->|]; [|exact H].
    rewrite Hfresh in H. discriminate. }
  assert (Gs : forall s' v, aget scope_eq_dec (d_scopes D) s' = Some v -> aget scope_eq_dec (d_scopes D') s' = Some v).
  { intros s' v H. unfold D'. rewrite ?Hcs. unf. apply aget_app_old. exact H. }
  assert (Gr : dgrow D D') by (constructor; [exact Ga|exact Gs|reflexivity]).
  assert (Hnew : aget scope_eq_dec (d_scopes D') s = Some (sch, coin)).
  { unfold D'. rewrite ?Hcs. unf. rewrite aget_app, Es. destruct (scope_eq_dec s s); [reflexivity|contradiction]. }
  splits; [|exact Gr|reflexivity|exact Hnew].
  unfold disk_ok. splits.
  - exact D1.
  - intros s' sch' coin' H. unfold D' in H. rewrite ?Hcs in H. unf. rewrite aget_app in H.
    destruct (aget scope_eq_dec (d_scopes D) s') as [x|] eqn:E; [inversion H; subst; eauto|].
    destruct (scope_eq_dec s' s) as [->|]; [|discriminate]. inversion H. subst. unfold coin, coin_key. rewrite D1. reflexivity.
  - intros s' a' r H. assert (H' := H). unfold D' in H. rewrite ?Hcs in H. unf. rewrite aget_aset in H.
    destruct (sa_dec (s', a') (s, 0)) as [E|E].
    + inversion E. inversion H. subst. splits.
      * unfold row_ok. simpl. splits; try reflexivity. unfold coin, acct_key, coin_key. rewrite D1. reflexivity.
      * rewrite Hnew. reflexivity.
      * unfold D'. rewrite ?Hcs. unf. destruct sl; [rewrite aget_aset_eq; lia|].
        destruct (aget scope_eq_dec (d_last D) s); [lia|reflexivity].
    + destruct (D3 s' a' r H) as (X1 & X2 & X3). splits; try assumption.
      * destruct (aget scope_eq_dec (d_scopes D) s') as [x|] eqn:E'; [|discriminate]. rewrite (Gs _ _ E'). reflexivity.
      * unfold D'. rewrite ?Hcs. unf. destruct sl; [|exact X3]. rewrite aget_aset.
        destruct (scope_eq_dec s' s) as [->|]; [|exact X3]. rewrite Es in X2. discriminate.
  - intros s' k r H. eapply addr_row_ok_grow; [exact Gr|]. apply D4. exact H.
  - exact D5.
  - unfold D'. rewrite ?Hcs. unf. rewrite map_app. simpl. apply NoDup_snoc; [exact D6|]. exact (aget_None_notin _ _ _ Es).
  - intros s' l H. unfold D' in H. rewrite ?Hcs in H. unf. destruct sl.
    + rewrite aget_aset in H. destruct (scope_eq_dec s' s) as [->|]; [rewrite Hnew; reflexivity|].
      specialize (D7 s' l H). destruct (aget scope_eq_dec (d_scopes D) s') as [x|] eqn:E'; [|discriminate].
      rewrite (Gs _ _ E'). reflexivity.
    + specialize (D7 s' l H). destruct (aget scope_eq_dec (d_scopes D) s') as [x|] eqn:E'; [|discriminate].
      rewrite (Gs _ _ E'). reflexivity.
Qed.

Section ops7.
  Context (seed : N).

  Lemma step_newscope b st s sch :
    Good seed st ->
    let st' := fst (step b st (ONewScope s sch)) in
    Good seed st' /\ (Avail st -> Avail st') /\ m_locked (st_mem st') = m_locked (st_mem st) /\
    (forall k row, aget sa_dec (d_accts (st_disk st)) k = Some row -> aget sa_dec (d_accts (st_disk st')) k = Some row) /\
    (forall k, disk_next (st_disk st') (fst (fst k)) (snd (fst k)) (snd k) =
               disk_next (st_disk st) (fst (fst k)) (snd (fst k)) (snd k)).
  Proof.
    intros G. pose proof G as (I & NX & HCs). cbn [step].
    destruct (locked st); simpl; [splits; auto|].
    destruct (aget scope_eq_dec (d_scopes (st_disk st)) s) as [v|] eqn:Es; simpl; [splits; auto|].
    destruct st as [D M]. simpl in *.
    set (sl := f_scope_last b).
    destruct (create_scope_grow seed sl D s sch (i_disk _ _ _ I) Es) as (HD' & Gr & Hn & Hnew).
    set (D' := create_scope sl D s sch) in *.
    pose proof (Inv0_dgrow seed _ D M D' I Gr HD') as I1.
    assert (I2 : Inv0 seed (m_locked M) (upd_mem (fun m => set_m_scopes (m_scopes m ++ [(s, sch)]) m) (mkState D' M))).
    { unf. destruct I1. constructor; unfinv; try assumption.
      - intros s' sch' H. apply in_app_or in H. destruct H as [H|[H|[]]]; [eauto|].
        inversion H. subst. eexists. exact Hnew.
      - intros s' oid b0 i H. destruct (i_queue0 s' oid b0 i H) as (ma & Q1 & Q2 & Q3 & Q4 & Q5 & Q6 & Q7).
        exists ma. splits; try assumption. destruct (aget scope_eq_dec (m_scopes M) s') as [x|] eqn:E'; [|discriminate].
        rewrite (aget_app_old _ _ _ _ _ _ E'). reflexivity. }
    unf. splits.
    - unfold Good. simpl. splits; [exact I2| |exact HCs].
      intros s' a' ai H. simpl in *. exact (NX s' a' ai H).
    - intros A. exact (Avail_dgrow seed _ D M D' I Gr A).
    - reflexivity.
    - exact (g_accts _ _ Gr).
    - intros k. reflexivity.
  Qed.
End ops7.

Section ops8.
  Context (seed : N).

  Lemma last_ok_spec d s : last_ok d s = true ->
    exists l, aget scope_eq_dec (d_last d) s = Some l /\ l + 1 < 2147483647 /\
              (last_account d s + 1) mod 4294967296 = l + 1.
  Proof.
    unfold last_ok, last_account. destruct (aget scope_eq_dec (d_last d) s) as [l|]; [|discriminate].
    intros H. apply N.ltb_lt in H. exists l. splits; [reflexivity|exact H|]. apply N.mod_small. lia.
  Qed.

  Lemma new_account_row_post st s name rowf :
    Good seed st -> last_ok (st_disk st) s = true ->
    (forall l r, aget scope_eq_dec (d_last (st_disk st)) s = Some l -> rowf (l + 1) = Some r -> row_ok seed s (l + 1) r) ->
    let st' := fst (new_account_row st s name rowf) in
    Good seed st' /\ (Avail st -> Avail st') /\ st_mem st' = st_mem st /\
    (forall k row, aget sa_dec (d_accts (st_disk st)) k = Some row -> aget sa_dec (d_accts (st_disk st')) k = Some row) /\
    (forall s' a' i' row, aget sa_dec (d_accts (st_disk st)) (s', a') = Some row ->
       disk_next (st_disk st') s' a' i' = disk_next (st_disk st) s' a' i') /\
    (forall a, snd (new_account_row st s name rowf) = OutAcct a ->
       aget sa_dec (d_accts (st_disk st)) (s, a) = None /\ rowf a = aget sa_dec (d_accts (st_disk st')) (s, a) /\
       disk_next (st_disk st') s a false = 0 /\ disk_next (st_disk st') s a true = 0).
  Proof.
    intros G Hlast Hrow. pose proof G as (I & NX & HCs).
    destruct (last_ok_spec _ _ Hlast) as (l & L1 & L2 & L3).
    unfold new_account_row. rewrite L3.
    destruct (name_taken (st_disk st) s name); simpl; [splits; auto; intros; discriminate|].
    destruct (rowf (l + 1)) as [r|] eqn:Er; simpl; [|splits; auto; intros; discriminate].
    destruct st as [D M]. simpl in *.
    pose proof (i_disk _ _ _ I) as (D1 & D2 & D3 & D4 & D5 & D6 & D7). simpl in D1, D2, D3, D4, D5, D6, D7.
    assert (Hfresh : aget sa_dec (d_accts D) (s, l + 1) = None).
    { destruct (aget sa_dec (d_accts D) (s, l + 1)) as [r0|] eqn:E; [|reflexivity].
      destruct (D3 s (l + 1) r0 E) as (_ & _ & X). rewrite L1 in X. lia. }
    set (D' := set_d_last (aset scope_eq_dec (d_last D) s (l + 1))
                 (set_d_next (aset sab_dec (aset sab_dec (d_next D) (s, l + 1, false) 0) (s, l + 1, true) 0)
                    (set_d_accts (aset sa_dec (d_accts D) (s, l + 1) r) D))).
    assert (Ga : forall k r0, aget sa_dec (d_accts D) k = Some r0 -> aget sa_dec (d_accts D') k = Some r0).
    { intros k r0 H. unfold D'. unf. rewrite aget_aset. destruct (sa_dec k (s, l + 1)) as [->|]; [congruence|exact H]. }
    assert (Gr : dgrow D D') by (constructor; [exact Ga|intros; assumption|reflexivity]).
    assert (Hnext : forall s' a' i' row, aget sa_dec (d_accts D) (s', a') = Some row ->
                      disk_next D' s' a' i' = disk_next D s' a' i').
    { intros s' a' i' row H. unfold disk_next, D'. unf.
      assert (Hne : (s', a') <> (s, l + 1)) by (intros E; inversion E; subst; congruence).
      rewrite !aget_aset_neq; [reflexivity|intros E; inversion E; subst; tauto|intros E; inversion E; subst; tauto]. }
    assert (HD' : disk_ok seed D').
    { unfold disk_ok. splits; try assumption.
      - intros s' a' r0 H. unfold D' in H |- *. unf. rewrite aget_aset in H.
        destruct (sa_dec (s', a') (s, l + 1)) as [E|E].
        + inversion E. inversion H. subst. splits.
          * apply (Hrow l r0 L1 Er).
          * apply (D7 s l L1).
          * rewrite aget_aset_eq. lia.
        + destruct (D3 s' a' r0 H) as (X1 & X2 & X3). splits; try assumption.
          rewrite aget_aset. destruct (scope_eq_dec s' s) as [->|]; [|exact X3]. rewrite L1 in X3. lia.
      - intros s' k r0 H. eapply addr_row_ok_grow; [exact Gr|]. apply D4. exact H.
      - intros k n H. unfold D' in H. unf. rewrite !aget_aset in H.
        destruct (sab_dec k (s, l + 1, true)); [inversion H; unfold hardened_start; lia|].
        destruct (sab_dec k (s, l + 1, false)); [inversion H; unfold hardened_start; lia|]. eauto.
      - intros s' l' H. unfold D' in H |- *. unf. rewrite aget_aset in H.
        destruct (scope_eq_dec s' s) as [->|]; [apply (D7 s l L1)|eauto]. }
    pose proof (Inv0_dgrow seed _ D M D' I Gr HD') as I1.
    splits.
    - unfold Good. simpl. splits; [exact I1| |exact HCs].
      intros s' a' ai H. destruct (NX s' a' ai H) as (X1 & X2).
      destruct (i_accts _ _ _ I _ _ _ H) as (row & R1 & _).
      split; [rewrite X1|rewrite X2]; symmetry; apply (Hnext _ _ _ row R1).
    - intros A. exact (Avail_dgrow seed _ D M D' I Gr A).
    - reflexivity.
    - exact Ga.
    - exact Hnext.
    - intros a Ha. inversion Ha. subst a. splits; [exact Hfresh| | |].
      + simpl. unf. rewrite aget_aset_eq. exact Er.
      + unfold disk_next. simpl. unf. rewrite aget_aset_neq, aget_aset_eq; [reflexivity|intros E; inversion E].
      + unfold disk_next. simpl. unf. rewrite aget_aset_eq. reflexivity.
  Qed.

  Lemma step_newaccount b st s name :
    Good seed st -> last_ok (st_disk st) s = true ->
    let st' := fst (step b st (ONewAccount s name)) in
    Good seed st' /\ (Avail st -> Avail st') /\ st_mem st' = st_mem st /\
    (forall k row, aget sa_dec (d_accts (st_disk st)) k = Some row -> aget sa_dec (d_accts (st_disk st')) k = Some row) /\
    (forall s' a' i' row, aget sa_dec (d_accts (st_disk st)) (s', a') = Some row ->
       disk_next (st_disk st') s' a' i' = disk_next (st_disk st) s' a' i').
  Proof.
    intros G Hl. pose proof G as (I & NX & HCs). cbn [step].
    destruct (locked st); simpl; [splits; auto|]. unfold with_scope.
    destruct (aget scope_eq_dec (m_scopes (st_mem st)) s) as [sch|]; [|simpl; splits; auto].
    destruct (aget scope_eq_dec (d_scopes (st_disk st)) s) as [[sch' coin]|] eqn:Es; [|simpl; splits; auto].
    match goal with |- context [new_account_row st s name ?f] =>
      destruct (new_account_row_post st s name f G Hl) as (G1 & A1 & M1 & P1 & X1 & _) end; [|splits; assumption].
    intros l r L Hr. pose proof (i_disk _ _ _ I) as (D1 & D2 & _).
    rewrite (D2 s sch' coin Es) in Hr.
    (* a later account (l + 1 >= 1) from the coin-type key read back at full width: BIP32, as specified *)
    cbn [x_derive rule_of_width] in Hr. rewrite (ckd_later_account seed (fst s) (snd s) (l + 1)) in Hr by lia.
    simpl in Hr. inversion Hr. subst r. clear Hr.
    unfold row_ok. simpl. splits; reflexivity.
  Qed.

  Lemma step_importxpub b st s name x cn fp osch :
    Good seed st -> last_ok (st_disk st) s = true ->
    let st' := fst (step b st (OImportXpub s name x cn fp osch)) in
    Good seed st' /\ (Avail st -> Avail st') /\ st_mem st' = st_mem st /\
    (forall k row, aget sa_dec (d_accts (st_disk st)) k = Some row -> aget sa_dec (d_accts (st_disk st')) k = Some row) /\
    (forall s' a' i' row, aget sa_dec (d_accts (st_disk st)) (s', a') = Some row ->
       disk_next (st_disk st') s' a' i' = disk_next (st_disk st) s' a' i').
  Proof.
    intros G Hl. cbn [step]. unfold with_scope.
    destruct (aget scope_eq_dec (m_scopes (st_mem st)) s) as [sch|]; [|simpl; splits; auto].
    match goal with |- context [new_account_row st s name ?f] =>
      destruct (new_account_row_post st s name f G Hl) as (G1 & A1 & M1 & P1 & X1 & _) end; [|splits; assumption].
    intros l r L Hr. inversion Hr. subst r. unfold row_ok. simpl. split; [eauto|reflexivity].
  Qed.
End ops8.

Section ops9.
  Context (seed : N).

  (** storing an imported address row *)
  Lemma put_addr_post lk st s k row :
    Inv0 seed lk st -> addr_row_ok (st_disk st) s k row ->
    let st' := upd_disk (fun d => set_d_addrs (aset sk_dec (d_addrs d) (s, k) row) d) st in
    Inv0 seed lk st' /\ ext st st' /\ st_mem st' = st_mem st /\ d_next (st_disk st') = d_next (st_disk st).
  Proof.
    intros I Hrow. destruct st as [D M]. unf.
    splits; [|constructor; simpl; try reflexivity; eauto using incl_refl|reflexivity|reflexivity].
    destruct I as [ID IS IA IH IC IQ IP IHd]. simpl in *. constructor; simpl; try assumption.
    destruct ID as (D1 & D2 & D3 & D4 & D5 & D6 & D7). unfold disk_ok. simpl. splits; try assumption.
    intros s' k' r H. rewrite aget_aset in H. destruct (sk_dec (s', k') (s, k)) as [E|E].
    - inversion E. inversion H. subst. eapply addr_row_ok_same; [| |exact Hrow]; reflexivity.
    - eapply addr_row_ok_same; [| |apply D4; exact H]; reflexivity.
  Qed.

  Lemma step_import_common st s o row :
    Good seed st ->
    addr_row_ok (st_disk st) s (obj_akey o) row -> obj_ok (st_disk st) o -> obj_scope o = s ->
    (forall ma, o = MKey ma -> ma_imported ma = true) ->
    let st1 := upd_disk (fun d => set_d_addrs (aset sk_dec (d_addrs d) (s, obj_akey o) row) d) st in
    let st2 := fst (alloc st1 o) in
    let oid := snd (alloc st1 o) in
    let st4 := fst (report (cache_addr st2 s (obj_akey o) oid) oid) in
    let r := snd (report (cache_addr st2 s (obj_akey o) oid) oid) in
    Good seed st4 /\ (Avail st -> Avail st4) /\ m_locked (st_mem st4) = m_locked (st_mem st) /\
    d_accts (st_disk st4) = d_accts (st_disk st) /\ d_next (st_disk st4) = d_next (st_disk st) /\
    d_scopes (st_disk st4) = d_scopes (st_disk st) /\
    rinfo_desc (m_locked (st_mem st)) o r /\ rinfo_ok (st_disk st4) (m_locked (st_mem st)) r.
  Proof.
    intros G Hrow Hobj Hsc Himp. pose proof G as (I & NX & HCs). set (lkd := m_locked (st_mem st)) in *.
    intros st1 st2 oid st4 r.
    destruct (put_addr_post lkd st s (obj_akey o) row I Hrow) as (I1 & E1 & M1 & X1). fold st1 in I1, E1, M1, X1.
    assert (Hobj1 : obj_ok (st_disk st1) o).
    { eapply obj_ok_same; [| |exact Hobj]; [apply (ext_accts _ _ E1)|apply (ext_dscopes _ _ E1)]. }
    destruct (alloc_post seed lkd st1 o I1 Hobj1) as (I2 & E2 & A1 & A2 & A3 & A4 & A5 & A6).
    fold st2 in I2, E2, A2, A3, A4, A5, A6. fold oid in A1.
    assert (Hnth : nth_error (m_heap (st_mem st2)) oid = Some o).
    { rewrite A2, A1, nth_error_snoc, Nat.ltb_irrefl, Nat.eqb_refl. reflexivity. }
    assert (Hfield : acct_field_ok (st_disk st2) o).
    { destruct o as [ma|]; simpl; [|exact Logic.I]. intros Hi. rewrite (Himp ma eq_refl) in Hi. discriminate. }
    destruct (cache_addr_post seed lkd st2 s (obj_akey o) oid o I2 Hnth eq_refl Hsc Hfield) as (I3 & E3).
    set (st3 := cache_addr st2 s (obj_akey o) oid) in *.
    assert (E03 : ext st st3) by (eapply ext_trans; [exact E1|]; eapply ext_trans; eauto).
    assert (Hnth3 : nth_error (m_heap (st_mem st3)) oid = Some o) by (unfold st3; unf; exact Hnth).
    assert (N03 : new_fresh st st3).
    { intros x Hx ma Hn Hi.
      assert (Hlen : length (m_heap (st_mem st3)) = S (length (m_heap (st_mem st)))).
      { assert (H32 : m_heap (st_mem st3) = m_heap (st_mem st2)) by reflexivity.
        rewrite H32, A2, app_length, M1. simpl. lia. }
      assert (Hoid : oid = length (m_heap (st_mem st))) by (rewrite <- M1; exact A1).
      assert (x = oid) as -> by (clear - Hoid Hlen Hx; lia).
      rewrite Hnth3 in Hn. inversion Hn. subst o. rewrite (Himp ma eq_refl) in Hi. discriminate. }
    assert (X3 : NextOk st3).
    { assert (Ha3 : m_accts (st_mem st3) = m_accts (st_mem st)).
      { change (m_accts (st_mem st3)) with (m_accts (st_mem st2)). rewrite A5, M1. reflexivity. }
      assert (Hn3 : d_next (st_disk st3) = d_next (st_disk st)).
      { change (st_disk st3) with (st_disk st2). rewrite A3. exact X1. }
      intros s' a' ai H. rewrite Ha3 in H. destruct (NX s' a' ai H) as (Y1 & Y2).
      unfold disk_next in *. rewrite Hn3. split; assumption. }
    assert (Hv : Forall (fun x => (x < length (m_heap (st_mem st3)))%nat) [oid]).
    { constructor; [eapply nth_error_Some_lt; eauto|constructor]. }
    destruct (grow_then_report seed st st3 [oid] G I3 E03 N03 X3 Hv) as (G4 & A4' & K4 & L4 & R4).
    cbn [report_all] in G4, A4', K4, L4, R4.
    assert (Hr : report st3 oid = (st4, r)) by (unfold st4, r; destruct (report st3 oid); reflexivity).
    rewrite Hr in G4, A4', K4, L4, R4. cbn [fst snd] in G4, A4', K4, L4, R4.
    inversion R4 as [|? ? ? ? (o' & O1 & O2 & O3 & _) Hnil]. subst. rewrite Hnth3 in O1. inversion O1. subst o'.
    assert (K4a : d_accts (st_disk st4) = d_accts (st_disk st)) by (rewrite K4; apply (ext_accts _ _ E03)).
    assert (K4s : d_scopes (st_disk st4) = d_scopes (st_disk st)) by (rewrite K4; apply (ext_dscopes _ _ E03)).
    assert (K4n : d_next (st_disk st4) = d_next (st_disk st)).
    { rewrite K4. change (st_disk st3) with (st_disk st2). rewrite A3. exact X1. }
    splits; try assumption. rewrite K4. exact O3.
  Qed.
End ops9.

Section ops10.
  Context (seed : N) (sl cg : bool).

  Lemma step_importkey b st s k :
    Good seed st ->
    let st' := fst (step b st (OImportKey s k)) in
    Good seed st' /\ (Avail st -> Avail st') /\ m_locked (st_mem st') = m_locked (st_mem st) /\
    d_accts (st_disk st') = d_accts (st_disk st) /\ d_next (st_disk st') = d_next (st_disk st) /\
    d_scopes (st_disk st') = d_scopes (st_disk st) /\
    match snd (step b st (OImportKey s k)) with
    | OutAddrs [r] => rinfo_ok (st_disk st') (m_locked (st_mem st)) r /\
                      exists i, r = RKey i /\ r_imported i = true /\ r_pub i = Pub (imp_key k) /\
                                r_priv i = POk (Priv (imp_key k))
    | OutErr _ => True
    | _ => False
    end.
  Proof.
    intros G. pose proof G as (I & NX & HCs). cbn [step]. unfold with_scope.
    destruct (aget scope_eq_dec (m_scopes (st_mem st)) s) as [sch|] eqn:Es; [|simpl; splits; auto].
    destruct (locked st) eqn:El; [simpl; splits; auto|]. cbv zeta.
    set (ma := mkMA s imported_path (ext_fmt sch) (Pub (imp_key k)) true false
                    (Some (Priv (imp_key k))) (Some (Priv (imp_key k)))).
    destruct (exists_address st s (obj_akey (MKey ma))); [simpl; splits; auto|].
    destruct (i_scopes _ _ _ I s sch (aget_In _ _ _ _ Es)) as (coin & Hc).
    assert (Hrow : addr_row_ok (st_disk st) s (obj_akey (MKey ma)) (RImported (imp_key k) (Some (imp_key k)))).
    { simpl. exists k, sch, coin, false. splits; try reflexivity. exact Hc. }
    assert (Hobj : obj_ok (st_disk st) (MKey ma)).
    { simpl. split.
      - unfold keys_ok. simpl. split; intros x Hx; inversion Hx; reflexivity.
      - exists k, sch, coin, false. simpl. splits; try reflexivity. exact Hc. }
    destruct (step_import_common seed st s (MKey ma) _ G Hrow Hobj eq_refl)
      as (G4 & A4 & L4 & K1 & K2 & K3 & R1 & R2).
    { intros mb Hb. inversion Hb. reflexivity. }
    destruct (alloc _ (MKey ma)) as [st2 oid] eqn:Ea. simpl in G4, A4, L4, K1, K2, K3, R1, R2.
    destruct (report (cache_addr st2 s (obj_akey (MKey ma)) oid) oid) as [st4 r] eqn:Er. simpl in *.
    try unfold locked in El. splits; try assumption; try (rewrite El; assumption).
    try subst r. eexists. split; [reflexivity|]. simpl. rewrite El. splits; reflexivity.
  Qed.

  (** ImportPublicKey: the public key comes back unchanged, in the scope's
      external format; there is no private key to return, locked or not *)
  Lemma step_importpub b st s k :
    Good seed st ->
    let st' := fst (step b st (OImportPub s k)) in
    Good seed st' /\ (Avail st -> Avail st') /\ m_locked (st_mem st') = m_locked (st_mem st) /\
    d_accts (st_disk st') = d_accts (st_disk st) /\ d_next (st_disk st') = d_next (st_disk st) /\
    d_scopes (st_disk st') = d_scopes (st_disk st) /\
    match snd (step b st (OImportPub s k)) with
    | OutAddrs [r] => rinfo_ok (st_disk st') (m_locked (st_mem st)) r /\
                      exists i sch, r = RKey i /\ r_imported i = true /\ r_pub i = Pub (imp_pub_key k) /\
                                aget scope_eq_dec (m_scopes (st_mem st)) s = Some sch /\ r_fmt i = ext_fmt sch /\
                                r_priv i = PErr (if m_locked (st_mem st) then ELocked else EWatching)
    | OutErr _ => True
    | _ => False
    end.
  Proof.
    intros G. pose proof G as (I & NX & HCs). cbn [step]. unfold with_scope.
    destruct (aget scope_eq_dec (m_scopes (st_mem st)) s) as [sch|] eqn:Es; [|simpl; splits; auto].
    cbv zeta.
    set (ma := mkMA s imported_path (ext_fmt sch) (Pub (imp_pub_key k)) true false None None).
    destruct (exists_address st s (obj_akey (MKey ma))); [simpl; splits; auto|].
    destruct (i_scopes _ _ _ I s sch (aget_In _ _ _ _ Es)) as (coin & Hc).
    assert (Hrow : addr_row_ok (st_disk st) s (obj_akey (MKey ma)) (RImported (imp_pub_key k) None)).
    { simpl. exists k, sch, coin, true. splits; try reflexivity. exact Hc. }
    assert (Hobj : obj_ok (st_disk st) (MKey ma)).
    { simpl. split.
      - unfold keys_ok. simpl. split; intros x Hx; discriminate.
      - exists k, sch, coin, true. simpl. splits; try reflexivity. exact Hc. }
    destruct (step_import_common seed st s (MKey ma) _ G Hrow Hobj eq_refl)
      as (G4 & A4 & L4 & K1 & K2 & K3 & R1 & R2).
    { intros mb Hb. inversion Hb. reflexivity. }
    destruct (alloc _ (MKey ma)) as [st2 oid] eqn:Ea. simpl in G4, A4, L4, K1, K2, K3, R1, R2.
    destruct (report (cache_addr st2 s (obj_akey (MKey ma)) oid) oid) as [st4 r] eqn:Er.
    cbn [fst snd] in *. splits; try assumption.
    subst r. eexists. exists sch. split; [reflexivity|]. simpl. splits; try reflexivity.
    destruct (m_locked (st_mem st)); reflexivity.
  Qed.

  Lemma step_importscript b st s sc secret :
    Good seed st ->
    let st' := fst (step b st (OImportScript s sc secret)) in
    Good seed st' /\ (Avail st -> Avail st') /\ m_locked (st_mem st') = m_locked (st_mem st) /\
    d_accts (st_disk st') = d_accts (st_disk st) /\ d_next (st_disk st') = d_next (st_disk st) /\
    d_scopes (st_disk st') = d_scopes (st_disk st) /\
    match snd (step b st (OImportScript s sc secret)) with
    | OutAddrs [r] => rinfo_ok (st_disk st') (m_locked (st_mem st)) r /\ r = RScr s sc (SOk sc)
    | OutErr _ => True
    | _ => False
    end.
  Proof.
    intros G. pose proof G as (I & NX & HCs). cbn [step]. unfold with_scope.
    destruct (aget scope_eq_dec (m_scopes (st_mem st)) s) as [sch|] eqn:Es; [|simpl; splits; auto].
    destruct (secret && locked st) eqn:El; [simpl; splits; auto|].
    destruct (exists_address st s (KScript sc)); [simpl; splits; auto|].
    set (o := MScript (mkSA s sc (Some sc) (Some sc) secret)).
    assert (Hobj : obj_ok (st_disk st) o).
    { simpl. split; [reflexivity|]. intros c Hc. inversion Hc. reflexivity. }
    destruct (step_import_common seed st s o (RScript sc secret) G eq_refl Hobj eq_refl)
      as (G4 & A4 & L4 & K1 & K2 & K3 & R1 & R2).
    { intros mb Hb. discriminate. }
    change (obj_akey o) with (KScript sc) in *.
    destruct (alloc _ o) as [st2 oid] eqn:Ea. simpl in G4, A4, L4, K1, K2, K3, R1, R2.
    destruct (report (cache_addr st2 s (KScript sc) oid) oid) as [st4 r] eqn:Er. simpl in *.
    try unfold locked in El. splits; try assumption. subst r. simpl. rewrite El. reflexivity.
  Qed.

  (** every admissible operation preserves the run invariants *)
  Theorem step_good st o : Good seed st -> adm st o = true -> Good seed (fst (step (mkFacts true sl cg) st o)).
  Proof.
    intros G Ha. destruct o.
    - apply (step_open seed (mkFacts true sl cg) st G).
    - apply (step_unlock seed (mkFacts true sl cg) st pass G).
    - apply (step_lock seed (mkFacts true sl cg) st G).
    - apply (step_chpass seed (mkFacts true sl cg) st old new G).
    - apply (step_newscope seed (mkFacts true sl cg) st s sch G).
    - apply (step_newaccount seed (mkFacts true sl cg) st s name G Ha).
    - apply (step_importxpub seed (mkFacts true sl cg) st s name x cn fp sch G Ha).
    - apply (step_next seed (mkFacts true sl cg) st s a internal n G).
    - apply (step_extend seed sl cg st s a internal last G).
    - apply (step_lookup seed (mkFacts true sl cg) st ad G).
    - apply (step_markused seed (mkFacts true sl cg) st ad G).
    - apply (step_derive seed (mkFacts true sl cg) st s p G).
    - apply (step_derivecache seed (mkFacts true sl cg) st s p G).
    - apply (step_importkey (mkFacts true sl cg) st s k G).
    - apply (step_importscript (mkFacts true sl cg) st s sc secret G).
    - apply (step_props seed (mkFacts true sl cg) st s a G).
    - apply (step_priv seed (mkFacts true sl cg) st h G).
    - apply (step_script seed (mkFacts true sl cg) st h G).
    - apply (step_importpub (mkFacts true sl cg) st s k G).
    - apply (step_chpubpass seed (mkFacts true sl cg) st old new G).
  Qed.

  (** ... and, when extendAddresses uses nextAddresses' watch-only test,
      the availability of private keys *)
  Theorem step_avail st o : Good seed st -> Avail st -> adm st o = true -> Avail (fst (step (mkFacts true sl cg) st o)).
  Proof.
    intros G A Ha. destruct o.
    - apply (step_open seed (mkFacts true sl cg) st G).
    - apply (step_unlock seed (mkFacts true sl cg) st pass G); exact A.
    - apply (step_lock seed (mkFacts true sl cg) st G); exact A.
    - apply (step_chpass seed (mkFacts true sl cg) st old new G); exact A.
    - apply (step_newscope seed (mkFacts true sl cg) st s sch G); exact A.
    - apply (step_newaccount seed (mkFacts true sl cg) st s name G Ha); exact A.
    - apply (step_importxpub seed (mkFacts true sl cg) st s name x cn fp sch G Ha); exact A.
    - apply (step_next seed (mkFacts true sl cg) st s a internal n G); exact A.
    - apply (step_extend seed sl cg st s a internal last G); exact A.
    - apply (step_lookup seed (mkFacts true sl cg) st ad G); exact A.
    - apply (step_markused seed (mkFacts true sl cg) st ad G); exact A.
    - apply (step_derive seed (mkFacts true sl cg) st s p G); exact A.
    - apply (step_derivecache seed (mkFacts true sl cg) st s p G); exact A.
    - apply (step_importkey (mkFacts true sl cg) st s k G); exact A.
    - apply (step_importscript (mkFacts true sl cg) st s sc secret G); exact A.
    - apply (step_props seed (mkFacts true sl cg) st s a G); exact A.
    - apply (step_priv seed (mkFacts true sl cg) st h G); exact A.
    - apply (step_script seed (mkFacts true sl cg) st h G); exact A.
    - apply (step_importpub (mkFacts true sl cg) st s k G); exact A.
    - apply (step_chpubpass seed (mkFacts true sl cg) st old new G); exact A.
  Qed.
End ops10.

(* ------------------------------------------------------ 8. histories *)

Section init.
  Context (seed : N).

  Lemma fresh_mem_good D : disk_ok seed D -> Good seed (mkState D (fresh_mem D)) /\ Avail (mkState D (fresh_mem D)).
  Proof.
    intros HD. split; [|intros oid ma row Hn; destruct oid; discriminate].
    unfold Good. simpl. splits.
    - destruct HD as (D1 & D2 & D3 & D4 & D5 & D6 & D7).
      constructor; unfinv; try (intros; discriminate).
      + unfold disk_ok. splits; assumption.
      + intros s sch H. apply in_map_iff in H. destruct H as ([s' [sch' coin]] & E & Hin). simpl in E. inversion E. subst.
        exists coin. apply NoDup_In_aget; assumption.
      + intros oid o H. destruct oid; discriminate.
      + intros s oid b0 i [].
      + intros h [].
    - intros s a ai H. discriminate.
    - intros oid ma H. destruct oid; discriminate.
  Qed.

  Lemma init_good pass : Good seed (init seed pass) /\ Avail (init seed pass).
  Proof.
    unfold init. apply fresh_mem_good.
    assert (H0 : disk_ok seed (mkDisk (master seed) pass 0 [] [] [] [] [])).
    { unfold disk_ok. simpl. splits; try (intros; discriminate); try reflexivity. constructor. }
    unfold default_scopes. cbn [fold_left fst snd].
    destruct (create_scope_grow seed true _ (49, 0) (mkSchema NP2WKH P2WKH) H0 eq_refl) as (H1 & _).
    destruct (create_scope_grow seed true _ (84, 0) (mkSchema P2WKH P2WKH) H1 eq_refl) as (H2 & _).
    destruct (create_scope_grow seed true _ (86, 0) (mkSchema P2TR P2TR) H2 eq_refl) as (H3 & _).
    destruct (create_scope_grow seed true _ (44, 0) (mkSchema P2PKH P2PKH) H3 eq_refl) as (H4 & _).
    exact H4.
  Qed.
End init.

(** states reachable from Create(seed) by admissible operations *)
Inductive reach (sl cg : bool) (seed pass : N) : state -> Prop :=
| reach_init : reach sl cg seed pass (init seed pass)
| reach_step st o : reach sl cg seed pass st -> adm st o = true -> reach sl cg seed pass (fst (step (mkFacts true sl cg) st o)).

Lemma reach_good sl cg seed pass st : reach sl cg seed pass st -> Good seed st.
Proof. induction 1; [apply init_good|apply step_good; assumption]. Qed.

Lemma reach_avail sl cg seed pass st : reach sl cg seed pass st -> Avail st.
Proof.
  induction 1; [apply init_good|]. apply (step_avail seed); try assumption. eapply reach_good; eauto.
Qed.

(** admissibility of every step of a history *)
Fixpoint run_adm (b : facts) (st : state) (h : list op) : bool :=
  match h with
  | [] => true
  | o :: h' => adm st o && run_adm b (fst (step b st o)) h'
  end.

Lemma run_reach sl cg seed pass h : forall st,
  reach sl cg seed pass st -> run_adm (mkFacts true sl cg) st h = true -> reach sl cg seed pass (fst (run (mkFacts true sl cg) st h)).
Proof.
  induction h as [|o h IH]; intros st R Ha; simpl in *; [exact R|].
  apply andb_true_iff in Ha. destruct Ha as (Ha1 & Ha2).
  destruct (step (mkFacts true sl cg) st o) as [st1 r] eqn:E. simpl in *.
  specialize (IH st1). destruct (run (mkFacts true sl cg) st1 h) as [st2 rs] eqn:E2. simpl in *. apply IH; [|exact Ha2].
  replace st1 with (fst (step (mkFacts true sl cg) st o)) by (rewrite E; reflexivity). constructor; assumption.
Qed.

(* ------------------------------------------------ the statements of C03 *)

Lemma path_skey_unhardened k b i :
  is_hardened b = false -> is_hardened i = false -> Pub (path_skey k b i) = ckd_pub (ckd_pub (Pub k) b) i.
Proof. intros Hb Hi. unfold path_skey, raw_child. rewrite Hb, Hi. reflexivity. Qed.

Lemma step_pair b st o : step b st o = (fst (step b st o), snd (step b st o)).
Proof. destruct (step b st o); reflexivity. Qed.

(** what a state says about the account (s, a): its row and the scope's schema *)
Definition acct_of (st : state) (s : scope) (a : N) (row : acct_row) (sch : schema) : Prop :=
  aget sa_dec (d_accts (st_disk st)) (s, a) = Some row /\
  exists coin, aget scope_eq_dec (d_scopes (st_disk st)) s = Some (sch, coin).

(** a reported chain address names the child branch/index of its account key,
    in the account's format, with the true path *)
Definition chain_info_ok (row : acct_row) (sch : schema) (s : scope) (a b idx : N) (i : ainfo) : Prop :=
  r_imported i = false /\ r_known i = true /\ r_scope i = s /\ r_iacct i = a /\
  dp_iacct (r_path i) = a /\ dp_branch (r_path i) = b /\ dp_index (r_path i) = idx /\
  r_internal i = (b =? internal_branch) /\
  r_pub i = Pub (path_skey (ar_pub row) b idx) /\
  r_fmt i = row_fmt sch row b.

Section theorems.
  Context (sl cg : bool) (seed pass : N).

  (** account keys: seed-derived accounts hold m/purpose'/coin'/account',
      imported accounts hold the imported xpub and no private key *)
  Theorem account_keys st s a row :
    reach sl cg seed pass st -> aget sa_dec (d_accts (st_disk st)) (s, a) = Some row ->
    match ar_kind row with
    | ADefault => ar_pub row = acct_key seed (fst s) (snd s) a /\ ar_priv row = Some (ar_pub row) /\ ar_schema row = None
    | AWatchOnly => (exists x cn, ar_pub row = xpub_key x cn) /\ ar_priv row = None
    end.
  Proof.
    intros R H. destruct (reach_good _ _ _ _ _ R) as (I & _). destruct (i_disk _ _ _ I) as (_ & _ & D3 & _).
    destruct (D3 s a row H) as (Hr & _). unfold row_ok in Hr. destruct (ar_kind row); tauto.
  Qed.

  Lemma rinfo_ok_chain D lkd i row sch :
    rinfo_ok D lkd (RKey i) -> r_imported i = false ->
    aget sa_dec (d_accts D) (r_scope i, r_iacct i) = Some row ->
    (exists coin, aget scope_eq_dec (d_scopes D) (r_scope i) = Some (sch, coin)) ->
    chain_info_ok row sch (r_scope i) (r_iacct i) (dp_branch (r_path i)) (dp_index (r_path i)) i.
  Proof.
    simpl. intros (_ & _ & H) Hi Hrow (coin & Hsc). rewrite Hi in H.
    destruct H as (row' & sch' & coin' & H1 & H2 & H3 & H4 & H5 & H6 & H7).
    rewrite Hrow in H1. inversion H1. subst row'. rewrite Hsc in H2. inversion H2. subst sch' coin'.
    unfold chain_info_ok. splits; auto.
  Qed.

  (** NextExternalAddresses / NextInternalAddresses *)
  Theorem next_addresses_correct st s a internal n st' rs row sch :
    reach sl cg seed pass st -> step (mkFacts true sl cg) st (ONext s a internal n) = (st', OutAddrs rs) ->
    acct_of st' s a row sch ->
    let branch := if internal then internal_branch else external_branch in
    let next := disk_next (st_disk st) s a internal in
    disk_next (st_disk st') s a internal = next + n /\
    Forall2 (fun r idx => exists i, r = RKey i /\ chain_info_ok row sch s a branch idx i /\
                                    dp_acct (r_path i) = child_num (ar_pub row) /\
                                    r_pub i = ckd_pub (ckd_pub (Pub (ar_pub row)) branch) idx)
            rs (index_range next (N.to_nat n)).
  Proof.
    intros R Hs (Hrow & coin & Hsc). pose proof (reach_good _ _ _ _ _ R) as G.
    pose proof (step_next seed (mkFacts true sl cg) st s a internal n G) as H. rewrite Hs in H. cbn [fst snd] in H.
    destruct H as (G' & _ & _ & H1 & H2 & H3). cbv zeta. split; [exact H1|].
    (* all indices are below 2^31 *)
    assert (Hb : disk_next (st_disk st') s a internal <= hardened_start).
    { destruct G' as (I' & _). destruct (i_disk _ _ _ I') as (_ & _ & _ & _ & D5 & _).
      unfold disk_next. destruct (aget sab_dec (d_next (st_disk st')) (s, a, internal)) eqn:E; [eauto|].
      unfold hardened_start. lia. }
    assert (Hidx : forall idx, In idx (index_range (disk_next (st_disk st) s a internal) (N.to_nat n)) ->
                               is_hardened idx = false).
    { intros idx Hin. apply index_range_In in Hin. rewrite N2Nat.id in Hin. unfold is_hardened. apply N.leb_gt. lia. }
    clear H1 H2 Hs. induction H3 as [|r idx rs' idxs (Hok & Hf & (i & -> & Hi & Hsx & Ha & Hp) & _) Hrest IH];
      constructor; [|apply IH; intros; apply Hidx; right; assumption].
    exists i. split; [reflexivity|]. subst.
    pose proof (rinfo_ok_chain _ _ i row sch Hok Hi Hrow (ex_intro _ coin Hsc)) as C.
    rewrite Hp in C. simpl in C. rewrite Hp. simpl.
    splits; [exact C|exact (Hf Hi row Hrow)|].
    destruct C as (_ & _ & _ & _ & _ & _ & _ & _ & C9 & _). rewrite C9.
    apply path_skey_unhardened; [destruct internal; reflexivity|apply Hidx; left; reflexivity].
  Qed.

  (** Manager.Address: the managed address found for [ad] stands for the same
      address; a chain address is the child of its account key at the
      reported, true path *)
  Theorem lookup_correct st ad st' r :
    reach sl cg seed pass st -> step (mkFacts true sl cg) st (OLookup ad) = (st', OutAddrs [r]) ->
    rinfo_akey r = addr_key ad /\
    forall i row sch, r = RKey i -> r_imported i = false -> acct_of st' (r_scope i) (r_iacct i) row sch ->
      chain_info_ok row sch (r_scope i) (r_iacct i) (dp_branch (r_path i)) (dp_index (r_path i)) i /\
      dp_acct (r_path i) = child_num (ar_pub row).
  Proof.
    intros R Hs. pose proof (reach_good _ _ _ _ _ R) as G.
    pose proof (step_lookup seed (mkFacts true sl cg) st ad G) as H. rewrite Hs in H. cbn [fst snd] in H.
    destruct H as (_ & _ & _ & _ & H1 & H2 & H3 & _). split; [exact H3|].
    intros i row sch -> Hi (Hrow & Hsc). split; [eapply rinfo_ok_chain; eauto|exact (H2 Hi row Hrow)].
  Qed.

  (** DeriveFromKeyPath: the derived address is the child of the account key
      at the requested branch/index and reports the requested path *)
  Theorem derive_correct st s p st' r row sch :
    reach sl cg seed pass st -> step (mkFacts true sl cg) st (ODerive s p) = (st', OutAddrs [r]) ->
    acct_of st' s (dp_iacct p) row sch ->
    exists i, r = RKey i /\ r_path i = p /\ chain_info_ok row sch s (dp_iacct p) (dp_branch p) (dp_index p) i.
  Proof.
    intros R Hs (Hrow & Hsc). pose proof (reach_good _ _ _ _ _ R) as G.
    pose proof (step_derive seed (mkFacts true sl cg) st s p G) as H. rewrite Hs in H. cbn [fst snd] in H.
    destruct H as (_ & _ & _ & _ & H1 & (i & -> & Hi & Hsx & Hp) & _). exists i. splits; auto.
    assert (Hia : r_iacct i = dp_iacct p).
    { simpl in H1. destruct H1 as (_ & _ & H1). rewrite Hi in H1. destruct H1 as (? & ? & ? & _ & _ & _ & E & _). congruence. }
    pose proof (rinfo_ok_chain _ _ i row sch H1 Hi) as C. rewrite Hsx, Hia in C. specialize (C Hrow Hsc).
    rewrite Hp in C. exact C.
  Qed.

  (** a private key that is returned is never a wrong one (any source version) *)
  Theorem priv_never_wrong st o st' rs i k :
    reach sl cg seed pass st -> adm st o = true -> step (mkFacts true sl cg) st o = (st', OutAddrs rs) -> In (RKey i) rs ->
    (match o with ONext _ _ _ _ | OLookup _ | ODerive _ _ | OImportKey _ _ => True | _ => False end) ->
    r_priv i = POk k -> pub_of_priv k = r_pub i.
  Proof.
    intros R Ha Hs Hin Hop Hk. pose proof (reach_good _ _ _ _ _ R) as G.
    assert (Hok : rinfo_ok (st_disk st') (m_locked (st_mem st)) (RKey i)).
    { destruct o; try contradiction.
      - pose proof (step_next seed (mkFacts true sl cg) st s a internal n G) as H. rewrite Hs in H. cbn [fst snd] in H.
        destruct H as (_ & _ & _ & _ & _ & H3). clear - H3 Hin. induction H3; [contradiction|].
        destruct Hin as [<-|Hin]; [tauto|auto].
      - pose proof (step_lookup seed (mkFacts true sl cg) st ad G) as H. rewrite Hs in H. cbn [fst snd] in H.
        destruct H as (_ & _ & _ & _ & H).
        destruct rs as [|r [|]]; try contradiction. destruct Hin as [<-|[]]. tauto.
      - pose proof (step_derive seed (mkFacts true sl cg) st s p G) as H. rewrite Hs in H. cbn [fst snd] in H.
        destruct H as (_ & _ & _ & _ & H).
        destruct rs as [|r [|]]; try contradiction. destruct Hin as [<-|[]]. tauto.
      - pose proof (step_importkey seed (mkFacts true sl cg) st s k0 G) as H. rewrite Hs in H. cbn [fst snd] in H.
        destruct H as (_ & _ & _ & _ & _ & _ & H).
        destruct rs as [|r [|]]; try contradiction. destruct Hin as [<-|[]]. tauto. }
    simpl in Hok. destruct Hok as (H & _). rewrite (H k Hk). destruct (r_pub i). reflexivity.
  Qed.

  (** the stored next index of an existing account only changes by issuing:
      ONext adds n, OExtend raises it to last + 1, nothing else touches it *)
  Theorem index_frame st o s a i row :
    reach sl cg seed pass st -> adm st o = true -> aget sa_dec (d_accts (st_disk st)) (s, a) = Some row ->
    disk_next (st_disk (fst (step (mkFacts true sl cg) st o))) s a i =
    match o, snd (step (mkFacts true sl cg) st o) with
    | ONext s' a' i' n, OutAddrs _ =>
      if sab_dec (s, a, i) (s', a', i') then disk_next (st_disk st) s a i + n else disk_next (st_disk st) s a i
    | OExtend s' a' i' last, OutOk =>
      if sab_dec (s, a, i) (s', a', i') then N.max (disk_next (st_disk st) s a i) (last + 1)
      else disk_next (st_disk st) s a i
    | _, _ => disk_next (st_disk st) s a i
    end.
  Proof.
    intros R Ha Hrow. pose proof (reach_good _ _ _ _ _ R) as G.
    destruct o.
    - destruct (step_open seed (mkFacts true sl cg) st G) as (_ & _ & H). rewrite H. reflexivity.
    - destruct (step_unlock seed (mkFacts true sl cg) st pass0 G) as (_ & _ & H). rewrite H. reflexivity.
    - destruct (step_lock seed (mkFacts true sl cg) st G) as (_ & _ & H). rewrite H. reflexivity.
    - cbn [step]. destruct (negb (old =? m_pass (st_mem st))); reflexivity.
    - destruct (step_newscope seed (mkFacts true sl cg) st s0 sch G) as (_ & _ & _ & _ & H). exact (H (s, a, i)).
    - destruct (step_newaccount seed (mkFacts true sl cg) st s0 name G Ha) as (_ & _ & _ & _ & H). exact (H s a i row Hrow).
    - destruct (step_importxpub seed (mkFacts true sl cg) st s0 name x cn fp sch G Ha) as (_ & _ & _ & _ & H). exact (H s a i row Hrow).
    - destruct (step_next seed (mkFacts true sl cg) st s0 a0 internal n G) as (_ & _ & _ & H).
      destruct (snd (step (mkFacts true sl cg) st (ONext s0 a0 internal n))) eqn:E; try contradiction; [rewrite H; reflexivity|].
      destruct H as (H1 & H2 & _). destruct (sab_dec (s, a, i) (s0, a0, internal)) as [Heq|Hne].
      + inversion Heq. subst. exact H1.
      + apply H2. exact Hne.
    - destruct (step_extend seed sl cg st s0 a0 internal last G) as (_ & _ & _ & H).
      destruct (snd (step (mkFacts true sl cg) st (OExtend s0 a0 internal last))) eqn:E; try contradiction; [|rewrite H; reflexivity].
      destruct H as (H1 & H2). destruct (sab_dec (s, a, i) (s0, a0, internal)) as [Heq|Hne].
      + inversion Heq. subst. exact H1.
      + apply H2. exact Hne.
    - destruct (step_lookup seed (mkFacts true sl cg) st ad G) as (_ & _ & _ & H & _). rewrite H. reflexivity.
    - destruct (step_markused seed (mkFacts true sl cg) st ad G) as (_ & _ & _ & H). rewrite H. reflexivity.
    - destruct (step_derive seed (mkFacts true sl cg) st s0 p G) as (_ & _ & _ & H & _). rewrite H. reflexivity.
    - destruct (step_derivecache seed (mkFacts true sl cg) st s0 p G) as (_ & _ & _ & H & _). rewrite H. reflexivity.
    - destruct (step_importkey seed (mkFacts true sl cg) st s0 k G) as (_ & _ & _ & _ & H & _). unfold disk_next. rewrite H. reflexivity.
    - destruct (step_importscript seed (mkFacts true sl cg) st s0 sc secret G) as (_ & _ & _ & _ & H & _). unfold disk_next. rewrite H. reflexivity.
    - destruct (step_props seed (mkFacts true sl cg) st s0 a0 G) as (_ & _ & _ & H & _). rewrite H. reflexivity.
    - destruct (step_priv seed (mkFacts true sl cg) st h G) as (_ & _ & _ & H & _). rewrite H. reflexivity.
    - destruct (step_script seed (mkFacts true sl cg) st h G) as (_ & _ & _ & H & _). rewrite H. reflexivity.
    - destruct (step_importpub seed (mkFacts true sl cg) st s0 k G) as (_ & _ & _ & _ & H & _). unfold disk_next. rewrite H. reflexivity.
    - destruct (step_chpubpass seed (mkFacts true sl cg) st old new G) as (_ & _ & _ & H). apply H.
  Qed.
End theorems.

(** Private keys, for the source version in which extendAddresses uses the
    same watch-only test as nextAddresses ([extend_priv] = true). *)
Section priv_theorems.
  Context (sl cg : bool) (seed pass : N).

  (** an address object the caller holds *)
  Definition handle_obj (st : state) (h : nat) (ma : maddr) : Prop :=
    exists oid, nth_error (m_handles (st_mem st)) h = Some oid /\
                nth_error (m_heap (st_mem st)) oid = Some (MKey ma).

  (** every such object is the child of its account key (chain addresses) or an
      imported key, and any key stored in it is the key of its public key *)
  Theorem handle_obj_ok st h ma :
    reach sl cg seed pass st -> handle_obj st h ma ->
    if ma_imported ma then (exists k, ma_pub ma = Pub (imp_key k)) \/ (exists k, ma_pub ma = Pub (imp_pub_key k))
    else exists row sch, acct_of st (ma_scope ma) (dp_iacct (ma_path ma)) row sch /\
           ma_pub ma = Pub (path_skey (ar_pub row) (dp_branch (ma_path ma)) (dp_index (ma_path ma))) /\
           ma_fmt ma = row_fmt sch row (dp_branch (ma_path ma)).
  Proof.
    intros R (oid & _ & Ho). destruct (reach_good _ _ _ _ _ R) as (I & _).
    destruct (i_heap _ _ _ I _ _ Ho) as (_ & H). destruct (ma_imported ma).
    - destruct H as (n & _ & _ & [|] & H1 & _); [right|left]; eauto.
    - destruct H as (row & sch & coin & H1 & H2 & H3 & H4 & _). exists row, sch. unfold acct_of. eauto.
  Qed.

  (** PrivKey() on any held address of an account that has a private key, or
      on a key imported with its private key (WIF), returns exactly the
      private key of its public key whenever the manager is unlocked *)
  Theorem priv_key_available st h ma :
    reach sl cg seed pass st -> handle_obj st h ma -> m_locked (st_mem st) = false ->
    (ma_imported ma = false ->
     exists row, aget sa_dec (d_accts (st_disk st)) (ma_scope ma, dp_iacct (ma_path ma)) = Some row /\
                 ar_priv row <> None) ->
    (ma_imported ma = true -> exists k, ma_pub ma = Pub (imp_key k)) ->
    snd (step (mkFacts true sl cg) st (OPriv h)) = OutKey (Priv (skey_of_pub (ma_pub ma))).
  Proof.
    intros R (oid & Hh & Ho) Hl Hrow Himp. pose proof (reach_good _ _ _ _ _ R) as G. pose proof (reach_avail _ _ _ _ _ R) as A.
    destruct (step_priv seed (mkFacts true sl cg) st h G) as (_ & _ & _ & _ & H). rewrite (H oid ma Hh Ho), Hl.
    destruct G as (I & _). destruct (i_heap _ _ _ I _ _ Ho) as (_ & Hobj).
    destruct (ma_imported ma) eqn:Ei.
    - destruct Hobj as (n & _ & _ & po & E0 & E & _). destruct (Himp eq_refl) as (k & Ek).
      rewrite Ek in E0. inversion E0 as [E1]. symmetry in E1. destruct (imp_name_private _ _ _ E1) as (-> & _).
      rewrite E. reflexivity.
    - destruct (Hrow eq_refl) as (row & Hr & Hp).
      destruct (A oid ma row Ho Ei Hr Hp) as [X|(X & _)]; [|congruence].
      destruct (ma_enc ma); [reflexivity|contradiction].
  Qed.

  (** the addresses an operation hands out while unlocked already carry their
      private key (just issued / looked up / derived / reloaded after restart) *)
  Theorem reported_priv_available st o st' rs i row :
    reach sl cg seed pass st -> adm st o = true -> step (mkFacts true sl cg) st o = (st', OutAddrs rs) -> In (RKey i) rs ->
    (match o with ONext _ _ _ _ | OLookup _ | ODerive _ _ => True | _ => False end) ->
    m_locked (st_mem st) = false -> r_imported i = false ->
    aget sa_dec (d_accts (st_disk st')) (r_scope i, r_iacct i) = Some row -> ar_priv row <> None ->
    r_priv i = POk (Priv (skey_of_pub (r_pub i))).
  Proof.
    intros R Ha Hs Hin Hop Hl Hi Hrow Hp. pose proof (reach_good _ _ _ _ _ R) as G. pose proof (reach_avail _ _ _ _ _ R) as A.
    assert (Hav : rinfo_avail (st_disk st') (m_locked (st_mem st)) (RKey i)).
    { destruct o; try contradiction.
      - pose proof (step_next seed (mkFacts true sl cg) st s a internal n G) as H. rewrite Hs in H. cbn [fst snd] in H.
        destruct H as (_ & _ & _ & _ & _ & H3). clear - H3 Hin A. induction H3; [contradiction|].
        destruct Hin as [<-|Hin]; [tauto|auto].
      - pose proof (step_lookup seed (mkFacts true sl cg) st ad G) as H. rewrite Hs in H. cbn [fst snd] in H.
        destruct H as (_ & _ & _ & _ & H).
        destruct rs as [|r [|]]; try contradiction. destruct Hin as [<-|[]]. tauto.
      - pose proof (step_derive seed (mkFacts true sl cg) st s p G) as H. rewrite Hs in H. cbn [fst snd] in H.
        destruct H as (_ & _ & _ & _ & H).
        destruct rs as [|r [|]]; try contradiction. destruct Hin as [<-|[]]. tauto. }
    exact (Hav Hi Hl row Hrow Hp).
  Qed.

  (** imported private keys and scripts come back unchanged *)
  Theorem imported_key_unchanged st s k st' rs :
    reach sl cg seed pass st -> step (mkFacts true sl cg) st (OImportKey s k) = (st', OutAddrs rs) ->
    exists i, rs = [RKey i] /\ r_imported i = true /\ r_pub i = Pub (imp_key k) /\ r_priv i = POk (Priv (imp_key k)).
  Proof.
    intros R Hs. pose proof (reach_good _ _ _ _ _ R) as G.
    pose proof (step_importkey seed (mkFacts true sl cg) st s k G) as H. rewrite Hs in H. cbn [fst snd] in H.
    destruct H as (_ & _ & _ & _ & _ & _ & H). destruct rs as [|r [|]]; try contradiction.
    destruct H as (_ & i & -> & H). eauto.
  Qed.

  Theorem imported_key_later st ad st' i :
    reach sl cg seed pass st -> step (mkFacts true sl cg) st (OLookup ad) = (st', OutAddrs [RKey i]) -> r_imported i = true ->
    exists k po, r_pub i = Pub (imp_name po k) /\ addr_key (AKey (r_fmt i) (Pub (imp_name po k))) = addr_key ad /\
              (m_locked (st_mem st) = false -> r_priv i = if po then PErr EWatching else POk (Priv (imp_key k))).
  Proof.
    intros R Hs Hi. pose proof (reach_good _ _ _ _ _ R) as G.
    pose proof (step_lookup seed (mkFacts true sl cg) st ad G) as H. rewrite Hs in H. cbn [fst snd] in H.
    destruct H as (_ & _ & _ & _ & H1 & _ & H3 & _). simpl in H1. rewrite Hi in H1.
    destruct H1 as (_ & _ & n & po & P1 & _ & _ & P4). exists n, po. simpl in H3. rewrite P1 in H3. auto.
  Qed.

  (** ImportPublicKey: the public key is returned unchanged, encoded in the
      scope's external format, and no private key is ever returned for it *)
  Theorem imported_pub_unchanged st s k st' rs :
    reach sl cg seed pass st -> step (mkFacts true sl cg) st (OImportPub s k) = (st', OutAddrs rs) ->
    exists i sch, rs = [RKey i] /\ r_imported i = true /\ r_pub i = Pub (imp_pub_key k) /\
                  aget scope_eq_dec (m_scopes (st_mem st)) s = Some sch /\ r_fmt i = ext_fmt sch /\
                  r_priv i = PErr (if m_locked (st_mem st) then ELocked else EWatching).
  Proof.
    intros R Hs. pose proof (reach_good _ _ _ _ _ R) as G.
    pose proof (step_importpub seed (mkFacts true sl cg) st s k G) as H. rewrite Hs in H. cbn [fst snd] in H.
    destruct H as (_ & _ & _ & _ & _ & _ & H). destruct rs as [|r [|]]; try contradiction.
    destruct H as (_ & i & sch & -> & H). exists i, sch. tauto.
  Qed.

  Theorem imported_script_unchanged st s sc secret st' rs :
    reach sl cg seed pass st -> step (mkFacts true sl cg) st (OImportScript s sc secret) = (st', OutAddrs rs) -> rs = [RScr s sc (SOk sc)].
  Proof.
    intros R Hs. pose proof (reach_good _ _ _ _ _ R) as G.
    pose proof (step_importscript seed (mkFacts true sl cg) st s sc secret G) as H. rewrite Hs in H. cbn [fst snd] in H.
    destruct H as (_ & _ & _ & _ & _ & _ & H). destruct rs as [|r [|]]; try contradiction.
    destruct H as (_ & ->). reflexivity.
  Qed.

  (** Script() of a held script address: the imported script, whenever the
      manager is unlocked - and at any time for a script imported as public *)
  Theorem script_later st h oid sa :
    reach sl cg seed pass st -> nth_error (m_handles (st_mem st)) h = Some oid ->
    nth_error (m_heap (st_mem st)) oid = Some (MScript sa) -> (m_locked (st_mem st) = false \/ sa_secret sa = false) ->
    snd (step (mkFacts true sl cg) st (OScript h)) = OutScript (sa_script sa).
  Proof.
    intros R Hh Ho Hl. pose proof (reach_good _ _ _ _ _ R) as G.
    destruct (step_script seed (mkFacts true sl cg) st h G) as (_ & _ & _ & _ & H). rewrite (H oid sa Hh Ho).
    destruct Hl as [->| ->]; [rewrite andb_false_r|]; reflexivity.
  Qed.
End priv_theorems.

(** the address of child branch/index of an account row under a scope schema *)
Definition chain_addr (sch : schema) (row : acct_row) (b i : N) : addr :=
  AKey (row_fmt sch row b) (Pub (path_skey (ar_pub row) b i)).

(** Two wallets created INDEPENDENTLY from the same seed (any passphrases, any
    histories, any source version of the two regenerated facts): every
    seed-derived account they both have holds the key the specification assigns
    to m/purpose'/coin'/account' - a function of the seed and the path alone -
    and, where the scope has the same address schema in both (the schema is an
    input: a constant of Create for the default scopes, the argument of
    NewScopedKeyManager otherwise), the address of every branch and index is the
    same in both. *)
Theorem same_seed_same_addresses sl1 cg1 sl2 cg2 seed pass1 pass2 st1 st2 s a row1 row2 sch b i :
  reach sl1 cg1 seed pass1 st1 -> reach sl2 cg2 seed pass2 st2 ->
  acct_of st1 s a row1 sch -> acct_of st2 s a row2 sch ->
  ar_kind row1 = ADefault -> ar_kind row2 = ADefault ->
  ar_pub row1 = acct_key seed (fst s) (snd s) a /\ ar_pub row2 = acct_key seed (fst s) (snd s) a /\
  chain_addr sch row1 b i = chain_addr sch row2 b i.
Proof.
  intros R1 R2 (H1 & _) (H2 & _) K1 K2.
  pose proof (account_keys _ _ _ _ _ _ _ _ R1 H1) as A1. pose proof (account_keys _ _ _ _ _ _ _ _ R2 H2) as A2.
  rewrite K1 in A1. rewrite K2 in A2. destruct A1 as (E1 & _ & S1). destruct A2 as (E2 & _ & S2).
  split; [exact E1|split; [exact E2|]]. unfold chain_addr, row_fmt. rewrite S1, S2, E1, E2. reflexivity.
Qed.

(* ------------------------------------------- the rule of every hardened step *)

(** For EVERY assignment [lz] of leading zero bytes: the derivation hdkeychain
    performs at each hardened step of the wallet - DeriveNonStandard on a parent
    held at the width the model (following the code) holds it - yields the key
    the specification names. *)
Section rule_theorems.
  Variable lz : skey -> bool.

  Lemma hardened_plus i : is_hardened (i + hardened_start) = true.
  Proof. unfold is_hardened. apply N.leb_le. lia. Qed.

  Lemma raw_child_hardened k i : raw_child k (i + hardened_start) = child k i true.
  Proof. unfold raw_child. rewrite hardened_plus. replace (i + hardened_start - hardened_start) with i by lia. reflexivity. Qed.

  (** m -> purpose': the master key is held at full width (NewMaster / read back): BIP32 = specified *)
  Theorem rule_purpose_step seed pu :
    spec_rule (master seed) (pu + hardened_start) = Std /\
    ckd lz (rule_of_width Full) (master seed) (pu + hardened_start) = child (master seed) pu true.
  Proof. split; [reflexivity|]. rewrite <- (raw_child_hardened (master seed) pu). apply (ckd_spec lz (master seed)). Qed.

  (** purpose' -> coin': the purpose key is a derivation result (shortened): legacy = specified *)
  Theorem rule_coin_step seed pu co :
    spec_rule (child (master seed) pu true) (co + hardened_start) = Leg /\
    ckd lz (rule_of_width Short) (child (master seed) pu true) (co + hardened_start) = coin_key seed pu co.
  Proof.
    split; [reflexivity|]. unfold coin_key. rewrite <- (raw_child_hardened (child (master seed) pu true) co).
    apply (ckd_spec lz (child (master seed) pu true)).
  Qed.

  (** coin' -> 0': from the coin-type key just derived (shortened): legacy = specified *)
  Theorem rule_account0_step seed pu co :
    spec_rule (coin_key seed pu co) (0 + hardened_start) = Leg /\
    ckd lz (rule_of_width Short) (coin_key seed pu co) (0 + hardened_start) = acct_key seed pu co 0.
  Proof.
    split; [reflexivity|]. unfold acct_key. rewrite <- (raw_child_hardened (coin_key seed pu co) 0).
    apply (ckd_spec lz (coin_key seed pu co)).
  Qed.

  (** coin' -> a', a >= 1: from the coin-type key read back (full width): BIP32 = specified *)
  Theorem rule_later_account_step seed pu co a :
    a <> 0 ->
    spec_rule (coin_key seed pu co) (a + hardened_start) = Std /\
    ckd lz (rule_of_width Full) (coin_key seed pu co) (a + hardened_start) = acct_key seed pu co a.
  Proof.
    intros Ha.
    assert (Hs : spec_rule (coin_key seed pu co) (a + hardened_start) = Std).
    { unfold spec_rule, coin_key, child, master. simpl.
      destruct (a + hardened_start =? hardened_start) eqn:E; [apply N.eqb_eq in E; lia|reflexivity]. }
    split; [exact Hs|]. unfold acct_key. rewrite <- (raw_child_hardened (coin_key seed pu co) a).
    change (rule_of_width Full) with Std. rewrite <- Hs. apply ckd_spec.
  Qed.

  (** account' -> branch (a hardened request): account key read back (full width): BIP32 = specified *)
  Theorem rule_branch_step seed pu co a b :
    spec_rule (acct_key seed pu co a) b = Std /\
    ckd lz (rule_of_width Full) (acct_key seed pu co a) b = raw_child (acct_key seed pu co a) b.
  Proof. split; [reflexivity|]. apply (ckd_spec lz (acct_key seed pu co a)). Qed.

  (** branch -> index (a hardened request): branch key is a derivation result (shortened): legacy = specified *)
  Theorem rule_index_step seed pu co a b i :
    spec_rule (raw_child (acct_key seed pu co a) b) i = Leg /\
    ckd lz (rule_of_width Short) (raw_child (acct_key seed pu co a) b) i = raw_child (raw_child (acct_key seed pu co a) b) i.
  Proof.
    assert (Hs : spec_rule (raw_child (acct_key seed pu co a) b) i = Leg)
      by (unfold raw_child; destruct (is_hardened b); reflexivity).
    split; [exact Hs|]. change (rule_of_width Short) with Leg. rewrite <- Hs. apply ckd_spec.
  Qed.

  (** and the rule matters: at each of these steps the OTHER width yields
      another key as soon as the parent key has a leading zero byte *)
  Theorem other_rule_other_key w k i :
    is_hardened i = true -> lz k = true -> rule_of_width w <> spec_rule k i -> ckd lz (rule_of_width w) k i <> raw_child k i.
  Proof. apply ckd_wrong_rule. Qed.
End rule_theorems.

(** The model derives with these widths (createManagerKeyScope: three steps from
    the root; newAccount: later accounts; deriveKey: branch and index), and with
    the worst-case [all_lz] any other rule would have left the key tree
    ([ckd_all_lz_iff]); so [account_keys], [derive_correct] and the address
    theorems above say that every hardened step of every reachable state was
    made with the specified rule.  What another width would have done: *)
Example account_later_from_derived_coin_key_is_another_key :
  x_derive (XPriv (coin_key 7 84 0) Short) (1 + hardened_start) <> Some (XPriv (acct_key 7 84 0 1) Short) /\
  x_derive (XPriv (coin_key 7 84 0) Full) (1 + hardened_start) = Some (XPriv (acct_key 7 84 0 1) Short) /\
  x_derive (XPriv (coin_key 7 84 0) Full) (0 + hardened_start) <> Some (XPriv (acct_key 7 84 0 0) Short) /\
  x_derive (XPriv (coin_key 7 84 0) Short) (0 + hardened_start) = Some (XPriv (acct_key 7 84 0 0) Short).
Proof. vm_compute. repeat split; try reflexivity; intros H; discriminate. Qed.
