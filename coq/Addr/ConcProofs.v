(** C09 - proofs about the interleaving model Addr/Conc.v. *)
From Verif Require Import Base.Prelude Addr.Conc.
Local Open Scope N_scope.

(* ------------------------------------------------------------------ lists *)

Lemma length_upd {A} (l : list A) i x : length (upd l i x) = length l.
Proof. revert i; induction l as [|y l IH]; intros [|i]; simpl; auto. Qed.

Lemma nth_error_upd_eq {A} (l : list A) i x y :
  nth_error l i = Some y -> nth_error (upd l i x) i = Some x.
Proof.
  revert i; induction l as [|z l IH]; intros [|i]; simpl; intros H; try discriminate; auto.
Qed.

Lemma nth_error_upd_ne {A} (l : list A) i j x :
  i <> j -> nth_error (upd l i x) j = nth_error l j.
Proof.
  revert i j; induction l as [|z l IH]; intros [|i] [|j] H; simpl; auto; try congruence.
Qed.

Lemma rangeN_0 a : rangeN a 0 = [].
Proof. reflexivity. Qed.

Lemma seq_shift_map (f : nat -> N) s k n :
  map f (seq (s + k) n) = map (fun i => f (i + k)%nat) (seq s n).
Proof.
  revert s; induction n as [|n IH]; intros s; simpl; [reflexivity|].
  f_equal. exact (IH (S s)).
Qed.

Lemma rangeN_app a n m : rangeN a (n + m) = rangeN a n ++ rangeN (a + n) m.
Proof.
  unfold rangeN. rewrite N2Nat.inj_add, seq_app, map_app. f_equal.
  rewrite Nat.add_0_l.
  change (N.to_nat n) with (0 + N.to_nat n)%nat at 1.
  rewrite seq_shift_map. apply map_ext. intros k. lia.
Qed.

Lemma in_rangeN a n x : In x (rangeN a n) <-> a <= x < a + n.
Proof.
  unfold rangeN. rewrite in_map_iff. split.
  - intros (k & <- & Hk). apply in_seq in Hk. lia.
  - intros H. exists (N.to_nat (x - a)). split; [lia|]. apply in_seq. lia.
Qed.

Lemma length_rangeN a n : length (rangeN a n) = N.to_nat n.
Proof. unfold rangeN. now rewrite map_length, seq_length. Qed.

Lemma NoDup_rangeN a n : NoDup (rangeN a n).
Proof.
  unfold rangeN. apply FinFun.Injective_map_NoDup; [|apply seq_NoDup].
  intros i j H. lia.
Qed.

Lemma has_dup_false_NoDup l : has_dup l = false <-> NoDup l.
Proof.
  induction l as [|x l IH]; simpl.
  - split; [constructor|reflexivity].
  - rewrite orb_false_iff, IH. split.
    + intros [He Hn]. constructor; [|assumption]. intros Hin.
      assert (existsb (N.eqb x) l = true) as C; [|congruence].
      apply existsb_exists. exists x. split; [assumption|apply N.eqb_refl].
    + intros Hnd. inv Hnd. split; [|assumption].
      destruct (existsb (N.eqb x) l) eqn:E; [|reflexivity].
      apply existsb_exists in E. destruct E as (y & Hy & Heq).
      apply N.eqb_eq in Heq. subst. contradiction.
Qed.

(* -------------------------------------------------------------- invariant *)

Definition in_cs (p : pc) : bool := match p with PLock | PDone => false | _ => true end.
Definition in_tx (p : pc) : bool := match p with PRead | PWrite | PEnd => true | _ => false end.

Definition idle (s : state) : Prop := mem_view s = disk s /\ txd s = None.

(** the address cache holds only indices of [n0, b) *)
Definition cache_lt (n0 : N) (s : state) (b : N) : Prop :=
  forall i, In i (cache s) -> n0 <= i < b.

(** What the shared data look like, by the position of the mutex owner. *)
Definition data_ok (ths : list thread) (n0 : N) (s : state) : Prop :=
  match mtx s with
  | None => idle s /\ cache_lt n0 s (disk s)
  | Some t =>
    match nth_error ths t, nth_error (ts s) t with
    | Some th, Some x =>
      match t_pc x with
      | PWrite => idle s /\ cache_lt n0 s (disk s) /\ (reads th = true -> t_reg x = disk s)
      | PEnd =>
        let c := count_of th (t_reg x) in
        if c =? 0 then idle s /\ cache_lt n0 s (disk s)
        else t_reg x = disk s /\ txd s = Some (t_reg x + c) /\
             (if is_ext th then mem_view s = t_reg x + c /\ cache_lt n0 s (t_reg x + c)
              else mem_view s = disk s /\ cache_lt n0 s (disk s))
      | PCallback =>
        txd s = None /\ cache_lt n0 s (disk s) /\
        (if is_ext th || (th_n th =? 0) then mem_view s = disk s
         else disk s = t_reg x + th_n th /\ n0 <= t_reg x)
      | _ => idle s /\ cache_lt n0 s (disk s)
      end
    | _, _ => False
    end
  end.

Record Inv (ths : list thread) (n0 : N) (s : state) : Prop := {
  inv_len : length (ts s) = length ths;
  inv_mtx : forall t x, nth_error (ts s) t = Some x ->
            (in_cs (t_pc x) = true <-> mtx s = Some t);
  inv_rd : readers s = [];
  inv_wr : forall t x, nth_error (ts s) t = Some x ->
            (in_tx (t_pc x) = true <-> wr s = Some t);
  inv_data : data_ok ths n0 s;
  inv_lo : n0 <= disk s;
  inv_iss : indices s = rangeN n0 (disk s - n0);
  inv_wdom : forall t, wr s = Some t -> (t < length (ts s))%nat
}.

(** the locking discipline: every thread takes the mutex exclusively around
    its whole transaction; a recovery transaction commits (the rolled back one
    is the eager-memory finding of C08/C10, not a scheduling matter) *)
Definition disciplined (th : thread) : Prop :=
  th_held th = true /\ th_shared th = false /\ (is_ext th = true -> th_commits th = true).

Definition all_held (ths : list thread) : Prop := Forall disciplined ths.

Lemma init_inv ths n0 c : all_held ths -> Inv ths n0 (init ths n0 c).
Proof.
  intros Hh. constructor; simpl.
  - apply map_length.
  - intros t x H. rewrite nth_error_map in H.
    destruct (nth_error ths t) as [th|] eqn:E; [|discriminate]. inv H. simpl.
    apply nth_error_In in E. unfold all_held in Hh. rewrite Forall_forall in Hh.
    destruct (Hh _ E) as (Hd & _). unfold first_pc. rewrite Hd. simpl. split; discriminate.
  - reflexivity.
  - intros t x H. rewrite nth_error_map in H.
    destruct (nth_error ths t) as [th|] eqn:E; [|discriminate]. inv H. simpl.
    unfold first_pc. destruct (th_held th); simpl; split; discriminate.
  - unfold data_ok, idle, mem_view, cache_lt; simpl. split; [destruct c; auto|]. intros i [].
  - lia.
  - unfold indices; simpl. now rewrite N.sub_diag.
  - discriminate.
Qed.

Lemma held_at ths t th : all_held ths -> nth_error ths t = Some th -> disciplined th.
Proof.
  intros Hh E. apply nth_error_In in E. unfold all_held in Hh.
  rewrite Forall_forall in Hh. auto.
Qed.

(** frame reasoning for the per-thread clauses: split on "is it the stepping
    thread" and rewrite the lookup in the updated thread list *)
Ltac frame t Hx :=
  let t' := fresh "t'" in let x' := fresh "x'" in let Hn := fresh "Hn" in
  let Hne := fresh "Hne" in
  intros t' x' Hn; cbn [ts mtx wr set_pc] in *; unfold set_pc in Hn;
  destruct (Nat.eq_dec t t') as [<-|Hne];
  [ rewrite (nth_error_upd_eq _ _ _ _ Hx) in Hn; inv Hn; cbn [t_pc t_reg]
  | rewrite (nth_error_upd_ne _ _ _ _ Hne) in Hn ].

Ltac wdom I Ex :=
  match goal with
  | |- forall t', _ = Some t' -> (_ < _)%nat =>
    let t' := fresh "t'" in let H := fresh "H" in
    intros t' H; unfold set_pc; rewrite length_upd;
    first [ exact (inv_wdom _ _ _ I _ H)
          | discriminate
          | (inv H; apply nth_error_Some; congruence) ]
  end.

Ltac same_mtx t Ex Em I :=
  let t' := fresh "t'" in let x' := fresh "x'" in let Hn := fresh "Hn" in let Hne := fresh "Hne" in
  intros t' x' Hn; unfold set_pc in Hn; destruct (Nat.eq_dec t t') as [<-|Hne];
  [ rewrite (nth_error_upd_eq _ _ _ _ Ex) in Hn; inv Hn; cbn; rewrite Em; split; auto
  | rewrite (nth_error_upd_ne _ _ _ _ Hne) in Hn; exact (inv_mtx _ _ _ I _ _ Hn) ].

Ltac same_wr t Ex Ew I :=
  let t' := fresh "t'" in let x' := fresh "x'" in let Hn := fresh "Hn" in let Hne := fresh "Hne" in
  intros t' x' Hn; unfold set_pc in Hn; destruct (Nat.eq_dec t t') as [<-|Hne];
  [ rewrite (nth_error_upd_eq _ _ _ _ Ex) in Hn; inv Hn; cbn; rewrite Ew; split; auto
  | rewrite (nth_error_upd_ne _ _ _ _ Hne) in Hn; exact (inv_wr _ _ _ I _ _ Hn) ].

(* the stepping thread leaves the transaction: the writer lock becomes free *)
Ltac end_wr t Ex Ew I :=
  let t' := fresh "t'" in let x' := fresh "x'" in let Hn := fresh "Hn" in let Hne := fresh "Hne" in
  let W' := fresh "W'" in let H := fresh "H" in
  intros t' x' Hn; unfold set_pc in Hn; destruct (Nat.eq_dec t t') as [<-|Hne];
  [ rewrite (nth_error_upd_eq _ _ _ _ Ex) in Hn; inv Hn; cbn; split; discriminate
  | rewrite (nth_error_upd_ne _ _ _ _ Hne) in Hn;
    pose proof (inv_wr _ _ _ I _ _ Hn) as W'; rewrite Ew in W';
    split; intros H; [apply W' in H; congruence|discriminate] ].

Lemma step_inv ths n0 s t s' :
  all_held ths -> Inv ths n0 s -> step ths s t = Some s' -> Inv ths n0 s'.
Proof.
  intros Hh I Hs. unfold step in Hs.
  destruct (nth_error ths t) as [th|] eqn:Eth; [|discriminate].
  destruct (nth_error (ts s) t) as [x|] eqn:Ex; [|discriminate].
  destruct (held_at _ _ _ Hh Eth) as (Hheld & Hsh & Hec).
  pose proof (inv_mtx _ _ _ I _ _ Ex) as Mt.
  pose proof (inv_wr _ _ _ I _ _ Ex) as Wt.
  pose proof (inv_data _ _ _ I) as D.
  pose proof (inv_lo _ _ _ I) as Lo.
  pose proof (inv_iss _ _ _ I) as Is.
  pose proof (inv_rd _ _ _ I) as Rd.
  destruct (t_pc x) eqn:Epc; simpl in Mt, Wt.
  - (* PLock *)
    destruct (mtx s) eqn:Em; [discriminate|]. rewrite Hsh in Hs. rewrite Rd in Hs at 1. simpl in Hs. inv Hs.
    constructor; cbn [ts mtx readers wr mem lastm cache disk txd issued indices]; try (wdom I Ex).
    + unfold set_pc. rewrite length_upd. apply (inv_len _ _ _ I).
    + frame t Ex.
      * split; auto.
      * pose proof (inv_mtx _ _ _ I _ _ Hn) as M'. rewrite Em in M'.
        split; intros H; [apply M' in H; discriminate|congruence].
    + exact Rd.
    + frame t Ex.
      * rewrite <- Wt. split; discriminate.
      * exact (inv_wr _ _ _ I _ _ Hn).
    + unfold data_ok in *; cbn [mtx ts]. rewrite Em in D. rewrite Eth.
      unfold set_pc. rewrite (nth_error_upd_eq _ _ _ _ Ex). cbn. exact D.
    + exact Lo.
    + exact Is.
  - (* PBegin *)
    destruct (wr s) eqn:Ew; [discriminate|]. inv Hs.
    assert (mtx s = Some t) as Em by (apply Mt; reflexivity).
    constructor; cbn [ts mtx readers wr mem lastm cache disk txd issued indices]; try (wdom I Ex).
    + unfold set_pc. rewrite length_upd. apply (inv_len _ _ _ I).
    + frame t Ex.
      * rewrite Em. split; auto.
      * exact (inv_mtx _ _ _ I _ _ Hn).
    + exact Rd.
    + frame t Ex.
      * split; auto.
      * pose proof (inv_wr _ _ _ I _ _ Hn) as W'. rewrite Ew in W'.
        split; intros H; [apply W' in H; discriminate|congruence].
    + unfold data_ok in *; cbn [mtx ts]. rewrite Em in *. rewrite Eth, Ex, Epc in D.
      rewrite Eth. unfold set_pc. rewrite (nth_error_upd_eq _ _ _ _ Ex). cbn. exact D.
    + exact Lo.
    + exact Is.
  - (* PRead *)
    assert (mtx s = Some t) as Em by (apply Mt; reflexivity).
    assert (wr s = Some t) as Ew by (apply Wt; reflexivity).
    unfold data_ok in D. rewrite Em, Eth, Ex, Epc in D. destruct D as [[Dm Dt] Dc].
    destruct (reads th) eqn:En; inv Hs;
      constructor; cbn [ts mtx readers wr mem lastm cache disk txd issued indices]; try (wdom I Ex); try exact Lo; try exact Is; try exact Rd.
    all: try (unfold set_pc; rewrite length_upd; apply (inv_len _ _ _ I)).
    all: try (rewrite length_upd; apply (inv_len _ _ _ I)).
    + same_mtx t Ex Em I.
    + same_wr t Ex Ew I.
    + unfold data_ok; cbn [mtx ts]. rewrite Em, Eth.
      rewrite (nth_error_upd_eq _ _ _ _ Ex). cbn.
      unfold idle, mem_view, cache_lt in *; cbn [mem disk txd cache]. auto.
    + same_mtx t Ex Em I.
    + same_wr t Ex Ew I.
    + unfold data_ok; cbn [mtx ts]. rewrite Em, Eth. unfold set_pc.
      rewrite (nth_error_upd_eq _ _ _ _ Ex). cbn. split; [split; assumption|]. split; [assumption|].
      intros H. congruence.
  - (* PWrite *)
    assert (mtx s = Some t) as Em by (apply Mt; reflexivity).
    assert (wr s = Some t) as Ew by (apply Wt; reflexivity).
    unfold data_ok in D. rewrite Em, Eth, Ex, Epc in D. destruct D as [[Dm Dt] [Dc Dr]].
    destruct (count_of th (t_reg x) =? 0) eqn:Ec0; [|destruct (is_ext th) eqn:Ee]; inv Hs;
      constructor; cbn [ts mtx readers wr mem lastm cache disk txd issued indices]; try (wdom I Ex); try exact Lo; try exact Is; try exact Rd.
    all: try (unfold set_pc; rewrite length_upd; apply (inv_len _ _ _ I)).
    all: try (same_mtx t Ex Em I).
    all: try (same_wr t Ex Ew I).
    + unfold data_ok; cbn [mtx ts]. rewrite Em, Eth. unfold set_pc.
      rewrite (nth_error_upd_eq _ _ _ _ Ex). cbn. rewrite Ec0. split; [split|]; assumption.
    + (* extender writes rows and memory *)
      assert (reads th = true) as Hr by (unfold reads, is_ext in *; destruct (th_ext th); congruence).
      specialize (Dr Hr).
      unfold data_ok; cbn [mtx ts]. rewrite Em, Eth. unfold set_pc.
      rewrite (nth_error_upd_eq _ _ _ _ Ex). cbn. rewrite Ec0, Ee.
      apply N.eqb_neq in Ec0.
      split; [assumption|]. split; [reflexivity|]. split; [reflexivity|].
      unfold cache_lt in *; cbn [cache]. intros i Hi. apply in_app_or in Hi. destruct Hi as [Hi|Hi].
      * specialize (Dc _ Hi). lia.
      * apply in_rangeN in Hi. lia.
    + assert (reads th = true) as Hr.
      { unfold reads, count_of, is_ext in *. destruct (th_ext th); [discriminate|].
        rewrite Ec0. reflexivity. }
      specialize (Dr Hr).
      unfold data_ok; cbn [mtx ts]. rewrite Em, Eth. unfold set_pc.
      rewrite (nth_error_upd_eq _ _ _ _ Ex). cbn. rewrite Ec0, Ee.
      unfold mem_view in *; cbn [mem disk]. auto.
  - (* PEnd *)
    assert (mtx s = Some t) as Em by (apply Mt; reflexivity).
    assert (wr s = Some t) as Ew by (apply Wt; reflexivity).
    unfold data_ok in D. rewrite Em, Eth, Ex, Epc in D. cbv zeta in D.
    unfold after_tx in Hs. rewrite Hheld in Hs.
    destruct (th_commits th) eqn:Ecm; inv Hs;
      constructor; cbn [ts mtx readers wr mem lastm cache disk txd issued indices]; try (wdom I Ex); try exact Rd.
    all: try (unfold set_pc; rewrite length_upd; apply (inv_len _ _ _ I)).
    all: try (same_mtx t Ex Em I).
    all: try (end_wr t Ex Ew I).
    + (* commit: data *)
      unfold data_ok; cbn [mtx ts]. rewrite Em, Eth. unfold set_pc.
      rewrite (nth_error_upd_eq _ _ _ _ Ex). cbn.
      destruct (count_of th (t_reg x) =? 0) eqn:Ec0.
      * destruct D as [[Dm Dt] Dc]. rewrite Dt. split; [reflexivity|]. split; [assumption|].
        unfold mem_view in *; cbn [mem disk].
        destruct (is_ext th || (th_n th =? 0)) eqn:Eb; [exact Dm|].
        apply orb_false_iff in Eb. destruct Eb as [Eb1 Eb2].
        unfold count_of, is_ext in *. destruct (th_ext th); [discriminate|]. congruence.
      * destruct D as (Dr & Dt & Dk). rewrite Dt. split; [reflexivity|].
        destruct (is_ext th) eqn:Ee.
        -- destruct Dk as [Dm Dc]. unfold cache_lt, mem_view in *; cbn [mem disk cache orb]. split; [exact Dc|]. destruct (mem s); [exact Dm|reflexivity].
        -- destruct Dk as [Dm Dc]. apply N.eqb_neq in Ec0.
           assert (count_of th (t_reg x) = th_n th) as Ecn.
           { unfold count_of, is_ext in *. destruct (th_ext th); [discriminate|reflexivity]. }
           split.
           ++ unfold cache_lt in *. cbn [cache]. intros i Hi. specialize (Dc _ Hi). lia.
           ++ cbn. destruct (th_n th =? 0) eqn:En0; [apply N.eqb_eq in En0; lia|]. rewrite Ecn. split; [reflexivity|lia].
    + destruct (count_of th (t_reg x) =? 0).
      * destruct D as [[Dm Dt] Dc]. rewrite Dt. exact Lo.
      * destruct D as (Dr & Dt & Dk). rewrite Dt. lia.
    + unfold indices in *. cbn [issued disk]. rewrite map_app, Is, map_map. cbn [snd]. rewrite map_id.
      destruct (count_of th (t_reg x) =? 0) eqn:Ec0.
      * destruct D as [[Dm Dt] Dc]. apply N.eqb_eq in Ec0. rewrite Ec0, Dt. simpl. now rewrite app_nil_r.
      * destruct D as (Dr & Dt & Dk). rewrite Dt.
        replace (t_reg x + count_of th (t_reg x) - n0) with ((disk s - n0) + count_of th (t_reg x)) by lia.
        rewrite rangeN_app. do 2 f_equal. lia.
    + (* rollback: only requests roll back *)
      assert (is_ext th = false) as Ee.
      { destruct (is_ext th); [specialize (Hec eq_refl); discriminate|reflexivity]. }
      unfold data_ok; cbn [mtx ts]. rewrite Em, Eth. unfold set_pc.
      rewrite (nth_error_upd_eq _ _ _ _ Ex). cbn.
      destruct (count_of th (t_reg x) =? 0).
      * destruct D as [[Dm Dt] Dc]. unfold idle, mem_view in *; cbn [mem disk txd]. auto.
      * destruct D as (Dr & Dt & Dk). rewrite Ee in Dk. destruct Dk as [Dm Dc].
        unfold idle, mem_view, cache_lt in *; cbn [mem disk txd cache]. auto.
    + exact Lo.
    + exact Is.
  - (* PCallback *)
    assert (mtx s = Some t) as Em by (apply Mt; reflexivity).
    unfold data_ok in D. rewrite Em, Eth, Ex, Epc in D. destruct D as (Dt & Dc & Dm).
    unfold after_tx in Hs. rewrite Hheld in Hs.
    destruct (is_ext th || (th_n th =? 0)) eqn:Eb; [|destruct Dm as [Dm Dlo]]; inv Hs;
    constructor; cbn [ts mtx readers wr mem lastm cache disk txd issued indices]; try (wdom I Ex); try exact Lo; try exact Is; try exact Rd.
    all: try (unfold set_pc; rewrite length_upd; apply (inv_len _ _ _ I)).
    all: try (same_mtx t Ex Em I).
    all: try (frame t Ex; [rewrite <- Wt; split; discriminate|exact (inv_wr _ _ _ I _ _ Hn)]).
    + unfold data_ok; cbn [mtx ts]. rewrite Em, Eth. unfold set_pc.
      rewrite (nth_error_upd_eq _ _ _ _ Ex). cbn.
      unfold idle, mem_view, cache_lt in *; cbn [mem disk txd cache]. auto.
    + apply orb_false_iff in Eb. destruct Eb as [Eb1 Eb2]. apply N.eqb_neq in Eb2.
      unfold data_ok; cbn [mtx ts]. rewrite Em, Eth. unfold set_pc.
      rewrite (nth_error_upd_eq _ _ _ _ Ex). cbn.
      unfold idle, mem_view, cache_lt in *; cbn [mem disk txd cache]. split; [auto|].
      intros i Hi. apply in_app_or in Hi. destruct Hi as [Hi|Hi]; [auto|].
      apply in_rangeN in Hi.
      lia.
  - (* PUnlock *)
    assert (mtx s = Some t) as Em by (apply Mt; reflexivity).
    unfold data_ok in D. rewrite Em, Eth, Ex, Epc in D.
    rewrite Hsh in Hs. inv Hs.
    constructor; cbn [ts mtx readers wr mem lastm cache disk txd issued indices]; try (wdom I Ex); try exact Lo; try exact Is; try exact Rd.
    + unfold set_pc. rewrite length_upd. apply (inv_len _ _ _ I).
    + frame t Ex.
      * split; discriminate.
      * pose proof (inv_mtx _ _ _ I _ _ Hn) as M'. rewrite Em in M'.
        split; intros H; [apply M' in H; congruence|discriminate].
    + frame t Ex.
      * rewrite <- Wt. split; discriminate.
      * exact (inv_wr _ _ _ I _ _ Hn).
    + exact D.
  - discriminate.
Qed.

Lemma exec_inv ths n0 sched : forall s s',
  all_held ths -> Inv ths n0 s -> exec ths s sched = Some s' -> Inv ths n0 s'.
Proof.
  induction sched as [|t rest IH]; intros s s' Hh I He; simpl in He.
  - inv He. exact I.
  - destruct (step ths s t) as [s1|] eqn:Es; [|discriminate].
    eapply IH; [exact Hh| |exact He]. eapply step_inv; eauto.
Qed.

Lemma exec_app ths s a b :
  exec ths s (a ++ b) = match exec ths s a with Some s1 => exec ths s1 b | None => None end.
Proof.
  revert s; induction a as [|t a IH]; intros s; simpl; [reflexivity|].
  destruct (step ths s t); [apply IH|reflexivity].
Qed.

(* ------------------------------------------------------------ consequences *)

Lemma inv_nodup ths n0 s : Inv ths n0 s -> NoDup (indices s).
Proof. intros I. rewrite (inv_iss _ _ _ I). apply NoDup_rangeN. Qed.

Lemma inv_count ths n0 s : Inv ths n0 s -> disk s = n0 + N.of_nat (length (issued s)).
Proof.
  intros I. pose proof (inv_iss _ _ _ I) as H. pose proof (inv_lo _ _ _ I) as L.
  apply (f_equal (@length N)) in H. unfold indices in H.
  rewrite map_length, length_rangeN in H. lia.
Qed.

Lemma terminated_all_done s : terminated s = true ->
  forall t x, nth_error (ts s) t = Some x -> t_pc x = PDone.
Proof.
  unfold terminated. rewrite forallb_forall. intros H t x Hn.
  apply nth_error_In in Hn. specialize (H _ Hn). destruct (t_pc x); try discriminate. reflexivity.
Qed.

Lemma inv_terminated_idle ths n0 s :
  Inv ths n0 s -> terminated s = true ->
  mtx s = None /\ wr s = None /\ idle s /\ cache_lt n0 s (disk s).
Proof.
  intros I T. pose proof (terminated_all_done _ T) as A.
  pose proof (inv_data _ _ _ I) as D. unfold data_ok in D.
  assert (mtx s = None) as Em.
  { destruct (mtx s) as [t|] eqn:Em; [|reflexivity].
    destruct (nth_error ths t) as [th|]; [|contradiction].
    destruct (nth_error (ts s) t) as [x|] eqn:Ex; [|contradiction].
    pose proof (inv_mtx _ _ _ I _ _ Ex) as M. rewrite (A _ _ Ex) in M. simpl in M.
    rewrite Em in M. destruct M as [_ M]. specialize (M eq_refl). discriminate. }
  rewrite Em in D. split; [assumption|]. split; [|assumption].
  destruct (wr s) as [t|] eqn:Ew; [|reflexivity].
  pose proof (inv_wdom _ _ _ I _ Ew) as L. apply nth_error_Some in L.
  destruct (nth_error (ts s) t) as [x|] eqn:Ex; [|congruence].
  pose proof (inv_wr _ _ _ I _ _ Ex) as W. rewrite (A _ _ Ex) in W. simpl in W.
  rewrite Ew in W. destruct W as [_ W]. specialize (W eq_refl). discriminate.
Qed.

(** The lock protocol cannot deadlock: while some request is unfinished,
    some thread is enabled (so every maximal schedule terminates). *)
Lemma no_deadlock ths n0 s :
  all_held ths -> Inv ths n0 s -> terminated s = false ->
  exists t s', step ths s t = Some s'.
Proof.
  intros Hh I T.
  pose proof (inv_data _ _ _ I) as D. unfold data_ok in D.
  pose proof (inv_rd _ _ _ I) as Rd.
  destruct (mtx s) as [t|] eqn:Em.
  - destruct (nth_error ths t) as [th|] eqn:Eth; [|contradiction].
    destruct (nth_error (ts s) t) as [x|] eqn:Ex; [|contradiction].
    pose proof (inv_mtx _ _ _ I _ _ Ex) as M. rewrite Em in M.
    destruct M as [_ M]. specialize (M eq_refl).
    exists t. unfold step. rewrite Eth, Ex.
    destruct (t_pc x) eqn:Epc; try discriminate; try (eexists; reflexivity).
    + (* PBegin: the writer lock is free *)
      destruct (wr s) as [t'|] eqn:Ew; [|eexists; reflexivity]. exfalso.
      pose proof (inv_wdom _ _ _ I _ Ew) as L. apply nth_error_Some in L.
      destruct (nth_error (ts s) t') as [x'|] eqn:Ex'; [|congruence].
      pose proof (inv_wr _ _ _ I _ _ Ex') as W. rewrite Ew in W.
      destruct W as [_ W]. specialize (W eq_refl).
      assert (in_cs (t_pc x') = true) as C by (destruct (t_pc x'); simpl in *; congruence).
      apply (inv_mtx _ _ _ I _ _ Ex') in C. rewrite Em in C. inv C.
      rewrite Ex in Ex'. inv Ex'. rewrite Epc in W. discriminate.
    + destruct (reads th); eexists; reflexivity.
    + destruct (count_of th (t_reg x) =? 0); [|destruct (is_ext th)]; eexists; reflexivity.
    + destruct (th_commits th); eexists; reflexivity.
    + destruct (is_ext th || (th_n th =? 0)); eexists; reflexivity.
    + destruct (th_shared th); eexists; reflexivity.
  - unfold terminated in T.
    assert (exists x, In x (ts s) /\ pc_eqb (t_pc x) PDone = false) as (x & Hin & Hx).
    { clear -T. induction (ts s) as [|y l IH]; simpl in T; [discriminate|].
      destruct (pc_eqb (t_pc y) PDone) eqn:E.
      - destruct (IH T) as (x & Hin & Hx). exists x. split; [right|]; assumption.
      - exists y. split; [left; reflexivity|assumption]. }
    apply In_nth_error in Hin. destruct Hin as [t Ex]. exists t.
    pose proof (inv_mtx _ _ _ I _ _ Ex) as M. rewrite Em in M.
    assert (t_pc x = PLock) as Epc.
    { destruct (t_pc x); simpl in *; try reflexivity; try discriminate;
        destruct M as [M _]; specialize (M eq_refl); discriminate. }
    assert (nth_error ths t <> None) as Hth.
    { apply nth_error_Some. rewrite <- (inv_len _ _ _ I). apply nth_error_Some. congruence. }
    unfold step. destruct (nth_error ths t) as [th|] eqn:Eth; [|congruence].
    destruct (held_at _ _ _ Hh Eth) as (_ & Hsh & _).
    rewrite Ex, Epc, Em, Hsh, Rd. simpl. eexists; reflexivity.
Qed.

(* ------------------------- the last address follows the next index (any locking) *)

(** Every write to the in-memory next index writes the last address with it
    (commit handler, extendAddresses, loadAccountInfo): whatever the locking
    and the schedule, the cached last address is the one below the cached
    next index. *)
Definition LastOk (s : state) : Prop := forall m, mem s = Some m -> lastm s = N.pred m.

Lemma init_lastok ths n0 c : LastOk (init ths n0 c).
Proof. intros m; simpl. destruct c; intros H; inv H. reflexivity. Qed.

Lemma step_lastok ths s t s' : LastOk s -> step ths s t = Some s' -> LastOk s'.
Proof.
  intros L Hs. unfold step in Hs.
  destruct (nth_error ths t) as [th|]; [|discriminate].
  destruct (nth_error (ts s) t) as [x|]; [|discriminate].
  destruct (t_pc x); try discriminate.
  - destruct (mtx s); [discriminate|]. destruct (th_shared th); [|destruct (no_readers (readers s)); [|discriminate]];
      inv Hs; exact L.
  - destruct (wr s); [discriminate|]. inv Hs. exact L.
  - destruct (reads th); inv Hs; [|exact L].
    intros m Hm; cbn [mem lastm] in *. inv Hm. unfold last_view, mem_view.
    destruct (mem s) as [m|] eqn:Em; [apply L; assumption|reflexivity].
  - destruct (count_of th (t_reg x) =? 0); [|destruct (is_ext th)]; inv Hs; try exact L.
    intros m Hm; cbn [mem lastm] in *. now inv Hm.
  - destruct (th_commits th); inv Hs; exact L.
  - destruct (is_ext th || (th_n th =? 0)); inv Hs; [exact L|].
    intros m Hm; cbn [mem lastm] in *. now inv Hm.
  - destruct (th_shared th); inv Hs; exact L.
Qed.

Lemma exec_lastok ths sched : forall s s', LastOk s -> exec ths s sched = Some s' -> LastOk s'.
Proof.
  induction sched as [|t rest IH]; intros s s' L He; simpl in He.
  - inv He. exact L.
  - destruct (step ths s t) as [s1|] eqn:Es; [|discriminate].
    eapply IH; [|exact He]. eapply step_lastok; eauto.
Qed.

Lemma lastok_view s : LastOk s -> last_view s = N.pred (mem_view s).
Proof.
  intros L. unfold last_view, mem_view. destruct (mem s) as [m|] eqn:E; [apply L; assumption|reflexivity].
Qed.

(** Main safety statement, for all thread tables and all schedules. *)
Theorem safe_all_schedules ths n0 cached sched s :
  all_held ths ->
  exec ths (init ths n0 cached) sched = Some s ->
  NoDup (indices s) /\
  indices s = rangeN n0 (N.of_nat (length (issued s))) /\
  (terminated s = true ->
     mem_view s = disk s /\ disk s = n0 + N.of_nat (length (issued s)) /\
     mtx s = None /\ wr s = None /\ txd s = None).
Proof.
  intros Hh He.
  assert (Inv ths n0 s) as I by (eapply exec_inv; eauto using init_inv).
  split; [eapply inv_nodup; eauto|]. split.
  - rewrite (inv_iss _ _ _ I). f_equal. rewrite (inv_count _ _ _ I). lia.
  - intros T. destruct (inv_terminated_idle _ _ _ I T) as (Em & Ew & [Dm Dt] & _).
    repeat split; auto. eapply inv_count; eauto.
Qed.

(** ... and for the other things the commit handler writes: once every
    request has returned, the cached last address of the branch is the one
    just below the committed next index (what a restarted manager derives),
    and the address cache holds no index the database does not have. *)
Theorem safe_last_and_cache ths n0 cached sched s :
  all_held ths ->
  exec ths (init ths n0 cached) sched = Some s ->
  terminated s = true ->
  last_view s = N.pred (disk s) /\
  (forall i, In i (cache s) -> n0 <= i < disk s).
Proof.
  intros Hh He T.
  assert (Inv ths n0 s) as I by (eapply exec_inv; eauto using init_inv).
  destruct (inv_terminated_idle _ _ _ I T) as (_ & _ & [Dm _] & Dc).
  split; [|exact Dc].
  rewrite lastok_view; [now rewrite Dm|].
  eapply exec_lastok; [apply init_lastok|exact He].
Qed.

(** the handed-out indices are among the consumed ones, in order *)
Lemma handed_sub ths s : forall p, In p (handed ths s) -> In p (issued s).
Proof. intros p H. unfold handed in H. apply filter_In in H. tauto. Qed.

Lemma NoDup_map_filter {A B} (f : A -> B) (g : A -> bool) l :
  NoDup (map f l) -> NoDup (map f (filter g l)).
Proof.
  induction l as [|a l IH]; simpl; intros H; [constructor|].
  inv H. destruct (g a); simpl; [constructor|]; auto.
  intros Hin. apply H2. apply in_map_iff in Hin. destruct Hin as (b & <- & Hb).
  apply filter_In in Hb. apply in_map. tauto.
Qed.

Theorem handed_nodup ths n0 cached sched s :
  all_held ths ->
  exec ths (init ths n0 cached) sched = Some s ->
  NoDup (map snd (handed ths s)).
Proof.
  intros Hh He. unfold handed. apply NoDup_map_filter.
  exact (proj1 (safe_all_schedules _ _ _ _ _ Hh He)).
Qed.

Theorem progress_all_schedules ths n0 cached sched s :
  all_held ths ->
  exec ths (init ths n0 cached) sched = Some s ->
  terminated s = false -> exists t s', step ths s t = Some s'.
Proof.
  intros Hh He. eapply no_deadlock; eauto. eapply exec_inv; eauto using init_inv.
Qed.

(** Threads whose call sites come from a table of sites that all hold the
    mutex exclusively around the whole transaction.  [held st = true] means
    exactly that; a thread made through such a site takes the mutex, and not
    just for reading. *)
Definition via_site {S} (held : S -> bool) (st : S) (th : thread) : Prop :=
  held st = true -> th_held th = true /\ th_shared th = false.

Lemma all_held_from_table {S} (tbl : list S) (held : S -> bool) ths :
  forallb held tbl = true ->
  Forall (fun th => (exists st, In st tbl /\ via_site held st th) /\
                    (is_ext th = true -> th_commits th = true)) ths ->
  all_held ths.
Proof.
  intros Ht Hf. rewrite forallb_forall in Ht. unfold all_held.
  eapply Forall_impl; [|exact Hf]. intros th [(st & Hin & Hv) Hc].
  destruct (Hv (Ht _ Hin)) as [H1 H2]. repeat split; assumption.
Qed.

(* ----------------------------------------- the hypothesis is necessary *)

Definition unheld1 : thread := request false false 1 true.
Definition held1 : thread := request true false 1 true.
(** a site that takes the mutex for READING only (RLock) *)
Definition shared1 : thread := request true true 1 true.

(** A commits, B's whole request runs before A's commit handler. *)
Definition witness_two_unheld : list nat := [0; 0; 0; 0; 1; 1; 1; 1]%nat.
(** one site without the mutex is enough: the holder's handler is pending
    when the other request reads the stale index *)
Definition witness_held_then_unheld : list nat := [0; 0; 0; 0; 0; 1; 1; 1; 1]%nat.
Definition witness_unheld_then_held : list nat := [0; 0; 0; 0; 1; 1; 1; 1; 1]%nat.
(** two read locks do not exclude each other: same window *)
Definition witness_two_shared : list nat := [0; 0; 0; 0; 0; 1; 1; 1; 1; 1]%nat.
(** a read-locked request parked after its commit, then an exclusive one: it blocks *)
Definition witness_shared_then_held : list nat := [0; 0; 0; 0; 0; 1]%nat.

Lemma dup_not_NoDup (l : list N) : has_dup l = true -> ~ NoDup l.
Proof.
  intros H Hn. apply has_dup_false_NoDup in Hn. congruence.
Qed.

Definition run_indices (ths : list thread) (n0 : N) (cached : bool) (sched : list nat)
  : option (list N) :=
  match exec ths (init ths n0 cached) sched with Some s => Some (indices s) | None => None end.

Theorem unsafe_two_unheld n0 cached :
  run_indices [unheld1; unheld1] n0 cached witness_two_unheld = Some [n0; n0].
Proof. destruct cached, n0; vm_compute; reflexivity. Qed.

Theorem unsafe_held_then_unheld n0 cached :
  run_indices [held1; unheld1] n0 cached witness_held_then_unheld = Some [n0; n0].
Proof. destruct cached, n0; vm_compute; reflexivity. Qed.

Theorem unsafe_unheld_then_held n0 cached :
  run_indices [unheld1; held1] n0 cached witness_unheld_then_held = Some [n0; n0].
Proof. destruct cached, n0; vm_compute; reflexivity. Qed.

Theorem unsafe_two_shared n0 cached :
  run_indices [shared1; shared1] n0 cached witness_two_shared = Some [n0; n0].
Proof. destruct cached, n0; vm_compute; reflexivity. Qed.

Lemma two_equal_not_NoDup (a : N) : ~ NoDup [a; a].
Proof. intros H. inv H. apply H2. left. reflexivity. Qed.

Lemma run_indices_dup ths n0 cached sched a :
  run_indices ths n0 cached sched = Some [a; a] ->
  exists s, exec ths (init ths n0 cached) sched = Some s /\ ~ NoDup (indices s).
Proof.
  unfold run_indices. intros H.
  destruct (exec ths (init ths n0 cached) sched) as [s|]; [|discriminate].
  exists s. split; [reflexivity|]. inv H. rewrite H1. apply two_equal_not_NoDup.
Qed.

(** In the form used by the property file: a reachable state with a duplicate. *)
Theorem unsafe_without_mutex n0 cached :
  exists sched s,
    exec [unheld1; unheld1] (init [unheld1; unheld1] n0 cached) sched = Some s /\
    ~ NoDup (indices s).
Proof.
  exists witness_two_unheld.
  exact (run_indices_dup _ _ _ _ _ (unsafe_two_unheld n0 cached)).
Qed.

Theorem unsafe_one_site_without_mutex n0 cached :
  (exists sched s,
    exec [held1; unheld1] (init [held1; unheld1] n0 cached) sched = Some s /\
    ~ NoDup (indices s)) /\
  (exists sched s,
    exec [unheld1; held1] (init [unheld1; held1] n0 cached) sched = Some s /\
    ~ NoDup (indices s)).
Proof.
  split.
  - exists witness_held_then_unheld.
    exact (run_indices_dup _ _ _ _ _ (unsafe_held_then_unheld n0 cached)).
  - exists witness_unheld_then_held.
    exact (run_indices_dup _ _ _ _ _ (unsafe_unheld_then_held n0 cached)).
Qed.

(** A read lock is not enough: two requests through a site that takes the
    mutex with RLock hand out the same index. *)
Theorem unsafe_with_read_lock n0 cached :
  exists sched s,
    exec [shared1; shared1] (init [shared1; shared1] n0 cached) sched = Some s /\
    ~ NoDup (indices s).
Proof.
  exists witness_two_shared.
  exact (run_indices_dup _ _ _ _ _ (unsafe_two_shared n0 cached)).
Qed.

(** Recovery without the mutex.  Request 0 (mutex held) commits index n0 and
    is between its commit and its commit handler; recovery (thread 1, no
    mutex) reads the stale in-memory index n0, extends the branch through
    n0+3 (rows, database next index n0+4, memory next index n0+4) and
    commits; then request 0's stale handler puts the in-memory index back to
    n0+1.  Memory and database now disagree; the next request (thread 2, mutex
    held) is handed n0+1 - an index recovery had extended through - and its
    row write moves the DATABASE's next index back to n0+2. *)
Definition by_thread (s : state) (t : nat) : list N :=
  map snd (filter (fun p => Nat.eqb (fst p) t) (issued s)).

Definition recovery_threads (n0 : N) : list thread := [held1; extender false (n0 + 3); held1].
Definition witness_recovery : list nat :=
  [0; 0; 0; 0; 0;  1; 1; 1; 1; 1;  0; 0;  2; 2; 2; 2; 2; 2; 2]%nat.

(** computed for a concrete start index (the arithmetic on a symbolic start
    index does not reduce; any instance is a witness) *)
Lemma recovery_final cached :
  match exec (recovery_threads 5) (init (recovery_threads 5) 5 cached) witness_recovery with
  | Some s => terminated s = true /\
    by_thread s 1 = [5; 6; 7; 8] /\ by_thread s 2 = [6] /\
    map snd (handed (recovery_threads 5) s) = [5; 6] /\
    indices s = [5; 5; 6; 7; 8; 6] /\ disk s = 7 /\ mem_view s = 7
  | None => False
  end.
Proof. destruct cached; vm_compute; repeat split; reflexivity. Qed.

(** ... and right after the stale handler ran (before the third request),
    memory says 6 while the database says 9 *)
Lemma recovery_midway cached :
  match exec (recovery_threads 5) (init (recovery_threads 5) 5 cached)
             [0; 0; 0; 0; 0;  1; 1; 1; 1; 1;  0; 0]%nat with
  | Some s => mem_view s = 6 /\ disk s = 9
  | None => False
  end.
Proof. destruct cached; vm_compute; split; reflexivity. Qed.

(** the same three threads when recovery holds the mutex: the witness schedule
    is not executable (recovery blocks until the handler ran) *)
Lemma recovery_held_blocks cached :
  exec [held1; extender true 8; held1] (init [held1; extender true 8; held1] 5 cached)
       [0; 0; 0; 0; 0; 1]%nat = None.
Proof. destruct cached; vm_compute; reflexivity. Qed.

(** In the form used by the property file: the schedule terminates; recovery
    (thread 1) extended the branch through 5..8; the request made afterwards
    (thread 2) was handed 6, one of those; the consumed indices have a
    duplicate; and the database's next index is 7, below recovery's 9. *)
Theorem unsafe_recovery_without_mutex cached :
  exists sched s,
    let ths := recovery_threads 5 in
    exec ths (init ths 5 cached) sched = Some s /\ terminated s = true /\
    by_thread s 1 = [5; 6; 7; 8] /\ by_thread s 2 = [6] /\
    map snd (handed ths s) = [5; 6] /\
    ~ NoDup (indices s) /\ disk s = 7.
Proof.
  pose proof (recovery_final cached) as H.
  exists witness_recovery.
  destruct (exec (recovery_threads 5) (init (recovery_threads 5) 5 cached) witness_recovery) as [s|] eqn:E;
    [|contradiction].
  exists s. cbv zeta. split; [exact E|].
  destruct H as (Ht & H1 & H2 & Hh & Hi & Hd & _).
  repeat (split; [assumption|]). split; [|assumption].
  rewrite Hi. intros N1. inv N1. apply H3. simpl. tauto.
Qed.

(* ------------------------------------------- what each request obtained *)

(** The indices handed to request [t]. *)
Definition obtained (s : state) (t : nat) : list N := by_thread s t.

Definition after_commit (p : pc) : bool :=
  match p with PCallback | PUnlock | PDone => true | _ => false end.

(** Whatever the locking: a request has obtained nothing before its commit,
    and exactly the consecutive indices from the value it read once its
    transaction committed ([th_n] of them; for recovery: through its target);
    a rolled back request never obtains anything. *)
Definition Obt (ths : list thread) (s : state) : Prop :=
  forall t th x, nth_error ths t = Some th -> nth_error (ts s) t = Some x ->
    obtained s t = if th_commits th && after_commit (t_pc x)
                   then rangeN (t_reg x) (count_of th (t_reg x)) else [].

Lemma obtained_app_other (t t' : nat) (l : list N) :
  t <> t' -> map snd (filter (fun p => Nat.eqb (fst p) t') (map (fun i : N => (t, i)) l)) = [].
Proof.
  intros Hne. induction l as [|i l IH]; simpl; [reflexivity|].
  destruct (Nat.eqb_spec t t'); [contradiction|]. exact IH.
Qed.

Lemma obtained_app_self t (l : list N) :
  map snd (filter (fun p => Nat.eqb (fst p) t) (map (fun i : N => (t, i)) l)) = l.
Proof.
  induction l as [|i l IH]; simpl; [reflexivity|].
  rewrite Nat.eqb_refl. simpl. now rewrite IH.
Qed.

Lemma init_obt ths n0 c : Obt ths (init ths n0 c).
Proof.
  intros t th x Eth Ex. unfold obtained, by_thread; simpl. simpl in Ex.
  rewrite nth_error_map, Eth in Ex. inv Ex. simpl.
  unfold first_pc. destruct (th_held th); simpl; now rewrite andb_false_r.
Qed.

Lemma step_obt ths s t s' : Obt ths s -> step ths s t = Some s' -> Obt ths s'.
Proof.
  intros O Hs. unfold step in Hs.
  destruct (nth_error ths t) as [th|] eqn:Eth; [|discriminate].
  destruct (nth_error (ts s) t) as [x|] eqn:Ex; [|discriminate].
  pose proof (O _ _ _ Eth Ex) as Ot.
  (* every case: split on "is it the stepping thread" *)
  assert (forall p r iss,
            ts s' = upd (ts s) t {| t_pc := p; t_reg := r |} ->
            issued s' = iss ->
            (forall t' th' x', t <> t' -> nth_error ths t' = Some th' -> nth_error (ts s) t' = Some x' ->
               map snd (filter (fun q => Nat.eqb (fst q) t') iss) =
               if th_commits th' && after_commit (t_pc x') then rangeN (t_reg x') (count_of th' (t_reg x')) else []) ->
            map snd (filter (fun q => Nat.eqb (fst q) t) iss) =
              (if th_commits th && after_commit p then rangeN r (count_of th r) else []) ->
            Obt ths s') as K.
  { intros p r iss Hts His Hother Hself t' th' x' Eth' Ex'. unfold obtained, by_thread. rewrite His.
    rewrite Hts in Ex'. destruct (Nat.eq_dec t t') as [<-|Hne].
    - rewrite (nth_error_upd_eq _ _ _ _ Ex) in Ex'. inv Ex'. rewrite Eth in Eth'. inv Eth'. exact Hself.
    - rewrite (nth_error_upd_ne _ _ _ _ Hne) in Ex'. eapply Hother; eauto. }
  assert (forall t' th' x', nth_error ths t' = Some th' -> nth_error (ts s) t' = Some x' ->
             map snd (filter (fun q => Nat.eqb (fst q) t') (issued s)) =
             if th_commits th' && after_commit (t_pc x') then rangeN (t_reg x') (count_of th' (t_reg x')) else []) as O'.
  { intros t' th' x' A B. exact (O _ _ _ A B). }
  unfold obtained, by_thread in Ot.
  destruct (t_pc x) eqn:Epc; simpl in Ot; rewrite ?andb_false_r, ?andb_true_r in Ot.
  - destruct (mtx s); [discriminate|].
    destruct (th_shared th); [|destruct (no_readers (readers s)); [|discriminate]]; inv Hs;
      (eapply K; [reflexivity|reflexivity|intros; eapply O'; eauto|]); simpl; now rewrite andb_false_r.
  - destruct (wr s); [discriminate|]. inv Hs.
    eapply K; [reflexivity|reflexivity|intros; eapply O'; eauto|]. simpl. now rewrite andb_false_r.
  - destruct (reads th); inv Hs;
      (eapply K; [reflexivity|reflexivity|intros; eapply O'; eauto|]); simpl; now rewrite andb_false_r.
  - destruct (count_of th (t_reg x) =? 0); [|destruct (is_ext th)]; inv Hs;
      (eapply K; [reflexivity|reflexivity|intros; eapply O'; eauto|]); simpl; now rewrite andb_false_r.
  - destruct (th_commits th) eqn:Ec; inv Hs.
    + eapply K; [reflexivity|reflexivity| |].
      * intros t' th' x' Hne A B. cbn [issued]. rewrite filter_app, map_app.
        rewrite (obtained_app_other t t' _ Hne), app_nil_r. eapply O'; eauto.
      * cbn [issued]. rewrite filter_app, map_app, Ot, obtained_app_self. reflexivity.
    + eapply K; [reflexivity|reflexivity|intros; eapply O'; eauto|]. simpl. exact Ot.
  - destruct (is_ext th || (th_n th =? 0)); inv Hs;
      (eapply K; [reflexivity|reflexivity|intros; eapply O'; eauto|]);
      simpl in *; rewrite Ot; unfold after_tx; destruct (th_held th), (th_commits th); reflexivity.
  - destruct (th_shared th); inv Hs;
      (eapply K; [reflexivity|reflexivity|intros; eapply O'; eauto|]); simpl in *;
      rewrite Ot; destruct (th_commits th); reflexivity.
  - discriminate.
Qed.

Lemma exec_obt ths sched : forall s s', Obt ths s -> exec ths s sched = Some s' -> Obt ths s'.
Proof.
  induction sched as [|t rest IH]; intros s s' O He; simpl in He.
  - inv He. exact O.
  - destruct (step ths s t) as [s1|] eqn:Es; [|discriminate].
    eapply IH; [|exact He]. eapply step_obt; eauto.
Qed.

Lemma step_length ths s t s' : step ths s t = Some s' -> length (ts s') = length (ts s).
Proof.
  unfold step. intros Es. destruct (nth_error ths t); [|discriminate].
  destruct (nth_error (ts s) t) as [x|]; [|discriminate].
  destruct (t_pc x); try discriminate;
    repeat match type of Es with
           | context [match ?c with _ => _ end] => destruct c; try discriminate
           | context [if ?c then _ else _] => destruct c; try discriminate
           end; inv Es; simpl; unfold set_pc; now rewrite length_upd.
Qed.

Lemma exec_length ths sched : forall s s',
  exec ths s sched = Some s' -> length (ts s') = length (ts s).
Proof.
  induction sched as [|t rest IH]; intros s s' He; simpl in He.
  - now inv He.
  - destruct (step ths s t) as [s1|] eqn:Es; [|discriminate].
    rewrite (IH _ _ He). eapply step_length; eauto.
Qed.

(** For every locking discipline and every schedule: when all requests have
    returned, each request whose transaction committed holds exactly [th_n]
    consecutive indices (recovery: the indices from the one it read through
    its target), and a rolled back one holds none. *)
Theorem each_request_obtains ths n0 cached sched s :
  exec ths (init ths n0 cached) sched = Some s -> terminated s = true ->
  forall t th, nth_error ths t = Some th ->
    (th_commits th = true -> exists r, obtained s t = rangeN r (count_of th r)) /\
    (th_commits th = false -> obtained s t = []).
Proof.
  intros He T t th Eth.
  assert (Obt ths s) as O by (eapply exec_obt; eauto using init_obt).
  assert (length (ts s) = length ths) as L.
  { rewrite (exec_length _ _ _ _ He). apply map_length. }
  assert (exists x, nth_error (ts s) t = Some x) as [x Ex].
  { destruct (nth_error (ts s) t) eqn:E; [eauto|]. exfalso.
    apply nth_error_None in E. assert (nth_error ths t <> None) as H by congruence.
    apply nth_error_Some in H. lia. }
  pose proof (O _ _ _ Eth Ex) as Ot. rewrite (terminated_all_done _ T _ _ Ex) in Ot. simpl in Ot.
  split; intros Hc; rewrite Hc in Ot; simpl in Ot; eauto.
Qed.

(* ------------------------------------ the address cache covers what was obtained *)

(** Whatever the locking: the address cache covers what was handed out.  A
    request whose commit handler has run (it is past PCallback) and a recovery
    that has written its rows have put every index they derived into the
    address cache. *)
Definition covered (th : thread) (x : tstate) : bool :=
  if is_ext th then match t_pc x with PEnd | PCallback | PUnlock | PDone => true | _ => false end
  else th_commits th && match t_pc x with PUnlock | PDone => true | _ => false end.

Definition Cov (ths : list thread) (s : state) : Prop :=
  forall t th x, nth_error ths t = Some th -> nth_error (ts s) t = Some x ->
    covered th x = true -> incl (rangeN (t_reg x) (count_of th (t_reg x))) (cache s).

Lemma init_cov ths n0 c : Cov ths (init ths n0 c).
Proof.
  intros t th x Eth Ex Hc. simpl in Ex. rewrite nth_error_map, Eth in Ex. inv Ex.
  unfold covered in Hc. simpl in Hc. unfold first_pc in Hc.
  destruct (is_ext th), (th_held th), (th_commits th); discriminate.
Qed.

Lemma step_cov ths s t s' : Cov ths s -> step ths s t = Some s' -> Cov ths s'.
Proof.
  intros C Hs. unfold step in Hs.
  destruct (nth_error ths t) as [th|] eqn:Eth; [|discriminate].
  destruct (nth_error (ts s) t) as [x|] eqn:Ex; [|discriminate].
  (* generic: the cache only grows, only thread t changes *)
  assert (forall p r extra,
            ts s' = upd (ts s) t {| t_pc := p; t_reg := r |} ->
            cache s' = cache s ++ extra ->
            (covered th {| t_pc := p; t_reg := r |} = true ->
               incl (rangeN r (count_of th r)) (cache s ++ extra)) ->
            Cov ths s') as K.
  { intros p r extra Hts Hca Hself t' th' x' Eth' Ex' Hc. rewrite Hca. rewrite Hts in Ex'.
    destruct (Nat.eq_dec t t') as [<-|Hne].
    - rewrite (nth_error_upd_eq _ _ _ _ Ex) in Ex'. inv Ex'. rewrite Eth in Eth'. inv Eth'. auto.
    - rewrite (nth_error_upd_ne _ _ _ _ Hne) in Ex'.
      intros i Hi. apply in_or_app. left. exact (C _ _ _ Eth' Ex' Hc i Hi). }
  pose proof (C _ _ _ Eth Ex) as Ct.
  destruct (t_pc x) eqn:Epc.
  - destruct (mtx s); [discriminate|].
    destruct (th_shared th); [|destruct (no_readers (readers s)); [|discriminate]]; inv Hs;
      (eapply (K PBegin (t_reg x) []); [reflexivity|simpl; now rewrite app_nil_r|]);
      unfold covered; simpl; destruct (is_ext th), (th_commits th); discriminate.
  - destruct (wr s); [discriminate|]. inv Hs.
    eapply (K PRead (t_reg x) []); [reflexivity|simpl; now rewrite app_nil_r|].
    unfold covered; simpl; destruct (is_ext th), (th_commits th); discriminate.
  - destruct (reads th); inv Hs.
    + eapply (K PWrite (mem_view s) []); [reflexivity|simpl; now rewrite app_nil_r|].
      unfold covered; simpl; destruct (is_ext th), (th_commits th); discriminate.
    + eapply (K PWrite (t_reg x) []); [reflexivity|simpl; now rewrite app_nil_r|].
      unfold covered; simpl; destruct (is_ext th), (th_commits th); discriminate.
  - destruct (count_of th (t_reg x) =? 0) eqn:Ec0; [|destruct (is_ext th) eqn:Ee]; inv Hs.
    + eapply (K PEnd (t_reg x) []); [reflexivity|simpl; now rewrite app_nil_r|].
      intros _. apply N.eqb_eq in Ec0. rewrite Ec0. intros i [].
    + eapply (K PEnd (t_reg x) (rangeN (t_reg x) (count_of th (t_reg x)))); [reflexivity|reflexivity|].
      intros _ i Hi. apply in_or_app. now right.
    + eapply (K PEnd (t_reg x) []); [reflexivity|simpl; now rewrite app_nil_r|].
      unfold covered. rewrite Ee. simpl. rewrite andb_false_r. discriminate.
  - destruct (th_commits th) eqn:Ecm; inv Hs.
    + eapply (K PCallback (t_reg x) []); [reflexivity|simpl; now rewrite app_nil_r|].
      unfold covered in *. rewrite Epc in Ct. simpl in *. destruct (is_ext th).
      * intros _ i Hi. rewrite app_nil_r. exact (Ct eq_refl i Hi).
      * rewrite andb_false_r. discriminate.
    + eapply (K (after_tx th) (t_reg x) []); [reflexivity|simpl; now rewrite app_nil_r|].
      unfold covered in *. rewrite Epc in Ct. simpl in *. destruct (is_ext th).
      * intros _ i Hi. rewrite app_nil_r. exact (Ct eq_refl i Hi).
      * rewrite Ecm. discriminate.
  - destruct (is_ext th || (th_n th =? 0)) eqn:Eb; inv Hs.
    + eapply (K (after_tx th) (t_reg x) []); [reflexivity|simpl; now rewrite app_nil_r|].
      intros _. rewrite app_nil_r. unfold covered in Ct. rewrite Epc in Ct.
      destruct (is_ext th) eqn:Ee; [exact (Ct eq_refl)|].
      simpl in Eb. apply N.eqb_eq in Eb. unfold count_of, is_ext in *.
      destruct (th_ext th); [discriminate|]. rewrite Eb. intros i [].
    + apply orb_false_iff in Eb. destruct Eb as [Ee En].
      eapply (K (after_tx th) (t_reg x) (rangeN (t_reg x) (th_n th))); [reflexivity|reflexivity|].
      intros _ i Hi. apply in_or_app. right.
      unfold count_of, is_ext in *. destruct (th_ext th); [discriminate|exact Hi].
  - assert (covered th {| t_pc := PDone; t_reg := t_reg x |} = true ->
            incl (rangeN (t_reg x) (count_of th (t_reg x))) (cache s ++ [])) as Hd.
    { intros Hc. rewrite app_nil_r. apply Ct. unfold covered in *. rewrite Epc. simpl in *.
      destruct (is_ext th); [reflexivity|exact Hc]. }
    destruct (th_shared th); inv Hs;
      (eapply (K PDone (t_reg x) []); [reflexivity|simpl; now rewrite app_nil_r|exact Hd]).
  - discriminate.
Qed.

Lemma exec_cov ths sched : forall s s', Cov ths s -> exec ths s sched = Some s' -> Cov ths s'.
Proof.
  induction sched as [|t rest IH]; intros s s' C He; simpl in He.
  - inv He. exact C.
  - destruct (step ths s t) as [s1|] eqn:Es; [|discriminate].
    eapply IH; [|exact He]. eapply step_cov; eauto.
Qed.

(** For every locking discipline and every schedule: when all requests have
    returned, every index a committed transaction obtained is in the address
    cache. *)
Theorem cache_covers_obtained ths n0 cached sched s :
  exec ths (init ths n0 cached) sched = Some s -> terminated s = true ->
  forall t th, nth_error ths t = Some th -> th_commits th = true ->
    incl (obtained s t) (cache s).
Proof.
  intros He T t th Eth Hc.
  assert (Obt ths s) as O by (eapply exec_obt; eauto using init_obt).
  assert (Cov ths s) as C by (eapply exec_cov; eauto using init_cov).
  assert (length (ts s) = length ths) as L.
  { rewrite (exec_length _ _ _ _ He). apply map_length. }
  assert (exists x, nth_error (ts s) t = Some x) as [x Ex].
  { destruct (nth_error (ts s) t) eqn:E; [eauto|]. exfalso.
    apply nth_error_None in E. assert (nth_error ths t <> None) as H by congruence.
    apply nth_error_Some in H. lia. }
  pose proof (O _ _ _ Eth Ex) as Ot. pose proof (terminated_all_done _ T _ _ Ex) as Ed.
  rewrite Ed, Hc in Ot. simpl in Ot. rewrite Ot.
  apply (C _ _ _ Eth Ex). unfold covered. rewrite Ed, Hc. destruct (is_ext th); reflexivity.
Qed.
