(** C09 - proofs about the interleaving model Addr/Conc.v. *)
From Verif Require Import Base.Prelude Addr.Conc.
Local Open Scope N_scope.

(* ------------------------------------------------------------------ lists *)

Lemma length_upd {A} (l : list A) i x : length (upd l i x) = length l.
Proof. revert i; induction l as [|y l IH]; intros [|i]; simpl; auto. Qed.

Lemma nth_error_upd_eq {A} (l : list A) i x y :
  nth_error l i = Some y -> nth_error (upd l i x) i = Some x.
Proof.
  revert i; induction l as [|z l IH]; intros [|i]; simpl; intros H; try discriminate; auto.
Qed.

Lemma nth_error_upd_ne {A} (l : list A) i j x :
  i <> j -> nth_error (upd l i x) j = nth_error l j.
Proof.
  revert i j; induction l as [|z l IH]; intros [|i] [|j] H; simpl; auto; try congruence.
Qed.

Lemma rangeN_0 a : rangeN a 0 = [].
Proof. reflexivity. Qed.

Lemma seq_shift_map (f : nat -> N) s k n :
  map f (seq (s + k) n) = map (fun i => f (i + k)%nat) (seq s n).
Proof.
  revert s; induction n as [|n IH]; intros s; simpl; [reflexivity|].
  f_equal. exact (IH (S s)).
Qed.

Lemma rangeN_app a n m : rangeN a (n + m) = rangeN a n ++ rangeN (a + n) m.
Proof.
  unfold rangeN. rewrite N2Nat.inj_add, seq_app, map_app. f_equal.
  rewrite Nat.add_0_l.
  change (N.to_nat n) with (0 + N.to_nat n)%nat at 1.
  rewrite seq_shift_map. apply map_ext. intros k. lia.
Qed.

Lemma in_rangeN a n x : In x (rangeN a n) <-> a <= x < a + n.
Proof.
  unfold rangeN. rewrite in_map_iff. split.
  - intros (k & <- & Hk). apply in_seq in Hk. lia.
  - intros H. exists (N.to_nat (x - a)). split; [lia|]. apply in_seq. lia.
Qed.

Lemma length_rangeN a n : length (rangeN a n) = N.to_nat n.
Proof. unfold rangeN. now rewrite map_length, seq_length. Qed.

Lemma NoDup_rangeN a n : NoDup (rangeN a n).
Proof.
  unfold rangeN. apply FinFun.Injective_map_NoDup; [|apply seq_NoDup].
  intros i j H. lia.
Qed.

Lemma has_dup_false_NoDup l : has_dup l = false <-> NoDup l.
Proof.
  induction l as [|x l IH]; simpl.
  - split; [constructor|reflexivity].
  - rewrite orb_false_iff, IH. split.
    + intros [He Hn]. constructor; [|assumption]. intros Hin.
      assert (existsb (N.eqb x) l = true) as C; [|congruence].
      apply existsb_exists. exists x. split; [assumption|apply N.eqb_refl].
    + intros Hnd. inv Hnd. split; [|assumption].
      destruct (existsb (N.eqb x) l) eqn:E; [|reflexivity].
      apply existsb_exists in E. destruct E as (y & Hy & Heq).
      apply N.eqb_eq in Heq. subst. contradiction.
Qed.

(* -------------------------------------------------------------- invariant *)

Definition in_cs (p : pc) : bool := match p with PLock | PDone => false | _ => true end.
Definition in_tx (p : pc) : bool := match p with PRead | PWrite | PEnd => true | _ => false end.

Definition idle (s : state) : Prop := mem_view s = disk s /\ txd s = None.

(** What the shared counters look like, by the position of the mutex owner. *)
Definition data_ok (ths : list thread) (s : state) : Prop :=
  match mtx s with
  | None => idle s
  | Some t =>
    match nth_error ths t, nth_error (ts s) t with
    | Some th, Some x =>
      match t_pc x with
      | PWrite => idle s /\ (th_n th <> 0 -> t_reg x = disk s)
      | PEnd => mem_view s = disk s /\
                (if th_n th =? 0 then txd s = None
                 else t_reg x = disk s /\ txd s = Some (t_reg x + th_n th))
      | PCallback => txd s = None /\
                (if th_n th =? 0 then mem_view s = disk s else disk s = t_reg x + th_n th)
      | _ => idle s
      end
    | _, _ => False
    end
  end.

Record Inv (ths : list thread) (n0 : N) (s : state) : Prop := {
  inv_len : length (ts s) = length ths;
  inv_mtx : forall t x, nth_error (ts s) t = Some x ->
            (in_cs (t_pc x) = true <-> mtx s = Some t);
  inv_wr : forall t x, nth_error (ts s) t = Some x ->
            (in_tx (t_pc x) = true <-> wr s = Some t);
  inv_data : data_ok ths s;
  inv_lo : n0 <= disk s;
  inv_iss : indices s = rangeN n0 (disk s - n0);
  inv_wdom : forall t, wr s = Some t -> (t < length (ts s))%nat
}.

Definition all_held (ths : list thread) : Prop := Forall (fun th => th_held th = true) ths.

Lemma init_inv ths n0 c : all_held ths -> Inv ths n0 (init ths n0 c).
Proof.
  intros Hh. constructor; simpl.
  - apply map_length.
  - intros t x H. rewrite nth_error_map in H.
    destruct (nth_error ths t) as [th|] eqn:E; [|discriminate]. inv H. simpl.
    apply nth_error_In in E. unfold all_held in Hh. rewrite Forall_forall in Hh.
    unfold first_pc. rewrite (Hh _ E). simpl. split; discriminate.
  - intros t x H. rewrite nth_error_map in H.
    destruct (nth_error ths t) as [th|] eqn:E; [|discriminate]. inv H. simpl.
    unfold first_pc. destruct (th_held th); simpl; split; discriminate.
  - unfold data_ok, idle, mem_view; simpl. destruct c; auto.
  - lia.
  - unfold indices; simpl. now rewrite N.sub_diag.
  - discriminate.
Qed.

Lemma held_at ths t th : all_held ths -> nth_error ths t = Some th -> th_held th = true.
Proof.
  intros Hh E. apply nth_error_In in E. unfold all_held in Hh.
  rewrite Forall_forall in Hh. auto.
Qed.

(** frame reasoning for the per-thread clauses: split on "is it the stepping
    thread" and rewrite the lookup in the updated thread list *)
Ltac frame t Hx :=
  let t' := fresh "t'" in let x' := fresh "x'" in let Hn := fresh "Hn" in
  let Hne := fresh "Hne" in
  intros t' x' Hn; cbn [ts mtx wr set_pc] in *; unfold set_pc in Hn;
  destruct (Nat.eq_dec t t') as [<-|Hne];
  [ rewrite (nth_error_upd_eq _ _ _ _ Hx) in Hn; inv Hn; cbn [t_pc t_reg]
  | rewrite (nth_error_upd_ne _ _ _ _ Hne) in Hn ].

Ltac wdom I Ex :=
  match goal with
  | |- forall t', _ = Some t' -> (_ < _)%nat =>
    let t' := fresh "t'" in let H := fresh "H" in
    intros t' H; unfold set_pc; rewrite length_upd;
    first [ exact (inv_wdom _ _ _ I _ H)
          | discriminate
          | (inv H; apply nth_error_Some; congruence) ]
  end.

Lemma step_inv ths n0 s t s' :
  all_held ths -> Inv ths n0 s -> step ths s t = Some s' -> Inv ths n0 s'.
Proof.
  intros Hh I Hs. unfold step in Hs.
  destruct (nth_error ths t) as [th|] eqn:Eth; [|discriminate].
  destruct (nth_error (ts s) t) as [x|] eqn:Ex; [|discriminate].
  pose proof (held_at _ _ _ Hh Eth) as Hheld.
  pose proof (inv_mtx _ _ _ I _ _ Ex) as Mt.
  pose proof (inv_wr _ _ _ I _ _ Ex) as Wt.
  pose proof (inv_data _ _ _ I) as D.
  pose proof (inv_lo _ _ _ I) as Lo.
  pose proof (inv_iss _ _ _ I) as Is.
  assert (forall t' x', nth_error (ts s) t' = Some x' -> t <> t' ->
            in_cs (t_pc x') = true -> mtx s = Some t -> False) as Excl.
  { intros t' x' Hn Hne Hc Hm. apply (inv_mtx _ _ _ I _ _ Hn) in Hc. congruence. }
  destruct (t_pc x) eqn:Epc; simpl in Mt, Wt.
  - (* PLock *)
    destruct (mtx s) eqn:Em; [discriminate|]. inv Hs.
    constructor; cbn [ts mtx wr mem disk txd issued indices]; try (wdom I Ex).
    + unfold set_pc. rewrite length_upd. apply (inv_len _ _ _ I).
    + frame t Ex.
      * split; auto.
      * pose proof (inv_mtx _ _ _ I _ _ Hn) as M'. rewrite Em in M'.
        split; intros H; [apply M' in H; discriminate|congruence].
    + frame t Ex.
      * rewrite <- Wt. split; discriminate.
      * exact (inv_wr _ _ _ I _ _ Hn).
    + unfold data_ok in *; cbn [mtx ts]. rewrite Em in D. rewrite Eth.
      unfold set_pc. rewrite (nth_error_upd_eq _ _ _ _ Ex). cbn. exact D.
    + exact Lo.
    + exact Is.
  - (* PBegin *)
    destruct (wr s) eqn:Ew; [discriminate|]. inv Hs.
    assert (mtx s = Some t) as Em by (apply Mt; reflexivity).
    constructor; cbn [ts mtx wr mem disk txd issued indices]; try (wdom I Ex).
    + unfold set_pc. rewrite length_upd. apply (inv_len _ _ _ I).
    + frame t Ex.
      * rewrite Em. split; auto.
      * exact (inv_mtx _ _ _ I _ _ Hn).
    + frame t Ex.
      * split; auto.
      * pose proof (inv_wr _ _ _ I _ _ Hn) as W'. rewrite Ew in W'.
        split; intros H; [apply W' in H; discriminate|congruence].
    + unfold data_ok in *; cbn [mtx ts]. rewrite Em in *. rewrite Eth, Ex, Epc in D.
      rewrite Eth. unfold set_pc. rewrite (nth_error_upd_eq _ _ _ _ Ex). cbn. exact D.
    + exact Lo.
    + exact Is.
  - (* PRead *)
    assert (mtx s = Some t) as Em by (apply Mt; reflexivity).
    assert (wr s = Some t) as Ew by (apply Wt; reflexivity).
    unfold data_ok in D. rewrite Em, Eth, Ex, Epc in D. destruct D as [Dm Dt].
    destruct (th_n th =? 0) eqn:En; inv Hs;
      constructor; cbn [ts mtx wr mem disk txd issued indices]; try (wdom I Ex); try exact Lo; try exact Is.
    + unfold set_pc. rewrite length_upd. apply (inv_len _ _ _ I).
    + frame t Ex.
      * rewrite Em. split; auto.
      * exact (inv_mtx _ _ _ I _ _ Hn).
    + frame t Ex.
      * rewrite Ew. split; auto.
      * exact (inv_wr _ _ _ I _ _ Hn).
    + unfold data_ok; cbn [mtx ts]. rewrite Em, Eth. unfold set_pc.
      rewrite (nth_error_upd_eq _ _ _ _ Ex). cbn. split; [split; assumption|].
      intros H. apply N.eqb_eq in En. contradiction.
    + rewrite length_upd. apply (inv_len _ _ _ I).
    + intros t' x' Hn. destruct (Nat.eq_dec t t') as [<-|Hne].
      * rewrite (nth_error_upd_eq _ _ _ _ Ex) in Hn. inv Hn. cbn. rewrite Em. split; auto.
      * rewrite (nth_error_upd_ne _ _ _ _ Hne) in Hn. exact (inv_mtx _ _ _ I _ _ Hn).
    + intros t' x' Hn. destruct (Nat.eq_dec t t') as [<-|Hne].
      * rewrite (nth_error_upd_eq _ _ _ _ Ex) in Hn. inv Hn. cbn. rewrite Ew. split; auto.
      * rewrite (nth_error_upd_ne _ _ _ _ Hne) in Hn. exact (inv_wr _ _ _ I _ _ Hn).
    + unfold data_ok; cbn [mtx ts]. rewrite Em, Eth.
      rewrite (nth_error_upd_eq _ _ _ _ Ex). cbn.
      unfold idle, mem_view in *; cbn [mem disk txd]. auto.
  - (* PWrite *)
    assert (mtx s = Some t) as Em by (apply Mt; reflexivity).
    assert (wr s = Some t) as Ew by (apply Wt; reflexivity).
    unfold data_ok in D. rewrite Em, Eth, Ex, Epc in D. destruct D as [[Dm Dt] Dr].
    inv Hs. constructor; cbn [ts mtx wr mem disk txd issued indices]; try (wdom I Ex); try exact Lo; try exact Is.
    + unfold set_pc. rewrite length_upd. apply (inv_len _ _ _ I).
    + frame t Ex.
      * rewrite Em. split; auto.
      * exact (inv_mtx _ _ _ I _ _ Hn).
    + frame t Ex.
      * rewrite Ew. split; auto.
      * exact (inv_wr _ _ _ I _ _ Hn).
    + unfold data_ok; cbn [mtx ts]. rewrite Em, Eth. unfold set_pc.
      rewrite (nth_error_upd_eq _ _ _ _ Ex). cbn.
      unfold mem_view in *; cbn [mem disk txd]. split; [assumption|].
      destruct (th_n th =? 0) eqn:En; [assumption|].
      apply N.eqb_neq in En. split; auto.
  - (* PEnd *)
    assert (mtx s = Some t) as Em by (apply Mt; reflexivity).
    assert (wr s = Some t) as Ew by (apply Wt; reflexivity).
    unfold data_ok in D. rewrite Em, Eth, Ex, Epc in D. destruct D as [Dm Dt].
    unfold after_tx in Hs. rewrite Hheld in Hs.
    destruct (th_commits th); inv Hs;
      constructor; cbn [ts mtx wr mem disk txd issued indices]; try (wdom I Ex).
    + unfold set_pc. rewrite length_upd. apply (inv_len _ _ _ I).
    + frame t Ex.
      * rewrite Em. split; auto.
      * exact (inv_mtx _ _ _ I _ _ Hn).
    + frame t Ex.
      * split; discriminate.
      * pose proof (inv_wr _ _ _ I _ _ Hn) as W'. rewrite Ew in W'.
        split; intros H; [apply W' in H; congruence|discriminate].
    + unfold data_ok; cbn [mtx ts]. rewrite Em, Eth. unfold set_pc.
      rewrite (nth_error_upd_eq _ _ _ _ Ex). cbn. split; [reflexivity|].
      unfold mem_view in *; cbn [mem disk txd].
      destruct (th_n th =? 0) eqn:En.
      * rewrite Dt. assumption.
      * destruct Dt as [Dr Dt]. rewrite Dt. reflexivity.
    + destruct (th_n th =? 0); [rewrite Dt; exact Lo|].
      destruct Dt as [Dr Dt]. rewrite Dt. lia.
    + unfold indices in *. cbn [issued disk]. rewrite map_app, Is, map_map. cbn [snd]. rewrite map_id.
      destruct (th_n th =? 0) eqn:En.
      * apply N.eqb_eq in En. rewrite En, Dt. simpl. now rewrite app_nil_r.
      * destruct Dt as [Dr Dt]. rewrite Dt.
        replace (t_reg x + th_n th - n0) with ((disk s - n0) + th_n th) by lia.
        rewrite rangeN_app. do 2 f_equal. lia.
    + unfold set_pc. rewrite length_upd. apply (inv_len _ _ _ I).
    + frame t Ex.
      * rewrite Em. split; auto.
      * exact (inv_mtx _ _ _ I _ _ Hn).
    + frame t Ex.
      * split; discriminate.
      * pose proof (inv_wr _ _ _ I _ _ Hn) as W'. rewrite Ew in W'.
        split; intros H; [apply W' in H; congruence|discriminate].
    + unfold data_ok; cbn [mtx ts]. rewrite Em, Eth. unfold set_pc.
      rewrite (nth_error_upd_eq _ _ _ _ Ex). cbn.
      unfold idle, mem_view in *; cbn [mem disk txd]. auto.
    + exact Lo.
    + exact Is.
  - (* PCallback *)
    assert (mtx s = Some t) as Em by (apply Mt; reflexivity).
    unfold data_ok in D. rewrite Em, Eth, Ex, Epc in D. destruct D as [Dt Dm].
    unfold after_tx in Hs. rewrite Hheld in Hs. inv Hs.
    constructor; cbn [ts mtx wr mem disk txd issued indices]; try (wdom I Ex); try exact Lo; try exact Is.
    + unfold set_pc. rewrite length_upd. apply (inv_len _ _ _ I).
    + frame t Ex.
      * rewrite Em. split; auto.
      * exact (inv_mtx _ _ _ I _ _ Hn).
    + frame t Ex.
      * rewrite <- Wt. split; discriminate.
      * exact (inv_wr _ _ _ I _ _ Hn).
    + unfold data_ok; cbn [mtx ts]. rewrite Em, Eth. unfold set_pc.
      rewrite (nth_error_upd_eq _ _ _ _ Ex). cbn.
      unfold idle, mem_view in *; cbn [mem disk txd].
      destruct (th_n th =? 0); auto.
  - (* PUnlock *)
    assert (mtx s = Some t) as Em by (apply Mt; reflexivity).
    unfold data_ok in D. rewrite Em, Eth, Ex, Epc in D.
    inv Hs. constructor; cbn [ts mtx wr mem disk txd issued indices]; try (wdom I Ex); try exact Lo; try exact Is.
    + unfold set_pc. rewrite length_upd. apply (inv_len _ _ _ I).
    + frame t Ex.
      * split; discriminate.
      * pose proof (inv_mtx _ _ _ I _ _ Hn) as M'. rewrite Em in M'.
        split; intros H; [apply M' in H; congruence|discriminate].
    + frame t Ex.
      * rewrite <- Wt. split; discriminate.
      * exact (inv_wr _ _ _ I _ _ Hn).
    + exact D.
  - discriminate.
Qed.

Lemma exec_inv ths n0 sched : forall s s',
  all_held ths -> Inv ths n0 s -> exec ths s sched = Some s' -> Inv ths n0 s'.
Proof.
  induction sched as [|t rest IH]; intros s s' Hh I He; simpl in He.
  - inv He. exact I.
  - destruct (step ths s t) as [s1|] eqn:Es; [|discriminate].
    eapply IH; [exact Hh| |exact He]. eapply step_inv; eauto.
Qed.

Lemma exec_app ths s a b :
  exec ths s (a ++ b) = match exec ths s a with Some s1 => exec ths s1 b | None => None end.
Proof.
  revert s; induction a as [|t a IH]; intros s; simpl; [reflexivity|].
  destruct (step ths s t); [apply IH|reflexivity].
Qed.

(* ------------------------------------------------------------ consequences *)

Lemma inv_nodup ths n0 s : Inv ths n0 s -> NoDup (indices s).
Proof. intros I. rewrite (inv_iss _ _ _ I). apply NoDup_rangeN. Qed.

Lemma inv_count ths n0 s : Inv ths n0 s -> disk s = n0 + N.of_nat (length (issued s)).
Proof.
  intros I. pose proof (inv_iss _ _ _ I) as H. pose proof (inv_lo _ _ _ I) as L.
  apply (f_equal (@length N)) in H. unfold indices in H.
  rewrite map_length, length_rangeN in H. lia.
Qed.

Lemma terminated_all_done s : terminated s = true ->
  forall t x, nth_error (ts s) t = Some x -> t_pc x = PDone.
Proof.
  unfold terminated. rewrite forallb_forall. intros H t x Hn.
  apply nth_error_In in Hn. specialize (H _ Hn). destruct (t_pc x); try discriminate. reflexivity.
Qed.


Lemma inv_terminated_idle ths n0 s :
  Inv ths n0 s -> terminated s = true -> mtx s = None /\ wr s = None /\ idle s.
Proof.
  intros I T. pose proof (terminated_all_done _ T) as A.
  pose proof (inv_data _ _ _ I) as D. unfold data_ok in D.
  assert (mtx s = None) as Em.
  { destruct (mtx s) as [t|] eqn:Em; [|reflexivity].
    destruct (nth_error ths t) as [th|]; [|contradiction].
    destruct (nth_error (ts s) t) as [x|] eqn:Ex; [|contradiction].
    pose proof (inv_mtx _ _ _ I _ _ Ex) as M. rewrite (A _ _ Ex) in M. simpl in M.
    rewrite Em in M. destruct M as [_ M]. specialize (M eq_refl). discriminate. }
  rewrite Em in D. split; [assumption|]. split; [|assumption].
  destruct (wr s) as [t|] eqn:Ew; [|reflexivity].
  pose proof (inv_wdom _ _ _ I _ Ew) as L. apply nth_error_Some in L.
  destruct (nth_error (ts s) t) as [x|] eqn:Ex; [|congruence].
  pose proof (inv_wr _ _ _ I _ _ Ex) as W. rewrite (A _ _ Ex) in W. simpl in W.
  rewrite Ew in W. destruct W as [_ W]. specialize (W eq_refl). discriminate.
Qed.

(** The lock protocol cannot deadlock: while some request is unfinished,
    some thread is enabled (so every maximal schedule terminates). *)
Lemma no_deadlock ths n0 s :
  all_held ths -> Inv ths n0 s -> terminated s = false ->
  exists t s', step ths s t = Some s'.
Proof.
  intros Hh I T.
  pose proof (inv_data _ _ _ I) as D. unfold data_ok in D.
  destruct (mtx s) as [t|] eqn:Em.
  - destruct (nth_error ths t) as [th|] eqn:Eth; [|contradiction].
    destruct (nth_error (ts s) t) as [x|] eqn:Ex; [|contradiction].
    pose proof (inv_mtx _ _ _ I _ _ Ex) as M. rewrite Em in M.
    destruct M as [_ M]. specialize (M eq_refl).
    exists t. unfold step. rewrite Eth, Ex.
    destruct (t_pc x) eqn:Epc; try discriminate; try (eexists; reflexivity).
    + (* PBegin: the writer lock is free *)
      destruct (wr s) as [t'|] eqn:Ew; [|eexists; reflexivity]. exfalso.
      pose proof (inv_wdom _ _ _ I _ Ew) as L. apply nth_error_Some in L.
      destruct (nth_error (ts s) t') as [x'|] eqn:Ex'; [|congruence].
      pose proof (inv_wr _ _ _ I _ _ Ex') as W. rewrite Ew in W.
      destruct W as [_ W]. specialize (W eq_refl).
      assert (in_cs (t_pc x') = true) as C by (destruct (t_pc x'); simpl in *; congruence).
      apply (inv_mtx _ _ _ I _ _ Ex') in C. rewrite Em in C. inv C.
      rewrite Ex in Ex'. inv Ex'. rewrite Epc in W. discriminate.
    + destruct (th_n th =? 0); eexists; reflexivity.
    + destruct (th_commits th); eexists; reflexivity.
  - unfold terminated in T.
    assert (exists x, In x (ts s) /\ pc_eqb (t_pc x) PDone = false) as (x & Hin & Hx).
    { clear -T. induction (ts s) as [|y l IH]; simpl in T; [discriminate|].
      destruct (pc_eqb (t_pc y) PDone) eqn:E.
      - destruct (IH T) as (x & Hin & Hx). exists x. split; [right|]; assumption.
      - exists y. split; [left; reflexivity|assumption]. }
    apply In_nth_error in Hin. destruct Hin as [t Ex]. exists t.
    pose proof (inv_mtx _ _ _ I _ _ Ex) as M. rewrite Em in M.
    assert (t_pc x = PLock) as Epc.
    { destruct (t_pc x); simpl in *; try reflexivity; try discriminate;
        destruct M as [M _]; specialize (M eq_refl); discriminate. }
    assert (nth_error ths t <> None) as Hth.
    { apply nth_error_Some. rewrite <- (inv_len _ _ _ I). apply nth_error_Some. congruence. }
    unfold step. destruct (nth_error ths t) as [th|]; [|congruence].
    rewrite Ex, Epc, Em. eexists; reflexivity.
Qed.

(** Main safety statement, for all thread tables and all schedules. *)
Theorem safe_all_schedules ths n0 cached sched s :
  all_held ths ->
  exec ths (init ths n0 cached) sched = Some s ->
  NoDup (indices s) /\
  indices s = rangeN n0 (N.of_nat (length (issued s))) /\
  (terminated s = true ->
     mem_view s = disk s /\ disk s = n0 + N.of_nat (length (issued s)) /\
     mtx s = None /\ wr s = None /\ txd s = None).
Proof.
  intros Hh He.
  assert (Inv ths n0 s) as I by (eapply exec_inv; eauto using init_inv).
  split; [eapply inv_nodup; eauto|]. split.
  - rewrite (inv_iss _ _ _ I). f_equal. rewrite (inv_count _ _ _ I). lia.
  - intros T. destruct (inv_terminated_idle _ _ _ I T) as (Em & Ew & Dm & Dt).
    repeat split; auto. eapply inv_count; eauto.
Qed.

Theorem progress_all_schedules ths n0 cached sched s :
  all_held ths ->
  exec ths (init ths n0 cached) sched = Some s ->
  terminated s = false -> exists t s', step ths s t = Some s'.
Proof.
  intros Hh He. eapply no_deadlock; eauto. eapply exec_inv; eauto using init_inv.
Qed.

(** Threads whose call sites come from a table of sites that all hold the mutex. *)
Lemma all_held_from_table {S} (tbl : list S) (held : S -> bool) ths :
  forallb held tbl = true ->
  Forall (fun th => exists st, In st tbl /\ th_held th = held st) ths ->
  all_held ths.
Proof.
  intros Ht Hf. rewrite forallb_forall in Ht. unfold all_held.
  eapply Forall_impl; [|exact Hf]. intros th (st & Hin & ->). auto.
Qed.

(* ----------------------------------------- the hypothesis is necessary *)

Definition unheld1 : thread := {| th_held := false; th_n := 1; th_commits := true |}.
Definition held1 : thread := {| th_held := true; th_n := 1; th_commits := true |}.

(** A commits, B's whole request runs before A's commit handler. *)
Definition witness_two_unheld : list nat := [0; 0; 0; 0; 1; 1; 1; 1]%nat.
(** one site without the mutex is enough: the holder's handler is pending
    when the other request reads the stale index *)
Definition witness_held_then_unheld : list nat := [0; 0; 0; 0; 0; 1; 1; 1; 1]%nat.
Definition witness_unheld_then_held : list nat := [0; 0; 0; 0; 1; 1; 1; 1; 1]%nat.

Lemma dup_not_NoDup (l : list N) : has_dup l = true -> ~ NoDup l.
Proof.
  intros H Hn. apply has_dup_false_NoDup in Hn. congruence.
Qed.

Definition run_indices (ths : list thread) (n0 : N) (cached : bool) (sched : list nat)
  : option (list N) :=
  match exec ths (init ths n0 cached) sched with Some s => Some (indices s) | None => None end.

Theorem unsafe_two_unheld n0 cached :
  run_indices [unheld1; unheld1] n0 cached witness_two_unheld = Some [n0; n0].
Proof. destruct cached, n0; vm_compute; reflexivity. Qed.

Theorem unsafe_held_then_unheld n0 cached :
  run_indices [held1; unheld1] n0 cached witness_held_then_unheld = Some [n0; n0].
Proof. destruct cached, n0; vm_compute; reflexivity. Qed.

Theorem unsafe_unheld_then_held n0 cached :
  run_indices [unheld1; held1] n0 cached witness_unheld_then_held = Some [n0; n0].
Proof. destruct cached, n0; vm_compute; reflexivity. Qed.

Lemma two_equal_not_NoDup (a : N) : ~ NoDup [a; a].
Proof. intros H. inv H. apply H2. left. reflexivity. Qed.

Lemma run_indices_dup ths n0 cached sched a :
  run_indices ths n0 cached sched = Some [a; a] ->
  exists s, exec ths (init ths n0 cached) sched = Some s /\ ~ NoDup (indices s).
Proof.
  unfold run_indices. intros H.
  destruct (exec ths (init ths n0 cached) sched) as [s|]; [|discriminate].
  exists s. split; [reflexivity|]. inv H. rewrite H1. apply two_equal_not_NoDup.
Qed.

(** In the form used by the property file: a reachable state with a duplicate. *)
Theorem unsafe_without_mutex n0 cached :
  exists sched s,
    exec [unheld1; unheld1] (init [unheld1; unheld1] n0 cached) sched = Some s /\
    ~ NoDup (indices s).
Proof.
  exists witness_two_unheld.
  exact (run_indices_dup _ _ _ _ _ (unsafe_two_unheld n0 cached)).
Qed.

Theorem unsafe_one_site_without_mutex n0 cached :
  (exists sched s,
    exec [held1; unheld1] (init [held1; unheld1] n0 cached) sched = Some s /\
    ~ NoDup (indices s)) /\
  (exists sched s,
    exec [unheld1; held1] (init [unheld1; held1] n0 cached) sched = Some s /\
    ~ NoDup (indices s)).
Proof.
  split.
  - exists witness_held_then_unheld.
    exact (run_indices_dup _ _ _ _ _ (unsafe_held_then_unheld n0 cached)).
  - exists witness_unheld_then_held.
    exact (run_indices_dup _ _ _ _ _ (unsafe_unheld_then_held n0 cached)).
Qed.

(* ------------------------------------------- what each request obtained *)

(** The indices handed to request [t]. *)
Definition obtained (s : state) (t : nat) : list N :=
  map snd (filter (fun p => Nat.eqb (fst p) t) (issued s)).

Definition after_commit (p : pc) : bool :=
  match p with PCallback | PUnlock | PDone => true | _ => false end.

(** Whatever the locking: a request has obtained nothing before its commit,
    and exactly the [th_n] consecutive indices from the value it read once its
    transaction committed; a rolled back request never obtains anything. *)
Definition Obt (ths : list thread) (s : state) : Prop :=
  forall t th x, nth_error ths t = Some th -> nth_error (ts s) t = Some x ->
    obtained s t = if th_commits th && after_commit (t_pc x)
                   then rangeN (t_reg x) (th_n th) else [].

Lemma obtained_app_other (t t' : nat) (l : list N) :
  t <> t' -> map snd (filter (fun p => Nat.eqb (fst p) t') (map (fun i : N => (t, i)) l)) = [].
Proof.
  intros Hne. induction l as [|i l IH]; simpl; [reflexivity|].
  destruct (Nat.eqb_spec t t'); [contradiction|]. exact IH.
Qed.

Lemma obtained_app_self t (l : list N) :
  map snd (filter (fun p => Nat.eqb (fst p) t) (map (fun i : N => (t, i)) l)) = l.
Proof.
  induction l as [|i l IH]; simpl; [reflexivity|].
  rewrite Nat.eqb_refl. simpl. now rewrite IH.
Qed.

Lemma init_obt ths n0 c : Obt ths (init ths n0 c).
Proof.
  intros t th x Eth Ex. unfold obtained; simpl. simpl in Ex.
  rewrite nth_error_map, Eth in Ex. inv Ex. simpl.
  unfold first_pc. destruct (th_held th); simpl; now rewrite andb_false_r.
Qed.

Lemma step_obt ths s t s' : Obt ths s -> step ths s t = Some s' -> Obt ths s'.
Proof.
  intros O Hs. unfold step in Hs.
  destruct (nth_error ths t) as [th|] eqn:Eth; [|discriminate].
  destruct (nth_error (ts s) t) as [x|] eqn:Ex; [|discriminate].
  pose proof (O _ _ _ Eth Ex) as Ot.
  (* every case: split on "is it the stepping thread" *)
  assert (forall p r iss,
            ts s' = upd (ts s) t {| t_pc := p; t_reg := r |} ->
            issued s' = iss ->
            (forall t' th' x', t <> t' -> nth_error ths t' = Some th' -> nth_error (ts s) t' = Some x' ->
               map snd (filter (fun q => Nat.eqb (fst q) t') iss) =
               if th_commits th' && after_commit (t_pc x') then rangeN (t_reg x') (th_n th') else []) ->
            map snd (filter (fun q => Nat.eqb (fst q) t) iss) =
              (if th_commits th && after_commit p then rangeN r (th_n th) else []) ->
            Obt ths s') as K.
  { intros p r iss Hts His Hother Hself t' th' x' Eth' Ex'. unfold obtained. rewrite His.
    rewrite Hts in Ex'. destruct (Nat.eq_dec t t') as [<-|Hne].
    - rewrite (nth_error_upd_eq _ _ _ _ Ex) in Ex'. inv Ex'. rewrite Eth in Eth'. inv Eth'. exact Hself.
    - rewrite (nth_error_upd_ne _ _ _ _ Hne) in Ex'. eapply Hother; eauto. }
  assert (forall t' th' x', nth_error ths t' = Some th' -> nth_error (ts s) t' = Some x' ->
             map snd (filter (fun q => Nat.eqb (fst q) t') (issued s)) =
             if th_commits th' && after_commit (t_pc x') then rangeN (t_reg x') (th_n th') else []) as O'.
  { intros t' th' x' A B. exact (O _ _ _ A B). }
  unfold obtained in Ot.
  destruct (t_pc x) eqn:Epc; simpl in Ot; rewrite ?andb_false_r, ?andb_true_r in Ot.
  - destruct (mtx s); [discriminate|]. inv Hs.
    eapply K; [reflexivity|reflexivity|intros; eapply O'; eauto|]. simpl. now rewrite andb_false_r.
  - destruct (wr s); [discriminate|]. inv Hs.
    eapply K; [reflexivity|reflexivity|intros; eapply O'; eauto|]. simpl. now rewrite andb_false_r.
  - destruct (th_n th =? 0); inv Hs;
      (eapply K; [reflexivity|reflexivity|intros; eapply O'; eauto|]); simpl; now rewrite andb_false_r.
  - inv Hs. eapply K; [reflexivity|reflexivity|intros; eapply O'; eauto|]. simpl. now rewrite andb_false_r.
  - destruct (th_commits th) eqn:Ec; inv Hs.
    + eapply K; [reflexivity|reflexivity| |].
      * intros t' th' x' Hne A B. cbn [issued]. rewrite filter_app, map_app.
        rewrite (obtained_app_other t t' _ Hne), app_nil_r. eapply O'; eauto.
      * cbn [issued]. rewrite filter_app, map_app, Ot, obtained_app_self. reflexivity.
    + eapply K; [reflexivity|reflexivity|intros; eapply O'; eauto|]. simpl. exact Ot.
  - inv Hs. eapply K; [reflexivity|reflexivity|intros; eapply O'; eauto|].
    simpl in *. rewrite Ot. unfold after_tx. destruct (th_held th), (th_commits th); reflexivity.
  - inv Hs. eapply K; [reflexivity|reflexivity|intros; eapply O'; eauto|]. simpl in *.
    rewrite Ot. destruct (th_commits th); reflexivity.
  - discriminate.
Qed.

Lemma exec_obt ths sched : forall s s', Obt ths s -> exec ths s sched = Some s' -> Obt ths s'.
Proof.
  induction sched as [|t rest IH]; intros s s' O He; simpl in He.
  - inv He. exact O.
  - destruct (step ths s t) as [s1|] eqn:Es; [|discriminate].
    eapply IH; [|exact He]. eapply step_obt; eauto.
Qed.

Lemma step_length ths s t s' : step ths s t = Some s' -> length (ts s') = length (ts s).
Proof.
  unfold step. intros Es. destruct (nth_error ths t); [|discriminate].
  destruct (nth_error (ts s) t) as [x|]; [|discriminate].
  destruct (t_pc x); try discriminate;
    repeat match type of Es with
           | context [match ?c with _ => _ end] => destruct c; try discriminate
           end; inv Es; simpl; unfold set_pc; now rewrite length_upd.
Qed.

Lemma exec_length ths sched : forall s s',
  exec ths s sched = Some s' -> length (ts s') = length (ts s).
Proof.
  induction sched as [|t rest IH]; intros s s' He; simpl in He.
  - now inv He.
  - destruct (step ths s t) as [s1|] eqn:Es; [|discriminate].
    rewrite (IH _ _ He). eapply step_length; eauto.
Qed.

(** For every locking discipline and every schedule: when all requests have
    returned, each request whose transaction committed holds exactly [th_n]
    consecutive indices, and a rolled back one holds none. *)
Theorem each_request_obtains ths n0 cached sched s :
  exec ths (init ths n0 cached) sched = Some s -> terminated s = true ->
  forall t th, nth_error ths t = Some th ->
    (th_commits th = true -> exists r, obtained s t = rangeN r (th_n th)) /\
    (th_commits th = false -> obtained s t = []).
Proof.
  intros He T t th Eth.
  assert (Obt ths s) as O by (eapply exec_obt; eauto using init_obt).
  assert (length (ts s) = length ths) as L.
  { rewrite (exec_length _ _ _ _ He). apply map_length. }
  assert (exists x, nth_error (ts s) t = Some x) as [x Ex].
  { destruct (nth_error (ts s) t) eqn:E; [eauto|]. exfalso.
    apply nth_error_None in E. assert (nth_error ths t <> None) as H by congruence.
    apply nth_error_Some in H. lia. }
  pose proof (O _ _ _ Eth Ex) as Ot. rewrite (terminated_all_done _ T _ _ Ex) in Ot. simpl in Ot.
  split; intros Hc; rewrite Hc in Ot; simpl in Ot; eauto.
Qed.
