(** C09 - executable model of concurrent address issuance (one account branch).

    What is modelled (code read: wallet/wallet.go NewAddress, NewChangeAddress,
    CurrentAddress; wallet/createtx.go txToOutputs; wallet/psbt.go FundPsbt;
    wallet/import.go ImportAccountDryRun; waddrmgr/scoped_manager.go
    nextAddresses, loadAccountInfo; walletdb/bdb/db.go Update/Commit;
    bbolt tx.go Commit):

      w.newAddrMtx.Lock()                       PLock    (only if the site holds it)
      walletdb.Update(db, func(tx) {            PBegin   takes bbolt's single writer lock
        nextAddresses:
          acctInfo := loadAccountInfo(..)       PRead    the CACHED acctInfo.next*Index if the
          nextIndex := acctInfo.next..Index              account is cached, else the row on disk
          putChainedAddress(.. index ..)        PWrite   row next index := nextIndex + n (in tx)
          tx.OnCommit(onCommit)
      })  -> tx.Commit():                       PEnd     commit: bbolt tx.close() releases the
            tx.close()                                   writer lock;  or Rollback (dry run /
            for fn in commitHandlers: fn()      PCallback error): nothing is kept, no handler
      w.newAddrMtx.Unlock()                     PUnlock  acctInfo.next..Index := nextIndex + n

    [Read] happens after [Begin] (the closure runs inside the transaction) and
    the in-memory index is only advanced by the commit handler, which bbolt
    runs AFTER the writer lock is released: that is the window.

    One counter = one (scope, account, branch).  A request that derives
    nothing from this counter (it works on another branch, CurrentAddress
    found an unused address, the transaction needed no change) is a thread
    with [th_n = 0]: it takes the same locks and touches nothing.
    [th_commits = false] is a dry run / failed closure (transaction rolled back). *)
From Verif Require Import Base.Prelude.
Local Open Scope N_scope.

Inductive pc := PLock | PBegin | PRead | PWrite | PEnd | PCallback | PUnlock | PDone.

Record thread := {
  th_held : bool;      (* the call site holds newAddrMtx around the whole Update *)
  th_n : N;            (* addresses derived from this counter by the request *)
  th_commits : bool    (* the Update commits (false: dry run / error => rollback) *)
}.

Record tstate := { t_pc : pc; t_reg : N }.

Record state := {
  mtx : option nat;    (* owner of newAddrMtx *)
  wr : option nat;     (* owner of the database writer lock *)
  mem : option N;      (* cached acctInfo.next index; None = account not cached *)
  disk : N;            (* committed next index of the account row *)
  txd : option N;      (* next index written inside the open write transaction *)
  ts : list tstate;
  issued : list (nat * N)  (* (thread, index) handed out by committed requests *)
}.

Definition pc_eqb (a b : pc) : bool :=
  match a, b with
  | PLock, PLock | PBegin, PBegin | PRead, PRead | PWrite, PWrite | PEnd, PEnd
  | PCallback, PCallback | PUnlock, PUnlock | PDone, PDone => true
  | _, _ => false
  end.

Fixpoint upd {A} (l : list A) (i : nat) (x : A) : list A :=
  match l, i with
  | [], _ => []
  | _ :: l', O => x :: l'
  | y :: l', S i' => y :: upd l' i' x
  end.

(** [a; a+1; ...; a+n-1] *)
Definition rangeN (a n : N) : list N :=
  map (fun k => a + N.of_nat k) (seq 0 (N.to_nat n)).

Definition first_pc (th : thread) : pc := if th_held th then PLock else PBegin.
Definition after_tx (th : thread) : pc := if th_held th then PUnlock else PDone.

(** what loadAccountInfo returns: the cache if present, else the row *)
Definition mem_view (s : state) : N :=
  match mem s with Some m => m | None => disk s end.

Definition init (ths : list thread) (n0 : N) (cached : bool) : state :=
  {| mtx := None; wr := None; mem := if cached then Some n0 else None; disk := n0;
     txd := None; ts := map (fun th => {| t_pc := first_pc th; t_reg := 0 |}) ths;
     issued := [] |}.

Definition set_pc (s : state) (t : nat) (x : tstate) (p : pc) : list tstate :=
  upd (ts s) t {| t_pc := p; t_reg := t_reg x |}.

(** One atomic step of thread [t]; [None] = not enabled (blocked or finished). *)
Definition step (ths : list thread) (s : state) (t : nat) : option state :=
  match nth_error ths t, nth_error (ts s) t with
  | Some th, Some x =>
    let n := th_n th in
    match t_pc x with
    | PLock =>
      match mtx s with
      | None => Some {| mtx := Some t; wr := wr s; mem := mem s; disk := disk s; txd := txd s;
                        ts := set_pc s t x PBegin; issued := issued s |}
      | Some _ => None
      end
    | PBegin =>
      match wr s with
      | None => Some {| mtx := mtx s; wr := Some t; mem := mem s; disk := disk s; txd := txd s;
                        ts := set_pc s t x PRead; issued := issued s |}
      | Some _ => None
      end
    | PRead =>
      if n =? 0 then
        Some {| mtx := mtx s; wr := wr s; mem := mem s; disk := disk s; txd := txd s;
                ts := set_pc s t x PWrite; issued := issued s |}
      else
        let m := mem_view s in
        Some {| mtx := mtx s; wr := wr s; mem := Some m; disk := disk s; txd := txd s;
                ts := upd (ts s) t {| t_pc := PWrite; t_reg := m |}; issued := issued s |}
    | PWrite =>
      Some {| mtx := mtx s; wr := wr s; mem := mem s; disk := disk s;
              txd := if n =? 0 then txd s else Some (t_reg x + n);
              ts := set_pc s t x PEnd; issued := issued s |}
    | PEnd =>
      if th_commits th then
        Some {| mtx := mtx s; wr := None; mem := mem s;
                disk := match txd s with Some d => d | None => disk s end; txd := None;
                ts := set_pc s t x PCallback;
                issued := issued s ++ map (fun i => (t, i)) (rangeN (t_reg x) n) |}
      else
        Some {| mtx := mtx s; wr := None; mem := mem s; disk := disk s; txd := None;
                ts := set_pc s t x (after_tx th); issued := issued s |}
    | PCallback =>
      Some {| mtx := mtx s; wr := wr s;
              mem := if n =? 0 then mem s else Some (t_reg x + n);
              disk := disk s; txd := txd s;
              ts := set_pc s t x (after_tx th); issued := issued s |}
    | PUnlock =>
      Some {| mtx := None; wr := wr s; mem := mem s; disk := disk s; txd := txd s;
              ts := set_pc s t x PDone; issued := issued s |}
    | PDone => None
    end
  | _, _ => None
  end.

(** A schedule is a list of thread ids; it is executable when every step is enabled. *)
Fixpoint exec (ths : list thread) (s : state) (sched : list nat) : option state :=
  match sched with
  | [] => Some s
  | t :: rest => match step ths s t with Some s' => exec ths s' rest | None => None end
  end.

Definition terminated (s : state) : bool :=
  forallb (fun x => pc_eqb (t_pc x) PDone) (ts s).

Definition indices (s : state) : list N := map snd (issued s).

(** executable duplicate test on the issued indices *)
Fixpoint has_dup (l : list N) : bool :=
  match l with
  | [] => false
  | x :: l' => existsb (N.eqb x) l' || has_dup l'
  end.

(** the whole program of a thread, for documentation and for the
    correspondence check: number of steps a request takes *)
Definition prog_len (th : thread) : nat :=
  (if th_held th then 2 else 0) + 3 + (if th_commits th then 2 else 1).

(** the sequential schedule: every thread runs to completion in turn *)
Fixpoint seq_sched (ths : list thread) (t : nat) : list nat :=
  match ths with
  | [] => []
  | th :: rest => repeat t (prog_len th) ++ seq_sched rest (S t)
  end.
