(** C09 - executable model of concurrent address issuance (one account branch).

    What is modelled (code read: wallet/wallet.go NewAddress, NewChangeAddress,
    CurrentAddress, recovery, extendFoundAddresses; wallet/createtx.go
    txToOutputs; wallet/psbt.go FundPsbt; wallet/import.go ImportAccountDryRun;
    waddrmgr/scoped_manager.go nextAddresses, extendAddresses, loadAccountInfo;
    walletdb/bdb/db.go Update/Commit; bbolt tx.go Commit):

      w.newAddrMtx.Lock()  (or RLock)           PLock    (only if the site takes it)
      walletdb.Update(db, func(tx) {            PBegin   takes bbolt's single writer lock
        nextAddresses / extendAddresses:
          acctInfo := loadAccountInfo(..)       PRead    the CACHED acctInfo.next*Index if the
          nextIndex := acctInfo.next..Index              account is cached, else the row on disk
          putChainedAddress(.. index ..)        PWrite   row next index := index + 1 (in tx);
                                                         extendAddresses ALSO assigns the in-memory
                                                         next index, last address and address cache
                                                         right here (eagerly)
          tx.OnCommit(onCommit)                          (nextAddresses only)
      })  -> tx.Commit():                       PEnd     commit: bbolt tx.close() releases the
            tx.close()                                   writer lock;  or Rollback (dry run /
            for fn in commitHandlers: fn()      PCallback error): nothing is kept, no handler
      w.newAddrMtx.Unlock()                     PUnlock  nextAddresses' handler: acctInfo.next..Index
                                                         := nextIndex, last..Addr := last derived,
                                                         s.addrs[..] := every derived address

    [Read] happens after [Begin] (the closure runs inside the transaction) and
    the in-memory index is only advanced by the commit handler, which bbolt
    runs AFTER the writer lock is released: that is the window.

    One counter = one (scope, account, branch).  A request that derives
    nothing from this counter (it works on another branch, CurrentAddress
    found an unused address, the transaction needed no change) is a thread
    with [th_n = 0]: it takes the same locks and touches nothing.
    [th_commits = false] is a dry run / failed closure (transaction rolled back).

    Two kinds of thread:
      request   ([th_ext = None])  derives [th_n] addresses from the index it read;
      extender  ([th_ext = Some T]) recovery: extendAddresses derives every index
                from the one it read through T (nothing if T is below it).

    The mutex is a reader/writer lock in the model so that a site that only
    takes a READ lock can be expressed ([th_shared = true]): read locks exclude
    the exclusive owner, not each other.

    Besides the next index the commit handler (and extendAddresses) writes the
    branch's last address and the address cache; they are modelled by the
    index of the last address ([lastm], meaningful while the account is cached;
    loadAccountInfo derives it from the row) and by the list of cached indices. *)
From Verif Require Import Base.Prelude.
Local Open Scope N_scope.

Inductive pc := PLock | PBegin | PRead | PWrite | PEnd | PCallback | PUnlock | PDone.

Record thread := {
  th_held : bool;      (* the call site holds newAddrMtx around the whole Update *)
  th_shared : bool;    (* ... but only for reading (RLock): does not exclude other readers *)
  th_n : N;            (* request: addresses derived from this counter *)
  th_ext : option N;   (* Some T: recovery extending the branch through index T *)
  th_commits : bool    (* the Update commits (false: dry run / error => rollback) *)
}.

Record tstate := { t_pc : pc; t_reg : N }.

Record state := {
  mtx : option nat;    (* exclusive owner of newAddrMtx *)
  readers : list nat;  (* holders of a read lock on it *)
  wr : option nat;     (* owner of the database writer lock *)
  mem : option N;      (* cached acctInfo.next index; None = account not cached *)
  lastm : N;           (* index of the cached last address (meaningful when [mem] is Some) *)
  cache : list N;      (* indices whose addresses were put into the address cache *)
  disk : N;            (* committed next index of the account row *)
  txd : option N;      (* next index written inside the open write transaction *)
  ts : list tstate;
  issued : list (nat * N)  (* (thread, index) consumed by committed transactions: handed
                              out to a request, or derived by an extender *)
}.

Definition pc_eqb (a b : pc) : bool :=
  match a, b with
  | PLock, PLock | PBegin, PBegin | PRead, PRead | PWrite, PWrite | PEnd, PEnd
  | PCallback, PCallback | PUnlock, PUnlock | PDone, PDone => true
  | _, _ => false
  end.

Fixpoint upd {A} (l : list A) (i : nat) (x : A) : list A :=
  match l, i with
  | [], _ => []
  | _ :: l', O => x :: l'
  | y :: l', S i' => y :: upd l' i' x
  end.

(** [a; a+1; ...; a+n-1] *)
Definition rangeN (a n : N) : list N :=
  map (fun k => a + N.of_nat k) (seq 0 (N.to_nat n)).

Definition first_pc (th : thread) : pc := if th_held th then PLock else PBegin.
Definition after_tx (th : thread) : pc := if th_held th then PUnlock else PDone.

Definition is_ext (th : thread) : bool := match th_ext th with Some _ => true | None => false end.

(** addresses the transaction derives from this counter, given the index it read *)
Definition count_of (th : thread) (r : N) : N :=
  match th_ext th with
  | None => th_n th
  | Some T => if T <? r then 0 else T + 1 - r
  end.

(** does the transaction load the account (and read the index) at all *)
Definition reads (th : thread) : bool :=
  match th_ext th with Some _ => true | None => negb (th_n th =? 0) end.

(** what loadAccountInfo returns: the cache if present, else the row *)
Definition mem_view (s : state) : N :=
  match mem s with Some m => m | None => disk s end.

(** index of the branch's last address as the running manager answers it
    (a fresh load derives it from the row: next - 1, or 0) *)
Definition last_view (s : state) : N :=
  match mem s with Some _ => lastm s | None => N.pred (disk s) end.

Definition init (ths : list thread) (n0 : N) (cached : bool) : state :=
  {| mtx := None; readers := []; wr := None;
     mem := if cached then Some n0 else None; lastm := N.pred n0; cache := [];
     disk := n0; txd := None;
     ts := map (fun th => {| t_pc := first_pc th; t_reg := 0 |}) ths;
     issued := [] |}.

Definition set_pc (s : state) (t : nat) (x : tstate) (p : pc) : list tstate :=
  upd (ts s) t {| t_pc := p; t_reg := t_reg x |}.

Definition remove_nat (t : nat) (l : list nat) : list nat :=
  filter (fun u => negb (Nat.eqb u t)) l.

Definition no_readers (l : list nat) : bool := match l with [] => true | _ => false end.

(** One atomic step of thread [t]; [None] = not enabled (blocked or finished). *)
Definition step (ths : list thread) (s : state) (t : nat) : option state :=
  match nth_error ths t, nth_error (ts s) t with
  | Some th, Some x =>
    match t_pc x with
    | PLock =>
      match mtx s with
      | Some _ => None
      | None =>
        if th_shared th then
          Some {| mtx := None; readers := t :: readers s; wr := wr s; mem := mem s; lastm := lastm s;
                  cache := cache s; disk := disk s; txd := txd s;
                  ts := set_pc s t x PBegin; issued := issued s |}
        else if no_readers (readers s) then
          Some {| mtx := Some t; readers := readers s; wr := wr s; mem := mem s; lastm := lastm s;
                  cache := cache s; disk := disk s; txd := txd s;
                  ts := set_pc s t x PBegin; issued := issued s |}
        else None
      end
    | PBegin =>
      match wr s with
      | None => Some {| mtx := mtx s; readers := readers s; wr := Some t; mem := mem s; lastm := lastm s;
                        cache := cache s; disk := disk s; txd := txd s;
                        ts := set_pc s t x PRead; issued := issued s |}
      | Some _ => None
      end
    | PRead =>
      if reads th then
        let m := mem_view s in
        Some {| mtx := mtx s; readers := readers s; wr := wr s; mem := Some m;
                lastm := last_view s; cache := cache s; disk := disk s; txd := txd s;
                ts := upd (ts s) t {| t_pc := PWrite; t_reg := m |}; issued := issued s |}
      else
        Some {| mtx := mtx s; readers := readers s; wr := wr s; mem := mem s; lastm := lastm s;
                cache := cache s; disk := disk s; txd := txd s;
                ts := set_pc s t x PWrite; issued := issued s |}
    | PWrite =>
      let c := count_of th (t_reg x) in
      if c =? 0 then
        Some {| mtx := mtx s; readers := readers s; wr := wr s; mem := mem s; lastm := lastm s;
                cache := cache s; disk := disk s; txd := txd s;
                ts := set_pc s t x PEnd; issued := issued s |}
      else if is_ext th then
        (* extendAddresses: rows written AND memory updated right away *)
        Some {| mtx := mtx s; readers := readers s; wr := wr s; mem := Some (t_reg x + c);
                lastm := N.pred (t_reg x + c); cache := cache s ++ rangeN (t_reg x) c;
                disk := disk s; txd := Some (t_reg x + c);
                ts := set_pc s t x PEnd; issued := issued s |}
      else
        Some {| mtx := mtx s; readers := readers s; wr := wr s; mem := mem s; lastm := lastm s;
                cache := cache s; disk := disk s; txd := Some (t_reg x + c);
                ts := set_pc s t x PEnd; issued := issued s |}
    | PEnd =>
      if th_commits th then
        Some {| mtx := mtx s; readers := readers s; wr := None; mem := mem s; lastm := lastm s;
                cache := cache s;
                disk := match txd s with Some d => d | None => disk s end; txd := None;
                ts := set_pc s t x PCallback;
                issued := issued s ++ map (fun i => (t, i)) (rangeN (t_reg x) (count_of th (t_reg x))) |}
      else
        Some {| mtx := mtx s; readers := readers s; wr := None; mem := mem s; lastm := lastm s;
                cache := cache s; disk := disk s; txd := None;
                ts := set_pc s t x (after_tx th); issued := issued s |}
    | PCallback =>
      if is_ext th || (th_n th =? 0) then
        Some {| mtx := mtx s; readers := readers s; wr := wr s; mem := mem s; lastm := lastm s;
                cache := cache s; disk := disk s; txd := txd s;
                ts := set_pc s t x (after_tx th); issued := issued s |}
      else
        Some {| mtx := mtx s; readers := readers s; wr := wr s; mem := Some (t_reg x + th_n th);
                lastm := N.pred (t_reg x + th_n th);
                cache := cache s ++ rangeN (t_reg x) (th_n th);
                disk := disk s; txd := txd s;
                ts := set_pc s t x (after_tx th); issued := issued s |}
    | PUnlock =>
      if th_shared th then
        Some {| mtx := mtx s; readers := remove_nat t (readers s); wr := wr s; mem := mem s;
                lastm := lastm s; cache := cache s; disk := disk s; txd := txd s;
                ts := set_pc s t x PDone; issued := issued s |}
      else
        Some {| mtx := None; readers := readers s; wr := wr s; mem := mem s; lastm := lastm s;
                cache := cache s; disk := disk s; txd := txd s;
                ts := set_pc s t x PDone; issued := issued s |}
    | PDone => None
    end
  | _, _ => None
  end.

(** A schedule is a list of thread ids; it is executable when every step is enabled. *)
Fixpoint exec (ths : list thread) (s : state) (sched : list nat) : option state :=
  match sched with
  | [] => Some s
  | t :: rest => match step ths s t with Some s' => exec ths s' rest | None => None end
  end.

Definition terminated (s : state) : bool :=
  forallb (fun x => pc_eqb (t_pc x) PDone) (ts s).

(** every index consumed on the branch, in commit order *)
Definition indices (s : state) : list N := map snd (issued s).

(** the indices handed out to requests (what callers received) *)
Definition is_request (ths : list thread) (t : nat) : bool :=
  match nth_error ths t with Some th => negb (is_ext th) | None => false end.

Definition handed (ths : list thread) (s : state) : list (nat * N) :=
  filter (fun p => is_request ths (fst p)) (issued s).

(** executable duplicate test on the issued indices *)
Fixpoint has_dup (l : list N) : bool :=
  match l with
  | [] => false
  | x :: l' => existsb (N.eqb x) l' || has_dup l'
  end.

(** the whole program of a thread, for documentation and for the
    correspondence check: number of steps a request takes *)
Definition prog_len (th : thread) : nat :=
  (if th_held th then 2 else 0) + 3 + (if th_commits th then 2 else 1).

(** the sequential schedule: every thread runs to completion in turn *)
Fixpoint seq_sched (ths : list thread) (t : nat) : list nat :=
  match ths with
  | [] => []
  | th :: rest => repeat t (prog_len th) ++ seq_sched rest (S t)
  end.

(** plain requests, for examples and witnesses *)
Definition request (held shared : bool) (n : N) (commits : bool) : thread :=
  {| th_held := held; th_shared := shared; th_n := n; th_ext := None; th_commits := commits |}.
Definition extender (held : bool) (T : N) : thread :=
  {| th_held := held; th_shared := false; th_n := 0; th_ext := Some T; th_commits := true |}.
