(** C09 - executable comparison between what the harness observed on the real
    wallet and the interleaving model.

    The harness reports, per scenario and per account branch, the requests
    (site name, number of derivations its transaction made on the branch,
    whether the transaction committed; for a recovery: the index it extends the
    branch through), the observed order of transaction life-cycle events (the
    schedule, as labels), the (request, index) pairs obtained, and what the
    running wallet and a restarted one answer afterwards.
    The labels are coarser than model steps:

      LBegin t      BeginReadWriteTx returned for t   = [Lock (if the site holds the mutex); Begin]
      LCommit t     the real commit of t returned     = [Read; Write; Commit]
      LRollback t   t's transaction was rolled back   = [Read; Write; Abort; Unlock (if held)]
      LCallbacks t  t's commit handlers have run      = [Callback; Unlock (if held)]

    (taking and releasing newAddrMtx is not observable from the database
    proxy: the model takes it as late and releases it as early as the code
    allows, which accepts exactly the observable orders the mutex permits).
    Whether a site holds the mutex - exclusively, or only for reading - is
    looked up in the table generated from the source.  A label that is not
    enabled in the model (for instance a Begin of B between Commit and
    Callbacks of A when both sites hold the mutex) makes the replay fail: the
    implementation did something the model says is impossible. *)
From Coq Require Import String.
From Verif Require Import Base.Prelude Addr.Conc Generated.AddrSites.
Local Open Scope N_scope.

Inductive label := LBegin (t : nat) | LCommit (t : nat) | LRollback (t : nat) | LCallbacks (t : nat).

Record cthread := {
  ct_site : string;        (* name in the site table; "" = a request of the harness that takes no mutex *)
  ct_n : N;                (* derivations on this branch *)
  ct_commits : bool;
  ct_ext : option N        (* Some T: recovery extending this branch through T *)
}.

Record ccase := {
  c_n0 : N;
  c_cached : bool;
  c_threads : list cthread;
  c_sched : list label;
  c_obs : list (nat * N);                 (* (request, index) obtained on this branch *)
  c_mem_after : N;                        (* key count the running wallet reports afterwards *)
  c_disk_after : N;                       (* key count a fresh open of a copy of the file reports *)
  c_last_mem : option N;                  (* index of the branch's last address as the running wallet answers
                                             (None: it says there is none yet) *)
  c_cache : list N;                       (* indices >= n0 of this branch found in the address cache *)
  c_strict : bool                         (* scripted scenario (one request runs at a time) *)
}.

Definition mk_thread (c : cthread) : option thread :=
  if String.eqb (ct_site c) "" then
    Some {| th_held := false; th_shared := false; th_n := ct_n c; th_ext := ct_ext c; th_commits := ct_commits c |}
  else
    match site_lookup (ct_site c) sites with
    | Some st =>
      Some {| th_held := held st || shared st; th_shared := negb (held st) && shared st;
              th_n := ct_n c; th_ext := ct_ext c; th_commits := ct_commits c |}
    | None => None
    end.

Fixpoint mk_threads (l : list cthread) : option (list thread) :=
  match l with
  | [] => Some []
  | c :: l' =>
    match mk_thread c, mk_threads l' with
    | Some th, Some ths => Some (th :: ths)
    | _, _ => None
    end
  end.

Definition pc_at (s : state) (t : nat) : option pc :=
  match nth_error (ts s) t with Some x => Some (t_pc x) | None => None end.

Definition expect (s : state) (t : nat) (p : pc) : bool :=
  match pc_at s t with Some q => pc_eqb p q | None => false end.

Fixpoint steps (ths : list thread) (s : state) (t : nat) (k : nat) : option state :=
  match k with
  | O => Some s
  | S k' => match step ths s t with Some s' => steps ths s' t k' | None => None end
  end.

Definition do_label (ths : list thread) (s : state) (l : label) : option state :=
  match l with
  | LBegin t =>
    match nth_error ths t with
    | Some th => if expect s t (first_pc th) then steps ths s t (if th_held th then 2 else 1) else None
    | None => None
    end
  | LCommit t =>
    match nth_error ths t with
    | Some th => if expect s t PRead && th_commits th then steps ths s t 3 else None
    | None => None
    end
  | LRollback t =>
    match nth_error ths t with
    | Some th => if expect s t PRead && negb (th_commits th)
                 then steps ths s t (if th_held th then 4 else 3) else None
    | None => None
    end
  | LCallbacks t =>
    match nth_error ths t with
    | Some th => if expect s t PCallback then steps ths s t (if th_held th then 2 else 1) else None
    | None => None
    end
  end.

Fixpoint replay (ths : list thread) (s : state) (ls : list label) : option state :=
  match ls with
  | [] => Some s
  | l :: ls' => match do_label ths s l with Some s' => replay ths s' ls' | None => None end
  end.

Definition pair_eqb (a b : nat * N) : bool := Nat.eqb (fst a) (fst b) && N.eqb (snd a) (snd b).

Definition count (p : nat * N) (l : list (nat * N)) : nat := length (filter (pair_eqb p) l).

Definition multiset_eqb (a b : list (nat * N)) : bool :=
  Nat.eqb (length a) (length b) && forallb (fun p => Nat.eqb (count p a) (count p b)) (a ++ b).

Definition excl (th : thread) : bool := th_held th && negb (th_shared th).

(** the running wallet's answer for the last address of the branch *)
Definition last_ok (s : state) (o : option N) : bool :=
  match o with
  | None => mem_view s =? 0
  | Some i => negb (mem_view s =? 0) && (last_view s =? i)
  end.

(** the model, replayed on the observed schedule, hands out the same indices
    to the same requests, every request ends, the model's final in-memory
    and on-disk next index are the key counts observed afterwards, the last
    address the running wallet reports is the model's, and the address cache
    holds (on this branch, from n0 on) nothing the model does not put there *)
Definition branch_ok (c : ccase) : bool :=
  match mk_threads (c_threads c) with
  | Some ths =>
    if c_strict c || forallb excl ths then
      match replay ths (init ths (c_n0 c) (c_cached c)) (c_sched c) with
      | Some s => terminated s && multiset_eqb (handed ths s) (c_obs c)
                  && N.eqb (mem_view s) (c_mem_after c) && N.eqb (disk s) (c_disk_after c)
                  && last_ok s (c_last_mem c)
                  && forallb (fun i => existsb (N.eqb i) (cache s)) (c_cache c)
      | None => false
      end
    else true   (* unscripted run in which some request does not hold the mutex exclusively:
                   the observed event order does not determine the reads *)
  | None => false
  end.

Definition case_ok (c : list ccase) : bool := forallb branch_ok c.

Fixpoint mismatches_from {A} (f : A -> bool) (i : nat) (l : list A) : list nat :=
  match l with
  | [] => []
  | c :: l' => if f c then mismatches_from f (S i) l' else i :: mismatches_from f (S i) l'
  end.

Definition mismatches := mismatches_from case_ok 0.

(** The model's own verdict on the observed schedule (diagnostics): what it
    hands out, next index in memory / on disk, last address, cache;
    [None] if the schedule is impossible in the model. *)
Definition model_outcome (c : ccase) : option (list (nat * N) * N * N * N * list N) :=
  match mk_threads (c_threads c) with
  | Some ths =>
    match replay ths (init ths (c_n0 c) (c_cached c)) (c_sched c) with
    | Some s => Some (handed ths s, mem_view s, disk s, last_view s, cache s)
    | None => None
    end
  | None => None
  end.
