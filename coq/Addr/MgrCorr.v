(** Executable comparison used by the correspondence check of C03: the model
    ([Mgr.run]) is replayed on the operation list the harness ran against the
    real waddrmgr, and each answer is compared with what the implementation
    reported after projection through the independent derivation oracle
    (every real public/private key is named by the root and path the oracle
    finds it under; [None] = the oracle does not know the key). *)
From Verif Require Import Base.Prelude Addr.Keys Addr.Mgr.
Local Open Scope N_scope.

(** PrivKey() as the harness classifies it: [IPOk] = a key was returned, its
    public key is PubKey() and it equals the oracle's private key of the path
    PubKey() was found under. *)
Inductive ipriv := IPOk | IPMismatch | IPErr (e : errc).
Inductive iscript := ISOk | ISChanged | ISErr (e : errc).

Record iainfo := mkIInfo {
  i_scope : scope;
  i_path : dpath;
  i_known : bool;
  i_iacct : N;
  i_fmt : option afmt;
  i_pub : option pubkey;
  i_internal : bool;
  i_imported : bool;
  i_priv : ipriv;
}.

Inductive irinfo := IKey (a : iainfo) | IScr (sc : option N) (v : iscript).

Inductive iout :=
| IOk
| IErr (e : errc)
| IAddrs (l : list irinfo)
| IProps (next_ext next_int : N)
| IAcct (a : N)
| IKeyOut (k : option privkey)
| IScriptOut (sc : option N).

Definition errc_eq_dec : forall a b : errc, {a = b} + {a <> b}.
Proof. decide equality. Defined.
Definition eqb_of {A} (dec : forall a b : A, {a = b} + {a <> b}) (a b : A) : bool :=
  if dec a b then true else false.

(** Which legitimate error an operation REFUSES with (the order of its guards)
    is not part of the property and no theorem of Properties/C03.v depends on
    it: any error answers any error.  A crash is not a refusal: [EPanic] only
    matches [EPanic].  (The classes of PrivKey() and Script() - ErrLocked,
    ErrWatchingOnly - are compared exactly below: the theorems about the
    availability of private keys speak about them.) *)
Definition is_panic (e : errc) : bool := match e with EPanic => true | _ => false end.
Definition refusal_match (e e' : errc) : bool := Bool.eqb (is_panic e) (is_panic e').

Definition priv_match (p : pres) (pubk : pubkey) (i : ipriv) : bool :=
  match p, i with
  | POk k, IPOk => eqb_of pubkey_eq_dec (pub_of_priv k) pubk
  | PErr e, IPErr e' => eqb_of errc_eq_dec e e'
  | _, _ => false
  end.

Definition ainfo_match (m : ainfo) (i : iainfo) : bool :=
  eqb_of scope_eq_dec (r_scope m) (i_scope i)
  && eqb_of dpath_eq_dec (r_path m) (i_path i)
  && Bool.eqb (r_known m) (i_known i)
  && (r_iacct m =? i_iacct i)
  && match i_fmt i with Some f => eqb_of afmt_eq_dec (r_fmt m) f | None => false end
  && match i_pub i with Some p => eqb_of pubkey_eq_dec (r_pub m) p | None => false end
  && Bool.eqb (r_internal m) (i_internal i)
  && Bool.eqb (r_imported m) (i_imported i)
  && priv_match (r_priv m) (r_pub m) (i_priv i).

Definition rinfo_match (m : rinfo) (i : irinfo) : bool :=
  match m, i with
  | RKey a, IKey b => ainfo_match a b
  | RScr _ sc v, IScr (Some sc') v' =>
    (sc =? sc') && match v, v' with
                   | SOk x, ISOk => x =? sc
                   | SErr e, ISErr e' => eqb_of errc_eq_dec e e'
                   | _, _ => false
                   end
  | _, _ => false
  end.

Fixpoint all2 {A B} (f : A -> B -> bool) (l : list A) (l' : list B) : bool :=
  match l, l' with
  | [], [] => true
  | a :: l, b :: l' => f a b && all2 f l l'
  | _, _ => false
  end.

Definition out_match (m : out) (i : iout) : bool :=
  match m, i with
  | OutOk, IOk => true
  | OutErr e, IErr e' => refusal_match e e'
  | OutAddrs l, IAddrs l' => all2 rinfo_match l l'
  | OutProps a b, IProps a' b' => (a =? a') && (b =? b')
  | OutAcct a, IAcct a' => a =? a'
  | OutKey k, IKeyOut (Some k') => eqb_of privkey_eq_dec k k'
  | OutScript sc, IScriptOut (Some sc') => sc =? sc'
  | _, _ => false
  end.

(** A request for ZERO addresses asks for nothing, so the property is silent on
    how it ends: the code at hand registers a commit hook that indexes the last
    of zero addresses and crashes (the model's [EPanic], see Mgr.next_addresses);
    an implementation that returns the empty list instead is as good.  Either
    answer matches; the state is the same in both (nothing is issued, the account
    is in the cache).  No theorem of Properties/C03.v speaks about n = 0
    ([C03_next_addresses] is about answers [OutAddrs], which the model never
    gives there). *)
Definition zero_request (o : op) : bool :=
  match o with ONext _ _ _ n => n =? 0 | _ => false end.

Definition op_out_match (o : op) (m : out) (i : iout) : bool :=
  out_match m i ||
  (zero_request o && match m, i with OutErr EPanic, IAddrs [] => true | _, _ => false end).

(** a case: seed id, initial passphrase id, operations with the
    implementation's answers *)
Record acase := mkCase { c_seed : N; c_pass : N; c_ops : list (op * iout) }.

(** index of the first operation whose answers differ *)
Fixpoint first_diff (i : nat) (os : list op) (ms : list out) (is : list iout) : option nat :=
  match os, ms, is with
  | [], [], [] => None
  | o :: os', m :: ms', x :: is' => if op_out_match o m x then first_diff (S i) os' ms' is' else Some i
  | _, _, _ => Some i
  end.

Definition case_diff (f : facts) (c : acase) : option nat :=
  let '(_, outs) := run f (init (c_seed c) (c_pass c)) (map fst (c_ops c)) in
  first_diff 0 (map fst (c_ops c)) outs (map snd (c_ops c)).

Definition case_ok (f : facts) (c : acase) : bool :=
  match case_diff f c with None => true | Some _ => false end.

Fixpoint mismatches_from (f : facts) (i : nat) (l : list acase) : list nat :=
  match l with
  | [] => []
  | c :: l' => if case_ok f c then mismatches_from f (S i) l'
               else i :: mismatches_from f (S i) l'
  end.

Definition mismatches (f : facts) := mismatches_from f 0.

(** for diagnosis: (case index, operation index) of every first difference *)
Fixpoint diffs_from (f : facts) (i : nat) (l : list acase) : list (nat * nat) :=
  match l with
  | [] => []
  | c :: l' => match case_diff f c with
               | None => diffs_from f (S i) l'
               | Some j => (i, j) :: diffs_from f (S i) l'
               end
  end.
