(** Executable model of waddrmgr's in-memory caches next to its database rows
    (waddrmgr/scoped_manager.go, manager.go, sync.go, db.go) under database
    transactions that commit or roll back (walletdb.Update, wallet/createtx.go
    dry run, wallet/import.go ImportAccountDryRun) - the state property C08 is
    about.

    One key scope is modelled: the scoped managers of a Manager do not share
    caches; the sync state, the birthday and the lock state belong to the root
    manager.  (A history over two scopes is checked by running the model once
    per scope on the operations of that scope plus the root manager's.)
    Abstractions:
      - an address is identified with its derivation path ([Chain a b i]) or
        with the imported key / script it was made from; account, branch and
        imported-ness are functions of that identity.  What an address OBJECT
        additionally records when it is built - its address type and the
        master-key fingerprint of its derivation path (DerivationInfo) - is
        kept with the object: the address cache is a map from addresses to
        that record, the OnCommit closures carry the objects they will cache;
      - account names, block hashes and imported account keys (xpubs) are
        interned numbers; times are unix seconds ([Z]); heights are [Z] (int32
        wrap-around is outside the model); the manager itself is
        watching-only only after [ConvertToWatchingOnly].  Accounts are of two kinds, as in the database: default
        (derived from the wallet's seed) and watch-only (an imported xpub with
        a master-key fingerprint and an optional address-schema override,
        [NewAccountWatchingOnly]);
      - the manager is locked or unlocked ([Lock]/[Unlock]); the addresses
        waiting for their private key ([deriveOnUnlock]) are kept as the list
        of their accounts, which is all [Unlock] uses them for here (it loads
        these accounts into the cache);
      - a chained address is identified with (account number, branch, index).
        (After a rolled-back account creation that was read back - inside K -
        a later account can reuse the number with another key; the real
        address then differs.  Such histories are not generated with
        watch-only accounts.)
      - an OnCommit closure finds its account entry by number when it runs
        (the Go closure holds a pointer to the entry it was created with; the
        two differ only if [InvalidateAccountCache] evicts the entry between
        the issuance and the commit of one transaction and the entry is loaded
        again - such transactions are inside K and are not generated);
      - the database is fault-free (write faults are property C10).
    What IS transcribed branch for branch is WHEN each operation touches
    memory relative to its database writes: eagerly, or in the
    [tx.OnCommit] callback, which runs only after a successful commit.

    Three facts about the source are parameters of the model ([params]); the
    theorems hold for every value, the values the source has NOW are
    regenerated into Generated/AddrCache.v by lib/extract_c08.py and used by
    the correspondence check:
      [p_rb] "read-back cached": [nextAddresses] puts the address it reads
             back after writing into the address cache at once (finding S4,
             repaired: false);
      [p_ee] "extend eager": [extendAddresses] updates the address cache, the
             next index and the last address at once, before commit (finding
             S10: true); false = it registers an OnCommit closure like
             [nextAddresses] does;
      [p_re] "rename eager": [RenameAccount] updates the cached account name
             at once, before commit (finding S11: true); false = in an
             OnCommit closure. *)
From stdpp Require Import gmap list numbers.
From Coq Require Import ZArith NArith.

Record params := { p_rb : bool; p_ee : bool; p_re : bool }.

(** ** Identifiers and constants *)

Definition imported_acct : N := 2147483647.       (* ImportedAddrAccount = 2^31-1 *)
Definition max_addrs : N := 2147483647.           (* MaxAddressesPerAccount *)
Definition max_reorg_depth : Z := 10000.          (* MaxReorgDepth *)
Definition name_empty : N := 0.                   (* "" *)
Definition name_imported : N := 1.                (* "imported", reserved *)
Definition name_default : N := 2.                 (* "default" *)
Definition zero_time : Z := (-62135596800)%Z.     (* time.Time{}.Unix() *)
(** [updateSyncedTo] stores [uint32(bs.Timestamp.Unix())]. *)
Definition wrap32 (t : Z) : Z := (t mod 4294967296)%Z.

Inductive addr :=
  | Chain (a : N) (b : bool) (i : N)     (* account, internal branch?, index *)
  | ImpKey (k : N)
  | ImpScript (k : N).
Global Instance addr_eq_dec : EqDecision addr.
Proof. solve_decision. Defined.
Global Instance addr_countable : Countable addr.
Proof.
  refine (inj_countable'
    (fun x => match x with
              | Chain a b i => inl (a, b, i)
              | ImpKey k => inr (inl k)
              | ImpScript k => inr (inr k) end)
    (fun y => match y with
              | inl (a, b, i) => Chain a b i
              | inr (inl k) => ImpKey k
              | inr (inr k) => ImpScript k end) _).
  intros []; reflexivity.
Defined.

Definition addr_acct (x : addr) : N := match x with Chain a _ _ => a | _ => imported_acct end.
Definition addr_internal (x : addr) : bool := match x with Chain _ b _ => b | _ => false end.
Definition addr_imported (x : addr) : bool := match x with Chain _ _ _ => false | _ => true end.

Record stamp := { s_height : Z; s_hash : N; s_time : Z }.
Global Instance stamp_eq_dec : EqDecision stamp.
Proof. solve_decision. Defined.

(** ** Database rows *)

(** What a watch-only account row holds beyond a default one
    ([dbWatchOnlyAccountRow]): the imported account key, the master key
    fingerprint, an optional address schema (external, internal address type)
    overriding the scope's.  Address types are waddrmgr.AddressType values. *)
Record wo := { w_key : N; w_fp : N; w_schema : option (N * N) }.
Global Instance wo_eq_dec : EqDecision wo.
Proof. solve_decision. Defined.

Definition script_type : N := 1.     (* waddrmgr.Script *)

(** [r_kind = None]: default account row; [Some w]: watch-only account row. *)
Record acct_row := { r_name : N; r_ext : N; r_int : N; r_kind : option wo }.
Global Instance acct_row_eq_dec : EqDecision acct_row.
Proof. solve_decision. Defined.

Record disk := {
  d_accts : gmap N acct_row;     (* acct bucket: name, next external, next internal *)
  d_nameidx : gmap N N;          (* acctNameIdx : name -> account *)
  d_ididx : gmap N N;            (* acctIDIdx   : account -> name *)
  d_lastacct : N;                (* meta/lastAccount *)
  d_addrs : gset addr;           (* addr bucket (+ addrAcctIdx) *)
  d_used : gset addr;            (* usedAddrs bucket *)
  d_synced : stamp;              (* sync/syncedTo, time already truncated to 32 bits *)
  d_hashes : gmap Z N;           (* sync/<height> -> hash, at most MaxReorgDepth recent ones *)
  d_start : Z * N;               (* sync/startBlock : height, hash (no time stored) *)
  d_birthday : Z;
  d_bdayblock : option stamp;
  d_bdayverified : bool;
  d_schema : N * N;              (* scope-schema: external, internal address type of the scope *)
  d_watch : bool;                (* main/watchonly: the manager was converted to watching-only *)
}.

(** ** Memory *)

(** [accountInfo]: the name, the next indices and the two cached last
    addresses (kept as their indices; index 0 when none was issued yet). *)
Record acct_info := { ai_name : N; ai_ext : N; ai_int : N; ai_lastext : N; ai_lastint : N;
                      ai_kind : option wo  (* acctKeyPub / masterKeyFingerprint / addrSchema; None: default account *) }.
Global Instance acct_info_eq_dec : EqDecision acct_info.
Proof. solve_decision. Defined.

(** What a managed address object records when it is built: AddrType() and
    the MasterKeyFingerprint of its DerivationInfo(). *)
Definition ameta : Type := N * N.

Record mem := {
  m_accts : gmap N acct_info;    (* ScopedKeyManager.acctInfo *)
  m_addrs : gmap addr ameta;     (* ScopedKeyManager.addrs : the cached address objects *)
  m_synced : stamp;              (* syncState.syncedTo *)
  m_start : stamp;               (* syncState.startBlock *)
  m_birthday : Z;                (* Manager.birthday *)
  m_locked : bool;               (* Manager.locked *)
  m_pending : list N;            (* ScopedKeyManager.deriveOnUnlock, as the accounts of its entries *)
  m_watch : bool;                (* Manager.watchingOnly *)
}.

Definition set_d_accts (v : _) (d : disk) : disk :=
  {| d_accts := v; d_nameidx := d_nameidx d; d_ididx := d_ididx d; d_lastacct := d_lastacct d; d_addrs := d_addrs d; d_used := d_used d; d_synced := d_synced d; d_hashes := d_hashes d; d_start := d_start d; d_birthday := d_birthday d; d_bdayblock := d_bdayblock d; d_bdayverified := d_bdayverified d; d_schema := d_schema d; d_watch := d_watch d |}.
Definition set_d_nameidx (v : _) (d : disk) : disk :=
  {| d_accts := d_accts d; d_nameidx := v; d_ididx := d_ididx d; d_lastacct := d_lastacct d; d_addrs := d_addrs d; d_used := d_used d; d_synced := d_synced d; d_hashes := d_hashes d; d_start := d_start d; d_birthday := d_birthday d; d_bdayblock := d_bdayblock d; d_bdayverified := d_bdayverified d; d_schema := d_schema d; d_watch := d_watch d |}.
Definition set_d_ididx (v : _) (d : disk) : disk :=
  {| d_accts := d_accts d; d_nameidx := d_nameidx d; d_ididx := v; d_lastacct := d_lastacct d; d_addrs := d_addrs d; d_used := d_used d; d_synced := d_synced d; d_hashes := d_hashes d; d_start := d_start d; d_birthday := d_birthday d; d_bdayblock := d_bdayblock d; d_bdayverified := d_bdayverified d; d_schema := d_schema d; d_watch := d_watch d |}.
Definition set_d_lastacct (v : _) (d : disk) : disk :=
  {| d_accts := d_accts d; d_nameidx := d_nameidx d; d_ididx := d_ididx d; d_lastacct := v; d_addrs := d_addrs d; d_used := d_used d; d_synced := d_synced d; d_hashes := d_hashes d; d_start := d_start d; d_birthday := d_birthday d; d_bdayblock := d_bdayblock d; d_bdayverified := d_bdayverified d; d_schema := d_schema d; d_watch := d_watch d |}.
Definition set_d_addrs (v : _) (d : disk) : disk :=
  {| d_accts := d_accts d; d_nameidx := d_nameidx d; d_ididx := d_ididx d; d_lastacct := d_lastacct d; d_addrs := v; d_used := d_used d; d_synced := d_synced d; d_hashes := d_hashes d; d_start := d_start d; d_birthday := d_birthday d; d_bdayblock := d_bdayblock d; d_bdayverified := d_bdayverified d; d_schema := d_schema d; d_watch := d_watch d |}.
Definition set_d_used (v : _) (d : disk) : disk :=
  {| d_accts := d_accts d; d_nameidx := d_nameidx d; d_ididx := d_ididx d; d_lastacct := d_lastacct d; d_addrs := d_addrs d; d_used := v; d_synced := d_synced d; d_hashes := d_hashes d; d_start := d_start d; d_birthday := d_birthday d; d_bdayblock := d_bdayblock d; d_bdayverified := d_bdayverified d; d_schema := d_schema d; d_watch := d_watch d |}.
Definition set_d_synced (v : _) (d : disk) : disk :=
  {| d_accts := d_accts d; d_nameidx := d_nameidx d; d_ididx := d_ididx d; d_lastacct := d_lastacct d; d_addrs := d_addrs d; d_used := d_used d; d_synced := v; d_hashes := d_hashes d; d_start := d_start d; d_birthday := d_birthday d; d_bdayblock := d_bdayblock d; d_bdayverified := d_bdayverified d; d_schema := d_schema d; d_watch := d_watch d |}.
Definition set_d_hashes (v : _) (d : disk) : disk :=
  {| d_accts := d_accts d; d_nameidx := d_nameidx d; d_ididx := d_ididx d; d_lastacct := d_lastacct d; d_addrs := d_addrs d; d_used := d_used d; d_synced := d_synced d; d_hashes := v; d_start := d_start d; d_birthday := d_birthday d; d_bdayblock := d_bdayblock d; d_bdayverified := d_bdayverified d; d_schema := d_schema d; d_watch := d_watch d |}.
Definition set_d_start (v : _) (d : disk) : disk :=
  {| d_accts := d_accts d; d_nameidx := d_nameidx d; d_ididx := d_ididx d; d_lastacct := d_lastacct d; d_addrs := d_addrs d; d_used := d_used d; d_synced := d_synced d; d_hashes := d_hashes d; d_start := v; d_birthday := d_birthday d; d_bdayblock := d_bdayblock d; d_bdayverified := d_bdayverified d; d_schema := d_schema d; d_watch := d_watch d |}.
Definition set_d_birthday (v : _) (d : disk) : disk :=
  {| d_accts := d_accts d; d_nameidx := d_nameidx d; d_ididx := d_ididx d; d_lastacct := d_lastacct d; d_addrs := d_addrs d; d_used := d_used d; d_synced := d_synced d; d_hashes := d_hashes d; d_start := d_start d; d_birthday := v; d_bdayblock := d_bdayblock d; d_bdayverified := d_bdayverified d; d_schema := d_schema d; d_watch := d_watch d |}.
Definition set_d_bdayblock (v : _) (d : disk) : disk :=
  {| d_accts := d_accts d; d_nameidx := d_nameidx d; d_ididx := d_ididx d; d_lastacct := d_lastacct d; d_addrs := d_addrs d; d_used := d_used d; d_synced := d_synced d; d_hashes := d_hashes d; d_start := d_start d; d_birthday := d_birthday d; d_bdayblock := v; d_bdayverified := d_bdayverified d; d_schema := d_schema d; d_watch := d_watch d |}.
Definition set_d_bdayverified (v : _) (d : disk) : disk :=
  {| d_accts := d_accts d; d_nameidx := d_nameidx d; d_ididx := d_ididx d; d_lastacct := d_lastacct d; d_addrs := d_addrs d; d_used := d_used d; d_synced := d_synced d; d_hashes := d_hashes d; d_start := d_start d; d_birthday := d_birthday d; d_bdayblock := d_bdayblock d; d_bdayverified := v; d_schema := d_schema d; d_watch := d_watch d |}.
Definition set_d_watch (v : _) (d : disk) : disk :=
  {| d_accts := d_accts d; d_nameidx := d_nameidx d; d_ididx := d_ididx d; d_lastacct := d_lastacct d; d_addrs := d_addrs d; d_used := d_used d; d_synced := d_synced d; d_hashes := d_hashes d; d_start := d_start d; d_birthday := d_birthday d; d_bdayblock := d_bdayblock d; d_bdayverified := d_bdayverified d; d_schema := d_schema d; d_watch := v |}.
Definition set_m_accts (v : _) (m : mem) : mem :=
  {| m_accts := v; m_addrs := m_addrs m; m_synced := m_synced m; m_start := m_start m; m_birthday := m_birthday m; m_locked := m_locked m; m_pending := m_pending m; m_watch := m_watch m |}.
Definition set_m_addrs (v : _) (m : mem) : mem :=
  {| m_accts := m_accts m; m_addrs := v; m_synced := m_synced m; m_start := m_start m; m_birthday := m_birthday m; m_locked := m_locked m; m_pending := m_pending m; m_watch := m_watch m |}.
Definition set_m_synced (v : _) (m : mem) : mem :=
  {| m_accts := m_accts m; m_addrs := m_addrs m; m_synced := v; m_start := m_start m; m_birthday := m_birthday m; m_locked := m_locked m; m_pending := m_pending m; m_watch := m_watch m |}.
Definition set_m_start (v : _) (m : mem) : mem :=
  {| m_accts := m_accts m; m_addrs := m_addrs m; m_synced := m_synced m; m_start := v; m_birthday := m_birthday m; m_locked := m_locked m; m_pending := m_pending m; m_watch := m_watch m |}.
Definition set_m_birthday (v : _) (m : mem) : mem :=
  {| m_accts := m_accts m; m_addrs := m_addrs m; m_synced := m_synced m; m_start := m_start m; m_birthday := v; m_locked := m_locked m; m_pending := m_pending m; m_watch := m_watch m |}.
Definition set_m_locked (v : _) (m : mem) : mem :=
  {| m_accts := m_accts m; m_addrs := m_addrs m; m_synced := m_synced m; m_start := m_start m; m_birthday := m_birthday m; m_locked := v; m_pending := m_pending m; m_watch := m_watch m |}.
Definition set_m_pending (v : _) (m : mem) : mem :=
  {| m_accts := m_accts m; m_addrs := m_addrs m; m_synced := m_synced m; m_start := m_start m; m_birthday := m_birthday m; m_locked := m_locked m; m_pending := v; m_watch := m_watch m |}.
Definition set_m_watch (v : _) (m : mem) : mem :=
  {| m_accts := m_accts m; m_addrs := m_addrs m; m_synced := m_synced m; m_start := m_start m; m_birthday := m_birthday m; m_locked := m_locked m; m_pending := m_pending m; m_watch := v |}.

Definition next_of (ai : acct_info) (b : bool) : N := if b then ai_int ai else ai_ext ai.
Definition last_of (ai : acct_info) (b : bool) : N := if b then ai_lastint ai else ai_lastext ai.
Definition set_branch (b : bool) (nx la : N) (ai : acct_info) : acct_info :=
  if b then {| ai_name := ai_name ai; ai_ext := ai_ext ai; ai_int := nx;
               ai_lastext := ai_lastext ai; ai_lastint := la; ai_kind := ai_kind ai |}
  else {| ai_name := ai_name ai; ai_ext := nx; ai_int := ai_int ai;
          ai_lastext := la; ai_lastint := ai_lastint ai; ai_kind := ai_kind ai |}.
Definition set_name (nm : N) (ai : acct_info) : acct_info :=
  {| ai_name := nm; ai_ext := ai_ext ai; ai_int := ai_int ai;
     ai_lastext := ai_lastext ai; ai_lastint := ai_lastint ai; ai_kind := ai_kind ai |}.
Definition row_next (r : acct_row) (b : bool) : N := if b then r_int r else r_ext r.
Definition row_set_next (b : bool) (nx : N) (r : acct_row) : acct_row :=
  if b then {| r_name := r_name r; r_ext := r_ext r; r_int := nx; r_kind := r_kind r |}
  else {| r_name := r_name r; r_ext := nx; r_int := r_int r; r_kind := r_kind r |}.
Definition row_set_name (nm : N) (r : acct_row) : acct_row :=
  {| r_name := nm; r_ext := r_ext r; r_int := r_int r; r_kind := r_kind r |}.

(** [loadAccountInfo] builds the cache entry from a row: the last addresses
    are derived at [next-1], or at 0 when [next = 0] (scoped_manager.go:518-560). *)
Definition info_of_row (r : acct_row) : acct_info :=
  {| ai_name := r_name r; ai_ext := r_ext r; ai_int := r_int r;
     ai_lastext := N.pred (r_ext r); ai_lastint := N.pred (r_int r); ai_kind := r_kind r |}.

(** [Open]/[loadManager]: empty caches; sync state and birthday read from the
    database; the manager is locked until [Unlock].  The start block is stored
    without its time stamp.  [reopen_as l d]: the freshly opened manager,
    unlocked unless [l] (an [Unlock] right after [Open] finds nothing waiting
    and only flips the lock state). *)
Definition reopen_as (l : bool) (d : disk) : mem :=
  {| m_accts := ∅; m_addrs := ∅; m_synced := d_synced d;
     m_start := {| s_height := (d_start d).1; s_hash := (d_start d).2; s_time := zero_time |};
     m_birthday := d_birthday d; m_locked := l; m_pending := []; m_watch := d_watch d |}.
(** The manager a restart gives, brought to the lock state the running
    manager [m] is in. *)
Definition restart (m : mem) (d : disk) : mem := reopen_as (m_locked m) d.

(** ** Outcomes *)

Inductive err :=
  | EAccountNotFound | EDuplicateAccount | EInvalidAccount | ETooManyAddresses
  | EDuplicateAddress | EBlockNotFound | EAddressNotFound | EBirthdayBlockNotSet
  | EDatabase | ELocked | EWatchingOnly | EOther
  | EPanic.   (* the call panicked; no operation of the model answers so *)
Global Instance err_eq_dec : EqDecision err.
Proof. solve_decision. Defined.

Inductive ans :=
  | AErr (e : err)
  | AOk
  | AAcct (a : N)
  | AAddrs (l : list addr)
  | AAddr (x : addr) (a : N) (internal imported used : bool)
          (ty fp : N)                       (* AddrType(), DerivationInfo().MasterKeyFingerprint *)
  | ALast (x : addr) (ty fp : N)            (* the cached last address object, likewise *)
  | AProps (nm ext int imp : N)
           (kind : option wo)               (* AccountPubKey, MasterKeyFingerprint, AddrSchema of an imported account *)
           (watch : bool)                   (* IsWatchOnly *)
  | AName (nm : N)
  | AStamp (s : stamp)
  | AHash (h : N)
  | ATime (t : Z)
  | ABday (s : stamp) (v : bool).
Global Instance ans_eq_dec : EqDecision ans.
Proof. solve_decision. Defined.

(** ** Operations *)

Inductive query :=
  | QLookup (x : addr)             (* ScopedKeyManager.Address + ManagedAddress getters + Used + DerivationInfo *)
  | QLast (a : N) (b : bool)       (* LastExternalAddress / LastInternalAddress *)
  | QProps (a : N)                 (* AccountProperties *)
  | QLookupName (nm : N)           (* LookupAccount *)
  | QAcctName (a : N)              (* AccountName *)
  | QLastAcct                      (* LastAccount *)
  | QSynced                        (* Manager.SyncedTo *)
  | QBlockHash (h : Z)             (* Manager.BlockHash *)
  | QBirthday                      (* Manager.Birthday *)
  | QBdayBlock.                    (* Manager.BirthdayBlock *)

Inductive op :=
  | ONewAccount (nm : N)
  | ORename (a nm : N)
  | ONext (a : N) (b : bool) (n : N)        (* Next{External,Internal}Addresses *)
  | OExtend (a : N) (b : bool) (last : N)   (* Extend{External,Internal}Addresses *)
  | OMarkUsed (x : addr)
  | OSetSynced (s : stamp)
  | OSetSyncedNil                           (* SetSyncedTo(ns, nil) *)
  | OSetBirthday (t : Z)
  | OSetBdayBlock (s : stamp) (v : bool)
  | OImport (x : addr) (bs : option stamp)  (* ImportPublicKey / ImportPrivateKey / ImportScript *)
            (priv : bool)                   (* through ImportPrivateKey *)
  | ORead (q : query)
  | ONewAccountWO (nm : N) (w : wo)         (* NewAccountWatchingOnly(name, xpub, fingerprint, schema) *)
  | OLock                                   (* Manager.Lock *)
  | OUnlock                                 (* Manager.Unlock(ns, passphrase) *)
  | OInvalidate (a : N)                     (* InvalidateAccountCache *)
  | OConvert.                               (* Manager.ConvertToWatchingOnly *)

(** ** Reads.  A read may fill the caches; it never writes the database. *)

(** [accountAddrType]: the account's schema if it has one, else the scope's. *)
Definition type_of (sch : N * N) (k : option wo) (b : bool) : N :=
  match k with
  | Some {| w_schema := Some (e, i) |} => if b then i else e
  | _ => if b then sch.2 else sch.1
  end.
Definition fp_of (k : option wo) : N := match k with Some w => w_fp w | None => 0%N end.
(** A chained address object built for an account of kind [k]: its type is the
    account's, its derivation path carries the account's master-key
    fingerprint (nextAddresses, extendAddresses, chainAddressRowToManaged and
    loadAccountInfo all fill it in from the account entry). *)
Definition meta_of_kind (sch : N * N) (k : option wo) (b : bool) : ameta := (type_of sch k b, fp_of k).
(** An imported key uses the scope's external type; no derivation path. *)
Definition meta_imp (sch : N * N) (x : addr) : ameta :=
  match x with ImpScript _ => (script_type, 0%N) | _ => (sch.1, 0%N) end.

Definition has_priv (k : option wo) : bool := match k with None => true | Some _ => false end.

(** An address object built from a public key - while the manager is locked -
    of an account that has a private key joins [deriveOnUnlock]. *)
Definition note_pending (k : option wo) (a : N) (m : mem) : mem :=
  if m_locked m && has_priv k && negb (m_watch m) then set_m_pending (m_pending m ++ [a]) m else m.

(** [loadAccountInfo]: the cache first, else the row (and cache it, with its
    two last addresses). *)
Definition load_acct (d : disk) (m : mem) (a : N) : mem * option acct_info :=
  match m_accts m !! a with
  | Some ai => (m, Some ai)
  | None =>
      match d_accts d !! a with
      | Some r => let ai := info_of_row r in
                  (note_pending (r_kind r) a (set_m_accts (<[a := ai]> (m_accts m)) m), Some ai)
      | None => (m, None)
      end
  end.

(** A managed address as its getters report it. *)
Definition found (d : disk) (x : addr) (mt : ameta) : ans :=
  AAddr x (addr_acct x) (addr_internal x) (addr_imported x) (bool_decide (x ∈ d_used d)) mt.1 mt.2.

Definition imported_count (d : disk) : N :=
  N.of_nat (size (filter (fun x => addr_imported x = true) (d_addrs d))).

Definition read (q : query) (d : disk) (m : mem) : mem * ans :=
  match q with
  | QLookup x =>
      (* Address: the cache, else loadAndCacheAddress; a chained row is turned
         into a managed address through loadAccountInfo (chainAddressRowToManaged) *)
      match m_addrs m !! x with
      | Some mt => (m, found d x mt)
      | None =>
          if bool_decide (x ∈ d_addrs d) then
            match x with
            | Chain a b _ =>
                let '(m1, o) := load_acct d m a in
                match o with
                | Some ai =>
                    let mt := meta_of_kind (d_schema d) (ai_kind ai) b in
                    (note_pending (ai_kind ai) a (set_m_addrs (<[x := mt]> (m_addrs m1)) m1), found d x mt)
                | None => (m1, AErr EAccountNotFound)
                end
            | _ => let mt := meta_imp (d_schema d) x in
                   (set_m_addrs (<[x := mt]> (m_addrs m)) m, found d x mt)
            end
          else (m, AErr EAddressNotFound)
      end
  | QLast a b =>
      let '(m1, o) := load_acct d m a in
      match o with
      | Some ai => (m1, if (0 <? next_of ai b)%N
                        then let mt := meta_of_kind (d_schema d) (ai_kind ai) b in
                             ALast (Chain a b (last_of ai b)) mt.1 mt.2
                        else AErr EAddressNotFound)
      | None => (m1, AErr EAccountNotFound)
      end
  | QProps a =>
      if (a =? imported_acct)%N then (m, AProps name_imported 0 0 (imported_count d) None (m_watch m))
      else
        let '(m1, o) := load_acct d m a in
        match o with
        | Some ai => (m1, AProps (ai_name ai) (ai_ext ai) (ai_int ai) 0 (ai_kind ai)
                            (* IsWatchOnly: the manager is, or acctKeyPriv == nil - no private key, or locked *)
                            (negb (has_priv (ai_kind ai)) || m_locked m || m_watch m))
        | None => (m1, AErr EAccountNotFound)
        end
  | QLookupName nm =>
      (m, match d_nameidx d !! nm with Some a => AAcct a | None => AErr EAccountNotFound end)
  | QAcctName a =>
      (m, match d_ididx d !! a with Some nm => AName nm | None => AErr EAccountNotFound end)
  | QLastAcct => (m, AAcct (d_lastacct d))
  | QSynced => (m, AStamp (m_synced m))
  | QBlockHash h =>
      (m, match d_hashes d !! h with Some x => AHash x | None => AErr EBlockNotFound end)
  | QBirthday => (m, ATime (m_birthday m))
  | QBdayBlock =>
      (m, match d_bdayblock d with
          | Some s => ABday s (d_bdayverified d)
          | None => AErr EBirthdayBlockNotSet end)
  end.

(** What a caller observes when asking [q] of a manager with memory [m] on
    database [d]. *)
Definition observe (m : mem) (d : disk) (q : query) : ans := (read q d m).2.

(** ** Database transactions *)

(** An [OnCommit] closure registered by [nextAddresses]
    (scoped_manager.go, [onCommit := func() ...]), as data: the address
    objects it will cache, the index and last address it will set, whether the
    account has a private key (the objects then join [deriveOnUnlock] if the
    manager is locked when the closure runs). *)
Record callback := {
  cb_acct : N; cb_branch : bool;
  cb_next : N;                    (* acctInfo.next{External,Internal}Index = nextIndex *)
  cb_last : N;                    (* acctInfo.last{External,Internal}Addr = last derived *)
  cb_addrs : list (addr * ameta); (* s.addrs[...] = ma *)
  cb_priv : bool;                 (* !watchOnly *)
}.

Definition cache_all (l : list (addr * ameta)) (m : mem) : mem :=
  set_m_addrs (list_to_map l ∪ m_addrs m) m.

Definition run_cb (c : callback) (m : mem) : mem :=
  let m1 := cache_all (cb_addrs c) m in
  let m2 := if m_locked m && cb_priv c then set_m_pending (m_pending m1 ++ [cb_acct c]) m1 else m1 in
  match m_accts m2 !! cb_acct c with
  | Some ai => set_m_accts (<[cb_acct c := set_branch (cb_branch c) (cb_next c) (cb_last c) ai]> (m_accts m2)) m2
  | None => m2
  end.

(** The closure a [RenameAccount] that defers its memory update registers
    ([p_re = false]): (account, new name). *)
Definition run_ncb (c : N * N) (m : mem) : mem :=
  match m_accts m !! c.1 with
  | Some ai => set_m_accts (<[c.1 := set_name c.2 ai]> (m_accts m)) m
  | None => m
  end.

(** The two kinds of closure touch different fields, so their relative order
    does not matter; each kind runs in registration order. *)
Definition settle (cbs : list callback) (ncbs : list (N * N)) (m : mem) : mem :=
  fold_left (fun m c => run_ncb c m) ncbs (fold_left (fun m c => run_cb c m) cbs m).

(** State inside an open read/write transaction: the transaction's view of the
    database, memory (shared with everybody), the registered callbacks. *)
Record txst := { t_disk : disk; t_mem : mem; t_cbs : list callback; t_ncbs : list (N * N) }.

Fixpoint range_from (i : N) (n : nat) : list N :=
  match n with O => [] | S k => i :: range_from (N.succ i) k end.

(** [putChainedAddress] for every derived address: the address rows, and the
    account row's next index set to (last index + 1).  When the account row is
    missing the first address row is written before the row lookup fails. *)
Definition put_chain (a : N) (b : bool) (i cnt : N) (d : disk) : disk + disk :=
  match d_accts d !! a with
  | Some r =>
      inl (set_d_accts (<[a := row_set_next b (i + cnt) r]> (d_accts d))
            (set_d_addrs (list_to_set (Chain a b <$> range_from i (N.to_nat cnt)) ∪ d_addrs d) d))
  | None => inr (set_d_addrs ({[Chain a b i]} ∪ d_addrs d) d)
  end.

(** The body shared by [nextAddresses] and by an [extendAddresses] that defers
    its memory update: derive [cnt] addresses from index [i] for the account
    entry [ai], write their rows, (if [rbf]: read them back into the cache,)
    register the closure. *)
Definition issue (rbf : bool) (a : N) (b : bool) (i cnt : N) (ai : acct_info)
    (ok : list addr -> ans) (t : txst) : txst * ans :=
  let d := t_disk t in
  match put_chain a b i cnt d with
  | inr d' => ({| t_disk := d'; t_mem := t_mem t; t_cbs := t_cbs t; t_ncbs := t_ncbs t |}, AErr EDatabase)
  | inl d' =>
      let mt := meta_of_kind (d_schema d) (ai_kind ai) b in
      let xs := Chain a b <$> range_from i (N.to_nat cnt) in
      let ents := (fun x => (x, mt)) <$> xs in
      let m2 := if rbf then note_pending (ai_kind ai) a (cache_all ents (t_mem t)) else t_mem t in
      let c := {| cb_acct := a; cb_branch := b; cb_next := (i + cnt)%N;
                  cb_last := N.pred (i + cnt); cb_addrs := ents; cb_priv := has_priv (ai_kind ai) |} in
      ({| t_disk := d'; t_mem := m2; t_cbs := t_cbs t ++ [c]; t_ncbs := t_ncbs t |}, ok xs)
  end.

(** [PutSyncedTo] followed by the memory update of [SetSyncedTo]. *)
Definition set_synced (s : stamp) (t : txst) : txst * ans :=
  let d := t_disk t in
  let h := s_height s in
  if (0 <? h)%Z && bool_decide (is_Some (d_bdayblock d)) && bool_decide (d_hashes d !! (h - 1)%Z = None)
  then (t, AErr EBlockNotFound)
  else
    let hs := <[h := s_hash s]> (d_hashes d) in
    let hs := if (0 <? h - max_reorg_depth)%Z then delete (h - max_reorg_depth)%Z hs else hs in
    let d' := set_d_synced {| s_height := h; s_hash := s_hash s; s_time := wrap32 (s_time s) |}
                (set_d_hashes hs d) in
    ({| t_disk := d'; t_mem := set_m_synced s (t_mem t); t_cbs := t_cbs t; t_ncbs := t_ncbs t |}, AOk).

Definition bad_name (nm : N) : bool := (nm =? name_empty)%N || (nm =? name_imported)%N.

(** [newAccount] / [newAccountWatchingOnly]: the next account number, name
    validation, duplicate test, row and both indices, last account - database
    only, memory untouched. *)
Definition new_account (k : option wo) (nm : N) (t : txst) : txst * ans :=
  let d := t_disk t in
  let n := (d_lastacct d + 1)%N in
  if bad_name nm then (t, AErr EInvalidAccount)
  else if bool_decide (is_Some (d_nameidx d !! nm)) then (t, AErr EDuplicateAccount)
  else
    let d' := set_d_lastacct n
               (set_d_nameidx (<[nm := n]> (d_nameidx d))
                 (set_d_ididx (<[n := nm]> (d_ididx d))
                   (set_d_accts (<[n := {| r_name := nm; r_ext := 0; r_int := 0; r_kind := k |}]> (d_accts d)) d))) in
    ({| t_disk := d'; t_mem := t_mem t; t_cbs := t_cbs t; t_ncbs := t_ncbs t |}, AAcct n).

(** The row update of [RenameAccount] (one arm of its type switch per kind;
    both re-put the row with the new name and leave everything else). *)
Definition rename_rows (a nm : N) (r : acct_row) (d : disk) : disk :=
  set_d_accts (<[a := row_set_name nm r]> (d_accts d))
    (set_d_nameidx (<[nm := a]> (delete (r_name r) (d_nameidx d)))
      (set_d_ididx (<[a := nm]> (d_ididx d)) d)).
Definition rename_switch (a nm : N) (r : acct_row) (d : disk) : disk :=
  match r_kind r with
  | None => rename_rows a nm r d        (* case *dbDefaultAccountRow *)
  | Some _ => rename_rows a nm r d      (* case *dbWatchOnlyAccountRow *)
  end.
Global Arguments rename_switch : simpl never.

(** [Unlock]'s first loop: the accounts of the waiting addresses are loaded
    (they may have been evicted); the first one whose row is gone fails the
    unlock. *)
Fixpoint load_all (d : disk) (m : mem) (l : list N) : mem * bool :=
  match l with
  | [] => (m, true)
  | a :: r => let '(m1, o) := load_acct d m a in
              match o with Some _ => load_all d m1 r | None => (m1, false) end
  end.

(** A script needs the manager unlocked (a converted manager stays locked for
    good); a private key does unless the manager is watching-only (only the
    public key is kept then). *)
Definition import_locked (x : addr) (priv : bool) (m : mem) : bool :=
  match x with
  | ImpScript _ => m_locked m
  | _ => priv && m_locked m && negb (m_watch m)
  end.

Definition step (P : params) (o : op) (t : txst) : txst * ans :=
  let d := t_disk t in
  let m := t_mem t in
  let with_mem m' := {| t_disk := d; t_mem := m'; t_cbs := t_cbs t; t_ncbs := t_ncbs t |} in
  match o with
  | ONewAccount nm =>
      (* NewAccount needs the coin-type private key *)
      if m_watch m then (t, AErr EWatchingOnly)
      else if m_locked m then (t, AErr ELocked) else new_account None nm t
  | ONewAccountWO nm w => new_account (Some w) nm t
  | ORename a nm =>
      (* RenameAccount: rows first, then the cached name - at once ([p_re]) or
         in an OnCommit closure *)
      if (a =? imported_acct)%N then (t, AErr EInvalidAccount)
      else if bool_decide (is_Some (d_nameidx d !! nm)) then (t, AErr EDuplicateAccount)
      else if bad_name nm then (t, AErr EInvalidAccount)
      else
        match d_accts d !! a with
        | None => (t, AErr EAccountNotFound)
        | Some r =>
            (* type switch on the row kind; the cached name is updated after
               the switch, for both kinds *)
            let d' := rename_switch a nm r d in
            if p_re P then
              let m' := match m_accts m !! a with
                        | Some ai => set_m_accts (<[a := set_name nm ai]> (m_accts m)) m
                        | None => m end in
              ({| t_disk := d'; t_mem := m'; t_cbs := t_cbs t; t_ncbs := t_ncbs t |}, AOk)
            else
              ({| t_disk := d'; t_mem := m; t_cbs := t_cbs t; t_ncbs := t_ncbs t ++ [(a, nm)] |}, AOk)
        end
  | ONext a b n =>
      (* nextAddresses: rows written; every written address read back - INTO THE
         CACHE when [p_rb]; indices, last address and the cache entries in the
         OnCommit closure *)
      let '(m1, o) := load_acct d m a in
      match o with
      | None => (with_mem m1, AErr EAccountNotFound)
      | Some ai =>
          let i := next_of ai b in
          if (max_addrs <? n)%N || (max_addrs <? i + n)%N
          then (with_mem m1, AErr ETooManyAddresses)
          else if (n =? 0)%N
          then (with_mem m1, AErr EOther) (* the Go closure would panic at commit; never generated *)
          else issue (p_rb P) a b i n ai AAddrs (with_mem m1)
      end
  | OExtend a b last =>
      (* extendAddresses: rows written, then cache, indices and last address
         updated - at once ([p_ee]) or in an OnCommit closure.  Default and
         imported accounts alike (an imported account derives from its public
         key). *)
      let '(m1, o) := load_acct d m a in
      match o with
      | None => (with_mem m1, AErr EAccountNotFound)
      | Some ai =>
          let i := next_of ai b in
          if (last <? i)%N then (with_mem m1, AOk)
          else if (max_addrs <? last)%N
          then (with_mem m1, AErr ETooManyAddresses)
          else
            let cnt := (last - i + 1)%N in
            if p_ee P then
              match put_chain a b i cnt d with
              | inr d' => ({| t_disk := d'; t_mem := m1; t_cbs := t_cbs t; t_ncbs := t_ncbs t |}, AErr EDatabase)
              | inl d' =>
                  let mt := meta_of_kind (d_schema d) (ai_kind ai) b in
                  let xs := Chain a b <$> range_from i (N.to_nat cnt) in
                  let m2 := note_pending (ai_kind ai) a (cache_all ((fun x => (x, mt)) <$> xs) m1) in
                  let m3 := set_m_accts (<[a := set_branch b (last + 1) last ai]> (m_accts m2)) m2 in
                  ({| t_disk := d'; t_mem := m3; t_cbs := t_cbs t; t_ncbs := t_ncbs t |}, AOk)
              end
            else issue false a b i cnt ai (fun _ => AOk) (with_mem m1)
      end
  | OMarkUsed x =>
      (* MarkUsed: used flag in the database, cache entry evicted *)
      ({| t_disk := set_d_used ({[x]} ∪ d_used d) d;
          t_mem := set_m_addrs (delete x (m_addrs m)) m; t_cbs := t_cbs t; t_ncbs := t_ncbs t |}, AOk)
  | OSetSynced s => set_synced s t
  | OSetSyncedNil => set_synced (m_start m) t
  | OSetBirthday tm =>
      (* SetBirthday assigns m.birthday even before the write *)
      ({| t_disk := set_d_birthday tm d; t_mem := set_m_birthday tm m; t_cbs := t_cbs t; t_ncbs := t_ncbs t |}, AOk)
  | OSetBdayBlock s v =>
      ({| t_disk := set_d_bdayverified v (set_d_bdayblock (Some s) d); t_mem := m; t_cbs := t_cbs t; t_ncbs := t_ncbs t |}, AOk)
  | OImport x bs priv =>
      (* importPublicKey / importScriptAddress: a private key or a script needs
         the manager unlocked; duplicate test against cache OR database; row
         written; cache entry and start block updated at once *)
      if negb (addr_imported x) then (t, AErr EOther)
      else if import_locked x priv m then (t, AErr ELocked)
      else if bool_decide (is_Some (m_addrs m !! x)) || bool_decide (x ∈ d_addrs d) then (t, AErr EDuplicateAddress)
      else
        let upd := match bs with Some s => (s_height s <? s_height (m_start m))%Z | None => false end in
        let d1 := set_d_addrs ({[x]} ∪ d_addrs d) d in
        let m1 := set_m_addrs (<[x := meta_imp (d_schema d) x]> (m_addrs m)) m in
        match bs, upd with
        | Some s, true =>
            ({| t_disk := set_d_start (s_height s, s_hash s) d1; t_mem := set_m_start s m1; t_cbs := t_cbs t; t_ncbs := t_ncbs t |}, AAddrs [x])
        | _, _ => ({| t_disk := d1; t_mem := m1; t_cbs := t_cbs t; t_ncbs := t_ncbs t |}, AAddrs [x])
        end
  | ORead q =>
      let '(m', r) := read q d m in (with_mem m', r)
  | OLock =>
      (* Lock: private keys wiped; nothing the queries report is dropped *)
      if m_watch m then (t, AErr EWatchingOnly)
      else if m_locked m then (t, AErr ELocked) else (with_mem (set_m_locked true m), AOk)
  | OUnlock =>
      if m_watch m then (t, AErr EWatchingOnly)
      else if negb (m_locked m) then (t, AOk)
      else
        let '(m1, ok) := load_all d m (m_pending m) in
        if ok then (with_mem (set_m_pending [] (set_m_locked false m1)), AOk)
        else (with_mem m1, AErr EAccountNotFound)    (* stays locked *)
  | OInvalidate a =>
      (* InvalidateAccountCache: delete(s.acctInfo, account) *)
      (with_mem (set_m_accts (delete a (m_accts m)) m), AOk)
  | OConvert =>
      (* ConvertToWatchingOnly: the rows lose their private parts (account rows
         keep name and next indices, address rows stay) and the watching-only
         flag is stored; the manager is locked and marked watching-only at
         once - before commit *)
      if m_watch m then (t, AOk)
      else ({| t_disk := set_d_watch true d; t_mem := set_m_watch true (set_m_locked true m);
               t_cbs := t_cbs t; t_ncbs := t_ncbs t |}, AOk)
  end.

(** Every error whose guard fires for the operation in this state.  Which of
    several failing guards reports is an accident of their order in the
    source; the state is untouched whichever does, so the correspondence
    accepts any of them (none of the theorems depends on the choice). *)
Definition alts (o : op) (t : txst) : list err :=
  let d := t_disk t in
  let named nm := (if bad_name nm then [EInvalidAccount] else []) ++
                  (if bool_decide (is_Some (d_nameidx d !! nm)) then [EDuplicateAccount] else []) in
  match o with
  | ORename a nm =>
      (if (a =? imported_acct)%N then [EInvalidAccount] else []) ++ named nm ++
      (if bool_decide (d_accts d !! a = None) then [EAccountNotFound] else [])
  | ONewAccount nm => (if m_watch (t_mem t) then [EWatchingOnly] else []) ++
                      (if m_locked (t_mem t) then [ELocked] else []) ++ named nm
  | ONewAccountWO nm _ => named nm
  | _ => []
  end.

Fixpoint run_ops (P : params) (ops : list op) (t : txst) : txst * list ans :=
  match ops with
  | [] => (t, [])
  | o :: r => let '(t1, x) := step P o t in let '(t2, xs) := run_ops P r t1 in (t2, x :: xs)
  end.

Fixpoint ops_alts (P : params) (ops : list op) (t : txst) : list (list err) :=
  match ops with
  | [] => []
  | o :: r => alts o t :: ops_alts P r (step P o t).1
  end.

Fixpoint run_queries (qs : list query) (d : disk) (m : mem) : mem * list ans :=
  match qs with
  | [] => (m, [])
  | q :: r => let '(m1, x) := read q d m in let '(m2, xs) := run_queries r d m1 in (m2, x :: xs)
  end.

(** How a read/write transaction ends: [walletdb.Update] commits when the
    closure returns nil; rolls back when it returns an error (any caller error,
    or [walletdb.ErrDryRunRollBack] from wallet.txToOutputs and
    wallet.ImportAccountDryRun); a failing commit persists nothing.  bbolt
    runs the OnCommit handlers only after a successful commit. *)
Inductive fate := Commit | AbortCaller | AbortDryRun | CommitFails.
Global Instance fate_eq_dec : EqDecision fate.
Proof. solve_decision. Defined.

Record state := { disk_of : disk; mem_of : mem }.

Record txn := {
  tx_ops : list op;
  tx_fate : fate;
  tx_queries : list query;   (* asked of the running manager (read transaction) after the transaction ended *)
}.

Definition end_tx (f : fate) (s : state) (t : txst) : state :=
  match f with
  | Commit => {| disk_of := t_disk t; mem_of := settle (t_cbs t) (t_ncbs t) (t_mem t) |}
  | _ => {| disk_of := disk_of s; mem_of := t_mem t |}
  end.

Definition begin_tx (s : state) : txst :=
  {| t_disk := disk_of s; t_mem := mem_of s; t_cbs := []; t_ncbs := [] |}.

Definition run_tx (P : params) (x : txn) (s : state) : state * (list ans * list ans) :=
  let '(t, outs) := run_ops P (tx_ops x) (begin_tx s) in
  let s1 := end_tx (tx_fate x) s t in
  let '(m2, qa) := run_queries (tx_queries x) (disk_of s1) (mem_of s1) in
  ({| disk_of := disk_of s1; mem_of := m2 |}, (outs, qa)).

Fixpoint run_hist (P : params) (h : list txn) (s : state) : state * list (list ans * list ans) :=
  match h with
  | [] => (s, [])
  | x :: r => let '(s1, o) := run_tx P x s in let '(s2, os) := run_hist P r s1 in (s2, o :: os)
  end.

Definition final (P : params) (h : list txn) (s : state) : state := (run_hist P h s).1.

(** The manager as a wallet holds it after start-up (opened and unlocked). *)
Definition opened (d : disk) : state := {| disk_of := d; mem_of := reopen_as false d |}.

(** The database [waddrmgr.Create] leaves for one scope: the default account,
    the reserved imported account in the two indices, synced to genesis. *)
Definition created (sch : N * N) (genesis_hash : N) (genesis_time birthday : Z) : disk :=
  {| d_accts := {[ 0%N := {| r_name := name_default; r_ext := 0; r_int := 0; r_kind := None |} ]};
     d_nameidx := {[ name_default := 0%N; name_imported := imported_acct ]};
     d_ididx := {[ 0%N := name_default; imported_acct := name_imported ]};
     d_lastacct := 0;
     d_addrs := ∅; d_used := ∅;
     d_synced := {| s_height := 0; s_hash := genesis_hash; s_time := wrap32 genesis_time |};
     d_hashes := {[ 0%Z := genesis_hash ]};
     d_start := (0%Z, genesis_hash);
     d_birthday := birthday;
     d_bdayblock := None; d_bdayverified := false; d_schema := sch; d_watch := false |}.

(** ** The trigger patterns K (decidable, on the history alone)

    An ABORTED transaction diverges memory from the database when it holds an
    operation that updates memory before commit: set-synced-to, set-birthday,
    import, convert-to-watching-only, and - depending on the source, [params] - rename ([p_re]), extend
    ([p_ee]), address issuance ([p_rb]); or when it leaves in the account
    cache an entry built from an uncommitted row: it changed account rows (new
    account; a rename that defers its memory update; an eviction, after which
    the rows of the evicted accounts may have been changed by this
    transaction) - the transaction is then "armed" - and afterwards loaded an
    account (properties, last address, issuance, extension) that it did not
    evict again before it ended ([InvalidateAccountCache], as
    wallet.ImportAccountDryRun does); or when it looks an address up after
    arming or after writing address rows (the lookup caches from the
    uncommitted rows).
    A COMMITTED transaction diverges when it extends a branch after issuing
    from it while extension is eager ([p_ee]: the OnCommit closure then
    overwrites the extended index with its stale value), and
    [SetSyncedTo(nil)] copies a start block whose time stamp the database does
    not hold.  Evicting an account for which a closure is pending is counted
    into K (see the header: closure and entry identity).

    [k_idx] is the part of K that can disturb the next indices. *)

Definition taint_if (armed : bool) (a : N) (taint : list N) : list N :=
  if armed then a :: taint else taint.
Definition rm_taint (a : N) (taint : list N) : list N := filter (fun x => negb (x =? a)%N) taint.
Definition tainted (taint : list N) : bool := match taint with [] => false | _ => true end.

(** [armed]: this transaction changed account rows (see above);
    [issued]: it wrote address rows;
    [taint]: accounts loaded since it was armed and not evicted since. *)
Fixpoint abort_k (P : params) (armed issued : bool) (taint : list N) (ops : list op) : bool :=
  match ops with
  | [] => tainted taint
  | o :: r =>
      match o with
      | OSetSynced _ | OSetSyncedNil | OSetBirthday _ | OImport _ _ _ | OConvert => true
      | ORename _ _ => p_re P || abort_k P true issued taint r
      | OExtend a _ _ => p_ee P || abort_k P armed true (taint_if armed a taint) r
      | ONext a _ _ => p_rb P || abort_k P armed true (taint_if armed a taint) r
      | ONewAccount _ | ONewAccountWO _ _ => abort_k P true issued taint r
      | ORead (QLookup _) => issued || armed || abort_k P armed issued taint r
      | ORead (QLast a _) => abort_k P armed issued (taint_if armed a taint) r
      | ORead (QProps a) =>
          abort_k P armed issued (if (a =? imported_acct)%N then taint else taint_if armed a taint) r
      | OUnlock => armed || abort_k P armed issued taint r
      | OInvalidate a => abort_k P true issued (rm_taint a taint) r
      | _ => abort_k P armed issued taint r
      end
  end.

Fixpoint abort_k_idx (P : params) (armed : bool) (taint : list N) (ops : list op) : bool :=
  match ops with
  | [] => tainted taint
  | o :: r =>
      match o with
      | OExtend a _ _ => p_ee P || abort_k_idx P armed (taint_if armed a taint) r
      | ONext a _ _ => abort_k_idx P armed (taint_if armed a taint) r
      | ONewAccount _ | ONewAccountWO _ _ => abort_k_idx P true taint r
      | ORead (QLookup (Chain a _ _)) => abort_k_idx P armed (taint_if armed a taint) r
      | ORead (QLast a _) => abort_k_idx P armed (taint_if armed a taint) r
      | ORead (QProps a) =>
          abort_k_idx P armed (if (a =? imported_acct)%N then taint else taint_if armed a taint) r
      | OUnlock => armed || abort_k_idx P armed taint r
      | OInvalidate a => abort_k_idx P true (rm_taint a taint) r
      | _ => abort_k_idx P armed taint r
      end
  end.

(** [pend]: the (account, branch) pairs a closure is pending for. *)
Fixpoint commit_k_idx (P : params) (pend : list (N * bool)) (ops : list op) : bool :=
  match ops with
  | [] => false
  | ONext a b _ :: r => commit_k_idx P ((a, b) :: pend) r
  | OExtend a b _ :: r =>
      if p_ee P then bool_decide ((a, b) ∈ pend) || commit_k_idx P pend r
      else commit_k_idx P ((a, b) :: pend) r
  | OInvalidate a :: r => existsb (fun p => (p.1 =? a)%N) pend || commit_k_idx P pend r
  | _ :: r => commit_k_idx P pend r
  end.

Definition has_synced_nil (ops : list op) : bool :=
  existsb (fun o => match o with OSetSyncedNil => true | _ => false end) ops.

Definition tx_k (P : params) (x : txn) : bool :=
  match tx_fate x with
  | Commit => commit_k_idx P [] (tx_ops x) || has_synced_nil (tx_ops x)
  | _ => abort_k P false false [] (tx_ops x)
  end.

Definition tx_k_idx (P : params) (x : txn) : bool :=
  match tx_fate x with
  | Commit => commit_k_idx P [] (tx_ops x)
  | _ => abort_k_idx P false [] (tx_ops x)
  end.

Definition in_K (P : params) (h : list txn) : bool := existsb (tx_k P) h.
Definition in_K_idx (P : params) (h : list txn) : bool := existsb (tx_k_idx P) h.

(** Time stamps handed to SetSyncedTo fit the 32 bits the database keeps
    (every block time does until 2106). *)
Definition op_times_ok (o : op) : bool :=
  match o with
  | OSetSynced s => (0 <=? s_time s)%Z && (s_time s <? 4294967296)%Z
  | _ => true
  end.
Definition times_ok (h : list txn) : bool := forallb (fun x => forallb op_times_ok (tx_ops x)) h.
