(** Executable model of waddrmgr.Manager / ScopedKeyManager, restricted to what
    property C03 is about: WHAT key is derived for an address and WHETHER its
    private key is available.

    Transcribed from waddrmgr/scoped_manager.go (loadAccountInfo, deriveKey,
    keyToManaged, deriveKeyFromPath, chainAddressRowToManaged,
    loadAndCacheAddress, Address, nextAddresses, extendAddresses, newAccount,
    newAccountWatchingOnly, ImportPrivateKey, ImportScript, MarkUsed,
    DeriveFromKeyPath, DeriveFromKeyPathCache), address.go
    (newManagedAddressFromExtKey, PrivKey, unlock, lock, Script) and manager.go
    (Create, Open, lock, Lock, Unlock, ChangePassphrase, NewScopedKeyManager,
    Address, MarkUsed).

    Conventions and simplifications (each also listed in DESIGN/manifest):
    - keys are symbolic ([Keys.skey]); "encrypted X" is modelled by the name
      of X in an [option] (None = empty byte slice);
    - the database is a record of association lists; the next indices of an
      account are kept in [d_next] next to the (immutable) account row;
    - every operation runs in its own database transaction that commits; in
      this model every error is raised before the first database write, so no
      rollback of [disk] is needed;
    - the root manager is never watching-only (it is created from a seed);
      the [WatchOnly()] tests of the code are therefore constant false and are
      left out; account-level watch-only (imported xpub accounts) is modelled;
    - a nil-pointer dereference of the Go code is the result [EPanic];
    - invalid BIP32 children (probability 2^-127) are not modelled;
    - hardened steps: every private extended key carries the width hdkeychain
      holds it at ([Keys.width]: read back from the database = Full, result of
      a derivation = Short), DeriveNonStandard's rule follows from the width,
      and a step made with another rule than the specified one
      ([Keys.spec_rule]) leaves the key tree ([Keys.off_spec]);
    - an imported key number names the WIF: private scalar and the
      "compressed public key" flag (two numbers for the two serializations of
      one scalar); a script number names the script bytes together with the
      kind of address (P2SH, P2WSH, taproot script tree);
    - Manager.Unlock: the Go code walks the scoped managers in map order and,
      per manager, first decrypts the cached account keys and then works off
      deriveOnUnlock; the model does the two phases for all scopes at once
      (neither phase can fail for one scope and succeed for another: the
      first never fails, the second only by the nil dereference [EPanic]).
    - the used flag written by MarkUsed is not modelled (its cache eviction is);
    - [facts] are regenerated from the source (Generated.AddrFacts):
      [f_extend_priv] = whether extendAddresses uses the same "account is
      watch-only" test as nextAddresses; [f_scope_last] = whether creating a
      key scope with NewScopedKeyManager stores the scope's lastAccount;
      [f_cache_guard] = whether DeriveFromKeyPathCache asks for a private
      derivation only when the account private key is in memory.

    No proofs in this file. *)
From Verif Require Import Base.Prelude Addr.Keys.
Local Open Scope N_scope.

Definition max_addresses_per_account : N := 2147483647.   (* MaxAddressesPerAccount *)
Definition imported_acct : N := 2147483647.               (* ImportedAddrAccount *)
Definition external_branch : N := 0.
Definition internal_branch : N := 1.

(** DefaultKeyScopes with ScopeAddrMap, in the order Create walks them. *)
Definition default_scopes : list (scope * schema) :=
  [ ((49, 0), mkSchema NP2WKH P2WKH);
    ((84, 0), mkSchema P2WKH P2WKH);
    ((86, 0), mkSchema P2TR P2TR);
    ((44, 0), mkSchema P2PKH P2PKH) ].

(** DerivationPath *)
Record dpath := mkPath {
  dp_iacct : N;      (* InternalAccount *)
  dp_acct : N;       (* Account: ChildIndex() of the account key *)
  dp_branch : N;
  dp_index : N;
  dp_fp : N;         (* MasterKeyFingerprint *)
}.
Definition imported_path : dpath := mkPath imported_acct 0 0 0 0.    (* ImportedDerivationPath *)
Definition zero_path : dpath := mkPath 0 0 0 0 0.

Definition dpath_eq_dec : forall a b : dpath, {a = b} + {a <> b}.
Proof. decide equality; apply N.eq_dec. Defined.

(* ------------------------------------------------------------------ disk *)

Inductive acct_kind := ADefault | AWatchOnly.

(** dbDefaultAccountRow / dbWatchOnlyAccountRow without the next indices. *)
Record acct_row := mkRow {
  ar_kind : acct_kind;
  ar_pub : skey;                 (* pubKeyEncrypted: the account xpub *)
  ar_priv : option skey;         (* privKeyEncrypted: the account xprv; None = empty *)
  ar_schema : option schema;     (* addrSchema override (watch-only rows) *)
  ar_fp : N;                     (* masterKeyFingerprint (watch-only rows) *)
  ar_name : N;
}.

Inductive addr_row :=
| RChain (acct branch index : N)                  (* dbChainAddressRow *)
| RImported (pubk : skey) (privk : option skey)   (* dbImportedAddressRow *)
| RScript (sc : N) (secret : bool).               (* dbScriptAddressRow (secret) / dbWitnessScriptAddressRow (isSecretScript) *)

Record disk := mkDisk {
  d_master : skey;                                 (* master HD private key *)
  d_pass : N;                                      (* passphrase the master private key params accept *)
  d_pubpass : N;                                   (* passphrase the master public key params accept *)
  d_scopes : list (scope * (schema * skey));       (* scope schema, coin-type private key *)
  d_last : list (scope * N);                       (* lastAccount *)
  d_accts : list ((scope * N) * acct_row);
  d_next : list ((scope * N * bool) * N);          (* next index of (scope, account, internal?) *)
  d_addrs : list ((scope * akey) * addr_row);
}.

(* ---------------------------------------------------------------- memory *)

(** accountInfo *)
Record acct_info := mkAI {
  ai_kind : acct_kind;
  ai_pub : skey;                 (* acctKeyPub *)
  ai_enc : option skey;          (* acctKeyEncrypted *)
  ai_priv : option skey;         (* acctKeyPriv (nil when locked / imported) *)
  ai_schema : option schema;
  ai_fp : N;
  ai_next_ext : N;
  ai_next_int : N;
}.

(** managedAddress *)
Record maddr := mkMA {
  ma_scope : scope;
  ma_path : dpath;
  ma_fmt : afmt;
  ma_pub : pubkey;
  ma_imported : bool;
  ma_internal : bool;
  ma_enc : option privkey;       (* privKeyEncrypted *)
  ma_ct : option privkey;        (* privKeyCT *)
}.

(** scriptAddress *)
Record saddr := mkSA {
  sa_scope : scope;
  sa_script : N;
  sa_enc : option N;             (* scriptEncrypted *)
  sa_ct : option N;              (* scriptClearText *)
  sa_secret : bool;              (* isSecretScript (always true for P2SH scripts) *)
}.

Inductive mobj := MKey (a : maddr) | MScript (a : saddr).

Record mem := mkMem {
  m_locked : bool;
  m_pass : N;                                   (* passphrase masterKeyPriv's params accept *)
  m_scopes : list (scope * schema);             (* scopedManagers with their addrSchema *)
  m_accts : list ((scope * N) * acct_info);     (* ScopedKeyManager.acctInfo *)
  m_addrs : list ((scope * akey) * nat);        (* ScopedKeyManager.addrs -> object *)
  m_queue : list (scope * nat * N * N);         (* deriveOnUnlock: object, branch, index *)
  m_pk : list ((scope * dpath) * privkey);      (* privKeyCache *)
  m_heap : list mobj;                           (* every managed address object ever created *)
  m_handles : list nat;                         (* objects handed to the caller, in order *)
}.

Record state := mkState { st_disk : disk; st_mem : mem }.

(** key equalities *)
Definition sa_dec : forall a b : scope * N, {a = b} + {a <> b}.
Proof. decide equality; [apply N.eq_dec | apply scope_eq_dec]. Defined.
Definition sk_dec : forall a b : scope * akey, {a = b} + {a <> b}.
Proof. decide equality; [apply akey_eq_dec | apply scope_eq_dec]. Defined.
Definition sab_dec : forall a b : scope * N * bool, {a = b} + {a <> b}.
Proof. decide equality; [apply Bool.bool_dec | apply sa_dec]. Defined.
Definition sp_dec : forall a b : scope * dpath, {a = b} + {a <> b}.
Proof. decide equality; [apply dpath_eq_dec | apply scope_eq_dec]. Defined.

(** field setters *)
Definition set_d_pass v d := mkDisk (d_master d) v (d_pubpass d) (d_scopes d) (d_last d) (d_accts d) (d_next d) (d_addrs d).
Definition set_d_pubpass v d := mkDisk (d_master d) (d_pass d) v (d_scopes d) (d_last d) (d_accts d) (d_next d) (d_addrs d).
Definition set_d_scopes v d := mkDisk (d_master d) (d_pass d) (d_pubpass d) v (d_last d) (d_accts d) (d_next d) (d_addrs d).
Definition set_d_last v d := mkDisk (d_master d) (d_pass d) (d_pubpass d) (d_scopes d) v (d_accts d) (d_next d) (d_addrs d).
Definition set_d_accts v d := mkDisk (d_master d) (d_pass d) (d_pubpass d) (d_scopes d) (d_last d) v (d_next d) (d_addrs d).
Definition set_d_next v d := mkDisk (d_master d) (d_pass d) (d_pubpass d) (d_scopes d) (d_last d) (d_accts d) v (d_addrs d).
Definition set_d_addrs v d := mkDisk (d_master d) (d_pass d) (d_pubpass d) (d_scopes d) (d_last d) (d_accts d) (d_next d) v.

Definition set_m_locked v m := mkMem v (m_pass m) (m_scopes m) (m_accts m) (m_addrs m) (m_queue m) (m_pk m) (m_heap m) (m_handles m).
Definition set_m_pass v m := mkMem (m_locked m) v (m_scopes m) (m_accts m) (m_addrs m) (m_queue m) (m_pk m) (m_heap m) (m_handles m).
Definition set_m_scopes v m := mkMem (m_locked m) (m_pass m) v (m_accts m) (m_addrs m) (m_queue m) (m_pk m) (m_heap m) (m_handles m).
Definition set_m_accts v m := mkMem (m_locked m) (m_pass m) (m_scopes m) v (m_addrs m) (m_queue m) (m_pk m) (m_heap m) (m_handles m).
Definition set_m_addrs v m := mkMem (m_locked m) (m_pass m) (m_scopes m) (m_accts m) v (m_queue m) (m_pk m) (m_heap m) (m_handles m).
Definition set_m_queue v m := mkMem (m_locked m) (m_pass m) (m_scopes m) (m_accts m) (m_addrs m) v (m_pk m) (m_heap m) (m_handles m).
Definition set_m_pk v m := mkMem (m_locked m) (m_pass m) (m_scopes m) (m_accts m) (m_addrs m) (m_queue m) v (m_heap m) (m_handles m).
Definition set_m_heap v m := mkMem (m_locked m) (m_pass m) (m_scopes m) (m_accts m) (m_addrs m) (m_queue m) (m_pk m) v (m_handles m).
Definition set_m_handles v m := mkMem (m_locked m) (m_pass m) (m_scopes m) (m_accts m) (m_addrs m) (m_queue m) (m_pk m) (m_heap m) v.

Definition upd_mem (f : mem -> mem) (st : state) : state := mkState (st_disk st) (f (st_mem st)).
Definition upd_disk (f : disk -> disk) (st : state) : state := mkState (f (st_disk st)) (st_mem st).

(* --------------------------------------------------------------- results *)

Inductive errc :=
| ELocked | EWatching | EAddrNotFound | EAcctNotFound | EScopeNotFound | ECrypto
| ENotCached | ENotPriv | EDuplicate | ETooMany | EWrongPass | EKeyChain | EOther | EPanic.

Inductive res (A : Type) :=
| Ok (st : state) (a : A)
| Err (st : state) (e : errc).     (* memory side effects made so far are kept *)
Arguments Ok {A} st a.
Arguments Err {A} st e.

Definition bind {A B} (r : res A) (f : state -> A -> res B) : res B :=
  match r with Ok st a => f st a | Err st e => Err st e end.

Definition is_some {A} (o : option A) : bool := match o with Some _ => true | None => false end.

Definition locked (st : state) : bool := m_locked (st_mem st).
Definition heap_get (st : state) (oid : nat) : option mobj := nth_error (m_heap (st_mem st)) oid.

Fixpoint list_set {A} (l : list A) (i : nat) (x : A) : list A :=
  match l, i with
  | [], _ => []
  | _ :: l', O => x :: l'
  | y :: l', S i' => y :: list_set l' i' x
  end.

Definition heap_set (st : state) (oid : nat) (o : mobj) : state :=
  upd_mem (fun m => set_m_heap (list_set (m_heap m) oid o) m) st.

Definition alloc (st : state) (o : mobj) : state * nat :=
  (upd_mem (fun m => set_m_heap (m_heap m ++ [o]) m) st, length (m_heap (st_mem st))).

Definition enqueue (st : state) (s : scope) (oid : nat) (b i : N) : state :=
  upd_mem (fun m => set_m_queue (m_queue m ++ [(s, oid, b, i)]) m) st.

Definition cache_addr (st : state) (s : scope) (k : akey) (oid : nat) : state :=
  upd_mem (fun m => set_m_addrs (aset sk_dec (m_addrs m) (s, k) oid) m) st.

Definition cache_acct (st : state) (s : scope) (a : N) (ai : acct_info) : state :=
  upd_mem (fun m => set_m_accts (aset sa_dec (m_accts m) (s, a) ai) m) st.

Definition disk_next (d : disk) (s : scope) (a : N) (internal : bool) : N :=
  match aget sab_dec (d_next d) (s, a, internal) with Some n => n | None => 0 end.

(** the address an object stands for, and its cache/database key *)
Definition obj_addr (o : mobj) : addr :=
  match o with
  | MKey ma => AKey (ma_fmt ma) (ma_pub ma)
  | MScript sa => AScriptHash (sa_script sa)
  end.
Definition obj_akey (o : mobj) : akey := addr_key (obj_addr o).

(* ------------------------------------------------------ derivation pieces *)

(** accountAddrType *)
Definition acct_fmt (sch : schema) (ai : acct_info) (internal : bool) : afmt :=
  let sc := match ai_schema ai with Some o => o | None => sch end in
  if internal then int_fmt sc else ext_fmt sc.

Inductive dres := DOk (k : xkey) | DErr | DPanic.

(** deriveKey: [DPanic] = the private flag is set but acctKeyPriv is nil. *)
Definition derive_key (ai : acct_info) (branch index : N) (private : bool) : dres :=
  (* acctKeyPriv comes from NewKeyFromString (loadAccountInfo / Unlock): full width *)
  let acct_key := if private then option_map (fun k => XPriv k Full) (ai_priv ai) else Some (XPub (ai_pub ai)) in
  match acct_key with
  | None => DPanic
  | Some ak =>
    match x_derive ak branch with
    | None => DErr
    | Some bk => match x_derive bk index with None => DErr | Some k => DOk k end
    end
  end.

(** newManagedAddressFromExtKey (+ newManagedAddress' re-derivation check when
    the account private key is at hand).  [None] = validation error. *)
Definition mk_maddr (s : scope) (path : dpath) (key : xkey) (fmt : afmt) (ai : acct_info) : option maddr :=
  match key with
  | XPub k => Some (mkMA s path fmt (Pub k) false false None None)
  | XPriv k _ =>
    let ma := mkMA s path fmt (Pub k) false false (Some (Priv k)) (Some (Priv k)) in
    match ai_priv ai with
    | None => Some ma
    | Some _ =>
      match derive_key ai (dp_branch path) (dp_index path) true with
      | DOk rk => if skey_eq_dec (x_skey rk) k then Some ma else None
      | _ => None
      end
    end
  end.

Definition set_internal (v : bool) (ma : maddr) : maddr :=
  mkMA (ma_scope ma) (ma_path ma) (ma_fmt ma) (ma_pub ma) (ma_imported ma) v (ma_enc ma) (ma_ct ma).
Definition set_keys (e c : option privkey) (ma : maddr) : maddr :=
  mkMA (ma_scope ma) (ma_path ma) (ma_fmt ma) (ma_pub ma) (ma_imported ma) (ma_internal ma) e c.

(** keyToManaged: a public-only address of an account that has a private key
    is queued for the next unlock. *)
Definition key_to_managed (st : state) (s : scope) (sch : schema) (key : xkey) (path : dpath)
           (ai : acct_info) : res nat :=
  let internal := dp_branch path =? internal_branch in
  match mk_maddr s path key (acct_fmt sch ai internal) ai with
  | None => Err st EOther
  | Some ma =>
    let '(st1, oid) := alloc st (MKey (set_internal internal ma)) in
    Ok (if x_is_private key || negb (is_some (ai_enc ai)) then st1
        else enqueue st1 s oid (dp_branch path) (dp_index path)) oid
  end.

Definition last_index (next : N) : N := if 0 <? next then next - 1 else 0.

(** loadAccountInfo *)
Definition load_acct (st : state) (s : scope) (sch : schema) (a : N) : res acct_info :=
  match aget sa_dec (m_accts (st_mem st)) (s, a) with
  | Some ai => Ok st ai
  | None =>
    if a =? imported_acct then Err st ECrypto      (* its row carries no extended keys *)
    else
    match aget sa_dec (d_accts (st_disk st)) (s, a) with
    | None => Err st EAcctNotFound
    | Some row =>
      let has_priv := negb (locked st) && match ar_kind row with ADefault => true | AWatchOnly => false end in
      let ai := mkAI (ar_kind row) (ar_pub row) (ar_priv row)
                     (if has_priv then ar_priv row else None)
                     (ar_schema row) (ar_fp row)
                     (disk_next (st_disk st) s a false) (disk_next (st_disk st) s a true) in
      let last (st : state) (branch next : N) : res nat :=
        let index := last_index next in
        match derive_key ai branch index has_priv with
        | DOk k => key_to_managed st s sch k (mkPath a (child_num (ai_pub ai)) branch index (ai_fp ai)) ai
        | DErr => Err st EKeyChain
        | DPanic => Err st EPanic
        end in
      bind (last st external_branch (ai_next_ext ai)) (fun st _ =>
      bind (last st internal_branch (ai_next_int ai)) (fun st _ =>
      Ok (cache_acct st s a ai) ai))
    end
  end.

(** chainAddressRowToManaged (through deriveKeyFromPath) *)
Definition chain_row_to_managed (st : state) (s : scope) (sch : schema) (a b i : N) : res nat :=
  let private := negb (locked st) in
  bind (load_acct st s sch a) (fun st ai =>
    let private := private && is_some (ai_priv ai) in
    match derive_key ai b i private with
    | DOk k =>
      let acct_key := if private then match ai_priv ai with Some p => p | None => ai_pub ai end else ai_pub ai in
      key_to_managed st s sch k (mkPath a (child_num acct_key) b i (ai_fp ai)) ai
    | DErr => Err st EKeyChain
    | DPanic => Err st EPanic
    end).

(** rowInterfaceToManaged *)
Definition row_to_managed (st : state) (s : scope) (sch : schema) (row : addr_row) : res nat :=
  match row with
  | RChain a b i => chain_row_to_managed st s sch a b i
  | RImported pubk privk =>
    let '(st1, oid) := alloc st (MKey (mkMA s imported_path (ext_fmt sch) (Pub pubk) true false
                                            (option_map Priv privk) None)) in
    Ok st1 oid
  | RScript sc secret =>
    let '(st1, oid) := alloc st (MScript (mkSA s sc (Some sc) None secret)) in
    Ok st1 oid
  end.

(** loadAddress: from the database, without touching the address cache *)
Definition load_address (st : state) (s : scope) (sch : schema) (k : akey) : res nat :=
  match aget sk_dec (d_addrs (st_disk st)) (s, k) with
  | None => Err st EAddrNotFound
  | Some row => row_to_managed st s sch row
  end.

(** loadAndCacheAddress *)
Definition load_and_cache (st : state) (s : scope) (sch : schema) (k : akey) : res nat :=
  match aget sk_dec (d_addrs (st_disk st)) (s, k) with
  | None => Err st EAddrNotFound
  | Some row =>
    bind (row_to_managed st s sch row) (fun st oid =>
      match heap_get st oid with
      | Some o => Ok (cache_addr st s (obj_akey o) oid) oid
      | None => Err st EOther
      end)
  end.

(** ScopedKeyManager.Address *)
Definition scoped_address (st : state) (s : scope) (sch : schema) (k : akey) : res nat :=
  match aget sk_dec (m_addrs (st_mem st)) (s, k) with
  | Some oid => Ok st oid
  | None => load_and_cache st s sch k
  end.

(** Manager.Address: the first scoped manager that knows the address.  (The Go
    code walks the managers in map order; the answer depends on that order only
    when two scopes hold the same script address, which takes the same imported
    key in two scopes - the harness never does that.) *)
Fixpoint mgr_address (scopes : list (scope * schema)) (st : state) (k : akey) : res (scope * nat) :=
  match scopes with
  | [] => Err st EAddrNotFound
  | (s, sch) :: rest =>
    match scoped_address st s sch k with
    | Ok st' oid => Ok st' (s, oid)
    | Err st' _ => mgr_address rest st' k
    end
  end.

(* ---------------------------------------------- nextAddresses / extendAddresses *)

(** the new managed addresses of indices [idxs] of one branch *)
Fixpoint make_objs (st : state) (s : scope) (fmt : afmt) (ai : acct_info) (bk : xkey) (a acct_child branch fp : N)
         (internal : bool) (idxs : list N) : res (list (nat * N)) :=
  match idxs with
  | [] => Ok st []
  | idx :: rest =>
    match x_derive bk idx with
    | None => Err st EKeyChain
    | Some key =>
      match mk_maddr s (mkPath a acct_child branch idx fp) key fmt ai with
      | None => Err st EOther
      | Some ma =>
        let '(st1, oid) := alloc st (MKey (if internal then set_internal true ma else ma)) in
        bind (make_objs st1 s fmt ai bk a acct_child branch fp internal rest) (fun st l => Ok st ((oid, idx) :: l))
      end
    end
  end.

(** putChainedAddress: the address row and the account's next index *)
Definition put_chained (st : state) (s : scope) (k : akey) (a branch idx : N) : state :=
  upd_disk (fun d => set_d_next (aset sab_dec (d_next d) (s, a, branch =? internal_branch) (idx + 1))
                       (set_d_addrs (aset sk_dec (d_addrs d) (s, k) (RChain a branch idx)) d)) st.

Definition obj_key_of (st : state) (oid : nat) : option akey := option_map obj_akey (heap_get st oid).

(** the write loop of nextAddresses: store, then read back (the cache is filled
    by onCommit) *)
Fixpoint write_readback (st : state) (s : scope) (sch : schema) (a branch : N) (objs : list (nat * N)) : res unit :=
  match objs with
  | [] => Ok st tt
  | (oid, idx) :: rest =>
    match obj_key_of st oid with
    | None => Err st EOther
    | Some k =>
      bind (load_address (put_chained st s k a branch idx) s sch k) (fun st _ =>
        write_readback st s sch a branch rest)
    end
  end.

(** the write loop of extendAddresses: store only *)
Fixpoint write_only (st : state) (s : scope) (a branch : N) (objs : list (nat * N)) : state :=
  match objs with
  | [] => st
  | (oid, idx) :: rest =>
    match obj_key_of st oid with
    | None => write_only st s a branch rest
    | Some k => write_only (put_chained st s k a branch idx) s a branch rest
    end
  end.

(** cache the new objects; queue them for unlock when [queue] *)
Fixpoint cache_objs (st : state) (s : scope) (branch : N) (queue : bool) (objs : list (nat * N)) : state :=
  match objs with
  | [] => st
  | (oid, idx) :: rest =>
    let st1 := match obj_key_of st oid with Some k => cache_addr st s k oid | None => st end in
    cache_objs (if queue then enqueue st1 s oid branch idx else st1) s branch queue rest
  end.

Definition set_next (internal : bool) (n : N) (ai : acct_info) : acct_info :=
  if internal then mkAI (ai_kind ai) (ai_pub ai) (ai_enc ai) (ai_priv ai) (ai_schema ai) (ai_fp ai) (ai_next_ext ai) n
  else mkAI (ai_kind ai) (ai_pub ai) (ai_enc ai) (ai_priv ai) (ai_schema ai) (ai_fp ai) n (ai_next_int ai).

Definition index_range (from : N) (count : nat) : list N := map (fun k => from + N.of_nat k) (seq 0 count).

(** nextAddresses *)
Definition next_addresses (st : state) (s : scope) (sch : schema) (a n : N) (internal : bool) : res (list nat) :=
  bind (load_acct st s sch a) (fun st ai =>
    let watch_only := negb (is_some (ai_enc ai)) in
    let acct_key := if negb (locked st) && negb watch_only then option_map (fun k => XPriv k Full) (ai_priv ai)
                    else Some (XPub (ai_pub ai)) in
    let branch := if internal then internal_branch else external_branch in
    let next := if internal then ai_next_int ai else ai_next_ext ai in
    let fmt := acct_fmt sch ai internal in
    if (max_addresses_per_account <? n) || (max_addresses_per_account <? next + n) then Err st ETooMany
    else
    match acct_key with
    | None => Err st EPanic                       (* acctKey.DeriveNonStandard on a nil key *)
    | Some ak =>
      match x_derive ak branch with
      | None => Err st EKeyChain
      | Some bk =>
        if n =? 0 then Err st EPanic              (* onCommit indexes addressInfo[len-1]: a crash; see MgrCorr.zero_request *)
        else
        bind (make_objs st s fmt ai bk a (child_num (x_skey ak)) branch (ai_fp ai) internal
                        (index_range next (N.to_nat n))) (fun st objs =>
        bind (write_readback st s sch a branch objs) (fun st _ =>
          (* onCommit *)
          let st := cache_objs st s branch (locked st && negb watch_only) objs in
          Ok (cache_acct st s a (set_next internal (next + n) ai)) (map fst objs)))
      end
    end).

(** extendAddresses; [extend_priv] = Generated.AddrFacts.extend_derives_private_when_unlocked *)
Definition extend_addresses (extend_priv : bool) (st : state) (s : scope) (sch : schema) (a last : N)
           (internal : bool) : res unit :=
  bind (load_acct st s sch a) (fun st ai =>
    let watch_only := if extend_priv then negb (is_some (ai_enc ai))     (* len(acctKeyEncrypted) == 0 *)
                      else is_some (ai_priv ai) in                       (* acctKeyPriv != nil *)
    let acct_key := if negb (locked st) && negb watch_only then option_map (fun k => XPriv k Full) (ai_priv ai)
                    else Some (XPub (ai_pub ai)) in
    let branch := if internal then internal_branch else external_branch in
    let next := if internal then ai_next_int ai else ai_next_ext ai in
    let fmt := acct_fmt sch ai internal in
    if last <? next then Ok st tt
    else if max_addresses_per_account <? last then Err st ETooMany
    else
    match acct_key with
    | None => Err st EPanic
    | Some ak =>
      match x_derive ak branch with
      | None => Err st EKeyChain
      | Some bk =>
        bind (make_objs st s fmt ai bk a (child_num (ai_pub ai)) branch (ai_fp ai) internal
                        (index_range next (N.to_nat (last + 1 - next)))) (fun st objs =>
          let st := write_only st s a branch objs in
          let st := cache_objs st s branch (locked st && negb watch_only) objs in
          Ok (cache_acct st s a (set_next internal (last + 1) ai)) tt)
      end
    end).

(* ------------------------------------------------------------ lock / unlock *)

Definition clear_ct (o : mobj) : mobj :=
  match o with
  | MKey ma => MKey (set_keys (ma_enc ma) None ma)
  | MScript sa => MScript (mkSA (sa_scope sa) (sa_script sa) (sa_enc sa) None (sa_secret sa))
  end.

Definition clear_priv (ai : acct_info) : acct_info :=
  mkAI (ai_kind ai) (ai_pub ai) (ai_enc ai) None (ai_schema ai) (ai_fp ai) (ai_next_ext ai) (ai_next_int ai).
(** Unlock: acctKeyPriv := decrypt acctKeyEncrypted; accounts without an encrypted
    private key (watch-only) are skipped, their acctKeyPriv stays nil *)
Definition fill_priv (ai : acct_info) : acct_info :=
  mkAI (ai_kind ai) (ai_pub ai) (ai_enc ai) (ai_enc ai) (ai_schema ai) (ai_fp ai) (ai_next_ext ai) (ai_next_int ai).

(** Manager.lock(): account private keys, clear texts of CACHED addresses, the
    cache of derived private keys.  (It also wipes the clear text of the two
    last-address objects of every cached account; clear texts are not
    observable here and those objects are not tracked per account.) *)
Definition lock_all (st : state) : state :=
  let m := st_mem st in
  let heap := fold_left (fun h kv => match nth_error h (snd kv) with
                                     | Some o => list_set h (snd kv) (clear_ct o)
                                     | None => h end) (m_addrs m) (m_heap m) in
  upd_mem (fun m => set_m_locked true (set_m_pk [] (set_m_accts (amap clear_priv (m_accts m)) (set_m_heap heap m)))) st.

(** the deriveOnUnlock loop *)
Fixpoint derive_queue (st : state) (q : list (scope * nat * N * N)) : res unit :=
  match q with
  | [] => Ok st tt
  | (s, oid, b, i) :: rest =>
    match heap_get st oid with
    | Some (MKey ma) =>
      match aget scope_eq_dec (m_scopes (st_mem st)) s with
      | None => Err st EScopeNotFound
      | Some sch =>
        bind (load_acct st s sch (dp_iacct (ma_path ma))) (fun st ai =>
          match derive_key ai b i (is_some (ai_priv ai)) with
          | DOk (XPriv k _) =>
            let st := heap_set st oid (MKey (set_keys (Some (Priv k)) (Some (Priv k)) ma)) in
            derive_queue (upd_mem (fun m => set_m_queue (tl (m_queue m)) m) st) rest
          | DOk (XPub _) => Err st EPanic          (* privKey is nil: privKey.Serialize() *)
          | DErr => Err (lock_all st) EKeyChain
          | DPanic => Err st EPanic
          end)
      end
    | _ => derive_queue (upd_mem (fun m => set_m_queue (tl (m_queue m)) m) st) rest
    end
  end.

(** Unlock first makes sure that the accounts of the addresses waiting in
    deriveOnUnlock are in the account cache (InvalidateAccountCache, which the
    model does not have, could have dropped them) *)
Fixpoint reload_queue_accts (st : state) (q : list (scope * nat * N * N)) : res unit :=
  match q with
  | [] => Ok st tt
  | (s, oid, _, _) :: rest =>
    match heap_get st oid, aget scope_eq_dec (m_scopes (st_mem st)) s with
    | Some (MKey ma), Some sch =>
      bind (load_acct st s sch (dp_iacct (ma_path ma))) (fun st _ => reload_queue_accts st rest)
    | _, _ => reload_queue_accts st rest
    end
  end.

(** Manager.Unlock *)
Definition unlock (st : state) (pass : N) : state * option errc :=
  let m := st_mem st in
  if negb (m_locked m) then
    if pass =? m_pass m then (st, None) else (lock_all st, Some EWrongPass)
  else if negb (pass =? m_pass m) then (lock_all st, Some EWrongPass)
  else
    match reload_queue_accts st (m_queue m) with
    | Err st0 e => (lock_all st0, Some e)
    | Ok st0 _ =>
      let st1 := upd_mem (fun m => set_m_accts (amap fill_priv (m_accts m)) m) st0 in
      match derive_queue st1 (m_queue (st_mem st0)) with
      | Ok st2 _ => (upd_mem (set_m_locked false) st2, None)
      | Err st2 e => (st2, Some e)
      end
    end.

(* ------------------------------------------------------------- observations *)

Inductive pres := POk (k : privkey) | PErr (e : errc).
Inductive sres := SOk (sc : N) | SErr (e : errc).

(** what the caller can read off a managed address *)
Record ainfo := mkInfo {
  r_scope : scope;        (* DerivationInfo: scope, path, ok *)
  r_path : dpath;
  r_known : bool;
  r_iacct : N;            (* InternalAccount() *)
  r_fmt : afmt;           (* format of Address() *)
  r_pub : pubkey;         (* PubKey() *)
  r_internal : bool;
  r_imported : bool;
  r_priv : pres;          (* PrivKey() *)
}.
Inductive rinfo := RKey (a : ainfo) | RScr (s : scope) (sc : N) (v : sres).

(** managedAddress.PrivKey() *)
Definition priv_key (st : state) (oid : nat) : state * pres :=
  match heap_get st oid with
  | Some (MKey ma) =>
    if locked st then (st, PErr ELocked)
    else match ma_enc ma with
         | None => (st, PErr EWatching)
         | Some k =>
           let ct := match ma_ct ma with Some c => c | None => k end in
           (heap_set st oid (MKey (set_keys (ma_enc ma) (Some ct) ma)), POk ct)
         end
  | _ => (st, PErr EOther)
  end.

(** scriptAddress.Script() *)
Definition script_of (st : state) (oid : nat) : state * sres :=
  match heap_get st oid with
  | Some (MScript sa) =>
    (* a script that is not secret is encrypted with the public crypto key: readable while locked *)
    if sa_secret sa && locked st then (st, SErr ELocked)
    else match sa_enc sa with
         | None => (st, SErr ECrypto)
         | Some sc =>
           let ct := match sa_ct sa with Some c => c | None => sc end in
           (heap_set st oid (MScript (mkSA (sa_scope sa) (sa_script sa) (sa_enc sa) (Some ct) (sa_secret sa))), SOk ct)
         end
  | _ => (st, SErr EOther)
  end.

(** hand an object to the caller, who reads all its getters *)
Definition report (st : state) (oid : nat) : state * rinfo :=
  let st := upd_mem (fun m => set_m_handles (m_handles m ++ [oid]) m) st in
  match heap_get st oid with
  | Some (MKey ma) =>
    let '(st', p) := priv_key st oid in
    (st', RKey (mkInfo (if ma_imported ma then (0, 0) else ma_scope ma)
                       (if ma_imported ma then zero_path else ma_path ma)
                       (negb (ma_imported ma)) (dp_iacct (ma_path ma))
                       (ma_fmt ma) (ma_pub ma) (ma_internal ma) (ma_imported ma) p))
  | Some (MScript sa) =>
    let '(st', v) := script_of st oid in
    (st', RScr (sa_scope sa) (sa_script sa) v)
  | None => (st, RScr (0, 0) 0 (SErr EOther))
  end.

Fixpoint report_all (st : state) (oids : list nat) : state * list rinfo :=
  match oids with
  | [] => (st, [])
  | oid :: rest =>
    let '(st1, r) := report st oid in
    let '(st2, rs) := report_all st1 rest in
    (st2, r :: rs)
  end.

(* --------------------------------------------------------------- operations *)

Inductive op :=
| OOpen                                                    (* close, reopen the file, waddrmgr.Open *)
| OUnlock (pass : N)
| OLock
| OChangePass (old new : N)                                (* ChangePassphrase(private = true) *)
| ONewScope (s : scope) (sch : schema)                     (* NewScopedKeyManager *)
| ONewAccount (s : scope) (name : N)
| OImportXpub (s : scope) (name x cn fp : N) (sch : option schema)   (* NewAccountWatchingOnly *)
| ONext (s : scope) (a : N) (internal : bool) (n : N)      (* Next{External,Internal}Addresses *)
| OExtend (s : scope) (a : N) (internal : bool) (last : N) (* Extend{External,Internal}Addresses *)
| OLookup (ad : addr)                                      (* Manager.Address *)
| OMarkUsed (ad : addr)                                    (* Manager.MarkUsed *)
| ODerive (s : scope) (p : dpath)                          (* DeriveFromKeyPath *)
| ODeriveCache (s : scope) (p : dpath)                     (* DeriveFromKeyPathCache *)
| OImportKey (s : scope) (k : N)                           (* ImportPrivateKey *)
| OImportScript (s : scope) (sc : N) (secret : bool)       (* ImportScript (secret) / ImportWitnessScript / ImportTaprootScript *)
| OProps (s : scope) (a : N)                               (* AccountProperties: key counts *)
| OPriv (h : nat)                                          (* PrivKey() of the h-th returned address *)
| OScript (h : nat)                                        (* Script() of the h-th returned address *)
| OImportPub (s : scope) (k : N)                           (* ImportPublicKey *)
| OChangePubPass (old new : N).                            (* ChangePassphrase(private = false) *)

Inductive out :=
| OutOk
| OutErr (e : errc)
| OutAddrs (l : list rinfo)
| OutProps (next_ext next_int : N)
| OutAcct (a : N)
| OutKey (k : privkey)
| OutScript (sc : N).

Definition fresh_mem (d : disk) : mem :=
  mkMem true (d_pass d) (map (fun kv => (fst kv, fst (snd kv))) (d_scopes d)) [] [] [] [] [] [].

(** DeriveNonStandard(i + HardenedKeyStart) of a private key (cannot fail) *)
Definition hard_child (x : xkey) (i : N) : xkey :=
  match x_derive x (i + hardened_start) with Some y => y | None => x end.

(** createManagerKeyScope: coin-type key and account 0 of a scope, derived in
    one go from the root key ([root]: NewMaster's output in Create, the master
    key read back from the database in NewScopedKeyManager - full width either
    way): deriveCoinTypeKey = root -> purpose' -> coin', deriveAccountKey =
    coin' -> 0', each step DeriveNonStandard on the result of the one before.
    createManagerNS (waddrmgr.Create, default scopes) stores lastAccount = 0;
    whether NewScopedKeyManager does is the source fact [f_scope_last]. *)
Definition create_scope (set_last : bool) (d : disk) (s : scope) (sch : schema) : disk :=
  let root := XPriv (d_master d) Full in
  let coin := hard_child (hard_child root (fst s)) (snd s) in
  let acct := x_skey (hard_child coin 0) in
  set_d_scopes (d_scopes d ++ [(s, (sch, x_skey coin))])
    (set_d_last (if set_last then aset scope_eq_dec (d_last d) s 0 else d_last d)
       (set_d_accts (aset sa_dec (d_accts d) (s, 0) (mkRow ADefault acct (Some acct) None 0 0)) d)).

(** waddrmgr.Create followed by waddrmgr.Open *)
Definition init (seed pass : N) : state :=
  let d0 := mkDisk (master seed) pass 0 [] [] [] [] [] in
  let d := fold_left (fun d kv => create_scope true d (fst kv) (snd kv)) default_scopes d0 in
  mkState d (fresh_mem d).

Definition with_scope (st : state) (s : scope) (f : schema -> state * out) : state * out :=
  match aget scope_eq_dec (m_scopes (st_mem st)) s with
  | None => (st, OutErr EScopeNotFound)
  | Some sch => f sch
  end.

Definition name_taken (d : disk) (s : scope) (name : N) : bool :=
  existsb (fun kv => if scope_eq_dec (fst (fst kv)) s then ar_name (snd kv) =? name else false) (d_accts d).

(** fetchLastAccount: 2^32-1 when the scope has no lastAccount entry, so that
    the caller's `account++` wraps to 0 *)
Definition last_account (d : disk) (s : scope) : N :=
  match aget scope_eq_dec (d_last d) s with Some n => n | None => 4294967295 end.

(** name 0 = "default" (account 0 of every scope) *)
Definition new_account_row (st : state) (s : scope) (name : N) (row : N -> option acct_row) : state * out :=
  let d := st_disk st in
  let a := (last_account d s + 1) mod 4294967296 in
  if name_taken d s name then (st, OutErr EDuplicate)
  else match row a with
       | None => (st, OutErr EKeyChain)
       | Some r =>
         (* put{Default,WatchOnly}AccountInfo(..., 0, 0, name): the row with both next indices 0 *)
         (upd_disk (fun d => set_d_last (aset scope_eq_dec (d_last d) s a)
                               (set_d_next (aset sab_dec (aset sab_dec (d_next d) (s, a, false) 0) (s, a, true) 0)
                                  (set_d_accts (aset sa_dec (d_accts d) (s, a) r) d))) st, OutAcct a)
       end.

Definition exists_address (st : state) (s : scope) (k : akey) : bool :=
  is_some (aget sk_dec (m_addrs (st_mem st)) (s, k)) || is_some (aget sk_dec (d_addrs (st_disk st)) (s, k)).

(** what the model takes from the current source text *)
Record facts := mkFacts { f_extend_priv : bool; f_scope_last : bool; f_cache_guard : bool }.

Definition step (f : facts) (st : state) (o : op) : state * out :=
  match o with
  | OOpen => (mkState (st_disk st) (fresh_mem (st_disk st)), OutOk)

  | OUnlock pass =>
    match unlock st pass with
    | (st', None) => (st', OutOk)
    | (st', Some e) => (st', OutErr e)
    end

  | OLock => if locked st then (st, OutErr ELocked) else (lock_all st, OutOk)

  | OChangePass old new =>
    if negb (old =? m_pass (st_mem st)) then (st, OutErr EWrongPass)
    else (upd_mem (set_m_pass new) (upd_disk (set_d_pass new) st), OutOk)

  | ONewScope s sch =>
    if locked st then (st, OutErr ELocked)
    else if is_some (aget scope_eq_dec (d_scopes (st_disk st)) s) then (st, OutErr EOther)
    else (upd_mem (fun m => set_m_scopes (m_scopes m ++ [(s, sch)]) m)
                  (upd_disk (fun d => create_scope (f_scope_last f) d s sch) st), OutOk)

  | ONewAccount s name =>
    if locked st then (st, OutErr ELocked)
    else with_scope st s (fun _ =>
      match aget scope_eq_dec (d_scopes (st_disk st)) s with
      | None => (st, OutErr EScopeNotFound)
      | Some (_, coin) =>
        new_account_row st s name (fun a =>
          (* newAccount: the coin-type key is read back from the database (full width) *)
          match x_derive (XPriv coin Full) (a + hardened_start) with
          | Some k => Some (mkRow ADefault (x_skey k) (Some (x_skey k)) None 0 name)
          | None => None
          end)
      end)

  | OImportXpub s name x cn fp sch =>
    with_scope st s (fun _ =>
      new_account_row st s name (fun _ => Some (mkRow AWatchOnly (xpub_key x cn) None sch fp name)))

  | ONext s a internal n =>
    with_scope st s (fun sch =>
      match next_addresses st s sch a n internal with
      | Ok st' oids => let '(st'', rs) := report_all st' oids in (st'', OutAddrs rs)
      | Err st' e => (st', OutErr e)
      end)

  | OExtend s a internal last =>
    with_scope st s (fun sch =>
      match extend_addresses (f_extend_priv f) st s sch a last internal with
      | Ok st' _ => (st', OutOk)
      | Err st' e => (st', OutErr e)
      end)

  | OLookup ad =>
    match mgr_address (m_scopes (st_mem st)) st (addr_key ad) with
    | Ok st' (_, oid) => let '(st'', r) := report st' oid in (st'', OutAddrs [r])
    | Err st' e => (st', OutErr e)
    end

  | OMarkUsed ad =>
    match mgr_address (m_scopes (st_mem st)) st (addr_key ad) with
    | Ok st' (s, _) =>
      (upd_mem (fun m => set_m_addrs (adel sk_dec (m_addrs m) (s, addr_key ad)) m) st', OutOk)
    | Err st' e => (st', OutErr e)
    end

  | ODerive s p =>
    with_scope st s (fun sch =>
      let private := negb (locked st) in
      let r := bind (load_acct st s sch (dp_iacct p)) (fun st ai =>
                 match derive_key ai (dp_branch p) (dp_index p) (private && is_some (ai_priv ai)) with
                 | DOk k => key_to_managed st s sch k p ai
                 | DErr => Err st EKeyChain
                 | DPanic => Err st EPanic
                 end) in
      match r with
      | Ok st' oid => let '(st'', ri) := report st' oid in (st'', OutAddrs [ri])
      | Err st' e => (st', OutErr e)
      end)

  | ODeriveCache s p =>
    with_scope st s (fun _ =>
      if locked st then (st, OutErr ELocked) else
      match aget sp_dec (m_pk (st_mem st)) (s, p) with
      | Some k => (st, OutKey k)
      | None =>
        match aget sa_dec (m_accts (st_mem st)) (s, dp_iacct p) with
        | None => (st, OutErr ENotCached)
        | Some ai =>
          match derive_key ai (dp_branch p) (dp_index p)
                           (negb (locked st) && (if f_cache_guard f then is_some (ai_priv ai) else true)) with
          | DOk (XPriv k _) =>
            (upd_mem (fun m => set_m_pk (aset sp_dec (m_pk m) (s, p) (Priv k)) m) st, OutKey (Priv k))
          | DOk (XPub _) => (st, OutErr ENotPriv)
          | DErr => (st, OutErr EKeyChain)
          | DPanic => (st, OutErr EPanic)
          end
        end
      end)

  | OImportKey s k =>
    with_scope st s (fun sch =>
      if locked st then (st, OutErr ELocked)
      else
        let ma := mkMA s imported_path (ext_fmt sch) (Pub (imp_key k)) true false
                       (Some (Priv (imp_key k))) (Some (Priv (imp_key k))) in
        let key := obj_akey (MKey ma) in
        if exists_address st s key then (st, OutErr EDuplicate)
        else
          let st1 := upd_disk (fun d => set_d_addrs (aset sk_dec (d_addrs d) (s, key)
                                                          (RImported (imp_key k) (Some (imp_key k)))) d) st in
          let '(st2, oid) := alloc st1 (MKey ma) in
          let '(st3, r) := report (cache_addr st2 s key oid) oid in
          (st3, OutAddrs [r]))

  | OImportScript s sc secret =>
    with_scope st s (fun _ =>
      if secret && locked st then (st, OutErr ELocked)
      else if exists_address st s (KScript sc) then (st, OutErr EDuplicate)
      else
        let st1 := upd_disk (fun d => set_d_addrs (aset sk_dec (d_addrs d) (s, KScript sc) (RScript sc secret)) d) st in
        let '(st2, oid) := alloc st1 (MScript (mkSA s sc (Some sc) (Some sc) secret)) in
        let '(st3, r) := report (cache_addr st2 s (KScript sc) oid) oid in
        (st3, OutAddrs [r]))

  | OProps s a =>
    with_scope st s (fun sch =>
      match load_acct st s sch a with
      | Ok st' ai => (st', OutProps (ai_next_ext ai) (ai_next_int ai))
      | Err st' e => (st', OutErr e)
      end)

  | OPriv h =>
    match nth_error (m_handles (st_mem st)) h with
    | None => (st, OutErr EOther)
    | Some oid =>
      match priv_key st oid with
      | (st', POk k) => (st', OutKey k)
      | (st', PErr e) => (st', OutErr e)
      end
    end

  | OScript h =>
    match nth_error (m_handles (st_mem st)) h with
    | None => (st, OutErr EOther)
    | Some oid =>
      match script_of st oid with
      | (st', SOk sc) => (st', OutScript sc)
      | (st', SErr e) => (st', OutErr e)
      end
    end

  | OImportPub s k =>
    (* ImportPublicKey: no private key, hence no need to be unlocked; compressed serialization *)
    with_scope st s (fun sch =>
      let ma := mkMA s imported_path (ext_fmt sch) (Pub (imp_pub_key k)) true false None None in
      let key := obj_akey (MKey ma) in
      if exists_address st s key then (st, OutErr EDuplicate)
      else
        let st1 := upd_disk (fun d => set_d_addrs (aset sk_dec (d_addrs d) (s, key) (RImported (imp_pub_key k) None)) d) st in
        let '(st2, oid) := alloc st1 (MKey ma) in
        let '(st3, r) := report (cache_addr st2 s key oid) oid in
        (st3, OutAddrs [r]))

  | OChangePubPass old new =>
    if negb (old =? d_pubpass (st_disk st)) then (st, OutErr EWrongPass)
    else (upd_disk (set_d_pubpass new) st, OutOk)
  end.

(** a history: the outputs of all operations, in order *)
Fixpoint run (f : facts) (st : state) (h : list op) : state * list out :=
  match h with
  | [] => (st, [])
  | o :: h' =>
    let '(st1, r) := step f st o in
    let '(st2, rs) := run f st1 h' in
    (st2, r :: rs)
  end.
