(** C05 - executable model of the lock discipline of waddrmgr
    (Manager + ScopedKeyManager + managed addresses).

    Code read: waddrmgr/manager.go (lock, Lock, Unlock, ChangePassphrase,
    ConvertToWatchingOnly, selectCryptoKey/Encrypt/Decrypt, loadManager/Open,
    Create), scoped_manager.go (loadAccountInfo, keyToManaged, deriveKeyFromPath,
    DeriveFromKeyPath, DeriveFromKeyPathCache, chainAddressRowToManaged,
    loadAndCacheAddress, nextAddresses, NewAccount, NewAccountWatchingOnly,
    ImportPrivateKey, importScriptAddress, AccountProperties), address.go
    (managedAddress.PrivKey/unlock/lock, scriptAddress / witnessScriptAddress /
    taprootScriptAddress Script/lock), snacl/snacl.go (DeriveKey).

    What the state is:
      disk  - which encrypted blobs exist and what seals them.  A passphrase
              is an abstract id (N).  Every call of newSecretKey draws a fresh
              salt, i.e. a fresh master key: a "generation" (N).  Stored
              master-key parameters are a pair (passphrase, generation);
              an encrypted crypto key records the generation that sealed it.
              IDEAL KDF/DIGEST LAW (the subject of C17): DeriveKey on
              parameters (pw, g) accepts exactly pw, and a blob sealed by
              generation g opens exactly under generation g.  (C17's known
              finding - passphrases with the same HMAC key block, i.e.
              trailing NUL bytes - is outside this model: the harness uses
              passphrases of at most 64 bytes without trailing NULs.)
              The crypto private key itself never changes, so account keys,
              address keys and imported keys sealed by it always open once it
              is in memory; what matters for them is only whether the
              encrypted blob EXISTS (it does not for watch-only accounts, for
              addresses derived while locked, after ConvertToWatchingOnly).
      mem   - the two flags, the in-memory copy of the parameters, and one
              boolean per clear-text buffer: "holds non-zero material".
              These are the buffers the hook Manager.VerifSecretBuffers
              reports, plus the clear text held by accountInfo.lastExternalAddr
              / lastInternalAddr (objects that are NOT in the addrs map).
      gone  - the buffers the manager has DROPPED from its own state, each
              with "still holds its clear text": an address object evicted by
              MarkUsed, the account key and the last-address objects of an
              account dropped by InvalidateAccountCache, a last-address object
              replaced by nextAddresses, the queued objects Unlock fills with
              their private key and then forgets, a derived key pushed out of
              the LRU, and whatever lock() itself drops (acctKeyPriv = nil,
              privKeyCT = nil, privKeyCache.Delete) - live unless it was
              zeroed first.  Nothing ever touches a [gone] entry again:
              lock() cannot reach it.  The harness observes these buffers
              through the references it retains (harness/cmd/c05/secrets.go).
              An object that was only ever handed to a caller (the result of
              DeriveFromKeyPath / ForEachAccountAddress on an unlocked
              manager) is the caller's copy and appears nowhere.

    The behaviours of the code that the property depends on come from
    coq/Generated/LockFacts.v (regenerated from source) through [facts]; the
    model is parameterised by them, so it follows the tree that is checked.

    Assumptions of the model (the correspondence harness stays inside them):
    every database transaction commits iff the operation returned nil (memory
    ahead of disk after an aborted transaction is C08/C10's subject); no
    BIP32 child is invalid; ExtendAddresses (S3), NewScopedKeyManager and the
    imported pseudo-account as a derivation source are not among the
    operations.  The accessors on address objects a caller keeps
    ([OpHeldPrivKey], [OpHeldScript]) take the object's fields as input; what
    becomes of the clear text in objects the manager DROPS is the subject of
    [gone] above. *)
From Verif Require Import Base.Prelude.
Local Open Scope N_scope.

(* ------------------------------------------------------------------ facts *)

Record facts := {
  (* DeriveFromKeyPathCache tests watch-only/locked before consulting the cache *)
  f_cache_checked : bool;
  (* Manager.lock() purges every scoped manager's privKeyCache *)
  f_lock_purges_cache : bool;
  (* the type switch in lock() covers *witnessScriptAddress and *taprootScriptAddress *)
  f_lock_wipes_wscripts : bool;
  (* lock() wipes accountInfo.lastExternalAddr / lastInternalAddr *)
  f_lock_wipes_last : bool;
  (* Unlock skips cached accounts that have no encrypted private key *)
  f_unlock_skips_keyless : bool;
  (* keyToManaged does not queue addresses of accounts without a private key *)
  f_keyless_not_queued : bool;
  (* ChangePassphrase refuses an empty new private passphrase (as Create does) *)
  f_change_rejects_empty : bool;
  (* managedAddress.PrivKey tests the lock state BEFORE it looks at the object
     (not only on the path that has to decrypt) *)
  f_privkey_checks_first : bool;
  (* Unlock loads the account of every derive-on-unlock entry into the account
     cache before it decrypts the account keys (InvalidateAccountCache may have
     dropped it) *)
  f_unlock_preloads : bool;
  (* --- lock() ZEROES what it drops / clears (not only `= nil` / Delete) --- *)
  (* acctInfo.acctKeyPriv.Zero() before acctInfo.acctKeyPriv = nil *)
  f_z_acct : bool;
  (* managedAddress.lock(): zero.Bytes(a.privKeyCT) before a.privKeyCT = nil *)
  f_z_key : bool;
  (* baseScriptAddress.lock(): zero.Bytes(a.scriptClearText) before = nil *)
  f_z_script : bool;
  (* the purge of privKeyCache calls key.Zero() on every entry it deletes *)
  f_z_cache : bool;
  (* cryptoKeyScript.Zero(), cryptoKeyPriv.Zero(), masterKeyPriv.Zero(), zero.Bytea64(&hashedPrivPassphrase) *)
  f_z_mgr : bool;
  (* --- objects that leave the manager's state while it is unlocked are wiped --- *)
  (* MarkUsed wipes the address object it deletes from the addrs cache *)
  f_e_markused : bool;
  (* InvalidateAccountCache wipes the account key and the last-address objects of the account it drops *)
  f_e_invalidate : bool;
  (* nextAddresses wipes the last-address object it replaces *)
  f_e_next : bool;
  (* Unlock does not leave the clear text in the queued (derive-on-unlock) objects it then forgets *)
  f_e_unlock : bool;
  (* DeriveFromKeyPathCache zeroes the key the LRU pushes out (the LRU has no eviction hook) *)
  f_e_lru : bool;
  (* capacity of privKeyCache (defaultPrivKeyCacheSize) *)
  f_cache_cap : N
}.

(* The id of the empty passphrase.  Go: append(salt[:], passphrase...) returns
   the salt's own backing array when the passphrase is empty, so the
   zero.Bytes(saltedPassphrase) that follows zeroes the manager's salt. *)
Definition empty_pass : N := 0.

(* ------------------------------------------------------------------ data *)

Inductive rc :=
| ROk | RLocked | RWatchOnly | RWrongPass
| RNotCached     (* ErrAccountNotCached *)
| RDup           (* ErrDuplicateAddress *)
| RNotFound      (* ErrAddressNotFound / ErrAccountNotFound *)
| RCrypto        (* ErrCrypto *)
| ROther
| RPanic.        (* nil dereference in the Go code *)

Inductive skind := KP2SH | KWitness | KTaproot.
Inductive ktype := CKPriv | CKScript | CKPub.

(* address identity inside one scope *)
Inductive akey :=
| KChain (acct br idx : N)      (* chained address m/purpose'/coin'/acct'/br/idx *)
| KImp (n : N)                  (* imported private key number n *)
| KScr (n : N).                 (* imported script number n *)

Definition akey_eqb (a b : akey) : bool :=
  match a, b with
  | KChain a1 b1 i1, KChain a2 b2 i2 => (a1 =? a2) && (b1 =? b2) && (i1 =? i2)
  | KImp n, KImp m => n =? m
  | KScr n, KScr m => n =? m
  | _, _ => false
  end.

Definition pair_eqb (a b : N * N) : bool := (fst a =? fst b) && (snd a =? snd b).
Definition addr_eqb (a b : N * akey) : bool := (fst a =? fst b) && akey_eqb (snd a) (snd b).
Definition path_eqb (a b : N * N * N * N) : bool :=
  let '(s1, a1, b1, i1) := a in let '(s2, a2, b2, i2) := b in
  (s1 =? s2) && (a1 =? a2) && (b1 =? b2) && (i1 =? i2).

Section AList.
  Context {K V : Type} (eqb : K -> K -> bool).
  Fixpoint alookup (k : K) (l : list (K * V)) : option V :=
    match l with
    | [] => None
    | (k', v) :: l' => if eqb k k' then Some v else alookup k l'
    end.
  Fixpoint aupsert (k : K) (v : V) (l : list (K * V)) : list (K * V) :=
    match l with
    | [] => [(k, v)]
    | (k', v') :: l' => if eqb k k' then (k, v) :: l' else (k', v') :: aupsert k v l'
    end.
  Definition avmap (f : V -> V) (l : list (K * V)) : list (K * V) :=
    map (fun kv => (fst kv, f (snd kv))) l.
End AList.

(* --- disk rows --- *)
Record drow := {
  dr_watch : bool;       (* dbWatchOnlyAccountRow (imported xpub) *)
  dr_has_priv : bool;    (* privKeyEncrypted present *)
  dr_next_ext : N;
  dr_next_int : N
}.

Inductive arow :=
| AChain
| AImp (has_priv : bool)
| AScr (k : skind) (secret : bool).

Record dkeys := {
  d_watch : bool;
  d_pub : N * N;               (* master public key parameters: (passphrase, generation) *)
  d_cpub : N;                  (* generation that seals the crypto public key *)
  d_priv : option (N * N);     (* master private key parameters; None once watching-only *)
  d_cpriv : option N;          (* generation sealing the crypto private key *)
  d_cscript : option N         (* generation sealing the crypto script key *)
}.

Record disk := {
  dk : dkeys;
  d_accts : list ((N * N) * drow);       (* (scope, account) *)
  d_addrs : list ((N * akey) * arow);    (* (scope, address) *)
  d_last : list (N * N)                  (* scope -> last account number *)
}.

(* --- memory --- *)
Inductive lastref :=
| LOwn (ct : bool)       (* an object created by loadAccountInfo; ct = its privKeyCT is live *)
| LAlias (k : akey).     (* the object that is also addrs[k] (set by nextAddresses' onCommit) *)

Record ainfo := {
  ai_has_enc : bool;     (* len(acctKeyEncrypted) > 0 *)
  ai_priv : bool;        (* acctKeyPriv != nil *)
  ai_last_ext : lastref;
  ai_last_int : lastref
}.

Inductive aobj :=
| OKey (imported : bool) (has_enc : bool) (ct : bool)              (* managedAddress: privKeyEncrypted, privKeyCT *)
| OScript (k : skind) (secret : bool) (ct : bool).                 (* script address: scriptClearText *)

Definition aobj_live (o : aobj) : bool := match o with OKey _ _ ct => ct | OScript _ _ ct => ct end.
Definition aobj_secret (o : aobj) : bool := match o with OKey _ _ _ => true | OScript _ sec _ => sec end.
Definition aobj_secret_live (o : aobj) : bool := aobj_secret o && aobj_live o.
Definition own_live (r : lastref) : bool := match r with LOwn ct => ct | LAlias _ => false end.

Inductive qent :=
| QAddr (sc : N) (k : akey)              (* an object that is (or was, with the same fate) addrs[k] *)
| QLast (sc acct : N) (internal : bool)  (* the lastExternal/InternalAddr object of loadAccountInfo *)
| QDetached (sc acct : N).               (* an object only the caller / nobody holds *)

Record keys := {
  k_locked : bool;
  k_watch : bool;
  k_pub : N * N;                   (* masterKeyPub.Parameters *)
  k_priv : option (N * N);         (* masterKeyPriv.Parameters; None: masterKeyPriv unusable (watching-only) *)
  k_cpriv_enc : option N;          (* cryptoKeyPrivEncrypted (memory copy) sealed by *)
  k_cscript_enc : option N;
  k_master : bool;                 (* masterKeyPriv.Key live *)
  k_cpriv : bool;                  (* cryptoKeyPriv live *)
  k_cscript : bool;                (* cryptoKeyScript live: never set by the code (S5) *)
  k_salt : N;                      (* privPassphraseSalt: 0 = all zero, otherwise the id of a random salt *)
  k_hashed : option (N * N)        (* hashedPrivPassphrase = H(salt, passphrase); None = zeroed *)
}.

Record mem := {
  mk : keys;
  m_accts : list ((N * N) * ainfo);
  m_addrs : list ((N * akey) * aobj);
  m_cache : list (N * N * N * N);         (* privKeyCache keys: (scope, account, branch, index) *)
  m_queue : list qent                     (* deriveOnUnlock of all scoped managers *)
}.

(* classes of dropped buffers: an address private key (privKeyCT), an account
   private key (acctKeyPriv), a secret script, a cached derived key *)
Inductive gclass := GKey | GAcct | GScript | GCache.

Record state := { sd : disk; sm : mem; next_gen : N; gone : list (gclass * bool) }.

Definition with_mem (s : state) (m : mem) : state := {| sd := sd s; sm := m; next_gen := next_gen s; gone := gone s |}.
Definition with_disk (s : state) (d : disk) : state := {| sd := d; sm := sm s; next_gen := next_gen s; gone := gone s |}.
Definition add_gone (s : state) (g : list (gclass * bool)) : state :=
  {| sd := sd s; sm := sm s; next_gen := next_gen s; gone := gone s ++ g |}.
Definition mem_keys (m : mem) (k : keys) : mem :=
  {| mk := k; m_accts := m_accts m; m_addrs := m_addrs m; m_cache := m_cache m; m_queue := m_queue m |}.
Definition mem_accts (m : mem) a : mem :=
  {| mk := mk m; m_accts := a; m_addrs := m_addrs m; m_cache := m_cache m; m_queue := m_queue m |}.
Definition mem_addrs (m : mem) a : mem :=
  {| mk := mk m; m_accts := m_accts m; m_addrs := a; m_cache := m_cache m; m_queue := m_queue m |}.
Definition mem_cache (m : mem) c : mem :=
  {| mk := mk m; m_accts := m_accts m; m_addrs := m_addrs m; m_cache := c; m_queue := m_queue m |}.
Definition mem_queue (m : mem) q : mem :=
  {| mk := mk m; m_accts := m_accts m; m_addrs := m_addrs m; m_cache := m_cache m; m_queue := q |}.
Definition disk_keys (d : disk) k : disk :=
  {| dk := k; d_accts := d_accts d; d_addrs := d_addrs d; d_last := d_last d |}.
Definition disk_accts (d : disk) a : disk :=
  {| dk := dk d; d_accts := a; d_addrs := d_addrs d; d_last := d_last d |}.
Definition disk_addrs (d : disk) a : disk :=
  {| dk := dk d; d_accts := d_accts d; d_addrs := a; d_last := d_last d |}.
Definition disk_last (d : disk) l : disk :=
  {| dk := dk d; d_accts := d_accts d; d_addrs := d_addrs d; d_last := l |}.

Definition locked (s : state) : bool := k_locked (mk (sm s)).
Definition watch (s : state) : bool := k_watch (mk (sm s)).

(* The passphrase the stored master private key parameters accept. *)
Definition cur_pass (s : state) : option N := option_map fst (d_priv (dk (sd s))).
Definition cur_pub_pass (s : state) : N := fst (d_pub (dk (sd s))).

(* ------------------------------------------------------------------ operations *)

Inductive op :=
| OpOpen (pubpass : N)                       (* waddrmgr.Open on the database; replaces the running manager when it succeeds *)
| OpUnlock (p : N)
| OpLock
| OpChangePriv (old new : N)
| OpChangePub (old new : N)
| OpNewAccount (sc : N)
| OpNewRawAccount (sc n : N)                 (* NewRawAccount(number): the entry point lnd uses for its key families *)
| OpNewScope                                 (* NewScopedKeyManager for a scope that does not exist (needs the master HD private key) *)
| OpNewWatchAccount (sc : N)                 (* NewAccountWatchingOnly (imported xpub) *)
| OpAcctProps (sc acct : N)                  (* AccountProperties: loads the account into the cache *)
| OpNextAddr (sc acct : N) (internal : bool) (* Next{External,Internal}Addresses(acct, 1) *)
| OpImportPriv (sc n : N)
| OpImportScript (sc n : N) (k : skind) (secret : bool)
| OpLoadAddr (sc : N) (a : akey)             (* Address(addr) *)
| OpPrivKey (sc : N) (a : akey)              (* Address(addr) then PrivKey() / ExportPrivKey() *)
| OpScript (sc : N) (a : akey)               (* Address(addr) then Script() *)
| OpDerive (sc acct br idx : N)              (* DeriveFromKeyPath then PrivKey() on the result *)
| OpDeriveCache (sc acct br idx : N)         (* DeriveFromKeyPathCache *)
| OpCacheFill (sc acct br base : N) (n : nat) (* DeriveFromKeyPathCache on the n paths base, base+1, ... (stops at the first failure) *)
| OpEncrypt (kt : ktype)
| OpDecrypt (kt : ktype)                     (* of a valid ciphertext for that key type *)
| OpConvert                                  (* ConvertToWatchingOnly *)
| OpMarkUsed (sc : N) (a : akey)             (* MarkUsed(addr): evicts the address from the addrs cache *)
| OpForEach (sc acct : N)                    (* ForEachAccountAddress: one fresh, uncached object per address row *)
| OpInvalidate (sc acct : N)                 (* InvalidateAccountCache(acct) *)
(* Accessors called on an address OBJECT the caller kept from an earlier
   operation (the result of Next*Addresses, DeriveFromKeyPath, Address,
   ForEachAccountAddress, an import), which the manager may no longer track.
   The object's own fields are an INPUT here: [enc] = privKeyEncrypted is
   present, [ct] = its clear-text buffer is live (the harness reads them by
   reflection).  What the model says is what the accessor does with them. *)
| OpHeldPrivKey (enc ct : bool)              (* PrivKey() / ExportPrivKey() on a kept *managedAddress *)
| OpHeldScript (k : skind) (sec ct : bool).  (* Script() on a kept script address object *)

(* --- Manager.lock() --- *)
Definition lock_last (F : facts) (r : lastref) : lastref :=
  match r with
  | LOwn ct => LOwn (if f_lock_wipes_last F then false else ct)
  | LAlias k => LAlias k
  end.

Definition lock_ainfo (F : facts) (ai : ainfo) : ainfo :=
  {| ai_has_enc := ai_has_enc ai; ai_priv := false;
     ai_last_ext := lock_last F (ai_last_ext ai); ai_last_int := lock_last F (ai_last_int ai) |}.

Definition lock_aobj (F : facts) (o : aobj) : aobj :=
  match o with
  | OKey imp enc _ => OKey imp enc false
  | OScript KP2SH sec _ => OScript KP2SH sec false
  | OScript k sec ct => OScript k sec (if f_lock_wipes_wscripts F then false else ct)
  end.

(* the four buffers lock() zeroes IN PLACE (fact f_z_mgr) *)
Definition lock_keys (F : facts) (k : keys) : keys :=
  let z := f_z_mgr F in
  {| k_locked := true; k_watch := k_watch k; k_pub := k_pub k; k_priv := k_priv k;
     k_cpriv_enc := k_cpriv_enc k; k_cscript_enc := k_cscript_enc k;
     k_master := if z then false else k_master k; k_cpriv := if z then false else k_cpriv k;
     k_cscript := if z then false else k_cscript k; k_salt := k_salt k;
     k_hashed := if z then None else k_hashed k |}.

Definition lock_mem (F : facts) (m : mem) : mem :=
  {| mk := lock_keys F (mk m);
     m_accts := avmap (lock_ainfo F) (m_accts m);
     m_addrs := avmap (lock_aobj F) (m_addrs m);
     m_cache := if f_lock_purges_cache F then [] else m_cache m;
     m_queue := m_queue m |}.

(* What lock() DROPS (the field is set to nil / the entry deleted): the buffer
   is out of the manager's reach from then on and holds its clear text unless
   it was zeroed first (the f_z facts). *)
Definition own_residue (F : facts) (r : lastref) : list (gclass * bool) :=
  match r with
  | LOwn true => if f_lock_wipes_last F then [(GKey, negb (f_z_key F))] else []
  | _ => []
  end.

Definition ainfo_residue (F : facts) (ai : ainfo) : list (gclass * bool) :=
  (if ai_priv ai then [(GAcct, negb (f_z_acct F))] else [])
  ++ own_residue F (ai_last_ext ai) ++ own_residue F (ai_last_int ai).

Definition aobj_residue (F : facts) (o : aobj) : list (gclass * bool) :=
  match o with
  | OKey _ _ true => [(GKey, negb (f_z_key F))]
  | OScript KP2SH sec true => [(GScript, sec && negb (f_z_script F))]
  | OScript _ sec true => if f_lock_wipes_wscripts F then [(GScript, sec && negb (f_z_script F))] else []
  | _ => []
  end.

Definition lock_residue (F : facts) (m : mem) : list (gclass * bool) :=
  flat_map (fun kv => ainfo_residue F (snd kv)) (m_accts m)
  ++ flat_map (fun kv => aobj_residue F (snd kv)) (m_addrs m)
  ++ (if f_lock_purges_cache F then map (fun _ => (GCache, negb (f_z_cache F))) (m_cache m) else []).

(* Manager.lock() run on memory [m] of state [s]: what it drops joins [gone] *)
Definition lock_state (F : facts) (s : state) (m : mem) : state :=
  {| sd := sd s; sm := lock_mem F m; next_gen := next_gen s; gone := gone s ++ lock_residue F m |}.

(* --- loadAccountInfo --- *)
Definition queue_if_public (F : facts) (has_enc private : bool) (q : list qent) : list qent :=
  (* keyToManaged: if !derivedKey.IsPrivate() { deriveOnUnlock = append(...) } *)
  if private then [] else if f_keyless_not_queued F && negb has_enc then [] else q.

(* None: the account does not exist / cannot be loaded *)
Definition load_acct (F : facts) (sc acct : N) (s : state) : option (state * ainfo) :=
  let m := sm s in
  match alookup pair_eqb (sc, acct) (m_accts m) with
  | Some ai => Some (s, ai)
  | None =>
    match alookup pair_eqb (sc, acct) (d_accts (sd s)) with
    | None => None
    | Some row =>
      let hasp := negb (k_locked (mk m)) && negb (k_watch (mk m)) && negb (dr_watch row) in
      if hasp && negb (dr_has_priv row) then None    (* Decrypt(nil): unreachable, see LockProofs *)
      else
        let ai := {| ai_has_enc := dr_has_priv row; ai_priv := hasp;
                     ai_last_ext := LOwn hasp; ai_last_int := LOwn hasp |} in
        let q := queue_if_public F (dr_has_priv row) hasp [QLast sc acct false; QLast sc acct true] in
        Some (with_mem s (mem_queue (mem_accts m (m_accts m ++ [((sc, acct), ai)])) (m_queue m ++ q)), ai)
    end
  end.

(* --- loadAndCacheAddress (Address() on a miss) --- *)
Definition load_addr (F : facts) (sc : N) (a : akey) (s : state) : option (state * aobj) :=
  match alookup addr_eqb (sc, a) (m_addrs (sm s)) with
  | Some o => Some (s, o)
  | None =>
    match alookup addr_eqb (sc, a) (d_addrs (sd s)) with
    | None => None
    | Some AChain =>
      match a with
      | KChain acct _ _ =>
        match load_acct F sc acct s with
        | None => None
        | Some (s1, ai) =>
          let m := sm s1 in
          let private := negb (k_locked (mk m)) && negb (k_watch (mk m)) && ai_priv ai in
          let o := OKey false private private in
          let q := queue_if_public F (ai_has_enc ai) private [QAddr sc a] in
          Some (with_mem s1 (mem_queue (mem_addrs m (m_addrs m ++ [((sc, a), o)])) (m_queue m ++ q)), o)
        end
      | _ => None
      end
    | Some (AImp hp) =>
      let m := sm s in
      let o := OKey true hp false in
      Some (with_mem s (mem_addrs m (m_addrs m ++ [((sc, a), o)])), o)
    | Some (AScr k sec) =>
      let m := sm s in
      let o := OScript k sec false in
      Some (with_mem s (mem_addrs m (m_addrs m ++ [((sc, a), o)])), o)
    end
  end.

Definition set_addr (s : state) (sc : N) (a : akey) (o : aobj) : state :=
  with_mem s (mem_addrs (sm s) (aupsert addr_eqb (sc, a) o (m_addrs (sm s)))).

(* --- Unlock --- *)
Definition unlock_ainfo (ai : ainfo) : ainfo :=
  {| ai_has_enc := ai_has_enc ai; ai_priv := ai_has_enc ai;
     ai_last_ext := ai_last_ext ai; ai_last_int := ai_last_int ai |}.

Definition qent_acct (q : qent) : option (N * N) :=
  match q with
  | QAddr sc (KChain acct _ _) => Some (sc, acct)
  | QAddr _ _ => None
  | QLast sc acct _ => Some (sc, acct)
  | QDetached sc acct => Some (sc, acct)
  end.

(* deriveKeyFromPath(.., true) yields a private key: the account is cached with its private key *)
Definition qent_derivable (accts : list ((N * N) * ainfo)) (q : qent) : bool :=
  match qent_acct q with
  | None => false
  | Some k => match alookup pair_eqb k accts with Some ai => ai_priv ai | None => false end
  end.

Definition apply_qent (m : mem) (q : qent) : mem :=
  match q with
  | QAddr sc a =>
    match alookup addr_eqb (sc, a) (m_addrs m) with
    | Some (OKey imp _ _) => mem_addrs m (aupsert addr_eqb (sc, a) (OKey imp true true) (m_addrs m))
    | _ => m
    end
  | QLast sc acct internal =>
    match alookup pair_eqb (sc, acct) (m_accts m) with
    | Some ai =>
      let set r := match r with LOwn _ => LOwn true | LAlias k => LAlias k end in
      let ai' := if internal
                 then {| ai_has_enc := ai_has_enc ai; ai_priv := ai_priv ai;
                         ai_last_ext := ai_last_ext ai; ai_last_int := set (ai_last_int ai) |}
                 else {| ai_has_enc := ai_has_enc ai; ai_priv := ai_priv ai;
                         ai_last_ext := set (ai_last_ext ai); ai_last_int := ai_last_int ai |} in
      mem_accts m (aupsert pair_eqb (sc, acct) ai' (m_accts m))
    | None => m
    end
  | QDetached _ _ => m
  end.

(* zero.Bytes(saltedPassphrase) after append(salt[:], passphrase...) *)
Definition salt_after (salt p : N) : N := if p =? empty_pass then 0 else salt.

Definition with_salt (k : keys) (salt : N) : keys :=
  {| k_locked := k_locked k; k_watch := k_watch k; k_pub := k_pub k; k_priv := k_priv k;
     k_cpriv_enc := k_cpriv_enc k; k_cscript_enc := k_cscript_enc k;
     k_master := k_master k; k_cpriv := k_cpriv k; k_cscript := k_cscript k;
     k_salt := salt; k_hashed := k_hashed k |}.

Definition unlocked_keys (k : keys) (p : N) : keys :=
  {| k_locked := false; k_watch := k_watch k; k_pub := k_pub k; k_priv := k_priv k;
     k_cpriv_enc := k_cpriv_enc k; k_cscript_enc := k_cscript_enc k;
     k_master := true; k_cpriv := true; k_cscript := k_cscript k;
     k_salt := salt_after (k_salt k) p; k_hashed := Some (k_salt k, p) |}.

(* Unlock, fact f_unlock_preloads: loadAccountInfo for the account of every
   queued entry, while the manager is still locked *)
Fixpoint preload (F : facts) (qs : list qent) (s : state) : option state :=
  match qs with
  | [] => Some s
  | q :: qs' =>
    match qent_acct q with
    | None => preload F qs' s
    | Some (sc, acct) =>
      match load_acct F sc acct s with
      | None => None
      | Some (s1, _) => preload F qs' s1
      end
    end
  end.

(* A queued object that Unlock serves and then forgets (the queue is emptied):
   nothing else in the manager refers to it.  It is handed its private key as
   clear text (`a.privKeyCT = privKeyBytes`) unless fact f_e_unlock. *)
Definition queue_gone (F : facts) (m : mem) (q : qent) : list (gclass * bool) :=
  let g := [(GKey, negb (f_e_unlock F))] in
  match q with
  | QDetached _ _ => g
  | QAddr sc a => match alookup addr_eqb (sc, a) (m_addrs m) with Some (OKey _ _ _) => [] | _ => g end
  | QLast sc acct _ => match alookup pair_eqb (sc, acct) (m_accts m) with Some _ => [] | None => g end
  end.

Definition do_unlock (F : facts) (p : N) (s : state) : state * rc :=
  let m := sm s in
  let k := mk m in
  if k_watch k then (s, RWatchOnly)
  else if negb (k_locked k) then
    (* already unlocked: compare the salted hash; a mismatch LOCKS the manager *)
    let m1 := mem_keys m (with_salt k (salt_after (k_salt k) p)) in
    match k_hashed k with
    | Some (hs, hp) => if (hs =? k_salt k) && (hp =? p) then (with_mem s m1, ROk)
                       else (lock_state F s m1, RWrongPass)
    | None => (lock_state F s m1, RWrongPass)
    end
  else
    match k_priv k with
    | None => (s, RPanic)
    | Some (pw, g) =>
      if negb (pw =? p) then (lock_state F s m, RWrongPass)     (* DeriveKey: ErrInvalidPassword *)
      else match k_cpriv_enc k with
      | None => (lock_state F s m, RCrypto)
      | Some g' =>
        if negb (g' =? g) then (lock_state F s m, RCrypto)
        else
          match (if f_unlock_preloads F then preload F (m_queue m) s else Some s) with
          | None => (lock_state F s m, RNotFound)
          | Some s0 =>
            let m := sm s0 in
            if negb (f_unlock_skips_keyless F) && existsb (fun kv => negb (ai_has_enc (snd kv))) (m_accts m)
            then (lock_state F s0 m, RCrypto)                      (* Decrypt(nil acctKeyEncrypted) *)
            else
              let accts := avmap unlock_ainfo (m_accts m) in
              (* an entry whose account is not cached is loaded HERE, while the
                 manager is still locked, hence without private key: the
                 ignored ECPrivKey error leaves a nil key that is dereferenced *)
              if negb (forallb (qent_derivable accts) (m_queue m)) then (s, RPanic)
              else
                let m1 := fold_left apply_qent (m_queue m) (mem_accts m accts) in
                (add_gone (with_mem s0 (mem_keys (mem_queue m1 []) (unlocked_keys k p)))
                          (flat_map (queue_gone F m) (m_queue m)), ROk)
          end
      end
    end.

(* --- ChangePassphrase --- *)
Definition do_change_priv (F : facts) (old new : N) (s : state) : state * rc :=
  let m := sm s in
  let k := mk m in
  if k_watch k then (s, RWatchOnly)
  else if f_change_rejects_empty F && (new =? empty_pass) then (s, ROther)     (* ErrEmptyPassphrase *)
  else match k_priv k with
  | None => (s, RPanic)
  | Some (pw, g) =>
    if negb (pw =? old) then (s, RWrongPass)
    else match k_cpriv_enc k, k_cscript_enc k with
    | Some g1, Some g2 =>
      if negb (g1 =? g) || negb (g2 =? g) then (s, RCrypto)
      else
        let g' := next_gen s in
        let salt' := g' + 1 in                              (* a fresh random salt *)
        let k' := {| k_locked := k_locked k; k_watch := k_watch k; k_pub := k_pub k;
                     k_priv := Some (new, g'); k_cpriv_enc := Some g'; k_cscript_enc := Some g';
                     k_master := negb (k_locked k);         (* locked: newMasterKey.Zero() *)
                     k_cpriv := k_cpriv k; k_cscript := k_cscript k;
                     (* unlocked: the hash is taken, then the local salt is zeroed if it
                        was aliased, then copied into the manager *)
                     k_salt := if k_locked k then salt' else salt_after salt' new;
                     k_hashed := if k_locked k then None else Some (salt', new) |} in
        let d := sd s in
        let dk' := {| d_watch := d_watch (dk d); d_pub := d_pub (dk d); d_cpub := d_cpub (dk d);
                      d_priv := Some (new, g'); d_cpriv := Some g'; d_cscript := Some g' |} in
        ({| sd := disk_keys d dk'; sm := mem_keys m k'; next_gen := g' + 2; gone := gone s |}, ROk)
    | _, _ => (s, RCrypto)
    end
  end.

Definition do_change_pub (old new : N) (s : state) : state * rc :=
  let m := sm s in
  let k := mk m in
  let '(pw, _) := k_pub k in
  if negb (pw =? old) then (s, RWrongPass)
  else
    let g' := next_gen s in
    let k' := {| k_locked := k_locked k; k_watch := k_watch k; k_pub := (new, g');
                 k_priv := k_priv k; k_cpriv_enc := k_cpriv_enc k; k_cscript_enc := k_cscript_enc k;
                 k_master := k_master k; k_cpriv := k_cpriv k; k_cscript := k_cscript k;
                 k_salt := k_salt k; k_hashed := k_hashed k |} in
    let d := sd s in
    let dk' := {| d_watch := d_watch (dk d); d_pub := (new, g'); d_cpub := g';
                  d_priv := d_priv (dk d); d_cpriv := d_cpriv (dk d); d_cscript := d_cscript (dk d) |} in
    ({| sd := disk_keys d dk'; sm := mem_keys m k'; next_gen := g' + 1; gone := gone s |}, ROk).

(* --- Open (loadManager) --- *)
Definition do_open (pubpass : N) (s : state) : state * rc :=
  let d := dk (sd s) in
  let '(pw, g) := d_pub d in
  if negb (pw =? pubpass) then (s, RWrongPass)
  else if negb (d_cpub d =? g) then (s, RCrypto)
  else
    let k := {| k_locked := true; k_watch := d_watch d; k_pub := d_pub d;
                k_priv := if d_watch d then None else d_priv d;
                k_cpriv_enc := d_cpriv d; k_cscript_enc := d_cscript d;
                k_master := false; k_cpriv := false; k_cscript := false;
                k_salt := next_gen s;                        (* loadManager draws a fresh salt *)
                k_hashed := None |} in
    (* a NEW manager: what the closed one dropped is not part of it *)
    ({| sd := sd s; sm := {| mk := k; m_accts := []; m_addrs := []; m_cache := []; m_queue := [] |};
        next_gen := next_gen s + 1; gone := [] |}, ROk).

(* --- ConvertToWatchingOnly --- *)
Definition convert_drow (r : drow) : drow :=
  {| dr_watch := dr_watch r; dr_has_priv := false; dr_next_ext := dr_next_ext r; dr_next_int := dr_next_int r |}.
Definition convert_arow (r : arow) : arow :=
  match r with AImp _ => AImp false | r => r end.
Definition convert_ainfo (ai : ainfo) : ainfo :=
  {| ai_has_enc := false; ai_priv := ai_priv ai; ai_last_ext := ai_last_ext ai; ai_last_int := ai_last_int ai |}.
Definition convert_aobj (o : aobj) : aobj :=
  match o with OKey imp _ ct => OKey imp false ct | o => o end.

Definition do_convert (F : facts) (s : state) : state * rc :=
  if watch s then (s, ROk)
  else
    let d := sd s in
    let dk' := {| d_watch := true; d_pub := d_pub (dk d); d_cpub := d_cpub (dk d);
                  d_priv := None; d_cpriv := None; d_cscript := None |} in
    let d' := {| dk := dk'; d_accts := avmap convert_drow (d_accts d);
                 d_addrs := avmap convert_arow (d_addrs d); d_last := d_last d |} in
    let m0 := if locked s then sm s else lock_mem F (sm s) in
    let k := mk m0 in
    let k' := {| k_locked := k_locked k; k_watch := true; k_pub := k_pub k; k_priv := None;
                 k_cpriv_enc := None; k_cscript_enc := None;
                 k_master := false; k_cpriv := false; k_cscript := false;   (* the three pointers are set to nil *)
                 k_salt := k_salt k; k_hashed := k_hashed k |} in
    let m' := {| mk := k'; m_accts := avmap convert_ainfo (m_accts m0);
                 m_addrs := avmap convert_aobj (m_addrs m0);
                 m_cache := m_cache m0; m_queue := m_queue m0 |} in
    ({| sd := d'; sm := m'; next_gen := next_gen s;
        gone := gone s ++ (if locked s then [] else lock_residue F (sm s)) |}, ROk).

(* --- accounts --- *)
Definition last_acct (sc : N) (s : state) : N :=
  match alookup N.eqb sc (d_last (sd s)) with Some n => n | None => 0 end.

Definition add_account (sc : N) (row : drow) (s : state) : state :=
  let d := sd s in
  let n := last_acct sc s + 1 in
  with_disk s (disk_last (disk_accts d (d_accts d ++ [((sc, n), row)])) (aupsert N.eqb sc n (d_last d))).

Definition do_new_account (sc : N) (s : state) : state * rc :=
  if watch s then (s, RWatchOnly)
  else if locked s then (s, RLocked)
  else (add_account sc {| dr_watch := false; dr_has_priv := true; dr_next_ext := 0; dr_next_int := 0 |} s, ROk).

(* NewRawAccount(number), name "act:<number>".  Assumption (the harness stays
   inside it): the number is not in use - or in use by an earlier
   NewRawAccount, in which case the NAME exists already (ErrDuplicateAccount).
   newAccount records the number as the scope's last account. *)
Definition do_new_raw_account (sc n : N) (s : state) : state * rc :=
  if watch s then (s, RWatchOnly)
  else if locked s then (s, RLocked)
  else match alookup pair_eqb (sc, n) (d_accts (sd s)) with
  | Some _ => (s, ROther)
  | None =>
    let d := sd s in
    (with_disk s (disk_last (disk_accts d (d_accts d ++ [((sc, n), {| dr_watch := false; dr_has_priv := true;
                                                                      dr_next_ext := 0; dr_next_int := 0 |})]))
                            (aupsert N.eqb sc n (d_last d))), ROk)
  end.

(* NewScopedKeyManager: a locked manager refuses (the cointype key is derived
   from the master HD private key).  On a watching-only manager it creates a
   scope without private material, on an unlocked one a full scope: neither is
   modelled (ROther) and the harness calls it only on a locked manager that is
   not watching-only. *)
Definition do_new_scope (s : state) : state * rc :=
  if negb (watch s) && locked s then (s, RLocked) else (s, ROther).

Definition do_new_watch_account (sc : N) (s : state) : state * rc :=
  (add_account sc {| dr_watch := true; dr_has_priv := false; dr_next_ext := 0; dr_next_int := 0 |} s, ROk).

Definition do_acct_props (F : facts) (sc acct : N) (s : state) : state * rc :=
  match load_acct F sc acct s with
  | None => (s, RNotFound)
  | Some (s1, _) => (s1, ROk)
  end.

(* --- nextAddresses(acct, 1) --- *)
Definition set_last (internal : bool) (r : lastref) (ai : ainfo) : ainfo :=
  if internal
  then {| ai_has_enc := ai_has_enc ai; ai_priv := ai_priv ai; ai_last_ext := ai_last_ext ai; ai_last_int := r |}
  else {| ai_has_enc := ai_has_enc ai; ai_priv := ai_priv ai; ai_last_ext := r; ai_last_int := ai_last_int ai |}.

Definition bump_row (internal : bool) (r : drow) : drow :=
  if internal
  then {| dr_watch := dr_watch r; dr_has_priv := dr_has_priv r; dr_next_ext := dr_next_ext r; dr_next_int := dr_next_int r + 1 |}
  else {| dr_watch := dr_watch r; dr_has_priv := dr_has_priv r; dr_next_ext := dr_next_ext r + 1; dr_next_int := dr_next_int r |}.

(* a last-address object that leaves the manager's state *)
Definition last_gone (wipe : bool) (r : lastref) : list (gclass * bool) :=
  match r with LOwn ct => [(GKey, ct && negb wipe)] | LAlias _ => [] end.

Definition bool_eq (a b : bool) : bool := if a then b else negb b.

Definition orphan_last (sc acct : N) (internal : bool) (q : qent) : qent :=
  match q with
  | QLast sc' acct' i' => if (sc' =? sc) && (acct' =? acct) && bool_eq i' internal then QDetached sc acct else q
  | _ => q
  end.

Definition do_next_addr (F : facts) (sc acct : N) (internal : bool) (s : state) : state * rc :=
  match load_acct F sc acct s with
  | None => (s, RNotFound)
  | Some (s1, ai) =>
    match alookup pair_eqb (sc, acct) (d_accts (sd s1)) with
    | None => (s, RNotFound)
    | Some row =>
      let k := mk (sm s1) in
      let wo := k_watch k || negb (ai_has_enc ai) in
      let private := negb (k_locked k) && negb wo in
      if private && negb (ai_priv ai) then (s, RPanic)          (* acctKeyPriv == nil: not reachable *)
      else
        let idx := if internal then dr_next_int row else dr_next_ext row in
        let a := KChain acct (if internal then 1 else 0) idx in
        let d := sd s1 in
        let d' := disk_addrs (disk_accts d (aupsert pair_eqb (sc, acct) (bump_row internal row) (d_accts d)))
                             (d_addrs d ++ [((sc, a), AChain)]) in
        (* the read-back loadAddress -> chainAddressRowToManaged -> keyToManaged: an
           object that is never cached *)
        let private_rb := negb (k_locked k) && negb (k_watch k) && ai_priv ai in
        let q1 := queue_if_public F (ai_has_enc ai) private_rb [QDetached sc acct] in
        (* onCommit *)
        let q2 := if k_locked k && negb wo then [QAddr sc a] else [] in
        let m := sm s1 in
        (* onCommit replaces acctInfo.last{External,Internal}Addr: the object it
           held so far leaves the manager's state (unless it is also in addrs) -
           with its clear text, unless fact f_e_next; a queue entry that refers
           to it now refers to an object nothing else tracks *)
        let old := if internal then ai_last_int ai else ai_last_ext ai in
        let m' := {| mk := mk m;
                     m_accts := aupsert pair_eqb (sc, acct) (set_last internal (LAlias a) ai) (m_accts m);
                     m_addrs := aupsert addr_eqb (sc, a) (OKey false private private) (m_addrs m);
                     m_cache := m_cache m;
                     m_queue := map (orphan_last sc acct internal) (m_queue m) ++ q1 ++ q2 |} in
        ({| sd := d'; sm := m'; next_gen := next_gen s1; gone := gone s1 ++ last_gone (f_e_next F) old |}, ROk)
    end
  end.

(* --- imports --- *)
Definition addr_known (sc : N) (a : akey) (s : state) : bool :=
  match alookup addr_eqb (sc, a) (m_addrs (sm s)) with
  | Some _ => true
  | None => match alookup addr_eqb (sc, a) (d_addrs (sd s)) with Some _ => true | None => false end
  end.

Definition do_import_priv (sc n : N) (s : state) : state * rc :=
  if locked s && negb (watch s) then (s, RLocked)
  else if addr_known sc (KImp n) s then (s, RDup)
  else
    let priv := negb (watch s) in
    let d := sd s in
    let s1 := with_disk s (disk_addrs d (d_addrs d ++ [((sc, KImp n), AImp priv)])) in
    (set_addr s1 sc (KImp n) (OKey true priv priv), ROk).

Definition do_import_script (sc n : N) (k : skind) (secret : bool) (s : state) : state * rc :=
  let secret := match k with KP2SH => true | _ => secret end in
  if secret && locked s then (s, RLocked)
  else if secret && watch s then (s, RWatchOnly)
  else if addr_known sc (KScr n) s then (s, RDup)
  else
    let d := sd s in
    let s1 := with_disk s (disk_addrs d (d_addrs d ++ [((sc, KScr n), AScr k secret)])) in
    (set_addr s1 sc (KScr n) (OScript k secret true), ROk).

(* --- getters --- *)

(* managedAddress.PrivKey + unlock: which tests come first.  ROk: the key is
   returned (and the object's clear text is live afterwards). *)
Definition key_access (F : facts) (k : keys) (enc ct : bool) : rc :=
  if k_watch k then RWatchOnly
  else if f_privkey_checks_first F then
    (if k_locked k then RLocked else if negb enc then RWatchOnly else ROk)
  else
    (* the lock test sits inside `if len(a.privKeyCT) == 0 { ... }` *)
    (if ct then ROk else if k_locked k then RLocked else if negb enc then RWatchOnly else ROk).

(* scriptAddress.Script / witnessScriptAddress.Script *)
Definition script_access (k : keys) (kd : skind) (sec : bool) : rc :=
  let gate := match kd with KP2SH => true | _ => sec end in
  if gate && k_watch k then RWatchOnly
  else if gate && k_locked k then RLocked
  else ROk.
Definition do_load_addr (F : facts) (sc : N) (a : akey) (s : state) : state * rc :=
  match load_addr F sc a s with
  | None => (s, RNotFound)
  | Some (s1, _) => (s1, ROk)
  end.

Definition do_priv_key (F : facts) (sc : N) (a : akey) (s : state) : state * rc :=
  match load_addr F sc a s with
  | None => (s, RNotFound)
  | Some (s1, OKey imp enc ct) =>
    match key_access F (mk (sm s1)) enc ct with
    | ROk => (set_addr s1 sc a (OKey imp enc true), ROk)
    | r => (s1, r)
    end
  | Some (s1, OScript _ _ _) => (s1, ROther)
  end.

Definition do_script (F : facts) (sc : N) (a : akey) (s : state) : state * rc :=
  match load_addr F sc a s with
  | None => (s, RNotFound)
  | Some (s1, OScript k sec ct) =>
    match script_access (mk (sm s1)) k sec with
    | ROk => (set_addr s1 sc a (OScript k sec true), ROk)
    | r => (s1, r)
    end
  | Some (s1, OKey _ _ _) => (s1, ROther)
  end.

Definition do_derive (F : facts) (sc acct br idx : N) (s : state) : state * rc :=
  match load_acct F sc acct s with
  | None => (s, RNotFound)
  | Some (s1, ai) =>
    let k := mk (sm s1) in
    let private := negb (k_locked k) && negb (k_watch k) && ai_priv ai in
    let q := queue_if_public F (ai_has_enc ai) private [QDetached sc acct] in
    let s2 := with_mem s1 (mem_queue (sm s1) (m_queue (sm s1) ++ q)) in
    (* PrivKey() on the returned object (fresh: encrypted key and clear text iff private) *)
    (s2, key_access F k private private)
  end.

(* accessors on an object the caller kept; the manager's state is not touched
   (exact for objects the manager no longer tracks, and in every locked or
   watching-only state: the harness calls them only there) *)
Definition do_held_priv_key (F : facts) (enc ct : bool) (s : state) : state * rc :=
  (s, key_access F (mk (sm s)) enc ct).
Definition do_held_script (k : skind) (sec ct : bool) (s : state) : state * rc :=
  (s, script_access (mk (sm s)) k sec).

(* the derived-key cache is one LRU per scoped manager; [m_cache] lists the
   entries of all scopes, least recently used first *)
Definition in_scope (sc : N) (p : N * N * N * N) : bool := let '(s1, _, _, _) := p in s1 =? sc.
Definition scope_cache (sc : N) (c : list (N * N * N * N)) : list (N * N * N * N) := filter (in_scope sc) c.
Fixpoint drop_oldest (sc : N) (c : list (N * N * N * N)) : list (N * N * N * N) :=
  match c with
  | [] => []
  | p :: c' => if in_scope sc p then c' else p :: drop_oldest sc c'
  end.

Definition do_derive_cache (F : facts) (sc acct br idx : N) (s : state) : state * rc :=
  let m := sm s in
  let k := mk m in
  if f_cache_checked F && k_watch k then (s, RWatchOnly)
  else if f_cache_checked F && k_locked k then (s, RLocked)
  else if existsb (path_eqb (sc, acct, br, idx)) (m_cache m)
  then (* Get: the entry becomes the most recently used one *)
       (with_mem s (mem_cache m (filter (fun p => negb (path_eqb (sc, acct, br, idx) p)) (m_cache m)
                                 ++ [(sc, acct, br, idx)])), ROk)
  else match alookup pair_eqb (sc, acct) (m_accts m) with
  | None => (s, RNotCached)
  | Some ai =>
    (* private := !IsLocked() && !watchOnly && acctInfo.acctKeyPriv != nil *)
    let private := negb (k_locked k) && negb (k_watch k) && ai_priv ai in
    if private then
      (* Put: when the cache is full the least recently used key is pushed
         out - nothing zeroes it (the LRU has no eviction hook; fact f_e_lru) *)
      let full := f_cache_cap F <=? N.of_nat (length (scope_cache sc (m_cache m))) in
      let c := if full then drop_oldest sc (m_cache m) else m_cache m in
      let g := if full then [(GCache, negb (f_e_lru F))] else [] in
      (add_gone (with_mem s (mem_cache m (c ++ [(sc, acct, br, idx)]))) g, ROk)
    else (s, ROther)                     (* ECPrivKey on a public key: ErrNotPrivExtKey *)
  end.

Fixpoint cache_fill_loop (F : facts) (sc acct br base : N) (n : nat) (s : state) : state * rc :=
  match n with
  | O => (s, ROk)
  | S n' =>
    let '(s1, r) := do_derive_cache F sc acct br base s in
    match r with
    | ROk => cache_fill_loop F sc acct br (base + 1) n' s1
    | _ => (s1, r)
    end
  end.

(* n calls of DeriveFromKeyPathCache on consecutive paths.  When every call
   is bound to derive and insert (manager unlocked, account cached with its
   private key, none of the paths cached yet) the loop is evaluated in one pass
   - the n paths are appended and as many of the scope's oldest entries pushed
   out as exceed the capacity - instead of n passes over a cache of thousands of
   entries (Properties/C05.v, C05_cache_fill_one_pass_agrees, compares the two
   on an instance). *)
Fixpoint drop_oldest_n (k : nat) (sc : N) (c : list (N * N * N * N)) : list (N * N * N * N) :=
  match k, c with
  | O, _ => c
  | _, [] => []
  | S k', p :: c' => if in_scope sc p then drop_oldest_n k' sc c' else p :: drop_oldest_n k sc c'
  end.

Definition in_range (sc acct br base : N) (n : nat) (p : N * N * N * N) : bool :=
  let '(s1, a1, b1, i1) := p in
  (s1 =? sc) && (a1 =? acct) && (b1 =? br) && (base <=? i1) && (i1 <? base + N.of_nat n).

Definition cache_fill (F : facts) (sc acct br base : N) (n : nat) (s : state) : state * rc :=
  let m := sm s in
  let k := mk m in
  let derivable := match alookup pair_eqb (sc, acct) (m_accts m) with
                   | Some ai => negb (k_locked k) && negb (k_watch k) && ai_priv ai
                   | None => false
                   end in
  if derivable && negb (existsb (in_range sc acct br base n) (m_cache m)) then
    let fresh := map (fun i => (sc, acct, br, base + N.of_nat i)) (seq 0 n) in
    let have := length (scope_cache sc (m_cache m)) in
    let over := (have + n - N.to_nat (f_cache_cap F))%nat in
    (add_gone (with_mem s (mem_cache m (drop_oldest_n over sc (m_cache m ++ fresh))))
              (repeat (GCache, negb (f_e_lru F)) over), ROk)
  else cache_fill_loop F sc acct br base n s.

Definition do_crypt (kt : ktype) (s : state) : state * rc :=
  match kt with
  | CKPub => (s, ROk)
  | _ => if locked s || watch s then (s, RLocked) else (s, ROk)
  end.

(* --- MarkUsed: delete(s.addrs, addr) --- *)
Definition unalias_ref (a : akey) (ct : bool) (r : lastref) : lastref :=
  match r with
  | LAlias b => if akey_eqb b a then LOwn ct else LAlias b
  | r => r
  end.

Definition unalias (sc : N) (a : akey) (ct : bool) (kv : (N * N) * ainfo) : (N * N) * ainfo :=
  let '(k, ai) := kv in
  if fst k =? sc
  then (k, {| ai_has_enc := ai_has_enc ai; ai_priv := ai_priv ai;
              ai_last_ext := unalias_ref a ct (ai_last_ext ai);
              ai_last_int := unalias_ref a ct (ai_last_int ai) |})
  else kv.

Definition is_alias (a : akey) (r : lastref) : bool :=
  match r with LAlias b => akey_eqb b a | _ => false end.

(* a queued object that leaves the cache is from then on either an account's
   last address object or held by nobody *)
Definition requeue (accts : list ((N * N) * ainfo)) (sc : N) (a : akey) (q : qent) : qent :=
  match q with
  | QAddr sc' a' =>
    if (sc' =? sc) && akey_eqb a' a then
      match a with
      | KChain acct br _ =>
        match alookup pair_eqb (sc, acct) accts with
        | Some ai =>
          if (br =? 0) && is_alias a (ai_last_ext ai) then QLast sc acct false
          else if (br =? 1) && is_alias a (ai_last_int ai) then QLast sc acct true
          else QDetached sc acct
        | None => QDetached sc acct
        end
      | _ => q
      end
    else q
  | _ => q
  end.

(* the object is also some account's last address: it stays in the manager's state *)
Definition aliased (sc : N) (a : akey) (accts : list ((N * N) * ainfo)) : bool :=
  existsb (fun kv => (fst (fst kv) =? sc)
                     && (is_alias a (ai_last_ext (snd kv)) || is_alias a (ai_last_int (snd kv)))) accts.

Definition gclass_of (o : aobj) : gclass := match o with OKey _ _ _ => GKey | OScript _ _ _ => GScript end.

Definition do_mark_used (F : facts) (sc : N) (a : akey) (s : state) : state * rc :=
  let m := sm s in
  match alookup addr_eqb (sc, a) (m_addrs m) with
  | None => (s, ROk)
  | Some o =>
    let wipe := f_e_markused F in
    (* only a *managedAddress can be an account's last address *)
    let ct := match o with OKey _ _ ct => ct && negb wipe | OScript _ _ _ => false end in
    (* the object leaves the addrs map with whatever clear text it holds (fact
       f_e_markused: wiped first); lock() reaches it afterwards only as an
       account's last address *)
    let g := if aliased sc a (m_accts m) then [] else [(gclass_of o, aobj_secret_live o && negb wipe)] in
    (add_gone (with_mem s {| mk := mk m;
                   m_accts := map (unalias sc a ct) (m_accts m);
                   m_addrs := filter (fun kv => negb (addr_eqb (fst kv) (sc, a))) (m_addrs m);
                   m_cache := m_cache m;
                   m_queue := map (requeue (m_accts m) sc a) (m_queue m) |}) g, ROk)
  end.

(* --- ForEachAccountAddress: rowInterfaceToManaged for every address row --- *)
Definition is_chain_row (sc acct : N) (kv : (N * akey) * arow) : bool :=
  match kv with
  | ((sc', KChain acct' _ _), AChain) => (sc' =? sc) && (acct' =? acct)
  | _ => false
  end.

Definition do_foreach (F : facts) (sc acct : N) (s : state) : state * rc :=
  let rows := filter (is_chain_row sc acct) (d_addrs (sd s)) in
  match rows with
  | [] => (s, ROk)             (* nothing, or imported keys / scripts: objects without derivation *)
  | _ =>
    match load_acct F sc acct s with
    | None => (s, RNotFound)
    | Some (s1, ai) =>
      let k := mk (sm s1) in
      let private := negb (k_locked k) && negb (k_watch k) && ai_priv ai in
      let q := queue_if_public F (ai_has_enc ai) private (repeat (QDetached sc acct) (length rows)) in
      (with_mem s1 (mem_queue (sm s1) (m_queue (sm s1) ++ q)), ROk)
    end
  end.

(* --- InvalidateAccountCache: delete(s.acctInfo, account) --- *)
Definition orphan (sc acct : N) (q : qent) : qent :=
  match q with
  | QLast sc' acct' _ => if (sc' =? sc) && (acct' =? acct) then QDetached sc acct else q
  | _ => q
  end.

Definition do_invalidate (F : facts) (sc acct : N) (s : state) : state * rc :=
  let m := sm s in
  (* the accountInfo leaves the manager's state: its private account key and
     the last-address objects only it refers to go with it (fact
     f_e_invalidate: wiped first) *)
  let w := f_e_invalidate F in
  let g := match alookup pair_eqb (sc, acct) (m_accts m) with
           | Some ai => (GAcct, ai_priv ai && negb w) :: last_gone w (ai_last_ext ai) ++ last_gone w (ai_last_int ai)
           | None => []
           end in
  (add_gone (with_mem s (mem_queue (mem_accts m (filter (fun kv => negb (pair_eqb (fst kv) (sc, acct))) (m_accts m)))
                         (map (orphan sc acct) (m_queue m)))) g, ROk).

Definition do_lock (F : facts) (s : state) : state * rc :=
  if watch s then (s, RWatchOnly)
  else if locked s then (s, RLocked)
  else (lock_state F s (sm s), ROk).

Definition step (F : facts) (s : state) (o : op) : state * rc :=
  match o with
  | OpOpen p => do_open p s
  | OpUnlock p => do_unlock F p s
  | OpLock => do_lock F s
  | OpChangePriv old new => do_change_priv F old new s
  | OpChangePub old new => do_change_pub old new s
  | OpNewAccount sc => do_new_account sc s
  | OpNewRawAccount sc n => do_new_raw_account sc n s
  | OpNewScope => do_new_scope s
  | OpNewWatchAccount sc => do_new_watch_account sc s
  | OpAcctProps sc acct => do_acct_props F sc acct s
  | OpNextAddr sc acct internal => do_next_addr F sc acct internal s
  | OpImportPriv sc n => do_import_priv sc n s
  | OpImportScript sc n k secret => do_import_script sc n k secret s
  | OpLoadAddr sc a => do_load_addr F sc a s
  | OpPrivKey sc a => do_priv_key F sc a s
  | OpScript sc a => do_script F sc a s
  | OpDerive sc acct br idx => do_derive F sc acct br idx s
  | OpDeriveCache sc acct br idx => do_derive_cache F sc acct br idx s
  | OpCacheFill sc acct br base n => cache_fill F sc acct br base n s
  | OpEncrypt kt => do_crypt kt s
  | OpDecrypt kt => do_crypt kt s
  | OpConvert => do_convert F s
  | OpMarkUsed sc a => do_mark_used F sc a s
  | OpForEach sc acct => do_foreach F sc acct s
  | OpInvalidate sc acct => do_invalidate F sc acct s
  | OpHeldPrivKey enc ct => do_held_priv_key F enc ct s
  | OpHeldScript k sec ct => do_held_script k sec ct s
  end.

Fixpoint run (F : facts) (s : state) (ops : list op) : state * list rc :=
  match ops with
  | [] => (s, [])
  | o :: ops' =>
    let '(s1, r) := step F s o in
    let '(s2, rs) := run F s1 ops' in
    (s2, r :: rs)
  end.

Definition exec (F : facts) (s : state) (ops : list op) : state := fst (run F s ops).

(* --- Create + Open: the initial state --- *)
(* [nsc] default scopes, each with the default account 0 (the imported
   pseudo-account holds no keys and is not a derivation source here). *)
Definition init (nsc : nat) (pubpass privpass : N) : state :=
  let scs := map N.of_nat (seq 0 nsc) in
  {| sd := {| dk := {| d_watch := false; d_pub := (pubpass, 0); d_cpub := 0;
                       d_priv := Some (privpass, 1); d_cpriv := Some 1; d_cscript := Some 1 |};
              d_accts := map (fun sc => ((sc, 0), {| dr_watch := false; dr_has_priv := true;
                                                     dr_next_ext := 0; dr_next_int := 0 |})) scs;
              d_addrs := [];
              d_last := [] |};
     sm := {| mk := {| k_locked := true; k_watch := false; k_pub := (pubpass, 0);
                       k_priv := Some (privpass, 1); k_cpriv_enc := Some 1; k_cscript_enc := Some 1;
                       k_master := false; k_cpriv := false; k_cscript := false;
                       k_salt := 2; k_hashed := None |};
              m_accts := []; m_addrs := []; m_cache := []; m_queue := [] |};
     next_gen := 3; gone := [] |}.

(* ------------------------------------------------------------------ clear-text slots *)

Definition last_live (addrs : list ((N * akey) * aobj)) (sc : N) (r : lastref) : bool :=
  match r with
  | LOwn ct => ct
  | LAlias k => match alookup addr_eqb (sc, k) addrs with Some (OKey _ _ ct) => ct | _ => false end
  end.


(* no secret clear text anywhere in memory *)
Definition wiped (m : mem) : bool :=
  negb (k_master (mk m)) && negb (k_cpriv (mk m)) && negb (k_cscript (mk m))
  && match k_hashed (mk m) with None => true | Some _ => false end
  && forallb (fun kv => negb (ai_priv (snd kv)) && negb (own_live (ai_last_ext (snd kv)))
                        && negb (own_live (ai_last_int (snd kv)))) (m_accts m)
  && forallb (fun kv => negb (aobj_secret_live (snd kv))) (m_addrs m)
  && match m_cache m with [] => true | _ => false end.

(* the buffers the manager has dropped hold no clear text either *)
Definition gone_dead (s : state) : bool := forallb (fun e => negb (snd e)) (gone s).

(* ... all of them but the derived keys the third-party LRU pushes out *)
Definition gone_dead_but_lru (s : state) : bool :=
  forallb (fun e => negb (snd e) || match fst e with GCache => true | _ => false end) (gone s).

(* the memory clause of the property: no in-memory clear-text copy, reachable
   from the manager or not *)
Definition wiped_all (s : state) : bool := wiped (sm s) && gone_dead s.

Definition gone_live_count (c : gclass) (s : state) : nat :=
  length (filter (fun e => snd e && match fst e, c with
                                    | GKey, GKey | GAcct, GAcct | GScript, GScript | GCache, GCache => true
                                    | _, _ => false
                                    end) (gone s)).
