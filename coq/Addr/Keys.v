(** Symbolic hierarchical-deterministic keys and address formats (C03).

    A secret key is named by where it comes from: a root (the wallet's seed,
    an extended PUBLIC key somebody imported, or an imported single private
    key) and the derivation path walked from that root.  Private and public
    keys are two views ([priv], [pub]) of the same name, so that the BIP32
    law "the public key of the private child is the public child of the
    public key" holds by construction for unhardened steps.  Which bytes a
    path denotes (HMAC-SHA512, secp256k1) is the business of the harness'
    independent oracle (harness/internal/hdoracle), which maps every real key
    back to such a name.

    HARDENED steps exist in two variants - BIP32's and btcsuite's legacy rule
    (hdkeychain.DeriveNonStandard on a key whose leading zero bytes were
    dropped by the derivation that made it) - which give different children
    exactly when the parent private key has a leading zero byte.  A name
    [root / path] denotes the key the SPECIFICATION assigns to the path: the
    rule of every hardened step is the one of [spec_rule] (the table of
    harness/internal/hdoracle/spec.go, where the reasons are given).  What
    hdkeychain computes depends on how it HOLDS the parent ([width]); the
    section [key_algebra] makes the divergence an explicit parameter [lz]
    ("this private key has a leading zero byte") of the derivation function
    [ckd]: using the other rule than the specified one below such a key yields
    a key with another name ([off_spec]), never the child.

    No proofs here beyond the one-line law; executable definitions only. *)
From Verif Require Import Base.Prelude.
Local Open Scope N_scope.

(** hdkeychain.HardenedKeyStart *)
Definition hardened_start : N := 2147483648.

(** One derivation step: child number below 2^31 and the hardened flag. *)
Definition step := (N * bool)%type.

Inductive kroot :=
| RSeed (s : N)          (* the master node hdkeychain.NewMaster(seed) *)
| RXpub (x cn : N)       (* an imported account xpub [x]; [cn] = its ChildIndex() *)
| RImp (k : N)           (* an imported WIF: private scalar AND its "compressed public key" flag *)
| RImpPub (k : N)        (* a public key imported without its private key *)
| ROff (r : kroot).      (* NOT a key of the specification: made below root [r] with the wrong hardened rule *)

Record skey := mkKey { k_root : kroot; k_path : list step }.

Inductive privkey := Priv (k : skey).
Inductive pubkey := Pub (k : skey).

(** The two views of a key name. *)
Definition priv (k : skey) : privkey := Priv k.
Definition pub (k : skey) : pubkey := Pub k.
Definition pub_of_priv (p : privkey) : pubkey := match p with Priv k => Pub k end.
Definition skey_of_pub (p : pubkey) : skey := match p with Pub k => k end.
Definition skey_of_priv (p : privkey) : skey := match p with Priv k => k end.

Definition child (k : skey) (i : N) (hard : bool) : skey :=
  {| k_root := k_root k; k_path := k_path k ++ [(i, hard)] |}.

(** CKDpriv: any step.  CKDpub: unhardened steps only. *)
Definition ckd_priv (k : privkey) (i : N) (hard : bool) : privkey :=
  match k with Priv s => Priv (child s i hard) end.
Definition ckd_pub (p : pubkey) (i : N) : pubkey :=
  match p with Pub s => Pub (child s i false) end.

Lemma ckd_commute : forall k i, pub_of_priv (ckd_priv k i false) = ckd_pub (pub_of_priv k) i.
Proof. intros [s] i. reflexivity. Qed.

(** The master node of a seed and the path m/purpose'/coin'/account'/branch/index. *)
Definition master (seed : N) : skey := {| k_root := RSeed seed; k_path := [] |}.
Definition coin_key (seed purpose coin : N) : skey :=
  child (child (master seed) purpose true) coin true.
Definition acct_key (seed purpose coin account : N) : skey :=
  child (coin_key seed purpose coin) account true.
Definition addr_skey (acct : skey) (branch index : N) : skey :=
  child (child acct branch false) index false.
Definition xpub_key (x cn : N) : skey := {| k_root := RXpub x cn; k_path := [] |}.
Definition imp_key (k : N) : skey := {| k_root := RImp k; k_path := [] |}.
Definition imp_pub_key (k : N) : skey := {| k_root := RImpPub k; k_path := [] |}.

(** ExtendedKey.ChildIndex(): the raw uint32 child number of the last step. *)
Definition child_num (k : skey) : N :=
  match rev (k_path k) with
  | (i, h) :: _ => if h then i + hardened_start else i
  | [] => match k_root k with RXpub _ cn => cn | _ => 0 end
  end.

Definition is_hardened (i : N) : bool := hardened_start <=? i.
(** the child with raw uint32 child number [i], as the specification names it *)
Definition raw_child (k : skey) (i : N) : skey :=
  if is_hardened i then child k (i - hardened_start) true else child k i false.

(* ------------------------------------------- the two hardened-derivation rules *)

(** [Std] = BIP32: HMAC over 0x00 || ser256(k) || ser32(i).
    [Leg] = btcsuite's legacy rule: 0x00 || minimal big-endian bytes of k ||
    zero fill || ser32(i).  Equal unless k has a leading zero byte. *)
Inductive rule := Std | Leg.
Definition rule_eqb (a b : rule) : bool :=
  match a, b with Std, Std | Leg, Leg => true | _, _ => false end.

(** How hdkeychain holds the bytes of a private extended key: all 32 (made by
    NewMaster or parsed from its base58 string) or with the leading zero bytes
    dropped (the result of a derivation; IsAffectedByIssue172 when shorter). *)
Inductive width := Full | Short.

(** ExtendedKey.DeriveNonStandard copies the held bytes to the left:
    on a full-width key that IS BIP32's layout, on a shortened key the legacy one. *)
Definition rule_of_width (w : width) : rule := match w with Full => Std | Short => Leg end.

(** The rule the wallet MUST use for the hardened child [i] (raw child number)
    of the key named [k] - hdoracle.WalletRule, see spec.go for the reasons:
      m -> purpose'            BIP32   (the master key is always at full width)
      purpose' -> coin'        legacy  (the purpose key only exists as a derivation result)
      coin' -> 0'              legacy  (account 0 is made with its scope, from the derived coin-type key)
      coin' -> a', a >= 1      BIP32   (later accounts come from the coin-type key read back from the file)
      account' -> branch       BIP32   (the account key is always read back)
      branch -> index          legacy  (the branch key only exists as a derivation result)
    Existing wallets were derived this way; a wallet recovered from the seed
    must find their addresses. *)
Definition spec_rule (k : skey) (i : N) : rule :=
  match k_root k with
  | RSeed _ =>
    match k_path k with
    | [] => Std
    | [_] => Leg
    | [_; _] => if i =? hardened_start then Leg else Std
    | [_; _; _] => Std
    | _ => Leg
    end
  | _ => Std
  end.

(** the name of what comes out when the other rule is used below a key with a leading zero *)
Definition off_spec (k : skey) (i : N) : skey :=
  {| k_root := ROff (k_root k); k_path := k_path (raw_child k i) |}.

Section key_algebra.
  (** [lz k]: the private key named [k] has a leading zero byte.  A parameter:
      which keys have is decided by HMAC-SHA512 (about one key in 256). *)
  Variable lz : skey -> bool.

  (** CKDpriv under rule [r] of the key named [k], raw child number [i] *)
  Definition ckd (r : rule) (k : skey) (i : N) : skey :=
    if is_hardened i && lz k && negb (rule_eqb r (spec_rule k i)) then off_spec k i else raw_child k i.
End key_algebra.

(** The manager model is evaluated with the worst case: every key may have a
    leading zero byte, so ANY hardened step made with another rule than the
    specified one leaves the specification's key tree (MgrProofs.ckd_all_lz:
    the result is the child for every [lz] iff it is for this one). *)
Definition all_lz : skey -> bool := fun _ => true.

(** Extended keys as hdkeychain holds them: private (with the width of the
    stored bytes), or neutered. *)
Inductive xkey := XPriv (k : skey) (w : width) | XPub (k : skey).
Definition x_is_private (x : xkey) : bool := match x with XPriv _ _ => true | XPub _ => false end.
Definition x_skey (x : xkey) : skey := match x with XPriv k _ | XPub k => k end.
Definition x_neuter (x : xkey) : xkey := XPub (x_skey x).
(** NewKeyFromString(key.String()): what a key becomes when it is stored and read back *)
Definition x_reparse (x : xkey) : xkey := match x with XPriv k _ => XPriv k Full | XPub k => XPub k end.

(** ExtendedKey.DeriveNonStandard(i) with the raw uint32 child number:
    [None] = ErrDeriveHardFromPublic.  The child of a private key is held
    shortened.  (Invalid children, probability 2^-127 per step, are not
    modelled: an admissible step always succeeds.) *)
Definition x_derive (x : xkey) (i : N) : option xkey :=
  match x with
  | XPriv k w => Some (XPriv (ckd all_lz (rule_of_width w) k i) Short)
  | XPub k => if is_hardened i then None else Some (XPub (raw_child k i))
  end.

(** Address formats (waddrmgr.AddressType of pubkey addresses). *)
Inductive afmt := P2PKH | NP2WKH | P2WKH | P2TR.

(** ScopeAddrSchema. *)
Record schema := mkSchema { ext_fmt : afmt; int_fmt : afmt }.

(** KeyScope = (purpose, coin). *)
Definition scope := (N * N)%type.

Inductive addr :=
| AKey (f : afmt) (p : pubkey)       (* an address encoding public key [p] in format [f] *)
| AScriptHash (sc : N).              (* P2SH address of imported script [sc] *)

Definition addr_of (f : afmt) (p : pubkey) : addr := AKey f p.

(** btcutil.Address.ScriptAddress(): the identity under which the manager
    caches and stores an address.  P2PKH and P2WKH of one key share it. *)
Inductive akey :=
| KHash160 (p : pubkey)
| KNested (p : pubkey)
| KTaproot (p : pubkey)
| KScript (sc : N).

Definition addr_key (a : addr) : akey :=
  match a with
  | AKey P2PKH p | AKey P2WKH p => KHash160 p
  | AKey NP2WKH p => KNested p
  | AKey P2TR p => KTaproot p
  | AScriptHash sc => KScript sc
  end.

(** Decidable equalities (transparent: they are evaluated by vm_compute). *)
Definition step_eq_dec : forall a b : step, {a = b} + {a <> b}.
Proof. decide equality; [apply Bool.bool_dec | apply N.eq_dec]. Defined.
Definition kroot_eq_dec : forall a b : kroot, {a = b} + {a <> b}.
Proof. decide equality; apply N.eq_dec. Defined.
Definition rule_eq_dec : forall a b : rule, {a = b} + {a <> b}.
Proof. decide equality. Defined.
Definition skey_eq_dec : forall a b : skey, {a = b} + {a <> b}.
Proof. decide equality; [apply (list_eq_dec step_eq_dec) | apply kroot_eq_dec]. Defined.
Definition pubkey_eq_dec : forall a b : pubkey, {a = b} + {a <> b}.
Proof. decide equality; apply skey_eq_dec. Defined.
Definition privkey_eq_dec : forall a b : privkey, {a = b} + {a <> b}.
Proof. decide equality; apply skey_eq_dec. Defined.
Definition afmt_eq_dec : forall a b : afmt, {a = b} + {a <> b}.
Proof. decide equality. Defined.
Definition schema_eq_dec : forall a b : schema, {a = b} + {a <> b}.
Proof. decide equality; apply afmt_eq_dec. Defined.
Definition scope_eq_dec : forall a b : scope, {a = b} + {a <> b}.
Proof. decide equality; apply N.eq_dec. Defined.
Definition akey_eq_dec : forall a b : akey, {a = b} + {a <> b}.
Proof. decide equality; try apply pubkey_eq_dec; apply N.eq_dec. Defined.
Definition addr_eq_dec : forall a b : addr, {a = b} + {a <> b}.
Proof. decide equality; [apply pubkey_eq_dec | apply afmt_eq_dec | apply N.eq_dec]. Defined.

(** Association lists used as finite maps by the manager model. *)
Section alist.
  Context {K V : Type} (dec : forall a b : K, {a = b} + {a <> b}).

  Fixpoint aget (l : list (K * V)) (k : K) : option V :=
    match l with
    | [] => None
    | (k', v) :: l' => if dec k k' then Some v else aget l' k
    end.

  (** replace in place, or append *)
  Fixpoint aset (l : list (K * V)) (k : K) (v : V) : list (K * V) :=
    match l with
    | [] => [(k, v)]
    | (k', v') :: l' => if dec k k' then (k, v) :: l' else (k', v') :: aset l' k v
    end.

  Fixpoint adel (l : list (K * V)) (k : K) : list (K * V) :=
    match l with
    | [] => []
    | (k', v') :: l' => if dec k k' then adel l' k else (k', v') :: adel l' k
    end.

  Definition amap (f : V -> V) (l : list (K * V)) : list (K * V) :=
    map (fun kv => (fst kv, f (snd kv))) l.
End alist.
