(** Symbolic hierarchical-deterministic keys and address formats (C03).

    A secret key is named by where it comes from: a root (the wallet's seed,
    an extended PUBLIC key somebody imported, or an imported single private
    key) and the derivation path walked from that root.  Private and public
    keys are two views ([priv], [pub]) of the same name, so that the BIP32
    law "the public key of the private child is the public child of the
    public key" holds by construction for unhardened steps.  Which bytes a
    path denotes (HMAC-SHA512, secp256k1, btcsuite's legacy rule for hardened
    steps) is the business of the harness' independent oracle
    (harness/internal/hdoracle), which maps every real key back to such a
    name.

    No proofs here beyond the one-line law; executable definitions only. *)
From Verif Require Import Base.Prelude.
Local Open Scope N_scope.

(** hdkeychain.HardenedKeyStart *)
Definition hardened_start : N := 2147483648.

(** One derivation step: child number below 2^31 and the hardened flag. *)
Definition step := (N * bool)%type.

Inductive kroot :=
| RSeed (s : N)          (* the master node hdkeychain.NewMaster(seed) *)
| RXpub (x cn : N)       (* an imported account xpub [x]; [cn] = its ChildIndex() *)
| RImp (k : N).          (* an imported WIF private key *)

Record skey := mkKey { k_root : kroot; k_path : list step }.

Inductive privkey := Priv (k : skey).
Inductive pubkey := Pub (k : skey).

(** The two views of a key name. *)
Definition priv (k : skey) : privkey := Priv k.
Definition pub (k : skey) : pubkey := Pub k.
Definition pub_of_priv (p : privkey) : pubkey := match p with Priv k => Pub k end.
Definition skey_of_pub (p : pubkey) : skey := match p with Pub k => k end.
Definition skey_of_priv (p : privkey) : skey := match p with Priv k => k end.

Definition child (k : skey) (i : N) (hard : bool) : skey :=
  {| k_root := k_root k; k_path := k_path k ++ [(i, hard)] |}.

(** CKDpriv: any step.  CKDpub: unhardened steps only. *)
Definition ckd_priv (k : privkey) (i : N) (hard : bool) : privkey :=
  match k with Priv s => Priv (child s i hard) end.
Definition ckd_pub (p : pubkey) (i : N) : pubkey :=
  match p with Pub s => Pub (child s i false) end.

Lemma ckd_commute : forall k i, pub_of_priv (ckd_priv k i false) = ckd_pub (pub_of_priv k) i.
Proof. intros [s] i. reflexivity. Qed.

(** The master node of a seed and the path m/purpose'/coin'/account'/branch/index. *)
Definition master (seed : N) : skey := {| k_root := RSeed seed; k_path := [] |}.
Definition coin_key (seed purpose coin : N) : skey :=
  child (child (master seed) purpose true) coin true.
Definition acct_key (seed purpose coin account : N) : skey :=
  child (coin_key seed purpose coin) account true.
Definition addr_skey (acct : skey) (branch index : N) : skey :=
  child (child acct branch false) index false.
Definition xpub_key (x cn : N) : skey := {| k_root := RXpub x cn; k_path := [] |}.
Definition imp_key (k : N) : skey := {| k_root := RImp k; k_path := [] |}.

(** ExtendedKey.ChildIndex(): the raw uint32 child number of the last step. *)
Definition child_num (k : skey) : N :=
  match rev (k_path k) with
  | (i, h) :: _ => if h then i + hardened_start else i
  | [] => match k_root k with RXpub _ cn => cn | _ => 0 end
  end.

(** Extended keys as hdkeychain holds them: private, or neutered. *)
Inductive xkey := XPriv (k : skey) | XPub (k : skey).
Definition x_is_private (x : xkey) : bool := match x with XPriv _ => true | XPub _ => false end.
Definition x_skey (x : xkey) : skey := match x with XPriv k | XPub k => k end.
Definition x_neuter (x : xkey) : xkey := XPub (x_skey x).

(** ExtendedKey.DeriveNonStandard(i) with the raw uint32 child number:
    [None] = ErrDeriveHardFromPublic.  (Invalid children, probability 2^-127
    per step, are not modelled: an admissible step always succeeds.) *)
Definition is_hardened (i : N) : bool := hardened_start <=? i.
Definition raw_child (k : skey) (i : N) : skey :=
  if is_hardened i then child k (i - hardened_start) true else child k i false.
Definition x_derive (x : xkey) (i : N) : option xkey :=
  match x with
  | XPriv k => Some (XPriv (raw_child k i))
  | XPub k => if is_hardened i then None else Some (XPub (raw_child k i))
  end.

(** Address formats (waddrmgr.AddressType of pubkey addresses). *)
Inductive afmt := P2PKH | NP2WKH | P2WKH | P2TR.

(** ScopeAddrSchema. *)
Record schema := mkSchema { ext_fmt : afmt; int_fmt : afmt }.

(** KeyScope = (purpose, coin). *)
Definition scope := (N * N)%type.

Inductive addr :=
| AKey (f : afmt) (p : pubkey)       (* an address encoding public key [p] in format [f] *)
| AScriptHash (sc : N).              (* P2SH address of imported script [sc] *)

Definition addr_of (f : afmt) (p : pubkey) : addr := AKey f p.

(** btcutil.Address.ScriptAddress(): the identity under which the manager
    caches and stores an address.  P2PKH and P2WKH of one key share it. *)
Inductive akey :=
| KHash160 (p : pubkey)
| KNested (p : pubkey)
| KTaproot (p : pubkey)
| KScript (sc : N).

Definition addr_key (a : addr) : akey :=
  match a with
  | AKey P2PKH p | AKey P2WKH p => KHash160 p
  | AKey NP2WKH p => KNested p
  | AKey P2TR p => KTaproot p
  | AScriptHash sc => KScript sc
  end.

(** Decidable equalities (transparent: they are evaluated by vm_compute). *)
Definition step_eq_dec : forall a b : step, {a = b} + {a <> b}.
Proof. decide equality; [apply Bool.bool_dec | apply N.eq_dec]. Defined.
Definition kroot_eq_dec : forall a b : kroot, {a = b} + {a <> b}.
Proof. decide equality; apply N.eq_dec. Defined.
Definition skey_eq_dec : forall a b : skey, {a = b} + {a <> b}.
Proof. decide equality; [apply (list_eq_dec step_eq_dec) | apply kroot_eq_dec]. Defined.
Definition pubkey_eq_dec : forall a b : pubkey, {a = b} + {a <> b}.
Proof. decide equality; apply skey_eq_dec. Defined.
Definition privkey_eq_dec : forall a b : privkey, {a = b} + {a <> b}.
Proof. decide equality; apply skey_eq_dec. Defined.
Definition afmt_eq_dec : forall a b : afmt, {a = b} + {a <> b}.
Proof. decide equality. Defined.
Definition schema_eq_dec : forall a b : schema, {a = b} + {a <> b}.
Proof. decide equality; apply afmt_eq_dec. Defined.
Definition scope_eq_dec : forall a b : scope, {a = b} + {a <> b}.
Proof. decide equality; apply N.eq_dec. Defined.
Definition akey_eq_dec : forall a b : akey, {a = b} + {a <> b}.
Proof. decide equality; try apply pubkey_eq_dec; apply N.eq_dec. Defined.
Definition addr_eq_dec : forall a b : addr, {a = b} + {a <> b}.
Proof. decide equality; [apply pubkey_eq_dec | apply afmt_eq_dec | apply N.eq_dec]. Defined.

(** Association lists used as finite maps by the manager model. *)
Section alist.
  Context {K V : Type} (dec : forall a b : K, {a = b} + {a <> b}).

  Fixpoint aget (l : list (K * V)) (k : K) : option V :=
    match l with
    | [] => None
    | (k', v) :: l' => if dec k k' then Some v else aget l' k
    end.

  (** replace in place, or append *)
  Fixpoint aset (l : list (K * V)) (k : K) (v : V) : list (K * V) :=
    match l with
    | [] => [(k, v)]
    | (k', v') :: l' => if dec k k' then (k, v) :: l' else (k', v') :: aset l' k v
    end.

  Fixpoint adel (l : list (K * V)) (k : K) : list (K * V) :=
    match l with
    | [] => []
    | (k', v') :: l' => if dec k k' then adel l' k else (k', v') :: adel l' k
    end.

  Definition amap (f : V -> V) (l : list (K * V)) : list (K * V) :=
    map (fun kv => (fst kv, f (snd kv))) l.
End alist.
