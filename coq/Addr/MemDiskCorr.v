(** Executable comparison for the correspondence check of C08: the model
    ([MemDisk]) is run on the history the implementation ran and compared with
    (a) the outcome of every operation, (b) the answers of the RUNNING manager
    to the boundary queries after every transaction, (c) the answers of a
    manager FRESHLY OPENED on a copy of the database at that boundary (model:
    [reopen] of the model's database).  In addition the oracle of the theorem
    is evaluated on what the implementation reported: at a boundary whose
    history prefix is outside K, running and fresh answers must agree. *)
From stdpp Require Import gmap list numbers.
From Coq Require Import ZArith NArith.
From Verif Require Import Addr.MemDisk Generated.AddrCache.

(** The model parameters take the values the source has now. *)
Definition P_now : params :=
  {| p_rb := next_caches_read_back; p_ee := extend_updates_memory_eagerly;
     p_re := rename_updates_memory_eagerly |}.

Record txobs := {
  to_outs : list (option ans);  (* per operation, as the implementation returned; None: an outcome the
                                   wallet API that ran the operation does not show to its caller *)
  to_run : list ans;      (* running manager, per boundary query *)
  to_fresh : list ans;    (* freshly opened manager, per boundary query *)
}.

Record tcase := {
  tc_schema : N * N;      (* the scope's address schema (external, internal address type) *)
  tc_genesis_time : Z;
  tc_birthday : Z;
  tc_q0 : list query;     (* boundary before the first transaction *)
  tc_q0_run : list ans;
  tc_q0_fresh : list ans;
  tc_txs : list (txn * txobs);
}.

Definition ans_list_eqb (a b : list ans) : bool := bool_decide (a = b).

(** The outcome of an operation agrees with the model's when it is the same, or
    when both are errors and the implementation's is one whose guard fires in
    the model's state too ([alts]: the order of two failing guards is not
    something a theorem depends on). *)
Definition ans_agree (x y : ans) (a : list err) : bool :=
  bool_decide (x = y) ||
  match x, y with AErr _, AErr e => bool_decide (e ∈ a) | _, _ => false end.
Fixpoint outs_agree (mo : list ans) (im : list (option ans)) (al : list (list err)) : bool :=
  match mo, im, al with
  | [], [], _ => true
  | x :: mo', y :: im', a :: al' =>
      match y with Some y' => ans_agree x y' a | None => true end && outs_agree mo' im' al'
  | _, _, _ => false
  end.

(** Failure codes:
    1 outcome of an operation differs from the model
    2 running manager's answers differ from the model's memory
    3 fresh manager's answers differ from [reopen] of the model's database
    4 the history prefix is outside K but the implementation's running and
      fresh managers disagree (the theorem's claim fails on this run)
    5 inadmissible case (time stamps out of range) *)
Fixpoint check_txs (i : nat) (pre_k : bool) (l : list (txn * txobs)) (s : state) : list (nat * nat) :=
  match l with
  | [] => []
  | (x, o) :: r =>
      let al := ops_alts P_now (tx_ops x) (begin_tx s) in
      let '(s1, (outs, qa)) := run_tx P_now x s in
      (* the restarted manager is brought to the lock state of the running one *)
      let fresh := (run_queries (tx_queries x) (disk_of s1) (restart (mem_of s1) (disk_of s1))).2 in
      let k := pre_k || tx_k P_now x in
      (if outs_agree outs (to_outs o) al then [] else [(i, 1%nat)]) ++
      (if ans_list_eqb qa (to_run o) then [] else [(i, 2%nat)]) ++
      (if ans_list_eqb fresh (to_fresh o) then [] else [(i, 3%nat)]) ++
      (if k || ans_list_eqb (to_run o) (to_fresh o) then [] else [(i, 4%nat)]) ++
      check_txs (S i) k r s1
  end.

Definition case_failures (c : tcase) : list (nat * nat) :=
  let d0 := created (tc_schema c) 0 (tc_genesis_time c) (tc_birthday c) in
  let s0 := opened d0 in
  let '(m0, qa0) := run_queries (tc_q0 c) (disk_of s0) (mem_of s0) in
  (* the running manager was just opened: both columns are [reopen_as false d0] *)
  (if ans_list_eqb qa0 (tc_q0_run c) then [] else [(0%nat, 2%nat)]) ++
  (if ans_list_eqb qa0 (tc_q0_fresh c) then [] else [(0%nat, 3%nat)]) ++
  (if times_ok (map fst (tc_txs c)) then [] else [(0%nat, 5%nat)]) ++
  check_txs 1 false (tc_txs c) {| disk_of := d0; mem_of := m0 |}.

Definition case_ok (c : tcase) : bool :=
  match case_failures c with [] => true | _ => false end.

Fixpoint failures_from (i : nat) (l : list tcase) : list (nat * nat * nat) :=
  match l with
  | [] => []
  | c :: r => map (fun f => (i, f.1, f.2)) (case_failures c) ++ failures_from (S i) r
  end.

(** (case index, transaction index (1-based; 0 = before any), code) *)
Definition failures (l : list tcase) : list (nat * nat * nat) := failures_from 0 l.

Fixpoint mismatches_from (i : nat) (l : list tcase) : list nat :=
  match l with
  | [] => []
  | c :: r => if case_ok c then mismatches_from (S i) r else i :: mismatches_from (S i) r
  end.
Definition mismatches (l : list tcase) : list nat := mismatches_from 0 l.

(** Model-side oracle, used by the driver to print which boundaries of a
    history the MODEL predicts to diverge (running vs. reopened). *)
Fixpoint model_divergences (i : nat) (l : list txn) (s : state) : list nat :=
  match l with
  | [] => []
  | x :: r =>
      let '(s1, (_, qa)) := run_tx P_now x s in
      let fresh := (run_queries (tx_queries x) (disk_of s1) (restart (mem_of s1) (disk_of s1))).2 in
      (if ans_list_eqb qa fresh then [] else [i]) ++ model_divergences (S i) r s1
  end.
