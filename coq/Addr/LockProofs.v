(** C05 - lemmas and proofs about the lock-discipline model Addr/Lock.v.

    The theorems are stated for ALL operation histories (induction over the
    history through the invariant [Inv]) and for every value of the regenerated
    facts that satisfies the premises named in each statement. *)
From Verif Require Import Base.Prelude Addr.Lock.
Local Open Scope N_scope.

(* ------------------------------------------------------------------ facts *)

Definition facts_ok (F : facts) : Prop :=
  f_cache_checked F = true /\ f_lock_purges_cache F = true /\ f_lock_wipes_wscripts F = true /\
  f_lock_wipes_last F = true /\ f_unlock_skips_keyless F = true /\ f_keyless_not_queued F = true /\
  f_change_rejects_empty F = true /\ f_privkey_checks_first F = true /\ f_unlock_preloads F = true /\
  (* lock() zeroes what it drops and what it clears in place *)
  f_z_acct F = true /\ f_z_key F = true /\ f_z_script F = true /\ f_z_cache F = true /\ f_z_mgr F = true.

(* the operations that drop objects from the manager's state while it is
   unlocked wipe them first.  NOT part of [facts_ok]: see Properties/C05.v. *)
Definition evict_ok (F : facts) : Prop :=
  f_e_markused F = true /\ f_e_invalidate F = true /\ f_e_next F = true /\ f_e_unlock F = true.

(* a state differs from another one only in the record of dropped buffers *)
Lemma eq_upto_gone_Inv_aux (s s' : state) : sd s' = sd s -> sm s' = sm s ->
  locked s' = locked s /\ watch s' = watch s.
Proof. intros _ H. unfold locked, watch. rewrite H. auto. Qed.

(* ------------------------------------------------------------------ equality tests *)

Lemma pair_eqb_eq a b : pair_eqb a b = true <-> a = b.
Proof.
  destruct a as [a1 a2], b as [b1 b2]; unfold pair_eqb; simpl.
  rewrite andb_true_iff, !N.eqb_eq. split; [intros [-> ->]; reflexivity | intros H; inv H; auto].
Qed.

Lemma akey_eqb_eq a b : akey_eqb a b = true <-> a = b.
Proof.
  destruct a, b; simpl; try (split; [discriminate | discriminate]).
  - rewrite !andb_true_iff, !N.eqb_eq. split; [intros [[-> ->] ->]; reflexivity | intros H; inv H; auto].
  - rewrite N.eqb_eq. split; [intros ->; reflexivity | intros H; inv H; auto].
  - rewrite N.eqb_eq. split; [intros ->; reflexivity | intros H; inv H; auto].
Qed.

Lemma addr_eqb_eq a b : addr_eqb a b = true <-> a = b.
Proof.
  destruct a as [a1 a2], b as [b1 b2]; unfold addr_eqb; simpl.
  rewrite andb_true_iff, N.eqb_eq, akey_eqb_eq. split; [intros [-> ->]; reflexivity | intros H; inv H; auto].
Qed.

Lemma pair_eqb_refl a : pair_eqb a a = true.
Proof. apply pair_eqb_eq; reflexivity. Qed.
Lemma addr_eqb_refl a : addr_eqb a a = true.
Proof. apply addr_eqb_eq; reflexivity. Qed.

(* ------------------------------------------------------------------ association lists *)

Section AListLemmas.
  Context {K V : Type} (eqb : K -> K -> bool).
  Hypothesis eqb_eq : forall a b, eqb a b = true <-> a = b.

  Lemma eqb_refl a : eqb a a = true.
  Proof. apply eqb_eq; reflexivity. Qed.

  Lemma eqb_neq a b : a <> b -> eqb a b = false.
  Proof. intros H. destruct (eqb a b) eqn:E; [apply eqb_eq in E; contradiction | reflexivity]. Qed.

  Lemma alookup_app_none k (l l' : list (K * V)) :
    alookup eqb k l = None -> alookup eqb k (l ++ l') = alookup eqb k l'.
  Proof.
    induction l as [|[k' v] l IH]; simpl; [reflexivity|].
    destruct (eqb k k'); [discriminate | exact IH].
  Qed.

  Lemma alookup_app_some k v (l l' : list (K * V)) :
    alookup eqb k l = Some v -> alookup eqb k (l ++ l') = Some v.
  Proof.
    induction l as [|[k' v'] l IH]; simpl; [discriminate|].
    destruct (eqb k k'); [trivial | exact IH].
  Qed.

  Lemma alookup_upsert_same k v (l : list (K * V)) :
    alookup eqb k (aupsert eqb k v l) = Some v.
  Proof.
    induction l as [|[k' v'] l IH]; simpl.
    - rewrite eqb_refl; reflexivity.
    - destruct (eqb k k') eqn:E; simpl; [rewrite eqb_refl; reflexivity | rewrite E; exact IH].
  Qed.

  Lemma alookup_upsert_other k k' v (l : list (K * V)) :
    k' <> k -> alookup eqb k' (aupsert eqb k v l) = alookup eqb k' l.
  Proof.
    intros Hne. induction l as [|[k2 v2] l IH]; simpl.
    - rewrite (eqb_neq _ _ Hne); reflexivity.
    - destruct (eqb k k2) eqn:E; simpl.
      + apply eqb_eq in E; subst k2. rewrite (eqb_neq _ _ Hne); reflexivity.
      + destruct (eqb k' k2); [reflexivity | exact IH].
  Qed.

  Lemma alookup_avmap k (f : V -> V) (l : list (K * V)) :
    alookup eqb k (avmap f l) = option_map f (alookup eqb k l).
  Proof.
    induction l as [|[k' v'] l IH]; simpl; [reflexivity|].
    destruct (eqb k k'); [reflexivity | exact IH].
  Qed.

  Lemma alookup_In k v (l : list (K * V)) : alookup eqb k l = Some v -> In (k, v) l.
  Proof.
    induction l as [|[k' v'] l IH]; simpl; [discriminate|].
    destruct (eqb k k') eqn:E.
    - intros H; inv H. apply eqb_eq in E; subst. left; reflexivity.
    - intros H; right; apply IH; exact H.
  Qed.

  Lemma Forall_snd_lookup (P : V -> Prop) k v (l : list (K * V)) :
    Forall (fun kv => P (snd kv)) l -> alookup eqb k l = Some v -> P v.
  Proof.
    intros HF HL. apply alookup_In in HL. rewrite Forall_forall in HF. exact (HF _ HL).
  Qed.

  Lemma Forall_snd_upsert (P : V -> Prop) k v (l : list (K * V)) :
    Forall (fun kv => P (snd kv)) l -> P v -> Forall (fun kv => P (snd kv)) (aupsert eqb k v l).
  Proof.
    intros HF Hv. induction HF as [|[k' v'] l Hx Hl IH]; simpl.
    - constructor; [exact Hv | constructor].
    - destruct (eqb k k'); constructor; auto.
  Qed.

  Lemma Forall_snd_avmap (P Q : V -> Prop) (f : V -> V) (l : list (K * V)) :
    (forall v, P v -> Q (f v)) ->
    Forall (fun kv => P (snd kv)) l -> Forall (fun kv => Q (snd kv)) (avmap f l).
  Proof.
    intros Hf HF. induction HF as [|[k' v'] l Hx Hl IH]; simpl; constructor;
      [apply Hf; exact Hx | exact IH].
  Qed.

  Lemma Forall_snd_avmap_all (Q : V -> Prop) (f : V -> V) (l : list (K * V)) :
    (forall v, Q (f v)) -> Forall (fun kv => Q (snd kv)) (avmap f l).
  Proof.
    intros Hf. induction l as [|[k' v'] l IH]; simpl; constructor; [apply Hf | exact IH].
  Qed.
End AListLemmas.

(* ------------------------------------------------------------------ "no secret clear text" as a Prop *)

Definition acct_clean (ai : ainfo) : Prop :=
  ai_priv ai = false /\ own_live (ai_last_ext ai) = false /\ own_live (ai_last_int ai) = false.
Definition addr_clean (o : aobj) : Prop := aobj_secret_live o = false.

Definition Wiped (m : mem) : Prop :=
  k_master (mk m) = false /\ k_cpriv (mk m) = false /\ k_cscript (mk m) = false /\
  k_hashed (mk m) = None /\
  Forall (fun kv => acct_clean (snd kv)) (m_accts m) /\
  Forall (fun kv => addr_clean (snd kv)) (m_addrs m) /\
  m_cache m = [].

Lemma forallb_Forall_snd {K V} (f : V -> bool) (l : list (K * V)) :
  forallb (fun kv => f (snd kv)) l = true <-> Forall (fun kv => f (snd kv) = true) l.
Proof.
  rewrite forallb_forall, Forall_forall. reflexivity.
Qed.

Lemma wiped_iff m : wiped m = true <-> Wiped m.
Proof.
  unfold wiped, Wiped, acct_clean, addr_clean.
  rewrite !andb_true_iff, !negb_true_iff.
  rewrite (forallb_Forall_snd (fun ai => negb (ai_priv ai) && negb (own_live (ai_last_ext ai))
                                         && negb (own_live (ai_last_int ai)))).
  rewrite (forallb_Forall_snd (fun o => negb (aobj_secret_live o))).
  split.
  - intros [[[[[[H1 H2] H3] H4] H5] H6] H7]. repeat split; try assumption.
    + destruct (k_hashed (mk m)); [discriminate | reflexivity].
    + eapply Forall_impl; [|exact H5]. intros [k ai]; simpl.
      rewrite !andb_true_iff, !negb_true_iff. tauto.
    + eapply Forall_impl; [|exact H6]. intros [k o]; simpl. rewrite negb_true_iff; trivial.
    + destruct (m_cache m); [reflexivity | discriminate].
  - intros (H1 & H2 & H3 & H4 & H5 & H6 & H7). repeat split; try assumption.
    + rewrite H4; reflexivity.
    + eapply Forall_impl; [|exact H5]. intros [k ai]; simpl.
      rewrite !andb_true_iff, !negb_true_iff. tauto.
    + eapply Forall_impl; [|exact H6]. intros [k o]; simpl. rewrite negb_true_iff; trivial.
    + rewrite H7; reflexivity.
Qed.

(* --- Manager.lock() wipes everything (facts F2, F3, F4) --- *)

Lemma lock_ainfo_clean F ai : f_lock_wipes_last F = true -> acct_clean (lock_ainfo F ai).
Proof.
  intros HF. unfold acct_clean, lock_ainfo, lock_last; simpl. rewrite HF.
  repeat split; [destruct (ai_last_ext ai) | destruct (ai_last_int ai)]; reflexivity.
Qed.

Lemma lock_aobj_clean F o : f_lock_wipes_wscripts F = true -> addr_clean (lock_aobj F o).
Proof.
  intros HF. unfold addr_clean, lock_aobj, aobj_secret_live. destruct o as [imp enc ct | k sec ct]; simpl.
  - reflexivity.
  - destruct k; simpl; rewrite ?HF; simpl; apply andb_false_r.
Qed.

Lemma Wiped_lock_mem F m :
  f_lock_purges_cache F = true -> f_lock_wipes_wscripts F = true -> f_lock_wipes_last F = true ->
  f_z_mgr F = true ->
  Wiped (lock_mem F m).
Proof.
  intros H2 H3 H4 HZ. unfold Wiped, lock_mem; simpl. rewrite HZ. repeat split.
  - apply Forall_snd_avmap_all. intros ai; apply lock_ainfo_clean; exact H4.
  - apply Forall_snd_avmap_all. intros o; apply lock_aobj_clean; exact H3.
  - rewrite H2; reflexivity.
Qed.

Lemma lock_mem_locked F m : k_locked (mk (lock_mem F m)) = true.
Proof. reflexivity. Qed.

(* ------------------------------------------------------------------ the invariant *)

Lemma alookup_filter_ne {V} (k k0 : N * N) (l : list ((N * N) * V)) v :
  alookup pair_eqb k (filter (fun kv => negb (pair_eqb (fst kv) k0)) l) = Some v ->
  alookup pair_eqb k l = Some v.
Proof.
  induction l as [|[k' v'] l IH]; simpl; [discriminate|].
  destruct (pair_eqb k' k0) eqn:E0; simpl.
  - intros H. destruct (pair_eqb k k') eqn:E; [|auto].
    (* k = k' = k0 is impossible: k was found in the filtered list *)
    apply pair_eqb_eq in E; subst k'. exfalso.
    clear IH. induction l as [|[k2 v2] l IH2]; simpl in H; [discriminate|].
    destruct (pair_eqb k2 k0) eqn:E2; simpl in H; [auto|].
    destruct (pair_eqb k k2) eqn:E3; [|auto].
    apply pair_eqb_eq in E3; subst k2. congruence.
  - destruct (pair_eqb k k'); auto.
Qed.

(* a deriveOnUnlock entry that Unlock can serve: its account exists on disk
   with an encrypted private key *)
Definition dqok (d : list ((N * N) * drow)) (q : qent) : Prop :=
  exists k row, qent_acct q = Some k /\ alookup pair_eqb k d = Some row /\ dr_has_priv row = true.

Definition dext (d d' : list ((N * N) * drow)) : Prop :=
  forall k row, alookup pair_eqb k d = Some row ->
  exists row', alookup pair_eqb k d' = Some row' /\ dr_has_priv row' = dr_has_priv row.

(* the account cache agrees with the disk about which accounts have a private key *)
Definition Coh (d : list ((N * N) * drow)) (a : list ((N * N) * ainfo)) : Prop :=
  forall k ai, alookup pair_eqb k a = Some ai ->
  exists row, alookup pair_eqb k d = Some row /\ ai_has_enc ai = dr_has_priv row.

Lemma dext_refl d : dext d d.
Proof. intros k row H; exists row; auto. Qed.

Lemma dqok_ext d d' q : dext d d' -> dqok d q -> dqok d' q.
Proof.
  intros HE (k & row & Hk & HL & HP). destruct (HE _ _ HL) as (row' & HL' & HE').
  exists k, row'; repeat split; auto. congruence.
Qed.

Lemma Forall_dqok_ext d d' l : dext d d' -> Forall (dqok d) l -> Forall (dqok d') l.
Proof. intros HE. apply Forall_impl. intros q; apply dqok_ext; exact HE. Qed.

Lemma Coh_dext d d' a : dext d d' -> Coh d a -> Coh d' a.
Proof.
  intros HE HC k ai H. destruct (HC _ _ H) as (row & HL & HP).
  destruct (HE _ _ HL) as (row' & HL' & HE'). exists row'; split; [exact HL' | congruence].
Qed.

Lemma dext_app d x : dext d (d ++ x).
Proof. intros k row H. exists row; split; [apply alookup_app_some; exact H | reflexivity]. Qed.

Lemma dext_upsert d k row row0 :
  alookup pair_eqb k d = Some row0 -> dr_has_priv row = dr_has_priv row0 ->
  dext d (aupsert pair_eqb k row d).
Proof.
  intros HL HE k' r' H. destruct (pair_eqb k' k) eqn:E.
  - apply pair_eqb_eq in E; subst k'. exists row; split.
    + apply (alookup_upsert_same pair_eqb pair_eqb_eq).
    + congruence.
  - exists r'; split; [|reflexivity].
    rewrite (alookup_upsert_other pair_eqb pair_eqb_eq); [exact H|].
    intros ->. rewrite pair_eqb_refl in E; discriminate.
Qed.

Lemma Coh_app_fresh d a k ai row :
  Coh d a -> alookup pair_eqb k a = None ->
  alookup pair_eqb k d = Some row -> ai_has_enc ai = dr_has_priv row ->
  Coh d (a ++ [(k, ai)]).
Proof.
  intros HC HN HL HE k' ai' H.
  destruct (alookup pair_eqb k' a) as [ai0|] eqn:E.
  - rewrite (alookup_app_some pair_eqb _ _ _ _ E) in H. inv H. apply HC; exact E.
  - rewrite (alookup_app_none pair_eqb _ _ _ E) in H. simpl in H.
    destruct (pair_eqb k' k) eqn:E2; [|discriminate]. inv H.
    apply pair_eqb_eq in E2; subst k'. exists row; auto.
Qed.

Lemma Coh_upsert d a k ai ai0 :
  Coh d a -> alookup pair_eqb k a = Some ai0 -> ai_has_enc ai = ai_has_enc ai0 ->
  Coh d (aupsert pair_eqb k ai a).
Proof.
  intros HC HL HE k' ai' H. destruct (pair_eqb k' k) eqn:E.
  - apply pair_eqb_eq in E; subst k'.
    rewrite (alookup_upsert_same pair_eqb pair_eqb_eq) in H. inv H.
    destruct (HC _ _ HL) as (row & A & B). exists row; split; [exact A | congruence].
  - rewrite (alookup_upsert_other pair_eqb pair_eqb_eq) in H; [apply HC; exact H|].
    intros ->. rewrite pair_eqb_refl in E; discriminate.
Qed.

Lemma Coh_avmap d a (f : ainfo -> ainfo) :
  (forall ai, ai_has_enc (f ai) = ai_has_enc ai) -> Coh d a -> Coh d (avmap f a).
Proof.
  intros Hf HC k ai H. rewrite alookup_avmap in H.
  destruct (alookup pair_eqb k a) as [ai0|] eqn:E; [|discriminate]. simpl in H. inv H.
  destruct (HC _ _ E) as (row & A & B). exists row; split; [exact A | rewrite Hf; exact B].
Qed.

Lemma Coh_filter d a k0 :
  Coh d a -> Coh d (filter (fun kv => negb (pair_eqb (fst kv) k0)) a).
Proof. intros HC k ai H. apply HC. eapply alookup_filter_ne; eauto. Qed.

Lemma alookup_map_unalias sc a ct k l :
  alookup pair_eqb k (map (unalias sc a ct) l) =
  option_map (fun ai => snd (unalias sc a ct (k, ai))) (alookup pair_eqb k l).
Proof.
  induction l as [|[k' ai'] l IH]; [reflexivity|].
  change (map (unalias sc a ct) ((k', ai') :: l)) with (unalias sc a ct (k', ai') :: map (unalias sc a ct) l).
  assert (HK : fst (unalias sc a ct (k', ai')) = k').
  { unfold unalias. destruct (fst k' =? sc); reflexivity. }
  destruct (unalias sc a ct (k', ai')) as [k2 ai2] eqn:EU. simpl in HK; subst k2.
  cbn [alookup]. destruct (pair_eqb k k') eqn:E; [|exact IH].
  apply pair_eqb_eq in E; subst k'. cbn [option_map]. rewrite EU. reflexivity.
Qed.

Lemma unalias_has_enc sc a ct kv : ai_has_enc (snd (unalias sc a ct kv)) = ai_has_enc (snd kv).
Proof. destruct kv as [k ai]. unfold unalias. destruct (fst k =? sc); reflexivity. Qed.

Lemma Coh_unalias d l sc a ct : Coh d l -> Coh d (map (unalias sc a ct) l).
Proof.
  intros HC k ai H. rewrite alookup_map_unalias in H.
  destruct (alookup pair_eqb k l) as [ai0|] eqn:E; [|discriminate]. simpl in H. inv H.
  destruct (HC _ _ E) as (row & A & B). exists row; split; [exact A|].
  pose proof (unalias_has_enc sc a ct (k, ai0)) as HU. simpl in HU. simpl. congruence.
Qed.

Record KInv (d : dkeys) (k : keys) : Prop := {
  ki_watch : k_watch k = d_watch d;
  ki_wl : k_watch k = true -> k_locked k = true;
  ki_pub : k_pub k = d_pub d /\ d_cpub d = snd (d_pub d);
  ki_priv : k_watch k = false ->
    exists pw g, k_priv k = Some (pw, g) /\ d_priv d = Some (pw, g) /\
      k_cpriv_enc k = Some g /\ d_cpriv d = Some g /\
      k_cscript_enc k = Some g /\ d_cscript d = Some g /\
      pw <> empty_pass /\
      (k_locked k = false -> k_hashed k = Some (k_salt k, pw))
}.

Definition Inv (s : state) : Prop :=
  KInv (dk (sd s)) (mk (sm s)) /\
  Coh (d_accts (sd s)) (m_accts (sm s)) /\
  (watch s = false -> Forall (dqok (d_accts (sd s))) (m_queue (sm s))) /\
  (locked s = true -> Wiped (sm s)).

Lemma Inv_init nsc pub priv : priv <> empty_pass -> Inv (init nsc pub priv).
Proof.
  intros Hp. unfold Inv, init, watch, locked; simpl. split; [|split; [|split]].
  - constructor; simpl; auto; try discriminate.
    intros _. exists priv, 1. repeat split; auto. discriminate.
  - intros k ai H; discriminate.
  - intros _; constructor.
  - intros _. unfold Wiped; simpl. repeat split; constructor.
Qed.

(* the invariant does not look at the record of dropped buffers *)
Lemma Inv_upto_gone s s' : sd s' = sd s -> sm s' = sm s -> Inv s -> Inv s'.
Proof. unfold Inv, watch, locked. intros -> ->. auto. Qed.

Lemma Inv_add_gone s g : Inv s -> Inv (add_gone s g).
Proof. apply Inv_upto_gone; reflexivity. Qed.

(* the parts of Wiped that do not concern the keys record *)
Definition ObjsClean (m : mem) : Prop :=
  Forall (fun kv => acct_clean (snd kv)) (m_accts m) /\
  Forall (fun kv => addr_clean (snd kv)) (m_addrs m) /\
  m_cache m = [].

Lemma Wiped_objs m : Wiped m -> ObjsClean m.
Proof. intros (_ & _ & _ & _ & H5 & H6 & H7); repeat split; assumption. Qed.

Lemma Wiped_same_keys m m' : Wiped m -> mk m' = mk m -> ObjsClean m' -> Wiped m'.
Proof.
  intros (H1 & H2 & H3 & H4 & _) HK (H5 & H6 & H7). unfold Wiped. rewrite HK. repeat split; assumption.
Qed.

(* An operation that leaves both key records alone preserves the invariant
   when it keeps cache and disk coherent, the queue servable and, while
   locked, the objects clean. *)
Lemma Inv_objs s s' :
  Inv s -> dk (sd s') = dk (sd s) -> mk (sm s') = mk (sm s) ->
  Coh (d_accts (sd s')) (m_accts (sm s')) ->
  (watch s = false -> Forall (dqok (d_accts (sd s'))) (m_queue (sm s'))) ->
  (locked s = true -> ObjsClean (sm s) -> ObjsClean (sm s')) ->
  Inv s'.
Proof.
  intros (HK & HC & HQ & HW) Hd Hm HC' HQ' HW'. unfold Inv, watch, locked in *. rewrite Hd, Hm.
  split; [exact HK|]. split; [exact HC'|]. split.
  - exact HQ'.
  - intros HL. apply (Wiped_same_keys (sm s)); auto. apply HW'; auto. apply Wiped_objs; auto.
Qed.

Ltac splits := repeat match goal with |- _ /\ _ => split end.

(* ------------------------------------------------------------------ loadAccountInfo *)

Lemma queue_if_public_cases F has_enc private q :
  f_keyless_not_queued F = true ->
  queue_if_public F has_enc private q = [] \/ (has_enc = true /\ private = false /\ queue_if_public F has_enc private q = q).
Proof.
  intros HF. unfold queue_if_public. rewrite HF. destruct private; [left; reflexivity|].
  destruct has_enc; simpl; [right; auto | left; reflexivity].
Qed.

Definition mono (a a' : list ((N * N) * ainfo)) : Prop :=
  forall k ai, alookup pair_eqb k a = Some ai -> alookup pair_eqb k a' = Some ai.

Lemma load_acct_spec F sc acct s s1 ai :
  load_acct F sc acct s = Some (s1, ai) ->
  sd s1 = sd s /\ next_gen s1 = next_gen s /\ mk (sm s1) = mk (sm s) /\
  m_addrs (sm s1) = m_addrs (sm s) /\ m_cache (sm s1) = m_cache (sm s) /\
  alookup pair_eqb (sc, acct) (m_accts (sm s1)) = Some ai /\
  mono (m_accts (sm s)) (m_accts (sm s1)) /\
  (Coh (d_accts (sd s)) (m_accts (sm s)) -> Coh (d_accts (sd s)) (m_accts (sm s1))) /\
  (exists q, m_queue (sm s1) = m_queue (sm s) ++ q /\
             (f_keyless_not_queued F = true -> Forall (dqok (d_accts (sd s))) q) /\
             Forall (fun x => qent_acct x = Some (sc, acct)) q) /\
  (locked s = true -> Forall (fun kv => acct_clean (snd kv)) (m_accts (sm s)) ->
                      Forall (fun kv => acct_clean (snd kv)) (m_accts (sm s1))).
Proof.
  unfold load_acct. destruct (alookup pair_eqb (sc, acct) (m_accts (sm s))) as [ai0|] eqn:EL.
  - intros H; inv H. splits; auto.
    + intros k ai' H; exact H.
    + exists []; rewrite app_nil_r; splits; [reflexivity | intros _; constructor | constructor].
  - destruct (alookup pair_eqb (sc, acct) (d_accts (sd s))) as [row|] eqn:ED; [|discriminate].
    set (hasp := negb (k_locked (mk (sm s))) && negb (k_watch (mk (sm s))) && negb (dr_watch row)).
    destruct (hasp && negb (dr_has_priv row)) eqn:EH; [discriminate|].
    intros H; inv H. simpl. splits; auto.
    + rewrite (alookup_app_none pair_eqb _ _ _ EL). simpl. rewrite pair_eqb_refl; reflexivity.
    + intros k ai' H. apply alookup_app_some; exact H.
    + intros HC. eapply Coh_app_fresh; eauto.
    + eexists; splits; [reflexivity | |].
      * intros HF.
        destruct (queue_if_public_cases F (dr_has_priv row) hasp [QLast sc acct false; QLast sc acct true] HF)
          as [-> | (He & _ & ->)]; [constructor|].
        constructor; [|constructor; [|constructor]]; exists (sc, acct), row; auto.
      * unfold queue_if_public. destruct hasp; [constructor|].
        destruct (f_keyless_not_queued F && negb (dr_has_priv row)); repeat constructor.
    + intros HL HF. apply Forall_app; split; [exact HF|]. constructor; [|constructor].
      unfold locked in HL. subst hasp. rewrite HL. simpl. repeat split.
Qed.

(* ------------------------------------------------------------------ loadAndCacheAddress *)

Lemma addr_clean_key_dead imp enc : addr_clean (OKey imp enc false).
Proof. reflexivity. Qed.
Lemma addr_clean_script_dead k sec : addr_clean (OScript k sec false).
Proof. unfold addr_clean, aobj_secret_live; simpl. apply andb_false_r. Qed.
Lemma addr_clean_public k ct : addr_clean (OScript k false ct).
Proof. reflexivity. Qed.

Lemma dqok_of_cached d accts k ai q :
  Coh d accts -> alookup pair_eqb k accts = Some ai -> ai_has_enc ai = true ->
  qent_acct q = Some k -> dqok d q.
Proof.
  intros HC HL HE HQ. destruct (HC _ _ HL) as (row & A & B).
  exists k, row; repeat split; auto. congruence.
Qed.

Lemma load_addr_spec F sc a s s1 o :
  load_addr F sc a s = Some (s1, o) ->
  sd s1 = sd s /\ next_gen s1 = next_gen s /\ mk (sm s1) = mk (sm s) /\
  m_cache (sm s1) = m_cache (sm s) /\
  alookup addr_eqb (sc, a) (m_addrs (sm s1)) = Some o /\
  (Coh (d_accts (sd s)) (m_accts (sm s)) -> Coh (d_accts (sd s)) (m_accts (sm s1))) /\
  (exists q, m_queue (sm s1) = m_queue (sm s) ++ q /\
             (f_keyless_not_queued F = true -> Coh (d_accts (sd s)) (m_accts (sm s)) ->
              Forall (dqok (d_accts (sd s))) q)) /\
  (locked s = true -> ObjsClean (sm s) -> ObjsClean (sm s1)).
Proof.
  unfold load_addr. destruct (alookup addr_eqb (sc, a) (m_addrs (sm s))) as [o0|] eqn:EL.
  - intros H; inv H. splits; auto.
    exists []; rewrite app_nil_r; split; [reflexivity | intros; constructor].
  - destruct (alookup addr_eqb (sc, a) (d_addrs (sd s))) as [[|hp|k sec]|]; [| | |discriminate].
    + destruct a as [acct br idx| |]; try discriminate.
      destruct (load_acct F sc acct s) as [[s0 ai]|] eqn:ELA; [|discriminate].
      destruct (load_acct_spec _ _ _ _ _ _ ELA) as (Hd & Hg & Hk & Ha & Hc & Hl & Hm & HCo & (q0 & Hq0 & Hq0ok & _) & Hcl).
      intros H; inv H. simpl. splits; auto.
      * rewrite Ha. rewrite (alookup_app_none addr_eqb _ _ _ EL). simpl. rewrite addr_eqb_refl; reflexivity.
      * eexists; split; [rewrite Hq0, <- app_assoc; reflexivity|]. intros HF HC.
        apply Forall_app; split; [apply Hq0ok; exact HF|].
        match goal with |- Forall _ (queue_if_public F ?e ?p ?q) =>
          destruct (queue_if_public_cases F e p q HF) as [-> | (He' & _ & ->)] end; [constructor|].
        constructor; [|constructor].
        apply (dqok_of_cached _ (m_accts (sm s0)) (sc, acct) ai); auto.
      * intros HL (HA & HB & HC). repeat split.
        -- apply Hcl; assumption.
        -- rewrite Ha. apply Forall_app; split; [exact HB|]. constructor; [|constructor]. simpl.
           unfold locked in HL. rewrite Hk, HL. simpl. reflexivity.
        -- simpl. rewrite Hc; exact HC.
    + intros H; inv H. simpl. splits; auto.
      * rewrite (alookup_app_none addr_eqb _ _ _ EL). simpl. rewrite addr_eqb_refl; reflexivity.
      * exists []; rewrite app_nil_r; split; [reflexivity | intros; constructor].
      * intros _ (HA & HB & HC). repeat split; auto. apply Forall_app; split; [exact HB|].
        constructor; [apply addr_clean_key_dead | constructor].
    + intros H; inv H. simpl. splits; auto.
      * rewrite (alookup_app_none addr_eqb _ _ _ EL). simpl. rewrite addr_eqb_refl; reflexivity.
      * exists []; rewrite app_nil_r; split; [reflexivity | intros; constructor].
      * intros _ (HA & HB & HC). repeat split; auto. apply Forall_app; split; [exact HB|].
        constructor; [apply addr_clean_script_dead | constructor].
Qed.

Lemma ObjsClean_set_addr s sc a o :
  ObjsClean (sm s) -> addr_clean o -> ObjsClean (sm (set_addr s sc a o)).
Proof.
  intros (HA & HB & HC) Ho. repeat split; simpl; auto.
  apply (Forall_snd_upsert addr_eqb addr_clean); assumption.
Qed.

(* ------------------------------------------------------------------ preservation: object-level operations *)

Lemma Inv_parts s : Inv s ->
  Coh (d_accts (sd s)) (m_accts (sm s)) /\ (watch s = false -> Forall (dqok (d_accts (sd s))) (m_queue (sm s))).
Proof. intros (_ & HC & HQ & _); auto. Qed.

(* same disk accounts, queue extended *)
Lemma Inv_ext s s1 :
  Inv s -> dk (sd s1) = dk (sd s) -> d_accts (sd s1) = d_accts (sd s) -> mk (sm s1) = mk (sm s) ->
  Coh (d_accts (sd s)) (m_accts (sm s1)) ->
  (exists q, m_queue (sm s1) = m_queue (sm s) ++ q /\ (watch s = false -> Forall (dqok (d_accts (sd s))) q)) ->
  (locked s = true -> ObjsClean (sm s) -> ObjsClean (sm s1)) ->
  Inv s1.
Proof.
  intros HI Hd Hda Hm HC (q & Hq & Hqok) Hc. apply (Inv_objs s); auto.
  - rewrite Hda; exact HC.
  - intros HW. rewrite Hq, Hda. apply Forall_app; split; [|auto].
    destruct (Inv_parts _ HI) as [_ HQ]; auto.
Qed.

Lemma Inv_load_acct F sc acct s s1 ai :
  f_keyless_not_queued F = true -> Inv s -> load_acct F sc acct s = Some (s1, ai) -> Inv s1.
Proof.
  intros HF HI HL. destruct (load_acct_spec _ _ _ _ _ _ HL) as (Hd & _ & Hk & Ha & Hc & _ & _ & HCo & (q & Hq & Hqok & _) & Hcl).
  destruct (Inv_parts _ HI) as [HC _].
  apply (Inv_ext s); auto; try (rewrite Hd; reflexivity).
  - exists q; auto.
  - intros HL' (A & B & C). repeat split; [apply Hcl; auto | rewrite Ha; exact B | rewrite Hc; exact C].
Qed.

Lemma Inv_load_addr F sc a s s1 o :
  f_keyless_not_queued F = true -> Inv s -> load_addr F sc a s = Some (s1, o) -> Inv s1.
Proof.
  intros HF HI HL. destruct (load_addr_spec _ _ _ _ _ _ HL) as (Hd & _ & Hk & Hc & _ & HCo & (q & Hq & Hqok) & Hcl).
  destruct (Inv_parts _ HI) as [HC _].
  apply (Inv_ext s); auto; try (rewrite Hd; reflexivity).
  exists q; auto.
Qed.

Lemma Inv_same_mem s s' :
  Inv s -> dk (sd s') = dk (sd s) -> dext (d_accts (sd s)) (d_accts (sd s')) -> sm s' = sm s -> Inv s'.
Proof.
  intros HI Hd He Hm. destruct (Inv_parts _ HI) as [HC HQ].
  apply (Inv_objs s); auto; rewrite Hm; auto.
  - eapply Coh_dext; eauto.
  - intros HW. eapply Forall_dqok_ext; eauto.
Qed.

Lemma Inv_set_addr s sc a o :
  Inv s -> (locked s = true -> addr_clean o) -> Inv (set_addr s sc a o).
Proof.
  intros HI Ho. destruct (Inv_parts _ HI) as [HC HQ]. apply (Inv_objs s); auto.
  intros HL HCl. apply ObjsClean_set_addr; auto.
Qed.

Lemma locked_of_mk s s' : mk (sm s') = mk (sm s) -> locked s' = locked s /\ watch s' = watch s.
Proof. intros H; unfold locked, watch; rewrite H; auto. Qed.

Lemma Inv_acct_props F sc acct s s' r :
  f_keyless_not_queued F = true -> Inv s -> do_acct_props F sc acct s = (s', r) -> Inv s'.
Proof.
  intros HF HI. unfold do_acct_props. destruct (load_acct F sc acct s) as [[s1 ai]|] eqn:E; intros H; inv H; auto.
  eapply Inv_load_acct; eauto.
Qed.

Lemma Inv_add_account sc row s : Inv s -> Inv (add_account sc row s).
Proof.
  intros HI. apply (Inv_same_mem s); auto. simpl. apply dext_app.
Qed.

Lemma Inv_new_account sc s s' r : Inv s -> do_new_account sc s = (s', r) -> Inv s'.
Proof.
  intros HI. unfold do_new_account. destruct (watch s); [intros H; inv H; auto|].
  destruct (locked s); intros H; inv H; auto. apply Inv_add_account; auto.
Qed.

Lemma Inv_new_raw_account sc n s s' r : Inv s -> do_new_raw_account sc n s = (s', r) -> Inv s'.
Proof.
  intros HI. unfold do_new_raw_account. destruct (watch s); [intros H; inv H; auto|].
  destruct (locked s); [intros H; inv H; auto|].
  destruct (alookup pair_eqb (sc, n) (d_accts (sd s))); intros H; inv H; auto.
  apply (Inv_same_mem s); auto. simpl. apply dext_app.
Qed.

Lemma Inv_new_scope s s' r : Inv s -> do_new_scope s = (s', r) -> Inv s'.
Proof. intros HI. unfold do_new_scope. destruct (negb (watch s) && locked s); intros H; inv H; auto. Qed.

Lemma Inv_new_watch_account sc s s' r : Inv s -> do_new_watch_account sc s = (s', r) -> Inv s'.
Proof. intros HI H; inv H. apply Inv_add_account; auto. Qed.

Lemma Inv_crypt kt s s' r : Inv s -> do_crypt kt s = (s', r) -> Inv s'.
Proof.
  intros HI. unfold do_crypt. destruct kt; try destruct (locked s || watch s); intros H; inv H; auto.
Qed.

Lemma Inv_import_priv sc n s s' r : Inv s -> do_import_priv sc n s = (s', r) -> Inv s'.
Proof.
  intros HI. unfold do_import_priv.
  destruct (locked s && negb (watch s)) eqn:E1; [intros H; inv H; auto|].
  destruct (addr_known sc (KImp n) s); intros H; inv H; auto.
  apply Inv_set_addr.
  - apply (Inv_same_mem s); auto. apply dext_refl.
  - unfold locked; simpl. intros HL. fold (locked s) in HL. rewrite HL in E1. simpl in E1.
    apply negb_false_iff in E1. rewrite E1. simpl. apply addr_clean_key_dead.
Qed.

Lemma Inv_import_script sc n k secret s s' r : Inv s -> do_import_script sc n k secret s = (s', r) -> Inv s'.
Proof.
  intros HI. unfold do_import_script.
  set (sec := match k with KP2SH => true | _ => secret end).
  destruct (sec && locked s) eqn:E1; [intros H; inv H; auto|].
  destruct (sec && watch s) eqn:E2; [intros H; inv H; auto|].
  destruct (addr_known sc (KScr n) s); intros H; inv H; auto.
  apply Inv_set_addr.
  - apply (Inv_same_mem s); auto. apply dext_refl.
  - unfold locked; simpl. intros HL. fold (locked s) in HL. rewrite HL, andb_true_r in E1. rewrite E1.
    apply addr_clean_public.
Qed.

Lemma Inv_do_load_addr F sc a s s' r :
  f_keyless_not_queued F = true -> Inv s -> do_load_addr F sc a s = (s', r) -> Inv s'.
Proof.
  intros HF HI. unfold do_load_addr. destruct (load_addr F sc a s) as [[s1 o]|] eqn:E; intros H; inv H; auto.
  eapply Inv_load_addr; eauto.
Qed.

Lemma key_access_ok_unlocked F k enc ct :
  f_privkey_checks_first F = true -> key_access F k enc ct = ROk -> k_locked k = false /\ k_watch k = false.
Proof.
  intros HF. unfold key_access. rewrite HF.
  destruct (k_watch k); [discriminate|]. destruct (k_locked k); [discriminate|]. auto.
Qed.

Lemma Inv_priv_key F sc a s s' r :
  f_keyless_not_queued F = true -> f_privkey_checks_first F = true ->
  Inv s -> do_priv_key F sc a s = (s', r) -> Inv s'.
Proof.
  intros HF HF8 HI. unfold do_priv_key. destruct (load_addr F sc a s) as [[s1 o]|] eqn:E; [|intros H; inv H; auto].
  assert (HI1 : Inv s1) by (eapply Inv_load_addr; eauto).
  destruct o as [imp enc ct | k sec ct]; [|intros H; inv H; auto].
  destruct (key_access F (mk (sm s1)) enc ct) eqn:EK; intros H; inv H; auto.
  apply Inv_set_addr; auto. intros HL.
  destruct (key_access_ok_unlocked _ _ _ _ HF8 EK) as [A _]. unfold locked in HL. congruence.
Qed.

Lemma Inv_script F sc a s s' r :
  f_keyless_not_queued F = true -> Inv s -> do_script F sc a s = (s', r) -> Inv s'.
Proof.
  intros HF HI. unfold do_script. destruct (load_addr F sc a s) as [[s1 o]|] eqn:E; [|intros H; inv H; auto].
  assert (HI1 : Inv s1) by (eapply Inv_load_addr; eauto).
  destruct o as [imp enc ct | k sec ct]; [intros H; inv H; auto|].
  destruct (script_access (mk (sm s1)) k sec) eqn:EK; intros H; inv H; auto.
  apply Inv_set_addr; auto. intros HL. unfold script_access in EK. unfold locked in HL. rewrite HL in EK.
  rewrite !andb_true_r in EK.
  destruct (match k with KP2SH => true | _ => sec end) eqn:EG; simpl in EK.
  - destruct (k_watch (mk (sm s1))); discriminate.
  - destruct k; try discriminate; subst sec; apply addr_clean_public.
Qed.

Lemma Inv_queue_detached F s1 sc acct ai private n :
  f_keyless_not_queued F = true -> Inv s1 ->
  alookup pair_eqb (sc, acct) (m_accts (sm s1)) = Some ai ->
  Inv (with_mem s1 (mem_queue (sm s1)
         (m_queue (sm s1) ++ queue_if_public F (ai_has_enc ai) private (repeat (QDetached sc acct) n)))).
Proof.
  intros HF HI1 Hl. destruct (Inv_parts _ HI1) as [HC _].
  apply (Inv_ext s1); auto.
  eexists; split; [reflexivity|]. intros _.
  destruct (queue_if_public_cases F (ai_has_enc ai) private (repeat (QDetached sc acct) n) HF) as [-> | (He & _ & ->)]; [constructor|].
  apply Forall_forall. intros q Hq. apply repeat_spec in Hq; subst q.
  apply (dqok_of_cached _ (m_accts (sm s1)) (sc, acct) ai); auto.
Qed.

Lemma Inv_derive F sc acct br idx s s' r :
  f_keyless_not_queued F = true -> Inv s -> do_derive F sc acct br idx s = (s', r) -> Inv s'.
Proof.
  intros HF HI. unfold do_derive. destruct (load_acct F sc acct s) as [[s1 ai]|] eqn:E; [|intros H; inv H; auto].
  assert (HI1 : Inv s1) by (eapply Inv_load_acct; eauto).
  destruct (load_acct_spec _ _ _ _ _ _ E) as (_ & _ & _ & _ & _ & Hl & _).
  intros H; inv H.
  exact (Inv_queue_detached F s1 sc acct ai _ 1 HF HI1 Hl).
Qed.

Lemma Inv_foreach F sc acct s s' r :
  f_keyless_not_queued F = true -> Inv s -> do_foreach F sc acct s = (s', r) -> Inv s'.
Proof.
  intros HF HI. unfold do_foreach.
  destruct (filter (is_chain_row sc acct) (d_addrs (sd s))) as [|x rows]; [intros H; inv H; auto|].
  destruct (load_acct F sc acct s) as [[s1 ai]|] eqn:E; [|intros H; inv H; auto].
  assert (HI1 : Inv s1) by (eapply Inv_load_acct; eauto).
  destruct (load_acct_spec _ _ _ _ _ _ E) as (_ & _ & _ & _ & _ & Hl & _).
  intros H; inv H.
  exact (Inv_queue_detached F s1 sc acct ai _ (length (x :: rows)) HF HI1 Hl).
Qed.

Lemma Inv_derive_cache F sc acct br idx s s' r :
  f_cache_checked F = true -> Inv s -> do_derive_cache F sc acct br idx s = (s', r) -> Inv s'.
Proof.
  intros HF HI. unfold do_derive_cache. rewrite HF. simpl.
  destruct (k_watch (mk (sm s))) eqn:EW; [intros H; inv H; auto|].
  destruct (k_locked (mk (sm s))) eqn:EL; [intros H; inv H; auto|].
  destruct (Inv_parts _ HI) as [HC HQ].
  assert (HU : forall c, Inv (with_mem s (mem_cache (sm s) c))).
  { intros c. apply (Inv_objs s); auto. unfold locked. rewrite EL. discriminate. }
  destruct (existsb _ _); [intros H; inv H; apply HU|].
  destruct (alookup pair_eqb (sc, acct) (m_accts (sm s))) as [ai|]; [|intros H; inv H; auto].
  simpl. destruct (ai_priv ai); intros H; inv H; auto. apply Inv_add_gone, HU.
Qed.

Lemma Inv_cache_fill_loop F sc acct br n : forall base s s' r,
  f_cache_checked F = true -> Inv s -> cache_fill_loop F sc acct br base n s = (s', r) -> Inv s'.
Proof.
  induction n as [|n IH]; intros base s s' r HF HI; simpl.
  - intros H; inv H; exact HI.
  - destruct (do_derive_cache F sc acct br base s) as [s1 r1] eqn:E.
    pose proof (Inv_derive_cache _ _ _ _ _ _ _ _ HF HI E) as HI1.
    destruct r1; try (intros H; inv H; exact HI1). apply IH; assumption.
Qed.

Lemma Inv_cache_fill F sc acct br n base s s' r :
  f_cache_checked F = true -> Inv s -> cache_fill F sc acct br base n s = (s', r) -> Inv s'.
Proof.
  intros HF HI. unfold cache_fill.
  destruct (alookup pair_eqb (sc, acct) (m_accts (sm s))) as [ai|]; simpl;
    [|apply Inv_cache_fill_loop; assumption].
  destruct (k_locked (mk (sm s))) eqn:EL; simpl; [apply Inv_cache_fill_loop; assumption|].
  match goal with |- context [if ?c then _ else _] => destruct c end;
    [|apply Inv_cache_fill_loop; assumption].
  intros H; inv H. apply Inv_add_gone. destruct (Inv_parts _ HI) as [HC HQ].
  apply (Inv_objs s); auto. unfold locked. rewrite EL. discriminate.
Qed.

Lemma Forall_dqok_map d (f : qent -> qent) l :
  (forall q, qent_acct (f q) = qent_acct q) -> Forall (dqok d) l -> Forall (dqok d) (map f l).
Proof.
  intros Hf HF. apply Forall_map. eapply Forall_impl; [|exact HF].
  intros q (k & row & A & B & C). exists k, row; repeat split; auto. rewrite Hf; exact A.
Qed.

Lemma qent_acct_orphan_last sc acct i q : qent_acct (orphan_last sc acct i q) = qent_acct q.
Proof.
  destruct q as [| sc' acct' i' |]; simpl; auto.
  destruct ((sc' =? sc) && (acct' =? acct) && bool_eq i' i) eqn:E; [|reflexivity].
  apply andb_true_iff in E as [E _]. apply andb_true_iff in E as [E1 E2].
  apply N.eqb_eq in E1, E2. subst. reflexivity.
Qed.

Lemma acct_clean_set_last internal a ai : acct_clean ai -> acct_clean (set_last internal (LAlias a) ai).
Proof.
  intros (H1 & H2 & H3). unfold set_last. destruct internal; repeat split; simpl; auto.
Qed.

Lemma Inv_next_addr F sc acct internal s s' r :
  f_keyless_not_queued F = true -> Inv s -> do_next_addr F sc acct internal s = (s', r) -> Inv s'.
Proof.
  intros HF HI. unfold do_next_addr.
  destruct (load_acct F sc acct s) as [[s1 ai]|] eqn:E; [|intros H; inv H; auto].
  assert (HI1 : Inv s1) by (eapply Inv_load_acct; eauto).
  destruct (load_acct_spec _ _ _ _ _ _ E) as (_ & _ & _ & _ & _ & Hl & _).
  destruct (alookup pair_eqb (sc, acct) (d_accts (sd s1))) as [row|] eqn:ER; [|intros H; inv H; auto].
  set (k := mk (sm s1)).
  set (wo := k_watch k || negb (ai_has_enc ai)).
  set (private := negb (k_locked k) && negb wo).
  destruct (private && negb (ai_priv ai)); [intros H; inv H; auto|].
  set (a := KChain acct (if internal then 1 else 0) (if internal then dr_next_int row else dr_next_ext row)).
  intros H; inv H.
  destruct (Inv_parts _ HI1) as [HC HQ].
  assert (HDE : dext (d_accts (sd s1)) (aupsert pair_eqb (sc, acct) (bump_row internal row) (d_accts (sd s1)))).
  { apply (dext_upsert _ _ _ row); [exact ER | destruct internal; reflexivity]. }
  assert (HK : ai_has_enc ai = true -> dqok (aupsert pair_eqb (sc, acct) (bump_row internal row) (d_accts (sd s1))) (QDetached sc acct)).
  { intros He. apply (dqok_ext (d_accts (sd s1))); [exact HDE|].
    apply (dqok_of_cached _ (m_accts (sm s1)) (sc, acct) ai); auto. }
  apply (Inv_objs s1); auto; simpl.
  - apply (Coh_dext (d_accts (sd s1))); [exact HDE|].
    apply (Coh_upsert _ _ _ _ ai); [exact HC | exact Hl | destruct internal; reflexivity].
  - intros HW. apply Forall_app; split;
      [apply Forall_dqok_map; [apply qent_acct_orphan_last | eapply Forall_dqok_ext; eauto]|].
    apply Forall_app; split.
    + match goal with |- Forall _ (queue_if_public F ?e ?p ?q) =>
        destruct (queue_if_public_cases F e p q HF) as [-> | (He' & _ & ->)] end; [constructor|].
      constructor; [|constructor]. auto.
    + fold k. destruct (k_locked k && negb wo) eqn:EQ; [|constructor].
      constructor; [|constructor].
      assert (He : ai_has_enc ai = true).
      { apply andb_true_iff in EQ as [_ EQ]. apply negb_true_iff in EQ. subst wo.
        apply orb_false_iff in EQ as [_ EQ]. apply negb_false_iff in EQ; exact EQ. }
      destruct (HK He) as (k0 & row0 & A & B & C). exists k0, row0; auto.
  - intros HL (HA & HB & HC'). repeat split; simpl; auto.
    + apply (Forall_snd_upsert pair_eqb acct_clean); [exact HA|].
      apply acct_clean_set_last. exact (Forall_snd_lookup pair_eqb pair_eqb_eq acct_clean _ _ _ HA Hl).
    + apply (Forall_snd_upsert addr_eqb addr_clean); [exact HB|].
      subst private. fold k. unfold locked in HL. fold k in HL. rewrite HL. simpl. apply addr_clean_key_dead.
Qed.

(* --- MarkUsed, InvalidateAccountCache --- *)

Lemma qent_acct_requeue accts sc a q : qent_acct (requeue accts sc a q) = qent_acct q.
Proof.
  destruct q as [sc' a'| |]; simpl; auto.
  destruct ((sc' =? sc) && akey_eqb a' a) eqn:E; [|reflexivity].
  apply andb_true_iff in E as [E1 E2]. apply N.eqb_eq in E1. apply akey_eqb_eq in E2. subst sc' a'.
  destruct a as [acct br idx| |]; [|reflexivity|reflexivity].
  destruct (alookup pair_eqb (sc, acct) accts) as [ai|]; [|reflexivity].
  destruct ((br =? 0) && is_alias (KChain acct br idx) (ai_last_ext ai)); [reflexivity|].
  destruct ((br =? 1) && is_alias (KChain acct br idx) (ai_last_int ai)); reflexivity.
Qed.

Lemma qent_acct_orphan sc acct q : qent_acct (orphan sc acct q) = qent_acct q.
Proof.
  destruct q as [| sc' acct' i |]; simpl; auto.
  destruct ((sc' =? sc) && (acct' =? acct)) eqn:E; [|reflexivity].
  apply andb_true_iff in E as [E1 E2]. apply N.eqb_eq in E1, E2. subst. reflexivity.
Qed.

Lemma unalias_ref_clean a r : own_live r = false -> own_live (unalias_ref a false r) = false.
Proof. destruct r as [ct|b]; simpl; auto. destruct (akey_eqb b a); reflexivity. Qed.

Lemma Inv_mark_used F sc a s s' r : Inv s -> do_mark_used F sc a s = (s', r) -> Inv s'.
Proof.
  intros HI. unfold do_mark_used.
  destruct (alookup addr_eqb (sc, a) (m_addrs (sm s))) as [o|] eqn:EL; intros H; inv H; auto.
  apply Inv_add_gone.
  destruct (Inv_parts _ HI) as [HC HQ].
  apply (Inv_objs s); auto; simpl.
  - apply Coh_unalias; exact HC.
  - intros HW. apply Forall_dqok_map; [apply qent_acct_requeue | auto].
  - intros HL (HA & HB & HC'). repeat split; simpl; auto.
    + assert (Hct : match o with OKey _ _ ct => ct && negb (f_e_markused F) | OScript _ _ _ => false end = false).
      { pose proof (Forall_snd_lookup addr_eqb addr_eqb_eq addr_clean _ _ _ HB EL) as Ho.
        destruct o as [imp enc ct|]; [change (ct = false) in Ho; rewrite Ho; reflexivity | reflexivity]. }
      rewrite Hct. apply Forall_map. eapply Forall_impl; [|exact HA].
      intros [k ai] (P1 & P2 & P3). unfold unalias. destruct (fst k =? sc); simpl; [|repeat split; auto].
      repeat split; simpl; auto using unalias_ref_clean.
    + apply Forall_filter; exact HB.
Qed.

Lemma Inv_invalidate F sc acct s s' r : Inv s -> do_invalidate F sc acct s = (s', r) -> Inv s'.
Proof.
  intros HI H; inv H. apply Inv_add_gone. destruct (Inv_parts _ HI) as [HC HQ].
  apply (Inv_objs s); auto; simpl.
  - apply Coh_filter; exact HC.
  - intros HW. apply Forall_dqok_map; [apply qent_acct_orphan | auto].
  - intros HL (HA & HB & HC'). repeat split; simpl; auto. apply Forall_filter; exact HA.
Qed.

(* ------------------------------------------------------------------ preservation: lock / unlock / passphrases *)

(* any state of the shape "lock() was just run", whatever the salt *)
Definition locked_mem (F : facts) (m : mem) (salt : N) : mem :=
  lock_mem F (mem_keys m (with_salt (mk m) salt)).

Lemma lock_mem_as_locked_mem F m : lock_mem F m = locked_mem F m (k_salt (mk m)).
Proof. reflexivity. Qed.

Lemma Inv_locked_mem F s salt :
  f_lock_purges_cache F = true -> f_lock_wipes_wscripts F = true -> f_lock_wipes_last F = true ->
  f_z_mgr F = true ->
  Inv s -> Inv (with_mem s (locked_mem F (sm s) salt)).
Proof.
  intros H2 H3 H4 HZ (HK & HC & HQ & HW). unfold Inv, watch, locked, locked_mem. simpl. split; [|split; [|split]].
  - destruct HK as [K1 K2 K3 K4]. constructor; simpl; auto.
    intros HWt. destruct (K4 HWt) as (pw & g & A & B & C & D & E & G & I & _).
    exists pw, g. repeat split; auto. discriminate.
  - apply Coh_avmap; [reflexivity | exact HC].
  - exact HQ.
  - intros _. apply (Wiped_lock_mem F (mem_keys (sm s) (with_salt (mk (sm s)) salt))); assumption.
Qed.

(* lock() was just run on the memory of [s] (whatever the salt); what it
   dropped has joined [gone] *)
Lemma Inv_lock_state F s s' salt :
  facts_ok F -> Inv s -> sd s' = sd s -> sm s' = locked_mem F (sm s) salt -> Inv s'.
Proof.
  intros (_ & H2 & H3 & H4 & _ & _ & _ & _ & _ & _ & _ & _ & _ & HZ) HI Hd Hm.
  apply (Inv_upto_gone (with_mem s (locked_mem F (sm s) salt))); auto.
  apply Inv_locked_mem; auto.
Qed.

Lemma Inv_lock F s s' r :
  facts_ok F -> Inv s -> do_lock F s = (s', r) -> Inv s'.
Proof.
  intros HF HI. unfold do_lock.
  destruct (watch s); [intros H; inv H; auto|].
  destruct (locked s); intros H; inv H; auto.
  apply (Inv_lock_state F s _ (k_salt (mk (sm s)))); auto.
Qed.

Lemma salt_after_nonempty salt p : p <> empty_pass -> salt_after salt p = salt.
Proof.
  intros H. unfold salt_after. destruct (p =? empty_pass) eqn:E; [apply N.eqb_eq in E; contradiction | reflexivity].
Qed.

(* --- the preload of Unlock --- *)

Lemma preload_spec F qs : forall s s0,
  f_keyless_not_queued F = true -> Inv s -> preload F qs s = Some s0 ->
  Inv s0 /\ sd s0 = sd s /\ next_gen s0 = next_gen s /\ mk (sm s0) = mk (sm s) /\
  mono (m_accts (sm s)) (m_accts (sm s0)) /\
  (exists q, m_queue (sm s0) = m_queue (sm s) ++ q /\
     Forall (fun x => exists k ai, qent_acct x = Some k /\ alookup pair_eqb k (m_accts (sm s0)) = Some ai) q) /\
  Forall (fun x => forall k, qent_acct x = Some k -> exists ai, alookup pair_eqb k (m_accts (sm s0)) = Some ai) qs.
Proof.
  induction qs as [|q qs IH]; intros s s0 HF HI H; simpl in H.
  - inv H. splits; auto. { intros k ai H; exact H. }
    exists []; rewrite app_nil_r; split; [reflexivity | constructor].
  - destruct (qent_acct q) as [[sc acct]|] eqn:EQ.
    + destruct (load_acct F sc acct s) as [[s1 ai]|] eqn:EL; [|discriminate].
      pose proof (Inv_load_acct _ _ _ _ _ _ HF HI EL) as HI1.
      destruct (load_acct_spec _ _ _ _ _ _ EL) as (Hd & Hg & Hk & _ & _ & Hl & Hm & _ & (q1 & Hq1 & _ & Hq1a) & _).
      destruct (IH s1 s0 HF HI1 H) as (HI0 & Hd0 & Hg0 & Hk0 & Hm0 & (q2 & Hq2 & Hq2c) & Hall).
      splits; auto; try congruence.
      * intros k ai' Hx. apply Hm0. apply Hm. exact Hx.
      * exists (q1 ++ q2). split; [rewrite Hq2, Hq1, app_assoc; reflexivity|].
        apply Forall_app; split; [|exact Hq2c].
        eapply Forall_impl; [|exact Hq1a]. intros x Hx. exists (sc, acct), ai. split; [exact Hx|].
        apply Hm0; exact Hl.
      * constructor; [|exact Hall]. intros k Hk'. rewrite EQ in Hk'. inv Hk'. exists ai. apply Hm0; exact Hl.
    + destruct (IH s s0 HF HI H) as (HI0 & Hd0 & Hg0 & Hk0 & Hm0 & Hq & Hall).
      splits; auto. constructor; [|exact Hall]. intros k Hk'. congruence.
Qed.

Lemma preload_succeeds F qs : forall s,
  locked s = true -> Forall (dqok (d_accts (sd s))) qs -> exists s0, preload F qs s = Some s0.
Proof.
  induction qs as [|q qs IH]; intros s HL HQ; simpl; [eexists; reflexivity|].
  inv HQ. destruct H1 as (k & row & Hk & Hrow & Hp). rewrite Hk. destruct k as [sc acct].
  assert (HLA : exists s1 ai, load_acct F sc acct s = Some (s1, ai)).
  { unfold load_acct. destruct (alookup pair_eqb (sc, acct) (m_accts (sm s))); [eauto|].
    rewrite Hrow. unfold locked in HL. rewrite HL. simpl. eauto. }
  destruct HLA as (s1 & ai & EL). rewrite EL.
  destruct (load_acct_spec _ _ _ _ _ _ EL) as (Hd & _ & Hk1 & _).
  apply IH.
  - unfold locked. rewrite Hk1. exact HL.
  - rewrite Hd. exact H2.
Qed.

Lemma Coh_apply_qent d m q : Coh d (m_accts m) -> Coh d (m_accts (apply_qent m q)).
Proof.
  intros HC. destruct q as [sc a|sc acct internal|sc acct]; simpl; auto.
  - destruct (alookup addr_eqb (sc, a) (m_addrs m)) as [[imp enc ct|]|]; simpl; auto.
  - destruct (alookup pair_eqb (sc, acct) (m_accts m)) as [ai|] eqn:E; simpl; auto.
    apply (Coh_upsert _ _ _ _ ai); auto. destruct internal; reflexivity.
Qed.

Lemma Coh_fold_apply d qs : forall m, Coh d (m_accts m) -> Coh d (m_accts (fold_left apply_qent qs m)).
Proof.
  induction qs as [|q qs IH]; intros m HC; simpl; [exact HC|].
  apply IH. apply Coh_apply_qent; exact HC.
Qed.

Lemma Inv_unlock F p s s' r :
  facts_ok F -> Inv s -> do_unlock F p s = (s', r) -> Inv s'.
Proof.
  intros HFok HI. pose proof HFok as (_ & H2 & H3 & H4 & _ & F6 & _). unfold do_unlock.
  destruct (k_watch (mk (sm s))) eqn:EW; [intros H; inv H; auto|].
  pose proof HI as (HK & HC & HQ & HWp). destruct HK as [K1 K2 K3 K4].
  destruct (K4 EW) as (pw & g & A & B & C & D & E & G & I & J).
  destruct (k_locked (mk (sm s))) eqn:EL; simpl.
  - (* locked: slow path *)
    rewrite A. destruct (pw =? p) eqn:EP; simpl.
    2:{ intros H; inv H. apply (Inv_lock_state F s _ (k_salt (mk (sm s)))); auto. }
    rewrite C. rewrite N.eqb_refl. simpl.
    destruct (if f_unlock_preloads F then preload F (m_queue (sm s)) s else Some s) as [s0|] eqn:EPre.
    2:{ intros H; inv H. apply (Inv_lock_state F s _ (k_salt (mk (sm s)))); auto. }
    assert (HS0 : Inv s0 /\ sd s0 = sd s /\ mk (sm s0) = mk (sm s)).
    { destruct (f_unlock_preloads F).
      - destruct (preload_spec _ _ _ _ F6 HI EPre) as (X & Y & _ & Z & _). auto.
      - inv EPre. auto. }
    destruct HS0 as (HI0 & Hd0 & Hk0).
    destruct (negb (f_unlock_skips_keyless F) && existsb _ _).
    { intros H; inv H. apply (Inv_lock_state F s0 _ (k_salt (mk (sm s0)))); auto. }
    destruct (negb (forallb _ _)); [intros H; inv H; auto|].
    intros H; inv H. apply N.eqb_eq in EP; subst p.
    destruct (Inv_parts _ HI0) as [HC0 _].
    unfold Inv, watch, locked; simpl. rewrite Hd0. split; [|split; [|split]].
    + constructor; simpl; auto; try congruence.
      intros _. exists pw, g. repeat split; auto.
      intros _. rewrite salt_after_nonempty; auto.
    + rewrite <- Hd0. apply Coh_fold_apply. simpl. apply Coh_avmap; [reflexivity | exact HC0].
    + intros _; constructor.
    + discriminate.
  - (* already unlocked: hash comparison *)
    rewrite (J eq_refl). rewrite N.eqb_refl. simpl.
    destruct (pw =? p) eqn:EP.
    + apply N.eqb_eq in EP; subst p. intros H; inv H.
      unfold Inv, watch, locked; simpl. split; [|split; [|split]].
      * constructor; simpl; auto; try congruence.
        intros _. exists pw, g. repeat split; auto.
        intros _. rewrite salt_after_nonempty; auto.
      * exact HC.
      * exact HQ.
      * intros HL'. congruence.
    + intros H; inv H.
      apply (Inv_lock_state F s _ (salt_after (k_salt (mk (sm s))) p)); auto.
Qed.

Lemma Inv_change_priv F old new s s' r :
  f_change_rejects_empty F = true -> Inv s -> do_change_priv F old new s = (s', r) -> Inv s'.
Proof.
  intros HF HI. unfold do_change_priv. rewrite HF. simpl.
  destruct (k_watch (mk (sm s))) eqn:EW; [intros H; inv H; auto|].
  destruct (new =? empty_pass) eqn:EN; [intros H; inv H; auto|].
  apply N.eqb_neq in EN.
  pose proof HI as (HK & HC & HQ & HWp). destruct HK as [K1 K2 K3 K4].
  destruct (K4 EW) as (pw & g & A & B & C & D & E & G & I & J).
  rewrite A. destruct (pw =? old); simpl; [|intros H; inv H; auto].
  rewrite C, E, N.eqb_refl. simpl.
  intros H; inv H. unfold Inv, watch, locked; simpl. split; [|split; [|split]].
  - constructor; simpl; auto; try congruence.
    intros _. exists new, (next_gen s). repeat split; auto.
    intros HL. rewrite HL. rewrite salt_after_nonempty; auto.
  - exact HC.
  - intros _. apply HQ. exact EW.
  - intros HL. specialize (HWp HL). destruct HWp as (W1 & W2 & W3 & W4 & W5 & W6 & W7).
    unfold Wiped; simpl. rewrite HL. simpl. repeat split; auto.
Qed.

Lemma Inv_change_pub old new s s' r : Inv s -> do_change_pub old new s = (s', r) -> Inv s'.
Proof.
  intros HI. unfold do_change_pub. destruct (k_pub (mk (sm s))) as [pw g0].
  destruct (pw =? old); simpl; [|intros H; inv H; auto].
  intros H; inv H. destruct HI as (HK & HC & HQ & HWp). destruct HK as [K1 K2 K3 K4].
  unfold Inv, watch, locked; simpl. split; [|split; [|split]]; auto.
  constructor; simpl; auto.
Qed.

Lemma Inv_open p s s' r : Inv s -> do_open p s = (s', r) -> Inv s'.
Proof.
  intros HI. unfold do_open. destruct (d_pub (dk (sd s))) as [pw g0] eqn:EP.
  destruct (pw =? p); simpl; [|intros H; inv H; auto].
  destruct (d_cpub (dk (sd s)) =? g0) eqn:EC; simpl; [|intros H; inv H; auto].
  intros H; inv H. destruct HI as (HK & HC & HQ & HWp). destruct HK as [K1 K2 K3 K4].
  unfold Inv, watch, locked; simpl. split; [|split; [|split]].
  - constructor; simpl; auto.
    + destruct K3 as [_ K3]; split; congruence.
    + intros HW. rewrite HW. rewrite <- K1 in HW.
      destruct (K4 HW) as (pw' & g & A & B & C & D & E & G & I & J).
      exists pw', g. repeat split; auto. discriminate.
  - intros k ai H; discriminate.
  - intros _; constructor.
  - intros _. unfold Wiped; simpl. repeat split; constructor.
Qed.

Lemma acct_clean_convert ai : acct_clean ai -> acct_clean (convert_ainfo ai).
Proof. intros H; exact H. Qed.
Lemma addr_clean_convert o : addr_clean o -> addr_clean (convert_aobj o).
Proof. destruct o; intros H; exact H. Qed.

Lemma Coh_convert d a : Coh d a -> Coh (avmap convert_drow d) (avmap convert_ainfo a).
Proof.
  intros HC k ai H. rewrite alookup_avmap in H.
  destruct (alookup pair_eqb k a) as [ai0|] eqn:E; [|discriminate]. simpl in H. inv H.
  destruct (HC _ _ E) as (row & A & _). exists (convert_drow row). split; [|reflexivity].
  rewrite alookup_avmap, A. reflexivity.
Qed.

Lemma Inv_convert F s s' r : facts_ok F -> Inv s -> do_convert F s = (s', r) -> Inv s'.
Proof.
  intros (_ & H2 & H3 & H4 & _ & _ & _ & _ & _ & _ & _ & _ & _ & HZ) HI. unfold do_convert.
  destruct (watch s) eqn:EW; [intros H; inv H; auto|].
  set (m0 := if locked s then sm s else lock_mem F (sm s)).
  assert (HL0 : k_locked (mk m0) = true).
  { subst m0. destruct (locked s) eqn:EL; [exact EL | reflexivity]. }
  assert (HW0 : Wiped m0).
  { subst m0. destruct (locked s) eqn:EL; [destruct HI as (_ & _ & _ & HW); auto | apply Wiped_lock_mem; auto]. }
  assert (HP0 : k_pub (mk m0) = k_pub (mk (sm s))).
  { subst m0. destruct (locked s); reflexivity. }
  assert (HC0 : Coh (d_accts (sd s)) (m_accts m0)).
  { destruct (Inv_parts _ HI) as [HC _]. subst m0. destruct (locked s); [exact HC|].
    simpl. apply Coh_avmap; [reflexivity | exact HC]. }
  intros H; inv H. destruct HI as (HK & HC & HQ & HWp). destruct HK as [K1 K2 K3 K4].
  unfold Inv, watch, locked; simpl. split; [|split; [|split]].
  - constructor; simpl; auto; [rewrite HP0; exact K3 | discriminate].
  - apply Coh_convert; exact HC0.
  - discriminate.
  - intros _. destruct HW0 as (W1 & W2 & W3 & W4 & W5 & W6 & W7). unfold Wiped; simpl. repeat split; auto.
    + eapply Forall_snd_avmap; [|exact W5]. apply acct_clean_convert.
    + eapply Forall_snd_avmap; [|exact W6]. apply addr_clean_convert.
Qed.

(* ------------------------------------------------------------------ all histories *)

Theorem Inv_step F s o s' r : facts_ok F -> Inv s -> step F s o = (s', r) -> Inv s'.
Proof.
  intros HF HI. pose proof HF as (F1 & F2 & F3 & F4 & F5 & F6 & F7 & F8 & F9 & _).
  destruct o; simpl; intros H.
  - eapply Inv_open; eauto.
  - eapply Inv_unlock; eauto.
  - eapply Inv_lock; eauto.
  - eapply Inv_change_priv; eauto.
  - eapply Inv_change_pub; eauto.
  - eapply Inv_new_account; eauto.
  - eapply Inv_new_raw_account; eauto.
  - eapply Inv_new_scope; eauto.
  - eapply Inv_new_watch_account; eauto.
  - eapply Inv_acct_props; eauto.
  - eapply Inv_next_addr; eauto.
  - eapply Inv_import_priv; eauto.
  - eapply Inv_import_script; eauto.
  - eapply Inv_do_load_addr; eauto.
  - eapply Inv_priv_key; eauto.
  - eapply Inv_script; eauto.
  - eapply Inv_derive; eauto.
  - eapply Inv_derive_cache; eauto.
  - eapply Inv_cache_fill; eauto.
  - eapply Inv_crypt; eauto.
  - eapply Inv_crypt; eauto.
  - eapply Inv_convert; eauto.
  - eapply Inv_mark_used; eauto.
  - eapply Inv_foreach; eauto.
  - eapply Inv_invalidate; eauto.
  - unfold do_held_priv_key in H. inv H. exact HI.
  - unfold do_held_script in H. inv H. exact HI.
Qed.

Lemma exec_cons F s o ops : exec F s (o :: ops) = exec F (fst (step F s o)) ops.
Proof.
  unfold exec; simpl. destruct (step F s o) as [s1 r]. simpl. destruct (run F s1 ops); reflexivity.
Qed.

Lemma exec_app F s ops1 ops2 : exec F s (ops1 ++ ops2) = exec F (exec F s ops1) ops2.
Proof.
  revert s. induction ops1 as [|o ops1 IH]; intros s; [reflexivity|].
  simpl. rewrite !exec_cons. apply IH.
Qed.

Theorem Inv_exec F s ops : facts_ok F -> Inv s -> Inv (exec F s ops).
Proof.
  intros HF. revert s. induction ops as [|o ops IH]; intros s HI; [exact HI|].
  rewrite exec_cons. apply IH. destruct (step F s o) as [s1 r] eqn:E. simpl.
  eapply Inv_step; eauto.
Qed.

Definition reachable (F : facts) (nsc : nat) (pub priv : N) (s : state) : Prop :=
  exists ops, s = exec F (init nsc pub priv) ops.

Theorem Inv_reachable F nsc pub priv s :
  facts_ok F -> priv <> empty_pass -> reachable F nsc pub priv s -> Inv s.
Proof.
  intros HF Hp (ops & ->). apply Inv_exec; [exact HF | apply Inv_init; exact Hp].
Qed.

(* ------------------------------------------------------------------ (i) access control, in ANY state *)

Definition lockerr (r : rc) : Prop := r = RLocked \/ r = RWatchOnly.

(* the accessor cores: whatever the object holds *)
Lemma key_access_locked F k enc ct :
  f_privkey_checks_first F = true -> k_locked k = true \/ k_watch k = true ->
  lockerr (key_access F k enc ct).
Proof.
  intros HF HL. unfold key_access. rewrite HF.
  destruct (k_watch k); [right; reflexivity|].
  destruct HL as [HL|HL]; [|discriminate]. rewrite HL. left; reflexivity.
Qed.

Lemma script_access_locked k kd sec :
  k_locked k = true \/ k_watch k = true -> kd = KP2SH \/ sec = true ->
  lockerr (script_access k kd sec).
Proof.
  intros HL HS. unfold script_access.
  assert (HG : match kd with KP2SH => true | _ => sec end = true).
  { destruct HS as [-> | ->]; [reflexivity | destruct kd; reflexivity]. }
  rewrite HG. simpl.
  destruct (k_watch k); [right; reflexivity|].
  destruct HL as [HL|HL]; [|discriminate]. rewrite HL. left; reflexivity.
Qed.

Lemma lockerr_not_ok r : lockerr r -> r <> ROk.
Proof. intros [-> | ->]; discriminate. Qed.

Lemma ac_priv_key F sc a s s1 imp enc ct :
  f_privkey_checks_first F = true ->
  locked s = true \/ watch s = true ->
  load_addr F sc a s = Some (s1, OKey imp enc ct) ->
  lockerr (snd (do_priv_key F sc a s)) /\ fst (do_priv_key F sc a s) = s1.
Proof.
  intros HF HL E. unfold do_priv_key. rewrite E.
  destruct (load_addr_spec _ _ _ _ _ _ E) as (_ & _ & Hk & _).
  assert (HL1 : k_locked (mk (sm s1)) = true \/ k_watch (mk (sm s1)) = true) by (rewrite Hk; exact HL).
  pose proof (key_access_locked F _ enc ct HF HL1) as HE.
  destruct HE as [-> | ->]; simpl; split; auto; [left | right]; reflexivity.
Qed.

Lemma ac_priv_key_no_material F sc a s :
  f_privkey_checks_first F = true ->
  locked s = true \/ watch s = true -> snd (do_priv_key F sc a s) <> ROk.
Proof.
  intros HF HL. destruct (load_addr F sc a s) as [[s1 [imp enc ct|k sec ct]]|] eqn:E.
  - destruct (ac_priv_key F sc a s s1 imp enc ct HF HL E) as [H _]. apply lockerr_not_ok; exact H.
  - unfold do_priv_key. rewrite E. discriminate.
  - unfold do_priv_key. rewrite E. discriminate.
Qed.

Lemma ac_script F sc a s s1 k sec ct :
  locked s = true \/ watch s = true ->
  load_addr F sc a s = Some (s1, OScript k sec ct) ->
  k = KP2SH \/ sec = true ->
  lockerr (snd (do_script F sc a s)) /\ fst (do_script F sc a s) = s1.
Proof.
  intros HL E HS. unfold do_script. rewrite E.
  destruct (load_addr_spec _ _ _ _ _ _ E) as (_ & _ & Hk & _).
  assert (HL1 : k_locked (mk (sm s1)) = true \/ k_watch (mk (sm s1)) = true) by (rewrite Hk; exact HL).
  pose proof (script_access_locked _ k sec HL1 HS) as HE.
  destruct HE as [-> | ->]; simpl; split; auto; [left | right]; reflexivity.
Qed.

Lemma ac_derive F sc acct br idx s :
  f_privkey_checks_first F = true ->
  locked s = true \/ watch s = true ->
  (load_acct F sc acct s <> None -> lockerr (snd (do_derive F sc acct br idx s))) /\
  snd (do_derive F sc acct br idx s) <> ROk.
Proof.
  intros HF HL. unfold do_derive. destruct (load_acct F sc acct s) as [[s1 ai]|] eqn:E.
  - destruct (load_acct_spec _ _ _ _ _ _ E) as (_ & _ & Hk & _).
    assert (HL1 : k_locked (mk (sm s1)) = true \/ k_watch (mk (sm s1)) = true) by (rewrite Hk; exact HL).
    simpl. split; [intros _|apply lockerr_not_ok]; apply key_access_locked; auto.
  - split; [intros H; contradiction | discriminate].
Qed.

Lemma ac_derive_cache F sc acct br idx s :
  f_cache_checked F = true -> locked s = true \/ watch s = true ->
  lockerr (snd (do_derive_cache F sc acct br idx s)) /\ fst (do_derive_cache F sc acct br idx s) = s.
Proof.
  intros HF HL. unfold do_derive_cache. rewrite HF. simpl. fold (watch s) (locked s).
  destruct (watch s); [split; [right|]; reflexivity|].
  destruct HL as [HL|HL]; [|discriminate]. rewrite HL. split; [left|]; reflexivity.
Qed.

Lemma ac_crypt kt s :
  locked s = true \/ watch s = true -> kt <> CKPub -> do_crypt kt s = (s, RLocked).
Proof.
  intros HL HK. unfold do_crypt.
  assert (H : locked s || watch s = true) by (destruct HL as [-> | ->]; [reflexivity | apply orb_true_r]).
  destruct kt; try contradiction; rewrite H; reflexivity.
Qed.

Lemma ac_new_account sc s :
  locked s = true \/ watch s = true ->
  lockerr (snd (do_new_account sc s)) /\ fst (do_new_account sc s) = s.
Proof.
  intros HL. unfold do_new_account.
  destruct (watch s); [split; [right|]; reflexivity|].
  destruct HL as [HL|HL]; [|discriminate]. rewrite HL. split; [left|]; reflexivity.
Qed.

Lemma ac_new_raw_account sc n s :
  locked s = true \/ watch s = true ->
  lockerr (snd (do_new_raw_account sc n s)) /\ fst (do_new_raw_account sc n s) = s.
Proof.
  intros HL. unfold do_new_raw_account.
  destruct (watch s); [split; [right|]; reflexivity|].
  destruct HL as [HL|HL]; [|discriminate]. rewrite HL. split; [left|]; reflexivity.
Qed.

Lemma ac_new_scope s : locked s = true -> watch s = false -> do_new_scope s = (s, RLocked).
Proof. intros HL HW. unfold do_new_scope. rewrite HL, HW. reflexivity. Qed.

Lemma ac_import_priv_locked sc n s :
  locked s = true -> watch s = false -> do_import_priv sc n s = (s, RLocked).
Proof. intros HL HW. unfold do_import_priv. rewrite HL, HW. reflexivity. Qed.

(* on a watching-only manager an import stores the public key only *)
Lemma ac_import_priv_watch sc n s s' :
  watch s = true -> do_import_priv sc n s = (s', ROk) ->
  alookup addr_eqb (sc, KImp n) (m_addrs (sm s')) = Some (OKey true false false) /\
  d_addrs (sd s') = d_addrs (sd s) ++ [((sc, KImp n), AImp false)] /\
  mk (sm s') = mk (sm s) /\ m_accts (sm s') = m_accts (sm s) /\ m_cache (sm s') = m_cache (sm s).
Proof.
  intros HW. unfold do_import_priv. rewrite HW. rewrite andb_false_r.
  destruct (addr_known sc (KImp n) s); [discriminate|]. intros H; inv H. simpl.
  repeat split. apply (alookup_upsert_same addr_eqb addr_eqb_eq).
Qed.

Lemma ac_import_script sc n k secret s :
  locked s = true \/ watch s = true -> k = KP2SH \/ secret = true ->
  lockerr (snd (do_import_script sc n k secret s)) /\ fst (do_import_script sc n k secret s) = s.
Proof.
  intros HL HS. unfold do_import_script.
  assert (HG : match k with KP2SH => true | _ => secret end = true).
  { destruct HS as [-> | ->]; [reflexivity | destruct k; reflexivity]. }
  rewrite HG. simpl.
  destruct (locked s) eqn:EL; [split; [left|]; reflexivity|].
  destruct HL as [HL|HL]; [discriminate|]. rewrite HL. split; [right|]; reflexivity.
Qed.

(* accessors of an address object the caller kept, whatever it holds *)
Lemma ac_held_priv_key F enc ct s :
  f_privkey_checks_first F = true -> locked s = true \/ watch s = true ->
  lockerr (snd (do_held_priv_key F enc ct s)) /\ fst (do_held_priv_key F enc ct s) = s.
Proof. intros HF HL. split; [apply key_access_locked; auto | reflexivity]. Qed.

Lemma ac_held_script k sec ct s :
  locked s = true \/ watch s = true -> k = KP2SH \/ sec = true ->
  lockerr (snd (do_held_script k sec ct s)) /\ fst (do_held_script k sec ct s) = s.
Proof. intros HL HS. split; [apply script_access_locked; auto | reflexivity]. Qed.

(* ------------------------------------------------------------------ (iii) Lock clears every buffer *)

Lemma lock_clears F s s' :
  f_lock_purges_cache F = true -> f_lock_wipes_wscripts F = true -> f_lock_wipes_last F = true ->
  f_z_mgr F = true ->
  do_lock F s = (s', ROk) -> locked s' = true /\ wiped (sm s') = true.
Proof.
  intros H2 H3 H4 HZ. unfold do_lock. destruct (watch s); [discriminate|]. destruct (locked s); [discriminate|].
  intros H; inv H. split; [reflexivity|]. apply wiped_iff. apply Wiped_lock_mem; assumption.
Qed.

Lemma locked_reachable_wiped F nsc pub priv s :
  facts_ok F -> priv <> empty_pass -> reachable F nsc pub priv s ->
  locked s = true \/ watch s = true -> wiped (sm s) = true.
Proof.
  intros HF Hp HR HL. destruct (Inv_reachable _ _ _ _ _ HF Hp HR) as (HK & _ & HW).
  apply wiped_iff. apply HW. destruct HL as [HL|HL]; [exact HL|].
  destruct HK as [_ K2 _ _]. apply K2. exact HL.
Qed.

(* ------------------------------------------------------------------ (ii) the current passphrase, and any other *)

Lemma Inv_cur_pass s : Inv s -> watch s = false ->
  exists pw, cur_pass s = Some pw /\ pw <> empty_pass.
Proof.
  intros (HK & _) HW. destruct HK as [_ _ _ K4]. destruct (K4 HW) as (pw & g & _ & B & _ & _ & _ & _ & I & _).
  exists pw. unfold cur_pass. rewrite B. auto.
Qed.

Lemma derivable_of_cached d accts q :
  Coh d accts -> dqok d q ->
  (forall k, qent_acct q = Some k -> exists ai, alookup pair_eqb k accts = Some ai) ->
  qent_derivable (avmap unlock_ainfo accts) q = true.
Proof.
  intros HC (k & row & Hk & HL & HP) Hc. destruct (Hc k Hk) as (ai & Ha).
  unfold qent_derivable. rewrite Hk. rewrite alookup_avmap, Ha. simpl.
  destruct (HC _ _ Ha) as (row' & A & B). congruence.
Qed.

Lemma unlock_current F s :
  facts_ok F -> Inv s -> watch s = false ->
  exists pw s', cur_pass s = Some pw /\ step F s (OpUnlock pw) = (s', ROk) /\
                locked s' = false /\ watch s' = false /\ sd s' = sd s.
Proof.
  intros (_ & _ & _ & _ & F5 & F6 & _ & _ & F9 & _) HI HW. pose proof HI as (HK & HC & HQ & _). destruct HK as [_ _ _ K4].
  destruct (K4 HW) as (pw & g & A & B & C & D & E & G & I & J).
  exists pw. simpl. unfold do_unlock. unfold watch in HW. rewrite HW.
  destruct (k_locked (mk (sm s))) eqn:EL; simpl.
  - rewrite A, N.eqb_refl. simpl. rewrite C, N.eqb_refl. simpl. rewrite F9.
    destruct (preload_succeeds F (m_queue (sm s)) s EL (HQ HW)) as (s0 & EP). rewrite EP.
    destruct (preload_spec _ _ _ _ F6 HI EP) as (HI0 & Hd0 & _ & Hk0 & _ & (q' & Hq' & Hq'c) & Hall).
    rewrite F5. simpl.
    assert (HD : forallb (qent_derivable (avmap unlock_ainfo (m_accts (sm s0)))) (m_queue (sm s0)) = true).
    { destruct (Inv_parts _ HI0) as [HC0 HQ0].
      assert (HW0 : watch s0 = false) by (unfold watch; rewrite Hk0; exact HW).
      specialize (HQ0 HW0). rewrite Forall_forall in HQ0.
      apply forallb_forall. intros q Hq. apply (derivable_of_cached (d_accts (sd s0))); auto.
      rewrite Hq' in Hq. apply in_app_or in Hq as [Hq|Hq].
      - rewrite Forall_forall in Hall. exact (Hall q Hq).
      - rewrite Forall_forall in Hq'c. destruct (Hq'c q Hq) as (k & ai & Hk & Ha).
        intros k' Hk'. exists ai. congruence. }
    rewrite HD. simpl. eexists; split; [unfold cur_pass; rewrite B; reflexivity|].
    split; [reflexivity|]. unfold locked, watch; simpl. auto.
  - rewrite (J eq_refl), !N.eqb_refl. simpl.
    eexists; split; [unfold cur_pass; rewrite B; reflexivity|].
    split; [reflexivity|]. unfold locked, watch; simpl. auto.
Qed.

Lemma unlock_other F s p :
  facts_ok F -> Inv s -> watch s = false -> cur_pass s <> Some p ->
  exists s', step F s (OpUnlock p) = (s', RWrongPass) /\
             locked s' = true /\ wiped (sm s') = true /\ sd s' = sd s.
Proof.
  intros (_ & F2 & F3 & F4 & _ & _ & _ & _ & _ & _ & _ & _ & _ & HZ) HI HW HP. pose proof HI as (HK & _). destruct HK as [_ _ _ K4].
  destruct (K4 HW) as (pw & g & A & B & C & D & E & G & I & J).
  assert (HNE : (pw =? p) = false).
  { apply N.eqb_neq. intros ->. apply HP. unfold cur_pass. rewrite B. reflexivity. }
  simpl. unfold do_unlock. unfold watch in HW. rewrite HW.
  destruct (k_locked (mk (sm s))) eqn:EL; simpl.
  - rewrite A, HNE. simpl. eexists; split; [reflexivity|]. split; [reflexivity|]. split; [|reflexivity].
    apply wiped_iff. apply Wiped_lock_mem; assumption.
  - rewrite (J eq_refl), HNE, andb_false_r. eexists; split; [reflexivity|]. split; [reflexivity|]. split; [|reflexivity].
    apply wiped_iff. apply Wiped_lock_mem; assumption.
Qed.

(* ------------------------------------------------------------------ (iv) passphrase changes *)

Definition keeps_priv (o : op) : bool :=
  match o with OpChangePriv _ _ | OpConvert => false | _ => true end.

Ltac dmatch :=
  repeat match goal with
         | |- context [match ?x with _ => _ end] => destruct x eqn:?
         | |- context [if ?x then _ else _] => destruct x eqn:?
         end.

Lemma preload_sd F qs : forall s s0, preload F qs s = Some s0 -> sd s0 = sd s.
Proof.
  induction qs as [|q qs IH]; intros s s0 H; simpl in H; [inv H; reflexivity|].
  destruct (qent_acct q) as [[sc acct]|]; [|eauto].
  destruct (load_acct F sc acct s) as [[s1 ai]|] eqn:E; [|discriminate].
  destruct (load_acct_spec _ _ _ _ _ _ E) as (Hd & _). rewrite <- Hd. eauto.
Qed.

Lemma unlock_sd F p s s' r : do_unlock F p s = (s', r) -> sd s' = sd s.
Proof.
  unfold do_unlock.
  destruct (k_watch (mk (sm s))); [intros H; inv H; auto|].
  destruct (negb (k_locked (mk (sm s)))).
  { destruct (k_hashed (mk (sm s))) as [[hs hp]|]; [destruct ((hs =? k_salt (mk (sm s))) && (hp =? p))|];
      intros H; inv H; reflexivity. }
  destruct (k_priv (mk (sm s))) as [[pw g]|]; [|intros H; inv H; auto].
  destruct (negb (pw =? p)); [intros H; inv H; auto|].
  destruct (k_cpriv_enc (mk (sm s))) as [g'|]; [|intros H; inv H; auto].
  destruct (negb (g' =? g)); [intros H; inv H; auto|].
  destruct (if f_unlock_preloads F then preload F (m_queue (sm s)) s else Some s) as [s0|] eqn:EP;
    [|intros H; inv H; auto].
  assert (Hd : sd s0 = sd s).
  { destruct (f_unlock_preloads F); [eapply preload_sd; eauto | inv EP; reflexivity]. }
  destruct (negb (f_unlock_skips_keyless F) && existsb _ _); [intros H; inv H; auto|].
  destruct (negb (forallb _ _)); intros H; inv H; auto.
Qed.

Lemma derive_cache_sd F sc acct br idx s s' r : do_derive_cache F sc acct br idx s = (s', r) -> sd s' = sd s.
Proof. unfold do_derive_cache. dmatch; intros H; inv H; reflexivity. Qed.

Lemma cache_fill_loop_sd F sc acct br n : forall base s s' r, cache_fill_loop F sc acct br base n s = (s', r) -> sd s' = sd s.
Proof.
  induction n as [|n IH]; intros base s s' r; simpl; [intros H; inv H; reflexivity|].
  destruct (do_derive_cache F sc acct br base s) as [s1 r1] eqn:E.
  pose proof (derive_cache_sd _ _ _ _ _ _ _ _ E) as Hd.
  destruct r1; try (intros H; inv H; exact Hd). intros H. rewrite <- Hd. eapply IH; eauto.
Qed.

Lemma cache_fill_sd F sc acct br n base s s' r : cache_fill F sc acct br base n s = (s', r) -> sd s' = sd s.
Proof.
  unfold cache_fill. match goal with |- context [if ?c then _ else _] => destruct c end;
    [intros H; inv H; reflexivity | apply cache_fill_loop_sd].
Qed.

Lemma step_keeps_priv F s o s' r :
  keeps_priv o = true -> step F s o = (s', r) ->
  d_priv (dk (sd s')) = d_priv (dk (sd s)) /\ d_watch (dk (sd s')) = d_watch (dk (sd s)).
Proof.
  intros HKp. destruct o; try discriminate; simpl.
  - unfold do_open. dmatch; intros H; inv H; auto.
  - intros H. rewrite (unlock_sd _ _ _ _ _ H). auto.
  - unfold do_lock. dmatch; intros H; inv H; auto.
  - unfold do_change_pub. dmatch; intros H; inv H; auto.
  - unfold do_new_account. dmatch; intros H; inv H; auto.
  - unfold do_new_raw_account. dmatch; intros H; inv H; auto.
  - unfold do_new_scope. dmatch; intros H; inv H; auto.
  - unfold do_new_watch_account. intros H; inv H; auto.
  - unfold do_acct_props. destruct (load_acct F sc acct s) as [[s1 ai]|] eqn:E; intros H; inv H; auto.
    destruct (load_acct_spec _ _ _ _ _ _ E) as (-> & _); auto.
  - unfold do_next_addr. destruct (load_acct F sc acct s) as [[s1 ai]|] eqn:E; [|intros H; inv H; auto].
    destruct (load_acct_spec _ _ _ _ _ _ E) as (Hd & _).
    dmatch; intros H; inv H; simpl; rewrite ?Hd; auto.
  - unfold do_import_priv. dmatch; intros H; inv H; auto.
  - unfold do_import_script. dmatch; intros H; inv H; auto.
  - unfold do_load_addr. destruct (load_addr F sc a s) as [[s1 o]|] eqn:E; intros H; inv H; auto.
    destruct (load_addr_spec _ _ _ _ _ _ E) as (-> & _); auto.
  - unfold do_priv_key. destruct (load_addr F sc a s) as [[s1 o]|] eqn:E; [|intros H; inv H; auto].
    destruct (load_addr_spec _ _ _ _ _ _ E) as (Hd & _).
    dmatch; intros H; inv H; simpl; rewrite ?Hd; auto.
  - unfold do_script. destruct (load_addr F sc a s) as [[s1 o]|] eqn:E; [|intros H; inv H; auto].
    destruct (load_addr_spec _ _ _ _ _ _ E) as (Hd & _).
    dmatch; intros H; inv H; simpl; rewrite ?Hd; auto.
  - unfold do_derive. destruct (load_acct F sc acct s) as [[s1 ai]|] eqn:E; [|intros H; inv H; auto].
    destruct (load_acct_spec _ _ _ _ _ _ E) as (Hd & _).
    dmatch; intros H; inv H; simpl; rewrite ?Hd; auto.
  - intros H. rewrite (derive_cache_sd _ _ _ _ _ _ _ _ H). auto.
  - intros H. rewrite (cache_fill_sd _ _ _ _ _ _ _ _ _ H). auto.
  - unfold do_crypt. dmatch; intros H; inv H; auto.
  - unfold do_crypt. dmatch; intros H; inv H; auto.
  - unfold do_mark_used. destruct (alookup addr_eqb (sc, a) (m_addrs (sm s))); intros H; inv H; auto.
  - unfold do_foreach. destruct (filter _ _); [intros H; inv H; auto|].
    destruct (load_acct F sc acct s) as [[s1 ai]|] eqn:E; [|intros H; inv H; auto].
    destruct (load_acct_spec _ _ _ _ _ _ E) as (Hd & _).
    intros H; inv H; simpl; rewrite ?Hd; auto.
  - unfold do_invalidate. intros H; inv H; auto.
  - unfold do_held_priv_key. intros H; inv H; auto.
  - unfold do_held_script. intros H; inv H; auto.
Qed.

Lemma exec_keeps_priv F ops : forall s,
  forallb keeps_priv ops = true ->
  d_priv (dk (sd (exec F s ops))) = d_priv (dk (sd s)) /\
  d_watch (dk (sd (exec F s ops))) = d_watch (dk (sd s)).
Proof.
  induction ops as [|o ops IH]; intros s H; [split; reflexivity|].
  simpl in H. apply andb_true_iff in H as [H1 H2]. rewrite exec_cons.
  destruct (step F s o) as [s1 r] eqn:E. simpl.
  destruct (step_keeps_priv _ _ _ _ _ H1 E) as [A B].
  destruct (IH s1 H2) as [C D]. split; congruence.
Qed.

Lemma change_priv_ok F old new s s' :
  Inv s -> do_change_priv F old new s = (s', ROk) ->
  cur_pass s = Some old /\ cur_pass s' = Some new /\ locked s' = locked s /\ watch s' = false /\ watch s = false.
Proof.
  intros (HK & _). destruct HK as [_ _ _ K4]. unfold do_change_priv.
  destruct (k_watch (mk (sm s))) eqn:EW; [discriminate|].
  destruct (f_change_rejects_empty F && (new =? empty_pass)); [discriminate|].
  destruct (K4 eq_refl) as (pw & g & A & B & C & D & E & G & I & J).
  rewrite A. destruct (pw =? old) eqn:EP; simpl; [|discriminate].
  apply N.eqb_eq in EP; subst old.
  rewrite C, E, N.eqb_refl. simpl. intros H; inv H.
  unfold cur_pass, locked, watch; simpl. rewrite B. auto.
Qed.

Lemma change_priv_fail F old new s s' r :
  do_change_priv F old new s = (s', r) -> r <> ROk -> s' = s.
Proof.
  unfold do_change_priv. dmatch; intros H; inv H; auto; intros HC; congruence.
Qed.

Lemma change_pub_ok old new s s' :
  Inv s -> do_change_pub old new s = (s', ROk) ->
  cur_pub_pass s = old /\ cur_pub_pass s' = new.
Proof.
  intros (HK & _). destruct HK as [_ _ [K3 _] _]. unfold do_change_pub.
  destruct (k_pub (mk (sm s))) as [pw g0] eqn:EP.
  destruct (pw =? old) eqn:E; simpl; [|discriminate].
  apply N.eqb_eq in E; subst old. intros H; inv H.
  unfold cur_pub_pass; simpl. rewrite <- K3. auto.
Qed.

Lemma open_spec p s :
  Inv s ->
  (p = cur_pub_pass s ->
   exists s', do_open p s = (s', ROk) /\ locked s' = true /\ wiped (sm s') = true /\ sd s' = sd s) /\
  (p <> cur_pub_pass s -> do_open p s = (s, RWrongPass)).
Proof.
  intros (HK & _). destruct HK as [_ _ [_ K3] _]. unfold do_open, cur_pub_pass.
  destruct (d_pub (dk (sd s))) as [pw g0] eqn:EP. simpl in *. split.
  - intros ->. rewrite N.eqb_refl. simpl. rewrite K3, N.eqb_refl. simpl.
    eexists; split; [reflexivity|]. repeat split.
  - intros HN. assert (E : (pw =? p) = false) by (apply N.eqb_neq; congruence).
    rewrite E. reflexivity.
Qed.

(* ------------------------------------------------------------------ statements used by Properties/C05.v *)

(* (i) every private accessor in a locked or watching-only state *)
Definition access_control_statement (F : facts) : Prop :=
  forall s, locked s = true \/ watch s = true ->
  (* private-key export: Address(a) then PrivKey()/ExportPrivKey() *)
  (forall sc a, snd (step F s (OpPrivKey sc a)) <> ROk /\
     (forall s1 imp enc ct, load_addr F sc a s = Some (s1, OKey imp enc ct) ->
        lockerr (snd (step F s (OpPrivKey sc a))) /\ fst (step F s (OpPrivKey sc a)) = s1)) /\
  (* secret-script access *)
  (forall sc a s1 k sec ct, load_addr F sc a s = Some (s1, OScript k sec ct) -> k = KP2SH \/ sec = true ->
     lockerr (snd (step F s (OpScript sc a))) /\ fst (step F s (OpScript sc a)) = s1) /\
  (* derivation by path, both variants *)
  (forall sc acct br idx, snd (step F s (OpDerive sc acct br idx)) <> ROk /\
     (load_acct F sc acct s <> None -> lockerr (snd (step F s (OpDerive sc acct br idx))))) /\
  (forall sc acct br idx, lockerr (snd (step F s (OpDeriveCache sc acct br idx))) /\
     fst (step F s (OpDeriveCache sc acct br idx)) = s) /\
  (* private decryption / encryption *)
  (forall kt, kt <> CKPub -> step F s (OpDecrypt kt) = (s, RLocked) /\ step F s (OpEncrypt kt) = (s, RLocked)) /\
  (* account creation *)
  (forall sc, lockerr (snd (step F s (OpNewAccount sc))) /\ fst (step F s (OpNewAccount sc)) = s) /\
  (forall sc n, lockerr (snd (step F s (OpNewRawAccount sc n))) /\ fst (step F s (OpNewRawAccount sc n)) = s) /\
  (* a new key scope needs the master HD private key (a watching-only manager creates public-only scopes) *)
  (watch s = false -> step F s OpNewScope = (s, RLocked)) /\
  (* key import: refused while locked; on a watching-only manager only the public key is kept *)
  (forall sc n, (watch s = false -> step F s (OpImportPriv sc n) = (s, RLocked)) /\
     (forall s', watch s = true -> step F s (OpImportPriv sc n) = (s', ROk) ->
        alookup addr_eqb (sc, KImp n) (m_addrs (sm s')) = Some (OKey true false false) /\
        d_addrs (sd s') = d_addrs (sd s) ++ [((sc, KImp n), AImp false)] /\
        mk (sm s') = mk (sm s) /\ m_accts (sm s') = m_accts (sm s) /\ m_cache (sm s') = m_cache (sm s))) /\
  (* secret script import *)
  (forall sc n k secret, k = KP2SH \/ secret = true ->
     lockerr (snd (step F s (OpImportScript sc n k secret))) /\ fst (step F s (OpImportScript sc n k secret)) = s) /\
  (* ANY address object ever handed out and kept by the caller - the result of
     Next*Addresses, DeriveFromKeyPath, Address, ForEachAccountAddress, an
     import; tracked by the manager or not; whatever it holds ([enc], [ct]
     arbitrary) *)
  (forall enc ct, lockerr (snd (step F s (OpHeldPrivKey enc ct))) /\ fst (step F s (OpHeldPrivKey enc ct)) = s) /\
  (forall k sec ct, k = KP2SH \/ sec = true ->
     lockerr (snd (step F s (OpHeldScript k sec ct))) /\ fst (step F s (OpHeldScript k sec ct)) = s).

Theorem access_control F :
  f_cache_checked F = true -> f_privkey_checks_first F = true -> access_control_statement F.
Proof.
  intros HF HF8 s HL. repeat split.
  - apply ac_priv_key_no_material; assumption.
  - eapply ac_priv_key; eauto.
  - eapply ac_priv_key; eauto.
  - eapply ac_script; eauto.
  - eapply ac_script; eauto.
  - apply ac_derive; assumption.
  - apply ac_derive; assumption.
  - apply ac_derive_cache; assumption.
  - apply ac_derive_cache; assumption.
  - apply ac_crypt; assumption.
  - apply ac_crypt; assumption.
  - apply ac_new_account; exact HL.
  - apply ac_new_account; exact HL.
  - apply ac_new_raw_account; exact HL.
  - apply ac_new_raw_account; exact HL.
  - intros HW. destruct HL as [HL|HL]; [|congruence]. apply ac_new_scope; assumption.
  - intros HW. destruct HL as [HL|HL]; [|congruence]. apply ac_import_priv_locked; assumption.
  - eapply ac_import_priv_watch; eauto.
  - eapply ac_import_priv_watch; eauto.
  - eapply ac_import_priv_watch; eauto.
  - eapply ac_import_priv_watch; eauto.
  - eapply ac_import_priv_watch; eauto.
  - apply ac_import_script; assumption.
  - apply ac_import_script; assumption.
  - apply ac_held_priv_key; assumption.
  - apply ac_held_script; assumption.
Qed.

(* (ii) in every reachable state of a manager that is not watching-only *)
Definition passphrase_statement (F : facts) (s : state) : Prop :=
  exists cur, cur_pass s = Some cur /\
    (exists s', step F s (OpUnlock cur) = (s', ROk) /\ locked s' = false /\ sd s' = sd s) /\
    (forall p, p <> cur ->
       exists s', step F s (OpUnlock p) = (s', RWrongPass) /\ locked s' = true /\ wiped (sm s') = true /\ sd s' = sd s).

Lemma passphrase_of_Inv F s : facts_ok F -> Inv s -> watch s = false -> passphrase_statement F s.
Proof.
  intros HF HI HW. destruct (unlock_current F s HF HI HW) as (pw & s' & Hc & Hs & Hl & _ & Hd).
  exists pw. split; [exact Hc|]. split.
  - exists s'; auto.
  - intros p Hp. apply unlock_other; auto. rewrite Hc. congruence.
Qed.

Theorem passphrase_always F nsc pub priv ops :
  facts_ok F -> priv <> empty_pass ->
  let s := exec F (init nsc pub priv) ops in
  watch s = false -> passphrase_statement F s.
Proof.
  intros HF Hp s HW. apply passphrase_of_Inv; auto.
  apply (Inv_reachable F nsc pub priv); auto. exists ops; reflexivity.
Qed.

Lemma watch_is_disk s : Inv s -> watch s = d_watch (dk (sd s)).
Proof. intros (HK & _). destruct HK as [K1 _ _ _]. exact K1. Qed.

(* (iv) private passphrase change: immediately and after any later history
   (restarts included) that contains no further change and no conversion *)
Theorem passphrase_change F nsc pub priv ops old new :
  facts_ok F -> priv <> empty_pass ->
  let s := exec F (init nsc pub priv) ops in
  forall s1 r, step F s (OpChangePriv old new) = (s1, r) ->
  (r = ROk ->
     cur_pass s = Some old /\ locked s1 = locked s /\
     forall ops', forallb keeps_priv ops' = true ->
       let s2 := exec F s1 ops' in
       watch s2 = false /\ cur_pass s2 = Some new /\ passphrase_statement F s2) /\
  (r <> ROk -> s1 = s).
Proof.
  intros HF Hp s s1 r Hs.
  assert (HI : Inv s) by (apply (Inv_reachable F nsc pub priv); auto; exists ops; reflexivity).
  split.
  - intros ->. simpl in Hs. destruct (change_priv_ok _ _ _ _ _ HI Hs) as (A & B & C & D & E).
    split; [exact A|]. split; [exact C|]. intros ops' Hk s2.
    assert (HI1 : Inv s1) by (eapply (Inv_step F s (OpChangePriv old new)); eauto).
    assert (HI2 : Inv s2) by (apply Inv_exec; auto).
    destruct (exec_keeps_priv F ops' s1 Hk) as [P W].
    assert (HW2 : watch s2 = false).
    { rewrite (watch_is_disk _ HI2). unfold s2. rewrite W. rewrite <- (watch_is_disk _ HI1). exact D. }
    split; [exact HW2|]. split.
    + unfold cur_pass, s2. rewrite P. exact B.
    + apply passphrase_of_Inv; auto.
  - intros Hr. simpl in Hs. eapply change_priv_fail; eauto.
Qed.

(* the public passphrase: Open accepts exactly the current one; a change is
   authorised by the current one only and installs the new one *)
Theorem public_passphrase F nsc pub priv ops :
  facts_ok F -> priv <> empty_pass ->
  let s := exec F (init nsc pub priv) ops in
  (forall p, (p = cur_pub_pass s ->
                exists s', step F s (OpOpen p) = (s', ROk) /\ locked s' = true /\ wiped (sm s') = true /\ sd s' = sd s) /\
             (p <> cur_pub_pass s -> step F s (OpOpen p) = (s, RWrongPass))) /\
  (forall old new s', step F s (OpChangePub old new) = (s', ROk) -> cur_pub_pass s = old /\ cur_pub_pass s' = new).
Proof.
  intros HF Hp s.
  assert (HI : Inv s) by (apply (Inv_reachable F nsc pub priv); auto; exists ops; reflexivity).
  split.
  - intros p. apply open_spec; exact HI.
  - intros old new s' H. eapply change_pub_ok; eauto.
Qed.

Theorem locked_holds_no_cleartext F nsc pub priv ops :
  facts_ok F -> priv <> empty_pass ->
  let s := exec F (init nsc pub priv) ops in
  locked s = true \/ watch s = true -> wiped (sm s) = true.
Proof.
  intros HF Hp s HL. apply (locked_reachable_wiped F nsc pub priv); auto. exists ops; reflexivity.
Qed.

Theorem lock_clears_step F s s' :
  f_lock_purges_cache F = true -> f_lock_wipes_wscripts F = true -> f_lock_wipes_last F = true ->
  f_z_mgr F = true ->
  step F s OpLock = (s', ROk) -> locked s' = true /\ wiped (sm s') = true.
Proof. intros; eapply lock_clears; eauto. Qed.

(* ------------------------------------------------------------------ (iii) the buffers the manager has dropped *)

(* Every buffer that leaves the manager's state is recorded in [gone] and stays
   there (only a restart, which replaces the manager, starts a new record):
   the memory clause of the property is [wiped_all], not only [wiped]. *)

Definition dead (e : gclass * bool) : Prop := snd e = false.

Definition zero_ok (F : facts) : Prop :=
  f_z_acct F = true /\ f_z_key F = true /\ f_z_script F = true /\ f_z_cache F = true.

Lemma facts_ok_zero F : facts_ok F -> zero_ok F.
Proof. intros (_ & _ & _ & _ & _ & _ & _ & _ & _ & A & B & C & D & _). repeat split; assumption. Qed.

(* a dropped buffer that is dead - or a derived key pushed out of the LRU,
   which has no eviction hook (fact f_e_lru; a separate matter: the cache is a
   third-party container) *)
Definition okent (F : facts) (e : gclass * bool) : Prop :=
  dead e \/ (fst e = GCache /\ f_e_lru F = false).

Lemma dead_okent F l : Forall dead l -> Forall (okent F) l.
Proof. apply Forall_impl. intros e H; left; exact H. Qed.

(* [gone] only grows, and what is added is dead when the code zeroes what it drops *)
Definition grows (F : facts) (s s' : state) : Prop :=
  exists g, gone s' = gone s ++ g /\ (zero_ok F -> evict_ok F -> Forall (okent F) g).

Lemma grows_same F s s' : gone s' = gone s -> grows F s s'.
Proof. intros H. exists []. rewrite app_nil_r. split; [exact H | intros; constructor]. Qed.

Lemma grows_refl F s : grows F s s.
Proof. apply grows_same; reflexivity. Qed.

Lemma grows_trans F s1 s2 s3 : grows F s1 s2 -> grows F s2 s3 -> grows F s1 s3.
Proof.
  intros (g1 & E1 & D1) (g2 & E2 & D2). exists (g1 ++ g2). split.
  - rewrite E2, E1, app_assoc. reflexivity.
  - intros HZ HE. apply Forall_app; split; auto.
Qed.

Lemma grows_add F s g : (zero_ok F -> evict_ok F -> Forall (okent F) g) -> grows F s (add_gone s g).
Proof. intros H. exists g. split; [reflexivity | exact H]. Qed.

Lemma grows_add_to F s s1 g :
  gone s1 = gone s -> (zero_ok F -> evict_ok F -> Forall (okent F) g) -> grows F s (add_gone s1 g).
Proof. intros E H. exists g. split; [simpl; rewrite E; reflexivity | exact H]. Qed.

Lemma load_acct_gone F sc acct s s1 ai : load_acct F sc acct s = Some (s1, ai) -> gone s1 = gone s.
Proof. unfold load_acct. dmatch; intros H; inv H; reflexivity. Qed.

Lemma load_addr_gone F sc a s s1 o : load_addr F sc a s = Some (s1, o) -> gone s1 = gone s.
Proof.
  unfold load_addr. destruct (alookup addr_eqb (sc, a) (m_addrs (sm s))); [intros H; inv H; reflexivity|].
  destruct (alookup addr_eqb (sc, a) (d_addrs (sd s))) as [[|hp|k sec]|]; try discriminate.
  - destruct a as [acct br idx| |]; try discriminate.
    destruct (load_acct F sc acct s) as [[s0 ai]|] eqn:E; [|discriminate].
    intros H; inv H. simpl. eapply load_acct_gone; eauto.
  - intros H; inv H; reflexivity.
  - intros H; inv H; reflexivity.
Qed.

Lemma preload_gone F qs : forall s s0, preload F qs s = Some s0 -> gone s0 = gone s.
Proof.
  induction qs as [|q qs IH]; intros s s0 H; simpl in H; [inv H; reflexivity|].
  destruct (qent_acct q) as [[sc acct]|]; [|eauto].
  destruct (load_acct F sc acct s) as [[s1 ai]|] eqn:E; [|discriminate].
  rewrite <- (load_acct_gone _ _ _ _ _ _ E). eauto.
Qed.

(* what lock() drops is dead when it zeroes first *)
Lemma lock_residue_dead F m : zero_ok F -> Forall dead (lock_residue F m).
Proof.
  intros (ZA & ZK & ZS & ZC). unfold lock_residue. repeat (apply Forall_app; split).
  - apply Forall_flat_map. apply Forall_forall. intros [k ai] _. unfold ainfo_residue; simpl.
    repeat (apply Forall_app; split).
    + destruct (ai_priv ai); [|constructor]. constructor; [|constructor]. unfold dead; simpl. rewrite ZA; reflexivity.
    + unfold own_residue. destruct (ai_last_ext ai) as [[|]|]; try constructor.
      destruct (f_lock_wipes_last F); constructor; [|constructor]. unfold dead; simpl. rewrite ZK; reflexivity.
    + unfold own_residue. destruct (ai_last_int ai) as [[|]|]; try constructor.
      destruct (f_lock_wipes_last F); constructor; [|constructor]. unfold dead; simpl. rewrite ZK; reflexivity.
  - apply Forall_flat_map. apply Forall_forall. intros [k o] _. unfold aobj_residue; simpl.
    destruct o as [imp enc [|] | [| |] sec [|]]; try constructor;
      try (destruct (f_lock_wipes_wscripts F); constructor); try constructor;
      unfold dead; simpl; rewrite ?ZK, ?ZS; simpl; try apply andb_false_r; reflexivity.
  - destruct (f_lock_purges_cache F); [|constructor].
    apply Forall_map. apply Forall_forall. intros p _. unfold dead; simpl. rewrite ZC; reflexivity.
Qed.

Lemma grows_lock_state F s s0 m : gone s0 = gone s -> grows F s (lock_state F s0 m).
Proof.
  intros E. exists (lock_residue F m). split; [simpl; rewrite E; reflexivity|].
  intros HZ _. apply dead_okent, lock_residue_dead; exact HZ.
Qed.

Lemma last_gone_dead w r : w = true -> Forall dead (last_gone w r).
Proof. intros ->. destruct r as [ct|k]; simpl; constructor; [|constructor]. unfold dead; simpl. apply andb_false_r. Qed.

Lemma queue_gone_dead F m q : f_e_unlock F = true -> Forall dead (queue_gone F m q).
Proof.
  intros HE. assert (HG : Forall dead [(GKey, negb (f_e_unlock F))]).
  { constructor; [|constructor]. unfold dead; simpl. rewrite HE; reflexivity. }
  unfold queue_gone. destruct q as [sc a|sc acct i|sc acct]; auto.
  - destruct (alookup addr_eqb (sc, a) (m_addrs m)) as [[imp enc ct|k sec ct]|]; auto.
  - destruct (alookup pair_eqb (sc, acct) (m_accts m)); auto.
Qed.

Lemma grows_unlock F p s s' r : do_unlock F p s = (s', r) -> grows F s s'.
Proof.
  unfold do_unlock.
  destruct (k_watch (mk (sm s))); [intros H; inv H; apply grows_refl|].
  destruct (negb (k_locked (mk (sm s)))).
  { destruct (k_hashed (mk (sm s))) as [[hs hp]|]; [destruct ((hs =? k_salt (mk (sm s))) && (hp =? p))|];
      intros H; inv H; try (apply grows_same; reflexivity); apply grows_lock_state; reflexivity. }
  destruct (k_priv (mk (sm s))) as [[pw g]|]; [|intros H; inv H; apply grows_refl].
  destruct (negb (pw =? p)); [intros H; inv H; apply grows_lock_state; reflexivity|].
  destruct (k_cpriv_enc (mk (sm s))) as [g'|]; [|intros H; inv H; apply grows_lock_state; reflexivity].
  destruct (negb (g' =? g)); [intros H; inv H; apply grows_lock_state; reflexivity|].
  destruct (if f_unlock_preloads F then preload F (m_queue (sm s)) s else Some s) as [s0|] eqn:EP;
    [|intros H; inv H; apply grows_lock_state; reflexivity].
  assert (Hg : gone s0 = gone s).
  { destruct (f_unlock_preloads F); [eapply preload_gone; eauto | inv EP; reflexivity]. }
  destruct (negb (f_unlock_skips_keyless F) && existsb _ _); [intros H; inv H; apply grows_lock_state; exact Hg|].
  destruct (negb (forallb _ _)); intros H; inv H; [apply grows_refl|].
  apply grows_add_to; [exact Hg|]. intros _ (_ & _ & _ & HE). apply dead_okent.
  apply Forall_flat_map. apply Forall_forall. intros q _. apply queue_gone_dead; exact HE.
Qed.

Lemma grows_derive_cache F sc acct br idx s s' r : do_derive_cache F sc acct br idx s = (s', r) -> grows F s s'.
Proof.
  unfold do_derive_cache.
  destruct (f_cache_checked F && k_watch (mk (sm s))); [intros H; inv H; apply grows_refl|].
  destruct (f_cache_checked F && k_locked (mk (sm s))); [intros H; inv H; apply grows_refl|].
  destruct (existsb _ _); [intros H; inv H; apply grows_same; reflexivity|].
  destruct (alookup pair_eqb (sc, acct) (m_accts (sm s))) as [ai|]; [|intros H; inv H; apply grows_refl].
  destruct (negb (k_locked (mk (sm s))) && negb (k_watch (mk (sm s))) && ai_priv ai); intros H; inv H; [|apply grows_refl].
  apply grows_add_to; [reflexivity|]. intros _ _.
  destruct (f_cache_cap F <=? _); constructor; [|constructor]. unfold okent, dead; simpl.
  destruct (f_e_lru F); [left; reflexivity | right; split; reflexivity].
Qed.

Lemma grows_cache_fill_loop F sc acct br n : forall base s s' r, cache_fill_loop F sc acct br base n s = (s', r) -> grows F s s'.
Proof.
  induction n as [|n IH]; intros base s s' r; simpl; [intros H; inv H; apply grows_refl|].
  destruct (do_derive_cache F sc acct br base s) as [s1 r1] eqn:E.
  pose proof (grows_derive_cache _ _ _ _ _ _ _ _ E) as G1.
  destruct r1; try (intros H; inv H; exact G1). intros H. eapply grows_trans; [exact G1 | eapply IH; eauto].
Qed.

Lemma grows_cache_fill F sc acct br n base s s' r : cache_fill F sc acct br base n s = (s', r) -> grows F s s'.
Proof.
  unfold cache_fill. match goal with |- context [if ?c then _ else _] => destruct c end;
    [|apply grows_cache_fill_loop].
  intros H; inv H. apply grows_add_to; [reflexivity|]. intros _ _.
  apply Forall_forall. intros e He. apply repeat_spec in He. subst e. unfold okent, dead; simpl.
  destruct (f_e_lru F); [left; reflexivity | right; split; reflexivity].
Qed.

(* every operation but a restart: [gone] grows, by dead entries when the code
   zeroes what it drops *)
Theorem step_grows F s o s' r :
  (forall p, o <> OpOpen p) -> step F s o = (s', r) -> grows F s s'.
Proof.
  intros HO. destruct o; simpl.
  - exfalso. eapply HO; reflexivity.
  - apply grows_unlock.
  - unfold do_lock. dmatch; intros H; inv H; try apply grows_refl. apply grows_lock_state; reflexivity.
  - unfold do_change_priv. dmatch; intros H; inv H; try apply grows_refl; apply grows_same; reflexivity.
  - unfold do_change_pub. dmatch; intros H; inv H; try apply grows_refl; apply grows_same; reflexivity.
  - unfold do_new_account. dmatch; intros H; inv H; try apply grows_refl; apply grows_same; reflexivity.
  - unfold do_new_raw_account. dmatch; intros H; inv H; try apply grows_refl; apply grows_same; reflexivity.
  - unfold do_new_scope. dmatch; intros H; inv H; apply grows_refl.
  - unfold do_new_watch_account. intros H; inv H. apply grows_same; reflexivity.
  - unfold do_acct_props. destruct (load_acct F sc acct s) as [[s1 ai]|] eqn:E; intros H; inv H; [|apply grows_refl].
    apply grows_same. eapply load_acct_gone; eauto.
  - unfold do_next_addr. destruct (load_acct F sc acct s) as [[s1 ai]|] eqn:E; [|intros H; inv H; apply grows_refl].
    pose proof (load_acct_gone _ _ _ _ _ _ E) as Hg.
    destruct (alookup pair_eqb (sc, acct) (d_accts (sd s1))) as [row|]; [|intros H; inv H; apply grows_refl].
    match goal with |- context [if ?c then (s, RPanic) else _] => destruct c end; intros H; inv H; [apply grows_refl|].
    eexists; split; [simpl; rewrite Hg; reflexivity|]. intros _ (_ & _ & HE & _). apply dead_okent, last_gone_dead; exact HE.
  - unfold do_import_priv. dmatch; intros H; inv H; try apply grows_refl; apply grows_same; reflexivity.
  - unfold do_import_script. dmatch; intros H; inv H; try apply grows_refl; apply grows_same; reflexivity.
  - unfold do_load_addr. destruct (load_addr F sc a s) as [[s1 o]|] eqn:E; intros H; inv H; [|apply grows_refl].
    apply grows_same. eapply load_addr_gone; eauto.
  - unfold do_priv_key. destruct (load_addr F sc a s) as [[s1 o]|] eqn:E; [|intros H; inv H; apply grows_refl].
    pose proof (load_addr_gone _ _ _ _ _ _ E) as Hg.
    dmatch; intros H; inv H; apply grows_same; simpl; exact Hg.
  - unfold do_script. destruct (load_addr F sc a s) as [[s1 o]|] eqn:E; [|intros H; inv H; apply grows_refl].
    pose proof (load_addr_gone _ _ _ _ _ _ E) as Hg.
    dmatch; intros H; inv H; apply grows_same; simpl; exact Hg.
  - unfold do_derive. destruct (load_acct F sc acct s) as [[s1 ai]|] eqn:E; intros H; inv H; [|apply grows_refl].
    apply grows_same. simpl. eapply load_acct_gone; eauto.
  - apply grows_derive_cache.
  - apply grows_cache_fill.
  - unfold do_crypt. dmatch; intros H; inv H; apply grows_refl.
  - unfold do_crypt. dmatch; intros H; inv H; apply grows_refl.
  - unfold do_convert. destruct (watch s); intros H; inv H; [apply grows_refl|].
    eexists; split; [reflexivity|]. intros HZ _. destruct (locked s); [constructor | apply dead_okent, lock_residue_dead; exact HZ].
  - unfold do_mark_used. destruct (alookup addr_eqb (sc, a) (m_addrs (sm s))) as [o|]; intros H; inv H; [|apply grows_refl].
    apply grows_add_to; [reflexivity|]. intros _ (HE & _). apply dead_okent.
    destruct (aliased sc a (m_accts (sm s))); constructor; [|constructor]. unfold dead; simpl. rewrite HE. apply andb_false_r.
  - unfold do_foreach. destruct (filter _ _); [intros H; inv H; apply grows_refl|].
    destruct (load_acct F sc acct s) as [[s1 ai]|] eqn:E; intros H; inv H; [|apply grows_refl].
    apply grows_same. simpl. eapply load_acct_gone; eauto.
  - unfold do_invalidate. intros H; inv H. apply grows_add_to; [reflexivity|]. intros _ (_ & HE & _). apply dead_okent.
    destruct (alookup pair_eqb (sc, acct) (m_accts (sm s))) as [ai|]; [|constructor].
    constructor; [unfold dead; simpl; rewrite HE; apply andb_false_r|].
    apply Forall_app; split; apply last_gone_dead; exact HE.
  - unfold do_held_priv_key. intros H; inv H. apply grows_refl.
  - unfold do_held_script. intros H; inv H. apply grows_refl.
Qed.

(* a restart replaces the manager: a new, empty record - or nothing happened *)
Lemma open_gone F p s s' r : step F s (OpOpen p) = (s', r) -> gone s' = [] \/ s' = s.
Proof. simpl. unfold do_open. dmatch; intros H; inv H; auto. Qed.

Definition GoneOk (F : facts) (s : state) : Prop := Forall (okent F) (gone s).

Lemma GoneOk_step F s o s' r :
  zero_ok F -> evict_ok F -> GoneOk F s -> step F s o = (s', r) -> GoneOk F s'.
Proof.
  unfold GoneOk. intros HZ HE HG H.
  destruct o;
    try (match goal with H : step F s ?o = _ |- _ =>
           assert (HO : forall p, o <> OpOpen p) by (intros; discriminate);
           destruct (step_grows F s o s' r HO H) as (g & Eg & D) end;
         rewrite Eg; apply Forall_app; split; [exact HG | apply D; assumption]).
  destruct (open_gone _ _ _ _ _ H) as [Eg | ->]; [rewrite Eg; constructor | exact HG].
Qed.

Lemma GoneOk_exec F ops : forall s,
  zero_ok F -> evict_ok F -> GoneOk F s -> GoneOk F (exec F s ops).
Proof.
  induction ops as [|o ops IH]; intros s HZ HE HG; [exact HG|].
  rewrite exec_cons. destruct (step F s o) as [s1 r] eqn:E. simpl.
  apply IH; auto. eapply GoneOk_step; eauto.
Qed.

Lemma GoneOk_but_lru F s : GoneOk F s -> gone_dead_but_lru s = true.
Proof.
  unfold GoneOk, gone_dead_but_lru. rewrite Forall_forall, forallb_forall. intros H e He.
  destruct (H e He) as [D | [C _]].
  - unfold dead in D. rewrite D. reflexivity.
  - rewrite C. apply orb_true_r.
Qed.

Lemma GoneOk_dead F s : f_e_lru F = true -> GoneOk F s -> gone_dead s = true.
Proof.
  unfold GoneOk, gone_dead. rewrite Forall_forall, forallb_forall. intros HL H e He.
  destruct (H e He) as [D | [_ C]]; [|congruence]. unfold dead in D. rewrite D. reflexivity.
Qed.

(* (iii), complete: for all histories, when every site that drops an object
   from the manager's state wipes it first, NO buffer the manager ever owned
   holds clear text once it is locked or watching-only - reachable from the
   manager ([wiped]) or not ([gone]); the keys the third-party LRU pushes out
   are covered when fact f_e_lru holds as well *)
Theorem locked_holds_no_cleartext_anywhere F nsc pub priv ops :
  facts_ok F -> evict_ok F -> priv <> empty_pass ->
  let s := exec F (init nsc pub priv) ops in
  gone_dead_but_lru s = true /\
  (f_e_lru F = true -> gone_dead s = true /\ (locked s = true \/ watch s = true -> wiped_all s = true)).
Proof.
  intros HF HE Hp s.
  assert (HG : GoneOk F s).
  { apply GoneOk_exec; auto; [apply facts_ok_zero; exact HF | constructor]. }
  split; [eapply GoneOk_but_lru; eauto|]. intros HL.
  pose proof (GoneOk_dead F s HL HG) as HD. split; [exact HD|].
  intros HLk. unfold wiped_all. rewrite HD, andb_true_r.
  apply (locked_holds_no_cleartext F nsc pub priv ops); assumption.
Qed.

(* Lock itself, from ANY state: it cannot reach what was dropped before (the
   old record is a prefix of the new one), and what it drops itself is dead *)
Theorem lock_and_dropped F s s' :
  zero_ok F -> step F s OpLock = (s', ROk) ->
  exists g, gone s' = gone s ++ g /\ Forall dead g.
Proof.
  intros HZ. simpl. unfold do_lock. destruct (watch s); [discriminate|]. destruct (locked s); [discriminate|].
  intros H; inv H. exists (lock_residue F (sm s)). split; [reflexivity | apply lock_residue_dead; exact HZ].
Qed.

(* nothing but a restart ever removes or changes an entry of [gone] *)
Theorem dropped_never_forgotten F s o s' r :
  (forall p, o <> OpOpen p) -> step F s o = (s', r) -> exists g, gone s' = gone s ++ g.
Proof. intros HO H. destruct (step_grows F s o s' r HO H) as (g & E & _). exists g; exact E. Qed.

