(** C05 - lemmas and proofs about the lock-discipline model Addr/Lock.v.

    The theorems are stated for ALL operation histories (induction over the
    history through the invariant [Inv]) and for every value of the regenerated
    facts that satisfies the premises named in each statement. *)
From Verif Require Import Base.Prelude Addr.Lock.
Local Open Scope N_scope.

(* ------------------------------------------------------------------ facts *)

Definition facts_ok (F : facts) : Prop :=
  f_cache_checked F = true /\ f_lock_purges_cache F = true /\ f_lock_wipes_wscripts F = true /\
  f_lock_wipes_last F = true /\ f_unlock_skips_keyless F = true /\ f_keyless_not_queued F = true /\
  f_change_rejects_empty F = true.

(* ------------------------------------------------------------------ equality tests *)

Lemma pair_eqb_eq a b : pair_eqb a b = true <-> a = b.
Proof.
  destruct a as [a1 a2], b as [b1 b2]; unfold pair_eqb; simpl.
  rewrite andb_true_iff, !N.eqb_eq. split; [intros [-> ->]; reflexivity | intros H; inv H; auto].
Qed.

Lemma akey_eqb_eq a b : akey_eqb a b = true <-> a = b.
Proof.
  destruct a, b; simpl; try (split; [discriminate | discriminate]).
  - rewrite !andb_true_iff, !N.eqb_eq. split; [intros [[-> ->] ->]; reflexivity | intros H; inv H; auto].
  - rewrite N.eqb_eq. split; [intros ->; reflexivity | intros H; inv H; auto].
  - rewrite N.eqb_eq. split; [intros ->; reflexivity | intros H; inv H; auto].
Qed.

Lemma addr_eqb_eq a b : addr_eqb a b = true <-> a = b.
Proof.
  destruct a as [a1 a2], b as [b1 b2]; unfold addr_eqb; simpl.
  rewrite andb_true_iff, N.eqb_eq, akey_eqb_eq. split; [intros [-> ->]; reflexivity | intros H; inv H; auto].
Qed.

Lemma pair_eqb_refl a : pair_eqb a a = true.
Proof. apply pair_eqb_eq; reflexivity. Qed.
Lemma addr_eqb_refl a : addr_eqb a a = true.
Proof. apply addr_eqb_eq; reflexivity. Qed.

(* ------------------------------------------------------------------ association lists *)

Section AListLemmas.
  Context {K V : Type} (eqb : K -> K -> bool).
  Hypothesis eqb_eq : forall a b, eqb a b = true <-> a = b.

  Lemma eqb_refl a : eqb a a = true.
  Proof. apply eqb_eq; reflexivity. Qed.

  Lemma eqb_neq a b : a <> b -> eqb a b = false.
  Proof. intros H. destruct (eqb a b) eqn:E; [apply eqb_eq in E; contradiction | reflexivity]. Qed.

  Lemma alookup_app_none k (l l' : list (K * V)) :
    alookup eqb k l = None -> alookup eqb k (l ++ l') = alookup eqb k l'.
  Proof.
    induction l as [|[k' v] l IH]; simpl; [reflexivity|].
    destruct (eqb k k'); [discriminate | exact IH].
  Qed.

  Lemma alookup_app_some k v (l l' : list (K * V)) :
    alookup eqb k l = Some v -> alookup eqb k (l ++ l') = Some v.
  Proof.
    induction l as [|[k' v'] l IH]; simpl; [discriminate|].
    destruct (eqb k k'); [trivial | exact IH].
  Qed.

  Lemma alookup_upsert_same k v (l : list (K * V)) :
    alookup eqb k (aupsert eqb k v l) = Some v.
  Proof.
    induction l as [|[k' v'] l IH]; simpl.
    - rewrite eqb_refl; reflexivity.
    - destruct (eqb k k') eqn:E; simpl; [rewrite eqb_refl; reflexivity | rewrite E; exact IH].
  Qed.

  Lemma alookup_upsert_other k k' v (l : list (K * V)) :
    k' <> k -> alookup eqb k' (aupsert eqb k v l) = alookup eqb k' l.
  Proof.
    intros Hne. induction l as [|[k2 v2] l IH]; simpl.
    - rewrite (eqb_neq _ _ Hne); reflexivity.
    - destruct (eqb k k2) eqn:E; simpl.
      + apply eqb_eq in E; subst k2. rewrite (eqb_neq _ _ Hne); reflexivity.
      + destruct (eqb k' k2); [reflexivity | exact IH].
  Qed.

  Lemma alookup_avmap k (f : V -> V) (l : list (K * V)) :
    alookup eqb k (avmap f l) = option_map f (alookup eqb k l).
  Proof.
    induction l as [|[k' v'] l IH]; simpl; [reflexivity|].
    destruct (eqb k k'); [reflexivity | exact IH].
  Qed.

  Lemma alookup_In k v (l : list (K * V)) : alookup eqb k l = Some v -> In (k, v) l.
  Proof.
    induction l as [|[k' v'] l IH]; simpl; [discriminate|].
    destruct (eqb k k') eqn:E.
    - intros H; inv H. apply eqb_eq in E; subst. left; reflexivity.
    - intros H; right; apply IH; exact H.
  Qed.

  Lemma Forall_snd_lookup (P : V -> Prop) k v (l : list (K * V)) :
    Forall (fun kv => P (snd kv)) l -> alookup eqb k l = Some v -> P v.
  Proof.
    intros HF HL. apply alookup_In in HL. rewrite Forall_forall in HF. exact (HF _ HL).
  Qed.

  Lemma Forall_snd_upsert (P : V -> Prop) k v (l : list (K * V)) :
    Forall (fun kv => P (snd kv)) l -> P v -> Forall (fun kv => P (snd kv)) (aupsert eqb k v l).
  Proof.
    intros HF Hv. induction HF as [|[k' v'] l Hx Hl IH]; simpl.
    - constructor; [exact Hv | constructor].
    - destruct (eqb k k'); constructor; auto.
  Qed.

  Lemma Forall_snd_avmap (P Q : V -> Prop) (f : V -> V) (l : list (K * V)) :
    (forall v, P v -> Q (f v)) ->
    Forall (fun kv => P (snd kv)) l -> Forall (fun kv => Q (snd kv)) (avmap f l).
  Proof.
    intros Hf HF. induction HF as [|[k' v'] l Hx Hl IH]; simpl; constructor;
      [apply Hf; exact Hx | exact IH].
  Qed.

  Lemma Forall_snd_avmap_all (Q : V -> Prop) (f : V -> V) (l : list (K * V)) :
    (forall v, Q (f v)) -> Forall (fun kv => Q (snd kv)) (avmap f l).
  Proof.
    intros Hf. induction l as [|[k' v'] l IH]; simpl; constructor; [apply Hf | exact IH].
  Qed.
End AListLemmas.

(* ------------------------------------------------------------------ "no secret clear text" as a Prop *)

Definition acct_clean (ai : ainfo) : Prop :=
  ai_priv ai = false /\ own_live (ai_last_ext ai) = false /\ own_live (ai_last_int ai) = false.
Definition addr_clean (o : aobj) : Prop := aobj_secret_live o = false.

Definition Wiped (m : mem) : Prop :=
  k_master (mk m) = false /\ k_cpriv (mk m) = false /\ k_cscript (mk m) = false /\
  k_hashed (mk m) = None /\
  Forall (fun kv => acct_clean (snd kv)) (m_accts m) /\
  Forall (fun kv => addr_clean (snd kv)) (m_addrs m) /\
  m_cache m = [].

Lemma forallb_Forall_snd {K V} (f : V -> bool) (l : list (K * V)) :
  forallb (fun kv => f (snd kv)) l = true <-> Forall (fun kv => f (snd kv) = true) l.
Proof.
  rewrite forallb_forall, Forall_forall. reflexivity.
Qed.

Lemma wiped_iff m : wiped m = true <-> Wiped m.
Proof.
  unfold wiped, Wiped, acct_clean, addr_clean.
  rewrite !andb_true_iff, !negb_true_iff.
  rewrite (forallb_Forall_snd (fun ai => negb (ai_priv ai) && negb (own_live (ai_last_ext ai))
                                         && negb (own_live (ai_last_int ai)))).
  rewrite (forallb_Forall_snd (fun o => negb (aobj_secret_live o))).
  split.
  - intros [[[[[[H1 H2] H3] H4] H5] H6] H7]. repeat split; try assumption.
    + destruct (k_hashed (mk m)); [discriminate | reflexivity].
    + eapply Forall_impl; [|exact H5]. intros [k ai]; simpl.
      rewrite !andb_true_iff, !negb_true_iff. tauto.
    + eapply Forall_impl; [|exact H6]. intros [k o]; simpl. rewrite negb_true_iff; trivial.
    + destruct (m_cache m); [reflexivity | discriminate].
  - intros (H1 & H2 & H3 & H4 & H5 & H6 & H7). repeat split; try assumption.
    + rewrite H4; reflexivity.
    + eapply Forall_impl; [|exact H5]. intros [k ai]; simpl.
      rewrite !andb_true_iff, !negb_true_iff. tauto.
    + eapply Forall_impl; [|exact H6]. intros [k o]; simpl. rewrite negb_true_iff; trivial.
    + rewrite H7; reflexivity.
Qed.

(* --- Manager.lock() wipes everything (facts F2, F3, F4) --- *)

Lemma lock_ainfo_clean F ai : f_lock_wipes_last F = true -> acct_clean (lock_ainfo F ai).
Proof.
  intros HF. unfold acct_clean, lock_ainfo, lock_last; simpl. rewrite HF.
  repeat split; [destruct (ai_last_ext ai) | destruct (ai_last_int ai)]; reflexivity.
Qed.

Lemma lock_aobj_clean F o : f_lock_wipes_wscripts F = true -> addr_clean (lock_aobj F o).
Proof.
  intros HF. unfold addr_clean, lock_aobj, aobj_secret_live. destruct o as [imp enc ct | k sec ct]; simpl.
  - reflexivity.
  - destruct k; simpl; rewrite ?HF; simpl; apply andb_false_r.
Qed.

Lemma Wiped_lock_mem F m :
  f_lock_purges_cache F = true -> f_lock_wipes_wscripts F = true -> f_lock_wipes_last F = true ->
  Wiped (lock_mem F m).
Proof.
  intros H2 H3 H4. unfold Wiped, lock_mem; simpl. repeat split.
  - apply Forall_snd_avmap_all. intros ai; apply lock_ainfo_clean; exact H4.
  - apply Forall_snd_avmap_all. intros o; apply lock_aobj_clean; exact H3.
  - rewrite H2; reflexivity.
Qed.

Lemma lock_mem_locked F m : k_locked (mk (lock_mem F m)) = true.
Proof. reflexivity. Qed.

(* ------------------------------------------------------------------ the invariant *)

Definition has_key (accts : list ((N * N) * ainfo)) (k : N * N) : Prop :=
  exists ai, alookup pair_eqb k accts = Some ai /\ ai_has_enc ai = true.

(* a deriveOnUnlock entry that Unlock can serve: its account is cached and has
   an encrypted private key *)
Definition qok (accts : list ((N * N) * ainfo)) (q : qent) : Prop :=
  exists k, qent_acct q = Some k /\ has_key accts k.

Definition acc_ext (a a' : list ((N * N) * ainfo)) : Prop :=
  forall k ai, alookup pair_eqb k a = Some ai ->
  exists ai', alookup pair_eqb k a' = Some ai' /\ ai_has_enc ai' = ai_has_enc ai.

Lemma acc_ext_refl a : acc_ext a a.
Proof. intros k ai H; exists ai; auto. Qed.

Lemma acc_ext_trans a b c : acc_ext a b -> acc_ext b c -> acc_ext a c.
Proof.
  intros H1 H2 k ai H. destruct (H1 _ _ H) as (ai1 & L1 & E1).
  destruct (H2 _ _ L1) as (ai2 & L2 & E2). exists ai2; split; [exact L2 | congruence].
Qed.

Lemma qok_ext a a' q : acc_ext a a' -> qok a q -> qok a' q.
Proof.
  intros HE (k & Hk & ai & HL & HK). destruct (HE _ _ HL) as (ai' & HL' & HE').
  exists k; split; [exact Hk|]. exists ai'; split; [exact HL' | congruence].
Qed.

Lemma Forall_qok_ext a a' l : acc_ext a a' -> Forall (qok a) l -> Forall (qok a') l.
Proof. intros HE. apply Forall_impl. intros q; apply qok_ext; exact HE. Qed.

Lemma acc_ext_app_fresh a k ai :
  alookup pair_eqb k a = None -> acc_ext a (a ++ [(k, ai)]).
Proof.
  intros HN k' ai' H. exists ai'; split; [|reflexivity].
  apply alookup_app_some; exact H.
Qed.

Lemma acc_ext_upsert a k ai ai0 :
  alookup pair_eqb k a = Some ai0 -> ai_has_enc ai = ai_has_enc ai0 ->
  acc_ext a (aupsert pair_eqb k ai a).
Proof.
  intros HL HE k' ai' H. destruct (pair_eqb k' k) eqn:E.
  - apply pair_eqb_eq in E; subst k'. exists ai; split.
    + apply (alookup_upsert_same pair_eqb pair_eqb_eq).
    + congruence.
  - exists ai'; split; [|reflexivity].
    rewrite (alookup_upsert_other pair_eqb pair_eqb_eq); [exact H|].
    intros ->. rewrite pair_eqb_refl in E; discriminate.
Qed.

Lemma acc_ext_avmap a (f : ainfo -> ainfo) :
  (forall ai, ai_has_enc (f ai) = ai_has_enc ai) -> acc_ext a (avmap f a).
Proof.
  intros Hf k ai H. exists (f ai); split; [|apply Hf].
  rewrite alookup_avmap, H; reflexivity.
Qed.

Record KInv (d : dkeys) (k : keys) : Prop := {
  ki_watch : k_watch k = d_watch d;
  ki_wl : k_watch k = true -> k_locked k = true;
  ki_pub : k_pub k = d_pub d /\ d_cpub d = snd (d_pub d);
  ki_priv : k_watch k = false ->
    exists pw g, k_priv k = Some (pw, g) /\ d_priv d = Some (pw, g) /\
      k_cpriv_enc k = Some g /\ d_cpriv d = Some g /\
      k_cscript_enc k = Some g /\ d_cscript d = Some g /\
      pw <> empty_pass /\
      (k_locked k = false -> k_hashed k = Some (k_salt k, pw))
}.

Definition Inv (s : state) : Prop :=
  KInv (dk (sd s)) (mk (sm s)) /\
  (watch s = false -> Forall (qok (m_accts (sm s))) (m_queue (sm s))) /\
  (locked s = true -> Wiped (sm s)).

Lemma Inv_init nsc pub priv : priv <> empty_pass -> Inv (init nsc pub priv).
Proof.
  intros Hp. unfold Inv, init, watch, locked; simpl. split; [|split].
  - constructor; simpl; auto; try discriminate.
    intros _. exists priv, 1. repeat split; auto. discriminate.
  - intros _; constructor.
  - intros _. unfold Wiped; simpl. repeat split; constructor.
Qed.

(* the parts of Wiped that do not concern the keys record *)
Definition ObjsClean (m : mem) : Prop :=
  Forall (fun kv => acct_clean (snd kv)) (m_accts m) /\
  Forall (fun kv => addr_clean (snd kv)) (m_addrs m) /\
  m_cache m = [].

Lemma Wiped_objs m : Wiped m -> ObjsClean m.
Proof. intros (_ & _ & _ & _ & H5 & H6 & H7); repeat split; assumption. Qed.

Lemma Wiped_same_keys m m' : Wiped m -> mk m' = mk m -> ObjsClean m' -> Wiped m'.
Proof.
  intros (H1 & H2 & H3 & H4 & _) HK (H5 & H6 & H7). unfold Wiped. rewrite HK. repeat split; assumption.
Qed.

(* An operation that leaves both key records alone preserves the invariant
   when it keeps the queue servable and, while locked, the objects clean. *)
Lemma Inv_objs s s' :
  Inv s -> dk (sd s') = dk (sd s) -> mk (sm s') = mk (sm s) ->
  (watch s = false -> Forall (qok (m_accts (sm s'))) (m_queue (sm s'))) ->
  (locked s = true -> ObjsClean (sm s) -> ObjsClean (sm s')) ->
  Inv s'.
Proof.
  intros (HK & HQ & HW) Hd Hm HQ' HW'. unfold Inv, watch, locked in *. rewrite Hd, Hm. split; [exact HK|]. split.
  - exact HQ'.
  - intros HL. apply (Wiped_same_keys (sm s)); auto. apply HW'; auto. apply Wiped_objs; auto.
Qed.

(* ------------------------------------------------------------------ loadAccountInfo *)

Lemma queue_if_public_cases F has_enc private q :
  f_keyless_not_queued F = true ->
  queue_if_public F has_enc private q = [] \/ (has_enc = true /\ private = false /\ queue_if_public F has_enc private q = q).
Proof.
  intros HF. unfold queue_if_public. rewrite HF. destruct private; [left; reflexivity|].
  destruct has_enc; simpl; [right; auto | left; reflexivity].
Qed.

Lemma load_acct_spec F sc acct s s1 ai :
  load_acct F sc acct s = Some (s1, ai) ->
  sd s1 = sd s /\ next_gen s1 = next_gen s /\ mk (sm s1) = mk (sm s) /\
  m_addrs (sm s1) = m_addrs (sm s) /\ m_cache (sm s1) = m_cache (sm s) /\
  alookup pair_eqb (sc, acct) (m_accts (sm s1)) = Some ai /\
  acc_ext (m_accts (sm s)) (m_accts (sm s1)) /\
  (exists q, m_queue (sm s1) = m_queue (sm s) ++ q /\
             (f_keyless_not_queued F = true -> Forall (qok (m_accts (sm s1))) q)) /\
  (locked s = true -> Forall (fun kv => acct_clean (snd kv)) (m_accts (sm s)) ->
                      Forall (fun kv => acct_clean (snd kv)) (m_accts (sm s1))) /\
  (ai_priv ai = true -> locked s = false /\ watch s = false \/
                        alookup pair_eqb (sc, acct) (m_accts (sm s)) = Some ai).
Proof.
  unfold load_acct. destruct (alookup pair_eqb (sc, acct) (m_accts (sm s))) as [ai0|] eqn:EL.
  - intros H; inv H. repeat split; auto.
    + apply acc_ext_refl.
    + exists []; rewrite app_nil_r; split; [reflexivity | constructor].
  - destruct (alookup pair_eqb (sc, acct) (d_accts (sd s))) as [row|]; [|discriminate].
    set (hasp := negb (k_locked (mk (sm s))) && negb (k_watch (mk (sm s))) && negb (dr_watch row)).
    destruct (hasp && negb (dr_has_priv row)) eqn:EH; [discriminate|].
    intros H; inv H. simpl. repeat split; auto.
    + rewrite (alookup_app_none pair_eqb _ _ _ EL). simpl. rewrite pair_eqb_refl; reflexivity.
    + apply acc_ext_app_fresh; exact EL.
    + eexists; split; [reflexivity|]. intros HF.
      destruct (queue_if_public_cases F (dr_has_priv row) hasp [QLast sc acct false; QLast sc acct true] HF)
        as [-> | (He & _ & ->)]; [constructor|].
      assert (HK : has_key (m_accts (sm s) ++ [(sc, acct,
                     {| ai_has_enc := dr_has_priv row; ai_priv := hasp; ai_last_ext := LOwn hasp; ai_last_int := LOwn hasp |})])
                           (sc, acct)).
      { eexists; split; [rewrite (alookup_app_none pair_eqb _ _ _ EL); simpl; rewrite pair_eqb_refl; reflexivity | exact He]. }
      constructor; [|constructor; [|constructor]]; exists (sc, acct); split; auto.
    + intros HL HF. apply Forall_app; split; [exact HF|]. constructor; [|constructor].
      unfold locked in HL. subst hasp. rewrite HL. simpl. repeat split.
    + simpl. intros HP. left. subst hasp. unfold locked, watch.
      apply andb_true_iff in HP as [HP _]. apply andb_true_iff in HP as [H1 H2].
      apply negb_true_iff in H1, H2. auto.
Qed.

(* ------------------------------------------------------------------ loadAndCacheAddress *)

Lemma addr_clean_key_dead imp enc : addr_clean (OKey imp enc false).
Proof. reflexivity. Qed.
Lemma addr_clean_script_dead k sec : addr_clean (OScript k sec false).
Proof. unfold addr_clean, aobj_secret_live; simpl. apply andb_false_r. Qed.
Lemma addr_clean_public k ct : addr_clean (OScript k false ct).
Proof. reflexivity. Qed.

Ltac splits := repeat match goal with |- _ /\ _ => split end.

Lemma load_addr_spec F sc a s s1 o :
  load_addr F sc a s = Some (s1, o) ->
  sd s1 = sd s /\ next_gen s1 = next_gen s /\ mk (sm s1) = mk (sm s) /\
  m_cache (sm s1) = m_cache (sm s) /\
  alookup addr_eqb (sc, a) (m_addrs (sm s1)) = Some o /\
  acc_ext (m_accts (sm s)) (m_accts (sm s1)) /\
  (exists q, m_queue (sm s1) = m_queue (sm s) ++ q /\
             (f_keyless_not_queued F = true -> Forall (qok (m_accts (sm s1))) q)) /\
  (locked s = true -> ObjsClean (sm s) -> ObjsClean (sm s1)).
Proof.
  unfold load_addr. destruct (alookup addr_eqb (sc, a) (m_addrs (sm s))) as [o0|] eqn:EL.
  - intros H; inv H. splits; auto.
    + apply acc_ext_refl.
    + exists []; rewrite app_nil_r; split; [reflexivity | constructor].
  - destruct (alookup addr_eqb (sc, a) (d_addrs (sd s))) as [[|hp|k sec]|]; [| | |discriminate].
    + destruct a as [acct br idx| |]; try discriminate.
      destruct (load_acct F sc acct s) as [[s0 ai]|] eqn:ELA; [|discriminate].
      destruct (load_acct_spec _ _ _ _ _ _ ELA) as (Hd & Hg & Hk & Ha & Hc & Hl & He & (q0 & Hq0 & Hq0ok) & Hcl & _).
      intros H; inv H. simpl. splits; auto.
      * rewrite Ha. rewrite (alookup_app_none addr_eqb _ _ _ EL). simpl. rewrite addr_eqb_refl; reflexivity.
      * eexists; split; [rewrite Hq0, <- app_assoc; reflexivity|]. intros HF.
        apply Forall_app; split; [apply Hq0ok; exact HF|].
        match goal with |- Forall _ (queue_if_public F ?e ?p ?q) =>
          destruct (queue_if_public_cases F e p q HF) as [-> | (He' & _ & ->)] end; [constructor|].
        constructor; [|constructor]. exists (sc, acct); split; [reflexivity|]. exists ai; auto.
      * intros HL (HA & HB & HC). repeat split.
        -- apply Hcl; assumption.
        -- rewrite Ha. apply Forall_app; split; [exact HB|]. constructor; [|constructor]. simpl.
           unfold locked in HL. rewrite Hk, HL. simpl. reflexivity.
        -- simpl. rewrite Hc; exact HC.
    + intros H; inv H. simpl. splits; auto.
      * rewrite (alookup_app_none addr_eqb _ _ _ EL). simpl. rewrite addr_eqb_refl; reflexivity.
      * apply acc_ext_refl.
      * exists []; rewrite app_nil_r; split; [reflexivity | constructor].
      * intros _ (HA & HB & HC). repeat split; auto. apply Forall_app; split; [exact HB|].
        constructor; [apply addr_clean_key_dead | constructor].
    + intros H; inv H. simpl. splits; auto.
      * rewrite (alookup_app_none addr_eqb _ _ _ EL). simpl. rewrite addr_eqb_refl; reflexivity.
      * apply acc_ext_refl.
      * exists []; rewrite app_nil_r; split; [reflexivity | constructor].
      * intros _ (HA & HB & HC). repeat split; auto. apply Forall_app; split; [exact HB|].
        constructor; [apply addr_clean_script_dead | constructor].
Qed.

Lemma set_addr_fields s sc a o :
  sd (set_addr s sc a o) = sd s /\ mk (sm (set_addr s sc a o)) = mk (sm s) /\
  m_accts (sm (set_addr s sc a o)) = m_accts (sm s) /\
  m_queue (sm (set_addr s sc a o)) = m_queue (sm s) /\
  m_cache (sm (set_addr s sc a o)) = m_cache (sm s) /\
  m_addrs (sm (set_addr s sc a o)) = aupsert addr_eqb (sc, a) o (m_addrs (sm s)).
Proof. repeat split. Qed.

Lemma ObjsClean_set_addr s sc a o :
  ObjsClean (sm s) -> addr_clean o -> ObjsClean (sm (set_addr s sc a o)).
Proof.
  intros (HA & HB & HC) Ho. repeat split; simpl; auto.
  apply (Forall_snd_upsert addr_eqb addr_clean); assumption.
Qed.

(* ------------------------------------------------------------------ preservation: object-level operations *)

Lemma Inv_ext s s1 :
  Inv s -> dk (sd s1) = dk (sd s) -> mk (sm s1) = mk (sm s) ->
  acc_ext (m_accts (sm s)) (m_accts (sm s1)) ->
  (exists q, m_queue (sm s1) = m_queue (sm s) ++ q /\ (watch s = false -> Forall (qok (m_accts (sm s1))) q)) ->
  (locked s = true -> ObjsClean (sm s) -> ObjsClean (sm s1)) ->
  Inv s1.
Proof.
  intros HI Hd Hm He (q & Hq & Hqok) Hc. apply (Inv_objs s); auto.
  intros HW. rewrite Hq. apply Forall_app; split; [|auto].
  apply (Forall_qok_ext (m_accts (sm s))); [exact He|]. destruct HI as (_ & HQ & _); auto.
Qed.

Lemma Inv_load_acct F sc acct s s1 ai :
  f_keyless_not_queued F = true -> Inv s -> load_acct F sc acct s = Some (s1, ai) -> Inv s1.
Proof.
  intros HF HI HL. destruct (load_acct_spec _ _ _ _ _ _ HL) as (Hd & _ & Hk & Ha & Hc & _ & He & (q & Hq & Hqok) & Hcl & _).
  apply (Inv_ext s); auto.
  - rewrite Hd; reflexivity.
  - exists q; auto.
  - intros HL' (A & B & C). repeat split; [apply Hcl; auto | rewrite Ha; exact B | rewrite Hc; exact C].
Qed.

Lemma Inv_load_addr F sc a s s1 o :
  f_keyless_not_queued F = true -> Inv s -> load_addr F sc a s = Some (s1, o) -> Inv s1.
Proof.
  intros HF HI HL. destruct (load_addr_spec _ _ _ _ _ _ HL) as (Hd & _ & Hk & Hc & _ & He & (q & Hq & Hqok) & Hcl).
  apply (Inv_ext s); auto.
  - rewrite Hd; reflexivity.
  - exists q; auto.
Qed.

Lemma Inv_same_mem s s' : Inv s -> dk (sd s') = dk (sd s) -> sm s' = sm s -> Inv s'.
Proof.
  intros HI Hd Hm. apply (Inv_objs s); auto; rewrite Hm; auto.
  destruct HI as (_ & HQ & _); exact HQ.
Qed.

Lemma Inv_set_addr s sc a o :
  Inv s -> (locked s = true -> addr_clean o) -> Inv (set_addr s sc a o).
Proof.
  intros HI Ho. apply (Inv_objs s); auto.
  - destruct HI as (_ & HQ & _); exact HQ.
  - intros HL HC. apply ObjsClean_set_addr; auto.
Qed.

Lemma locked_of_mk s s' : mk (sm s') = mk (sm s) -> locked s' = locked s /\ watch s' = watch s.
Proof. intros H; unfold locked, watch; rewrite H; auto. Qed.

Lemma Inv_acct_props F sc acct s s' r :
  f_keyless_not_queued F = true -> Inv s -> do_acct_props F sc acct s = (s', r) -> Inv s'.
Proof.
  intros HF HI. unfold do_acct_props. destruct (load_acct F sc acct s) as [[s1 ai]|] eqn:E; intros H; inv H; auto.
  eapply Inv_load_acct; eauto.
Qed.

Lemma Inv_new_account sc s s' r : Inv s -> do_new_account sc s = (s', r) -> Inv s'.
Proof.
  intros HI. unfold do_new_account. destruct (watch s); [intros H; inv H; auto|].
  destruct (locked s); intros H; inv H; auto.
Qed.

Lemma Inv_new_watch_account sc s s' r : Inv s -> do_new_watch_account sc s = (s', r) -> Inv s'.
Proof.
  intros HI H; inv H. apply (Inv_same_mem s); auto.
Qed.

Lemma Inv_crypt kt s s' r : Inv s -> do_crypt kt s = (s', r) -> Inv s'.
Proof.
  intros HI. unfold do_crypt. destruct kt; try destruct (locked s || watch s); intros H; inv H; auto.
Qed.

Lemma Inv_import_priv sc n s s' r : Inv s -> do_import_priv sc n s = (s', r) -> Inv s'.
Proof.
  intros HI. unfold do_import_priv.
  destruct (locked s && negb (watch s)) eqn:E1; [intros H; inv H; auto|].
  destruct (addr_known sc (KImp n) s); intros H; inv H; auto.
  apply Inv_set_addr.
  - apply (Inv_same_mem s); auto.
  - unfold locked; simpl. intros HL. fold (locked s) in HL. rewrite HL in E1. simpl in E1.
    apply negb_false_iff in E1. rewrite E1. simpl. apply addr_clean_key_dead.
Qed.

Lemma Inv_import_script sc n k secret s s' r : Inv s -> do_import_script sc n k secret s = (s', r) -> Inv s'.
Proof.
  intros HI. unfold do_import_script.
  set (sec := match k with KP2SH => true | _ => secret end).
  destruct (sec && locked s) eqn:E1; [intros H; inv H; auto|].
  destruct (sec && watch s) eqn:E2; [intros H; inv H; auto|].
  destruct (addr_known sc (KScr n) s); intros H; inv H; auto.
  apply Inv_set_addr.
  - apply (Inv_same_mem s); auto.
  - unfold locked; simpl. intros HL. fold (locked s) in HL. rewrite HL, andb_true_r in E1. rewrite E1.
    apply addr_clean_public.
Qed.

Lemma Inv_do_load_addr F sc a s s' r :
  f_keyless_not_queued F = true -> Inv s -> do_load_addr F sc a s = (s', r) -> Inv s'.
Proof.
  intros HF HI. unfold do_load_addr. destruct (load_addr F sc a s) as [[s1 o]|] eqn:E; intros H; inv H; auto.
  eapply Inv_load_addr; eauto.
Qed.

Lemma Inv_priv_key F sc a s s' r :
  f_keyless_not_queued F = true -> Inv s -> do_priv_key F sc a s = (s', r) -> Inv s'.
Proof.
  intros HF HI. unfold do_priv_key. destruct (load_addr F sc a s) as [[s1 o]|] eqn:E; [|intros H; inv H; auto].
  assert (HI1 : Inv s1) by (eapply Inv_load_addr; eauto).
  destruct o as [imp enc ct | k sec ct]; [|intros H; inv H; auto].
  destruct (watch s1); [intros H; inv H; auto|].
  destruct (locked s1) eqn:EL; [intros H; inv H; auto|].
  destruct (negb enc); intros H; inv H; auto.
  apply Inv_set_addr; auto. intros HL; congruence.
Qed.

Lemma Inv_script F sc a s s' r :
  f_keyless_not_queued F = true -> Inv s -> do_script F sc a s = (s', r) -> Inv s'.
Proof.
  intros HF HI. unfold do_script. destruct (load_addr F sc a s) as [[s1 o]|] eqn:E; [|intros H; inv H; auto].
  assert (HI1 : Inv s1) by (eapply Inv_load_addr; eauto).
  destruct o as [imp enc ct | k sec ct]; [intros H; inv H; auto|].
  set (gate := match k with KP2SH => true | _ => sec end).
  destruct (gate && watch s1); [intros H; inv H; auto|].
  destruct (gate && locked s1) eqn:EG; intros H; inv H; auto.
  apply Inv_set_addr; auto. intros HL. rewrite HL, andb_true_r in EG.
  subst gate. destruct k; try discriminate; subst sec; apply addr_clean_public.
Qed.

Lemma Inv_derive F sc acct br idx s s' r :
  f_keyless_not_queued F = true -> Inv s -> do_derive F sc acct br idx s = (s', r) -> Inv s'.
Proof.
  intros HF HI. unfold do_derive. destruct (load_acct F sc acct s) as [[s1 ai]|] eqn:E; [|intros H; inv H; auto].
  assert (HI1 : Inv s1) by (eapply Inv_load_acct; eauto).
  destruct (load_acct_spec _ _ _ _ _ _ E) as (_ & _ & _ & _ & _ & Hl & _).
  set (private := negb (k_locked (mk (sm s1))) && negb (k_watch (mk (sm s1))) && ai_priv ai).
  set (q := queue_if_public F (ai_has_enc ai) private [QDetached sc acct]).
  set (s2 := with_mem s1 (mem_queue (sm s1) (m_queue (sm s1) ++ q))).
  assert (HI2 : Inv s2).
  { apply (Inv_ext s1); auto.
    - apply acc_ext_refl.
    - exists q; split; [reflexivity|]. intros _. subst q.
      destruct (queue_if_public_cases F (ai_has_enc ai) private [QDetached sc acct] HF) as [-> | (He & _ & ->)]; [constructor|].
      constructor; [|constructor]. exists (sc, acct); split; [reflexivity|]. exists ai; auto. }
  destruct (k_watch (mk (sm s1))); [intros H; inv H; auto|].
  destruct (k_locked (mk (sm s1))); [intros H; inv H; auto|].
  destruct (negb private); intros H; inv H; auto.
Qed.

Lemma Inv_derive_cache F sc acct br idx s s' r :
  f_cache_checked F = true -> Inv s -> do_derive_cache F sc acct br idx s = (s', r) -> Inv s'.
Proof.
  intros HF HI. unfold do_derive_cache. rewrite HF. simpl.
  destruct (k_watch (mk (sm s))) eqn:EW; [intros H; inv H; auto|].
  destruct (k_locked (mk (sm s))) eqn:EL; [intros H; inv H; auto|].
  destruct (existsb _ _); [intros H; inv H; auto|].
  destruct (alookup pair_eqb (sc, acct) (m_accts (sm s))) as [ai|]; [|intros H; inv H; auto].
  simpl. destruct (ai_priv ai); intros H; inv H; auto.
  apply (Inv_objs s); auto.
  - destruct HI as (_ & HQ & _); exact HQ.
  - unfold locked. rewrite EL. discriminate.
Qed.

Lemma acct_clean_set_last internal a ai : acct_clean ai -> acct_clean (set_last internal (LAlias a) ai).
Proof.
  intros (H1 & H2 & H3). unfold set_last. destruct internal; repeat split; simpl; auto.
Qed.

Lemma Inv_next_addr F sc acct internal s s' r :
  f_keyless_not_queued F = true -> Inv s -> do_next_addr F sc acct internal s = (s', r) -> Inv s'.
Proof.
  intros HF HI. unfold do_next_addr.
  destruct (load_acct F sc acct s) as [[s1 ai]|] eqn:E; [|intros H; inv H; auto].
  assert (HI1 : Inv s1) by (eapply Inv_load_acct; eauto).
  destruct (load_acct_spec _ _ _ _ _ _ E) as (_ & _ & _ & _ & _ & Hl & _).
  destruct (alookup pair_eqb (sc, acct) (d_accts (sd s1))) as [row|]; [|intros H; inv H; auto].
  set (k := mk (sm s1)).
  set (wo := k_watch k || negb (ai_has_enc ai)).
  set (private := negb (k_locked k) && negb wo).
  destruct (private && negb (ai_priv ai)); [intros H; inv H; auto|].
  set (a := KChain acct (if internal then 1 else 0) (if internal then dr_next_int row else dr_next_ext row)).
  intros H; inv H.
  apply (Inv_ext s1); auto.
  - simpl. apply (acc_ext_upsert _ _ _ ai); [exact Hl | destruct internal; reflexivity].
  - simpl. eexists; split; [reflexivity|]. intros HW.
    assert (HK : ai_has_enc ai = true ->
                 has_key (aupsert pair_eqb (sc, acct) (set_last internal (LAlias a) ai) (m_accts (sm s1))) (sc, acct)).
    { intros He. eexists; split; [apply (alookup_upsert_same pair_eqb pair_eqb_eq)|].
      destruct internal; exact He. }
    apply Forall_app; split.
    + match goal with |- Forall _ (queue_if_public F ?e ?p ?q) =>
        destruct (queue_if_public_cases F e p q HF) as [-> | (He' & _ & ->)] end; [constructor|].
      constructor; [|constructor]. exists (sc, acct); split; [reflexivity | auto].
    + fold k. destruct (k_locked k && negb wo) eqn:EQ; [|constructor].
      constructor; [|constructor]. exists (sc, acct); split; [reflexivity|]. apply HK.
      apply andb_true_iff in EQ as [_ EQ]. apply negb_true_iff in EQ. subst wo.
      apply orb_false_iff in EQ as [_ EQ]. apply negb_false_iff in EQ; exact EQ.
  - intros HL (HA & HB & HC). repeat split; simpl; auto.
    + apply (Forall_snd_upsert pair_eqb acct_clean); [exact HA|].
      apply acct_clean_set_last. exact (Forall_snd_lookup pair_eqb pair_eqb_eq acct_clean _ _ _ HA Hl).
    + apply (Forall_snd_upsert addr_eqb addr_clean); [exact HB|].
      subst private. fold k. unfold locked in HL. fold k in HL. rewrite HL. simpl. apply addr_clean_key_dead.
Qed.

(* ------------------------------------------------------------------ preservation: lock / unlock / passphrases *)

(* any state of the shape "lock() was just run", whatever the salt *)
Definition locked_mem (F : facts) (m : mem) (salt : N) : mem :=
  lock_mem F (mem_keys m (with_salt (mk m) salt)).

Lemma lock_mem_as_locked_mem F m : lock_mem F m = locked_mem F m (k_salt (mk m)).
Proof. reflexivity. Qed.

Lemma Inv_locked_mem F s salt :
  f_lock_purges_cache F = true -> f_lock_wipes_wscripts F = true -> f_lock_wipes_last F = true ->
  Inv s -> Inv (with_mem s (locked_mem F (sm s) salt)).
Proof.
  intros H2 H3 H4 (HK & HQ & HW). unfold Inv, watch, locked, locked_mem. simpl. split; [|split].
  - destruct HK as [K1 K2 K3 K4]. constructor; simpl; auto.
    intros HWt. destruct (K4 HWt) as (pw & g & A & B & C & D & E & G & I & _).
    exists pw, g. repeat split; auto. discriminate.
  - intros HWt. apply (Forall_qok_ext (m_accts (sm s))); [|auto].
    apply acc_ext_avmap. reflexivity.
  - intros _. apply (Wiped_lock_mem F (mem_keys (sm s) (with_salt (mk (sm s)) salt))); assumption.
Qed.

Lemma Inv_lock F s s' r :
  facts_ok F -> Inv s -> do_lock F s = (s', r) -> Inv s'.
Proof.
  intros (_ & H2 & H3 & H4 & _) HI. unfold do_lock.
  destruct (watch s); [intros H; inv H; auto|].
  destruct (locked s); intros H; inv H; auto.
  rewrite lock_mem_as_locked_mem. apply Inv_locked_mem; auto.
Qed.

Lemma salt_after_nonempty salt p : p <> empty_pass -> salt_after salt p = salt.
Proof.
  intros H. unfold salt_after. destruct (p =? empty_pass) eqn:E; [apply N.eqb_eq in E; contradiction | reflexivity].
Qed.

Lemma Inv_unlock F p s s' r :
  facts_ok F -> Inv s -> do_unlock F p s = (s', r) -> Inv s'.
Proof.
  intros (_ & H2 & H3 & H4 & _) HI. unfold do_unlock.
  destruct (k_watch (mk (sm s))) eqn:EW; [intros H; inv H; auto|].
  destruct HI as (HK & HQ & HWp). destruct HK as [K1 K2 K3 K4].
  destruct (K4 EW) as (pw & g & A & B & C & D & E & G & I & J).
  assert (HI : Inv s) by (split; [constructor; auto | split; auto]).
  destruct (k_locked (mk (sm s))) eqn:EL; simpl.
  - (* locked: slow path *)
    rewrite A. destruct (pw =? p) eqn:EP; simpl.
    2:{ intros H; inv H. rewrite lock_mem_as_locked_mem. apply Inv_locked_mem; auto. }
    rewrite C. rewrite N.eqb_refl. simpl.
    destruct (negb (f_unlock_skips_keyless F) && existsb _ _).
    { intros H; inv H. rewrite lock_mem_as_locked_mem. apply Inv_locked_mem; auto. }
    destruct (negb (forallb _ _)); [intros H; inv H; auto|].
    intros H; inv H. apply N.eqb_eq in EP; subst p.
    unfold Inv, watch, locked; simpl. split; [|split].
    + constructor; simpl; auto; try congruence.
      intros _. exists pw, g. repeat split; auto.
      intros _. rewrite salt_after_nonempty; auto.
    + intros _; constructor.
    + discriminate.
  - (* already unlocked: hash comparison *)
    rewrite (J eq_refl). rewrite N.eqb_refl. simpl.
    destruct (pw =? p) eqn:EP.
    + apply N.eqb_eq in EP; subst p. intros H; inv H.
      unfold Inv, watch, locked; simpl. split; [|split].
      * constructor; simpl; auto; try congruence.
        intros _. exists pw, g. repeat split; auto.
        intros _. rewrite salt_after_nonempty; auto.
      * exact HQ.
      * rewrite EL; discriminate.
    + intros H; inv H.
      change (lock_mem F (mem_keys (sm s) (with_salt (mk (sm s)) (salt_after (k_salt (mk (sm s))) p))))
        with (locked_mem F (sm s) (salt_after (k_salt (mk (sm s))) p)).
      apply Inv_locked_mem; auto.
Qed.

Lemma Inv_change_priv F old new s s' r :
  f_change_rejects_empty F = true -> Inv s -> do_change_priv F old new s = (s', r) -> Inv s'.
Proof.
  intros HF HI. unfold do_change_priv. rewrite HF. simpl.
  destruct (k_watch (mk (sm s))) eqn:EW; [intros H; inv H; auto|].
  destruct (new =? empty_pass) eqn:EN; [intros H; inv H; auto|].
  apply N.eqb_neq in EN.
  destruct HI as (HK & HQ & HWp). destruct HK as [K1 K2 K3 K4].
  destruct (K4 EW) as (pw & g & A & B & C & D & E & G & I & J).
  assert (HI : Inv s) by (split; [constructor; auto | split; auto]).
  rewrite A. destruct (pw =? old); simpl; [|intros H; inv H; auto].
  rewrite C, E, N.eqb_refl. simpl.
  intros H; inv H. unfold Inv, watch, locked; simpl. split; [|split].
  - constructor; simpl; auto; try congruence.
    intros _. exists new, (next_gen s). repeat split; auto.
    intros HL. rewrite HL. rewrite salt_after_nonempty; auto.
  - intros _. apply HQ. exact EW.
  - intros HL. specialize (HWp HL). destruct HWp as (W1 & W2 & W3 & W4 & W5 & W6 & W7).
    unfold Wiped; simpl. rewrite HL. simpl. repeat split; auto.
Qed.

Lemma Inv_change_pub old new s s' r : Inv s -> do_change_pub old new s = (s', r) -> Inv s'.
Proof.
  intros HI. unfold do_change_pub. destruct (k_pub (mk (sm s))) as [pw g0].
  destruct (pw =? old); simpl; [|intros H; inv H; auto].
  intros H; inv H. destruct HI as (HK & HQ & HWp). destruct HK as [K1 K2 K3 K4].
  unfold Inv, watch, locked; simpl. split; [|split]; auto.
  constructor; simpl; auto.
Qed.

Lemma Inv_open p s s' r : Inv s -> do_open p s = (s', r) -> Inv s'.
Proof.
  intros HI. unfold do_open. destruct (d_pub (dk (sd s))) as [pw g0] eqn:EP.
  destruct (pw =? p); simpl; [|intros H; inv H; auto].
  destruct (d_cpub (dk (sd s)) =? g0) eqn:EC; simpl; [|intros H; inv H; auto].
  intros H; inv H. destruct HI as (HK & HQ & HWp). destruct HK as [K1 K2 K3 K4].
  unfold Inv, watch, locked; simpl. split; [|split].
  - constructor; simpl; auto.
    + destruct K3 as [_ K3]; split; congruence.
    + intros HW. rewrite HW. rewrite <- K1 in HW.
      destruct (K4 HW) as (pw' & g & A & B & C & D & E & G & I & J).
      exists pw', g. repeat split; auto. discriminate.
  - intros _; constructor.
  - intros _. unfold Wiped; simpl. repeat split; constructor.
Qed.

Lemma acct_clean_convert ai : acct_clean ai -> acct_clean (convert_ainfo ai).
Proof. intros H; exact H. Qed.
Lemma addr_clean_convert o : addr_clean o -> addr_clean (convert_aobj o).
Proof. destruct o; intros H; exact H. Qed.

Lemma Inv_convert F s s' r : facts_ok F -> Inv s -> do_convert F s = (s', r) -> Inv s'.
Proof.
  intros (_ & H2 & H3 & H4 & _) HI. unfold do_convert.
  destruct (watch s) eqn:EW; [intros H; inv H; auto|].
  set (m0 := if locked s then sm s else lock_mem F (sm s)).
  assert (HL0 : k_locked (mk m0) = true).
  { subst m0. destruct (locked s) eqn:EL; [exact EL | reflexivity]. }
  assert (HW0 : Wiped m0).
  { subst m0. destruct (locked s) eqn:EL; [destruct HI as (_ & _ & HW); auto | apply Wiped_lock_mem; auto]. }
  assert (HP0 : k_pub (mk m0) = k_pub (mk (sm s))).
  { subst m0. destruct (locked s); reflexivity. }
  intros H; inv H. destruct HI as (HK & HQ & HWp). destruct HK as [K1 K2 K3 K4].
  unfold Inv, watch, locked; simpl. split; [|split].
  - constructor; simpl; auto; [rewrite HP0; exact K3 | discriminate].
  - discriminate.
  - intros _. destruct HW0 as (W1 & W2 & W3 & W4 & W5 & W6 & W7). unfold Wiped; simpl. repeat split; auto.
    + eapply Forall_snd_avmap; [|exact W5]. apply acct_clean_convert.
    + eapply Forall_snd_avmap; [|exact W6]. apply addr_clean_convert.
Qed.

(* ------------------------------------------------------------------ all histories *)

Theorem Inv_step F s o s' r : facts_ok F -> Inv s -> step F s o = (s', r) -> Inv s'.
Proof.
  intros HF HI. pose proof HF as (F1 & F2 & F3 & F4 & F5 & F6 & F7).
  destruct o; simpl; intros H.
  - eapply Inv_open; eauto.
  - eapply Inv_unlock; eauto.
  - eapply Inv_lock; eauto.
  - eapply Inv_change_priv; eauto.
  - eapply Inv_change_pub; eauto.
  - eapply Inv_new_account; eauto.
  - eapply Inv_new_watch_account; eauto.
  - eapply Inv_acct_props; eauto.
  - eapply Inv_next_addr; eauto.
  - eapply Inv_import_priv; eauto.
  - eapply Inv_import_script; eauto.
  - eapply Inv_do_load_addr; eauto.
  - eapply Inv_priv_key; eauto.
  - eapply Inv_script; eauto.
  - eapply Inv_derive; eauto.
  - eapply Inv_derive_cache; eauto.
  - eapply Inv_crypt; eauto.
  - eapply Inv_crypt; eauto.
  - eapply Inv_convert; eauto.
Qed.

Lemma exec_cons F s o ops : exec F s (o :: ops) = exec F (fst (step F s o)) ops.
Proof.
  unfold exec; simpl. destruct (step F s o) as [s1 r]. simpl. destruct (run F s1 ops); reflexivity.
Qed.

Lemma exec_app F s ops1 ops2 : exec F s (ops1 ++ ops2) = exec F (exec F s ops1) ops2.
Proof.
  revert s. induction ops1 as [|o ops1 IH]; intros s; [reflexivity|].
  simpl. rewrite !exec_cons. apply IH.
Qed.

Theorem Inv_exec F s ops : facts_ok F -> Inv s -> Inv (exec F s ops).
Proof.
  intros HF. revert s. induction ops as [|o ops IH]; intros s HI; [exact HI|].
  rewrite exec_cons. apply IH. destruct (step F s o) as [s1 r] eqn:E. simpl.
  eapply Inv_step; eauto.
Qed.

Definition reachable (F : facts) (nsc : nat) (pub priv : N) (s : state) : Prop :=
  exists ops, s = exec F (init nsc pub priv) ops.

Theorem Inv_reachable F nsc pub priv s :
  facts_ok F -> priv <> empty_pass -> reachable F nsc pub priv s -> Inv s.
Proof.
  intros HF Hp (ops & ->). apply Inv_exec; [exact HF | apply Inv_init; exact Hp].
Qed.

(* ------------------------------------------------------------------ (i) access control, in ANY state *)

Definition lockerr (r : rc) : Prop := r = RLocked \/ r = RWatchOnly.

Lemma ac_priv_key F sc a s s1 imp enc ct :
  locked s = true \/ watch s = true ->
  load_addr F sc a s = Some (s1, OKey imp enc ct) ->
  lockerr (snd (do_priv_key F sc a s)) /\ fst (do_priv_key F sc a s) = s1.
Proof.
  intros HL E. unfold do_priv_key. rewrite E.
  destruct (load_addr_spec _ _ _ _ _ _ E) as (_ & _ & Hk & _).
  destruct (locked_of_mk _ _ Hk) as [Hl Hw]. rewrite Hl, Hw.
  destruct (watch s); [split; [right|]; reflexivity|].
  destruct HL as [HL|HL]; [|discriminate]. rewrite HL. split; [left|]; reflexivity.
Qed.

Lemma ac_priv_key_no_material F sc a s :
  locked s = true \/ watch s = true -> snd (do_priv_key F sc a s) <> ROk.
Proof.
  intros HL. unfold do_priv_key. destruct (load_addr F sc a s) as [[s1 [imp enc ct|k sec ct]]|] eqn:E; simpl; try discriminate.
  destruct (load_addr_spec _ _ _ _ _ _ E) as (_ & _ & Hk & _).
  destruct (locked_of_mk _ _ Hk) as [Hl Hw]. rewrite Hl, Hw.
  destruct (watch s); [discriminate|]. destruct HL as [HL|HL]; [|discriminate]. rewrite HL. discriminate.
Qed.

Lemma ac_script F sc a s s1 k sec ct :
  locked s = true \/ watch s = true ->
  load_addr F sc a s = Some (s1, OScript k sec ct) ->
  k = KP2SH \/ sec = true ->
  lockerr (snd (do_script F sc a s)) /\ fst (do_script F sc a s) = s1.
Proof.
  intros HL E HS. unfold do_script. rewrite E.
  destruct (load_addr_spec _ _ _ _ _ _ E) as (_ & _ & Hk & _).
  destruct (locked_of_mk _ _ Hk) as [Hl Hw]. rewrite Hl, Hw.
  assert (HG : match k with KP2SH => true | _ => sec end = true).
  { destruct HS as [-> | ->]; [reflexivity | destruct k; reflexivity]. }
  rewrite HG. simpl.
  destruct (watch s); [split; [right|]; reflexivity|].
  destruct HL as [HL|HL]; [|discriminate]. rewrite HL. split; [left|]; reflexivity.
Qed.

Lemma ac_derive F sc acct br idx s :
  locked s = true \/ watch s = true ->
  (load_acct F sc acct s <> None -> lockerr (snd (do_derive F sc acct br idx s))) /\
  snd (do_derive F sc acct br idx s) <> ROk.
Proof.
  intros HL. unfold do_derive. destruct (load_acct F sc acct s) as [[s1 ai]|] eqn:E.
  - destruct (load_acct_spec _ _ _ _ _ _ E) as (_ & _ & Hk & _). rewrite Hk.
    fold (watch s) (locked s).
    destruct (watch s); [split; [intros _; right; reflexivity | discriminate]|].
    destruct HL as [HL|HL]; [|discriminate]. rewrite HL.
    split; [intros _; left; reflexivity | discriminate].
  - split; [intros H; contradiction | discriminate].
Qed.

Lemma ac_derive_cache F sc acct br idx s :
  f_cache_checked F = true -> locked s = true \/ watch s = true ->
  lockerr (snd (do_derive_cache F sc acct br idx s)) /\ fst (do_derive_cache F sc acct br idx s) = s.
Proof.
  intros HF HL. unfold do_derive_cache. rewrite HF. simpl. fold (watch s) (locked s).
  destruct (watch s); [split; [right|]; reflexivity|].
  destruct HL as [HL|HL]; [|discriminate]. rewrite HL. split; [left|]; reflexivity.
Qed.

Lemma ac_crypt kt s :
  locked s = true \/ watch s = true -> kt <> CKPub -> do_crypt kt s = (s, RLocked).
Proof.
  intros HL HK. unfold do_crypt.
  assert (H : locked s || watch s = true) by (destruct HL as [-> | ->]; [reflexivity | apply orb_true_r]).
  destruct kt; try contradiction; rewrite H; reflexivity.
Qed.

Lemma ac_new_account sc s :
  locked s = true \/ watch s = true ->
  lockerr (snd (do_new_account sc s)) /\ fst (do_new_account sc s) = s.
Proof.
  intros HL. unfold do_new_account.
  destruct (watch s); [split; [right|]; reflexivity|].
  destruct HL as [HL|HL]; [|discriminate]. rewrite HL. split; [left|]; reflexivity.
Qed.

Lemma ac_import_priv_locked sc n s :
  locked s = true -> watch s = false -> do_import_priv sc n s = (s, RLocked).
Proof. intros HL HW. unfold do_import_priv. rewrite HL, HW. reflexivity. Qed.

(* on a watching-only manager an import stores the public key only *)
Lemma ac_import_priv_watch sc n s s' :
  watch s = true -> do_import_priv sc n s = (s', ROk) ->
  alookup addr_eqb (sc, KImp n) (m_addrs (sm s')) = Some (OKey true false false) /\
  d_addrs (sd s') = d_addrs (sd s) ++ [((sc, KImp n), AImp false)] /\
  mk (sm s') = mk (sm s) /\ m_accts (sm s') = m_accts (sm s) /\ m_cache (sm s') = m_cache (sm s).
Proof.
  intros HW. unfold do_import_priv. rewrite HW. rewrite andb_false_r.
  destruct (addr_known sc (KImp n) s); [discriminate|]. intros H; inv H. simpl.
  repeat split. apply (alookup_upsert_same addr_eqb addr_eqb_eq).
Qed.

Lemma ac_import_script sc n k secret s :
  locked s = true \/ watch s = true -> k = KP2SH \/ secret = true ->
  lockerr (snd (do_import_script sc n k secret s)) /\ fst (do_import_script sc n k secret s) = s.
Proof.
  intros HL HS. unfold do_import_script.
  assert (HG : match k with KP2SH => true | _ => secret end = true).
  { destruct HS as [-> | ->]; [reflexivity | destruct k; reflexivity]. }
  rewrite HG. simpl.
  destruct (locked s) eqn:EL; [split; [left|]; reflexivity|].
  destruct HL as [HL|HL]; [discriminate|]. rewrite HL. split; [right|]; reflexivity.
Qed.

(* ------------------------------------------------------------------ (iii) Lock clears every buffer *)

Lemma lock_clears F s s' :
  f_lock_purges_cache F = true -> f_lock_wipes_wscripts F = true -> f_lock_wipes_last F = true ->
  do_lock F s = (s', ROk) -> locked s' = true /\ wiped (sm s') = true.
Proof.
  intros H2 H3 H4. unfold do_lock. destruct (watch s); [discriminate|]. destruct (locked s); [discriminate|].
  intros H; inv H. split; [reflexivity|]. apply wiped_iff. apply Wiped_lock_mem; assumption.
Qed.

Lemma locked_reachable_wiped F nsc pub priv s :
  facts_ok F -> priv <> empty_pass -> reachable F nsc pub priv s ->
  locked s = true \/ watch s = true -> wiped (sm s) = true.
Proof.
  intros HF Hp HR HL. destruct (Inv_reachable _ _ _ _ _ HF Hp HR) as (HK & _ & HW).
  apply wiped_iff. apply HW. destruct HL as [HL|HL]; [exact HL|].
  destruct HK as [_ K2 _ _]. apply K2. exact HL.
Qed.

(* ------------------------------------------------------------------ (ii) the current passphrase, and any other *)

Lemma Inv_cur_pass s : Inv s -> watch s = false ->
  exists pw, cur_pass s = Some pw /\ pw <> empty_pass.
Proof.
  intros (HK & _) HW. destruct HK as [_ _ _ K4]. destruct (K4 HW) as (pw & g & _ & B & _ & _ & _ & _ & I & _).
  exists pw. unfold cur_pass. rewrite B. auto.
Qed.

Lemma qok_derivable accts q : qok accts q -> qent_derivable (avmap unlock_ainfo accts) q = true.
Proof.
  intros (k & Hk & ai & HL & HE). unfold qent_derivable. rewrite Hk.
  rewrite alookup_avmap, HL. simpl. exact HE.
Qed.

Lemma unlock_current F s :
  facts_ok F -> Inv s -> watch s = false ->
  exists pw s', cur_pass s = Some pw /\ step F s (OpUnlock pw) = (s', ROk) /\
                locked s' = false /\ watch s' = false /\ sd s' = sd s.
Proof.
  intros (_ & _ & _ & _ & F5 & _) HI HW. pose proof HI as (HK & HQ & _). destruct HK as [_ _ _ K4].
  destruct (K4 HW) as (pw & g & A & B & C & D & E & G & I & J).
  exists pw. simpl. unfold do_unlock. unfold watch in HW. rewrite HW.
  destruct (k_locked (mk (sm s))) eqn:EL; simpl.
  - rewrite A, N.eqb_refl. simpl. rewrite C, N.eqb_refl. simpl. rewrite F5. simpl.
    assert (HD : forallb (qent_derivable (avmap unlock_ainfo (m_accts (sm s)))) (m_queue (sm s)) = true).
    { apply forallb_forall. intros q Hq. apply qok_derivable.
      specialize (HQ HW). rewrite Forall_forall in HQ. auto. }
    rewrite HD. simpl. eexists; split; [unfold cur_pass; rewrite B; reflexivity|].
    split; [reflexivity|]. unfold locked, watch; simpl. auto.
  - rewrite (J eq_refl), !N.eqb_refl. simpl.
    eexists; split; [unfold cur_pass; rewrite B; reflexivity|].
    split; [reflexivity|]. unfold locked, watch; simpl. auto.
Qed.

Lemma unlock_other F s p :
  facts_ok F -> Inv s -> watch s = false -> cur_pass s <> Some p ->
  exists s', step F s (OpUnlock p) = (s', RWrongPass) /\
             locked s' = true /\ wiped (sm s') = true /\ sd s' = sd s.
Proof.
  intros (_ & F2 & F3 & F4 & _) HI HW HP. pose proof HI as (HK & HQ & _). destruct HK as [_ _ _ K4].
  destruct (K4 HW) as (pw & g & A & B & C & D & E & G & I & J).
  assert (HNE : (pw =? p) = false).
  { apply N.eqb_neq. intros ->. apply HP. unfold cur_pass. rewrite B. reflexivity. }
  simpl. unfold do_unlock. unfold watch in HW. rewrite HW.
  destruct (k_locked (mk (sm s))) eqn:EL; simpl.
  - rewrite A, HNE. simpl. eexists; split; [reflexivity|]. split; [reflexivity|]. split; [|reflexivity].
    apply wiped_iff. apply Wiped_lock_mem; assumption.
  - rewrite (J eq_refl), HNE, andb_false_r. eexists; split; [reflexivity|]. split; [reflexivity|]. split; [|reflexivity].
    apply wiped_iff. apply Wiped_lock_mem; assumption.
Qed.

(* ------------------------------------------------------------------ (iv) passphrase changes *)

Definition keeps_priv (o : op) : bool :=
  match o with OpChangePriv _ _ | OpConvert => false | _ => true end.

Ltac dmatch :=
  repeat match goal with
         | |- context [match ?x with _ => _ end] => destruct x eqn:?
         | |- context [if ?x then _ else _] => destruct x eqn:?
         end.

Lemma step_keeps_priv F s o s' r :
  keeps_priv o = true -> step F s o = (s', r) ->
  d_priv (dk (sd s')) = d_priv (dk (sd s)) /\ d_watch (dk (sd s')) = d_watch (dk (sd s)).
Proof.
  intros HKp. destruct o; try discriminate; simpl.
  - unfold do_open. dmatch; intros H; inv H; auto.
  - unfold do_unlock. dmatch; intros H; inv H; auto.
  - unfold do_lock. dmatch; intros H; inv H; auto.
  - unfold do_change_pub. dmatch; intros H; inv H; auto.
  - unfold do_new_account. dmatch; intros H; inv H; auto.
  - unfold do_new_watch_account. intros H; inv H; auto.
  - unfold do_acct_props. destruct (load_acct F sc acct s) as [[s1 ai]|] eqn:E; intros H; inv H; auto.
    destruct (load_acct_spec _ _ _ _ _ _ E) as (-> & _); auto.
  - unfold do_next_addr. destruct (load_acct F sc acct s) as [[s1 ai]|] eqn:E; [|intros H; inv H; auto].
    destruct (load_acct_spec _ _ _ _ _ _ E) as (Hd & _).
    dmatch; intros H; inv H; simpl; rewrite ?Hd; auto.
  - unfold do_import_priv. dmatch; intros H; inv H; auto.
  - unfold do_import_script. dmatch; intros H; inv H; auto.
  - unfold do_load_addr. destruct (load_addr F sc a s) as [[s1 o]|] eqn:E; intros H; inv H; auto.
    destruct (load_addr_spec _ _ _ _ _ _ E) as (-> & _); auto.
  - unfold do_priv_key. destruct (load_addr F sc a s) as [[s1 o]|] eqn:E; [|intros H; inv H; auto].
    destruct (load_addr_spec _ _ _ _ _ _ E) as (Hd & _).
    dmatch; intros H; inv H; simpl; rewrite ?Hd; auto.
  - unfold do_script. destruct (load_addr F sc a s) as [[s1 o]|] eqn:E; [|intros H; inv H; auto].
    destruct (load_addr_spec _ _ _ _ _ _ E) as (Hd & _).
    dmatch; intros H; inv H; simpl; rewrite ?Hd; auto.
  - unfold do_derive. destruct (load_acct F sc acct s) as [[s1 ai]|] eqn:E; [|intros H; inv H; auto].
    destruct (load_acct_spec _ _ _ _ _ _ E) as (Hd & _).
    dmatch; intros H; inv H; simpl; rewrite ?Hd; auto.
  - unfold do_derive_cache. dmatch; intros H; inv H; auto.
  - unfold do_crypt. dmatch; intros H; inv H; auto.
  - unfold do_crypt. dmatch; intros H; inv H; auto.
Qed.

Lemma exec_keeps_priv F ops : forall s,
  forallb keeps_priv ops = true ->
  d_priv (dk (sd (exec F s ops))) = d_priv (dk (sd s)) /\
  d_watch (dk (sd (exec F s ops))) = d_watch (dk (sd s)).
Proof.
  induction ops as [|o ops IH]; intros s H; [split; reflexivity|].
  simpl in H. apply andb_true_iff in H as [H1 H2]. rewrite exec_cons.
  destruct (step F s o) as [s1 r] eqn:E. simpl.
  destruct (step_keeps_priv _ _ _ _ _ H1 E) as [A B].
  destruct (IH s1 H2) as [C D]. split; congruence.
Qed.

Lemma change_priv_ok F old new s s' :
  Inv s -> do_change_priv F old new s = (s', ROk) ->
  cur_pass s = Some old /\ cur_pass s' = Some new /\ locked s' = locked s /\ watch s' = false /\ watch s = false.
Proof.
  intros (HK & _). destruct HK as [_ _ _ K4]. unfold do_change_priv.
  destruct (k_watch (mk (sm s))) eqn:EW; [discriminate|].
  destruct (f_change_rejects_empty F && (new =? empty_pass)); [discriminate|].
  destruct (K4 eq_refl) as (pw & g & A & B & C & D & E & G & I & J).
  rewrite A. destruct (pw =? old) eqn:EP; simpl; [|discriminate].
  apply N.eqb_eq in EP; subst old.
  rewrite C, E, N.eqb_refl. simpl. intros H; inv H.
  unfold cur_pass, locked, watch; simpl. rewrite B. auto.
Qed.

Lemma change_priv_fail F old new s s' r :
  do_change_priv F old new s = (s', r) -> r <> ROk -> s' = s.
Proof.
  unfold do_change_priv. dmatch; intros H; inv H; auto; intros HC; congruence.
Qed.

Lemma change_pub_ok old new s s' :
  Inv s -> do_change_pub old new s = (s', ROk) ->
  cur_pub_pass s = old /\ cur_pub_pass s' = new.
Proof.
  intros (HK & _). destruct HK as [_ _ [K3 _] _]. unfold do_change_pub.
  destruct (k_pub (mk (sm s))) as [pw g0] eqn:EP.
  destruct (pw =? old) eqn:E; simpl; [|discriminate].
  apply N.eqb_eq in E; subst old. intros H; inv H.
  unfold cur_pub_pass; simpl. rewrite <- K3. auto.
Qed.

Lemma open_spec p s :
  Inv s ->
  (p = cur_pub_pass s ->
   exists s', do_open p s = (s', ROk) /\ locked s' = true /\ wiped (sm s') = true /\ sd s' = sd s) /\
  (p <> cur_pub_pass s -> do_open p s = (s, RWrongPass)).
Proof.
  intros (HK & _). destruct HK as [_ _ [_ K3] _]. unfold do_open, cur_pub_pass.
  destruct (d_pub (dk (sd s))) as [pw g0] eqn:EP. simpl in *. split.
  - intros ->. rewrite N.eqb_refl. simpl. rewrite K3, N.eqb_refl. simpl.
    eexists; split; [reflexivity|]. repeat split.
  - intros HN. assert (E : (pw =? p) = false) by (apply N.eqb_neq; congruence).
    rewrite E. reflexivity.
Qed.

(* ------------------------------------------------------------------ statements used by Properties/C05.v *)

(* (i) every private accessor in a locked or watching-only state *)
Definition access_control_statement (F : facts) : Prop :=
  forall s, locked s = true \/ watch s = true ->
  (* private-key export: Address(a) then PrivKey()/ExportPrivKey() *)
  (forall sc a, snd (step F s (OpPrivKey sc a)) <> ROk /\
     (forall s1 imp enc ct, load_addr F sc a s = Some (s1, OKey imp enc ct) ->
        lockerr (snd (step F s (OpPrivKey sc a))) /\ fst (step F s (OpPrivKey sc a)) = s1)) /\
  (* secret-script access *)
  (forall sc a s1 k sec ct, load_addr F sc a s = Some (s1, OScript k sec ct) -> k = KP2SH \/ sec = true ->
     lockerr (snd (step F s (OpScript sc a))) /\ fst (step F s (OpScript sc a)) = s1) /\
  (* derivation by path, both variants *)
  (forall sc acct br idx, snd (step F s (OpDerive sc acct br idx)) <> ROk /\
     (load_acct F sc acct s <> None -> lockerr (snd (step F s (OpDerive sc acct br idx))))) /\
  (forall sc acct br idx, lockerr (snd (step F s (OpDeriveCache sc acct br idx))) /\
     fst (step F s (OpDeriveCache sc acct br idx)) = s) /\
  (* private decryption / encryption *)
  (forall kt, kt <> CKPub -> step F s (OpDecrypt kt) = (s, RLocked) /\ step F s (OpEncrypt kt) = (s, RLocked)) /\
  (* account creation *)
  (forall sc, lockerr (snd (step F s (OpNewAccount sc))) /\ fst (step F s (OpNewAccount sc)) = s) /\
  (* key import: refused while locked; on a watching-only manager only the public key is kept *)
  (forall sc n, (watch s = false -> step F s (OpImportPriv sc n) = (s, RLocked)) /\
     (forall s', watch s = true -> step F s (OpImportPriv sc n) = (s', ROk) ->
        alookup addr_eqb (sc, KImp n) (m_addrs (sm s')) = Some (OKey true false false) /\
        d_addrs (sd s') = d_addrs (sd s) ++ [((sc, KImp n), AImp false)] /\
        mk (sm s') = mk (sm s) /\ m_accts (sm s') = m_accts (sm s) /\ m_cache (sm s') = m_cache (sm s))) /\
  (* secret script import *)
  (forall sc n k secret, k = KP2SH \/ secret = true ->
     lockerr (snd (step F s (OpImportScript sc n k secret))) /\ fst (step F s (OpImportScript sc n k secret)) = s).

Theorem access_control F : f_cache_checked F = true -> access_control_statement F.
Proof.
  intros HF s HL. repeat split.
  - apply ac_priv_key_no_material; exact HL.
  - eapply ac_priv_key; eauto.
  - eapply ac_priv_key; eauto.
  - eapply ac_script; eauto.
  - eapply ac_script; eauto.
  - apply ac_derive; exact HL.
  - apply ac_derive; exact HL.
  - apply ac_derive_cache; assumption.
  - apply ac_derive_cache; assumption.
  - apply ac_crypt; assumption.
  - apply ac_crypt; assumption.
  - apply ac_new_account; exact HL.
  - apply ac_new_account; exact HL.
  - intros HW. destruct HL as [HL|HL]; [|congruence]. apply ac_import_priv_locked; assumption.
  - eapply ac_import_priv_watch; eauto.
  - eapply ac_import_priv_watch; eauto.
  - eapply ac_import_priv_watch; eauto.
  - eapply ac_import_priv_watch; eauto.
  - eapply ac_import_priv_watch; eauto.
  - apply ac_import_script; assumption.
  - apply ac_import_script; assumption.
Qed.

(* (ii) in every reachable state of a manager that is not watching-only *)
Definition passphrase_statement (F : facts) (s : state) : Prop :=
  exists cur, cur_pass s = Some cur /\
    (exists s', step F s (OpUnlock cur) = (s', ROk) /\ locked s' = false /\ sd s' = sd s) /\
    (forall p, p <> cur ->
       exists s', step F s (OpUnlock p) = (s', RWrongPass) /\ locked s' = true /\ wiped (sm s') = true /\ sd s' = sd s).

Lemma passphrase_of_Inv F s : facts_ok F -> Inv s -> watch s = false -> passphrase_statement F s.
Proof.
  intros HF HI HW. destruct (unlock_current F s HF HI HW) as (pw & s' & Hc & Hs & Hl & _ & Hd).
  exists pw. split; [exact Hc|]. split.
  - exists s'; auto.
  - intros p Hp. apply unlock_other; auto. rewrite Hc. congruence.
Qed.

Theorem passphrase_always F nsc pub priv ops :
  facts_ok F -> priv <> empty_pass ->
  let s := exec F (init nsc pub priv) ops in
  watch s = false -> passphrase_statement F s.
Proof.
  intros HF Hp s HW. apply passphrase_of_Inv; auto.
  apply (Inv_reachable F nsc pub priv); auto. exists ops; reflexivity.
Qed.

Lemma watch_is_disk s : Inv s -> watch s = d_watch (dk (sd s)).
Proof. intros (HK & _). destruct HK as [K1 _ _ _]. exact K1. Qed.

(* (iv) private passphrase change: immediately and after any later history
   (restarts included) that contains no further change and no conversion *)
Theorem passphrase_change F nsc pub priv ops old new :
  facts_ok F -> priv <> empty_pass ->
  let s := exec F (init nsc pub priv) ops in
  forall s1 r, step F s (OpChangePriv old new) = (s1, r) ->
  (r = ROk ->
     cur_pass s = Some old /\ locked s1 = locked s /\
     forall ops', forallb keeps_priv ops' = true ->
       let s2 := exec F s1 ops' in
       watch s2 = false /\ cur_pass s2 = Some new /\ passphrase_statement F s2) /\
  (r <> ROk -> s1 = s).
Proof.
  intros HF Hp s s1 r Hs.
  assert (HI : Inv s) by (apply (Inv_reachable F nsc pub priv); auto; exists ops; reflexivity).
  split.
  - intros ->. simpl in Hs. destruct (change_priv_ok _ _ _ _ _ HI Hs) as (A & B & C & D & E).
    split; [exact A|]. split; [exact C|]. intros ops' Hk s2.
    assert (HI1 : Inv s1) by (eapply (Inv_step F s (OpChangePriv old new)); eauto).
    assert (HI2 : Inv s2) by (apply Inv_exec; auto).
    destruct (exec_keeps_priv F ops' s1 Hk) as [P W].
    assert (HW2 : watch s2 = false).
    { rewrite (watch_is_disk _ HI2). unfold s2. rewrite W. rewrite <- (watch_is_disk _ HI1). exact D. }
    split; [exact HW2|]. split.
    + unfold cur_pass, s2. rewrite P. exact B.
    + apply passphrase_of_Inv; auto.
  - intros Hr. simpl in Hs. eapply change_priv_fail; eauto.
Qed.

(* the public passphrase: Open accepts exactly the current one; a change is
   authorised by the current one only and installs the new one *)
Theorem public_passphrase F nsc pub priv ops :
  facts_ok F -> priv <> empty_pass ->
  let s := exec F (init nsc pub priv) ops in
  (forall p, (p = cur_pub_pass s ->
                exists s', step F s (OpOpen p) = (s', ROk) /\ locked s' = true /\ wiped (sm s') = true /\ sd s' = sd s) /\
             (p <> cur_pub_pass s -> step F s (OpOpen p) = (s, RWrongPass))) /\
  (forall old new s', step F s (OpChangePub old new) = (s', ROk) -> cur_pub_pass s = old /\ cur_pub_pass s' = new).
Proof.
  intros HF Hp s.
  assert (HI : Inv s) by (apply (Inv_reachable F nsc pub priv); auto; exists ops; reflexivity).
  split.
  - intros p. apply open_spec; exact HI.
  - intros old new s' H. eapply change_pub_ok; eauto.
Qed.

Theorem locked_holds_no_cleartext F nsc pub priv ops :
  facts_ok F -> priv <> empty_pass ->
  let s := exec F (init nsc pub priv) ops in
  locked s = true \/ watch s = true -> wiped (sm s) = true.
Proof.
  intros HF Hp s HL. apply (locked_reachable_wiped F nsc pub priv); auto. exists ops; reflexivity.
Qed.

Theorem lock_clears_step F s s' :
  f_lock_purges_cache F = true -> f_lock_wipes_wscripts F = true -> f_lock_wipes_last F = true ->
  step F s OpLock = (s', ROk) -> locked s' = true /\ wiped (sm s') = true.
Proof. intros; eapply lock_clears; eauto. Qed.
