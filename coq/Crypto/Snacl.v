(** Model of snacl/snacl.go: the wrapper logic around secretbox / scrypt /
    sha256 (nonce ‖ box layout, length checks, error classes, digest
    comparison, the 88-byte parameter codec).

    Executable model only (no proofs here).  Bytes are [N] (each < 256 for
    data that comes from Go); byte strings have no built-in length, the Go
    array sizes appear where the code relies on them ([copy_into], the
    split positions of [decrypt] and [unmarshal]).

    Three facts about the code are regenerated from the source
    (Generated/SnaclFacts.v) and are parameters of [decrypt_c],
    [derive_key_c], [new_secret_key_c] (section "The wrapper as the source
    reader found it"); the plain [decrypt], [derive_key], [new_secret_key] are
    their instance at the facts of the pinned code.

    The cryptographic primitives are Section variables: nothing is assumed
    about them in this file.  The ideal laws the theorems need are *stated*
    below ([law_...], plain definitions, used as explicit premises) and are
    *proved* for the toy instance at the end of SnaclProofs.v. *)
From Verif Require Import Base.Prelude Generated.SnaclFacts.
Local Open Scope N_scope.

Definition bytes := list N.
Definition wf_bytes (l : bytes) : Prop := Forall (fun b => b < 256) l.

(** Constants of snacl.go. *)
Definition KeySize : nat := 32.
Definition NonceSize : nat := 24.
Definition Overhead : nat := 16.       (* secretbox.Overhead *)
Definition DigestSize : nat := 32.     (* sha256.Size *)
Definition ParamsSize : nat := 88.     (* KeySize + sha256.Size + 24 *)

(** Error values of the package; [ErrKdf] stands for "scrypt.Key did not
    return a key" (its parameter error, or its division-by-zero panic for
    r = 0 / p = 0), [ErrRandom] for a failed read of the random source. *)
Inductive err := ErrInvalidPassword | ErrMalformed | ErrDecryptFailed | ErrKdf | ErrRandom.
Inductive result (A : Type) := Ok (a : A) | Err (e : err).
Arguments Ok {A} a.
Arguments Err {A} e.

(** "fails with an error instead of returning data" (the property's words;
    WHICH error is not part of the property). *)
Definition fails {A : Type} (r : result A) : Prop := exists e, r = Err e.

Fixpoint bytes_eqb (a b : bytes) : bool :=
  match a, b with
  | [], [] => true
  | x :: a', y :: b' => (x =? y) && bytes_eqb a' b'
  | _, _ => false
  end.

(** [copy(dst[:n], src)] into a freshly zeroed region of [n] bytes. *)
Definition copy_into (n : nat) (src : bytes) : bytes :=
  firstn n src ++ repeat 0 (n - length src).

(** How a passphrase enters scrypt: scrypt.Key = PBKDF2-HMAC-SHA256, and
    HMAC turns its key into one 64-byte block - keys longer than the block
    are replaced by their SHA-256, shorter ones are padded with zero bytes.
    Passphrases with the same block are the same passphrase to scrypt (so
    "pw" and "pw\000" derive the same key: finding recorded for C17). *)
Definition HmacBlock : nat := 64.
Definition hmac_key_block (hash : bytes -> bytes) (pw : bytes) : bytes :=
  copy_into HmacBlock (if (HmacBlock <? length pw)%nat then hash pw else pw).

(** binary.LittleEndian.PutUint64 / Uint64 (general in the width). *)
Fixpoint le_bytes (n : nat) (v : N) : bytes :=
  match n with
  | O => []
  | S n' => (v mod 256) :: le_bytes n' (v / 256)
  end.
Definition le_value (l : bytes) : N := fold_right (fun b acc => b + 256 * acc) 0 l.

(** Go conversions [uint64(int)] and [int(uint64)] (two's complement). *)
Definition u64_of_int (z : Z) : N := Z.to_N (z mod 2 ^ 64).
Definition int_of_u64 (u : N) : Z :=
  if u <? 2 ^ 63 then Z.of_N u else (Z.of_N u - 2 ^ 64)%Z.
Definition put_u64 (z : Z) : bytes := le_bytes 8 (u64_of_int z).
Definition get_u64 (l : bytes) : Z := int_of_u64 (le_value l).
Definition int_range (z : Z) : Prop := (- 2 ^ 63 <= z < 2 ^ 63)%Z.

(** Tampering operations the property quantifies over. *)
Fixpoint xor_at (l : bytes) (i : nat) (mask : N) : bytes :=
  match l, i with
  | [], _ => []
  | b :: l', O => N.lxor b mask :: l'
  | b :: l', S i' => b :: xor_at l' i' mask
  end.
Definition flip_bit (l : bytes) (i : nat) (j : N) : bytes := xor_at l i (2 ^ j).

(** Parameters / SecretKey structs. *)
Record params := { salt : bytes; digest : bytes; pN : Z; pR : Z; pP : Z }.
Record secret_key := { sk_key : bytes; sk_params : params }.

Definition zero_bytes (n : nat) : bytes := repeat 0 n.
Definition zero_params : params :=
  {| salt := zero_bytes KeySize; digest := zero_bytes DigestSize; pN := 0; pR := 0; pP := 0 |}.
(** [var sk SecretKey] followed by the [if sk.Key == nil] allocation of
    Unmarshal: an all-zero key. *)
Definition fresh_sk : secret_key := {| sk_key := zero_bytes KeySize; sk_params := zero_params |}.

Definition params_in_range (p : params) : Prop :=
  length (salt p) = KeySize /\ length (digest p) = DigestSize /\
  int_range (pN p) /\ int_range (pR p) /\ int_range (pP p).

(** waddrmgr's three crypto keys and the error codes of its wrappers. *)
Record mgr_keys := { k_priv : bytes; k_script : bytes; k_pub : bytes }.
Inductive mgr_err := MErrLocked | MErrInvalidKeyType | MErrCrypto (e : err).
Inductive mgr_result := MOk (m : bytes) | MErr (e : mgr_err).

Section Wrapper.
  (** secretbox.Seal / Open: key, nonce, message / box. *)
  Variable seal : bytes -> bytes -> bytes -> bytes.
  Variable open : bytes -> bytes -> bytes -> option bytes.
  (** scrypt.Key(password, salt, N, r, p, 32); [None] = no key returned. *)
  Variable kdf : bytes -> bytes -> Z -> Z -> Z -> option bytes.
  (** sha256.Sum256 *)
  Variable hash : bytes -> bytes.

  (** CryptoKey.Encrypt; the nonce is what io.ReadFull(prng) delivered. *)
  Definition encrypt_with (k nonce m : bytes) : bytes := nonce ++ seal k nonce m.
  Definition encrypt (k : bytes) (rnd : option bytes) (m : bytes) : result bytes :=
    match rnd with
    | None => Err ErrRandom
    | Some nonce => Ok (encrypt_with k nonce m)
    end.

  (** CryptoKey.Decrypt *)
  Definition decrypt (k c : bytes) : result bytes :=
    if (length c <? NonceSize)%nat then Err ErrMalformed
    else
      let nonce := firstn NonceSize c in
      let blob := skipn NonceSize c in
      match open k nonce blob with
      | None => Err ErrDecryptFailed
      | Some m => Ok m
      end.

  (** CryptoKey.Zero / SecretKey.Zero *)
  Definition zero_key (k : bytes) : bytes := map (fun _ => 0) k.
  Definition sk_zero (sk : secret_key) : secret_key :=
    {| sk_key := zero_key (sk_key sk); sk_params := sk_params sk |}.

  (** SecretKey.deriveKey: on a kdf failure the key field is untouched. *)
  Definition derive_key_raw (sk : secret_key) (pw : bytes) : secret_key * option err :=
    let p := sk_params sk in
    match kdf pw (salt p) (pN p) (pR p) (pP p) with
    | None => (sk, Some ErrKdf)
    | Some k => ({| sk_key := k; sk_params := p |}, None)
    end.

  (** SecretKey.DeriveKey: the key field is overwritten *before* the digest
      is compared (as in the code), the comparison covers the whole digest
      (subtle.ConstantTimeCompare is 1 iff same length and same content). *)
  Definition derive_key (sk : secret_key) (pw : bytes) : secret_key * option err :=
    match derive_key_raw sk pw with
    | (sk', Some e) => (sk', Some e)
    | (sk', None) =>
      if bytes_eqb (hash (sk_key sk')) (digest (sk_params sk')) then (sk', None)
      else (sk', Some ErrInvalidPassword)
    end.

  (** NewSecretKey; [rnd] is the salt delivered by the random source. *)
  Definition new_secret_key (pw : bytes) (rnd : option bytes) (n r p : Z) : result secret_key :=
    match rnd with
    | None => Err ErrRandom
    | Some s =>
      let sk0 := {| sk_key := zero_bytes KeySize;
                    sk_params := {| salt := s; digest := zero_bytes DigestSize;
                                    pN := n; pR := r; pP := p |} |} in
      match derive_key_raw sk0 pw with
      | (_, Some e) => Err e
      | (sk1, None) =>
        Ok {| sk_key := sk_key sk1;
              sk_params := {| salt := s; digest := hash (sk_key sk1);
                              pN := n; pR := r; pP := p |} |}
      end
    end.

  (** SecretKey.Encrypt / Decrypt *)
  Definition sk_encrypt (sk : secret_key) := encrypt (sk_key sk).
  Definition sk_decrypt (sk : secret_key) := decrypt (sk_key sk).

  (** waddrmgr/manager.go: selectCryptoKey, Manager.Encrypt / Decrypt
      (key types 0 = CKTPrivate, 1 = CKTScript, 2 = CKTPublic; [locked]
      stands for [m.IsLocked() || m.WatchOnly()]). *)
  Definition select_crypto_key (locked : bool) (kt : N) (ks : mgr_keys) : mgr_err + bytes :=
    if ((kt =? 0) || (kt =? 1)) && locked then inl MErrLocked
    else if kt =? 0 then inr (k_priv ks)
    else if kt =? 1 then inr (k_script ks)
    else if kt =? 2 then inr (k_pub ks)
    else inl MErrInvalidKeyType.
  Definition mgr_encrypt (locked : bool) (kt : N) (ks : mgr_keys) (rnd : option bytes) (m : bytes)
    : mgr_result :=
    match select_crypto_key locked kt ks with
    | inl e => MErr e
    | inr k => match encrypt k rnd m with Ok c => MOk c | Err e => MErr (MErrCrypto e) end
    end.
  Definition mgr_decrypt (locked : bool) (kt : N) (ks : mgr_keys) (c : bytes) : mgr_result :=
    match select_crypto_key locked kt ks with
    | inl e => MErr e
    | inr k => match decrypt k c with Ok m => MOk m | Err e => MErr (MErrCrypto e) end
    end.
End Wrapper.

(** * The wrapper as the source reader found it

    Three facts about snacl.go are regenerated from the source into
    Generated/SnaclFacts.v (lib/extract_c17.py: go/ast reader, behavioural
    probe when a shape is not recognised) and are parameters of the
    definitions below; the definitions above are their instance at
    [facts_ideal].  Every theorem of Properties/C17.v about Decrypt or
    DeriveKey is stated on these definitions at the regenerated facts
    ([snacl_facts], end of this file) and needs the fact to hold, so a
    source change that falsifies one breaks the theorem (and not only the run):

    - [cf_pw_unchanged]: deriveKey hands the passphrase bytes to scrypt.Key
      unchanged (in NewSecretKey and in DeriveKey).  When false the code
      applies SOME function first; it is the parameter [pre] (nothing is known
      about it: trimming, case folding, truncation ...).
    - [cf_digest_cmp]: [None] = DeriveKey compares the whole digest
      (subtle.ConstantTimeCompare(digest[:], sk.Parameters.Digest[:])),
      [Some n] = only the first n bytes of both.
    - [cf_open_checked]: Decrypt returns ErrDecryptFailed when secretbox.Open
      reports failure.  When false the failure is ignored and Decrypt returns
      what Open left (nil: the empty byte string) with a nil error. *)
Record code_facts := {
  cf_pw_unchanged : bool;
  cf_digest_cmp : option nat;
  cf_open_checked : bool }.
Definition facts_ideal : code_facts :=
  {| cf_pw_unchanged := true; cf_digest_cmp := None; cf_open_checked := true |}.

Section AsRead.
  Variable cf : code_facts.
  Variable pre : bytes -> bytes.
  Variable open : bytes -> bytes -> bytes -> option bytes.
  Variable kdf : bytes -> bytes -> Z -> Z -> Z -> option bytes.
  Variable hash : bytes -> bytes.

  (** what deriveKey hands to the kdf *)
  Definition kdf_input (pw : bytes) : bytes := if cf_pw_unchanged cf then pw else pre pw.
  (** the comparison of DeriveKey *)
  Definition digest_matches (a b : bytes) : bool :=
    match cf_digest_cmp cf with
    | None => bytes_eqb a b
    | Some n => bytes_eqb (firstn n a) (firstn n b)
    end.

  Definition decrypt_c (k c : bytes) : result bytes :=
    if (length c <? NonceSize)%nat then Err ErrMalformed
    else
      match open k (firstn NonceSize c) (skipn NonceSize c) with
      | Some m => Ok m
      | None => if cf_open_checked cf then Err ErrDecryptFailed else Ok []
      end.

  Definition derive_key_c (sk : secret_key) (pw : bytes) : secret_key * option err :=
    match derive_key_raw kdf sk (kdf_input pw) with
    | (sk', Some e) => (sk', Some e)
    | (sk', None) =>
      if digest_matches (hash (sk_key sk')) (digest (sk_params sk')) then (sk', None)
      else (sk', Some ErrInvalidPassword)
    end.

  Definition new_secret_key_c (pw : bytes) (rnd : option bytes) (n r p : Z) : result secret_key :=
    new_secret_key kdf hash (kdf_input pw) rnd n r p.

  Definition mgr_decrypt_c (locked : bool) (kt : N) (ks : mgr_keys) (c : bytes) : mgr_result :=
    match select_crypto_key locked kt ks with
    | inl e => MErr e
    | inr k => match decrypt_c k c with Ok m => MOk m | Err e => MErr (MErrCrypto e) end
    end.

  (** ** waddrmgr: where a passphrase is checked (waddrmgr/manager.go)

      [OpOpen]            loadManager: masterKeyPub.DeriveKey; EVERY error is
                          reported as ErrWrongPassphrase;
      [OpUnlock]          Manager.Unlock on a locked manager:
                          masterKeyPriv.DeriveKey; ErrInvalidPassword ->
                          ErrWrongPassphrase, anything else -> ErrCrypto;
      [OpUnlockUnlocked]  Manager.Unlock on an unlocked manager: the salted
                          hash (SHA-512 there; [hash] here) of the presented
                          passphrase against the one recorded at unlock time;
      [OpChangePub/Priv]  ChangePassphrase: DeriveKey on a copy of the public /
                          private parameters, errors as in Unlock.
      [mp_salt] is privPassphraseSalt, [mp_priv_pw] the passphrase the
      manager was unlocked with. *)
  Inductive mgr_pw_op := OpOpen | OpUnlock | OpUnlockUnlocked | OpChangePub | OpChangePriv.
  Inductive mgr_pw_result := PwAccepted | PwWrong | PwCrypto.
  Record mgr_pw_state := { mp_pub : secret_key; mp_priv : secret_key; mp_salt : bytes; mp_priv_pw : bytes }.

  Definition mgr_pw_of_derive (all_wrong : bool) (r : secret_key * option err) : mgr_pw_result :=
    match snd r with
    | None => PwAccepted
    | Some ErrInvalidPassword => PwWrong
    | Some _ => if all_wrong then PwWrong else PwCrypto
    end.
  Definition mgr_pw_check (op : mgr_pw_op) (st : mgr_pw_state) (pw : bytes) : mgr_pw_result :=
    match op with
    | OpOpen => mgr_pw_of_derive true (derive_key_c (mp_pub st) pw)
    | OpUnlock | OpChangePriv => mgr_pw_of_derive false (derive_key_c (mp_priv st) pw)
    | OpChangePub => mgr_pw_of_derive false (derive_key_c (mp_pub st) pw)
    | OpUnlockUnlocked =>
      if bytes_eqb (hash (mp_salt st ++ pw)) (hash (mp_salt st ++ mp_priv_pw st)) then PwAccepted else PwWrong
    end.
End AsRead.

(** SecretKey.Marshal: <salt 32><digest 32><N 8 LE><R 8 LE><P 8 LE>. *)
Definition marshal_params (p : params) : bytes :=
  copy_into KeySize (salt p) ++ copy_into DigestSize (digest p)
  ++ put_u64 (pN p) ++ put_u64 (pR p) ++ put_u64 (pP p).
Definition marshal (sk : secret_key) : bytes := marshal_params (sk_params sk).

(** SecretKey.Unmarshal: exact length, then fixed offsets; the key field of
    the receiver is kept. *)
Definition unmarshal_params (d : bytes) : result params :=
  if negb (length d =? ParamsSize)%nat then Err ErrMalformed
  else
    let s := firstn KeySize d in
    let d1 := skipn KeySize d in
    let dg := firstn DigestSize d1 in
    let d2 := skipn DigestSize d1 in
    let n := get_u64 (firstn 8 d2) in
    let d3 := skipn 8 d2 in
    let r := get_u64 (firstn 8 d3) in
    let d4 := skipn 8 d3 in
    let p := get_u64 (firstn 8 d4) in
    Ok {| salt := s; digest := dg; pN := n; pR := r; pP := p |}.
Definition unmarshal (sk : secret_key) (d : bytes) : result secret_key :=
  match unmarshal_params d with
  | Err e => Err e
  | Ok p => Ok {| sk_key := sk_key sk; sk_params := p |}
  end.

(** * The ideal laws of the primitives (premises of the theorems)

    [law_open_seal] and [law_open_only_sealed] are exact properties of
    XSalsa20-Poly1305 as a function (Open recomputes the authenticator of
    what it is given).  The remaining laws are idealisations: they hold for
    the real primitives only computationally (collisions exist by counting
    but cannot be found); the theorems are "for every primitive satisfying
    these laws". *)
Definition law_open_seal (seal : bytes -> bytes -> bytes -> bytes)
    (open : bytes -> bytes -> bytes -> option bytes) : Prop :=
  forall k n m, open k n (seal k n m) = Some m.
(** authenticity: Open succeeds only on exactly what Seal produces, for that
    key, that nonce and the returned message. *)
Definition law_open_only_sealed (seal : bytes -> bytes -> bytes -> bytes)
    (open : bytes -> bytes -> bytes -> option bytes) : Prop :=
  forall k n c m, open k n c = Some m -> c = seal k n m.
(** a sealed box commits to its key and nonce. *)
Definition law_seal_binds (seal : bytes -> bytes -> bytes -> bytes) : Prop :=
  forall k n m k' n' m', seal k n m = seal k' n' m' -> k = k' /\ n = n'.
(** under one key and nonce no sealed box is a one-byte modification ... *)
Definition law_seal_no_near (seal : bytes -> bytes -> bytes -> bytes) : Prop :=
  forall k n m m' i mask, (i < length (seal k n m))%nat -> mask <> 0 ->
    seal k n m' <> xor_at (seal k n m) i mask.
(** ... nor a strict prefix of another one. *)
Definition law_seal_no_prefix (seal : bytes -> bytes -> bytes -> bytes) : Prop :=
  forall k n m m' t, (t < length (seal k n m))%nat ->
    seal k n m' <> firstn t (seal k n m).
(** the kdf is collision-free over everything it is given - the passphrase
    counted as its HMAC key block ... *)
Definition law_kdf_inj (kdf : bytes -> bytes -> Z -> Z -> Z -> option bytes)
    (hash : bytes -> bytes) : Prop :=
  forall pw s n r p pw' s' n' r' p' k,
    kdf pw s n r p = Some k -> kdf pw' s' n' r' p' = Some k ->
    hmac_key_block hash pw = hmac_key_block hash pw' /\ s = s' /\ n = n' /\ r = r' /\ p = p'.
(** ... through which alone the passphrase enters (exact for PBKDF2-HMAC) ... *)
Definition law_kdf_hmac (kdf : bytes -> bytes -> Z -> Z -> Z -> option bytes)
    (hash : bytes -> bytes) : Prop :=
  forall pw pw' s n r p,
    hmac_key_block hash pw = hmac_key_block hash pw' -> kdf pw s n r p = kdf pw' s n r p.
(** ... and whether it returns a key depends on (N, r, p) only (exact for
    scrypt.Key). *)
Definition law_kdf_domain (kdf : bytes -> bytes -> Z -> Z -> Z -> option bytes) : Prop :=
  forall pw s pw' s' n r p, kdf pw s n r p = None -> kdf pw' s' n r p = None.
Definition law_hash_inj (hash : bytes -> bytes) : Prop :=
  forall a b, hash a = hash b -> a = b.

(** * A toy instance (for the correspondence run and for non-vacuity)

    The toy box spells out key, nonce and message (the message twice), so
    every ideal law above holds for it literally; it is at least as long as
    a real box (16 + |m|), so every tampering position of a real ciphertext
    exists in the toy one.  The toy kdf spells out all of its inputs (the passphrase
    as its HMAC key block); the toy hash is the identity. *)
Definition lp (l : bytes) : bytes := N.of_nat (length l) :: l.
Definition toy_seal (k n m : bytes) : bytes := lp k ++ lp n ++ lp m ++ m.
Definition toy_extract (k n c : bytes) : bytes :=
  match skipn (length k + length n + 2) c with
  | l :: body => firstn (N.to_nat l) body
  | [] => []
  end.
Definition toy_open (k n c : bytes) : option bytes :=
  let m := toy_extract k n c in
  if bytes_eqb c (toy_seal k n m) then Some m else None.

(** Parameter validation of golang.org/x/crypto/scrypt.Key (v0.22.0, outside
    /repo), evaluated left to right as Go does: 0 = accepted, 1 = returns an
    error, 2 = integer division by zero (run-time panic; reachable with
    p = 0 or r = 0, snacl does not validate stored parameters). *)
Definition maxInt : Z := (2 ^ 63 - 1)%Z.
Definition scrypt_class (n r p : Z) : N :=
  if ((n <=? 1) || negb (Z.land n (n - 1) =? 0))%Z then 1
  else if (((r mod 2 ^ 64) * (p mod 2 ^ 64)) mod 2 ^ 64 >=? 2 ^ 30)%Z then 1
  else if (p =? 0)%Z then 2
  else if (r >? Z.quot (Z.quot maxInt 128) p)%Z then 1
  else if (r >? Z.quot maxInt 256)%Z then 1
  else if (r =? 0)%Z then 2
  else if (n >? Z.quot (Z.quot maxInt 128) r)%Z then 1
  else 0.

Definition encZ (z : Z) : bytes := [Z.abs_N z; if (z <? 0)%Z then 1 else 0].
Definition toy_kdf_long (blk s : bytes) (n r p : Z) : bytes :=
  repeat 0 33 ++ lp blk ++ lp s ++ encZ n ++ encZ r ++ encZ p.
(** One input class is mapped to 32-byte keys (the salt itself), so that a
    toy key with a 32-byte digest exists (the 88-byte layout applies). *)
Definition toy_kdf_short (blk s : bytes) (n r p : Z) : bool :=
  bytes_eqb blk (repeat 0 HmacBlock)
  && (n =? 2)%Z && (r =? 1)%Z && (p =? 1)%Z && (length s =? 32)%nat.
(** The passphrase enters through its HMAC key block under [h] only. *)
Definition toy_kdf (h : bytes -> bytes) (pw s : bytes) (n r p : Z) : option bytes :=
  let blk := hmac_key_block h pw in
  if scrypt_class n r p =? 0 then
    if toy_kdf_short blk s n r p then Some s else Some (toy_kdf_long blk s n r p)
  else None.
Definition toy_hash (k : bytes) : bytes := k.

Definition t_encrypt_with := encrypt_with toy_seal.
Definition t_decrypt := decrypt toy_open.
Definition t_new_secret_key := new_secret_key (toy_kdf toy_hash) toy_hash.
Definition t_derive_key := derive_key (toy_kdf toy_hash) toy_hash.
Definition t_mgr_decrypt := mgr_decrypt toy_open.

(** * The facts regenerated from snacl/snacl.go (Generated/SnaclFacts.v) *)
Definition snacl_facts : code_facts :=
  {| cf_pw_unchanged := derive_passes_password_unchanged;
     cf_digest_cmp := digest_compared_prefix;
     cf_open_checked := decrypt_checks_open |}.
