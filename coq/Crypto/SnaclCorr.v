(** Executable comparison used by the correspondence check of C17.

    The model is evaluated with the toy primitives of Crypto/Snacl.v, on the
    definitions parameterised by the facts regenerated from snacl.go
    ([snacl_facts]: decrypt_c, derive_key_c, new_secret_key_c, mgr_pw_check).

    Projection (review (e)): the property says "fails with an error instead
    of returning data", and no theorem of Properties/C17.v depends on WHICH
    error; so every error of Decrypt / Manager.Decrypt is one class
    (ErrMalformed, ErrDecryptFailed and anything else fold into 1), "scrypt
    returned an error" and "scrypt panicked" are one class (no key returned),
    and an Unmarshal error is one class.  Kept apart because theorems say so:
    ok / ok-with-other-data / error, ErrLocked, ErrInvalidKeyType,
    ErrInvalidPassword vs no-key-derived.  The key bytes left behind by a
    FAILED DeriveKey are not compared either.

    What is compared with the real snacl / waddrmgr run:
    - the parameter codec byte for byte (Marshal layout, Unmarshal result,
      accept / reject by length);
    - ciphertext length (24 + 16 + |plaintext|) and, for EVERY single-bit flip
      and EVERY truncation length of the real ciphertext, the outcome class of
      Decrypt (ok / malformed / decrypt-failed) at the same position of the
      model's ciphertext (the toy box is at least as long as the real one);
    - DeriveKey outcome classes for the creating passphrase, near-miss
      passphrases and every single-bit flip of the 88 marshalled bytes;
    - waddrmgr's passphrase checks (Open, Unlock locked / unlocked,
      ChangePassphrase public / private): accepted / wrong passphrase / other
      for the right passphrase and every near miss.
    Ciphertext, key and digest bytes themselves are not compared.  The
    model's hash is not SHA-256: for a passphrase longer than the HMAC block
    lib/c17.py renders the near miss "SHA-256 of the passphrase" as
    [corr_hash] of it (the model's key block of that passphrase). *)
From Verif Require Import Base.Prelude Crypto.Snacl.
Local Open Scope N_scope.

(** Outcome classes (shared with harness/cmd/c17):
    0 ok, 1 malformed, 2 decrypt-failed, 3 other error, 6 locked,
    7 ok but different data, 8 invalid key type. *)
Definition cls_decrypt (pt : bytes) (r : result bytes) : N :=
  match r with
  | Ok m => if bytes_eqb m pt then 0 else 7
  | Err _ => 1
  end.
Definition cls_mgr (pt : bytes) (r : mgr_result) : N :=
  match r with
  | MOk m => if bytes_eqb m pt then 0 else 7
  | MErr MErrLocked => 6
  | MErr MErrInvalidKeyType => 8
  | MErr (MErrCrypto _) => 1
  end.
(** the harness reports 1 malformed, 2 decrypt-failed, 3 other error: one class *)
Definition fold_err (c : N) : N := if (c =? 2) || (c =? 3) then 1 else c.

(** DeriveKey classes: 0 accepted, 1 invalid password, 2 scrypt returned an
    error, 3 scrypt panicked (division by zero), 4 not run by the harness
    (parameters too large to try), 5 Unmarshal failed. *)
Definition cls_derive (r : secret_key * option err) : N :=
  match snd r with
  | None => 0
  | Some ErrInvalidPassword => 1
  | Some ErrKdf => 2
  | Some _ => 9
  end.
(** the harness reports 2 scrypt error, 3 scrypt panic: one class (no key) *)
Definition fold_dk (c : N) : N := if c =? 3 then 2 else c.

(** run-length encoding of a class sequence *)
Fixpoint rle (l : list N) : list (N * N) :=
  match l with
  | [] => []
  | x :: l' =>
    match rle l' with
    | (y, c) :: r => if x =? y then (y, c + 1) :: r else (x, 1) :: (y, c) :: r
    | [] => [(x, 1)]
    end
  end.

Fixpoint listN_eqb (a b : list N) : bool :=
  match a, b with
  | [], [] => true
  | x :: a', y :: b' => (x =? y) && listN_eqb a' b'
  | _, _ => false
  end.
Fixpoint rle_eqb (a b : list (N * N)) : bool :=
  match a, b with
  | [], [] => true
  | (x, c) :: a', (y, d) :: b' => (x =? y) && (c =? d) && rle_eqb a' b'
  | _, _ => false
  end.

Definition bits : list N := [0; 1; 2; 3; 4; 5; 6; 7].

(** A 32-byte checksum used as the hash of the correspondence instance (the
    88-byte layout needs a 32-byte digest): four evaluations of a polynomial
    over the key modulo the prime 257, each written as two bytes, padded with
    fixed bytes.  The coefficients are the bytes + 1 (1 .. 256, distinct
    modulo 257 - modulo a prime below 256 the bytes 0 and 251 would coincide
    and "passphrase ending in 0xfb" / "that byte dropped" (zero padding) would
    get one digest); a change of any single byte of the key changes every
    evaluation. *)
Fixpoint poly_eval (x : N) (l : bytes) : N :=
  match l with
  | [] => 1
  | b :: l' => ((b + 1) + x * poly_eval x l') mod 257
  end.
Definition corr_hash (k : bytes) : bytes :=
  flat_map (fun x => let v := poly_eval x (N.of_nat (length k) :: k) in [N.land v 255; N.shiftr v 8]) [2; 3; 5; 7]
  ++ map N.of_nat (seq 8 24).
(** The model at the regenerated facts.  [corr_pre]: when the source reader
    says the passphrase is NOT handed to the kdf unchanged the function applied
    is unknown; the identity stands in (the run then disagrees with the code
    on the passphrases the unknown function identifies, which is reported). *)
Definition corr_pre (pw : bytes) : bytes := pw.
Definition c_new_secret_key := new_secret_key_c snacl_facts corr_pre (toy_kdf corr_hash) corr_hash.
Definition c_derive_key := derive_key_c snacl_facts corr_pre (toy_kdf corr_hash) corr_hash.
Definition c_decrypt := decrypt_c snacl_facts toy_open.
Definition c_mgr_decrypt := mgr_decrypt_c snacl_facts toy_open.
Definition c_mgr_pw_check := mgr_pw_check snacl_facts corr_pre (toy_kdf corr_hash) corr_hash.

Fixpoint unrle (l : list (N * N)) : list N :=
  match l with
  | [] => []
  | (x, c) :: l' => repeat x (N.to_nat c) ++ unrle l'
  end.
(** observed classes (run-length encoded) against the model's, errors folded *)
Definition classes_agree (model : list N) (obs : list (N * N)) : bool :=
  listN_eqb model (map fold_err (unrle obs)).

(** * Cases *)

(** lib/c17.py writes a byte string that shares a prefix of [p] and a suffix
    of [q] bytes with a byte string [b] of the same case (a near-miss
    passphrase, a key with one flipped bit) as [splice b p mid q]. *)
Definition splice (b : bytes) (p : nat) (mid : bytes) (q : nat) : bytes :=
  firstn p b ++ mid ++ skipn (length b - q) b.

Record cipher_case := {
  cc_key : bytes; cc_nonce : bytes; cc_pt : bytes;
  cc_ctlen : nat;                    (* length of the real ciphertext *)
  cc_rt : N;                         (* class of Decrypt(Encrypt(pt)) *)
  cc_flips : list (N * N);           (* rle of classes, byte-major, bit 0..7 *)
  cc_truncs : list (N * N);          (* rle of classes, t = 0 .. ctlen-1 *)
  cc_wrong : list (bytes * N) }.     (* other keys and the observed class *)

Definition flip_classes (dec : bytes -> N) (c : bytes) (n : nat) : list N :=
  flat_map (fun i => map (fun j => dec (flip_bit c i j)) bits) (seq 0 n).
Definition trunc_classes (dec : bytes -> N) (c : bytes) (n : nat) : list N :=
  map (fun t => dec (firstn t c)) (seq 0 n).

Definition cipher_ok (x : cipher_case) : bool :=
  let c := t_encrypt_with (cc_key x) (cc_nonce x) (cc_pt x) in
  let dec := fun d => cls_decrypt (cc_pt x) (c_decrypt (cc_key x) d) in
  (cc_ctlen x =? NonceSize + Overhead + length (cc_pt x))%nat
  && (length (cc_nonce x) =? NonceSize)%nat
  && (cc_ctlen x <=? length c)%nat
  && (dec c =? fold_err (cc_rt x))
  && classes_agree (flip_classes dec c (cc_ctlen x)) (cc_flips x)
  && classes_agree (trunc_classes dec c (cc_ctlen x)) (cc_truncs x)
  && forallb (fun kc => cls_decrypt (cc_pt x) (c_decrypt (fst kc) c) =? fold_err (snd kc)) (cc_wrong x).

Record mgr_case := {
  mc_locked : bool; mc_kt : N; mc_nonce : bytes; mc_pt : bytes;
  mc_ctlen : nat; mc_rt : N;
  mc_flips : list (N * N); mc_truncs : list (N * N);
  mc_cross : list (N * N) }.         (* (other key type, class of decrypting there) *)

(** The manager's keys are not observable; any three distinct keys do. *)
Definition corr_keys : mgr_keys :=
  {| k_priv := repeat 1 32; k_script := repeat 2 32; k_pub := repeat 3 32 |}.
Definition corr_key_of (kt : N) : bytes :=
  if kt =? 0 then k_priv corr_keys else if kt =? 1 then k_script corr_keys else k_pub corr_keys.

Definition mgr_ok (x : mgr_case) : bool :=
  let c := t_encrypt_with (corr_key_of (mc_kt x)) (mc_nonce x) (mc_pt x) in
  let dec := fun d => cls_mgr (mc_pt x) (c_mgr_decrypt (mc_locked x) (mc_kt x) corr_keys d) in
  (mc_ctlen x =? NonceSize + Overhead + length (mc_pt x))%nat
  && (length (mc_nonce x) =? NonceSize)%nat
  && (mc_ctlen x <=? length c)%nat
  && (dec c =? fold_err (mc_rt x))
  && classes_agree (flip_classes dec c (mc_ctlen x)) (mc_flips x)
  && classes_agree (trunc_classes dec c (mc_ctlen x)) (mc_truncs x)
  && forallb (fun oc => cls_mgr (mc_pt x) (c_mgr_decrypt (mc_locked x) (fst oc) corr_keys c) =? fold_err (snd oc))
             (mc_cross x).

Record pass_case := {
  pc_pw : bytes; pc_salt : bytes; pc_digest : bytes; pc_n : Z; pc_r : Z; pc_p : Z;
  pc_marshalled : bytes;             (* the real SecretKey.Marshal() *)
  pc_zero_ok : bool;                 (* after Zero the key bytes are all zero *)
  pc_exact : N;                      (* DeriveKey(creating passphrase) after Zero *)
  pc_restart : N;                    (* same on a fresh SecretKey after Unmarshal *)
  pc_near : list (bytes * N * N);    (* near miss, class after Zero, class after Unmarshal *)
  pc_lens : list (nat * N) }.        (* Unmarshal of the first L bytes of marshalled x3 *)

Definition params_eqb (a b : params) : bool :=
  bytes_eqb (salt a) (salt b) && bytes_eqb (digest a) (digest b)
  && (pN a =? pN b)%Z && (pR a =? pR b)%Z && (pP a =? pP b)%Z.

Definition cls_unmarshal (r : result params) : N :=
  match r with Ok _ => 0 | Err _ => 1 end.

Definition pass_ok (x : pass_case) : bool :=
  let p := {| salt := pc_salt x; digest := pc_digest x; pN := pc_n x; pR := pc_r x; pP := pc_p x |} in
  (* codec, byte for byte, on the real values *)
  bytes_eqb (marshal_params p) (pc_marshalled x)
  && match unmarshal_params (pc_marshalled x) with Ok p' => params_eqb p' p | Err _ => false end
  && forallb (fun lc =>
       cls_unmarshal (unmarshal_params
         (firstn (fst lc) (pc_marshalled x ++ pc_marshalled x ++ pc_marshalled x))) =? fold_err (snd lc))
       (pc_lens x)
  (* passphrase classes on the model's own key *)
  && match c_new_secret_key (pc_pw x) (Some (pc_salt x)) (pc_n x) (pc_r x) (pc_p x) with
     | Err _ => false
     | Ok sk =>
       match unmarshal fresh_sk (marshal sk) with
       | Err _ => false
       | Ok sk0 =>
         Bool.eqb (forallb (fun b => b =? 0) (sk_key (sk_zero sk))) (pc_zero_ok x)
         && (cls_derive (c_derive_key (sk_zero sk) (pc_pw x)) =? fold_dk (pc_exact x))
         && (cls_derive (c_derive_key sk0 (pc_pw x)) =? fold_dk (pc_restart x))
         && forallb (fun nc =>
              let '(pw', c1, c2) := nc in
              (cls_derive (c_derive_key (sk_zero sk) pw') =? fold_dk c1)
              && (cls_derive (c_derive_key sk0 pw') =? fold_dk c2)) (pc_near x)
       end
     end.

Record params_case := {
  qc_pw : bytes; qc_salt : bytes; qc_n : Z; qc_r : Z; qc_p : Z;
  qc_flips : list N }.               (* 704 classes, byte-major, bit 0..7 *)

Definition params_ok (x : params_case) : bool :=
  match c_new_secret_key (qc_pw x) (Some (qc_salt x)) (qc_n x) (qc_r x) (qc_p x) with
  | Err _ => false
  | Ok sk =>
    let mt := marshal sk in
    let model :=
      flat_map (fun i => map (fun j =>
        match unmarshal fresh_sk (flip_bit mt i j) with
        | Err _ => 5
        | Ok sk' => cls_derive (c_derive_key sk' (qc_pw x))
        end) bits) (seq 0 ParamsSize) in
    (length (qc_flips x) =? 8 * ParamsSize)%nat
    && forallb (fun mo => (snd mo =? 4) || (fst mo =? fold_dk (snd mo))) (combine model (qc_flips x))
  end.

(** NewSecretKey with parameters scrypt refuses: an error, no key. *)
Definition create_fail_ok (x : bytes * Z * Z * Z) : bool :=
  let '(pw, n, r, p) := x in
  match c_new_secret_key pw (Some (zero_bytes KeySize)) n r p with
  | Err ErrKdf => true
  | _ => false
  end.

(** waddrmgr's passphrase checks.  Operation: 0 Open, 1 Unlock (locked),
    2 Unlock (unlocked), 3 ChangePassphrase public, 4 ChangePassphrase
    private.  Classes: 0 accepted, 1 wrong passphrase, 3 another error.  The
    manager's master keys are made from the case's passphrases with
    FastScryptOptions (N = 16, r = 8, p = 1) and two fixed salts. *)
Record mgrpass_case := {
  mq_op : N; mq_pub : bytes; mq_priv : bytes;
  mq_right : N;                      (* class with the right passphrase *)
  mq_still : bool;                   (* the right passphrase works after all attempts *)
  mq_near : list (bytes * N) }.      (* presented passphrase, class *)

Definition op_of (n : N) : mgr_pw_op :=
  if n =? 0 then OpOpen else if n =? 1 then OpUnlock else if n =? 2 then OpUnlockUnlocked
  else if n =? 3 then OpChangePub else OpChangePriv.
Definition cls_pw (r : mgr_pw_result) : N :=
  match r with PwAccepted => 0 | PwWrong => 1 | PwCrypto => 3 end.

Definition mgrpass_ok (x : mgrpass_case) : bool :=
  match c_new_secret_key (mq_pub x) (Some (repeat 1 32)) 16 8 1,
        c_new_secret_key (mq_priv x) (Some (repeat 2 32)) 16 8 1 with
  | Ok skpub, Ok skpriv =>
    let st := {| mp_pub := sk_zero skpub; mp_priv := sk_zero skpriv;
                 mp_salt := repeat 3 32; mp_priv_pw := mq_priv x |} in
    let op := op_of (mq_op x) in
    let base := match op with OpOpen | OpChangePub => mq_pub x | _ => mq_priv x end in
    (mq_op x <? 5)
    && (cls_pw (c_mgr_pw_check op st base) =? mq_right x)
    && mq_still x
    && forallb (fun nc => cls_pw (c_mgr_pw_check op st (fst nc)) =? snd nc) (mq_near x)
  | _, _ => false
  end.

Inductive case :=
| CCipher (x : cipher_case)
| CMgr (x : mgr_case)
| CMgrPass (x : mgrpass_case)
| CPass (x : pass_case)
| CParams (x : params_case)
| CCreateFail (x : bytes * Z * Z * Z)
| CUnknown.

Definition case_ok (c : case) : bool :=
  match c with
  | CCipher x => cipher_ok x
  | CMgr x => mgr_ok x
  | CMgrPass x => mgrpass_ok x
  | CPass x => pass_ok x
  | CParams x => params_ok x
  | CCreateFail x => create_fail_ok x
  | CUnknown => false
  end.

Fixpoint mismatches_from {A} (f : A -> bool) (i : nat) (l : list A) : list nat :=
  match l with
  | [] => []
  | c :: l' => if f c then mismatches_from f (S i) l' else i :: mismatches_from f (S i) l'
  end.

Definition mismatches := mismatches_from case_ok 0.
