(** Executable comparison used by the correspondence check of C17.

    The model is evaluated with the toy primitives of Crypto/Snacl.v.  What is
    compared with the real snacl / waddrmgr run:
    - the parameter codec byte for byte (Marshal layout, Unmarshal result,
      accept / reject by length);
    - ciphertext length (24 + 16 + |plaintext|) and, for EVERY single-bit flip
      and EVERY truncation length of the real ciphertext, the outcome class of
      Decrypt (ok / malformed / decrypt-failed) at the same position of the
      model's ciphertext (the toy box is at least as long as the real one);
    - DeriveKey outcome classes for the creating passphrase, near-miss
      passphrases and every single-bit flip of the 88 marshalled bytes.
    Ciphertext, key and digest bytes themselves are not compared. *)
From Verif Require Import Base.Prelude Crypto.Snacl.
Local Open Scope N_scope.

(** Outcome classes (shared with harness/cmd/c17):
    0 ok, 1 malformed, 2 decrypt-failed, 3 other error, 6 locked,
    7 ok but different data, 8 invalid key type. *)
Definition cls_decrypt (pt : bytes) (r : result bytes) : N :=
  match r with
  | Ok m => if bytes_eqb m pt then 0 else 7
  | Err ErrMalformed => 1
  | Err ErrDecryptFailed => 2
  | Err _ => 3
  end.
Definition cls_mgr (pt : bytes) (r : mgr_result) : N :=
  match r with
  | MOk m => if bytes_eqb m pt then 0 else 7
  | MErr MErrLocked => 6
  | MErr MErrInvalidKeyType => 8
  | MErr (MErrCrypto ErrMalformed) => 1
  | MErr (MErrCrypto ErrDecryptFailed) => 2
  | MErr (MErrCrypto _) => 3
  end.

(** DeriveKey classes: 0 accepted, 1 invalid password, 2 scrypt returned an
    error, 3 scrypt panicked (division by zero), 4 not run by the harness
    (parameters too large to try), 5 Unmarshal failed. *)
Definition cls_derive (r : secret_key * option err) : N :=
  match snd r with
  | None => 0
  | Some ErrInvalidPassword => 1
  | Some ErrKdf =>
    let p := sk_params (fst r) in
    if scrypt_class (pN p) (pR p) (pP p) =? 2 then 3 else 2
  | Some _ => 9
  end.

(** run-length encoding of a class sequence *)
Fixpoint rle (l : list N) : list (N * N) :=
  match l with
  | [] => []
  | x :: l' =>
    match rle l' with
    | (y, c) :: r => if x =? y then (y, c + 1) :: r else (x, 1) :: (y, c) :: r
    | [] => [(x, 1)]
    end
  end.

Fixpoint listN_eqb (a b : list N) : bool :=
  match a, b with
  | [], [] => true
  | x :: a', y :: b' => (x =? y) && listN_eqb a' b'
  | _, _ => false
  end.
Fixpoint rle_eqb (a b : list (N * N)) : bool :=
  match a, b with
  | [], [] => true
  | (x, c) :: a', (y, d) :: b' => (x =? y) && (c =? d) && rle_eqb a' b'
  | _, _ => false
  end.

Definition bits : list N := [0; 1; 2; 3; 4; 5; 6; 7].

(** A 32-byte checksum used as the hash of the correspondence instance (the
    88-byte layout needs a 32-byte digest): four evaluations of a polynomial
    over the key modulo the prime 251, padded with fixed bytes; a change of
    any single element of the key changes every evaluation point. *)
Fixpoint poly_eval (x : N) (l : bytes) : N :=
  match l with
  | [] => 1
  | b :: l' => ((b + 1) + x * poly_eval x l') mod 251
  end.
Definition corr_hash (k : bytes) : bytes :=
  map (fun x => poly_eval x (N.of_nat (length k) :: k)) [2; 3; 5; 7]
  ++ map N.of_nat (seq 4 28).
Definition c_new_secret_key := new_secret_key (toy_kdf corr_hash) corr_hash.
Definition c_derive_key := derive_key (toy_kdf corr_hash) corr_hash.

(** * Cases *)

Record cipher_case := {
  cc_key : bytes; cc_nonce : bytes; cc_pt : bytes;
  cc_ctlen : nat;                    (* length of the real ciphertext *)
  cc_rt : N;                         (* class of Decrypt(Encrypt(pt)) *)
  cc_flips : list (N * N);           (* rle of classes, byte-major, bit 0..7 *)
  cc_truncs : list (N * N);          (* rle of classes, t = 0 .. ctlen-1 *)
  cc_wrong : list (bytes * N) }.     (* other keys and the observed class *)

Definition flip_classes (dec : bytes -> N) (c : bytes) (n : nat) : list N :=
  flat_map (fun i => map (fun j => dec (flip_bit c i j)) bits) (seq 0 n).
Definition trunc_classes (dec : bytes -> N) (c : bytes) (n : nat) : list N :=
  map (fun t => dec (firstn t c)) (seq 0 n).

Definition cipher_ok (x : cipher_case) : bool :=
  let c := t_encrypt_with (cc_key x) (cc_nonce x) (cc_pt x) in
  let dec := fun d => cls_decrypt (cc_pt x) (t_decrypt (cc_key x) d) in
  (cc_ctlen x =? NonceSize + Overhead + length (cc_pt x))%nat
  && (length (cc_nonce x) =? NonceSize)%nat
  && (cc_ctlen x <=? length c)%nat
  && (dec c =? cc_rt x)
  && rle_eqb (rle (flip_classes dec c (cc_ctlen x))) (cc_flips x)
  && rle_eqb (rle (trunc_classes dec c (cc_ctlen x))) (cc_truncs x)
  && forallb (fun kc => cls_decrypt (cc_pt x) (t_decrypt (fst kc) c) =? snd kc) (cc_wrong x).

Record mgr_case := {
  mc_locked : bool; mc_kt : N; mc_nonce : bytes; mc_pt : bytes;
  mc_ctlen : nat; mc_rt : N;
  mc_flips : list (N * N); mc_truncs : list (N * N);
  mc_cross : list (N * N) }.         (* (other key type, class of decrypting there) *)

(** The manager's keys are not observable; any three distinct keys do. *)
Definition corr_keys : mgr_keys :=
  {| k_priv := repeat 1 32; k_script := repeat 2 32; k_pub := repeat 3 32 |}.
Definition corr_key_of (kt : N) : bytes :=
  if kt =? 0 then k_priv corr_keys else if kt =? 1 then k_script corr_keys else k_pub corr_keys.

Definition mgr_ok (x : mgr_case) : bool :=
  let c := t_encrypt_with (corr_key_of (mc_kt x)) (mc_nonce x) (mc_pt x) in
  let dec := fun d => cls_mgr (mc_pt x) (t_mgr_decrypt (mc_locked x) (mc_kt x) corr_keys d) in
  (mc_ctlen x =? NonceSize + Overhead + length (mc_pt x))%nat
  && (length (mc_nonce x) =? NonceSize)%nat
  && (mc_ctlen x <=? length c)%nat
  && (dec c =? mc_rt x)
  && rle_eqb (rle (flip_classes dec c (mc_ctlen x))) (mc_flips x)
  && rle_eqb (rle (trunc_classes dec c (mc_ctlen x))) (mc_truncs x)
  && forallb (fun oc => cls_mgr (mc_pt x) (t_mgr_decrypt (mc_locked x) (fst oc) corr_keys c) =? snd oc)
             (mc_cross x).

Record pass_case := {
  pc_pw : bytes; pc_salt : bytes; pc_digest : bytes; pc_n : Z; pc_r : Z; pc_p : Z;
  pc_marshalled : bytes;             (* the real SecretKey.Marshal() *)
  pc_zero_ok : bool;                 (* after Zero the key bytes are all zero *)
  pc_exact : N;                      (* DeriveKey(creating passphrase) after Zero *)
  pc_restart : N;                    (* same on a fresh SecretKey after Unmarshal *)
  pc_near : list (bytes * N * N);    (* near miss, class after Zero, class after Unmarshal *)
  pc_lens : list (nat * N) }.        (* Unmarshal of the first L bytes of marshalled x3 *)

Definition params_eqb (a b : params) : bool :=
  bytes_eqb (salt a) (salt b) && bytes_eqb (digest a) (digest b)
  && (pN a =? pN b)%Z && (pR a =? pR b)%Z && (pP a =? pP b)%Z.

Definition cls_unmarshal (r : result params) : N :=
  match r with Ok _ => 0 | Err ErrMalformed => 1 | Err _ => 3 end.

Definition pass_ok (x : pass_case) : bool :=
  let p := {| salt := pc_salt x; digest := pc_digest x; pN := pc_n x; pR := pc_r x; pP := pc_p x |} in
  (* codec, byte for byte, on the real values *)
  bytes_eqb (marshal_params p) (pc_marshalled x)
  && match unmarshal_params (pc_marshalled x) with Ok p' => params_eqb p' p | Err _ => false end
  && forallb (fun lc =>
       cls_unmarshal (unmarshal_params
         (firstn (fst lc) (pc_marshalled x ++ pc_marshalled x ++ pc_marshalled x))) =? snd lc)
       (pc_lens x)
  (* passphrase classes on the model's own key *)
  && match c_new_secret_key (pc_pw x) (Some (pc_salt x)) (pc_n x) (pc_r x) (pc_p x) with
     | Err _ => false
     | Ok sk =>
       match unmarshal fresh_sk (marshal sk) with
       | Err _ => false
       | Ok sk0 =>
         Bool.eqb (forallb (fun b => b =? 0) (sk_key (sk_zero sk))) (pc_zero_ok x)
         && (cls_derive (c_derive_key (sk_zero sk) (pc_pw x)) =? pc_exact x)
         && (cls_derive (c_derive_key sk0 (pc_pw x)) =? pc_restart x)
         && forallb (fun nc =>
              let '(pw', c1, c2) := nc in
              (cls_derive (c_derive_key (sk_zero sk) pw') =? c1)
              && (cls_derive (c_derive_key sk0 pw') =? c2)) (pc_near x)
       end
     end.

Record params_case := {
  qc_pw : bytes; qc_salt : bytes; qc_n : Z; qc_r : Z; qc_p : Z;
  qc_flips : list N }.               (* 704 classes, byte-major, bit 0..7 *)

Definition params_ok (x : params_case) : bool :=
  match c_new_secret_key (qc_pw x) (Some (qc_salt x)) (qc_n x) (qc_r x) (qc_p x) with
  | Err _ => false
  | Ok sk =>
    let mt := marshal sk in
    let model :=
      flat_map (fun i => map (fun j =>
        match unmarshal fresh_sk (flip_bit mt i j) with
        | Err _ => 5
        | Ok sk' => cls_derive (c_derive_key sk' (qc_pw x))
        end) bits) (seq 0 ParamsSize) in
    (length (qc_flips x) =? 8 * ParamsSize)%nat
    && forallb (fun mo => (snd mo =? 4) || (fst mo =? snd mo)) (combine model (qc_flips x))
  end.

(** NewSecretKey with parameters scrypt refuses: an error, no key. *)
Definition create_fail_ok (x : bytes * Z * Z * Z) : bool :=
  let '(pw, n, r, p) := x in
  match c_new_secret_key pw (Some (zero_bytes KeySize)) n r p with
  | Err ErrKdf => true
  | _ => false
  end.

Inductive case :=
| CCipher (x : cipher_case)
| CMgr (x : mgr_case)
| CPass (x : pass_case)
| CParams (x : params_case)
| CCreateFail (x : bytes * Z * Z * Z)
| CUnknown.

Definition case_ok (c : case) : bool :=
  match c with
  | CCipher x => cipher_ok x
  | CMgr x => mgr_ok x
  | CPass x => pass_ok x
  | CParams x => params_ok x
  | CCreateFail x => create_fail_ok x
  | CUnknown => false
  end.

Fixpoint mismatches_from {A} (f : A -> bool) (i : nat) (l : list A) : list nat :=
  match l with
  | [] => []
  | c :: l' => if f c then mismatches_from f (S i) l' else i :: mismatches_from f (S i) l'
  end.

Definition mismatches := mismatches_from case_ok 0.
