(** Proofs about the snacl model (Crypto/Snacl.v).

    1.  list / tampering helpers;
    2.  the little-endian codec and the 88-byte parameter layout (no
        cryptographic premise);
    3.  Encrypt / Decrypt under the ideal laws of the AEAD (Section
        hypotheses; each closed theorem carries exactly the laws it uses);
    3b. the HMAC key block through which a passphrase enters scrypt;
    4.  passphrase binding under the ideal laws of kdf and hash, the stored
        parameters after a restart and under tampering; waddrmgr's wrappers;
    5.  the toy instance satisfies every law (non-vacuity);
    6.  the wrapper parameterised by the code facts regenerated from snacl.go
        (Generated/SnaclFacts.v): equal to the above when the facts hold, the
        theorems transported in the form Properties/C17.v states, each fact
        shown necessary, waddrmgr's passphrase checks. *)
From Verif Require Import Base.Prelude Crypto.Snacl.
Local Open Scope N_scope.

(** * 1. Helpers *)

Lemma bytes_eqb_refl a : bytes_eqb a a = true.
Proof. induction a as [|x a IH]; simpl; [reflexivity|]. rewrite N.eqb_refl. exact IH. Qed.

Lemma bytes_eqb_eq a b : bytes_eqb a b = true <-> a = b.
Proof.
  split; [|intros ->; apply bytes_eqb_refl].
  revert b; induction a as [|x a IH]; intros [|y b]; simpl; try discriminate; [reflexivity|].
  intros H. apply andb_prop in H as [H1 H2]. apply N.eqb_eq in H1. subst y.
  f_equal. apply IH. exact H2.
Qed.

Lemma bytes_eqb_neq a b : a <> b -> bytes_eqb a b = false.
Proof.
  intros H. destruct (bytes_eqb a b) eqn:E; [|reflexivity].
  apply bytes_eqb_eq in E. contradiction.
Qed.

Lemma app_inj_length {A} (a a' b b' : list A) :
  length a = length a' -> a ++ b = a' ++ b' -> a = a' /\ b = b'.
Proof.
  revert a'; induction a as [|x a IH]; intros [|y a'] HL H; simpl in *; try discriminate.
  - split; [reflexivity|exact H].
  - injection H as -> H. injection HL as HL. destruct (IH a' HL H) as [-> ->]. split; reflexivity.
Qed.

Lemma firstn_app_exact {A} (a b : list A) n : length a = n -> firstn n (a ++ b) = a.
Proof.
  intros <-. rewrite firstn_app, Nat.sub_diag, firstn_all. simpl. apply app_nil_r.
Qed.

Lemma skipn_app_exact {A} (a b : list A) n : length a = n -> skipn n (a ++ b) = b.
Proof.
  intros <-. rewrite skipn_app, Nat.sub_diag, skipn_all. reflexivity.
Qed.

Lemma firstn_app_long {A} (a b : list A) t :
  (length a <= t)%nat -> firstn t (a ++ b) = a ++ firstn (t - length a) b.
Proof. intros H. rewrite firstn_app. rewrite firstn_all2 by exact H. reflexivity. Qed.

Lemma skipn_skipn {A} (x y : nat) (l : list A) : skipn x (skipn y l) = skipn (x + y) l.
Proof.
  revert l; induction y as [|y IH]; intros l.
  - rewrite Nat.add_0_r. reflexivity.
  - rewrite Nat.add_succ_r. destruct l as [|a l]; [destruct x; reflexivity|]. simpl. apply IH.
Qed.

Lemma wf_firstn n l : wf_bytes l -> wf_bytes (firstn n l).
Proof.
  unfold wf_bytes. revert n; induction l as [|x l IH]; intros [|n] H; simpl; try constructor.
  - exact (Forall_inv H).
  - apply IH. exact (Forall_inv_tail H).
Qed.

Lemma wf_skipn n l : wf_bytes l -> wf_bytes (skipn n l).
Proof.
  unfold wf_bytes. revert n; induction l as [|x l IH]; intros [|n] H; simpl; try assumption.
  apply IH. exact (Forall_inv_tail H).
Qed.

Lemma lxor_mask_neq b mask : mask <> 0 -> N.lxor b mask <> b.
Proof.
  intros Hm E. apply Hm.
  assert (H : N.lxor b (N.lxor b mask) = N.lxor b b) by (rewrite E; reflexivity).
  rewrite N.lxor_nilpotent, <- N.lxor_assoc, N.lxor_nilpotent, N.lxor_0_l in H. exact H.
Qed.

Lemma xor_at_length l i mask : length (xor_at l i mask) = length l.
Proof.
  revert i; induction l as [|b l IH]; intros [|i]; simpl; try reflexivity.
  rewrite IH. reflexivity.
Qed.

Lemma xor_at_neq l i mask : (i < length l)%nat -> mask <> 0 -> xor_at l i mask <> l.
Proof.
  revert i; induction l as [|b l IH]; intros [|i] Hi Hm; simpl in *; try lia.
  - intros E. injection E as E. exact (lxor_mask_neq b mask Hm E).
  - intros E. injection E as E. apply (IH i); [lia|exact Hm|exact E].
Qed.

Lemma xor_at_app_l a b i mask :
  (i < length a)%nat -> xor_at (a ++ b) i mask = xor_at a i mask ++ b.
Proof.
  revert i; induction a as [|x a IH]; intros [|i] Hi; simpl in *; try lia; try reflexivity.
  rewrite IH by lia. reflexivity.
Qed.

Lemma xor_at_app_r a b i mask :
  (length a <= i)%nat -> xor_at (a ++ b) i mask = a ++ xor_at b (i - length a) mask.
Proof.
  revert i; induction a as [|x a IH]; intros i Hi; simpl in *.
  - rewrite Nat.sub_0_r. reflexivity.
  - destruct i as [|i]; [lia|]. simpl. rewrite IH by lia. reflexivity.
Qed.

Lemma pow2_nonzero j : 2 ^ j <> 0.
Proof. apply N.pow_nonzero. discriminate. Qed.

(** * 2. The codec *)

Lemma le_bytes_length n v : length (le_bytes n v) = n.
Proof. revert v; induction n as [|n IH]; intros v; simpl; [reflexivity|]. rewrite IH. reflexivity. Qed.

Lemma le_bytes_wf n v : wf_bytes (le_bytes n v).
Proof.
  revert v; induction n as [|n IH]; intros v; simpl; constructor.
  - apply N.mod_lt. discriminate.
  - apply IH.
Qed.

(** Decoding what was encoded in [n] bytes gives the value modulo 256^n
    (for every value, no bound). *)
Lemma le_value_le_bytes n v : le_value (le_bytes n v) = v mod 256 ^ N.of_nat n.
Proof.
  revert v; induction n as [|n IH]; intros v.
  - simpl. rewrite N.mod_1_r. reflexivity.
  - cbn [le_bytes le_value fold_right]. fold (le_value (le_bytes n (v / 256))).
    rewrite IH, Nat2N.inj_succ, N.pow_succ_r'.
    rewrite N.mod_mul_r; [reflexivity|discriminate|].
    apply N.pow_nonzero. discriminate.
Qed.

Lemma le_value_bound l : wf_bytes l -> le_value l < 256 ^ N.of_nat (length l).
Proof.
  unfold wf_bytes. induction 1 as [|b l Hb Hl IH].
  - simpl. lia.
  - cbn [le_value fold_right length]. fold (le_value l).
    rewrite Nat2N.inj_succ, N.pow_succ_r'.
    set (P := 256 ^ N.of_nat (length l)) in *. lia.
Qed.

(** Encoding what was decoded from well-formed bytes gives the bytes back. *)
Lemma le_bytes_le_value l : wf_bytes l -> le_bytes (length l) (le_value l) = l.
Proof.
  unfold wf_bytes. induction 1 as [|b l Hb Hl IH]; [reflexivity|].
  cbn [le_value fold_right length le_bytes]. fold (le_value l).
  replace (b + 256 * le_value l) with (b + le_value l * 256) by lia.
  rewrite N.mod_add by discriminate. rewrite N.mod_small by exact Hb.
  rewrite N.div_add by discriminate. rewrite N.div_small by exact Hb.
  rewrite N.add_0_l, IH. reflexivity.
Qed.

Lemma pow256_8 : 256 ^ N.of_nat 8 = 18446744073709551616.
Proof. reflexivity. Qed.
Lemma two64N : 2 ^ 64 = 18446744073709551616.
Proof. reflexivity. Qed.
Lemma two63N : 2 ^ 63 = 9223372036854775808.
Proof. reflexivity. Qed.
Lemma two64Z : (2 ^ 64 = 18446744073709551616)%Z.
Proof. reflexivity. Qed.
Lemma two63Z : (2 ^ 63 = 9223372036854775808)%Z.
Proof. reflexivity. Qed.

Lemma u64_of_int_bound z : u64_of_int z < 18446744073709551616.
Proof.
  unfold u64_of_int. rewrite two64Z.
  pose proof (Z.mod_pos_bound z 18446744073709551616 eq_refl). lia.
Qed.

Lemma int_of_u64_of_int z : int_range z -> int_of_u64 (u64_of_int z) = z.
Proof.
  unfold int_range, int_of_u64, u64_of_int. rewrite two63Z, two64Z, two63N. intros H.
  destruct (Z.neg_nonneg_cases z) as [Hneg|Hpos].
  - assert (E : (z mod 18446744073709551616 = z + 18446744073709551616)%Z).
    { symmetry. apply Z.mod_unique with (q := (-1)%Z); lia. }
    rewrite E. destruct (N.ltb_spec (Z.to_N (z + 18446744073709551616)) 9223372036854775808); lia.
  - rewrite Z.mod_small by lia.
    destruct (N.ltb_spec (Z.to_N z) 9223372036854775808); lia.
Qed.

Lemma u64_of_int_of_u64 u : u < 18446744073709551616 -> u64_of_int (int_of_u64 u) = u.
Proof.
  unfold int_of_u64, u64_of_int. rewrite two63N, two64Z. intros H.
  destruct (N.ltb_spec u 9223372036854775808).
  - rewrite Z.mod_small by lia. lia.
  - assert (E : ((Z.of_N u - 18446744073709551616) mod 18446744073709551616 = Z.of_N u)%Z).
    { symmetry. apply Z.mod_unique with (q := (-1)%Z); lia. }
    rewrite E. lia.
Qed.

Lemma put_u64_length z : length (put_u64 z) = 8%nat.
Proof. apply le_bytes_length. Qed.

Lemma put_u64_wf z : wf_bytes (put_u64 z).
Proof. apply le_bytes_wf. Qed.

Lemma get_put_u64 z : int_range z -> get_u64 (put_u64 z) = z.
Proof.
  intros H. unfold get_u64, put_u64. rewrite le_value_le_bytes, pow256_8.
  rewrite N.mod_small by apply u64_of_int_bound. apply int_of_u64_of_int. exact H.
Qed.

Lemma put_get_u64 l : wf_bytes l -> length l = 8%nat -> put_u64 (get_u64 l) = l.
Proof.
  intros Hwf HL. unfold get_u64, put_u64.
  pose proof (le_value_bound l Hwf) as Hb. rewrite HL, pow256_8 in Hb.
  rewrite u64_of_int_of_u64 by exact Hb. rewrite <- HL. apply le_bytes_le_value. exact Hwf.
Qed.

Lemma get_u64_range l : wf_bytes l -> length l = 8%nat -> int_range (get_u64 l).
Proof.
  intros Hwf HL. pose proof (le_value_bound l Hwf) as Hb. rewrite HL, pow256_8 in Hb.
  unfold get_u64, int_of_u64, int_range. rewrite two63N, two63Z, two64Z.
  destruct (N.ltb_spec (le_value l) 9223372036854775808); lia.
Qed.

Lemma copy_into_exact n l : length l = n -> copy_into n l = l.
Proof.
  intros <-. unfold copy_into. rewrite firstn_all, Nat.sub_diag. simpl. apply app_nil_r.
Qed.

Lemma copy_into_length n l : length (copy_into n l) = n.
Proof.
  unfold copy_into. rewrite app_length, firstn_length, repeat_length. lia.
Qed.

Lemma marshal_params_length p : length (marshal_params p) = ParamsSize.
Proof.
  unfold marshal_params. rewrite !app_length, !copy_into_length, !put_u64_length. reflexivity.
Qed.

(** Unmarshal on an input cut as 32 + 32 + 8 + 8 + 8. *)
Lemma unmarshal_params_app a dg x y z :
  length a = KeySize -> length dg = DigestSize ->
  length x = 8%nat -> length y = 8%nat -> length z = 8%nat ->
  unmarshal_params (a ++ dg ++ x ++ y ++ z)
  = Ok {| salt := a; digest := dg; pN := get_u64 x; pR := get_u64 y; pP := get_u64 z |}.
Proof.
  intros Ha Hd Hx Hy Hz. unfold unmarshal_params.
  assert (HL : length (a ++ dg ++ x ++ y ++ z) = ParamsSize).
  { rewrite !app_length, Ha, Hd, Hx, Hy, Hz. reflexivity. }
  rewrite HL, Nat.eqb_refl. cbn [negb].
  rewrite (firstn_app_exact a _ KeySize Ha), (skipn_app_exact a _ KeySize Ha).
  rewrite (firstn_app_exact dg _ DigestSize Hd), (skipn_app_exact dg _ DigestSize Hd).
  rewrite (firstn_app_exact x _ 8%nat Hx), (skipn_app_exact x _ 8%nat Hx).
  rewrite (firstn_app_exact y _ 8%nat Hy), (skipn_app_exact y _ 8%nat Hy).
  rewrite <- (app_nil_r z) at 1. rewrite (firstn_app_exact z [] 8%nat Hz).
  reflexivity.
Qed.

(** Every 88-byte input is cut this way. *)
Lemma split_88 (d : bytes) : length d = ParamsSize ->
  exists a dg x y z, d = a ++ dg ++ x ++ y ++ z /\ length a = KeySize /\ length dg = DigestSize /\
    length x = 8%nat /\ length y = 8%nat /\ length z = 8%nat.
Proof.
  intros HL. unfold ParamsSize in HL.
  exists (firstn 32 d), (firstn 32 (skipn 32 d)), (firstn 8 (skipn 64 d)),
         (firstn 8 (skipn 72 d)), (skipn 80 d).
  split.
  - rewrite <- (firstn_skipn 32 d) at 1. f_equal.
    rewrite <- (firstn_skipn 32 (skipn 32 d)) at 1. f_equal.
    rewrite skipn_skipn. change (32 + 32)%nat with 64%nat.
    rewrite <- (firstn_skipn 8 (skipn 64 d)) at 1. f_equal.
    rewrite skipn_skipn. change (8 + 64)%nat with 72%nat.
    rewrite <- (firstn_skipn 8 (skipn 72 d)) at 1. f_equal.
    rewrite skipn_skipn. reflexivity.
  - unfold KeySize, DigestSize. rewrite !firstn_length, !skipn_length. lia.
Qed.

Theorem unmarshal_marshal_params p :
  params_in_range p -> unmarshal_params (marshal_params p) = Ok p.
Proof.
  intros (Hs & Hd & HN & HR & HP). unfold marshal_params.
  rewrite (copy_into_exact _ _ Hs), (copy_into_exact _ _ Hd).
  rewrite unmarshal_params_app; try apply put_u64_length; try assumption.
  rewrite !get_put_u64 by assumption. destruct p; reflexivity.
Qed.

Theorem unmarshal_params_wrong_length d :
  length d <> ParamsSize -> unmarshal_params d = Err ErrMalformed.
Proof.
  intros H. unfold unmarshal_params.
  destruct (Nat.eqb_spec (length d) ParamsSize); [contradiction|reflexivity].
Qed.

Theorem unmarshal_params_right_length d :
  length d = ParamsSize -> exists p, unmarshal_params d = Ok p.
Proof.
  intros H. destruct (split_88 d H) as (a & dg & x & y & z & -> & Ha & Hd & Hx & Hy & Hz).
  rewrite unmarshal_params_app by assumption. eexists; reflexivity.
Qed.

(** Marshal inverts Unmarshal on byte strings: the encoding is canonical,
    two distinct 88-byte inputs never decode to the same parameters. *)
Theorem marshal_unmarshal_params d p :
  wf_bytes d -> unmarshal_params d = Ok p -> marshal_params p = d /\ params_in_range p.
Proof.
  intros Hwf H.
  assert (HL : length d = ParamsSize).
  { destruct (Nat.eq_dec (length d) ParamsSize) as [E|E]; [exact E|].
    rewrite (unmarshal_params_wrong_length d E) in H. discriminate. }
  destruct (split_88 d HL) as (a & dg & x & y & z & -> & Ha & Hd & Hx & Hy & Hz).
  rewrite unmarshal_params_app in H by assumption. injection H as <-.
  unfold wf_bytes in Hwf. rewrite !Forall_app in Hwf.
  destruct Hwf as (Wa & Wd & Wx & Wy & Wz).
  split.
  - unfold marshal_params. cbn [salt digest pN pR pP].
    rewrite (copy_into_exact _ _ Ha), (copy_into_exact _ _ Hd).
    rewrite !put_get_u64 by assumption. reflexivity.
  - unfold params_in_range. cbn [salt digest pN pR pP].
    repeat split; try assumption; apply get_u64_range; assumption.
Qed.

Lemma unmarshal_inv sk d sk' :
  unmarshal sk d = Ok sk' ->
  unmarshal_params d = Ok (sk_params sk') /\ sk_key sk' = sk_key sk.
Proof.
  unfold unmarshal. destruct (unmarshal_params d) as [p|e]; [|discriminate].
  intros H. injection H as <-. split; reflexivity.
Qed.

(** * 3. Encrypt / Decrypt *)

Section Aead.
  Variable seal : bytes -> bytes -> bytes -> bytes.
  Variable open : bytes -> bytes -> bytes -> option bytes.
  Hypothesis open_seal : law_open_seal seal open.
  Hypothesis open_only_sealed : law_open_only_sealed seal open.
  Hypothesis seal_binds : law_seal_binds seal.
  Hypothesis seal_no_near : law_seal_no_near seal.
  Hypothesis seal_no_prefix : law_seal_no_prefix seal.

  Local Notation encrypt_with := (encrypt_with seal).
  Local Notation decrypt := (decrypt open).

  Lemma encrypt_with_length k n m :
    length (encrypt_with k n m) = (length n + length (seal k n m))%nat.
  Proof. unfold Snacl.encrypt_with. apply app_length. Qed.

  Lemma decrypt_app k n box :
    length n = NonceSize ->
    decrypt k (n ++ box) =
    match open k n box with None => Err ErrDecryptFailed | Some m => Ok m end.
  Proof.
    intros Hn. unfold Snacl.decrypt. rewrite app_length, Hn.
    destruct (Nat.ltb_spec (NonceSize + length box) NonceSize) as [H|H]; [lia|].
    rewrite (firstn_app_exact n box NonceSize Hn), (skipn_app_exact n box NonceSize Hn).
    reflexivity.
  Qed.

  (** uses: open_seal *)
  Theorem decrypt_encrypt k n m :
    length n = NonceSize -> decrypt k (encrypt_with k n m) = Ok m.
  Proof.
    intros Hn. unfold Snacl.encrypt_with. rewrite (decrypt_app _ _ _ Hn), open_seal. reflexivity.
  Qed.

  (** uses: open_only_sealed.  Whatever decrypts is an honest ciphertext of
      the returned data under this key (never "some data" for a forgery). *)
  Theorem decrypt_only_honest k c m :
    decrypt k c = Ok m ->
    c = encrypt_with k (firstn NonceSize c) m /\ length (firstn NonceSize c) = NonceSize.
  Proof.
    unfold Snacl.decrypt, Snacl.encrypt_with.
    destruct (Nat.ltb_spec (length c) NonceSize) as [H|H]; [discriminate|].
    destruct (open k (firstn NonceSize c) (skipn NonceSize c)) as [m'|] eqn:E; [|discriminate].
    intros H1. injection H1 as ->. apply open_only_sealed in E. split.
    - rewrite <- E. symmetry. apply firstn_skipn.
    - rewrite firstn_length. lia.
  Qed.

  (** Decrypt never returns both an error and data, and its only errors are
      the two of the package. *)
  Theorem decrypt_outcomes k c :
    (exists m, decrypt k c = Ok m) \/ decrypt k c = Err ErrMalformed \/ decrypt k c = Err ErrDecryptFailed.
  Proof.
    unfold Snacl.decrypt. destruct (length c <? NonceSize)%nat; [right; left; reflexivity|].
    destruct (open k _ _) as [m|]; [left; eexists; reflexivity|right; right; reflexivity].
  Qed.

  (** uses: open_only_sealed, seal_binds *)
  Theorem decrypt_wrong_key k k' n m :
    length n = NonceSize -> k' <> k -> decrypt k' (encrypt_with k n m) = Err ErrDecryptFailed.
  Proof.
    intros Hn Hk. unfold Snacl.encrypt_with. rewrite (decrypt_app _ _ _ Hn).
    destruct (open k' n (seal k n m)) as [m'|] eqn:E; [|reflexivity].
    apply open_only_sealed in E. apply seal_binds in E as [E _]. congruence.
  Qed.

  (** uses: open_only_sealed, seal_binds, seal_no_near.  Any modification of
      any single byte (a non-zero xor mask), in the nonce or in the box. *)
  Theorem decrypt_one_byte_modified k n m i mask :
    length n = NonceSize -> (i < length (encrypt_with k n m))%nat -> mask <> 0 ->
    decrypt k (xor_at (encrypt_with k n m) i mask) = Err ErrDecryptFailed.
  Proof.
    intros Hn Hi Hm. rewrite encrypt_with_length in Hi. unfold Snacl.encrypt_with.
    destruct (Nat.lt_ge_cases i (length n)) as [Hlt|Hge].
    - rewrite xor_at_app_l by exact Hlt.
      rewrite decrypt_app by (rewrite xor_at_length; exact Hn).
      destruct (open k (xor_at n i mask) (seal k n m)) as [m'|] eqn:E; [|reflexivity].
      apply open_only_sealed in E. apply seal_binds in E as [_ E].
      exfalso. apply (xor_at_neq n i mask Hlt Hm). congruence.
    - rewrite xor_at_app_r by exact Hge. rewrite (decrypt_app _ _ _ Hn).
      destruct (open k n (xor_at (seal k n m) (i - length n) mask)) as [m'|] eqn:E; [|reflexivity].
      apply open_only_sealed in E. exfalso.
      apply (seal_no_near k n m m' (i - length n)%nat mask); [lia|exact Hm|].
      symmetry. exact E.
  Qed.

  Corollary decrypt_bit_flipped k n m i j :
    length n = NonceSize -> (i < length (encrypt_with k n m))%nat ->
    decrypt k (flip_bit (encrypt_with k n m) i j) = Err ErrDecryptFailed.
  Proof.
    intros Hn Hi. apply decrypt_one_byte_modified; [exact Hn|exact Hi|apply pow2_nonzero].
  Qed.

  (** uses: open_only_sealed, seal_no_prefix.  Every strict truncation:
      below the nonce size it is malformed, from there on Open fails. *)
  Theorem decrypt_truncated k n m t :
    length n = NonceSize -> (t < length (encrypt_with k n m))%nat ->
    decrypt k (firstn t (encrypt_with k n m))
    = Err (if (t <? NonceSize)%nat then ErrMalformed else ErrDecryptFailed).
  Proof.
    intros Hn Ht. rewrite encrypt_with_length in Ht. unfold Snacl.encrypt_with.
    destruct (Nat.ltb_spec t NonceSize) as [Hlt|Hge].
    - unfold Snacl.decrypt. rewrite firstn_length, app_length.
      destruct (Nat.ltb_spec (Nat.min t (length n + length (seal k n m))) NonceSize); [reflexivity|lia].
    - rewrite firstn_app_long by lia. rewrite (decrypt_app _ _ _ Hn).
      destruct (open k n (firstn (t - length n) (seal k n m))) as [m'|] eqn:E; [|reflexivity].
      apply open_only_sealed in E. exfalso.
      apply (seal_no_prefix k n m m' (t - length n)%nat); [lia|]. symmetry. exact E.
  Qed.

  (** No cryptographic premise: the nonce is part of the ciphertext, so two
      encryptions (of anything, under any keys) with distinct nonces differ.
      That nonces are fresh is the random source's obligation. *)
  Theorem encrypt_distinct_nonces k k' n n' m m' :
    length n = NonceSize -> length n' = NonceSize -> n <> n' ->
    encrypt_with k n m <> encrypt_with k' n' m'.
  Proof.
    intros Hn Hn' Hne E. unfold Snacl.encrypt_with in E.
    apply app_inj_length in E as [E _]; [contradiction|congruence].
  Qed.
End Aead.

(** * 3b. The HMAC key block *)

Lemma copy_into_short n l : (length l <= n)%nat -> copy_into n l = l ++ repeat 0 (n - length l).
Proof. intros H. unfold copy_into. rewrite firstn_all2 by exact H. reflexivity. Qed.

Lemma hmac_key_block_short hash pw :
  (length pw <= HmacBlock)%nat ->
  hmac_key_block hash pw = pw ++ repeat 0 (HmacBlock - length pw).
Proof.
  intros H. unfold hmac_key_block.
  destruct (Nat.ltb_spec HmacBlock (length pw)) as [H1|H1]; [lia|].
  apply copy_into_short. exact H.
Qed.

(** A passphrase shorter than the block and the same passphrase followed by
    a NUL byte have the same key block. *)
Lemma hmac_key_block_trailing_nul hash pw :
  (length pw < HmacBlock)%nat -> hmac_key_block hash (pw ++ [0]) = hmac_key_block hash pw.
Proof.
  intros H. rewrite !hmac_key_block_short by (rewrite ?app_length; simpl; lia).
  rewrite app_length. simpl length.
  replace (HmacBlock - length pw)%nat with (S (HmacBlock - (length pw + 1))) by lia.
  simpl. rewrite <- app_assoc. reflexivity.
Qed.

Lemma all_zero_last (l : bytes) d : l <> [] -> Forall (fun b => b = 0) l -> last l d = 0.
Proof.
  induction l as [|x l IH]; intros Hne Hall; [contradiction|].
  destruct l as [|y l]; simpl.
  - exact (Forall_inv Hall).
  - apply IH; [discriminate|exact (Forall_inv_tail Hall)].
Qed.

Lemma prefix_of_zeros (l : bytes) rest a : l ++ rest = repeat 0 a -> Forall (fun b => b = 0) l.
Proof.
  revert a; induction l as [|x l IH]; intros a H; [constructor|].
  destruct a as [|a]; simpl in H; [discriminate|]. injection H as -> H.
  constructor; [reflexivity|exact (IH a H)].
Qed.

Lemma zero_padding_inj (pw pw' : bytes) a b :
  pw ++ repeat 0 a = pw' ++ repeat 0 b -> last pw 1 <> 0 -> last pw' 1 <> 0 -> pw = pw'.
Proof.
  revert pw'; induction pw as [|x q IH]; intros [|y q'] H L L'.
  - reflexivity.
  - exfalso. apply L'. apply all_zero_last; [discriminate|].
    simpl app at 1 in H. symmetry in H. exact (prefix_of_zeros _ _ _ H).
  - exfalso. apply L. apply all_zero_last; [discriminate|].
    simpl app at 2 in H. exact (prefix_of_zeros _ _ _ H).
  - simpl in H. injection H as -> H. f_equal. apply IH; [exact H| |].
    + destruct q as [|z q]; [simpl; discriminate|exact L].
    + destruct q' as [|z q']; [simpl; discriminate|exact L'].
Qed.

(** Among passphrases of at most 64 bytes that do not end in a NUL byte the
    key block determines the passphrase. *)
Lemma hmac_key_block_plain hash pw pw' :
  (length pw <= HmacBlock)%nat -> (length pw' <= HmacBlock)%nat ->
  last pw 1 <> 0 -> last pw' 1 <> 0 ->
  hmac_key_block hash pw = hmac_key_block hash pw' -> pw = pw'.
Proof.
  intros H H' L L' E. rewrite !hmac_key_block_short in E by assumption.
  exact (zero_padding_inj _ _ _ _ E L L').
Qed.

(** * 4. Passphrase binding *)

Section Kdf.
  Variable kdf : bytes -> bytes -> Z -> Z -> Z -> option bytes.
  Variable hash : bytes -> bytes.
  Hypothesis kdf_inj : law_kdf_inj kdf hash.
  Hypothesis kdf_hmac : law_kdf_hmac kdf hash.
  Hypothesis kdf_domain : law_kdf_domain kdf.
  Hypothesis hash_inj : law_hash_inj hash.

  Local Notation new_secret_key := (new_secret_key kdf hash).
  Local Notation derive_key := (derive_key kdf hash).
  Local Notation key_block := (hmac_key_block hash).

  Lemma new_secret_key_inv pw s n r p sk :
    new_secret_key pw (Some s) n r p = Ok sk ->
    exists k, kdf pw s n r p = Some k /\
      sk = {| sk_key := k;
              sk_params := {| salt := s; digest := hash k; pN := n; pR := r; pP := p |} |}.
  Proof.
    unfold Snacl.new_secret_key, derive_key_raw. cbn [sk_params salt pN pR pP].
    destruct (kdf pw s n r p) as [k|]; [|discriminate].
    cbn [sk_key]. intros H. injection H as <-. exists k. split; reflexivity.
  Qed.

  (** The three outcomes of DeriveKey. *)
  Lemma derive_key_outcomes sk pw :
    snd (derive_key sk pw) = None \/ snd (derive_key sk pw) = Some ErrInvalidPassword
    \/ snd (derive_key sk pw) = Some ErrKdf.
  Proof.
    unfold Snacl.derive_key, derive_key_raw.
    destruct (kdf pw _ _ _ _) as [k|]; cbn [snd]; [|right; right; reflexivity].
    cbn [sk_key sk_params].
    destruct (bytes_eqb _ _); cbn [snd]; [left|right; left]; reflexivity.
  Qed.

  Lemma derive_key_accept_inv sk pw :
    snd (derive_key sk pw) = None ->
    exists k, kdf pw (salt (sk_params sk)) (pN (sk_params sk)) (pR (sk_params sk)) (pP (sk_params sk)) = Some k
      /\ hash k = digest (sk_params sk)
      /\ derive_key sk pw = ({| sk_key := k; sk_params := sk_params sk |}, None).
  Proof.
    unfold Snacl.derive_key, derive_key_raw.
    destruct (kdf pw _ _ _ _) as [k|]; cbn [snd]; [|discriminate].
    cbn [sk_key sk_params].
    destruct (bytes_eqb (hash k) (digest (sk_params sk))) eqn:E; cbn [snd]; [|discriminate].
    intros _. exists k. apply bytes_eqb_eq in E. repeat split. exact E.
  Qed.

  (** uses: (nothing) - the creating passphrase is accepted and re-derives
      the same key, on any SecretKey value carrying the same parameters
      (after Zero, or rebuilt by Unmarshal). *)
  Theorem derive_key_accepts_creator pw s n r p sk sk' :
    new_secret_key pw (Some s) n r p = Ok sk -> sk_params sk' = sk_params sk ->
    derive_key sk' pw = (sk, None).
  Proof.
    intros H HP. apply new_secret_key_inv in H as (k & Hk & ->). cbn [sk_params] in HP.
    unfold Snacl.derive_key, derive_key_raw. rewrite HP. cbn [salt pN pR pP digest].
    rewrite Hk. cbn [sk_key sk_params digest]. rewrite bytes_eqb_refl. reflexivity.
  Qed.

  (** uses: kdf_hmac - so is every passphrase with the same HMAC key block
      (this is the recorded finding: the code cannot tell them apart). *)
  Theorem derive_key_accepts_equivalent pw s n r p sk sk' pw' :
    new_secret_key pw (Some s) n r p = Ok sk -> sk_params sk' = sk_params sk ->
    key_block pw' = key_block pw -> derive_key sk' pw' = (sk, None).
  Proof.
    intros H HP HB. rewrite <- (derive_key_accepts_creator _ _ _ _ _ _ _ H HP).
    unfold Snacl.derive_key, derive_key_raw.
    rewrite (kdf_hmac pw' pw _ _ _ _ HB). reflexivity.
  Qed.

  (** uses: kdf_inj, kdf_domain, hash_inj - every passphrase with another
      HMAC key block is rejected with ErrInvalidPassword. *)
  Theorem derive_key_rejects_other pw s n r p sk sk' pw' :
    new_secret_key pw (Some s) n r p = Ok sk -> sk_params sk' = sk_params sk ->
    key_block pw' <> key_block pw -> snd (derive_key sk' pw') = Some ErrInvalidPassword.
  Proof.
    intros H HP Hne. apply new_secret_key_inv in H as (k & Hk & ->). cbn [sk_params] in HP.
    unfold Snacl.derive_key, derive_key_raw. rewrite HP. cbn [salt pN pR pP digest].
    destruct (kdf pw' s n r p) as [k'|] eqn:Hk'.
    - cbn [sk_key sk_params digest].
      rewrite bytes_eqb_neq; [reflexivity|].
      intros E. apply hash_inj in E. subst k'.
      destruct (kdf_inj _ _ _ _ _ _ _ _ _ _ _ Hk' Hk) as [E _]. contradiction.
    - rewrite (kdf_domain _ _ pw s _ _ _ Hk') in Hk. discriminate.
  Qed.

  Theorem derive_key_exact pw s n r p sk sk' pw' :
    new_secret_key pw (Some s) n r p = Ok sk -> sk_params sk' = sk_params sk ->
    (snd (derive_key sk' pw') = None <-> key_block pw' = key_block pw).
  Proof.
    intros H HP. split.
    - intros Hacc. destruct (list_eq_dec N.eq_dec (key_block pw') (key_block pw)) as [E|E]; [exact E|].
      rewrite (derive_key_rejects_other _ _ _ _ _ _ _ _ H HP E) in Hacc. discriminate.
    - intros E. rewrite (derive_key_accepts_equivalent _ _ _ _ _ _ _ _ H HP E). reflexivity.
  Qed.

  (** After a restart: the marshalled parameters decode to the same
      parameters, and the rebuilt SecretKey accepts exactly the creating
      passphrase, re-deriving the same key.
      uses: kdf_inj, kdf_domain, hash_inj (for the rejection part). *)
  Theorem restart_rederives pw s n r p sk :
    new_secret_key pw (Some s) n r p = Ok sk -> params_in_range (sk_params sk) ->
    exists sk0, unmarshal fresh_sk (marshal sk) = Ok sk0 /\ sk_params sk0 = sk_params sk /\
      derive_key sk0 pw = (sk, None) /\
      forall pw', key_block pw' <> key_block pw ->
                  snd (derive_key sk0 pw') = Some ErrInvalidPassword.
  Proof.
    intros H HR. unfold unmarshal, marshal. rewrite (unmarshal_marshal_params _ HR).
    eexists. split; [reflexivity|]. cbn [sk_params]. split; [reflexivity|]. split.
    - apply (derive_key_accepts_creator _ _ _ _ _ _ _ H). reflexivity.
    - intros pw' Hne. apply (derive_key_rejects_other _ _ _ _ _ _ _ _ H); [reflexivity|exact Hne].
  Qed.

  (** Parameters that differ from the stored ones in the digest only, or
      only outside the digest, are never accepted with the creating
      passphrase.  uses: kdf_inj, hash_inj. *)
  Lemma accepted_params_are_the_stored_ones pw s n r p sk sk' :
    new_secret_key pw (Some s) n r p = Ok sk ->
    (digest (sk_params sk') = digest (sk_params sk) \/
     (salt (sk_params sk') = s /\ pN (sk_params sk') = n /\ pR (sk_params sk') = r /\ pP (sk_params sk') = p)) ->
    snd (derive_key sk' pw) = None -> sk_params sk' = sk_params sk.
  Proof.
    intros H Hcase Hacc. apply new_secret_key_inv in H as (k & Hk & ->). cbn [sk_params digest] in *.
    apply derive_key_accept_inv in Hacc as (k' & Hk' & Hd & _).
    destruct (sk_params sk') as [s' d' n' r' p']. cbn [salt digest pN pR pP] in *.
    destruct Hcase as [Hdig|(-> & -> & -> & ->)].
    - subst d'. apply hash_inj in Hd. subst k'.
      destruct (kdf_inj _ _ _ _ _ _ _ _ _ _ _ Hk' Hk) as (_ & -> & -> & -> & ->). reflexivity.
    - rewrite Hk in Hk'. injection Hk' as <-. subst d'. reflexivity.
  Qed.

  (** Any modification of a single byte of the 88 marshalled bytes: if the
      result still unmarshals, DeriveKey with the *correct* passphrase does
      not accept (this is what catches a partial digest comparison or a
      wrong field offset).  uses: kdf_inj, hash_inj. *)
  Theorem tampered_params_rejected pw s n r p sk i mask sk' :
    new_secret_key pw (Some s) n r p = Ok sk -> params_in_range (sk_params sk) ->
    (i < ParamsSize)%nat -> mask <> 0 -> wf_bytes (xor_at (marshal sk) i mask) ->
    unmarshal fresh_sk (xor_at (marshal sk) i mask) = Ok sk' ->
    snd (derive_key sk' pw) = Some ErrInvalidPassword \/ snd (derive_key sk' pw) = Some ErrKdf.
  Proof.
    intros H HR Hi Hm Hwf Hu.
    destruct (derive_key_outcomes sk' pw) as [Hacc|Hrej]; [exfalso|exact Hrej].
    apply unmarshal_inv in Hu as [Hu _].
    (* the decoded parameters are not the stored ones *)
    assert (Hneq : sk_params sk' <> sk_params sk).
    { intros E. destruct (marshal_unmarshal_params _ _ Hwf Hu) as [Hback _].
      rewrite E in Hback. unfold marshal in Hback.
      apply (xor_at_neq (marshal_params (sk_params sk)) i mask); [|exact Hm|symmetry; exact Hback].
      rewrite marshal_params_length. exact Hi. }
    apply Hneq. apply (accepted_params_are_the_stored_ones _ _ _ _ _ _ _ H); [|exact Hacc].
    (* which field group the modified byte is in *)
    pose proof H as H0. apply new_secret_key_inv in H0 as (k & Hk & ->).
    destruct HR as (Hs & Hd & HN & HR' & HP). cbn [sk_params salt digest pN pR pP] in *.
    unfold marshal, marshal_params in Hu. cbn [sk_params salt digest pN pR pP] in Hu.
    rewrite (copy_into_exact _ _ Hs), (copy_into_exact _ _ Hd) in Hu.
    unfold ParamsSize in Hi.
    destruct (Nat.lt_ge_cases i (length s)) as [H1|H1].
    - (* salt *)
      rewrite xor_at_app_l in Hu by exact H1.
      rewrite unmarshal_params_app in Hu;
        try apply put_u64_length; try assumption; [|rewrite xor_at_length; exact Hs].
      injection Hu as Hu. rewrite <- Hu. left. reflexivity.
    - rewrite xor_at_app_r in Hu by exact H1.
      destruct (Nat.lt_ge_cases (i - length s) (length (hash k))) as [H2|H2].
      + (* digest *)
        rewrite xor_at_app_l in Hu by exact H2.
        rewrite unmarshal_params_app in Hu;
          try apply put_u64_length; try assumption; [|rewrite xor_at_length; exact Hd].
        injection Hu as Hu. rewrite <- Hu. cbn [salt pN pR pP]. right.
        rewrite !get_put_u64 by assumption. repeat split.
      + (* N, R, P *)
        rewrite xor_at_app_r in Hu by exact H2.
        set (tail := xor_at _ (i - length s - length (hash k)) mask) in Hu.
        assert (HT : length tail = 24%nat).
        { unfold tail. rewrite xor_at_length, !app_length, !put_u64_length. reflexivity. }
        assert (Hsplit : tail = firstn 8 tail ++ firstn 8 (skipn 8 tail) ++ skipn 16 tail).
        { rewrite <- (firstn_skipn 8 tail) at 1. f_equal.
          rewrite <- (firstn_skipn 8 (skipn 8 tail)) at 1. f_equal.
          rewrite skipn_skipn. reflexivity. }
        rewrite Hsplit in Hu.
        rewrite unmarshal_params_app in Hu; try assumption;
          try (rewrite ?firstn_length, ?skipn_length; lia).
        injection Hu as Hu. rewrite <- Hu. left. reflexivity.
  Qed.
End Kdf.

(** Zero wipes the key and keeps the parameters (so DeriveKey can rebuild it). *)
Lemma sk_zero_params sk : sk_params (sk_zero sk) = sk_params sk.
Proof. reflexivity. Qed.
Lemma sk_zero_key sk : Forall (fun b => b = 0) (sk_key (sk_zero sk)) /\
                       length (sk_key (sk_zero sk)) = length (sk_key sk).
Proof.
  unfold sk_zero, zero_key. cbn [sk_key]. split; [|apply map_length].
  induction (sk_key sk); simpl; constructor; [reflexivity|assumption].
Qed.

(** waddrmgr's Manager.Decrypt is Decrypt under the selected key with the
    error wrapped; while locked (or watch-only) the private and script keys
    are refused before any decryption, the public key keeps working. *)
Definition mgr_key_of (kt : N) (ks : mgr_keys) : bytes :=
  if kt =? 0 then k_priv ks else if kt =? 1 then k_script ks else k_pub ks.

Lemma mgr_decrypt_spec open locked kt ks c :
  kt = 0 \/ kt = 1 \/ kt = 2 ->
  mgr_decrypt open locked kt ks c =
  if locked && negb (kt =? 2) then MErr MErrLocked
  else match decrypt open (mgr_key_of kt ks) c with
       | Ok m => MOk m
       | Err e => MErr (MErrCrypto e)
       end.
Proof.
  intros [H|[H|H]]; subst kt; destruct locked; reflexivity.
Qed.

Lemma mgr_decrypt_invalid_type open locked kt ks c :
  2 < kt -> mgr_decrypt open locked kt ks c = MErr MErrInvalidKeyType.
Proof.
  intros H. unfold mgr_decrypt, select_crypto_key.
  destruct (N.eqb_spec kt 0); [lia|]. destruct (N.eqb_spec kt 1); [lia|].
  destruct (N.eqb_spec kt 2); [lia|]. reflexivity.
Qed.

(** * 5. The toy instance satisfies every law *)

Lemma lp_app_inj a b x y : lp a ++ x = lp b ++ y -> a = b /\ x = y.
Proof.
  unfold lp. simpl. intros H. injection H as HL H.
  apply Nat2N.inj in HL. exact (app_inj_length _ _ _ _ HL H).
Qed.

Lemma toy_seal_shape k n m : toy_seal k n m = (lp k ++ lp n) ++ (N.of_nat (length m) :: m ++ m).
Proof. unfold toy_seal, lp. rewrite <- !app_assoc. reflexivity. Qed.

Lemma toy_head_length k n : length (lp k ++ lp n) = (length k + length n + 2)%nat.
Proof. unfold lp. rewrite app_length. simpl. lia. Qed.

Lemma toy_extract_seal k n m : toy_extract k n (toy_seal k n m) = m.
Proof.
  unfold toy_extract. rewrite toy_seal_shape.
  rewrite (skipn_app_exact _ _ _ (toy_head_length k n)).
  rewrite Nat2N.id. apply firstn_app_exact. reflexivity.
Qed.

Theorem toy_open_seal : law_open_seal toy_seal toy_open.
Proof.
  intros k n m. unfold toy_open. rewrite toy_extract_seal, bytes_eqb_refl. reflexivity.
Qed.

Theorem toy_open_only_sealed : law_open_only_sealed toy_seal toy_open.
Proof.
  intros k n c m. unfold toy_open.
  destruct (bytes_eqb c (toy_seal k n (toy_extract k n c))) eqn:E; [|discriminate].
  intros H. injection H as <-. apply bytes_eqb_eq in E. exact E.
Qed.

Theorem toy_seal_binds : law_seal_binds toy_seal.
Proof.
  intros k n m k' n' m' H. unfold toy_seal in H.
  apply lp_app_inj in H as [-> H]. apply lp_app_inj in H as [-> _]. split; reflexivity.
Qed.

Lemma toy_body_length m : length (N.of_nat (length m) :: m ++ m) = (1 + 2 * length m)%nat.
Proof. simpl. rewrite app_length. lia. Qed.

Theorem toy_seal_no_near : law_seal_no_near toy_seal.
Proof.
  intros k n m m' i mask Hi Hm E. rewrite !toy_seal_shape in *.
  rewrite app_length, toy_body_length in Hi.
  set (H := lp k ++ lp n) in *.
  destruct (Nat.lt_ge_cases i (length H)) as [Hlt|Hge].
  - rewrite xor_at_app_l in E by exact Hlt.
    apply app_inj_length in E as [E _]; [|rewrite xor_at_length; reflexivity].
    apply (xor_at_neq H i mask Hlt Hm). symmetry. exact E.
  - rewrite xor_at_app_r in E by exact Hge. apply app_inv_head in E.
    assert (HL : (1 + 2 * length m' = 1 + 2 * length m)%nat).
    { rewrite <- !toy_body_length, E, xor_at_length. reflexivity. }
    destruct (i - length H)%nat as [|i'] eqn:Ei; cbn [xor_at] in E.
    + injection E as E0 _. apply (lxor_mask_neq (N.of_nat (length m)) mask Hm).
      rewrite <- E0. f_equal. lia.
    + injection E as _ E.
      destruct (Nat.lt_ge_cases i' (length m)) as [H1|H1].
      * rewrite xor_at_app_l in E by exact H1.
        apply app_inj_length in E as [E1 E2]; [|rewrite xor_at_length; lia].
        apply (xor_at_neq m i' mask H1 Hm). congruence.
      * rewrite xor_at_app_r in E by exact H1.
        apply app_inj_length in E as [E1 E2]; [|lia].
        apply (xor_at_neq m (i' - length m)%nat mask); [lia|exact Hm|congruence].
Qed.

Theorem toy_seal_no_prefix : law_seal_no_prefix toy_seal.
Proof.
  intros k n m m' t Ht E. rewrite !toy_seal_shape in *.
  rewrite app_length, toy_body_length in Ht.
  set (H := lp k ++ lp n) in *.
  assert (HL : (length H + (1 + 2 * length m') = t)%nat).
  { rewrite <- toy_body_length, <- app_length, E, firstn_length, app_length, toy_body_length. lia. }
  rewrite firstn_app_long in E by lia. apply app_inv_head in E.
  destruct (t - length H)%nat as [|t'] eqn:Et; [lia|].
  cbn [firstn] in E. injection E as E0 _. apply Nat2N.inj in E0. lia.
Qed.

Lemma encZ_inj a b x y : encZ a ++ x = encZ b ++ y -> a = b /\ x = y.
Proof.
  unfold encZ. simpl. intros H. injection H as H1 H2 H3. split; [|exact H3].
  destruct (Z.ltb_spec a 0), (Z.ltb_spec b 0); try discriminate; lia.
Qed.

Lemma toy_kdf_long_length blk s n r p : (33 <= length (toy_kdf_long blk s n r p))%nat.
Proof. unfold toy_kdf_long. rewrite app_length, repeat_length. lia. Qed.

Lemma toy_kdf_short_spec blk s n r p :
  toy_kdf_short blk s n r p = true ->
  blk = repeat 0 HmacBlock /\ n = 2%Z /\ r = 1%Z /\ p = 1%Z /\ length s = 32%nat.
Proof.
  unfold toy_kdf_short. intros H.
  repeat (apply andb_prop in H as [H ?]).
  apply bytes_eqb_eq in H. repeat split; try lia. exact H.
Qed.

Theorem toy_kdf_inj h : law_kdf_inj (toy_kdf h) h.
Proof.
  intros pw s n r p pw' s' n' r' p' k H H'. unfold toy_kdf in *.
  set (blk := hmac_key_block h pw) in *. set (blk' := hmac_key_block h pw') in *.
  destruct (scrypt_class n r p =? 0); [|discriminate].
  destruct (scrypt_class n' r' p' =? 0); [|discriminate].
  destruct (toy_kdf_short blk s n r p) eqn:S1; destruct (toy_kdf_short blk' s' n' r' p') eqn:S2;
    injection H as H; injection H' as H'.
  - apply toy_kdf_short_spec in S1 as (E1 & -> & -> & -> & _).
    apply toy_kdf_short_spec in S2 as (E2 & -> & -> & -> & _).
    subst. repeat split. congruence.
  - apply toy_kdf_short_spec in S1 as (_ & _ & _ & _ & L).
    pose proof (toy_kdf_long_length blk' s' n' r' p'). rewrite H', <- H, L in *. lia.
  - apply toy_kdf_short_spec in S2 as (_ & _ & _ & _ & L).
    pose proof (toy_kdf_long_length blk s n r p). rewrite H, <- H', L in *. lia.
  - rewrite <- H' in H. unfold toy_kdf_long in H. apply app_inv_head in H.
    apply lp_app_inj in H as [E H]. apply lp_app_inj in H as [-> H].
    apply encZ_inj in H as [-> H]. apply encZ_inj in H as [-> H].
    rewrite <- (app_nil_r (encZ p)), <- (app_nil_r (encZ p')) in H.
    apply encZ_inj in H as [-> _]. repeat split. exact E.
Qed.

Theorem toy_kdf_hmac h : law_kdf_hmac (toy_kdf h) h.
Proof.
  intros pw pw' s n r p E. unfold toy_kdf. rewrite E. reflexivity.
Qed.

Theorem toy_kdf_domain h : law_kdf_domain (toy_kdf h).
Proof.
  intros pw s pw' s' n r p. unfold toy_kdf.
  destruct (scrypt_class n r p =? 0); [|reflexivity].
  destruct (toy_kdf_short _ s n r p); discriminate.
Qed.

Theorem toy_hash_inj : law_hash_inj toy_hash.
Proof. intros a b H. exact H. Qed.

(** * 6. The wrapper as read from the source ([decrypt_c], [derive_key_c] ...)

    The definitions parameterised by the regenerated code facts coincide with
    the ones above when the facts hold ([..._faithful]); the theorems of
    sections 3 and 4 are transported along these equations ([c_...]: the form
    Properties/C17.v states, with "fails" instead of the exact error value).
    When a fact does NOT hold the property is refuted in the model
    ([unchecked_open_decrypts_anything], [prefix_compare_accepts_tampered_digest],
    [preprocessed_passphrase_accepts_preimages]): each fact is necessary. *)

Lemma fails_err {A} (e : err) : fails (@Err A e).
Proof. exists e. reflexivity. Qed.

Lemma fails_not_ok {A} (r : result A) a : fails r -> r <> Ok a.
Proof. intros [e ->]. discriminate. Qed.

Lemma firstn_xor_at (l : bytes) n i mask : (n <= i)%nat -> firstn n (xor_at l i mask) = firstn n l.
Proof.
  revert n i; induction l as [|b l IH]; intros [|n] [|i] H; simpl; try reflexivity; try lia.
  f_equal. apply IH. lia.
Qed.

(** needs no fact: the success path of Decrypt does not look at them *)
Theorem c_roundtrip (cf : code_facts) seal open : law_open_seal seal open ->
  forall k n m, length n = NonceSize -> decrypt_c cf open k (encrypt_with seal k n m) = Ok m.
Proof.
  intros L k n m Hn. unfold decrypt_c, encrypt_with. rewrite app_length, Hn.
  destruct (Nat.ltb_spec (NonceSize + length (seal k n m)) NonceSize) as [H|H]; [lia|].
  rewrite (firstn_app_exact n _ NonceSize Hn), (skipn_app_exact n _ NonceSize Hn), L. reflexivity.
Qed.

(** the fact is necessary: with the result of Open ignored, EVERY input of
    at least 24 bytes "decrypts" (no authentication at all) *)
Theorem unchecked_open_decrypts_anything (cf : code_facts) open k c :
  cf_open_checked cf = false -> (NonceSize <= length c)%nat -> exists m, decrypt_c cf open k c = Ok m.
Proof.
  intros H HL. unfold decrypt_c. destruct (Nat.ltb_spec (length c) NonceSize); [lia|]. rewrite H.
  destruct (open _ _ _); eexists; reflexivity.
Qed.

Section AsReadProofs.
  Variable cf : code_facts.
  Variable pre : bytes -> bytes.

  Lemma decrypt_c_checked open k c :
    cf_open_checked cf = true -> decrypt_c cf open k c = decrypt open k c.
  Proof.
    intros H. unfold decrypt_c, decrypt. rewrite H.
    destruct (length c <? NonceSize)%nat; [reflexivity|]. destruct (open _ _ _); reflexivity.
  Qed.

  Lemma mgr_decrypt_c_checked open locked kt ks c :
    cf_open_checked cf = true -> mgr_decrypt_c cf open locked kt ks c = mgr_decrypt open locked kt ks c.
  Proof.
    intros H. unfold mgr_decrypt_c, mgr_decrypt.
    destruct (select_crypto_key locked kt ks); [reflexivity|]. rewrite (decrypt_c_checked _ _ _ H). reflexivity.
  Qed.

  Lemma derive_key_c_faithful kdf hash sk pw :
    cf_pw_unchanged cf = true -> cf_digest_cmp cf = None ->
    derive_key_c cf pre kdf hash sk pw = derive_key kdf hash sk pw.
  Proof.
    intros H1 H2. unfold derive_key_c, derive_key, kdf_input, digest_matches. rewrite H1, H2. reflexivity.
  Qed.

  Lemma new_secret_key_c_faithful kdf hash pw rnd n r p :
    cf_pw_unchanged cf = true ->
    new_secret_key_c cf pre kdf hash pw rnd n r p = new_secret_key kdf hash pw rnd n r p.
  Proof. intros H. unfold new_secret_key_c, kdf_input. rewrite H. reflexivity. Qed.

  Lemma digest_matches_refl a : digest_matches cf a a = true.
  Proof. unfold digest_matches. destruct (cf_digest_cmp cf); apply bytes_eqb_refl. Qed.

  (** ** Encrypt / Decrypt *)

  Theorem c_wrong_key : cf_open_checked cf = true -> forall seal open,
    law_open_only_sealed seal open -> law_seal_binds seal ->
    forall k k' n m, length n = NonceSize -> k' <> k ->
      fails (decrypt_c cf open k' (encrypt_with seal k n m)).
  Proof.
    intros Hc seal open L1 L2 k k' n m Hn Hk.
    rewrite (decrypt_c_checked _ _ _ Hc), (decrypt_wrong_key seal open L1 L2 k k' n m Hn Hk). apply fails_err.
  Qed.

  Theorem c_byte_modified : cf_open_checked cf = true -> forall seal open,
    law_open_only_sealed seal open -> law_seal_binds seal -> law_seal_no_near seal ->
    forall k n m i mask, length n = NonceSize -> (i < length (encrypt_with seal k n m))%nat -> mask <> 0 ->
      fails (decrypt_c cf open k (xor_at (encrypt_with seal k n m) i mask)).
  Proof.
    intros Hc seal open L1 L2 L3 k n m i mask Hn Hi Hm.
    rewrite (decrypt_c_checked _ _ _ Hc), (decrypt_one_byte_modified seal open L1 L2 L3 k n m i mask Hn Hi Hm).
    apply fails_err.
  Qed.

  Theorem c_bit_flip : cf_open_checked cf = true -> forall seal open,
    law_open_only_sealed seal open -> law_seal_binds seal -> law_seal_no_near seal ->
    forall k n m i j, length n = NonceSize -> (i < length (encrypt_with seal k n m))%nat ->
      fails (decrypt_c cf open k (flip_bit (encrypt_with seal k n m) i j)).
  Proof.
    intros Hc seal open L1 L2 L3 k n m i j Hn Hi.
    apply (c_byte_modified Hc seal open L1 L2 L3 k n m i (2 ^ j) Hn Hi). apply pow2_nonzero.
  Qed.

  Theorem c_truncation : cf_open_checked cf = true -> forall seal open,
    law_open_only_sealed seal open -> law_seal_no_prefix seal ->
    forall k n m t, length n = NonceSize -> (t < length (encrypt_with seal k n m))%nat ->
      fails (decrypt_c cf open k (firstn t (encrypt_with seal k n m))).
  Proof.
    intros Hc seal open L1 L2 k n m t Hn Ht.
    rewrite (decrypt_c_checked _ _ _ Hc), (decrypt_truncated seal open L1 L2 k n m t Hn Ht). apply fails_err.
  Qed.

  Theorem c_only_honest : cf_open_checked cf = true -> forall seal open,
    law_open_only_sealed seal open ->
    forall k c,
      ((exists m, decrypt_c cf open k c = Ok m) \/ fails (decrypt_c cf open k c)) /\
      forall m, decrypt_c cf open k c = Ok m ->
        c = encrypt_with seal k (firstn NonceSize c) m /\ length (firstn NonceSize c) = NonceSize.
  Proof.
    intros Hc seal open L k c. rewrite (decrypt_c_checked _ _ _ Hc). split.
    - destruct (decrypt_outcomes open k c) as [H|[H|H]]; [left; exact H|right|right]; rewrite H; apply fails_err.
    - intros m. exact (decrypt_only_honest seal open L k c m).
  Qed.

  (** ** Passphrases *)

  Theorem c_passphrase_exact : cf_pw_unchanged cf = true -> cf_digest_cmp cf = None -> forall kdf hash,
    law_kdf_inj kdf hash -> law_kdf_hmac kdf hash -> law_kdf_domain kdf -> law_hash_inj hash ->
    forall pw s n r p sk sk', new_secret_key_c cf pre kdf hash pw (Some s) n r p = Ok sk ->
      sk_params sk' = sk_params sk ->
      derive_key_c cf pre kdf hash sk' pw = (sk, None) /\
      forall pw',
        (hmac_key_block hash pw' <> hmac_key_block hash pw ->
         snd (derive_key_c cf pre kdf hash sk' pw') = Some ErrInvalidPassword) /\
        (snd (derive_key_c cf pre kdf hash sk' pw') = None <->
         hmac_key_block hash pw' = hmac_key_block hash pw).
  Proof.
    intros F1 F2 kdf hash L1 L2 L3 L4 pw s n r p sk sk' H HP.
    rewrite (new_secret_key_c_faithful _ _ _ _ _ _ _ F1) in H. split.
    - rewrite (derive_key_c_faithful _ _ _ _ F1 F2).
      exact (derive_key_accepts_creator kdf hash pw s n r p sk sk' H HP).
    - intros pw'. rewrite (derive_key_c_faithful _ _ _ _ F1 F2). split.
      + exact (derive_key_rejects_other kdf hash L1 L3 L4 pw s n r p sk sk' pw' H HP).
      + exact (derive_key_exact kdf hash L1 L2 L3 L4 pw s n r p sk sk' pw' H HP).
  Qed.

  Theorem c_passphrase_exact_outside_K : cf_pw_unchanged cf = true -> cf_digest_cmp cf = None -> forall kdf hash,
    law_kdf_inj kdf hash -> law_kdf_domain kdf -> law_hash_inj hash ->
    forall pw s n r p sk sk' pw', new_secret_key_c cf pre kdf hash pw (Some s) n r p = Ok sk ->
      sk_params sk' = sk_params sk ->
      (length pw <= 64)%nat -> (length pw' <= 64)%nat -> last pw 1 <> 0 -> last pw' 1 <> 0 ->
      pw' <> pw -> snd (derive_key_c cf pre kdf hash sk' pw') = Some ErrInvalidPassword.
  Proof.
    intros F1 F2 kdf hash L1 L3 L4 pw s n r p sk sk' pw' H HP B B' Z Z' Hne.
    rewrite (new_secret_key_c_faithful _ _ _ _ _ _ _ F1) in H. rewrite (derive_key_c_faithful _ _ _ _ F1 F2).
    apply (derive_key_rejects_other kdf hash L1 L3 L4 pw s n r p sk sk' pw' H HP).
    intros E. apply Hne. exact (hmac_key_block_plain hash pw' pw B' B Z' Z E).
  Qed.

  Theorem c_refuted_trailing_nul : cf_pw_unchanged cf = true -> cf_digest_cmp cf = None -> forall kdf hash,
    law_kdf_hmac kdf hash ->
    forall pw s n r p sk sk', new_secret_key_c cf pre kdf hash pw (Some s) n r p = Ok sk ->
      sk_params sk' = sk_params sk -> (length pw < 64)%nat ->
      pw ++ [0] <> pw /\ derive_key_c cf pre kdf hash sk' (pw ++ [0]) = (sk, None).
  Proof.
    intros F1 F2 kdf hash L2 pw s n r p sk sk' H HP B.
    rewrite (new_secret_key_c_faithful _ _ _ _ _ _ _ F1) in H. rewrite (derive_key_c_faithful _ _ _ _ F1 F2). split.
    - intros E. apply (f_equal (@length N)) in E. rewrite app_length in E. simpl in E. lia.
    - apply (derive_key_accepts_equivalent kdf hash L2 pw s n r p sk sk' (pw ++ [0]) H HP).
      exact (hmac_key_block_trailing_nul hash pw B).
  Qed.

  Theorem c_zero_then_rederive : cf_pw_unchanged cf = true -> cf_digest_cmp cf = None ->
    forall kdf hash pw s n r p sk,
    new_secret_key_c cf pre kdf hash pw (Some s) n r p = Ok sk ->
    Forall (fun b => b = 0) (sk_key (sk_zero sk)) /\
    derive_key_c cf pre kdf hash (sk_zero sk) pw = (sk, None).
  Proof.
    intros F1 F2 kdf hash pw s n r p sk H.
    rewrite (new_secret_key_c_faithful _ _ _ _ _ _ _ F1) in H. rewrite (derive_key_c_faithful _ _ _ _ F1 F2). split.
    - exact (proj1 (sk_zero_key sk)).
    - exact (derive_key_accepts_creator kdf hash pw s n r p sk (sk_zero sk) H (sk_zero_params sk)).
  Qed.

  Theorem c_restart : cf_pw_unchanged cf = true -> cf_digest_cmp cf = None -> forall kdf hash,
    law_kdf_inj kdf hash -> law_kdf_domain kdf -> law_hash_inj hash ->
    forall pw s n r p sk, new_secret_key_c cf pre kdf hash pw (Some s) n r p = Ok sk ->
      params_in_range (sk_params sk) ->
      exists sk0, unmarshal fresh_sk (marshal sk) = Ok sk0 /\ sk_params sk0 = sk_params sk /\
        derive_key_c cf pre kdf hash sk0 pw = (sk, None) /\
        forall pw', hmac_key_block hash pw' <> hmac_key_block hash pw ->
                    snd (derive_key_c cf pre kdf hash sk0 pw') = Some ErrInvalidPassword.
  Proof.
    intros F1 F2 kdf hash L1 L3 L4 pw s n r p sk H HR.
    rewrite (new_secret_key_c_faithful _ _ _ _ _ _ _ F1) in H.
    destruct (restart_rederives kdf hash L1 L3 L4 pw s n r p sk H HR) as (sk0 & A & B & C & D).
    exists sk0. split; [exact A|]. split; [exact B|]. split.
    - rewrite (derive_key_c_faithful _ _ _ _ F1 F2). exact C.
    - intros pw' Hne. rewrite (derive_key_c_faithful _ _ _ _ F1 F2). exact (D pw' Hne).
  Qed.

  Theorem c_params_tamper : cf_pw_unchanged cf = true -> cf_digest_cmp cf = None -> forall kdf hash,
    law_kdf_inj kdf hash -> law_hash_inj hash ->
    forall pw s n r p sk i mask sk', new_secret_key_c cf pre kdf hash pw (Some s) n r p = Ok sk ->
      params_in_range (sk_params sk) -> (i < 88)%nat -> mask <> 0 ->
      wf_bytes (xor_at (marshal sk) i mask) ->
      unmarshal fresh_sk (xor_at (marshal sk) i mask) = Ok sk' ->
      snd (derive_key_c cf pre kdf hash sk' pw) = Some ErrInvalidPassword \/
      snd (derive_key_c cf pre kdf hash sk' pw) = Some ErrKdf.
  Proof.
    intros F1 F2 kdf hash L1 L4 pw s n r p sk i mask sk' H HR Hi Hm Hwf Hu.
    rewrite (new_secret_key_c_faithful _ _ _ _ _ _ _ F1) in H. rewrite (derive_key_c_faithful _ _ _ _ F1 F2).
    exact (tampered_params_rejected kdf hash L1 L4 pw s n r p sk i mask sk' H HR Hi Hm Hwf Hu).
  Qed.

  (** the facts are necessary.  A digest compared on its first [cmp] bytes
      only: the stored parameters with ANY modification of a digest byte at or
      beyond [cmp] are accepted with the creating passphrase (the stored
      digest is no longer bound; for cmp = 0 every passphrase is accepted). *)
  Theorem prefix_compare_accepts_tampered_digest kdf hash pw s n r p sk sk' cmp i mask :
    cf_digest_cmp cf = Some cmp -> (cmp <= i)%nat ->
    new_secret_key_c cf pre kdf hash pw (Some s) n r p = Ok sk ->
    sk_params sk' = {| salt := s; digest := xor_at (digest (sk_params sk)) i mask;
                       pN := n; pR := r; pP := p |} ->
    snd (derive_key_c cf pre kdf hash sk' pw) = None /\
    ((i < length (digest (sk_params sk)))%nat -> mask <> 0 -> digest (sk_params sk') <> digest (sk_params sk)).
  Proof.
    intros F Hi H HP. unfold new_secret_key_c in H.
    apply new_secret_key_inv in H as (k & Hk & ->). cbn [sk_params digest] in *. split.
    - unfold derive_key_c, derive_key_raw. rewrite HP. cbn [salt pN pR pP digest]. rewrite Hk.
      cbn [sk_key sk_params digest]. unfold digest_matches. rewrite F.
      rewrite (firstn_xor_at _ _ _ _ Hi), bytes_eqb_refl. reflexivity.
    - intros Hlt Hm. rewrite HP. cbn [digest]. exact (xor_at_neq _ _ _ Hlt Hm).
  Qed.

  (** A passphrase pre-processed before the kdf: every passphrase with the
      same image is accepted (for "trailing CR/LF trimmed": P and P ++ "\n";
      for "lower-cased": every case variant). *)
  Theorem preprocessed_passphrase_accepts_preimages kdf hash pw pw' s n r p sk sk' :
    cf_pw_unchanged cf = false -> pre pw' = pre pw ->
    new_secret_key_c cf pre kdf hash pw (Some s) n r p = Ok sk -> sk_params sk' = sk_params sk ->
    derive_key_c cf pre kdf hash sk' pw' = (sk, None).
  Proof.
    intros F E H HP. unfold new_secret_key_c, kdf_input in H. rewrite F in H.
    apply new_secret_key_inv in H as (k & Hk & ->). cbn [sk_params] in HP.
    unfold derive_key_c, derive_key_raw, kdf_input. rewrite F, E, HP. cbn [salt pN pR pP digest].
    rewrite Hk. cbn [sk_key sk_params digest]. rewrite digest_matches_refl. reflexivity.
  Qed.

  (** ** waddrmgr: the passphrase checks *)

  Lemma mgr_pw_of_derive_accepted b r : mgr_pw_of_derive b r = PwAccepted <-> snd r = None.
  Proof.
    unfold mgr_pw_of_derive. destruct (snd r) as [e|]; [|split; reflexivity].
    split; [|discriminate]. destruct e, b; discriminate.
  Qed.

  Lemma mgr_pw_of_derive_wrong b r : snd r = Some ErrInvalidPassword -> mgr_pw_of_derive b r = PwWrong.
  Proof. unfold mgr_pw_of_derive. intros ->. reflexivity. Qed.

  Definition mgr_pw_base (op : mgr_pw_op) (pub priv : bytes) : bytes :=
    match op with OpOpen | OpChangePub => pub | _ => priv end.

  (** Open / Unlock (locked) / ChangePassphrase accept a passphrase iff it has
      the HMAC key block of the public resp. private passphrase the manager
      was created with and answer "wrong passphrase" otherwise; Unlock on an
      unlocked manager accepts the private passphrase itself and nothing else. *)
  Theorem mgr_pw_check_exact : cf_pw_unchanged cf = true -> cf_digest_cmp cf = None -> forall kdf hash,
    law_kdf_inj kdf hash -> law_kdf_hmac kdf hash -> law_kdf_domain kdf -> law_hash_inj hash ->
    forall pub priv s1 s2 n r p n' r' p' skpub skpriv st,
      new_secret_key_c cf pre kdf hash pub (Some s1) n r p = Ok skpub ->
      new_secret_key_c cf pre kdf hash priv (Some s2) n' r' p' = Ok skpriv ->
      sk_params (mp_pub st) = sk_params skpub -> sk_params (mp_priv st) = sk_params skpriv ->
      mp_priv_pw st = priv ->
      forall op pw',
        let same := match op with
                    | OpUnlockUnlocked => pw' = priv
                    | _ => hmac_key_block hash pw' = hmac_key_block hash (mgr_pw_base op pub priv)
                    end in
        (mgr_pw_check cf pre kdf hash op st pw' = PwAccepted <-> same) /\
        (~ same -> mgr_pw_check cf pre kdf hash op st pw' = PwWrong).
  Proof.
    intros F1 F2 kdf hash L1 L2 L3 L4 pub priv s1 s2 n r p n' r' p' skpub skpriv st Hpub Hpriv HP1 HP2 Hpw op pw'.
    destruct (c_passphrase_exact F1 F2 kdf hash L1 L2 L3 L4 pub s1 n r p skpub (mp_pub st) Hpub HP1) as [_ Epub].
    destruct (c_passphrase_exact F1 F2 kdf hash L1 L2 L3 L4 priv s2 n' r' p' skpriv (mp_priv st) Hpriv HP2) as [_ Epriv].
    destruct (Epub pw') as [Rpub Apub]. destruct (Epriv pw') as [Rpriv Apriv].
    destruct op; cbn [mgr_pw_check mgr_pw_base].
    - split; [rewrite mgr_pw_of_derive_accepted; exact Apub|]. intros Hn. apply mgr_pw_of_derive_wrong. exact (Rpub Hn).
    - split; [rewrite mgr_pw_of_derive_accepted; exact Apriv|]. intros Hn. apply mgr_pw_of_derive_wrong. exact (Rpriv Hn).
    - rewrite Hpw. destruct (bytes_eqb (hash (mp_salt st ++ pw')) (hash (mp_salt st ++ priv))) eqn:E.
      + apply bytes_eqb_eq in E. apply L4 in E. apply app_inv_head in E. split; [split; [intros _; exact E|reflexivity]|].
        intros Hn. contradiction.
      + split; [split; [discriminate|]|reflexivity]. intros ->. rewrite bytes_eqb_refl in E. discriminate.
    - split; [rewrite mgr_pw_of_derive_accepted; exact Apub|]. intros Hn. apply mgr_pw_of_derive_wrong. exact (Rpub Hn).
    - split; [rewrite mgr_pw_of_derive_accepted; exact Apriv|]. intros Hn. apply mgr_pw_of_derive_wrong. exact (Rpriv Hn).
  Qed.
End AsReadProofs.
