(** Proofs about the model of Fee.v (property C07).

    Facts that depend on the constants regenerated from the source enter only
    through explicit premises - [consts_sane = true], [sizes_cover unc = true],
    [relay_floor_exact = true], [change_sizes_cover = true],
    [cfg_vcc cf = true], [init_minimal cf = true] - which Properties/C07.v
    discharges by computation against Generated/TxsizesConsts.v.  The size
    constants enter through INEQUALITIES only (a more conservative constant
    keeps every proof).  This file therefore compiles whatever the source
    says; only Properties/C07.v stops compiling when a premise is false for
    the current source. *)
From Coq Require Import Permutation.
From Verif Require Import Base.Prelude Generated.TxsizesConsts Fee.Fee.
Local Open Scope Z_scope.

Lemma varint_size_bounds n : 1 <= varint_size n <= 9.
Proof. unfold varint_size. repeat destruct (_ <? _); repeat destruct (_ <=? _); lia. Qed.

Lemma varint_size_mono a b : a <= b -> varint_size a <= varint_size b.
Proof. unfold varint_size. intros. 
  destruct (a <? 253) eqn:E1, (b <? 253) eqn:E2, (a <=? 65535) eqn:E3, (b <=? 65535) eqn:E4,
   (a <=? 4294967295) eqn:E5, (b <=? 4294967295) eqn:E6; lia. Qed.

Lemma varint_size_small n : n < 253 -> varint_size n = 1.
Proof. unfold varint_size. intros. destruct (n <? 253) eqn:E; lia. Qed.

Lemma consts_sane_spec : consts_sane = true ->
  0 <= est_in_p2pkh /\ 0 <= est_in_p2wpkh /\ 0 <= est_in_p2tr /\ 0 <= est_in_nested
  /\ 0 <= est_ww_marker /\ 0 <= est_ww_p2wpkh /\ 0 <= est_ww_p2tr /\ 0 <= est_ww_nested
  /\ 0 <= witness_round_add /\ fee_divisor = 1000 /\ 1000 <= default_relay_fee_per_kb.
Proof. unfold consts_sane. lia. Qed.

Lemma consts_sane_divisor : consts_sane = true -> fee_divisor = 1000.
Proof. intros H. apply consts_sane_spec in H. tauto. Qed.

Lemma consts_sane_relay : consts_sane = true -> 1000 <= default_relay_fee_per_kb.
Proof. intros H. apply consts_sane_spec in H. tauto. Qed.

Lemma sizes_cover_spec unc : sizes_cover unc = true ->
  (forall k, worst_weight unc k <= est_weight k) /\ 2 <= est_ww_marker /\ 3 <= witness_round_add.
Proof.
  unfold sizes_cover. cbn [forallb]. rewrite !andb_true_iff, !Z.leb_le.
  intros (((K1&K2&K3&K4&_)&HM)&HR). split; [|split; assumption]. intros k; destruct k; assumption.
Qed.

Lemma fee_for_mono rate s1 s2 : fee_divisor = 1000 -> 0 <= rate -> 1000 <= rate * s1 -> s1 <= s2 ->
  fee_for rate s1 <= fee_for rate s2.
Proof.
  intros HD Hr H1 H2.
  unfold fee_for. rewrite HD. unfold max_satoshi.
  assert (rate * s1 <= rate * s2) by nia.
  assert (Z.quot (rate*s1) 1000 <= Z.quot (rate*s2) 1000) by (apply Z.quot_le_mono; lia).
  assert (1 <= Z.quot (rate*s1) 1000) by (rewrite Z.quot_div_nonneg by lia; apply Z.div_le_lower_bound; lia).
  set (q1 := Z.quot (rate*s1) 1000) in *. set (q2 := Z.quot (rate*s2) 1000) in *.
  clearbody q1 q2.
  destruct (q1 =? 0) eqn:E1, (q2 =? 0) eqn:E2, (0 <? rate) eqn:E3; simpl;
  repeat match goal with |- context [?a <? ?b] => destruct (a <? b) eqn:?; simpl end; lia.
Qed.

Lemma fee_for_pos rate size : fee_divisor = 1000 -> 0 < rate -> 0 <= size -> 0 < fee_for rate size.
Proof.
  intros HD Hr Hs.
  unfold fee_for. rewrite HD. unfold max_satoshi.
  assert (0 <= Z.quot (rate*size) 1000) by (apply Z.quot_pos; nia).
  set (q := Z.quot (rate*size) 1000) in *. clearbody q.
  destruct (q =? 0) eqn:E1, (0 <? rate) eqn:E3; simpl;
  repeat match goal with |- context [?a <? ?b] => destruct (a <? b) eqn:?; simpl end; lia.
Qed.

Lemma fee_for_zero_rate size : fee_for 0 size = 0.
Proof. unfold fee_for. rewrite Z.mul_0_l. destruct fee_divisor; reflexivity. Qed.

Lemma fee_for_nonneg rate size : 0 <= fee_for rate size.
Proof.
  unfold fee_for, max_satoshi. set (q := Z.quot (rate*size) fee_divisor). clearbody q.
  destruct (q =? 0) eqn:E1, (0 <? rate) eqn:E3; simpl;
  repeat match goal with |- context [?a <? ?b] => destruct (a <? b) eqn:?; simpl end; lia.
Qed.

Lemma fee_for_le_max rate size : fee_for rate size <= max_satoshi.
Proof.
  unfold fee_for, max_satoshi. set (q := Z.quot (rate*size) fee_divisor). clearbody q.
  destruct (q =? 0) eqn:E1, (0 <? rate) eqn:E3; simpl;
  repeat match goal with |- context [?a <? ?b] => destruct (a <? b) eqn:?; simpl end; lia.
Qed.

(** Above the point where the "fee 0 becomes the rate" rule can fire, the fee
    is the rate applied to the size per 1000 bytes, rounded down, capped at
    the money supply. *)
Lemma fee_for_spec rate size : fee_divisor = 1000 -> 0 <= rate -> 1000 <= rate * size ->
  fee_for rate size = Z.min (rate * size / 1000) max_satoshi.
Proof.
  intros HD Hr Hs.
  unfold fee_for. rewrite HD. rewrite Z.quot_div_nonneg by lia.
  assert (1 <= rate * size / 1000) by (apply Z.div_le_lower_bound; lia).
  set (q := rate*size/1000) in *. clearbody q. unfold max_satoshi.
  destruct (q =? 0) eqn:E1, (0 <? rate) eqn:E3; simpl;
  repeat match goal with |- context [?a <? ?b] => destruct (a <? b) eqn:?; simpl end; lia.
Qed.

(** ** Dust *)
Lemma out_ser_size_pos sz : 0 <= sz -> 9 <= out_ser_size sz.
Proof. unfold out_ser_size. pose proof (varint_size_bounds sz). lia. Qed.

Lemma dust_threshold_pos sz wit : 0 <= sz -> 0 < dust_threshold sz wit.
Proof.
  intros H. unfold dust_threshold, witness_scale_factor. pose proof (out_ser_size_pos sz H).
  change (Z.quot 107 4) with 26. destruct wit; lia.
Qed.

(** not dust under a relay floor of at least 1000 sat/kvB = at least the
    network's dust threshold *)
Lemma is_dust_false_ge v sz wit relay : 0 <= sz -> 0 <= v -> 1000 <= relay ->
  is_dust v sz wit relay = false -> dust_threshold sz wit <= v.
Proof.
  intros Hs Hv Hr. unfold is_dust. pose proof (dust_threshold_pos sz wit Hs) as HT.
  set (T := dust_threshold sz wit) in *. clearbody T.
  rewrite Z.quot_div_nonneg by lia. rewrite Z.ltb_ge. intros H.
  destruct (Z_lt_ge_dec v T) as [Hlt|]; [exfalso|lia].
  assert (v * 1000 / T < 1000) by (apply Z.div_lt_upper_bound; nia). lia.
Qed.

(** dust at exactly the network's floor = below the dust threshold *)
Lemma is_dust_true_lt v sz wit : 0 <= sz -> 0 <= v ->
  is_dust v sz wit 1000 = true -> v < dust_threshold sz wit.
Proof.
  intros Hs Hv. unfold is_dust. pose proof (dust_threshold_pos sz wit Hs) as HT.
  set (T := dust_threshold sz wit) in *. clearbody T.
  rewrite Z.quot_div_nonneg by lia. rewrite Z.ltb_lt. intros H.
  destruct (Z_lt_ge_dec v T) as [|G]; [assumption|exfalso].
  assert (1000 <= v * 1000 / T) by (apply Z.div_le_lower_bound; nia). lia.
Qed.

Lemma out_ser_size_mono a b : a <= b -> out_ser_size a <= out_ser_size b.
Proof. intros H. unfold out_ser_size. pose proof (varint_size_mono a b H). lia. Qed.

(** ** The estimate *)
Definition counts_nonneg (c : counts) : Prop :=
  0 <= n_p2pkh c /\ 0 <= n_p2tr c /\ 0 <= n_p2wpkh c /\ 0 <= n_nested c.
Definition counts_le (c d : counts) : Prop :=
  n_p2pkh c <= n_p2pkh d /\ n_p2tr c <= n_p2tr d /\ n_p2wpkh c <= n_p2wpkh d /\ n_nested c <= n_nested d.

Definition est_outputs (vcc : bool) (outs : list txout) (chg : Z) : Z :=
  8 + varint_size (if vcc then (if 0 <? chg then Z.of_nat (length outs) + 1 else Z.of_nat (length outs))
                   else Z.of_nat (length outs))
    + sum_out_sizes outs + (if 0 <? chg then 8 + varint_size chg + chg else 0).

Lemma est_vsize_decomp vcc c outs chg :
  est_vsize_gen vcc c outs chg = est_outputs vcc outs chg + est_inputs c.
Proof. unfold est_vsize_gen, est_outputs, est_inputs. lia. Qed.

(** the numerator of the rounded witness term *)
Definition est_ww (c : counts) : Z :=
  (if 0 <? n_p2wpkh c + n_nested c + n_p2tr c then
     est_ww_marker + varint_size (n_p2wpkh c + n_nested c + n_p2tr c)
     + n_p2wpkh c * est_ww_p2wpkh + n_p2tr c * est_ww_p2tr + n_nested c * est_ww_nested
   else 0) + witness_round_add.

(** the part that is linear in the counts *)
Definition est_lin (c : counts) : Z :=
  n_p2pkh c * est_in_p2pkh + n_p2wpkh c * est_in_p2wpkh + n_p2tr c * est_in_p2tr + n_nested c * est_in_nested.

Lemma est_ww_nonneg c : consts_sane = true -> counts_nonneg c -> 0 <= est_ww c.
Proof.
  intros HS (H1&H2&H3&H4). apply consts_sane_spec in HS.
  destruct HS as (_&_&_&_&M&W1&W2&W3&R&_). unfold est_ww.
  pose proof (varint_size_bounds (n_p2wpkh c + n_nested c + n_p2tr c)).
  pose proof (Z.mul_nonneg_nonneg _ _ H3 W1). pose proof (Z.mul_nonneg_nonneg _ _ H2 W2).
  pose proof (Z.mul_nonneg_nonneg _ _ H4 W3).
  destruct (0 <? _); lia.
Qed.

Lemma est_inputs_unfold c : consts_sane = true -> counts_nonneg c ->
  est_inputs c = varint_size (n_p2pkh c + n_p2tr c + n_p2wpkh c + n_nested c) + est_lin c + est_ww c / 4.
Proof.
  intros HS Hc. pose proof (est_ww_nonneg c HS Hc) as Hn.
  unfold est_inputs, est_lin, witness_scale_factor. fold (est_ww c).
  rewrite Z.quot_div_nonneg by lia. lia.
Qed.

Lemma est_lin_mono c d : consts_sane = true -> counts_le c d -> est_lin c <= est_lin d.
Proof.
  intros HS (L1&L2&L3&L4). apply consts_sane_spec in HS.
  destruct HS as (C1&C2&C3&C4&_). unfold est_lin.
  pose proof (Z.mul_le_mono_nonneg_r _ _ _ C1 L1). pose proof (Z.mul_le_mono_nonneg_r _ _ _ C2 L3).
  pose proof (Z.mul_le_mono_nonneg_r _ _ _ C3 L2). pose proof (Z.mul_le_mono_nonneg_r _ _ _ C4 L4). lia.
Qed.

Lemma est_lin_nonneg c : consts_sane = true -> counts_nonneg c -> 0 <= est_lin c.
Proof.
  intros HS (H1&H2&H3&H4). apply consts_sane_spec in HS.
  destruct HS as (C1&C2&C3&C4&_). unfold est_lin.
  pose proof (Z.mul_nonneg_nonneg _ _ H1 C1). pose proof (Z.mul_nonneg_nonneg _ _ H3 C2).
  pose proof (Z.mul_nonneg_nonneg _ _ H2 C3). pose proof (Z.mul_nonneg_nonneg _ _ H4 C4). lia.
Qed.

Lemma est_ww_mono c d : consts_sane = true -> counts_nonneg c -> counts_le c d -> est_ww c <= est_ww d.
Proof.
  intros HS (H1&H2&H3&H4) (L1&L2&L3&L4). apply consts_sane_spec in HS.
  destruct HS as (_&_&_&_&M&W1&W2&W3&R&_). unfold est_ww.
  pose proof (varint_size_mono (n_p2wpkh c + n_nested c + n_p2tr c)
                (n_p2wpkh d + n_nested d + n_p2tr d) ltac:(lia)).
  pose proof (varint_size_bounds (n_p2wpkh d + n_nested d + n_p2tr d)).
  pose proof (Z.mul_le_mono_nonneg_r _ _ _ W1 L3). pose proof (Z.mul_le_mono_nonneg_r _ _ _ W2 L2).
  pose proof (Z.mul_le_mono_nonneg_r _ _ _ W3 L4).
  assert (0 <= n_p2wpkh d * est_ww_p2wpkh) by (apply Z.mul_nonneg_nonneg; lia).
  assert (0 <= n_p2tr d * est_ww_p2tr) by (apply Z.mul_nonneg_nonneg; lia).
  assert (0 <= n_nested d * est_ww_nested) by (apply Z.mul_nonneg_nonneg; lia).
  destruct (0 <? n_p2wpkh c + n_nested c + n_p2tr c) eqn:Ec,
           (0 <? n_p2wpkh d + n_nested d + n_p2tr d) eqn:Ed; lia.
Qed.

Lemma counts_le_nonneg c d : counts_nonneg c -> counts_le c d -> counts_nonneg d.
Proof. unfold counts_nonneg, counts_le. lia. Qed.

Lemma est_inputs_mono c d : consts_sane = true -> counts_nonneg c -> counts_le c d ->
  est_inputs c <= est_inputs d.
Proof.
  intros HS Hc Hl. pose proof (counts_le_nonneg c d Hc Hl) as Hd.
  rewrite (est_inputs_unfold c HS Hc), (est_inputs_unfold d HS Hd).
  pose proof (est_lin_mono c d HS Hl). pose proof (est_ww_mono c d HS Hc Hl).
  pose proof (Z.div_le_mono (est_ww c) (est_ww d) 4 ltac:(lia) ltac:(assumption)).
  destruct Hc as (Nc1&Nc2&Nc3&Nc4). destruct Hl as (L1&L2&L3&L4).
  pose proof (varint_size_mono (n_p2pkh c + n_p2tr c + n_p2wpkh c + n_nested c)
                (n_p2pkh d + n_p2tr d + n_p2wpkh d + n_nested d) ltac:(lia)). lia.
Qed.

Lemma est_size_mono vcc c d outs chg : consts_sane = true -> counts_nonneg c -> counts_le c d ->
  est_vsize_gen vcc c outs chg <= est_vsize_gen vcc d outs chg.
Proof. intros. rewrite !est_vsize_decomp. pose proof (est_inputs_mono c d); lia. Qed.

Lemma est_inputs_nonneg c : consts_sane = true -> counts_nonneg c -> 1 <= est_inputs c.
Proof.
  intros HS Hc. rewrite (est_inputs_unfold c HS Hc).
  pose proof (est_lin_nonneg c HS Hc). pose proof (est_ww_nonneg c HS Hc).
  pose proof (Z.div_pos (est_ww c) 4 ltac:(assumption) ltac:(lia)).
  pose proof (varint_size_bounds (n_p2pkh c + n_p2tr c + n_p2wpkh c + n_nested c)). lia.
Qed.

Definition outs_wf (outs : list txout) : Prop := Forall (fun o => 0 <= out_size o) outs.

Lemma sum_out_sizes_nonneg outs : outs_wf outs -> 0 <= sum_out_sizes outs.
Proof.
  induction 1 as [|o l Ho Hl IH]; cbn [sum_out_sizes fold_right]; [lia|].
  pose proof (out_ser_size_pos _ Ho). unfold sum_out_sizes in IH. lia.
Qed.

Lemma est_outputs_lb vcc outs chg : outs_wf outs -> 0 <= chg -> 9 <= est_outputs vcc outs chg.
Proof.
  intros Ho Hc. unfold est_outputs. pose proof (sum_out_sizes_nonneg outs Ho).
  pose proof (varint_size_bounds chg).
  match goal with |- context [varint_size (if vcc then ?a else ?b)] => pose proof (varint_size_bounds (if vcc then a else b)) end.
  destruct (0 <? chg); lia.
Qed.

Lemma est_size_lb vcc c outs chg : consts_sane = true -> counts_nonneg c -> outs_wf outs -> 0 <= chg ->
  10 <= est_vsize_gen vcc c outs chg.
Proof.
  intros. rewrite est_vsize_decomp. pose proof (est_outputs_lb vcc outs chg). pose proof (est_inputs_nonneg c). lia.
Qed.

(** counts of a list of kinds *)
Lemma add_kind_nonneg k c : counts_nonneg c -> counts_nonneg (add_kind k c).
Proof. unfold counts_nonneg. destruct k; cbn; lia. Qed.

Lemma counts_of_nonneg ks : counts_nonneg (counts_of ks).
Proof. induction ks as [|k ks IH]; cbn [counts_of fold_right]; [unfold counts_nonneg; cbn; lia|]. apply add_kind_nonneg, IH. Qed.

Lemma counts_le_refl c : counts_le c c.
Proof. unfold counts_le; lia. Qed.

Lemma counts_of_app_le l1 l2 : counts_le (counts_of l1) (counts_of (l1 ++ l2)).
Proof.
  induction l1 as [|k l1 IH].
  - pose proof (counts_of_nonneg l2) as H. cbn [app]. change (counts_of []) with zero_counts.
    unfold counts_le, counts_nonneg in *. cbn [zero_counts n_p2pkh n_p2tr n_p2wpkh n_nested]. lia.
  - cbn [app counts_of fold_right]. fold (counts_of l1). fold (counts_of (l1 ++ l2)).
    unfold counts_le in *. destruct k; cbn [add_kind n_p2pkh n_p2tr n_p2wpkh n_nested]; lia.
Qed.

Lemma counts_of_cons_unit k l : counts_le (unit_counts k) (counts_of (k :: l)).
Proof.
  pose proof (counts_of_nonneg l) as H. cbn [counts_of fold_right]. fold (counts_of l).
  unfold unit_counts, counts_le, counts_nonneg in *.
  destruct k; cbn [add_kind zero_counts n_p2pkh n_p2tr n_p2wpkh n_nested]; lia.
Qed.

Lemma counts_total ks :
  n_p2pkh (counts_of ks) + n_p2tr (counts_of ks) + n_p2wpkh (counts_of ks) + n_nested (counts_of ks)
  = Z.of_nat (length ks).
Proof.
  induction ks as [|k ks IH]; [reflexivity|]. cbn [counts_of fold_right length]. fold (counts_of ks).
  destruct k; cbn [add_kind n_p2pkh n_p2tr n_p2wpkh n_nested]; lia.
Qed.

(** ** The estimate bounds the signed size *)

(** What a signed input may look like.  ECDSA kinds: DER signature of at most
    72 bytes (btcec signs low-S: 8..71, in practice 70 or 71; 72 is the
    encoding's maximum for a high-S signature), to which the signer appends
    the sighash byte; public key serialized compressed (33 bytes) - or, for
    P2PKH only and only when [unc] says the constants cover it, uncompressed
    (65 bytes).  P2TR key spend: 64-byte BIP-340 signature, 65 with an explicit
    sighash byte.  [mixed] = the transaction has witness data: then every
    P2PKH input also carries one byte of (empty) witness, which
    EstimateVirtualSize does not count, and the bound for its signature is 71
    instead of 72. *)
Definition sig_ok (mixed unc : bool) (i : sinput) : Prop :=
  match si_kind i with
  | P2PKH => 0 <= si_sig i <= (if mixed then 71 else 72) /\ (si_pk i = 33 \/ (unc = true /\ si_pk i = 65))
  | P2WPKH | NP2WPKH => 0 <= si_sig i <= 72 /\ si_pk i = 33
  | P2TR => 0 <= si_sig i <= 65
  end.

Definition admissible (unc : bool) (ins : list sinput) : Prop := Forall (sig_ok (has_witness ins) unc) ins.

Lemma in_weight_le m unc i : sig_ok m unc i ->
  4 * in_base i + (if m then in_wit i else 0) <= worst_weight unc (si_kind i).
Proof.
  unfold sig_ok, in_base, in_wit, worst_weight. destruct i as [k s pk]; cbn [si_kind si_sig si_pk].
  destruct k; intros H.
  - destruct H as (Hs & [->|(-> & ->)]).
    + rewrite varint_size_small by (destruct m; lia). destruct m, unc; lia.
    + rewrite varint_size_small by (destruct m; lia). destruct m; lia.
  - destruct m; lia.
  - destruct H as (Hs & ->). destruct m; lia.
  - destruct H as (Hs & ->). destruct m; lia.
Qed.

Lemma sum_in_weight_le m unc ins : Forall (sig_ok m unc) ins ->
  4 * sum_in_base ins + (if m then sum_in_wit ins else 0)
  <= fold_right (fun i a => worst_weight unc (si_kind i) + a) 0 ins.
Proof.
  induction 1 as [|i l Hi Hl IH]; cbn [sum_in_base sum_in_wit fold_right]; [destruct m; lia|].
  pose proof (in_weight_le m unc i Hi). unfold sum_in_base, sum_in_wit in IH. destruct m; lia.
Qed.

Lemma in_nonneg m unc i : sig_ok m unc i -> 0 <= in_base i /\ 0 <= in_wit i.
Proof.
  destruct i as [k s pk]. unfold sig_ok, in_base, in_wit. cbn [si_kind si_sig si_pk]. intros Hi.
  pose proof (varint_size_bounds (1 + (s + 1) + 1 + pk)). destruct k, m; lia.
Qed.

Lemma sum_in_nonneg m unc ins : Forall (sig_ok m unc) ins -> 0 <= sum_in_base ins /\ 0 <= sum_in_wit ins.
Proof.
  unfold sum_in_base, sum_in_wit.
  induction 1 as [|i l Hi Hl IH]; cbn [fold_right]; [lia|].
  pose proof (in_nonneg m unc i Hi). lia.
Qed.

Lemma sum_worst_weight unc (ins : list sinput) :
  let c := counts_of (map si_kind ins) in
  fold_right (fun i a => worst_weight unc (si_kind i) + a) 0 ins
  = n_p2pkh c * worst_weight unc P2PKH + n_p2wpkh c * worst_weight unc P2WPKH
    + n_p2tr c * worst_weight unc P2TR + n_nested c * worst_weight unc NP2WPKH.
Proof.
  induction ins as [|i l IH]; [cbn; lia|]. cbn zeta in *.
  cbn [fold_right map counts_of]. fold (counts_of (map si_kind l)). rewrite IH.
  set (w1 := worst_weight unc P2PKH). set (w2 := worst_weight unc P2WPKH).
  set (w3 := worst_weight unc P2TR). set (w4 := worst_weight unc NP2WPKH).
  destruct i as [k s pk]; cbn [si_kind]. destruct k; cbn [add_kind n_p2pkh n_p2tr n_p2wpkh n_nested]; fold w1 w2 w3 w4; lia.
Qed.

(** what the estimate allots to the inputs, as a weight *)
Lemma sum_worst_le_est unc c : sizes_cover unc = true -> counts_nonneg c ->
  n_p2pkh c * worst_weight unc P2PKH + n_p2wpkh c * worst_weight unc P2WPKH
    + n_p2tr c * worst_weight unc P2TR + n_nested c * worst_weight unc NP2WPKH
  <= 4 * est_lin c + (n_p2wpkh c * est_ww_p2wpkh + n_p2tr c * est_ww_p2tr + n_nested c * est_ww_nested).
Proof.
  intros HC (H1&H2&H3&H4). apply sizes_cover_spec in HC. destruct HC as (HK&_).
  pose proof (Z.mul_le_mono_nonneg_l _ _ _ H1 (HK P2PKH)) as K1.
  pose proof (Z.mul_le_mono_nonneg_l _ _ _ H3 (HK P2WPKH)) as K2.
  pose proof (Z.mul_le_mono_nonneg_l _ _ _ H2 (HK P2TR)) as K3.
  pose proof (Z.mul_le_mono_nonneg_l _ _ _ H4 (HK NP2WPKH)) as K4.
  unfold est_weight in K1, K2, K3, K4. unfold est_lin. lia.
Qed.

Lemma has_witness_counts (ins : list sinput) :
  let c := counts_of (map si_kind ins) in
  has_witness ins = (0 <? n_p2wpkh c + n_nested c + n_p2tr c).
Proof.
  cbn zeta. unfold has_witness. induction ins as [|i l IH]; [reflexivity|].
  pose proof (counts_of_nonneg (map si_kind l)) as (N1&N2&N3&N4).
  cbn [existsb map counts_of fold_right]. fold (counts_of (map si_kind l)).
  rewrite IH. destruct i as [k s pk]; cbn [si_kind].
  destruct k; cbn [kind_eqb negb orb add_kind n_p2pkh n_p2tr n_p2wpkh n_nested].
  all: try reflexivity; symmetry; apply Z.ltb_lt; lia.
Qed.

Lemma sum_out_sizes_app a b : sum_out_sizes (a ++ b) = sum_out_sizes a + sum_out_sizes b.
Proof. unfold sum_out_sizes. induction a as [|o a IH]; cbn [app fold_right]; lia. Qed.

Lemma sum_values_app a b : sum_values (a ++ b) = sum_values a + sum_values b.
Proof. unfold sum_values. induction a as [|o a IH]; cbn [app fold_right]; lia. Qed.

(** The key lemma: with the output-count compact-size taken over the count
    that includes the change output, and a change script no longer than
    declared, the estimate is an upper bound of the signed virtual size,
    whether or not the change output was added. *)
Lemma est_ge_real unc ins outs chg chgr v outs' :
  consts_sane = true -> sizes_cover unc = true -> 0 < chg -> 0 <= chgr <= chg -> outs_wf outs -> admissible unc ins ->
  outs' = outs \/ outs' = outs ++ [mkOut v chgr] ->
  real_vsize ins outs' <= est_vsize_gen true (counts_of (map si_kind ins)) outs chg.
Proof.
  intros HS HC Hchg Hchgr Hwf Hadm Houts.
  pose proof (counts_of_nonneg (map si_kind ins)) as Hcn.
  pose proof (sum_worst_le_est unc _ HC Hcn) as HW.
  pose proof (est_ww_nonneg _ HS Hcn) as Hwwn.
  rewrite est_vsize_decomp, (est_inputs_unfold _ HS Hcn).
  apply sizes_cover_spec in HC. destruct HC as (_&HM&HR).
  unfold admissible in Hadm. pose proof (sum_in_nonneg _ _ _ Hadm) as (Nb&Nw).
  apply sum_in_weight_le in Hadm.
  assert (Hso' : 0 <= sum_out_sizes outs').
  { destruct Houts as [->| ->]; [apply sum_out_sizes_nonneg, Hwf|].
    apply sum_out_sizes_nonneg. apply Forall_app; split; [exact Hwf|]. repeat constructor. cbn. lia. }
  rewrite sum_worst_weight in Hadm. cbn zeta in Hadm.
  pose proof (has_witness_counts ins) as HWt. cbn zeta in HWt.
  pose proof (counts_total (map si_kind ins)) as HT. rewrite map_length in HT.
  destruct Hcn as (N1&N2&N3&N4).
  unfold real_vsize, real_weight, real_total, real_base, est_outputs, est_ww, witness_scale_factor.
  set (c := counts_of (map si_kind ins)) in *. clearbody c.
  rewrite HT. assert (Hc : (0 <? chg) = true) by lia. rewrite Hc.
  pose proof (varint_size_bounds chg) as Vc.
  pose proof (varint_size_bounds (n_p2wpkh c + n_nested c + n_p2tr c)) as Vw.
  assert (HO : varint_size (Z.of_nat (length outs')) + sum_out_sizes outs'
               <= varint_size (Z.of_nat (length outs) + 1) + sum_out_sizes outs + (8 + varint_size chg + chg)).
  { destruct Houts as [->| ->].
    - pose proof (varint_size_mono (Z.of_nat (length outs)) (Z.of_nat (length outs) + 1) ltac:(lia)). lia.
    - rewrite sum_out_sizes_app, app_length. cbn [length sum_out_sizes fold_right out_size].
      pose proof (out_ser_size_mono chgr chg ltac:(lia)) as Hm. unfold out_ser_size in Hm |- *.
      replace (Z.of_nat (length outs + 1)) with (Z.of_nat (length outs) + 1) by lia. lia. }
  pose proof (varint_size_bounds (Z.of_nat (length outs'))).
  pose proof (varint_size_bounds (Z.of_nat (length ins))).
  set (vo' := varint_size (Z.of_nat (length outs'))) in *.
  set (vo := varint_size (Z.of_nat (length outs) + 1)) in *.
  set (vi := varint_size (Z.of_nat (length ins))) in *.
  set (so' := sum_out_sizes outs') in *. set (so := sum_out_sizes outs) in *.
  set (lin := est_lin c) in *.
  set (p1 := n_p2wpkh c * est_ww_p2wpkh) in *. set (p2 := n_p2tr c * est_ww_p2tr) in *.
  set (p3 := n_nested c * est_ww_nested) in *.
  clearbody vo' vo vi so' so lin.
  rewrite HWt in *.
  destruct (0 <? n_p2wpkh c + n_nested c + n_p2tr c) eqn:Ew.
  - clearbody p1 p2 p3. rewrite Z.quot_div_nonneg by lia. lia.
  - assert (n_p2wpkh c = 0 /\ n_p2tr c = 0 /\ n_nested c = 0) as (Z1&Z2&Z3) by lia.
    subst p1 p2 p3. rewrite Z1, Z2, Z3 in *. rewrite !Z.mul_0_l in *.
    rewrite Z.quot_div_nonneg by lia. lia.
Qed.

(** ** The input source *)
Lemma sum_coins_app a b : sum_coins (a ++ b) = sum_coins a + sum_coins b.
Proof. unfold sum_coins. induction a as [|c a IH]; cbn [app fold_right]; lia. Qed.

Lemma pull_spec fixed target rest : forall total taken total' taken' rest',
  pull fixed target total taken rest = (total', taken', rest') ->
  exists more, rest = more ++ rest' /\ taken' = taken ++ more /\
    total' = total + sum_coins more /\
    (target <= total' \/ rest' = []) /\
    (total < target -> rest <> [] -> more <> []).
Proof.
  induction rest as [|c rest IH]; intros total taken total' taken' rest' H; cbn [pull] in H.
  - inv H. exists []. change (sum_coins []) with 0.
    split; [reflexivity|]. split; [symmetry; apply app_nil_r|]. split; [lia|]. split; [right; reflexivity|]. intros _ Hn; exact Hn.
  - destruct (fixed || (total <? target)) eqn:E.
    + apply IH in H. destruct H as (more & -> & -> & -> & Hstop & _).
      exists (c :: more). rewrite <- app_assoc. cbn [app]. 
      change (sum_coins (c :: more)) with (snd c + sum_coins more).
      split; [reflexivity|]. split; [reflexivity|]. split; [lia|]. split; [exact Hstop|]. intros _ _; discriminate.
    + apply orb_false_iff in E. destruct E as (_ & E). inv H. exists []. change (sum_coins []) with 0.
      split; [reflexivity|]. split; [symmetry; apply app_nil_r|]. split; [lia|]. split; [left; lia|]. intros Hc; lia.
Qed.

(** the explicit selection is handed out whole, whatever the target *)
Lemma pull_fixed_all target rest : forall total taken,
  pull true target total taken rest = (total + sum_coins rest, taken ++ rest, []).
Proof.
  induction rest as [|c rest IH]; intros total taken; cbn [pull orb].
  - change (sum_coins []) with 0. rewrite app_nil_r. f_equal. f_equal. lia.
  - rewrite IH. change (sum_coins (c :: rest)) with (snd c + sum_coins rest). rewrite <- app_assoc. cbn [app].
    f_equal. f_equal. lia.
Qed.

Section AuthorProofs.
  Variable cf : cfg.
  Variable fixed : bool.
  Variable outs : list txout.
  Variable rate : Z.
  Variable chg : Z.
  Variable chgr : Z.
  Variable chgwit : bool.

  Notation loop := (author_loop cf fixed outs rate chg chgr chgwit).
  Notation esz := (est_size cf outs chg).

  (** What a successful run returns. *)
  Definition success_spec (coins_taken_before : list coin) (rest : list coin) (a : authored) : Prop :=
    exists more rest',
      rest = more ++ rest' /\ a_inputs a = coins_taken_before ++ more /\
      a_total_in a = sum_coins (a_inputs a) /\
      a_est a = esz (counts_of (map fst (a_inputs a))) /\
      a_req_fee a = fee_for rate (a_est a) /\
      let c := a_total_in a - sum_values outs - a_req_fee a in
      0 <= c /\
      ((a_change a = Some c /\ a_outs a = outs ++ [mkOut c chgr] /\ a_change_index a = Some (length outs)
        /\ c <> 0 /\ is_dust c chgr chgwit default_relay_fee_per_kb = false)
       \/ (a_change a = None /\ a_outs a = outs /\ a_change_index a = None
           /\ (c = 0 \/ is_dust c chgr chgwit default_relay_fee_per_kb = true))).

  Lemma loop_success fuel : forall rnd tf total taken rest a,
    loop fuel rnd tf total taken rest = Success a -> total = sum_coins taken ->
    success_spec taken rest a.
  Proof.
    induction fuel as [|fuel IH]; intros rnd tf total taken rest a H Ht; cbn [author_loop] in H; [discriminate|].
    destruct (pull fixed (sum_values outs + tf) total taken rest) as [[total' taken'] rest'] eqn:EP.
    apply pull_spec in EP. destruct EP as (more & -> & -> & -> & Hstop & _).
    destruct (_ <? _) eqn:E1 in H; [discriminate|].
    destruct (_ <? _) eqn:E2 in H.
    - apply IH in H; [|rewrite sum_coins_app; lia].
      destruct H as (more2 & rest2 & -> & Hin & Hrest).
      exists (more ++ more2), rest2. rewrite <- !app_assoc in *. split; [reflexivity|]. split; [exact Hin|exact Hrest].
    - inv H. exists more, rest'. cbn [a_inputs a_total_in a_est a_req_fee a_change a_outs a_change_index].
      split; [reflexivity|]. split; [reflexivity|]. split; [rewrite sum_coins_app; lia|].
      split; [reflexivity|]. split; [reflexivity|]. cbn zeta.
      split; [lia|].
      destruct (_ =? 0) eqn:E3; cbn [negb andb].
      + right. repeat split; auto. left; lia.
      + destruct (is_dust _ _ _ _) eqn:E4; cbn [negb].
        * right. repeat split; auto.
        * left. repeat split; auto. lia.
  Qed.

  (** What "insufficient funds" means: every coin was handed out and the
      total is below the outputs plus the fee target of that round, which is
      the target the loop was entered with or the required fee of an earlier
      round, i.e. of a prefix of the arrangement. *)
  Lemma loop_insufficient fuel : forall rnd tf total taken rest r,
    loop fuel rnd tf total taken rest = InsufficientFunds r -> total = sum_coins taken ->
    exists tf', sum_coins (taken ++ rest) < sum_values outs + tf' /\
      (tf' = tf \/ exists p q, taken ++ rest = p ++ q /\ tf' = fee_for rate (esz (counts_of (map fst p)))).
  Proof.
    induction fuel as [|fuel IH]; intros rnd tf total taken rest r H Ht; cbn [author_loop] in H; [discriminate|].
    destruct (pull fixed (sum_values outs + tf) total taken rest) as [[total' taken'] rest'] eqn:EP.
    apply pull_spec in EP. destruct EP as (more & -> & -> & -> & Hstop & _).
    destruct (_ <? _) eqn:E1 in H.
    - exists tf. destruct Hstop as [Hs| ->]; [lia|]. rewrite app_nil_r, sum_coins_app. split; [lia|left; reflexivity].
    - destruct (_ <? _) eqn:E2 in H; [|discriminate].
      apply IH in H; [|rewrite sum_coins_app; lia].
      destruct H as (tf' & Hlt & Htf). rewrite <- app_assoc in Hlt. exists tf'. split; [exact Hlt|].
      destruct Htf as [->|(p & q & Hpq & ->)].
      + right. exists (taken ++ more), rest'. rewrite <- app_assoc. split; reflexivity.
      + right. exists p, q. rewrite <- app_assoc in Hpq. split; [exact Hpq|reflexivity].
  Qed.

  (** The fuel is enough. *)
  Lemma loop_fuel fuel : forall rnd tf total taken rest,
    (length rest < fuel)%nat -> total < sum_values outs + tf ->
    loop fuel rnd tf total taken rest <> OutOfFuel.
  Proof.
    induction fuel as [|fuel IH]; intros rnd tf total taken rest Hf Hlt; [lia|]. cbn [author_loop].
    destruct (pull fixed (sum_values outs + tf) total taken rest) as [[total' taken'] rest'] eqn:EP.
    apply pull_spec in EP. destruct EP as (more & -> & -> & -> & Hstop & Hmore).
    match goal with |- context [if ?b then InsufficientFunds _ else _] => destruct b eqn:E1 end;
      [intro HH; discriminate HH|].
    match goal with |- context [if ?b then author_loop _ _ _ _ _ _ _ _ _ _ _ _ _ else _] => destruct b eqn:E2 end;
      [|intro HH; discriminate HH].
    apply IH; [|lia].
    destruct more as [|c more]; [|rewrite app_length in Hf; cbn [length] in Hf; lia].
    destruct rest' as [|c rest']; [|exfalso; apply Hmore; [lia|discriminate|reflexivity]].
    cbn [app sum_coins fold_right] in *. lia.
  Qed.
  (** The round counter never exceeds the fuel. *)
  Lemma loop_rounds fuel : forall rnd tf total taken rest,
    match loop fuel rnd tf total taken rest with
    | Success a => (a_rounds a <= rnd + fuel)%nat
    | InsufficientFunds r => (r <= rnd + fuel)%nat
    | OutOfFuel => True
    end.
  Proof.
    induction fuel as [|fuel IH]; intros rnd tf total taken rest; cbn [author_loop]; [exact I|].
    destruct (pull fixed (sum_values outs + tf) total taken rest) as [[total' taken'] rest'].
    match goal with |- context [if ?b then InsufficientFunds _ else _] => destruct b end; [lia|].
    match goal with |- context [if ?b then author_loop _ _ _ _ _ _ _ _ _ _ _ _ _ else _] => destruct b end.
    - specialize (IH (S rnd) (fee_for rate (esz (counts_of (map fst taken')))) total' taken' rest').
      destruct (loop fuel (S rnd) _ total' taken' rest'); try lia; exact I.
    - cbn [a_rounds]. lia.
  Qed.
End AuthorProofs.

(** ** No prefix of the arrangement would have been enough *)
Lemma pull_minimal target rest : forall total taken total' taken' rest',
  pull false target total taken rest = (total', taken', rest') ->
  forall m1 m2, taken' = taken ++ m1 ++ m2 -> m2 <> [] -> total + sum_coins m1 < target.
Proof.
  induction rest as [|c rest IH]; intros total taken total' taken' rest' H m1 m2 Heq Hne; cbn [pull] in H.
  - injection H as _ E2 _. rewrite <- E2 in Heq. rewrite <- (app_nil_r taken) in Heq at 1. apply app_inv_head in Heq.
    symmetry in Heq. apply app_eq_nil in Heq. destruct Heq; contradiction.
  - cbn [orb] in H. destruct (total <? target) eqn:E.
    + destruct m1 as [|x m1].
      * change (sum_coins []) with 0. lia.
      * pose proof (pull_spec _ _ _ _ _ _ _ _ H) as (more & _ & Ht & _).
        rewrite Heq in Ht. rewrite <- !app_assoc in Ht. apply app_inv_head in Ht.
        cbn [app] in Ht. inv Ht.
        change (sum_coins (c :: m1)) with (snd c + sum_coins m1).
        specialize (IH _ _ _ _ _ H m1 m2). rewrite <- !app_assoc in IH. cbn [app] in IH.
        specialize (IH eq_refl Hne). lia.
    + injection H as _ E2 _. rewrite <- E2 in Heq. rewrite <- (app_nil_r taken) in Heq at 1. apply app_inv_head in Heq.
      symmetry in Heq. apply app_eq_nil in Heq. destruct Heq; contradiction.
Qed.

Section NoPrefix.
  Variable cf : cfg.
  Variable outs : list txout.
  Variable rate : Z.
  Variable chg : Z.
  Variable chgr : Z.
  Variable chgwit : bool.
  Notation loop := (author_loop cf false outs rate chg chgr chgwit).
  Notation esz := (est_size cf outs chg).
  Notation need Q := (sum_values outs + fee_for rate (esz (counts_of (map fst Q)))).

  Hypothesis Hmono : forall p e : list coin,
    fee_for rate (esz (counts_of (map fst p))) <= fee_for rate (esz (counts_of (map fst (p ++ e)))).

  Lemma loop_no_prefix_covers fuel : forall rnd tf total taken rest r,
    loop fuel rnd tf total taken rest = InsufficientFunds r -> total = sum_coins taken ->
    (forall e q, rest = e ++ q -> e <> [] -> tf <= fee_for rate (esz (counts_of (map fst (taken ++ e))))) ->
    forall e q, rest = e ++ q -> e <> [] -> sum_coins (taken ++ e) < need (taken ++ e).
  Proof.
    induction fuel as [|fuel IH]; intros rnd tf total taken rest r H Ht Htf e q He Hne;
      cbn [author_loop] in H; [discriminate|].
    destruct (pull false (sum_values outs + tf) total taken rest) as [[total' taken'] rest'] eqn:EP.
    pose proof (pull_minimal _ _ _ _ _ _ _ EP) as Hmin.
    apply pull_spec in EP. destruct EP as (more & Hrest & -> & -> & Hstop & _).
    rewrite Hrest in He. apply app_eq_app in He. destruct He as (l & [(Hm & Hq)|(Hm & Hq)]).
    - (* e is a prefix of what was pulled *)
      destruct l as [|x l].
      + rewrite app_nil_r in Hm. subst e.
        match type of H with context [if ?b then InsufficientFunds _ else _] => destruct b eqn:E1 end.
        * specialize (Htf more rest' Hrest Hne). rewrite sum_coins_app. lia.
        * match type of H with context [if ?b then author_loop _ _ _ _ _ _ _ _ _ _ _ _ _ else _] => destruct b eqn:E2 end;
            [|discriminate].
          rewrite sum_coins_app. lia.
      + specialize (Hmin e (x :: l)). rewrite Hm in Hmin. specialize (Hmin eq_refl ltac:(discriminate)).
        specialize (Htf e q). rewrite Hrest, Hm, Hq, <- app_assoc in Htf. specialize (Htf eq_refl Hne).
        rewrite sum_coins_app. lia.
    - (* e goes beyond what was pulled *)
      destruct l as [|x l].
      + rewrite app_nil_r in Hm. subst e.
        match type of H with context [if ?b then InsufficientFunds _ else _] => destruct b eqn:E1 end.
        * specialize (Htf more rest' Hrest Hne). rewrite sum_coins_app. lia.
        * match type of H with context [if ?b then author_loop _ _ _ _ _ _ _ _ _ _ _ _ _ else _] => destruct b eqn:E2 end;
            [|discriminate].
          rewrite sum_coins_app. lia.
      + match type of H with context [if ?b then InsufficientFunds _ else _] => destruct b eqn:E1 end.
        * destruct Hstop as [Hs|Hs]; [lia|]. rewrite Hs in Hq. discriminate.
        * match type of H with context [if ?b then author_loop _ _ _ _ _ _ _ _ _ _ _ _ _ else _] => destruct b eqn:E2 end;
            [|discriminate].
          subst e. rewrite app_assoc.
          eapply IH with (q := q); [exact H|rewrite sum_coins_app; lia| |exact Hq|discriminate].
          intros e' q' _ _. apply Hmono.
  Qed.
End NoPrefix.


Lemma mk_sinputs_kinds (ks : list kind) (sg : list (Z * Z)) : length ks = length sg ->
  map si_kind (mk_sinputs ks sg) = ks.
Proof.
  unfold mk_sinputs. revert sg. induction ks as [|k ks IH]; intros [|g sg] H; cbn in *; try discriminate; [reflexivity|].
  f_equal. apply IH. lia.
Qed.

Lemma init_minimal_spec cf : init_minimal cf = true ->
  counts_nonneg (cfg_init cf) /\ forall k, est_inputs (cfg_init cf) <= est_inputs (unit_counts k).
Proof.
  unfold init_minimal, counts_nonneg. rewrite !andb_true_iff. cbn [forallb]. rewrite !andb_true_iff.
  intros ((((H1&H2)&H3)&H4)&(K1&K2&K3&K4&_)). split; [lia|]. intros k; destruct k; lia.
Qed.

Lemma real_vsize_lb unc ins outs : admissible unc ins -> outs_wf outs -> 10 <= real_vsize ins outs.
Proof.
  intros Ha Ho. unfold admissible in Ha. apply sum_in_nonneg in Ha. destruct Ha as (Hb&Hw).
  pose proof (sum_out_sizes_nonneg outs Ho).
  pose proof (varint_size_bounds (Z.of_nat (length ins))). pose proof (varint_size_bounds (Z.of_nat (length outs))).
  unfold real_vsize, real_weight, real_total, real_base, witness_scale_factor.
  destruct (has_witness ins); rewrite Z.quot_div_nonneg by lia; lia.
Qed.

Lemma est_size_vcc cf outs chg c : cfg_vcc cf = true ->
  est_size cf outs chg c = est_vsize_gen true c outs chg.
Proof. unfold est_size. intros ->. reflexivity. Qed.

(** ** RandomizeOutputPosition is a transposition *)

Lemma set_nth_split {A} (l1 : list A) a l2 x : set_nth (length l1) x (l1 ++ a :: l2) = l1 ++ x :: l2.
Proof.
  unfold set_nth. rewrite firstn_app, firstn_all, Nat.sub_diag. cbn [firstn]. rewrite app_nil_r.
  rewrite skipn_app, skipn_all, Nat.sub_diag. cbn [skipn app]. reflexivity.
Qed.

Lemma nth_error_split' {A} (l : list A) n a : nth_error l n = Some a ->
  exists l1 l2, l = l1 ++ a :: l2 /\ length l1 = n.
Proof. apply nth_error_split. Qed.

Lemma perm_xy_middle {A} (x y : A) m l :
  Permutation (y :: m ++ x :: l) (x :: m ++ y :: l).
Proof.
  transitivity (y :: x :: m ++ l).
  - apply perm_skip. symmetry. apply Permutation_middle.
  - transitivity (x :: y :: m ++ l); [apply perm_swap|]. apply perm_skip. apply Permutation_middle.
Qed.

Lemma swap_outputs_perm r i l : Permutation (swap_outputs r i l) l.
Proof.
  unfold swap_outputs.
  destruct (nth_error l r) as [x|] eqn:Er; [|reflexivity].
  destruct (nth_error l i) as [y|] eqn:Ei; [|reflexivity].
  destruct (Nat.eq_dec r i) as [->|Hne].
  - rewrite Er in Ei. inv Ei.
    apply nth_error_split in Er. destruct Er as (l1 & l2 & -> & <-).
    rewrite set_nth_split, set_nth_split. reflexivity.
  - destruct (Nat.lt_ge_cases r i) as [Hlt|Hge].
    + (* r < i *)
      apply nth_error_split in Ei. destruct Ei as (l1 & l2 & -> & <-).
      rewrite nth_error_app1 in Er by lia.
      apply nth_error_split in Er. destruct Er as (m1 & m2 & -> & <-).
      rewrite <- app_assoc. cbn [app]. rewrite set_nth_split.
      replace (m1 ++ y :: m2 ++ y :: l2) with ((m1 ++ y :: m2) ++ y :: l2) by (rewrite <- app_assoc; reflexivity).
      replace (length (m1 ++ x :: m2)) with (length (m1 ++ y :: m2)) by (rewrite !app_length; reflexivity).
      rewrite set_nth_split. rewrite <- app_assoc. cbn [app].
      apply Permutation_app_head.
      apply perm_xy_middle.
    + (* i < r *)
      assert (Hlt : (i < r)%nat) by lia.
      apply nth_error_split in Er. destruct Er as (l1 & l2 & -> & <-).
      rewrite nth_error_app1 in Ei by lia.
      apply nth_error_split in Ei. destruct Ei as (m1 & m2 & -> & <-).
      rewrite set_nth_split. rewrite <- !app_assoc. cbn [app]. rewrite set_nth_split.
      apply Permutation_app_head.
      apply perm_xy_middle.
Qed.

Lemma set_nth_nth_same {A} n (x : A) l : (n < length l)%nat -> nth_error (set_nth n x l) n = Some x.
Proof.
  intros H. destruct (nth_error l n) as [a|] eqn:E; [|apply nth_error_None in E; lia].
  apply nth_error_split in E. destruct E as (l1 & l2 & -> & <-).
  rewrite set_nth_split. rewrite nth_error_app2 by lia. rewrite Nat.sub_diag. reflexivity.
Qed.

Lemma set_nth_length {A} n (x : A) l : length (set_nth n x l) = length l.
Proof.
  destruct (nth_error l n) as [a|] eqn:E.
  - apply nth_error_split in E. destruct E as (l1 & l2 & -> & <-). rewrite set_nth_split, !app_length. reflexivity.
  - apply nth_error_None in E. unfold set_nth. rewrite firstn_all2, skipn_all2 by lia. rewrite app_nil_r. reflexivity.
Qed.

Lemma set_nth_nth_other {A} n k (x : A) l : n <> k -> nth_error (set_nth n x l) k = nth_error l k.
Proof.
  intros Hne. destruct (nth_error l n) as [a|] eqn:E.
  - apply nth_error_split in E. destruct E as (l1 & l2 & -> & <-). rewrite set_nth_split.
    destruct (Nat.lt_ge_cases k (length l1)).
    + rewrite !nth_error_app1 by lia. reflexivity.
    + rewrite !nth_error_app2 by lia. destruct (k - length l1)%nat eqn:Ek; [lia|reflexivity].
  - apply nth_error_None in E. unfold set_nth. rewrite firstn_all2, skipn_all2 by lia. rewrite app_nil_r. reflexivity.
Qed.

(** after the swap the entry that was at [i] is at [r] *)
Lemma swap_outputs_nth r i l y : (r < length l)%nat -> nth_error l i = Some y ->
  nth_error (swap_outputs r i l) r = Some y.
Proof.
  intros Hr Ei. unfold swap_outputs.
  destruct (nth_error l r) as [x|] eqn:Er; [|apply nth_error_None in Er; lia].
  rewrite Ei. destruct (Nat.eq_dec r i) as [->|Hne].
  - rewrite Er in Ei. inv Ei. apply set_nth_nth_same. rewrite set_nth_length. exact Hr.
  - rewrite set_nth_nth_other by lia. apply set_nth_nth_same. exact Hr.
Qed.

Lemma sum_values_perm a b : Permutation a b -> sum_values a = sum_values b.
Proof. unfold sum_values. induction 1; cbn [fold_right]; lia. Qed.

Lemma sum_out_sizes_perm a b : Permutation a b -> sum_out_sizes a = sum_out_sizes b.
Proof. unfold sum_out_sizes. induction 1; cbn [fold_right]; lia. Qed.

(** the signed size does not depend on the order of the outputs *)
Lemma real_vsize_perm ins a b : Permutation a b -> real_vsize ins a = real_vsize ins b.
Proof.
  intros H. unfold real_vsize, real_weight, real_total, real_base.
  rewrite (sum_out_sizes_perm a b H), (Permutation_length H). reflexivity.
Qed.

(** What RandomizeChangePosition does to an authored transaction with a
    change output: a permutation of the outputs that keeps track of the
    change output; nothing else changes. *)
Lemma randomize_spec rnd a i ch :
  a_change_index a = Some i -> nth_error (a_outs a) i = Some ch ->
  let a' := randomize rnd a in
  Permutation (a_outs a') (a_outs a) /\
  (exists r, a_change_index a' = Some r /\ nth_error (a_outs a') r = Some ch) /\
  a_inputs a' = a_inputs a /\ a_total_in a' = a_total_in a /\ a_change a' = a_change a /\
  a_est a' = a_est a /\ a_req_fee a' = a_req_fee a /\ a_rounds a' = a_rounds a.
Proof.
  intros Hi Hn. cbn zeta. unfold randomize. rewrite Hi.
  cbn [a_outs a_change_index a_inputs a_total_in a_change a_est a_req_fee a_rounds].
  assert (Hlen : (0 < length (a_outs a))%nat).
  { destruct (a_outs a); [destruct i; discriminate Hn|cbn; lia]. }
  split; [apply swap_outputs_perm|]. split; [|repeat split; reflexivity].
  eexists. split; [reflexivity|]. apply swap_outputs_nth; [|exact Hn].
  apply Nat.mod_upper_bound. lia.
Qed.

Lemma randomize_none rnd a : a_change_index a = None -> randomize rnd a = a.
Proof. unfold randomize. intros ->. reflexivity. Qed.

Section Top.
  Variable cf : cfg.
  Variable fixed : bool.
  Variable outs : list txout.
  Variable rate : Z.
  Variable chg : Z.
  Variable chgr : Z.
  Variable chgwit : bool.
  Variable coins : list coin.

  Hypothesis HS : consts_sane = true.
  Hypothesis Houts : outs_wf outs.
  Hypothesis Hvals : 0 <= sum_values outs.
  Hypothesis Hchg : 0 < chg.
  Hypothesis Hchgr : 0 <= chgr.

  Notation run := (author cf fixed outs rate chg chgr chgwit coins).
  Notation esz := (est_size cf outs chg).

  Lemma esz_lb c : counts_nonneg c -> 10 <= esz c.
  Proof. intros. unfold est_size. apply est_size_lb; auto; lia. Qed.

  Lemma esz_mono c d : counts_nonneg c -> counts_le c d -> esz c <= esz d.
  Proof. intros. unfold est_size. apply est_size_mono; auto. Qed.

  (** *** Termination within the fuel *)
  Theorem author_terminates : 0 <= rate -> counts_nonneg (cfg_init cf) -> run <> OutOfFuel.
  Proof.
    intros Hr Hi. unfold author. pose proof (consts_sane_divisor HS) as HD.
    set (tf0 := fee_for rate (esz (cfg_init cf))).
    destruct (Z_lt_ge_dec 0 (sum_values outs + tf0)) as [Hpos|Hz].
    - apply loop_fuel; [lia|exact Hpos].
    - pose proof (fee_for_nonneg rate (esz (cfg_init cf))) as Hn. fold tf0 in Hn.
      assert (Hr0 : rate = 0).
      { destruct (Z.eq_dec rate 0) as [|Hne]; [assumption|exfalso].
        pose proof (fee_for_pos rate (esz (cfg_init cf)) HD ltac:(lia)) as Hp.
        pose proof (esz_lb _ Hi). fold tf0 in Hp. lia. }
      cbn [author_loop].
      destruct (pull fixed (sum_values outs + tf0) 0 [] coins) as [[total' taken'] rest'].
      destruct (total' <? sum_values outs + tf0) eqn:E1; [discriminate|].
      subst rate. rewrite fee_for_zero_rate.
      assert (E2 : (total' - sum_values outs <? 0) = false) by lia. rewrite E2. discriminate.
  Qed.

  Theorem author_rounds :
    match run with
    | Success a => (a_rounds a <= length coins + 1)%nat
    | InsufficientFunds r => (r <= length coins + 1)%nat
    | OutOfFuel => True
    end.
  Proof.
    clear HS Houts Hvals Hchg Hchgr. unfold author.
    pose proof (loop_rounds cf fixed outs rate chg chgr chgwit (S (length coins)) 0 (fee_for rate (esz (cfg_init cf))) 0 [] coins) as H.
    destruct (author_loop cf fixed outs rate chg chgr chgwit (S (length coins)) 0 _ 0 [] coins); try lia; exact I.
  Qed.

  (** *** Success *)
  Theorem author_success a : run = Success a -> success_spec cf outs rate chg chgr chgwit [] coins a.
  Proof. unfold author. intros H. eapply loop_success; [exact H|reflexivity]. Qed.

  Section Success.
    Variable a : authored.
    Hypothesis Hrun : run = Success a.

    (** requested outputs unchanged, in order; the change output, if any, is appended *)
    Theorem success_outputs :
      firstn (length outs) (a_outs a) = outs /\
      match a_change a with
      | Some c => a_outs a = outs ++ [mkOut c chgr] /\ a_change_index a = Some (length outs)
      | None => a_outs a = outs /\ a_change_index a = None
      end.
    Proof.
      destruct (author_success a Hrun) as (more & rest' & _ & _ & _ & _ & _ & _ & Hcase).
      destruct Hcase as [(-> & -> & -> & _)|(-> & -> & -> & _)].
      - split; [|split; reflexivity]. rewrite firstn_app, firstn_all, Nat.sub_diag. cbn. apply app_nil_r.
      - split; [apply firstn_all|split; reflexivity].
    Qed.

    (** the inputs are a prefix of the offered arrangement and the total the
        source reported is the sum of THEIR values (the accumulator invariant
        of makeInputSource / constantInputSource) *)
    Theorem success_inputs :
      (exists rest', coins = a_inputs a ++ rest') /\ a_total_in a = sum_coins (a_inputs a).
    Proof.
      destruct (author_success a Hrun) as (more & rest' & -> & Hin & Htot & _).
      cbn [app] in Hin. split; [exists rest'; rewrite Hin; reflexivity|exact Htot].
    Qed.

    (** value conservation, with the fee made explicit *)
    Theorem success_conservation :
      sum_coins (a_inputs a) = sum_values (a_outs a) + paid_fee a /\
      sum_values (a_outs a) = sum_values outs + match a_change a with Some c => c | None => 0 end /\
      match a_change a with
      | Some _ => paid_fee a = a_req_fee a
      | None => a_req_fee a <= paid_fee a
      end.
    Proof.
      destruct (author_success a Hrun) as (more & rest' & _ & _ & Htot & _ & _ & Hc0 & Hcase).
      clear HS Houts Hvals Hchg Hchgr. unfold paid_fee. rewrite <- Htot.
      destruct Hcase as [(-> & -> & _)|(-> & -> & _)].
      - rewrite sum_values_app. cbn [sum_values fold_right out_value]. lia.
      - lia.
    Qed.

    (** the fee of the transaction (values of the coins spent minus values of
        the outputs) is the fee the loop accounted for *)
    Theorem success_tx_fee : tx_fee a = paid_fee a.
    Proof. pose proof success_inputs as (_ & Ht). unfold tx_fee, paid_fee. rewrite Ht. reflexivity. Qed.

    (** the fee is at least the required fee for the estimated size of exactly this transaction *)
    Theorem success_fee_lower :
      a_est a = esz (counts_of (map fst (a_inputs a))) /\
      a_req_fee a = fee_for rate (a_est a) /\ a_req_fee a <= paid_fee a.
    Proof.
      destruct (author_success a Hrun) as (more & rest' & _ & _ & _ & He & Hf & _).
      pose proof success_conservation as (_ & _ & H3).
      clear HS Houts Hvals Hchg Hchgr. split; [exact He|]. split; [exact Hf|]. destruct (a_change a); lia.
    Qed.

    (** ... and stays below it plus one dust threshold of the change script *)
    Theorem success_fee_upper : relay_floor_exact = true ->
      paid_fee a < fee_for rate (a_est a) + dust_threshold chgr chgwit /\
      (a_change a <> None -> paid_fee a = fee_for rate (a_est a)).
    Proof.
      intros HR. unfold relay_floor_exact in HR. apply Z.eqb_eq in HR.
      destruct (author_success a Hrun) as (more & rest' & _ & _ & Htot & _ & Hf & Hc0 & Hcase).
      pose proof (dust_threshold_pos chgr chgwit ltac:(lia)) as HT.
      unfold paid_fee. rewrite <- Hf.
      destruct Hcase as [(Hch & -> & _)|(Hch & -> & _ & Hd)].
      - rewrite sum_values_app. cbn [sum_values fold_right out_value]. split; [lia|intros _; lia].
      - split; [|rewrite Hch; intros F; contradiction].
        destruct Hd as [Hz|Hd]; [lia|]. rewrite HR in Hd. apply is_dust_true_lt in Hd; auto; lia.
    Qed.

    (** a change output is never zero and never dust *)
    Theorem success_change c : a_change a = Some c ->
      0 < c /\ is_dust c chgr chgwit default_relay_fee_per_kb = false /\ dust_threshold chgr chgwit <= c.
    Proof.
      intros Hc. destruct (author_success a Hrun) as (more & rest' & _ & _ & _ & _ & _ & Hc0 & Hcase).
      destruct Hcase as [(Hch & _ & _ & Hnz & Hnd)|(Hch & _)]; [|congruence].
      rewrite Hch in Hc. inv Hc. split; [lia|]. split; [exact Hnd|].
      apply is_dust_false_ge in Hnd; auto. apply consts_sane_relay, HS.
    Qed.

    (** the outputs of the result are well formed when the requested ones are *)
    Lemma success_outs_wf : outs_wf (a_outs a).
    Proof.
      destruct (author_success a Hrun) as (more & rest' & _ & _ & _ & _ & _ & _ & Hcase).
      destruct Hcase as [(_ & -> & _)|(_ & -> & _)]; [|exact Houts].
      apply Forall_app; split; [exact Houts|]. repeat constructor. cbn. lia.
    Qed.

    (** the fee covers the requested rate on the REAL signed size, for every
        admissible assignment of signature and public-key lengths, whatever
        the number of outputs *)
    Theorem success_fee_covers_real unc sigs :
      sizes_cover unc = true -> chgr <= chg ->
      cfg_vcc cf = true -> default_relay_fee_per_kb <= rate ->
      length sigs = length (a_inputs a) ->
      admissible unc (mk_sinputs (map fst (a_inputs a)) sigs) ->
      fee_for rate (real_vsize (mk_sinputs (map fst (a_inputs a)) sigs) (a_outs a)) <= paid_fee a.
    Proof.
      intros HC Hle Hv Hrate Hlen Hadm.
      pose proof success_fee_lower as (He & Hf & Hlo).
      pose proof (consts_sane_relay HS) as HR. pose proof (consts_sane_divisor HS) as HD.
      set (ins := mk_sinputs (map fst (a_inputs a)) sigs) in *.
      assert (Hk : map si_kind ins = map fst (a_inputs a)) by (apply mk_sinputs_kinds; rewrite map_length; lia).
      assert (Hreal : real_vsize ins (a_outs a) <= a_est a).
      { rewrite He, <- Hk. unfold est_size. rewrite Hv.
        destruct (author_success a Hrun) as (more & rest' & _ & _ & _ & _ & _ & _ & Hcase).
        eapply est_ge_real with (unc := unc) (chgr := chgr) (v := a_total_in a - sum_values outs - a_req_fee a); auto; try lia.
        destruct Hcase as [(_ & -> & _)|(_ & -> & _)]; [right|left]; reflexivity. }
      pose proof (real_vsize_lb unc ins (a_outs a) Hadm success_outs_wf).
      etransitivity; [|exact Hlo]. rewrite Hf. apply fee_for_mono; auto; nia.
    Qed.

    (** amounts: with non-negative requested amounts every output of the
        result is non-negative and the outputs together do not exceed the
        coins spent *)
    Theorem success_amounts :
      Forall (fun o => 0 <= out_value o) outs ->
      Forall (fun o => 0 <= out_value o) (a_outs a) /\ sum_values (a_outs a) <= sum_coins (a_inputs a).
    Proof.
      intros Hnn. pose proof success_conservation as (H1 & _ & H3). pose proof success_fee_lower as (_ & Hf & Hlo).
      pose proof (fee_for_nonneg rate (a_est a)).
      destruct (author_success a Hrun) as (more & rest' & _ & _ & _ & _ & _ & Hc0 & Hcase).
      split; [|lia].
      destruct Hcase as [(_ & -> & _)|(_ & -> & _)]; [|exact Hnn].
      apply Forall_app; split; [exact Hnn|]. repeat constructor. cbn. lia.
    Qed.
  End Success.

  (** *** Insufficient funds *)
  Theorem author_insufficient r :
    init_minimal cf = true -> default_relay_fee_per_kb <= rate ->
    run = InsufficientFunds r ->
    sum_coins coins < sum_values outs + fee_for rate (esz (counts_of (map fst coins))).
  Proof.
    intros Hmin Hrate Hrun. apply init_minimal_spec in Hmin. destruct Hmin as (Hinn & Hmin).
    pose proof (consts_sane_relay HS) as HR. pose proof (consts_sane_divisor HS) as HD.
    unfold author in Hrun. apply loop_insufficient in Hrun; [|reflexivity].
    destruct Hrun as (tf' & Hlt & Htf). cbn [app] in *.
    assert (Hall : tf' <= fee_for rate (esz (counts_of (map fst coins))) \/ coins = []).
    { destruct Htf as [->|(p & q & -> & ->)].
      - destruct coins as [|c l]; [right; reflexivity|left].
        pose proof (esz_lb _ Hinn).
        apply fee_for_mono; auto; [lia|nia|].
        unfold est_size. rewrite !est_vsize_decomp.
        pose proof (Hmin (fst c)).
        pose proof (est_inputs_mono (unit_counts (fst c)) (counts_of (map fst (c :: l))) HS) as Hm.
        cbn [map] in *. 
        assert (counts_nonneg (unit_counts (fst c))) by (unfold unit_counts; apply add_kind_nonneg; unfold counts_nonneg; cbn; lia).
        specialize (Hm ltac:(assumption) (counts_of_cons_unit _ _)). lia.
      - left. rewrite map_app.
        pose proof (esz_lb _ (counts_of_nonneg (map fst p))).
        apply fee_for_mono; auto; [lia|nia|].
        apply esz_mono; [apply counts_of_nonneg|apply counts_of_app_le]. }
    destruct Hall as [Hle| ->]; [lia|].
    change (sum_coins []) with 0. cbn [map].
    pose proof (fee_for_pos rate (esz (counts_of [])) HD ltac:(lia)) as Hp.
    pose proof (esz_lb _ (counts_of_nonneg [])). lia.
  Qed.

  (** The statement that holds whatever the initial guess is. *)
  Theorem author_insufficient_general r :
    default_relay_fee_per_kb <= rate -> counts_nonneg (cfg_init cf) ->
    run = InsufficientFunds r ->
    sum_coins coins < sum_values outs
       + Z.max (fee_for rate (esz (cfg_init cf))) (fee_for rate (esz (counts_of (map fst coins)))).
  Proof.
    intros Hrate Hinn Hrun.
    pose proof (consts_sane_relay HS) as HR. pose proof (consts_sane_divisor HS) as HD.
    unfold author in Hrun. apply loop_insufficient in Hrun; [|reflexivity].
    destruct Hrun as (tf' & Hlt & Htf). cbn [app] in *.
    destruct Htf as [->|(p & q & Hpq & ->)]; [lia|].
    pose proof (esz_lb _ (counts_of_nonneg (map fst p))).
    assert (fee_for rate (esz (counts_of (map fst p))) <= fee_for rate (esz (counts_of (map fst coins)))).
    { apply fee_for_mono; auto; [lia|nia|]. rewrite Hpq, map_app.
      apply esz_mono; [apply counts_of_nonneg|apply counts_of_app_le]. }
    lia.
  Qed.
End Top.

(** Automatic selection: no prefix of the offered arrangement covers the
    outputs plus the required fee of the transaction spending exactly that
    prefix. *)
Section TopAuto.
  Variable cf : cfg.
  Variable outs : list txout.
  Variable rate : Z.
  Variable chg : Z.
  Variable chgr : Z.
  Variable chgwit : bool.
  Variable coins : list coin.

  Hypothesis HS : consts_sane = true.
  Hypothesis Houts : outs_wf outs.
  Hypothesis Hvals : 0 <= sum_values outs.
  Hypothesis Hchg : 0 < chg.

  Notation run := (author cf false outs rate chg chgr chgwit coins).
  Notation esz := (est_size cf outs chg).

  Theorem author_insufficient_no_prefix r :
    init_minimal cf = true -> default_relay_fee_per_kb <= rate ->
    run = InsufficientFunds r ->
    forall Q q, coins = Q ++ q ->
      sum_coins Q < sum_values outs + fee_for rate (esz (counts_of (map fst Q))).
  Proof.
    intros Hmin Hrate Hrun Q q HQ. apply init_minimal_spec in Hmin. destruct Hmin as (Hinn & Hmin).
    pose proof (consts_sane_relay HS) as HR. pose proof (consts_sane_divisor HS) as HD.
    pose proof (esz_lb cf outs chg HS Houts Hchg) as Elb.
    pose proof (esz_mono cf outs chg HS) as Emono.
    destruct Q as [|c Q].
    { change (sum_coins []) with 0. cbn [map].
      pose proof (fee_for_pos rate (esz (counts_of [])) HD ltac:(lia)) as Hp.
      pose proof (Elb _ (counts_of_nonneg [])). lia. }
    unfold author in Hrun.
    eapply (loop_no_prefix_covers cf outs rate chg chgr chgwit) with (taken := []) (e := c :: Q) (q := q) in Hrun;
      [exact Hrun| |reflexivity| |exact HQ|discriminate].
    - intros p e. rewrite map_app. pose proof (Elb _ (counts_of_nonneg (map fst p))).
      apply fee_for_mono; auto; [lia|nia|]. apply Emono; [apply counts_of_nonneg|apply counts_of_app_le].
    - intros e q' _ Hne. cbn [app]. destruct e as [|x e]; [contradiction|].
      pose proof (Elb _ Hinn).
      apply fee_for_mono; auto; [lia|nia|].
      unfold est_size. rewrite !est_vsize_decomp.
      pose proof (Hmin (fst x)).
      pose proof (est_inputs_mono (unit_counts (fst x)) (counts_of (map fst (x :: e))) HS) as Hm.
      cbn [map] in *.
      assert (counts_nonneg (unit_counts (fst x))) by (unfold unit_counts; apply add_kind_nonneg; unfold counts_nonneg; cbn; lia).
      specialize (Hm ltac:(assumption) (counts_of_cons_unit _ _)). lia.
  Qed.
End TopAuto.

(** Explicit selection: the whole selection is spent. *)
Lemma loop_fixed_inputs cf outs rate chg chgr chgwit fuel : forall rnd tf total taken rest a,
  author_loop cf true outs rate chg chgr chgwit fuel rnd tf total taken rest = Success a ->
  a_inputs a = taken ++ rest.
Proof.
  induction fuel as [|fuel IH]; intros rnd tf total taken rest a H; cbn [author_loop] in H; [discriminate|].
  rewrite pull_fixed_all in H.
  destruct (_ <? _) eqn:E1 in H; [discriminate|].
  destruct (_ <? _) eqn:E2 in H.
  - apply IH in H. rewrite app_nil_r in H. exact H.
  - inv H. reflexivity.
Qed.

Lemma author_fixed_inputs cf outs rate chg chgr chgwit coins a :
  author cf true outs rate chg chgr chgwit coins = Success a -> a_inputs a = coins.
Proof. unfold author. intros H. apply loop_fixed_inputs in H. exact H. Qed.

(** ** The wallet-level function *)

Lemma change_real_pos k : 22 <= change_real k <= 34.
Proof. destruct k; cbn; lia. Qed.

Lemma change_sizes_cover_spec : change_sizes_cover = true -> forall k, change_real k <= change_decl k.
Proof.
  unfold change_sizes_cover. cbn [forallb]. rewrite !andb_true_iff, !Z.leb_le.
  intros (K1&K2&K3&K4&_) k. destruct k; assumption.
Qed.

Section Wallet.
  Variable fixed randomizes : bool.
  Variable outs : list txout.
  Variable rate : Z.
  Variable k : chkind.
  Variable coins : list coin.
  Variable rnd : nat.

  Hypothesis HS : consts_sane = true.
  Hypothesis HK : change_sizes_cover = true.
  Hypothesis Houts : outs_wf outs.
  Hypothesis Hvals : 0 <= sum_values outs.

  Notation wrun := (wallet_author fixed randomizes outs rate k coins rnd).
  Notation arun := (author generated_cfg fixed outs rate (change_decl k) (change_real k) (change_wit k) coins).

  Let Hchgr : 0 <= change_real k.
  Proof. pose proof (change_real_pos k). lia. Qed.
  Let Hchg : 0 < change_decl k.
  Proof. pose proof (change_real_pos k). pose proof (change_sizes_cover_spec HK k). lia. Qed.
  Let Hle : change_real k <= change_decl k.
  Proof. apply change_sizes_cover_spec, HK. Qed.

  (** the wallet-level result is the txauthor result with its outputs
      permuted; the change output is where ChangeIndex says *)
  Lemma wallet_author_rel a : wrun = Success a ->
    exists a0, arun = Success a0 /\
      Permutation (a_outs a) (a_outs a0) /\ a_inputs a = a_inputs a0 /\ a_total_in a = a_total_in a0 /\
      a_change a = a_change a0 /\ a_est a = a_est a0 /\ a_req_fee a = a_req_fee a0 /\ a_rounds a = a_rounds a0 /\
      match a_change a0 with
      | Some c => exists r, a_change_index a = Some r /\ nth_error (a_outs a) r = Some (mkOut c (change_real k))
      | None => a_change_index a = None /\ a_outs a = outs
      end.
  Proof.
    unfold wallet_author. destruct arun as [a0| |] eqn:E; try discriminate. intros H. inv H.
    exists a0. split; [reflexivity|].
    pose proof (success_outputs generated_cfg fixed outs rate (change_decl k) (change_real k) (change_wit k) coins a0 E) as (_ & Ho).
    destruct (a_change a0) as [c|] eqn:Ec.
    - destruct Ho as (Ho & Hi).
      assert (Hn : nth_error (a_outs a0) (length outs) = Some (mkOut c (change_real k))).
      { rewrite Ho, nth_error_app2, Nat.sub_diag by lia. reflexivity. }
      destruct randomizes.
      + pose proof (randomize_spec rnd a0 _ _ Hi Hn) as (P & R & I1 & I2 & I3 & I4 & I5 & I6). cbn zeta in *.
        rewrite Ec in I3. do 7 (split; [assumption|]). exact R.
      + do 3 (split; [reflexivity|]). split; [exact Ec|]. do 3 (split; [reflexivity|]).
        exists (length outs). split; assumption.
    - destruct Ho as (Ho & Hi).
      assert (randomize rnd a0 = a0) as Hr by (apply randomize_none, Hi).
      destruct randomizes; rewrite ?Hr; do 3 (split; [reflexivity|]); (split; [exact Ec|]);
        do 3 (split; [reflexivity|]); split; assumption.
  Qed.

  Lemma wallet_author_insufficient r : wrun = InsufficientFunds r -> arun = InsufficientFunds r.
  Proof. unfold wallet_author. destruct arun; intros H; try discriminate; exact H. Qed.

  Lemma wallet_author_fuel : wrun = OutOfFuel -> arun = OutOfFuel.
  Proof. unfold wallet_author. destruct arun; intros H; try discriminate; reflexivity. Qed.

  Section WSuccess.
    Variable a : authored.
    Hypothesis Hrun : wrun = Success a.

    (** every requested output exactly once (amount and script length), plus
        at most the change output, which sits at ChangeIndex *)
    Theorem wallet_outputs :
      match a_change a with
      | Some c => Permutation (a_outs a) (outs ++ [mkOut c (change_real k)]) /\
                  exists r, a_change_index a = Some r /\ nth_error (a_outs a) r = Some (mkOut c (change_real k))
      | None => a_outs a = outs /\ a_change_index a = None
      end.
    Proof.
      destruct (wallet_author_rel a Hrun) as (a0 & E & P & _ & _ & Hc & _ & _ & _ & Hm).
      pose proof (success_outputs generated_cfg fixed outs rate _ _ _ coins a0 E) as (_ & Ho).
      rewrite Hc. destruct (a_change a0) as [c|].
      - destruct Ho as (Ho & _). rewrite <- Ho. split; assumption.
      - destruct Hm as (Hi & Ho'). split; assumption.
    Qed.

    (** the inputs are a prefix of the offered arrangement (all of an
        explicit selection), and what the input source reported as their total
        is the sum of their values *)
    Theorem wallet_inputs :
      (exists rest, coins = a_inputs a ++ rest) /\ a_total_in a = sum_coins (a_inputs a) /\
      (fixed = true -> a_inputs a = coins).
    Proof.
      destruct (wallet_author_rel a Hrun) as (a0 & E & _ & Hi & Ht & _).
      pose proof (success_inputs generated_cfg fixed outs rate _ _ _ coins a0 E) as (H1 & H2).
      rewrite Hi, Ht. split; [exact H1|]. split; [exact H2|].
      intros ->. eapply author_fixed_inputs, E.
    Qed.

    (** value conservation on the transaction itself: the values of the coins
        spent = the values of the outputs + the fee; the outputs are the
        requested ones plus the change; the fee is the required fee for the
        worst-case size of exactly this transaction when there is change, and
        at least that otherwise *)
    Theorem wallet_conservation :
      sum_coins (a_inputs a) = sum_values (a_outs a) + tx_fee a /\
      sum_values (a_outs a) = sum_values outs + match a_change a with Some c => c | None => 0 end /\
      a_req_fee a = fee_for rate (a_est a) /\
      match a_change a with
      | Some _ => tx_fee a = a_req_fee a
      | None => a_req_fee a <= tx_fee a
      end.
    Proof.
      destruct (wallet_author_rel a Hrun) as (a0 & E & P & Hi & Ht & Hc & He & Hf & _).
      pose proof (success_conservation generated_cfg fixed outs rate _ _ _ coins a0 E) as (C1 & C2 & C3).
      pose proof (success_tx_fee generated_cfg fixed outs rate _ _ _ coins a0 E) as C4.
      pose proof (success_fee_lower generated_cfg fixed outs rate _ _ _ coins a0 E) as (_ & C5 & _).
      assert (Hfee : tx_fee a = paid_fee a0).
      { rewrite <- C4. unfold tx_fee. rewrite Hi, (sum_values_perm _ _ P). reflexivity. }
      rewrite Hc, He, Hf, Hfee, (sum_values_perm _ _ P), Hi. repeat split; assumption.
    Qed.

    (** the fee covers the requested rate on the real signed size *)
    Theorem wallet_fee_covers_real unc sigs :
      sizes_cover unc = true -> varint_counts_change = true -> default_relay_fee_per_kb <= rate ->
      length sigs = length (a_inputs a) ->
      admissible unc (mk_sinputs (map fst (a_inputs a)) sigs) ->
      fee_for rate (real_vsize (mk_sinputs (map fst (a_inputs a)) sigs) (a_outs a)) <= tx_fee a.
    Proof.
      intros HC Hv Hr Hl Ha.
      destruct (wallet_author_rel a Hrun) as (a0 & E & P & Hi & _).
      pose proof (success_tx_fee generated_cfg fixed outs rate _ _ _ coins a0 E) as C4.
      assert (Hfee : tx_fee a = paid_fee a0).
      { rewrite <- C4. unfold tx_fee. rewrite Hi, (sum_values_perm _ _ P). reflexivity. }
      rewrite Hfee, (real_vsize_perm _ _ _ P), Hi in *.
      eapply success_fee_covers_real; eauto.
    Qed.

    (** the fee stays below the rate applied to the worst-case estimate plus
        one dust threshold of the change script; with change it is exactly the former *)
    Theorem wallet_fee_upper : relay_floor_exact = true ->
      tx_fee a < fee_for rate (a_est a) + dust_threshold (change_real k) (change_wit k) /\
      (a_change a <> None -> tx_fee a = fee_for rate (a_est a)).
    Proof.
      intros HR.
      destruct (wallet_author_rel a Hrun) as (a0 & E & P & Hi & _ & Hc & He & _).
      pose proof (success_tx_fee generated_cfg fixed outs rate _ _ _ coins a0 E) as C4.
      assert (Hfee : tx_fee a = paid_fee a0).
      { rewrite <- C4. unfold tx_fee. rewrite Hi, (sum_values_perm _ _ P). reflexivity. }
      rewrite Hfee, Hc, He. eapply success_fee_upper; eauto.
    Qed.

    (** the change output is never zero and never dust (for the script it really has) *)
    Theorem wallet_change c : a_change a = Some c ->
      0 < c /\ dust_threshold (change_real k) (change_wit k) <= c.
    Proof.
      intros Hc. destruct (wallet_author_rel a Hrun) as (a0 & E & _ & _ & _ & Hc' & _).
      rewrite Hc' in Hc.
      pose proof (success_change generated_cfg fixed outs rate _ _ _ coins HS Hchgr a0 E c Hc) as (H1 & _ & H3).
      split; assumption.
    Qed.

    (** no negative amount, and the outputs never exceed the coins spent *)
    Theorem wallet_amounts :
      Forall (fun o => 0 <= out_value o) outs ->
      Forall (fun o => 0 <= out_value o) (a_outs a) /\ sum_values (a_outs a) <= sum_coins (a_inputs a).
    Proof.
      intros Hnn. destruct (wallet_author_rel a Hrun) as (a0 & E & P & Hi & _).
      edestruct (success_amounts generated_cfg fixed outs rate (change_decl k) (change_real k) (change_wit k) coins) as (F & S); eauto.
      rewrite Hi, (sum_values_perm _ _ P). split; [|exact S].
      eapply Permutation_Forall; [symmetry; exact P|exact F].
    Qed.
  End WSuccess.
End Wallet.
