(** Proofs about the model of Fee.v (property C07).

    Facts that depend on the constants regenerated from the source enter only
    through explicit premises - [consts_exact = true], [cfg_vcc cf = true],
    [init_minimal cf = true] - which Properties/C07.v discharges by
    computation against Generated/TxsizesConsts.v.  This file therefore
    compiles whatever the source says; only Properties/C07.v stops compiling
    when a premise is false for the current source. *)
From Verif Require Import Base.Prelude Generated.TxsizesConsts Fee.Fee.
Local Open Scope Z_scope.

Lemma varint_size_bounds n : 1 <= varint_size n <= 9.
Proof. unfold varint_size. repeat destruct (_ <? _); repeat destruct (_ <=? _); lia. Qed.

Lemma varint_size_mono a b : a <= b -> varint_size a <= varint_size b.
Proof. unfold varint_size. intros. 
  destruct (a <? 253) eqn:E1, (b <? 253) eqn:E2, (a <=? 65535) eqn:E3, (b <=? 65535) eqn:E4,
   (a <=? 4294967295) eqn:E5, (b <=? 4294967295) eqn:E6; lia. Qed.

Lemma varint_size_small n : n < 253 -> varint_size n = 1.
Proof. unfold varint_size. intros. destruct (n <? 253) eqn:E; lia. Qed.

Lemma consts_exact_spec : consts_exact = true ->
  redeem_p2pkh_input_size = 149 /\ redeem_p2wpkh_input_size = 41 /\ redeem_p2tr_input_size = 41
  /\ redeem_nested_p2wpkh_input_size = 64 /\ redeem_p2wpkh_input_witness_weight = 109
  /\ redeem_p2tr_input_witness_weight = 67 /\ witness_round_add = 3 /\ fee_divisor = 1000
  /\ default_relay_fee_per_kb = 1000.
Proof. unfold consts_exact. lia. Qed.

Lemma fee_for_mono rate s1 s2 : consts_exact = true -> 0 <= rate -> 1000 <= rate * s1 -> s1 <= s2 ->
  fee_for rate s1 <= fee_for rate s2.
Proof.
  intros HC Hr H1 H2. apply consts_exact_spec in HC. 
  destruct HC as (_&_&_&_&_&_&_&HD&_).
  unfold fee_for. rewrite HD. unfold max_satoshi.
  assert (rate * s1 <= rate * s2) by nia.
  assert (Z.quot (rate*s1) 1000 <= Z.quot (rate*s2) 1000) by (apply Z.quot_le_mono; lia).
  assert (1 <= Z.quot (rate*s1) 1000) by (rewrite Z.quot_div_nonneg by lia; apply Z.div_le_lower_bound; lia).
  set (q1 := Z.quot (rate*s1) 1000) in *. set (q2 := Z.quot (rate*s2) 1000) in *.
  clearbody q1 q2.
  destruct (q1 =? 0) eqn:E1, (q2 =? 0) eqn:E2, (0 <? rate) eqn:E3; simpl;
  repeat match goal with |- context [?a <? ?b] => destruct (a <? b) eqn:?; simpl end; lia.
Qed.

Lemma fee_for_pos rate size : consts_exact = true -> 0 < rate -> 0 <= size -> 0 < fee_for rate size.
Proof.
  intros HC Hr Hs. apply consts_exact_spec in HC. destruct HC as (_&_&_&_&_&_&_&HD&_).
  unfold fee_for. rewrite HD. unfold max_satoshi.
  assert (0 <= Z.quot (rate*size) 1000) by (apply Z.quot_pos; nia).
  set (q := Z.quot (rate*size) 1000) in *. clearbody q.
  destruct (q =? 0) eqn:E1, (0 <? rate) eqn:E3; simpl;
  repeat match goal with |- context [?a <? ?b] => destruct (a <? b) eqn:?; simpl end; lia.
Qed.

Lemma fee_for_zero_rate size : fee_for 0 size = 0.
Proof. unfold fee_for. rewrite Z.mul_0_l. destruct fee_divisor; reflexivity. Qed.

Lemma fee_for_nonneg rate size : 0 <= fee_for rate size.
Proof.
  unfold fee_for, max_satoshi. set (q := Z.quot (rate*size) fee_divisor). clearbody q.
  destruct (q =? 0) eqn:E1, (0 <? rate) eqn:E3; simpl;
  repeat match goal with |- context [?a <? ?b] => destruct (a <? b) eqn:?; simpl end; lia.
Qed.

Lemma fee_for_le_max rate size : fee_for rate size <= max_satoshi.
Proof.
  unfold fee_for, max_satoshi. set (q := Z.quot (rate*size) fee_divisor). clearbody q.
  destruct (q =? 0) eqn:E1, (0 <? rate) eqn:E3; simpl;
  repeat match goal with |- context [?a <? ?b] => destruct (a <? b) eqn:?; simpl end; lia.
Qed.

(** Above the point where the "fee 0 becomes the rate" rule can fire, the fee
    is the rate applied to the size per 1000 bytes, rounded down, capped at
    the money supply. *)
Lemma fee_for_spec rate size : consts_exact = true -> 0 <= rate -> 1000 <= rate * size ->
  fee_for rate size = Z.min (rate * size / 1000) max_satoshi.
Proof.
  intros HC Hr Hs. apply consts_exact_spec in HC. destruct HC as (_&_&_&_&_&_&_&HD&_).
  unfold fee_for. rewrite HD. rewrite Z.quot_div_nonneg by lia.
  assert (1 <= rate * size / 1000) by (apply Z.div_le_lower_bound; lia).
  set (q := rate*size/1000) in *. clearbody q. unfold max_satoshi.
  destruct (q =? 0) eqn:E1, (0 <? rate) eqn:E3; simpl;
  repeat match goal with |- context [?a <? ?b] => destruct (a <? b) eqn:?; simpl end; lia.
Qed.

(** ** Dust *)
Lemma out_ser_size_pos sz : 0 <= sz -> 9 <= out_ser_size sz.
Proof. unfold out_ser_size. pose proof (varint_size_bounds sz). lia. Qed.

Lemma dust_threshold_pos sz wit : 0 <= sz -> 0 < dust_threshold sz wit.
Proof.
  intros H. unfold dust_threshold, witness_scale_factor. pose proof (out_ser_size_pos sz H).
  change (Z.quot 107 4) with 26. destruct wit; lia.
Qed.

Lemma is_dust_spec v sz wit : consts_exact = true -> 0 <= sz -> 0 <= v ->
  (is_dust v sz wit default_relay_fee_per_kb = true <-> v < dust_threshold sz wit).
Proof.
  intros HC Hs Hv. apply consts_exact_spec in HC. destruct HC as (_&_&_&_&_&_&_&_&HR).
  unfold is_dust. rewrite HR. pose proof (dust_threshold_pos sz wit Hs) as HT.
  set (T := dust_threshold sz wit) in *. clearbody T.
  rewrite Z.quot_div_nonneg by lia. rewrite Z.ltb_lt. split; intros H.
  - destruct (Z_lt_ge_dec v T) as [|G]; [assumption|exfalso].
    assert (1000 <= v * 1000 / T) by (apply Z.div_le_lower_bound; nia). lia.
  - apply Z.div_lt_upper_bound; nia.
Qed.

(** ** The estimate *)
Definition counts_nonneg (c : counts) : Prop :=
  0 <= n_p2pkh c /\ 0 <= n_p2tr c /\ 0 <= n_p2wpkh c /\ 0 <= n_nested c.
Definition counts_le (c d : counts) : Prop :=
  n_p2pkh c <= n_p2pkh d /\ n_p2tr c <= n_p2tr d /\ n_p2wpkh c <= n_p2wpkh d /\ n_nested c <= n_nested d.

Definition est_outputs (vcc : bool) (outs : list txout) (chg : Z) : Z :=
  8 + varint_size (if vcc then (if 0 <? chg then Z.of_nat (length outs) + 1 else Z.of_nat (length outs))
                   else Z.of_nat (length outs))
    + sum_out_sizes outs + (if 0 <? chg then 8 + varint_size chg + chg else 0).

Lemma est_vsize_decomp vcc c outs chg :
  est_vsize_gen vcc c outs chg = est_outputs vcc outs chg + est_inputs c.
Proof. unfold est_vsize_gen, est_outputs, est_inputs. lia. Qed.

Lemma est_inputs_mono c d : consts_exact = true -> counts_nonneg c -> counts_le c d ->
  est_inputs c <= est_inputs d.
Proof.
  intros HC (H1&H2&H3&H4) (L1&L2&L3&L4). apply consts_exact_spec in HC.
  destruct HC as (E1&E2&E3&E4&E5&E6&E7&_).
  unfold est_inputs, witness_scale_factor. rewrite E1, E2, E3, E4, E5, E6, E7.
  pose proof (varint_size_mono (n_p2pkh c + n_p2tr c + n_p2wpkh c + n_nested c)
                (n_p2pkh d + n_p2tr d + n_p2wpkh d + n_nested d) ltac:(lia)).
  pose proof (varint_size_mono (n_p2wpkh c + n_nested c + n_p2tr c)
                (n_p2wpkh d + n_nested d + n_p2tr d) ltac:(lia)).
  pose proof (varint_size_bounds (n_p2wpkh d + n_nested d + n_p2tr d)).
  destruct (0 <? n_p2wpkh c + n_nested c + n_p2tr c) eqn:Ec,
           (0 <? n_p2wpkh d + n_nested d + n_p2tr d) eqn:Ed; lia.
Qed.

Lemma est_size_mono vcc c d outs chg : consts_exact = true -> counts_nonneg c -> counts_le c d ->
  est_vsize_gen vcc c outs chg <= est_vsize_gen vcc d outs chg.
Proof. intros. rewrite !est_vsize_decomp. pose proof (est_inputs_mono c d); lia. Qed.

Lemma est_inputs_nonneg c : consts_exact = true -> counts_nonneg c -> 1 <= est_inputs c.
Proof.
  intros HC (H1&H2&H3&H4). apply consts_exact_spec in HC.
  destruct HC as (E1&E2&E3&E4&E5&E6&E7&_).
  unfold est_inputs, witness_scale_factor. rewrite E1, E2, E3, E4, E5, E6, E7.
  pose proof (varint_size_bounds (n_p2pkh c + n_p2tr c + n_p2wpkh c + n_nested c)).
  pose proof (varint_size_bounds (n_p2wpkh c + n_nested c + n_p2tr c)).
  destruct (0 <? n_p2wpkh c + n_nested c + n_p2tr c) eqn:Ec.
  - rewrite Z.quot_div_nonneg by lia.
    assert (0 <= (2 + varint_size (n_p2wpkh c + n_nested c + n_p2tr c) + n_p2wpkh c * 109 + n_p2tr c * 67 + n_nested c * 109 + 3) / 4)
      by (apply Z.div_pos; lia). lia.
  - change (Z.quot (0 + 3) 4) with 0. lia.
Qed.

Definition outs_wf (outs : list txout) : Prop := Forall (fun o => 0 <= out_size o) outs.

Lemma sum_out_sizes_nonneg outs : outs_wf outs -> 0 <= sum_out_sizes outs.
Proof.
  induction 1 as [|o l Ho Hl IH]; cbn [sum_out_sizes fold_right]; [lia|].
  pose proof (out_ser_size_pos _ Ho). unfold sum_out_sizes in IH. lia.
Qed.

Lemma est_outputs_lb vcc outs chg : outs_wf outs -> 0 <= chg -> 9 <= est_outputs vcc outs chg.
Proof.
  intros Ho Hc. unfold est_outputs. pose proof (sum_out_sizes_nonneg outs Ho).
  pose proof (varint_size_bounds chg).
  match goal with |- context [varint_size (if vcc then ?a else ?b)] => pose proof (varint_size_bounds (if vcc then a else b)) end.
  destruct (0 <? chg); lia.
Qed.

Lemma est_size_lb vcc c outs chg : consts_exact = true -> counts_nonneg c -> outs_wf outs -> 0 <= chg ->
  10 <= est_vsize_gen vcc c outs chg.
Proof.
  intros. rewrite est_vsize_decomp. pose proof (est_outputs_lb vcc outs chg). pose proof (est_inputs_nonneg c). lia.
Qed.

(** counts of a list of kinds *)
Lemma add_kind_nonneg k c : counts_nonneg c -> counts_nonneg (add_kind k c).
Proof. unfold counts_nonneg. destruct k; cbn; lia. Qed.

Lemma counts_of_nonneg ks : counts_nonneg (counts_of ks).
Proof. induction ks as [|k ks IH]; cbn [counts_of fold_right]; [unfold counts_nonneg; cbn; lia|]. apply add_kind_nonneg, IH. Qed.

Lemma counts_le_refl c : counts_le c c.
Proof. unfold counts_le; lia. Qed.

Lemma counts_of_app_le l1 l2 : counts_le (counts_of l1) (counts_of (l1 ++ l2)).
Proof.
  induction l1 as [|k l1 IH].
  - pose proof (counts_of_nonneg l2) as H. cbn [app]. change (counts_of []) with zero_counts.
    unfold counts_le, counts_nonneg in *. cbn [zero_counts n_p2pkh n_p2tr n_p2wpkh n_nested]. lia.
  - cbn [app counts_of fold_right]. fold (counts_of l1). fold (counts_of (l1 ++ l2)).
    unfold counts_le in *. destruct k; cbn [add_kind n_p2pkh n_p2tr n_p2wpkh n_nested]; lia.
Qed.

Lemma counts_of_cons_unit k l : counts_le (unit_counts k) (counts_of (k :: l)).
Proof.
  pose proof (counts_of_nonneg l) as H. cbn [counts_of fold_right]. fold (counts_of l).
  unfold unit_counts, counts_le, counts_nonneg in *.
  destruct k; cbn [add_kind zero_counts n_p2pkh n_p2tr n_p2wpkh n_nested]; lia.
Qed.

Lemma counts_total ks :
  n_p2pkh (counts_of ks) + n_p2tr (counts_of ks) + n_p2wpkh (counts_of ks) + n_nested (counts_of ks)
  = Z.of_nat (length ks).
Proof.
  induction ks as [|k ks IH]; [reflexivity|]. cbn [counts_of fold_right length]. fold (counts_of ks).
  destruct k; cbn [add_kind n_p2pkh n_p2tr n_p2wpkh n_nested]; lia.
Qed.

(** ** The estimate bounds the signed size *)

(** Upper bounds on the signature lengths.  What the signers produce is
    inside: btcec ECDSA signatures are low-S, so their DER encoding has 8..71
    bytes; BIP-340 signatures have 64 bytes (+1 with an explicit sighash type).
    [mixed] = the transaction has witness data: then every P2PKH input also
    carries one byte of (empty) witness, which EstimateVirtualSize does not
    count, and the bound for its signature is 71 instead of 72. *)
Definition sig_ok (mixed : bool) (i : signed_input) : Prop :=
  match fst i with
  | P2PKH => 0 <= snd i <= (if mixed then 71 else 72)
  | P2WPKH | NP2WPKH => 0 <= snd i <= 72
  | P2TR => 0 <= snd i <= 65
  end.

Definition admissible (ins : list signed_input) : Prop := Forall (sig_ok (has_witness ins)) ins.

Definition est_in_weight (k : kind) : Z :=
  match k with
  | P2PKH => 4 * 149
  | P2WPKH => 4 * 41 + 109
  | P2TR => 4 * 41 + 67
  | NP2WPKH => 4 * 64 + 109
  end.

Lemma in_weight_le m i : sig_ok m i ->
  4 * in_base i + (if m then in_wit i else 0) <= est_in_weight (fst i).
Proof.
  unfold sig_ok, in_base, in_wit, est_in_weight. destruct i as [k s]; cbn [fst snd].
  destruct k; intros H.
  - rewrite varint_size_small by (destruct m; lia). destruct m; lia.
  - destruct m; lia.
  - destruct m; lia.
  - destruct m; lia.
Qed.

Lemma sum_in_weight_le m ins : Forall (sig_ok m) ins ->
  4 * sum_in_base ins + (if m then sum_in_wit ins else 0)
  <= fold_right (fun i a => est_in_weight (fst i) + a) 0 ins.
Proof.
  induction 1 as [|i l Hi Hl IH]; cbn [sum_in_base sum_in_wit fold_right]; [destruct m; lia|].
  pose proof (in_weight_le m i Hi). unfold sum_in_base, sum_in_wit in IH. destruct m; lia.
Qed.

Lemma in_nonneg m i : sig_ok m i -> 0 <= in_base i /\ 0 <= in_wit i.
Proof.
  destruct i as [k s]. unfold sig_ok, in_base, in_wit. cbn [fst snd]. intros Hi.
  pose proof (varint_size_bounds (1 + (s + 1) + 1 + 33)). destruct k, m; lia.
Qed.

Lemma sum_in_nonneg m ins : Forall (sig_ok m) ins -> 0 <= sum_in_base ins /\ 0 <= sum_in_wit ins.
Proof.
  unfold sum_in_base, sum_in_wit.
  induction 1 as [|i l Hi Hl IH]; cbn [fold_right]; [lia|].
  pose proof (in_nonneg m i Hi). lia.
Qed.

Lemma sum_est_in_weight (ins : list signed_input) :
  let c := counts_of (map fst ins) in
  fold_right (fun i a => est_in_weight (fst i) + a) 0 ins
  = 4 * (n_p2pkh c * 149 + n_p2wpkh c * 41 + n_p2tr c * 41 + n_nested c * 64)
    + n_p2wpkh c * 109 + n_p2tr c * 67 + n_nested c * 109.
Proof.
  induction ins as [|i l IH]; [reflexivity|]. cbn zeta in *.
  cbn [fold_right map counts_of]. fold (counts_of (map fst l)). rewrite IH.
  destruct i as [k s]; cbn [fst]. destruct k; cbn [est_in_weight add_kind n_p2pkh n_p2tr n_p2wpkh n_nested]; lia.
Qed.

Lemma has_witness_counts (ins : list signed_input) :
  let c := counts_of (map fst ins) in
  has_witness ins = (0 <? n_p2wpkh c + n_nested c + n_p2tr c).
Proof.
  cbn zeta. unfold has_witness. induction ins as [|i l IH]; [reflexivity|].
  pose proof (counts_of_nonneg (map fst l)) as (N1&N2&N3&N4).
  cbn [existsb map counts_of fold_right]. fold (counts_of (map fst l)).
  rewrite IH. destruct i as [k s]; cbn [fst].
  destruct k; cbn [kind_eqb negb orb add_kind n_p2pkh n_p2tr n_p2wpkh n_nested].
  all: try reflexivity; symmetry; apply Z.ltb_lt; lia.
Qed.

Lemma sum_out_sizes_app a b : sum_out_sizes (a ++ b) = sum_out_sizes a + sum_out_sizes b.
Proof. unfold sum_out_sizes. induction a as [|o a IH]; cbn [app fold_right]; lia. Qed.

Lemma sum_values_app a b : sum_values (a ++ b) = sum_values a + sum_values b.
Proof. unfold sum_values. induction a as [|o a IH]; cbn [app fold_right]; lia. Qed.

(** The key lemma: with the output-count compact-size taken over the count
    that includes the change output, the estimate is an upper bound of the
    signed virtual size, whether or not the change output was added. *)
Lemma est_ge_real ins outs chg v outs' :
  consts_exact = true -> 0 < chg -> outs_wf outs -> admissible ins ->
  outs' = outs \/ outs' = outs ++ [mkOut v chg] ->
  real_vsize ins outs' <= est_vsize_gen true (counts_of (map fst ins)) outs chg.
Proof.
  intros HC Hchg Hwf Hadm Houts. apply consts_exact_spec in HC.
  destruct HC as (E1&E2&E3&E4&E5&E6&E7&_).
  unfold admissible in Hadm. pose proof (sum_in_nonneg _ _ Hadm) as (Nb&Nw).
  apply sum_in_weight_le in Hadm.
  assert (Hso' : 0 <= sum_out_sizes outs').
  { destruct Houts as [->| ->]; [apply sum_out_sizes_nonneg, Hwf|].
    apply sum_out_sizes_nonneg. apply Forall_app; split; [exact Hwf|]. repeat constructor. cbn. lia. }
  rewrite sum_est_in_weight in Hadm. cbn zeta in Hadm.
  pose proof (has_witness_counts ins) as HW. cbn zeta in HW.
  pose proof (counts_total (map fst ins)) as HT. rewrite map_length in HT.
  pose proof (counts_of_nonneg (map fst ins)) as (N1&N2&N3&N4).
  unfold real_vsize, real_weight, real_total, real_base, est_vsize_gen, witness_scale_factor.
  rewrite E1, E2, E3, E4, E5, E6, E7.
  set (c := counts_of (map fst ins)) in *. clearbody c.
  rewrite HT. assert (Hc : (0 <? chg) = true) by lia. rewrite Hc.
  pose proof (varint_size_bounds chg) as Vc.
  pose proof (varint_size_bounds (n_p2wpkh c + n_nested c + n_p2tr c)) as Vw.
  assert (HO : varint_size (Z.of_nat (length outs')) + sum_out_sizes outs'
               <= varint_size (Z.of_nat (length outs) + 1) + sum_out_sizes outs + (8 + varint_size chg + chg)).
  { destruct Houts as [->| ->].
    - pose proof (varint_size_mono (Z.of_nat (length outs)) (Z.of_nat (length outs) + 1) ltac:(lia)). lia.
    - rewrite sum_out_sizes_app, app_length. cbn [length sum_out_sizes fold_right out_size].
      unfold out_ser_size. replace (Z.of_nat (length outs + 1)) with (Z.of_nat (length outs) + 1) by lia. lia. }
  pose proof (varint_size_bounds (Z.of_nat (length outs'))).
  pose proof (varint_size_bounds (Z.of_nat (length ins))).
  set (vo' := varint_size (Z.of_nat (length outs'))) in *.
  set (vo := varint_size (Z.of_nat (length outs) + 1)) in *.
  set (vi := varint_size (Z.of_nat (length ins))) in *.
  set (so' := sum_out_sizes outs') in *. set (so := sum_out_sizes outs) in *.
  clearbody vo' vo vi so' so.
  rewrite HW in *. 
  destruct (0 <? n_p2wpkh c + n_nested c + n_p2tr c) eqn:Ew;
    rewrite !Z.quot_div_nonneg by lia; lia.
Qed.

(** ** The input source *)
Lemma sum_coins_app a b : sum_coins (a ++ b) = sum_coins a + sum_coins b.
Proof. unfold sum_coins. induction a as [|c a IH]; cbn [app fold_right]; lia. Qed.

Lemma pull_spec target rest : forall total taken total' taken' rest',
  pull target total taken rest = (total', taken', rest') ->
  exists more, rest = more ++ rest' /\ taken' = taken ++ more /\
    total' = total + sum_coins more /\
    (target <= total' \/ rest' = []) /\
    (total < target -> rest <> [] -> more <> []).
Proof.
  induction rest as [|c rest IH]; intros total taken total' taken' rest' H; cbn [pull] in H.
  - inv H. exists []. change (sum_coins []) with 0.
    split; [reflexivity|]. split; [symmetry; apply app_nil_r|]. split; [lia|]. split; [right; reflexivity|]. intros _ Hn; exact Hn.
  - destruct (total <? target) eqn:E.
    + apply IH in H. destruct H as (more & -> & -> & -> & Hstop & _).
      exists (c :: more). rewrite <- app_assoc. cbn [app]. 
      change (sum_coins (c :: more)) with (snd c + sum_coins more).
      split; [reflexivity|]. split; [reflexivity|]. split; [lia|]. split; [exact Hstop|]. intros _ _; discriminate.
    + inv H. exists []. change (sum_coins []) with 0.
      split; [reflexivity|]. split; [symmetry; apply app_nil_r|]. split; [lia|]. split; [left; lia|]. intros Hc; lia.
Qed.

Section AuthorProofs.
  Variable cf : cfg.
  Variable outs : list txout.
  Variable rate : Z.
  Variable chg : Z.
  Variable chgwit : bool.

  Notation loop := (author_loop cf outs rate chg chgwit).
  Notation esz := (est_size cf outs chg).

  (** What a successful run returns. *)
  Definition success_spec (coins_taken_before : list coin) (rest : list coin) (a : authored) : Prop :=
    exists more rest',
      rest = more ++ rest' /\ a_inputs a = coins_taken_before ++ more /\
      a_total_in a = sum_coins (a_inputs a) /\
      a_est a = esz (counts_of (map fst (a_inputs a))) /\
      a_req_fee a = fee_for rate (a_est a) /\
      let c := a_total_in a - sum_values outs - a_req_fee a in
      0 <= c /\
      ((a_change a = Some c /\ a_outs a = outs ++ [mkOut c chg] /\ a_change_index a = Some (length outs)
        /\ c <> 0 /\ is_dust c chg chgwit default_relay_fee_per_kb = false)
       \/ (a_change a = None /\ a_outs a = outs /\ a_change_index a = None
           /\ (c = 0 \/ is_dust c chg chgwit default_relay_fee_per_kb = true))).

  Lemma loop_success fuel : forall rnd tf total taken rest a,
    loop fuel rnd tf total taken rest = Success a -> total = sum_coins taken ->
    success_spec taken rest a.
  Proof.
    induction fuel as [|fuel IH]; intros rnd tf total taken rest a H Ht; cbn [author_loop] in H; [discriminate|].
    destruct (pull (sum_values outs + tf) total taken rest) as [[total' taken'] rest'] eqn:EP.
    apply pull_spec in EP. destruct EP as (more & -> & -> & -> & Hstop & _).
    destruct (_ <? _) eqn:E1 in H; [discriminate|].
    destruct (_ <? _) eqn:E2 in H.
    - apply IH in H; [|rewrite sum_coins_app; lia].
      destruct H as (more2 & rest2 & -> & Hin & Hrest).
      exists (more ++ more2), rest2. rewrite <- !app_assoc in *. split; [reflexivity|]. split; [exact Hin|exact Hrest].
    - inv H. exists more, rest'. cbn [a_inputs a_total_in a_est a_req_fee a_change a_outs a_change_index].
      split; [reflexivity|]. split; [reflexivity|]. split; [rewrite sum_coins_app; lia|].
      split; [reflexivity|]. split; [reflexivity|]. cbn zeta.
      split; [lia|].
      destruct (_ =? 0) eqn:E3; cbn [negb andb].
      + right. repeat split; auto. left; lia.
      + destruct (is_dust _ _ _ _) eqn:E4; cbn [negb].
        * right. repeat split; auto.
        * left. repeat split; auto. lia.
  Qed.

  (** What "insufficient funds" means: every coin was handed out and the
      total is below the outputs plus the fee target of that round, which is
      the target the loop was entered with or the required fee of an earlier
      round, i.e. of a prefix of the arrangement. *)
  Lemma loop_insufficient fuel : forall rnd tf total taken rest r,
    loop fuel rnd tf total taken rest = InsufficientFunds r -> total = sum_coins taken ->
    exists tf', sum_coins (taken ++ rest) < sum_values outs + tf' /\
      (tf' = tf \/ exists p q, taken ++ rest = p ++ q /\ tf' = fee_for rate (esz (counts_of (map fst p)))).
  Proof.
    induction fuel as [|fuel IH]; intros rnd tf total taken rest r H Ht; cbn [author_loop] in H; [discriminate|].
    destruct (pull (sum_values outs + tf) total taken rest) as [[total' taken'] rest'] eqn:EP.
    apply pull_spec in EP. destruct EP as (more & -> & -> & -> & Hstop & _).
    destruct (_ <? _) eqn:E1 in H.
    - exists tf. destruct Hstop as [Hs| ->]; [lia|]. rewrite app_nil_r, sum_coins_app. split; [lia|left; reflexivity].
    - destruct (_ <? _) eqn:E2 in H; [|discriminate].
      apply IH in H; [|rewrite sum_coins_app; lia].
      destruct H as (tf' & Hlt & Htf). rewrite <- app_assoc in Hlt. exists tf'. split; [exact Hlt|].
      destruct Htf as [->|(p & q & Hpq & ->)].
      + right. exists (taken ++ more), rest'. rewrite <- app_assoc. split; reflexivity.
      + right. exists p, q. rewrite <- app_assoc in Hpq. split; [exact Hpq|reflexivity].
  Qed.

  (** The fuel is enough. *)
  Lemma loop_fuel fuel : forall rnd tf total taken rest,
    (length rest < fuel)%nat -> total < sum_values outs + tf ->
    loop fuel rnd tf total taken rest <> OutOfFuel.
  Proof.
    induction fuel as [|fuel IH]; intros rnd tf total taken rest Hf Hlt; [lia|]. cbn [author_loop].
    destruct (pull (sum_values outs + tf) total taken rest) as [[total' taken'] rest'] eqn:EP.
    apply pull_spec in EP. destruct EP as (more & -> & -> & -> & Hstop & Hmore).
    match goal with |- context [if ?b then InsufficientFunds _ else _] => destruct b eqn:E1 end;
      [intro HH; discriminate HH|].
    match goal with |- context [if ?b then author_loop _ _ _ _ _ _ _ _ _ _ _ else _] => destruct b eqn:E2 end;
      [|intro HH; discriminate HH].
    apply IH; [|lia].
    destruct more as [|c more]; [|rewrite app_length in Hf; cbn [length] in Hf; lia].
    destruct rest' as [|c rest']; [|exfalso; apply Hmore; [lia|discriminate|reflexivity]].
    cbn [app sum_coins fold_right] in *. lia.
  Qed.
  (** The round counter never exceeds the fuel. *)
  Lemma loop_rounds fuel : forall rnd tf total taken rest,
    match loop fuel rnd tf total taken rest with
    | Success a => (a_rounds a <= rnd + fuel)%nat
    | InsufficientFunds r => (r <= rnd + fuel)%nat
    | OutOfFuel => True
    end.
  Proof.
    induction fuel as [|fuel IH]; intros rnd tf total taken rest; cbn [author_loop]; [exact I|].
    destruct (pull (sum_values outs + tf) total taken rest) as [[total' taken'] rest'].
    match goal with |- context [if ?b then InsufficientFunds _ else _] => destruct b end; [lia|].
    match goal with |- context [if ?b then author_loop _ _ _ _ _ _ _ _ _ _ _ else _] => destruct b end.
    - specialize (IH (S rnd) (fee_for rate (esz (counts_of (map fst taken')))) total' taken' rest').
      destruct (loop fuel (S rnd) _ total' taken' rest'); try lia; exact I.
    - cbn [a_rounds]. lia.
  Qed.
End AuthorProofs.

(** ** No prefix of the arrangement would have been enough *)
Lemma pull_minimal target rest : forall total taken total' taken' rest',
  pull target total taken rest = (total', taken', rest') ->
  forall m1 m2, taken' = taken ++ m1 ++ m2 -> m2 <> [] -> total + sum_coins m1 < target.
Proof.
  induction rest as [|c rest IH]; intros total taken total' taken' rest' H m1 m2 Heq Hne; cbn [pull] in H.
  - injection H as _ E2 _. rewrite <- E2 in Heq. rewrite <- (app_nil_r taken) in Heq at 1. apply app_inv_head in Heq.
    symmetry in Heq. apply app_eq_nil in Heq. destruct Heq; contradiction.
  - destruct (total <? target) eqn:E.
    + destruct m1 as [|x m1].
      * change (sum_coins []) with 0. lia.
      * pose proof (pull_spec _ _ _ _ _ _ _ H) as (more & _ & Ht & _).
        rewrite Heq in Ht. rewrite <- !app_assoc in Ht. apply app_inv_head in Ht.
        cbn [app] in Ht. inv Ht.
        change (sum_coins (c :: m1)) with (snd c + sum_coins m1).
        specialize (IH _ _ _ _ _ H m1 m2). rewrite <- !app_assoc in IH. cbn [app] in IH.
        specialize (IH eq_refl Hne). lia.
    + injection H as _ E2 _. rewrite <- E2 in Heq. rewrite <- (app_nil_r taken) in Heq at 1. apply app_inv_head in Heq.
      symmetry in Heq. apply app_eq_nil in Heq. destruct Heq; contradiction.
Qed.

Section NoPrefix.
  Variable cf : cfg.
  Variable outs : list txout.
  Variable rate : Z.
  Variable chg : Z.
  Variable chgwit : bool.
  Notation loop := (author_loop cf outs rate chg chgwit).
  Notation esz := (est_size cf outs chg).
  Notation need Q := (sum_values outs + fee_for rate (esz (counts_of (map fst Q)))).

  Hypothesis Hmono : forall p e : list coin,
    fee_for rate (esz (counts_of (map fst p))) <= fee_for rate (esz (counts_of (map fst (p ++ e)))).

  Lemma loop_no_prefix_covers fuel : forall rnd tf total taken rest r,
    loop fuel rnd tf total taken rest = InsufficientFunds r -> total = sum_coins taken ->
    (forall e q, rest = e ++ q -> e <> [] -> tf <= fee_for rate (esz (counts_of (map fst (taken ++ e))))) ->
    forall e q, rest = e ++ q -> e <> [] -> sum_coins (taken ++ e) < need (taken ++ e).
  Proof.
    induction fuel as [|fuel IH]; intros rnd tf total taken rest r H Ht Htf e q He Hne;
      cbn [author_loop] in H; [discriminate|].
    destruct (pull (sum_values outs + tf) total taken rest) as [[total' taken'] rest'] eqn:EP.
    pose proof (pull_minimal _ _ _ _ _ _ _ EP) as Hmin.
    apply pull_spec in EP. destruct EP as (more & Hrest & -> & -> & Hstop & _).
    rewrite Hrest in He. apply app_eq_app in He. destruct He as (l & [(Hm & Hq)|(Hm & Hq)]).
    - (* e is a prefix of what was pulled *)
      destruct l as [|x l].
      + rewrite app_nil_r in Hm. subst e.
        match type of H with context [if ?b then InsufficientFunds _ else _] => destruct b eqn:E1 end.
        * specialize (Htf more rest' Hrest Hne). rewrite sum_coins_app. lia.
        * match type of H with context [if ?b then author_loop _ _ _ _ _ _ _ _ _ _ _ else _] => destruct b eqn:E2 end;
            [|discriminate].
          rewrite sum_coins_app. lia.
      + specialize (Hmin e (x :: l)). rewrite Hm in Hmin. specialize (Hmin eq_refl ltac:(discriminate)).
        specialize (Htf e q). rewrite Hrest, Hm, Hq, <- app_assoc in Htf. specialize (Htf eq_refl Hne).
        rewrite sum_coins_app. lia.
    - (* e goes beyond what was pulled *)
      destruct l as [|x l].
      + rewrite app_nil_r in Hm. subst e.
        match type of H with context [if ?b then InsufficientFunds _ else _] => destruct b eqn:E1 end.
        * specialize (Htf more rest' Hrest Hne). rewrite sum_coins_app. lia.
        * match type of H with context [if ?b then author_loop _ _ _ _ _ _ _ _ _ _ _ else _] => destruct b eqn:E2 end;
            [|discriminate].
          rewrite sum_coins_app. lia.
      + match type of H with context [if ?b then InsufficientFunds _ else _] => destruct b eqn:E1 end.
        * destruct Hstop as [Hs|Hs]; [lia|]. rewrite Hs in Hq. discriminate.
        * match type of H with context [if ?b then author_loop _ _ _ _ _ _ _ _ _ _ _ else _] => destruct b eqn:E2 end;
            [|discriminate].
          subst e. rewrite app_assoc.
          eapply IH with (q := q); [exact H|rewrite sum_coins_app; lia| |exact Hq|discriminate].
          intros e' q' _ _. apply Hmono.
  Qed.
End NoPrefix.

Lemma pull_no_need target total taken rest : target <= total ->
  pull target total taken rest = (total, taken, rest).
Proof. intros H. destruct rest as [|c rest]; cbn [pull]; [reflexivity|]. destruct (total <? target) eqn:E; [lia|reflexivity]. Qed.

Lemma map_fst_combine {A B} (l : list A) (l' : list B) : length l = length l' -> map fst (combine l l') = l.
Proof. revert l'. induction l as [|a l IH]; intros [|b l'] H; cbn in *; try discriminate; [reflexivity|]. f_equal. apply IH. lia. Qed.

Lemma init_minimal_spec cf : init_minimal cf = true ->
  counts_nonneg (cfg_init cf) /\ forall k, est_inputs (cfg_init cf) <= est_inputs (unit_counts k).
Proof.
  unfold init_minimal, counts_nonneg. rewrite !andb_true_iff. cbn [forallb]. rewrite !andb_true_iff.
  intros ((((H1&H2)&H3)&H4)&(K1&K2&K3&K4&_)). split; [lia|]. intros k; destruct k; lia.
Qed.

Lemma real_vsize_lb ins outs : admissible ins -> outs_wf outs -> 10 <= real_vsize ins outs.
Proof.
  intros Ha Ho. unfold admissible in Ha. apply sum_in_nonneg in Ha. destruct Ha as (Hb&Hw).
  pose proof (sum_out_sizes_nonneg outs Ho).
  pose proof (varint_size_bounds (Z.of_nat (length ins))). pose proof (varint_size_bounds (Z.of_nat (length outs))).
  unfold real_vsize, real_weight, real_total, real_base, witness_scale_factor.
  destruct (has_witness ins); rewrite Z.quot_div_nonneg by lia; lia.
Qed.

Lemma est_size_vcc cf outs chg c : cfg_vcc cf = true ->
  est_size cf outs chg c = est_vsize_gen true c outs chg.
Proof. unfold est_size. intros ->. reflexivity. Qed.

Section Top.
  Variable cf : cfg.
  Variable outs : list txout.
  Variable rate : Z.
  Variable chg : Z.
  Variable chgwit : bool.
  Variable coins : list coin.

  Hypothesis HC : consts_exact = true.
  Hypothesis Houts : outs_wf outs.
  Hypothesis Hvals : 0 <= sum_values outs.
  Hypothesis Hchg : 0 < chg.

  Notation run := (author cf outs rate chg chgwit coins).
  Notation esz := (est_size cf outs chg).

  Lemma esz_lb c : counts_nonneg c -> 10 <= esz c.
  Proof. intros. unfold est_size. apply est_size_lb; auto; lia. Qed.

  Lemma esz_mono c d : counts_nonneg c -> counts_le c d -> esz c <= esz d.
  Proof. intros. unfold est_size. apply est_size_mono; auto. Qed.

  (** *** Termination within the fuel *)
  Theorem author_terminates : 0 <= rate -> counts_nonneg (cfg_init cf) -> run <> OutOfFuel.
  Proof.
    intros Hr Hi. unfold author.
    set (tf0 := fee_for rate (esz (cfg_init cf))).
    destruct (Z_lt_ge_dec 0 (sum_values outs + tf0)) as [Hpos|Hz].
    - apply loop_fuel; [lia|exact Hpos].
    - pose proof (fee_for_nonneg rate (esz (cfg_init cf))) as Hn. fold tf0 in Hn.
      assert (Hr0 : rate = 0).
      { destruct (Z.eq_dec rate 0) as [|Hne]; [assumption|exfalso].
        pose proof (fee_for_pos rate (esz (cfg_init cf)) HC ltac:(lia)) as Hp.
        pose proof (esz_lb _ Hi). fold tf0 in Hp. lia. }
      cbn [author_loop]. rewrite pull_no_need by lia.
      assert (E1 : (0 <? sum_values outs + tf0) = false) by lia. rewrite E1.
      subst rate. rewrite fee_for_zero_rate.
      assert (E2 : (0 - sum_values outs <? 0) = false) by lia. rewrite E2. discriminate.
  Qed.

  Theorem author_rounds :
    match run with
    | Success a => (a_rounds a <= length coins + 1)%nat
    | InsufficientFunds r => (r <= length coins + 1)%nat
    | OutOfFuel => True
    end.
  Proof.
    clear HC Houts Hvals Hchg. unfold author.
    pose proof (loop_rounds cf outs rate chg chgwit (S (length coins)) 0 (fee_for rate (esz (cfg_init cf))) 0 [] coins) as H.
    destruct (author_loop cf outs rate chg chgwit (S (length coins)) 0 _ 0 [] coins); try lia; exact I.
  Qed.

  (** *** Success *)
  Theorem author_success a : run = Success a -> success_spec cf outs rate chg chgwit [] coins a.
  Proof. unfold author. intros H. eapply loop_success; [exact H|reflexivity]. Qed.

  Section Success.
    Variable a : authored.
    Hypothesis Hrun : run = Success a.

    (** requested outputs unchanged, in order; the change output, if any, is appended *)
    Theorem success_outputs :
      firstn (length outs) (a_outs a) = outs /\
      match a_change a with
      | Some c => a_outs a = outs ++ [mkOut c chg] /\ a_change_index a = Some (length outs)
      | None => a_outs a = outs /\ a_change_index a = None
      end.
    Proof.
      destruct (author_success a Hrun) as (more & rest' & _ & _ & _ & _ & _ & _ & Hcase).
      destruct Hcase as [(-> & -> & -> & _)|(-> & -> & -> & _)].
      - split; [|split; reflexivity]. rewrite firstn_app, firstn_all, Nat.sub_diag. cbn. apply app_nil_r.
      - split; [apply firstn_all|split; reflexivity].
    Qed.

    (** the inputs are a prefix of the offered arrangement and their values are the total input *)
    Theorem success_inputs :
      (exists rest', coins = a_inputs a ++ rest') /\ a_total_in a = sum_coins (a_inputs a).
    Proof.
      destruct (author_success a Hrun) as (more & rest' & -> & Hin & Htot & _).
      cbn [app] in Hin. split; [exists rest'; rewrite Hin; reflexivity|exact Htot].
    Qed.

    (** value conservation, with the fee made explicit *)
    Theorem success_conservation :
      sum_coins (a_inputs a) = sum_values (a_outs a) + paid_fee a /\
      sum_values (a_outs a) = sum_values outs + match a_change a with Some c => c | None => 0 end /\
      match a_change a with
      | Some _ => paid_fee a = a_req_fee a
      | None => a_req_fee a <= paid_fee a
      end.
    Proof.
      destruct (author_success a Hrun) as (more & rest' & _ & _ & Htot & _ & _ & Hc0 & Hcase).
      clear HC Houts Hvals Hchg. unfold paid_fee. rewrite <- Htot.
      destruct Hcase as [(-> & -> & _)|(-> & -> & _)].
      - rewrite sum_values_app. cbn [sum_values fold_right out_value]. lia.
      - lia.
    Qed.

    (** the fee is at least the required fee for the estimated size of exactly this transaction *)
    Theorem success_fee_lower :
      a_est a = esz (counts_of (map fst (a_inputs a))) /\
      a_req_fee a = fee_for rate (a_est a) /\ a_req_fee a <= paid_fee a.
    Proof.
      destruct (author_success a Hrun) as (more & rest' & _ & _ & _ & He & Hf & _).
      pose proof success_conservation as (_ & _ & H3).
      clear HC Houts Hvals Hchg. split; [exact He|]. split; [exact Hf|]. destruct (a_change a); lia.
    Qed.

    (** ... and stays below it plus one dust threshold of the change script *)
    Theorem success_fee_upper :
      paid_fee a < fee_for rate (a_est a) + dust_threshold chg chgwit /\
      (a_change a <> None -> paid_fee a = fee_for rate (a_est a)).
    Proof.
      destruct (author_success a Hrun) as (more & rest' & _ & _ & Htot & _ & Hf & Hc0 & Hcase).
      pose proof (dust_threshold_pos chg chgwit ltac:(lia)) as HT.
      unfold paid_fee. rewrite <- Hf.
      destruct Hcase as [(Hch & -> & _)|(Hch & -> & _ & Hd)].
      - rewrite sum_values_app. cbn [sum_values fold_right out_value]. split; [lia|intros _; lia].
      - split; [|rewrite Hch; intros F; contradiction].
        destruct Hd as [Hz|Hd]; [lia|]. apply is_dust_spec in Hd; auto; lia.
    Qed.

    (** a change output is never zero and never dust *)
    Theorem success_change c : a_change a = Some c ->
      0 < c /\ is_dust c chg chgwit default_relay_fee_per_kb = false /\ dust_threshold chg chgwit <= c.
    Proof.
      intros Hc. destruct (author_success a Hrun) as (more & rest' & _ & _ & _ & _ & _ & Hc0 & Hcase).
      destruct Hcase as [(Hch & _ & _ & Hnz & Hnd)|(Hch & _)]; [|congruence].
      rewrite Hch in Hc. inv Hc. split; [lia|]. split; [exact Hnd|].
      destruct (Z_lt_ge_dec (a_total_in a - sum_values outs - a_req_fee a) (dust_threshold chg chgwit)) as [Hlt|]; [|lia].
      apply is_dust_spec in Hlt; auto; try lia; try congruence.
    Qed.

    (** the fee covers the requested rate on the REAL signed size, for every
        admissible assignment of signature lengths, whatever the number of
        outputs *)
    Theorem success_fee_covers_real sigs :
      cfg_vcc cf = true -> default_relay_fee_per_kb <= rate ->
      length sigs = length (a_inputs a) ->
      admissible (combine (map fst (a_inputs a)) sigs) ->
      fee_for rate (real_vsize (combine (map fst (a_inputs a)) sigs) (a_outs a)) <= paid_fee a.
    Proof.
      intros Hv Hrate Hlen Hadm.
      pose proof success_fee_lower as (He & Hf & Hle).
      pose proof (consts_exact_spec HC) as (_&_&_&_&_&_&_&_&HR).
      set (ins := combine (map fst (a_inputs a)) sigs) in *.
      assert (Hk : map fst ins = map fst (a_inputs a)) by (apply map_fst_combine; rewrite map_length; lia).
      assert (Hreal : real_vsize ins (a_outs a) <= a_est a).
      { rewrite He, <- Hk. unfold est_size. rewrite Hv.
        destruct (author_success a Hrun) as (more & rest' & _ & _ & _ & _ & _ & _ & Hcase).
        eapply est_ge_real with (v := a_total_in a - sum_values outs - a_req_fee a); auto.
        destruct Hcase as [(_ & -> & _)|(_ & -> & _)]; [right|left]; reflexivity. }
      assert (Hwf' : outs_wf (a_outs a)).
      { destruct (author_success a Hrun) as (more & rest' & _ & _ & _ & _ & _ & _ & Hcase).
        destruct Hcase as [(_ & -> & _)|(_ & -> & _)]; [|exact Houts].
        apply Forall_app; split; [exact Houts|]. repeat constructor. cbn. lia. }
      pose proof (real_vsize_lb ins (a_outs a) Hadm Hwf').
      etransitivity; [|exact Hle]. rewrite Hf. apply fee_for_mono; auto; nia.
    Qed.
  End Success.

  (** *** Insufficient funds *)
  Theorem author_insufficient r :
    init_minimal cf = true -> default_relay_fee_per_kb <= rate ->
    run = InsufficientFunds r ->
    sum_coins coins < sum_values outs + fee_for rate (esz (counts_of (map fst coins))).
  Proof.
    intros Hmin Hrate Hrun. apply init_minimal_spec in Hmin. destruct Hmin as (Hinn & Hmin).
    pose proof (consts_exact_spec HC) as (_&_&_&_&_&_&_&_&HR).
    unfold author in Hrun. apply loop_insufficient in Hrun; [|reflexivity].
    destruct Hrun as (tf' & Hlt & Htf). cbn [app] in *.
    assert (Hall : tf' <= fee_for rate (esz (counts_of (map fst coins))) \/ coins = []).
    { destruct Htf as [->|(p & q & -> & ->)].
      - destruct coins as [|c l]; [right; reflexivity|left].
        pose proof (esz_lb _ Hinn).
        apply fee_for_mono; auto; [lia|nia|].
        unfold est_size. rewrite !est_vsize_decomp.
        pose proof (Hmin (fst c)).
        pose proof (est_inputs_mono (unit_counts (fst c)) (counts_of (map fst (c :: l))) HC) as Hm.
        cbn [map] in *. 
        assert (counts_nonneg (unit_counts (fst c))) by (unfold unit_counts; apply add_kind_nonneg; unfold counts_nonneg; cbn; lia).
        specialize (Hm ltac:(assumption) (counts_of_cons_unit _ _)). lia.
      - left. rewrite map_app.
        pose proof (esz_lb _ (counts_of_nonneg (map fst p))).
        apply fee_for_mono; auto; [lia|nia|].
        apply esz_mono; [apply counts_of_nonneg|apply counts_of_app_le]. }
    destruct Hall as [Hle| ->]; [lia|].
    change (sum_coins []) with 0. cbn [map].
    pose proof (fee_for_pos rate (esz (counts_of [])) HC ltac:(lia)) as Hp.
    pose proof (esz_lb _ (counts_of_nonneg [])). lia.
  Qed.

  (** Stronger: no prefix of the offered arrangement covers the outputs plus
      the required fee of the transaction spending exactly that prefix. *)
  Theorem author_insufficient_no_prefix r :
    init_minimal cf = true -> default_relay_fee_per_kb <= rate ->
    run = InsufficientFunds r ->
    forall Q q, coins = Q ++ q ->
      sum_coins Q < sum_values outs + fee_for rate (esz (counts_of (map fst Q))).
  Proof.
    intros Hmin Hrate Hrun Q q HQ. apply init_minimal_spec in Hmin. destruct Hmin as (Hinn & Hmin).
    pose proof (consts_exact_spec HC) as (_&_&_&_&_&_&_&_&HR).
    destruct Q as [|c Q].
    { change (sum_coins []) with 0. cbn [map].
      pose proof (fee_for_pos rate (esz (counts_of [])) HC ltac:(lia)) as Hp.
      pose proof (esz_lb _ (counts_of_nonneg [])). lia. }
    unfold author in Hrun.
    eapply (loop_no_prefix_covers cf outs rate chg chgwit) with (taken := []) (e := c :: Q) (q := q) in Hrun;
      [exact Hrun| |reflexivity| |exact HQ|discriminate].
    - intros p e. rewrite map_app. pose proof (esz_lb _ (counts_of_nonneg (map fst p))).
      apply fee_for_mono; auto; [lia|nia|]. apply esz_mono; [apply counts_of_nonneg|apply counts_of_app_le].
    - intros e q' _ Hne. cbn [app]. destruct e as [|x e]; [contradiction|].
      pose proof (esz_lb _ Hinn).
      apply fee_for_mono; auto; [lia|nia|].
      unfold est_size. rewrite !est_vsize_decomp.
      pose proof (Hmin (fst x)).
      pose proof (est_inputs_mono (unit_counts (fst x)) (counts_of (map fst (x :: e))) HC) as Hm.
      cbn [map] in *.
      assert (counts_nonneg (unit_counts (fst x))) by (unfold unit_counts; apply add_kind_nonneg; unfold counts_nonneg; cbn; lia).
      specialize (Hm ltac:(assumption) (counts_of_cons_unit _ _)). lia.
  Qed.

  (** The statement that holds whatever the initial guess is. *)
  Theorem author_insufficient_general r :
    default_relay_fee_per_kb <= rate -> counts_nonneg (cfg_init cf) ->
    run = InsufficientFunds r ->
    sum_coins coins < sum_values outs
       + Z.max (fee_for rate (esz (cfg_init cf))) (fee_for rate (esz (counts_of (map fst coins)))).
  Proof.
    intros Hrate Hinn Hrun.
    pose proof (consts_exact_spec HC) as (_&_&_&_&_&_&_&_&HR).
    unfold author in Hrun. apply loop_insufficient in Hrun; [|reflexivity].
    destruct Hrun as (tf' & Hlt & Htf). cbn [app] in *.
    destruct Htf as [->|(p & q & Hpq & ->)]; [lia|].
    pose proof (esz_lb _ (counts_of_nonneg (map fst p))).
    assert (fee_for rate (esz (counts_of (map fst p))) <= fee_for rate (esz (counts_of (map fst coins)))).
    { apply fee_for_mono; auto; [lia|nia|]. rewrite Hpq, map_app.
      apply esz_mono; [apply counts_of_nonneg|apply counts_of_app_le]. }
    lia.
  Qed.
End Top.

