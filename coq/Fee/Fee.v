(** Executable model of transaction authoring (property C07):
    wallet/txrules (FeeForSerializeSize, IsDustOutput through btcd's
    mempool.IsDust/GetDustThreshold), wallet/txsizes (EstimateVirtualSize),
    wallet/txauthor (NewUnsignedTransaction, RandomizeOutputPosition),
    wallet/createtx.go (makeInputSource: the accumulating input source of
    automatic selection; constantInputSource: the input source of an explicit
    selection; the change source's declared script size per change address
    type), txrules.CheckOutput, and the serialized virtual size of the signed
    transaction (wire.MsgTx.SerializeSize / blockchain weight /
    mempool.GetTxVirtualSize) as a function of the actual signature and
    public-key lengths.

    Model only - no proofs here.  Numeric constants and two facts about the
    shape of the source (which count goes into the output-count compact-size,
    the initial size guess) come from Generated/TxsizesConsts.v.  Amounts and
    sizes are [Z]; Go's int64 wrap-around is not modelled (amounts stay below
    2^63 / rate in every use). *)
From Verif Require Import Base.Prelude Generated.TxsizesConsts.
Local Open Scope Z_scope.

(** btcd constants that are not part of the repository:
    blockchain.WitnessScaleFactor and btcutil.MaxSatoshi. *)
Definition witness_scale_factor : Z := 4.
Definition max_satoshi : Z := 2100000000000000.

(** wire.VarIntSerializeSize *)
Definition varint_size (n : Z) : Z :=
  if n <? 253 then 1 else if n <=? 65535 then 3 else if n <=? 4294967295 then 5 else 9.

(** ** txrules *)

(** FeeForSerializeSize: Go's [/] truncates (Z.quot). *)
Definition fee_for (rate size : Z) : Z :=
  let fee := Z.quot (rate * size) fee_divisor in
  let fee := if (fee =? 0) && (0 <? rate) then rate else fee in
  if (fee <? 0) || (max_satoshi <? fee) then max_satoshi else fee.

(** A transaction output: value and length of its pkScript. *)
Record txout := mkOut { out_value : Z; out_size : Z }.

(** wire.TxOut.SerializeSize *)
Definition out_ser_size (sz : Z) : Z := 8 + varint_size sz + sz.

(** mempool.GetDustThreshold for an output whose script has [sz] bytes and is
    ([wit] = true) or is not a witness program. *)
Definition dust_threshold (sz : Z) (wit : bool) : Z :=
  let total := out_ser_size sz + 41 in
  let total := if wit then total + Z.quot 107 witness_scale_factor else total + 107 in
  3 * total.

(** mempool.IsDust (txrules.IsDustOutput for a spendable, non-null-data script). *)
Definition is_dust (v sz : Z) (wit : bool) (relay : Z) : bool :=
  Z.quot (v * 1000) (dust_threshold sz wit) <? relay.

(** ** txsizes *)

Inductive kind := P2PKH | P2TR | P2WPKH | NP2WPKH.

Definition kind_eqb (a b : kind) : bool :=
  match a, b with
  | P2PKH, P2PKH | P2TR, P2TR | P2WPKH, P2WPKH | NP2WPKH, NP2WPKH => true
  | _, _ => false
  end.

(** numbers of inputs of each kind, in EstimateVirtualSize's parameter order *)
Record counts := mkCounts { n_p2pkh : Z; n_p2tr : Z; n_p2wpkh : Z; n_nested : Z }.

Definition zero_counts : counts := mkCounts 0 0 0 0.

Definition add_kind (k : kind) (c : counts) : counts :=
  match k with
  | P2PKH => mkCounts (n_p2pkh c + 1) (n_p2tr c) (n_p2wpkh c) (n_nested c)
  | P2TR => mkCounts (n_p2pkh c) (n_p2tr c + 1) (n_p2wpkh c) (n_nested c)
  | P2WPKH => mkCounts (n_p2pkh c) (n_p2tr c) (n_p2wpkh c + 1) (n_nested c)
  | NP2WPKH => mkCounts (n_p2pkh c) (n_p2tr c) (n_p2wpkh c) (n_nested c + 1)
  end.

(** the classification loop of NewUnsignedTransaction *)
Definition counts_of (ks : list kind) : counts := fold_right add_kind zero_counts ks.

Definition sum_out_sizes (outs : list txout) : Z :=
  fold_right (fun o a => out_ser_size (out_size o) + a) 0 outs.

Definition sum_values (outs : list txout) : Z :=
  fold_right (fun o a => out_value o + a) 0 outs.

(** EstimateVirtualSize, transcribed.  [vcc] = the output-count compact-size
    is taken over [outputCount] (which includes the change output) rather than
    over [len(txOuts)]. *)
Definition est_vsize_gen (vcc : bool) (c : counts) (outs : list txout) (chg : Z) : Z :=
  let num_outs := Z.of_nat (length outs) in
  let change_output_size := if 0 <? chg then 8 + varint_size chg + chg else 0 in
  let output_count := if 0 <? chg then num_outs + 1 else num_outs in
  let base_size :=
    8 + varint_size (n_p2pkh c + n_p2tr c + n_p2wpkh c + n_nested c)
      + varint_size (if vcc then output_count else num_outs)
      + n_p2pkh c * est_in_p2pkh
      + n_p2wpkh c * est_in_p2wpkh
      + n_p2tr c * est_in_p2tr
      + n_nested c * est_in_nested
      + sum_out_sizes outs + change_output_size in
  let witness_weight :=
    if 0 <? n_p2wpkh c + n_nested c + n_p2tr c then
      est_ww_marker + varint_size (n_p2wpkh c + n_nested c + n_p2tr c)
        + n_p2wpkh c * est_ww_p2wpkh
        + n_p2tr c * est_ww_p2tr
        + n_nested c * est_ww_nested
    else 0 in
  base_size + Z.quot (witness_weight + witness_round_add) witness_scale_factor.

(** ** txauthor *)

(** What the source says now. *)
Record cfg := mkCfg { cfg_vcc : bool; cfg_init : counts }.

Definition generated_cfg : cfg :=
  mkCfg varint_counts_change
        (mkCounts init_guess_p2pkh init_guess_p2tr init_guess_p2wpkh init_guess_nested).

(** The two source shapes the theorems are about: the pinned commit and the
    repaired code. *)
Definition pinned_cfg : cfg := mkCfg false (mkCounts 0 0 1 0).
Definition fixed_cfg : cfg := mkCfg true (mkCounts 0 1 0 0).

Notation coin := (kind * Z)%type (only parsing).

Definition sum_coins (cs : list coin) : Z := fold_right (fun c a => snd c + a) 0 cs.

(** One call of the input source.
    [fixed = false]: wallet.makeInputSource - keep what was handed out so far
    ([currentTotal], [currentInputs]) and extend it, in the arrangement, until
    the ACCUMULATED total ([currentTotal += value]) reaches the target or the
    coins are exhausted.
    [fixed = true]: wallet.constantInputSource - the whole selection whatever
    the target (the sums are accumulated once, when the source is made; later
    calls find nothing left and return the same). *)
Fixpoint pull (fixed : bool) (target total : Z) (taken rest : list coin) : Z * list coin * list coin :=
  match rest with
  | [] => (total, taken, [])
  | c :: rest' =>
      if fixed || (total <? target) then pull fixed target (total + snd c) (taken ++ [c]) rest'
      else (total, taken, rest)
  end.

Record authored := mkAuthored {
  a_inputs : list coin;         (* TxIn, in order *)
  a_total_in : Z;               (* TotalInput *)
  a_outs : list txout;          (* TxOut *)
  a_change : option Z;          (* amount of the change output, if one was added *)
  a_change_index : option nat;  (* ChangeIndex *)
  a_est : Z;                    (* maxSignedSize of the final round *)
  a_req_fee : Z;                (* maxRequiredFee of the final round *)
  a_rounds : nat                (* calls of the input source *)
}.

Inductive result :=
| Success (a : authored)
| InsufficientFunds (rounds : nat)
| OutOfFuel.

Section Author.
  Variable cf : cfg.
  Variable fixed : bool.           (* constantInputSource instead of makeInputSource *)
  Variable outs : list txout.      (* requested outputs *)
  Variable rate : Z.               (* feeRatePerKb *)
  Variable chg : Z.                (* changeSource.ScriptSize: the DECLARED length of the change script *)
  Variable chgr : Z.               (* length of the script changeSource.NewScript returns *)
  Variable chgwit : bool.          (* that script is a witness program *)

  Definition est_size (c : counts) : Z := est_vsize_gen (cfg_vcc cf) c outs chg.

  (** The [for] loop of NewUnsignedTransaction; [fuel] bounds the rounds. *)
  Fixpoint author_loop (fuel rnd : nat) (target_fee total : Z) (taken rest : list coin) : result :=
    match fuel with
    | O => OutOfFuel
    | S fuel' =>
        let target_amount := sum_values outs in
        let '(total', taken', rest') := pull fixed (target_amount + target_fee) total taken rest in
        if total' <? target_amount + target_fee then InsufficientFunds (S rnd)
        else
          let max_signed_size := est_size (counts_of (map fst taken')) in
          let max_required_fee := fee_for rate max_signed_size in
          let remaining := total' - target_amount in
          if remaining <? max_required_fee then
            author_loop fuel' (S rnd) max_required_fee total' taken' rest'
          else
            let change_amount := total' - target_amount - max_required_fee in
            let add := negb (change_amount =? 0)
                       && negb (is_dust change_amount chgr chgwit default_relay_fee_per_kb) in
            Success {| a_inputs := taken';
                       a_total_in := total';
                       a_outs := if add then outs ++ [mkOut change_amount chgr] else outs;
                       a_change := if add then Some change_amount else None;
                       a_change_index := if add then Some (length outs) else None;
                       a_est := max_signed_size;
                       a_req_fee := max_required_fee;
                       a_rounds := S rnd |}
    end.

  Definition author (coins : list coin) : result :=
    let estimated_size := est_size (cfg_init cf) in
    author_loop (S (length coins)) 0 (fee_for rate estimated_size) 0 [] coins.
End Author.

(** Fee as the authoring loop accounts for it: the total the input source
    REPORTED minus the outputs. *)
Definition paid_fee (a : authored) : Z := a_total_in a - sum_values (a_outs a).

(** Fee of the transaction as the network sees it: the values of the coins it
    spends minus the values of its outputs. *)
Definition tx_fee (a : authored) : Z := sum_coins (a_inputs a) - sum_values (a_outs a).

(** ** txauthor.RandomizeOutputPosition / RandomizeChangePosition *)

Definition set_nth {A} (n : nat) (x : A) (l : list A) : list A :=
  firstn n l ++ match skipn n l with [] => [] | _ :: t => x :: t end.

(** [outputs[r], outputs[index] = outputs[index], outputs[r]] *)
Definition swap_outputs (r i : nat) (l : list txout) : list txout :=
  match nth_error l r, nth_error l i with
  | Some x, Some y => set_nth i x (set_nth r y l)
  | _, _ => l
  end.

(** [tx.ChangeIndex = RandomizeOutputPosition(tx.Tx.TxOut, tx.ChangeIndex)],
    called by txToOutputs when there is a change output; [rnd] is the random
    draw, [cprng.Int31n(len(outputs))] = [rnd mod len]. *)
Definition randomize (rnd : nat) (a : authored) : authored :=
  match a_change_index a with
  | Some i =>
      let r := Nat.modulo rnd (length (a_outs a)) in
      {| a_inputs := a_inputs a; a_total_in := a_total_in a;
         a_outs := swap_outputs r i (a_outs a);
         a_change := a_change a; a_change_index := Some r;
         a_est := a_est a; a_req_fee := a_req_fee a; a_rounds := a_rounds a |}
  | None => a
  end.

(** ** The wallet-level authoring function (wallet/createtx.go txToOutputs,
       wallet/psbt.go FundPsbt with caller-supplied inputs) *)

(** Address type of the change address (waddrmgr.AddressType of the change
    scope's internal branch, or the account's override). *)
Inductive chkind := ChP2PKH | ChNP2WPKH | ChP2WPKH | ChP2TR.

(** [scriptSize] of addrMgrWithChangeSource: what the change source DECLARES to
    txauthor (regenerated from the switch in createtx.go). *)
Definition change_decl (k : chkind) : Z :=
  match k with
  | ChP2PKH => change_size_pubkeyhash
  | ChNP2WPKH => change_size_nested_witness_pubkey
  | ChP2WPKH => change_size_witness_pubkey
  | ChP2TR => change_size_taproot_pubkey
  end.

(** length of the script txscript.PayToAddrScript builds for an address of
    that type (btcd, outside the repository) *)
Definition change_real (k : chkind) : Z :=
  match k with ChP2PKH => 25 | ChNP2WPKH => 23 | ChP2WPKH => 22 | ChP2TR => 34 end.

Definition change_wit (k : chkind) : bool :=
  match k with ChP2WPKH | ChP2TR => true | _ => false end.

(** [fixed]: explicit selection ([constantInputSource]) or automatic selection
    over the arrangement [coins] ([makeInputSource]); [randomizes]: the path
    calls RandomizeChangePosition (txToOutputs does, FundPsbt with
    caller-supplied inputs does not). *)
Definition wallet_author (fixed randomizes : bool) (outs : list txout) (rate : Z) (k : chkind)
    (coins : list coin) (rnd : nat) : result :=
  match author generated_cfg fixed outs rate (change_decl k) (change_real k) (change_wit k) coins with
  | Success a => Success (if randomizes then randomize rnd a else a)
  | r => r
  end.

(** txrules.CheckOutput: 0 = accepted, 1 = negative, 2 = exceeds the money
    supply, 3 = dust. *)
Definition check_output (v sz : Z) (wit : bool) (relay : Z) : Z :=
  if v <? 0 then 1 else if max_satoshi <? v then 2 else if is_dust v sz wit relay then 3 else 0.

(** ** The signed transaction *)

(** A signed input: its kind, the length of its signature as the signer
    produced it - the DER encoding (without the sighash byte) for the ECDSA
    kinds, the BIP-340 signature including an optional sighash byte for
    P2TR key spends - and the length of the serialized public key it reveals
    (33 compressed, 65 uncompressed; unused for P2TR). *)
Record sinput := mkSin { si_kind : kind; si_sig : Z; si_pk : Z }.

Definition mk_sinputs (ks : list kind) (sg : list (Z * Z)) : list sinput :=
  map (fun x => mkSin (fst x) (fst (snd x)) (snd (snd x))) (combine ks sg).

(** serialized size of the input without witness:
    outpoint 36, compact-size of the signature script, the script, sequence 4 *)
Definition in_base (i : sinput) : Z :=
  match si_kind i with
  | P2PKH => let script := 1 + (si_sig i + 1) + 1 + si_pk i in 32 + 4 + varint_size script + script + 4
  | P2WPKH | P2TR => 32 + 4 + 1 + 0 + 4
  | NP2WPKH => 32 + 4 + 1 + 23 + 4
  end.

(** serialized witness of the input inside a transaction that has witness
    data: item count, then each item with its compact-size *)
Definition in_wit (i : sinput) : Z :=
  match si_kind i with
  | P2PKH => 1
  | P2WPKH | NP2WPKH => 1 + (1 + (si_sig i + 1)) + (1 + si_pk i)
  | P2TR => 1 + (1 + si_sig i)
  end.

Definition has_witness (ins : list sinput) : bool :=
  existsb (fun i => negb (kind_eqb (si_kind i) P2PKH)) ins.

Definition sum_in_base (ins : list sinput) : Z := fold_right (fun i a => in_base i + a) 0 ins.
Definition sum_in_wit (ins : list sinput) : Z := fold_right (fun i a => in_wit i + a) 0 ins.

(** MsgTx.SerializeSizeStripped *)
Definition real_base (ins : list sinput) (outs : list txout) : Z :=
  4 + varint_size (Z.of_nat (length ins)) + sum_in_base ins
    + varint_size (Z.of_nat (length outs)) + sum_out_sizes outs + 4.

(** MsgTx.SerializeSize *)
Definition real_total (ins : list sinput) (outs : list txout) : Z :=
  real_base ins outs + (if has_witness ins then 2 + sum_in_wit ins else 0).

(** blockchain.GetTransactionWeight and mempool.GetTxVirtualSize *)
Definition real_weight ins outs : Z :=
  real_base ins outs * (witness_scale_factor - 1) + real_total ins outs.
Definition real_vsize ins outs : Z :=
  Z.quot (real_weight ins outs + (witness_scale_factor - 1)) witness_scale_factor.

(** ** Facts about the regenerated constants, as booleans

    Only what the theorems use: INEQUALITIES between the size constants and
    the proven worst-case signed sizes (a more conservative constant keeps
    every theorem), and exact equality only where the exact value is part of
    the property: fee rates are per 1000 bytes; the "plus one dust threshold"
    of the upper bound is the network's threshold at the 1000 sat/kvB floor. *)

(** worst-case weight (4 x stripped size + witness size) of one signed input:
    72-byte DER signature + sighash byte, 64-byte Schnorr signature + sighash
    byte; P2PKH with a compressed (33) or uncompressed (65) public key *)
Definition worst_weight (unc : bool) (k : kind) : Z :=
  match k with
  | P2PKH => 4 * (32 + 4 + 1 + (1 + 73 + 1 + (if unc then 65 else 33)) + 4)
  | P2WPKH => 4 * 41 + (1 + (1 + 73) + (1 + 33))
  | P2TR => 4 * 41 + (1 + (1 + 65))
  | NP2WPKH => 4 * 64 + (1 + (1 + 73) + (1 + 33))
  end.

(** weight the estimator allots to one input of a kind *)
Definition est_weight (k : kind) : Z :=
  match k with
  | P2PKH => 4 * est_in_p2pkh
  | P2WPKH => 4 * est_in_p2wpkh + est_ww_p2wpkh
  | P2TR => 4 * est_in_p2tr + est_ww_p2tr
  | NP2WPKH => 4 * est_in_nested + est_ww_nested
  end.

(** the estimate's allotment per input covers the worst signed input of every
    kind, and the witness part is rounded up *)
Definition sizes_cover (unc : bool) : bool :=
  forallb (fun k => worst_weight unc k <=? est_weight k) [P2PKH; P2TR; P2WPKH; NP2WPKH]
  && (2 <=? est_ww_marker) && (3 <=? witness_round_add).

(** the constants are sizes, rates are per 1000 bytes, the relay floor is not
    below the network's 1000 sat/kvB *)
Definition consts_sane : bool :=
  (0 <=? est_in_p2pkh) && (0 <=? est_in_p2wpkh) && (0 <=? est_in_p2tr) && (0 <=? est_in_nested)
  && (0 <=? est_ww_marker) && (0 <=? est_ww_p2wpkh) && (0 <=? est_ww_p2tr) && (0 <=? est_ww_nested)
  && (0 <=? witness_round_add) && (fee_divisor =? 1000) && (1000 <=? default_relay_fee_per_kb).

Definition consts_ok : bool := consts_sane && sizes_cover false.

(** does the P2PKH allotment also cover an input signed with an UNCOMPRESSED
    key?  (false while RedeemP2PKHSigScriptSize = 1+73+1+33) *)
Definition p2pkh_covers_uncompressed : bool := sizes_cover true.

Definition relay_floor_exact : bool := default_relay_fee_per_kb =? 1000.

(** the change source never declares less than the script it produces *)
Definition change_sizes_cover : bool :=
  forallb (fun k => (change_real k <=? change_decl k)) [ChP2PKH; ChNP2WPKH; ChP2WPKH; ChP2TR].

(** The part of the estimate that depends on the inputs. *)
Definition est_inputs (c : counts) : Z :=
  varint_size (n_p2pkh c + n_p2tr c + n_p2wpkh c + n_nested c)
  + n_p2pkh c * est_in_p2pkh
  + n_p2wpkh c * est_in_p2wpkh
  + n_p2tr c * est_in_p2tr
  + n_nested c * est_in_nested
  + Z.quot ((if 0 <? n_p2wpkh c + n_nested c + n_p2tr c then
              est_ww_marker + varint_size (n_p2wpkh c + n_nested c + n_p2tr c)
              + n_p2wpkh c * est_ww_p2wpkh
              + n_p2tr c * est_ww_p2tr
              + n_nested c * est_ww_nested
            else 0) + witness_round_add) witness_scale_factor.

Definition unit_counts (k : kind) : counts := add_kind k zero_counts.

(** The initial guess is a count vector and is no larger than the estimate for
    any single input. *)
Definition init_minimal (cf : cfg) : bool :=
  (0 <=? n_p2pkh (cfg_init cf)) && (0 <=? n_p2tr (cfg_init cf))
  && (0 <=? n_p2wpkh (cfg_init cf)) && (0 <=? n_nested (cfg_init cf))
  && forallb (fun k => est_inputs (cfg_init cf) <=? est_inputs (unit_counts k)) [P2PKH; P2TR; P2WPKH; NP2WPKH].

Definition init_guess_minimal : bool := init_minimal generated_cfg.
