(** Executable model of transaction authoring (property C07):
    wallet/txrules (FeeForSerializeSize, IsDustOutput through btcd's
    mempool.IsDust/GetDustThreshold), wallet/txsizes (EstimateVirtualSize),
    wallet/txauthor (NewUnsignedTransaction over a prefix-accumulating input
    source such as wallet.makeInputSource), and the serialized virtual size of
    the signed transaction (wire.MsgTx.SerializeSize / blockchain weight /
    mempool.GetTxVirtualSize) as a function of the actual signature lengths.

    Model only - no proofs here.  Numeric constants and two facts about the
    shape of the source (which count goes into the output-count compact-size,
    the initial size guess) come from Generated/TxsizesConsts.v.  Amounts and
    sizes are [Z]; Go's int64 wrap-around is not modelled (amounts stay below
    2^63 / rate in every use). *)
From Verif Require Import Base.Prelude Generated.TxsizesConsts.
Local Open Scope Z_scope.

(** btcd constants that are not part of the repository:
    blockchain.WitnessScaleFactor and btcutil.MaxSatoshi. *)
Definition witness_scale_factor : Z := 4.
Definition max_satoshi : Z := 2100000000000000.

(** wire.VarIntSerializeSize *)
Definition varint_size (n : Z) : Z :=
  if n <? 253 then 1 else if n <=? 65535 then 3 else if n <=? 4294967295 then 5 else 9.

(** ** txrules *)

(** FeeForSerializeSize: Go's [/] truncates (Z.quot). *)
Definition fee_for (rate size : Z) : Z :=
  let fee := Z.quot (rate * size) fee_divisor in
  let fee := if (fee =? 0) && (0 <? rate) then rate else fee in
  if (fee <? 0) || (max_satoshi <? fee) then max_satoshi else fee.

(** A transaction output: value and length of its pkScript. *)
Record txout := mkOut { out_value : Z; out_size : Z }.

(** wire.TxOut.SerializeSize *)
Definition out_ser_size (sz : Z) : Z := 8 + varint_size sz + sz.

(** mempool.GetDustThreshold for an output whose script has [sz] bytes and is
    ([wit] = true) or is not a witness program. *)
Definition dust_threshold (sz : Z) (wit : bool) : Z :=
  let total := out_ser_size sz + 41 in
  let total := if wit then total + Z.quot 107 witness_scale_factor else total + 107 in
  3 * total.

(** mempool.IsDust (txrules.IsDustOutput for a spendable, non-null-data script). *)
Definition is_dust (v sz : Z) (wit : bool) (relay : Z) : bool :=
  Z.quot (v * 1000) (dust_threshold sz wit) <? relay.

(** ** txsizes *)

Inductive kind := P2PKH | P2TR | P2WPKH | NP2WPKH.

Definition kind_eqb (a b : kind) : bool :=
  match a, b with
  | P2PKH, P2PKH | P2TR, P2TR | P2WPKH, P2WPKH | NP2WPKH, NP2WPKH => true
  | _, _ => false
  end.

(** numbers of inputs of each kind, in EstimateVirtualSize's parameter order *)
Record counts := mkCounts { n_p2pkh : Z; n_p2tr : Z; n_p2wpkh : Z; n_nested : Z }.

Definition zero_counts : counts := mkCounts 0 0 0 0.

Definition add_kind (k : kind) (c : counts) : counts :=
  match k with
  | P2PKH => mkCounts (n_p2pkh c + 1) (n_p2tr c) (n_p2wpkh c) (n_nested c)
  | P2TR => mkCounts (n_p2pkh c) (n_p2tr c + 1) (n_p2wpkh c) (n_nested c)
  | P2WPKH => mkCounts (n_p2pkh c) (n_p2tr c) (n_p2wpkh c + 1) (n_nested c)
  | NP2WPKH => mkCounts (n_p2pkh c) (n_p2tr c) (n_p2wpkh c) (n_nested c + 1)
  end.

(** the classification loop of NewUnsignedTransaction *)
Definition counts_of (ks : list kind) : counts := fold_right add_kind zero_counts ks.

Definition sum_out_sizes (outs : list txout) : Z :=
  fold_right (fun o a => out_ser_size (out_size o) + a) 0 outs.

Definition sum_values (outs : list txout) : Z :=
  fold_right (fun o a => out_value o + a) 0 outs.

(** EstimateVirtualSize, transcribed.  [vcc] = the output-count compact-size
    is taken over [outputCount] (which includes the change output) rather than
    over [len(txOuts)]. *)
Definition est_vsize_gen (vcc : bool) (c : counts) (outs : list txout) (chg : Z) : Z :=
  let num_outs := Z.of_nat (length outs) in
  let change_output_size := if 0 <? chg then 8 + varint_size chg + chg else 0 in
  let output_count := if 0 <? chg then num_outs + 1 else num_outs in
  let base_size :=
    8 + varint_size (n_p2pkh c + n_p2tr c + n_p2wpkh c + n_nested c)
      + varint_size (if vcc then output_count else num_outs)
      + n_p2pkh c * redeem_p2pkh_input_size
      + n_p2wpkh c * redeem_p2wpkh_input_size
      + n_p2tr c * redeem_p2tr_input_size
      + n_nested c * redeem_nested_p2wpkh_input_size
      + sum_out_sizes outs + change_output_size in
  let witness_weight :=
    if 0 <? n_p2wpkh c + n_nested c + n_p2tr c then
      2 + varint_size (n_p2wpkh c + n_nested c + n_p2tr c)
        + n_p2wpkh c * redeem_p2wpkh_input_witness_weight
        + n_p2tr c * redeem_p2tr_input_witness_weight
        + n_nested c * redeem_p2wpkh_input_witness_weight
    else 0 in
  base_size + Z.quot (witness_weight + witness_round_add) witness_scale_factor.

(** ** txauthor *)

(** What the source says now. *)
Record cfg := mkCfg { cfg_vcc : bool; cfg_init : counts }.

Definition generated_cfg : cfg :=
  mkCfg varint_counts_change
        (mkCounts init_guess_p2pkh init_guess_p2tr init_guess_p2wpkh init_guess_nested).

(** The two source shapes the theorems are about: the pinned commit and the
    repaired code. *)
Definition pinned_cfg : cfg := mkCfg false (mkCounts 0 0 1 0).
Definition fixed_cfg : cfg := mkCfg true (mkCounts 0 1 0 0).

Notation coin := (kind * Z)%type (only parsing).

Definition sum_coins (cs : list coin) : Z := fold_right (fun c a => snd c + a) 0 cs.

(** One call of the input source (wallet.makeInputSource): keep what was
    handed out so far and extend it, in the fixed arrangement, until the total
    reaches the target or the coins are exhausted. *)
Fixpoint pull (target total : Z) (taken rest : list coin) : Z * list coin * list coin :=
  match rest with
  | [] => (total, taken, [])
  | c :: rest' =>
      if total <? target then pull target (total + snd c) (taken ++ [c]) rest'
      else (total, taken, rest)
  end.

Record authored := mkAuthored {
  a_inputs : list coin;         (* TxIn, in order *)
  a_total_in : Z;               (* TotalInput *)
  a_outs : list txout;          (* TxOut *)
  a_change : option Z;          (* amount of the change output, if one was added *)
  a_change_index : option nat;  (* ChangeIndex *)
  a_est : Z;                    (* maxSignedSize of the final round *)
  a_req_fee : Z;                (* maxRequiredFee of the final round *)
  a_rounds : nat                (* calls of the input source *)
}.

Inductive result :=
| Success (a : authored)
| InsufficientFunds (rounds : nat)
| OutOfFuel.

Section Author.
  Variable cf : cfg.
  Variable outs : list txout.      (* requested outputs *)
  Variable rate : Z.               (* feeRatePerKb *)
  Variable chg : Z.                (* changeSource.ScriptSize = length of the change script *)
  Variable chgwit : bool.          (* the change script is a witness program *)

  Definition est_size (c : counts) : Z := est_vsize_gen (cfg_vcc cf) c outs chg.

  (** The [for] loop of NewUnsignedTransaction; [fuel] bounds the rounds. *)
  Fixpoint author_loop (fuel rnd : nat) (target_fee total : Z) (taken rest : list coin) : result :=
    match fuel with
    | O => OutOfFuel
    | S fuel' =>
        let target_amount := sum_values outs in
        let '(total', taken', rest') := pull (target_amount + target_fee) total taken rest in
        if total' <? target_amount + target_fee then InsufficientFunds (S rnd)
        else
          let max_signed_size := est_size (counts_of (map fst taken')) in
          let max_required_fee := fee_for rate max_signed_size in
          let remaining := total' - target_amount in
          if remaining <? max_required_fee then
            author_loop fuel' (S rnd) max_required_fee total' taken' rest'
          else
            let change_amount := total' - target_amount - max_required_fee in
            let add := negb (change_amount =? 0)
                       && negb (is_dust change_amount chg chgwit default_relay_fee_per_kb) in
            Success {| a_inputs := taken';
                       a_total_in := total';
                       a_outs := if add then outs ++ [mkOut change_amount chg] else outs;
                       a_change := if add then Some change_amount else None;
                       a_change_index := if add then Some (length outs) else None;
                       a_est := max_signed_size;
                       a_req_fee := max_required_fee;
                       a_rounds := S rnd |}
    end.

  Definition author (coins : list coin) : result :=
    let estimated_size := est_size (cfg_init cf) in
    author_loop (S (length coins)) 0 (fee_for rate estimated_size) 0 [] coins.
End Author.

(** Fee actually paid by an authored transaction. *)
Definition paid_fee (a : authored) : Z := a_total_in a - sum_values (a_outs a).

(** ** The signed transaction *)

(** A signed input: its kind and the length of its signature as the signer
    produced it - the DER encoding (without the sighash byte) for the ECDSA
    kinds, the BIP-340 signature including an optional sighash byte for
    P2TR key spends.  Compressed public keys throughout. *)
Notation signed_input := (kind * Z)%type (only parsing).

(** serialized size of the input without witness:
    outpoint 36, compact-size of the signature script, the script, sequence 4 *)
Definition in_base (i : signed_input) : Z :=
  match fst i with
  | P2PKH => let script := 1 + (snd i + 1) + 1 + 33 in 32 + 4 + varint_size script + script + 4
  | P2WPKH | P2TR => 32 + 4 + 1 + 0 + 4
  | NP2WPKH => 32 + 4 + 1 + 23 + 4
  end.

(** serialized witness of the input inside a transaction that has witness
    data: item count, then each item with its compact-size *)
Definition in_wit (i : signed_input) : Z :=
  match fst i with
  | P2PKH => 1
  | P2WPKH | NP2WPKH => 1 + (1 + (snd i + 1)) + (1 + 33)
  | P2TR => 1 + (1 + snd i)
  end.

Definition has_witness (ins : list signed_input) : bool :=
  existsb (fun i => negb (kind_eqb (fst i) P2PKH)) ins.

Definition sum_in_base (ins : list signed_input) : Z := fold_right (fun i a => in_base i + a) 0 ins.
Definition sum_in_wit (ins : list signed_input) : Z := fold_right (fun i a => in_wit i + a) 0 ins.

(** MsgTx.SerializeSizeStripped *)
Definition real_base (ins : list signed_input) (outs : list txout) : Z :=
  4 + varint_size (Z.of_nat (length ins)) + sum_in_base ins
    + varint_size (Z.of_nat (length outs)) + sum_out_sizes outs + 4.

(** MsgTx.SerializeSize *)
Definition real_total (ins : list signed_input) (outs : list txout) : Z :=
  real_base ins outs + (if has_witness ins then 2 + sum_in_wit ins else 0).

(** blockchain.GetTransactionWeight and mempool.GetTxVirtualSize *)
Definition real_weight ins outs : Z :=
  real_base ins outs * (witness_scale_factor - 1) + real_total ins outs.
Definition real_vsize ins outs : Z :=
  Z.quot (real_weight ins outs + (witness_scale_factor - 1)) witness_scale_factor.

(** ** Facts about the regenerated constants, as booleans *)

(** The size constants are exactly the worst case of the signed sizes above
    (72-byte DER signature + sighash byte, 64-byte Schnorr signature + sighash
    byte, compressed keys), the rounding is a ceiling, fee rates are per 1000
    bytes and the relay floor is 1000. *)
Definition consts_exact : bool :=
  (redeem_p2pkh_input_size =? 149) && (redeem_p2wpkh_input_size =? 41)
  && (redeem_p2tr_input_size =? 41) && (redeem_nested_p2wpkh_input_size =? 64)
  && (redeem_p2wpkh_input_witness_weight =? 109) && (redeem_p2tr_input_witness_weight =? 67)
  && (witness_round_add =? 3) && (fee_divisor =? 1000) && (default_relay_fee_per_kb =? 1000).

(** The part of the estimate that depends on the inputs. *)
Definition est_inputs (c : counts) : Z :=
  varint_size (n_p2pkh c + n_p2tr c + n_p2wpkh c + n_nested c)
  + n_p2pkh c * redeem_p2pkh_input_size
  + n_p2wpkh c * redeem_p2wpkh_input_size
  + n_p2tr c * redeem_p2tr_input_size
  + n_nested c * redeem_nested_p2wpkh_input_size
  + Z.quot ((if 0 <? n_p2wpkh c + n_nested c + n_p2tr c then
              2 + varint_size (n_p2wpkh c + n_nested c + n_p2tr c)
              + n_p2wpkh c * redeem_p2wpkh_input_witness_weight
              + n_p2tr c * redeem_p2tr_input_witness_weight
              + n_nested c * redeem_p2wpkh_input_witness_weight
            else 0) + witness_round_add) witness_scale_factor.

Definition unit_counts (k : kind) : counts := add_kind k zero_counts.

(** The initial guess is a count vector and is no larger than the estimate for
    any single input. *)
Definition init_minimal (cf : cfg) : bool :=
  (0 <=? n_p2pkh (cfg_init cf)) && (0 <=? n_p2tr (cfg_init cf))
  && (0 <=? n_p2wpkh (cfg_init cf)) && (0 <=? n_nested (cfg_init cf))
  && forallb (fun k => est_inputs (cfg_init cf) <=? est_inputs (unit_counts k)) [P2PKH; P2TR; P2WPKH; NP2WPKH].

Definition init_guess_minimal : bool := init_minimal generated_cfg.
