(** Executable comparison used by the correspondence check of C07: what the
    implementation reported (real txauthor/txsizes/txrules, the wallet's real
    input sources and change source, a real wallet's CreateSimpleTx /
    SendOutputs / FundPsbt, real signatures, mempool.GetTxVirtualSize) against
    the model of Fee.v evaluated with the regenerated configuration
    [generated_cfg].

    Only observables the theorems of Properties/C07.v speak about are compared:
    the rounds only through their bound, the outputs of a txauthor-level run as
    a count (the harness oracle compares them as a multiset), the outputs of a
    wallet-level run in order only where the model computes the order
    (RandomizeChangePosition for the observed draw) and as a multiset
    otherwise, the inputs as a multiset. *)
From Coq Require Import Sorting.Mergesort Orders.
From Verif Require Import Base.Prelude Generated.TxsizesConsts Fee.Fee.
Local Open Scope Z_scope.

(** ** multisets of pairs of integers, compared through sorting *)
Module PairOrder <: TotalLeBool.
  Definition t := (Z * Z)%type.
  Definition leb (a b : t) : bool := (fst a <? fst b) || ((fst a =? fst b) && (snd a <=? snd b)).
  Theorem leb_total : forall a b, leb a b = true \/ leb b a = true.
  Proof. intros [a1 a2] [b1 b2]. unfold leb. cbn [fst snd]. lia. Qed.
End PairOrder.
Module PairSort := Sort PairOrder.

Fixpoint pairs_eqb (a b : list (Z * Z)) : bool :=
  match a, b with
  | [], [] => true
  | x :: a', y :: b' => (fst x =? fst y) && (snd x =? snd y) && pairs_eqb a' b'
  | _, _ => false
  end.

Definition multiset_eqb (a b : list (Z * Z)) : bool :=
  (Z.of_nat (length a) =? Z.of_nat (length b)) && pairs_eqb (PairSort.sort a) (PairSort.sort b).

Definition kind_code (k : kind) : Z := match k with P2PKH => 0 | P2TR => 1 | P2WPKH => 2 | NP2WPKH => 3 end.
Definition coin_pair (c : coin) : Z * Z := (kind_code (fst c), snd c).
Definition out_pair (o : txout) : Z * Z := (out_value o, out_size o).

(** Observation of one NewUnsignedTransaction + AddAllInputScripts run. *)
Record obs_author := mkObs {
  o_err : Z;                 (* 0 = success, 1 = insufficient funds, 2 = any other error *)
  o_rounds : Z;              (* calls of the input source *)
  o_in_kinds : list kind;    (* kinds of the inputs of the authored transaction, in order *)
  o_est : Z;                 (* txsizes.EstimateVirtualSize for those inputs *)
  o_total_in : Z;            (* AuthoredTx.TotalInput *)
  o_fee : Z;                 (* sum of the coins' values - sum of output values *)
  o_has_change : bool;       (* AuthoredTx.ChangeIndex >= 0 *)
  o_change_amt : Z;          (* value of the output at ChangeIndex (0 if none) *)
  o_nout : Z;                (* number of outputs of the transaction *)
  o_sigs : list (Z * Z);     (* signature and public-key length of each signed input *)
  o_real_vsize : Z           (* mempool.GetTxVirtualSize of the signed transaction *)
}.

(** Observation of one wallet-level run. *)
Record obs_wallet := mkWObs {
  w_err : Z;                 (* 0 = success, 1 = insufficient funds, 11/12/13 = refused: negative / exceeds max / dust *)
  w_inputs : list coin;      (* inputs of the transaction (kind, value on the harness ledger), in order *)
  w_outs : list txout;       (* outputs of the transaction, in order *)
  w_change_idx : Z;          (* index of the change output, -1 if none *)
  w_ordered : bool;          (* the output ORDER is the model's for the draw r = w_change_idx *)
  w_total_in : Z;            (* AuthoredTx.TotalInput, -1 where the API does not report it *)
  w_fee : Z;                 (* ledger values of the inputs - output values *)
  w_sigs : list (Z * Z);
  w_real_vsize : Z
}.

Inductive case :=
| CAuthor (fixed : bool) (outs : list txout) (rate : Z) (coins : list coin) (chg : Z) (chgwit : bool) (o : obs_author)
| CWallet (checks fixed randomizes : bool) (outs : list txout) (rate : Z) (k : chkind) (coins : list coin) (o : obs_wallet)
| CChangeSrc (k : chkind) (declared script_len : Z)
| CFee (rate size : Z) (o : Z)
| CEst (c : counts) (outs : list txout) (chg : Z) (o : Z)
| CDust (v sz : Z) (wit : bool) (o : bool)
| CCheckOut (v sz : Z) (wit : bool) (o : Z).

Fixpoint kinds_eqb (a b : list kind) : bool :=
  match a, b with
  | [], [] => true
  | x :: a', y :: b' => kind_eqb x y && kinds_eqb a' b'
  | _, _ => false
  end.

Definition author_ok fixed outs rate coins chg chgwit (o : obs_author) : bool :=
  match author generated_cfg fixed outs rate chg chg chgwit coins with
  | Success a =>
      (o_err o =? 0)
      && (o_rounds o <=? Z.of_nat (length coins) + 1)
      && kinds_eqb (o_in_kinds o) (map fst (a_inputs a))
      && (o_est o =? a_est a)
      && (o_total_in o =? a_total_in a)
      && (o_fee o =? tx_fee a)
      && Bool.eqb (o_has_change o) (match a_change a with Some _ => true | None => false end)
      && (o_change_amt o =? match a_change a with Some v => v | None => 0 end)
      && (o_nout o =? Z.of_nat (length (a_outs a)))
      && (Z.of_nat (length (o_sigs o)) =? Z.of_nat (length (a_inputs a)))
      && (o_real_vsize o =? real_vsize (mk_sinputs (map fst (a_inputs a)) (o_sigs o)) (a_outs a))
  | InsufficientFunds r => (o_err o =? 1) && (o_rounds o <=? Z.of_nat (length coins) + 1)
  | OutOfFuel => false
  end.

(** The harness requests standard scripts only: 25 P2PKH, 23 P2SH, 22 P2WPKH,
    34 P2WSH / P2TR; the last three lengths are witness programs. *)
Definition std_wit (sz : Z) : bool := (sz =? 22) || (sz =? 34).

(** SendOutputs and FundPsbt run txrules.CheckOutput over the requested
    outputs first and refuse with the first complaint. *)
Fixpoint first_refusal (outs : list txout) : Z :=
  match outs with
  | [] => 0
  | o :: r =>
      let c := check_output (out_value o) (out_size o) (std_wit (out_size o)) default_relay_fee_per_kb in
      if c =? 0 then first_refusal r else c
  end.

Definition wallet_ok (checks fixed randomizes : bool) outs rate k coins (o : obs_wallet) : bool :=
  (* which complaint comes first is not part of the property: refused or not *)
  if checks && negb (first_refusal outs =? 0) then 10 <=? w_err o else
  match wallet_author fixed randomizes outs rate k coins (Z.to_nat (w_change_idx o)) with
  | Success a =>
      (w_err o =? 0)
      && multiset_eqb (map coin_pair (w_inputs o)) (map coin_pair (a_inputs a))
      && ((w_total_in o <? 0) || (w_total_in o =? a_total_in a))
      && (w_fee o =? tx_fee a)
      && (if w_ordered o then pairs_eqb (map out_pair (w_outs o)) (map out_pair (a_outs a))
          else multiset_eqb (map out_pair (w_outs o)) (map out_pair (a_outs a)))
      && match a_change a with
         | Some c =>
             (0 <=? w_change_idx o)
             && match nth_error (w_outs o) (Z.to_nat (w_change_idx o)) with
                | Some x => (out_value x =? c) && (out_size x =? change_real k)
                | None => false
                end
         | None => w_change_idx o <? 0
         end
      && (Z.of_nat (length (w_sigs o)) =? Z.of_nat (length (w_inputs o)))
      && (w_real_vsize o =? real_vsize (mk_sinputs (map fst (w_inputs o)) (w_sigs o)) (a_outs a))
  | InsufficientFunds _ => w_err o =? 1
  | OutOfFuel => false
  end.

Definition case_ok (c : case) : bool :=
  match c with
  | CAuthor fixed outs rate coins chg chgwit o => author_ok fixed outs rate coins chg chgwit o
  | CWallet checks fixed randomizes outs rate k coins o => wallet_ok checks fixed randomizes outs rate k coins o
  | CChangeSrc k declared script_len => (change_decl k =? declared) && (change_real k =? script_len)
  | CFee rate size o => fee_for rate size =? o
  | CEst c outs chg o => est_vsize_gen (cfg_vcc generated_cfg) c outs chg =? o
  | CDust v sz wit o => Bool.eqb (is_dust v sz wit default_relay_fee_per_kb) o
  | CCheckOut v sz wit o => Bool.eqb (check_output v sz wit default_relay_fee_per_kb =? 0) (o =? 0)
  end.

Fixpoint mismatches_from {A} (f : A -> bool) (i : nat) (l : list A) : list nat :=
  match l with
  | [] => []
  | c :: l' => if f c then mismatches_from f (S i) l' else i :: mismatches_from f (S i) l'
  end.

Definition mismatches := mismatches_from case_ok 0%nat.
