(** Executable comparison used by the correspondence check of C07: what the
    implementation reported (real txauthor/txsizes/txrules, real signatures,
    mempool.GetTxVirtualSize) against the model of Fee.v evaluated with the
    regenerated configuration [generated_cfg]. *)
From Verif Require Import Base.Prelude Generated.TxsizesConsts Fee.Fee.
Local Open Scope Z_scope.

(** Observation of one NewUnsignedTransaction + AddAllInputScripts run. *)
Record obs_author := mkObs {
  o_err : Z;                 (* 0 = success, 1 = insufficient funds, 2 = any other error *)
  o_rounds : Z;              (* calls of the input source *)
  o_in_kinds : list kind;    (* kinds of the inputs of the authored transaction, in order *)
  o_est : Z;                 (* txsizes.EstimateVirtualSize for those inputs *)
  o_total_in : Z;            (* AuthoredTx.TotalInput *)
  o_fee : Z;                 (* sum of input values - sum of output values *)
  o_change_idx : Z;          (* AuthoredTx.ChangeIndex *)
  o_change_amt : Z;          (* value of the change output (0 if none) *)
  o_nout : Z;                (* number of outputs of the transaction *)
  o_sigs : list Z;           (* signature lengths of the signed inputs *)
  o_real_vsize : Z           (* mempool.GetTxVirtualSize of the signed transaction *)
}.

Inductive case :=
| CAuthor (outs : list txout) (rate : Z) (coins : list coin) (chg : Z) (chgwit : bool) (o : obs_author)
| CFee (rate size : Z) (o : Z)
| CEst (c : counts) (outs : list txout) (chg : Z) (o : Z)
| CDust (v sz : Z) (wit : bool) (o : bool).

Fixpoint kinds_eqb (a b : list kind) : bool :=
  match a, b with
  | [], [] => true
  | x :: a', y :: b' => kind_eqb x y && kinds_eqb a' b'
  | _, _ => false
  end.

Definition author_ok outs rate coins chg chgwit (o : obs_author) : bool :=
  match author generated_cfg outs rate chg chgwit coins with
  | Success a =>
      (o_err o =? 0)
      && (o_rounds o =? Z.of_nat (a_rounds a))
      && kinds_eqb (o_in_kinds o) (map fst (a_inputs a))
      && (o_est o =? a_est a)
      && (o_total_in o =? a_total_in a)
      && (o_fee o =? paid_fee a)
      && (o_change_idx o =? match a_change_index a with Some i => Z.of_nat i | None => -1 end)
      && (o_change_amt o =? match a_change a with Some v => v | None => 0 end)
      && (o_nout o =? Z.of_nat (length (a_outs a)))
      && (Z.of_nat (length (o_sigs o)) =? Z.of_nat (length (a_inputs a)))
      && (o_real_vsize o =? real_vsize (combine (map fst (a_inputs a)) (o_sigs o)) (a_outs a))
  | InsufficientFunds r => (o_err o =? 1) && (o_rounds o =? Z.of_nat r)
  | OutOfFuel => false
  end.

Definition case_ok (c : case) : bool :=
  match c with
  | CAuthor outs rate coins chg chgwit o => author_ok outs rate coins chg chgwit o
  | CFee rate size o => fee_for rate size =? o
  | CEst c outs chg o => est_vsize_gen (cfg_vcc generated_cfg) c outs chg =? o
  | CDust v sz wit o => Bool.eqb (is_dust v sz wit default_relay_fee_per_kb) o
  end.

Fixpoint mismatches_from {A} (f : A -> bool) (i : nat) (l : list A) : list nat :=
  match l with
  | [] => []
  | c :: l' => if f c then mismatches_from f (S i) l' else i :: mismatches_from f (S i) l'
  end.

Definition mismatches := mismatches_from case_ok 0%nat.
