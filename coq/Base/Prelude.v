(** Shared imports, tactics and small list lemmas (stdlib style). *)
From Coq Require Export List Arith ZArith NArith Lia Bool Permutation Sorted.
From Coq Require Export ZifyBool ZifyNat ZifyN.
Export ListNotations.

Ltac inv H := inversion H; subst; clear H.

Lemma Forall_filter {A} (P : A -> Prop) (f : A -> bool) l :
  Forall P l -> Forall P (filter f l).
Proof.
  induction 1 as [|x l Hx Hl IH]; simpl; [constructor|].
  destruct (f x); [constructor|]; assumption.
Qed.

Lemma Forall_filter_true {A} (f : A -> bool) l :
  Forall (fun x => f x = true) (filter f l).
Proof.
  induction l as [|x l IH]; simpl; [constructor|].
  destruct (f x) eqn:E; [constructor|]; assumption.
Qed.

Lemma Permutation_Forall {A} (P : A -> Prop) l l' :
  Permutation l l' -> Forall P l -> Forall P l'.
Proof.
  intros HP HF. rewrite Forall_forall in *. intros x Hx.
  apply HF. eapply Permutation_in; [apply Permutation_sym; exact HP|exact Hx].
Qed.
