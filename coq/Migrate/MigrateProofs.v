From Verif Require Import Base.Prelude Migrate.Migrate.

Local Open Scope N_scope.

Definition le_num (a b : version) : Prop := num a <= num b.

Lemma insert_perm v l : Permutation (v :: l) (insert v l).
Proof.
  induction l as [|w l IH]; simpl; [reflexivity|].
  destruct (num v <? num w); [reflexivity|].
  rewrite perm_swap. constructor. exact IH.
Qed.

Lemma sort_perm l : Permutation l (sort l).
Proof.
  induction l as [|v l IH]; simpl; [constructor|].
  rewrite <- insert_perm. constructor. exact IH.
Qed.

Lemma insert_sorted v l : Sorted le_num l -> Sorted le_num (insert v l).
Proof.
  induction 1 as [|w l Hs IH Hhd]; simpl; [repeat constructor|].
  destruct (N.ltb_spec (num v) (num w)) as [Hlt|Hge].
  - constructor; [constructor; assumption|]. constructor. unfold le_num. lia.
  - constructor; [exact IH|].
    destruct l as [|x l]; simpl.
    + constructor. unfold le_num. lia.
    + destruct (N.ltb_spec (num v) (num x)).
      * constructor. unfold le_num. lia.
      * constructor. inv Hhd. assumption.
Qed.

Lemma sort_sorted l : Sorted le_num (sort l).
Proof.
  induction l as [|v l IH]; simpl; [constructor|].
  apply insert_sorted. exact IH.
Qed.

Lemma sort_strongly_sorted l : StronglySorted le_num (sort l).
Proof.
  apply Sorted_StronglySorted; [|apply sort_sorted].
  intros a b c; unfold le_num; lia.
Qed.

(** The list to apply: a permutation of the entries numbered above [cur]
    (so each of them exactly once, and nothing else), ascending. *)
Lemma versions_to_apply_perm cur vs :
  Permutation (versions_to_apply cur vs) (filter (fun v => cur <? num v) vs).
Proof. unfold versions_to_apply. symmetry. apply sort_perm. Qed.

Lemma versions_to_apply_sorted cur vs :
  StronglySorted le_num (versions_to_apply cur vs).
Proof. apply sort_strongly_sorted. Qed.

Lemma versions_to_apply_above cur vs :
  Forall (fun v => cur < num v) (versions_to_apply cur vs).
Proof.
  eapply Permutation_Forall; [apply Permutation_sym, versions_to_apply_perm|].
  eapply Forall_impl; [|apply Forall_filter_true].
  intros v Hv; simpl in Hv. lia.
Qed.

(** With distinct numbers the order is strictly ascending. *)
Lemma strongly_sorted_nodup_lt l :
  StronglySorted le_num l -> NoDup (map num l) ->
  StronglySorted (fun a b => num a < num b) l.
Proof.
  induction 1 as [|a l Hs IH Hall]; intros Hnd; [constructor|].
  simpl in Hnd. inv Hnd.
  constructor; [apply IH; assumption|].
  rewrite Forall_forall in *. intros b Hb.
  specialize (Hall b Hb). unfold le_num in Hall.
  assert (num a <> num b).
  { intros E. match goal with H : ~ In _ _ |- _ => apply H end.
    rewrite E. apply in_map. exact Hb. }
  lia.
Qed.

Lemma NoDup_map_perm {A B} (f : A -> B) l l' :
  Permutation l l' -> NoDup (map f l) -> NoDup (map f l').
Proof.
  intros HP. apply Permutation_NoDup. apply Permutation_map. exact HP.
Qed.

Lemma NoDup_map_filter {A B} (f : A -> B) p l :
  NoDup (map f l) -> NoDup (map f (filter p l)).
Proof.
  induction l as [|x l IH]; simpl; intros H; [constructor|].
  inv H. destruct (p x); simpl; [constructor|]; auto.
  intros Hin. match goal with H : ~ In _ _ |- _ => apply H end.
  apply in_map_iff in Hin. destruct Hin as [y [Hy Hin]].
  apply in_map_iff. exists y. split; [exact Hy|].
  apply filter_In in Hin. tauto.
Qed.

Lemma versions_to_apply_strict cur vs :
  NoDup (map num vs) ->
  StronglySorted (fun a b => num a < num b) (versions_to_apply cur vs).
Proof.
  intros Hnd. apply strongly_sorted_nodup_lt; [apply versions_to_apply_sorted|].
  eapply NoDup_map_perm; [apply Permutation_sym, versions_to_apply_perm|].
  apply NoDup_map_filter. exact Hnd.
Qed.

(** ** What [run_migs] invokes *)

Definition invocable (v : version) : bool :=
  match vmig v with MNil => false | _ => true end.
Definition fails (v : version) : bool :=
  match vmig v with MFail _ => true | _ => false end.

(** Without a failing entry: every non-nil entry is invoked, in list order. *)
Lemma run_migs_ok l d :
  existsb fails l = false ->
  let '(inv, d', e) := run_migs l d in
  e = None /\ inv = map num (filter invocable l).
Proof.
  revert d. induction l as [|v l IH]; intros d Hf; simpl; [auto|].
  simpl in Hf. apply orb_false_iff in Hf. destruct Hf as [Hv Hl].
  unfold fails, invocable in *. destruct (vmig v) eqn:E; try discriminate.
  - apply IH. exact Hl.
  - specialize (IH (d ++ [id]) Hl). destruct (run_migs l (d ++ [id])) as [[inv d'] e].
    destruct IH as [-> ->]. simpl. auto.
Qed.

(** With a failing entry: the invoked ones are exactly the non-nil entries up
    to and including the first failing one; nothing after it runs. *)
Lemma run_migs_fail l1 v l2 d :
  existsb fails l1 = false -> fails v = true ->
  let '(inv, d', e) := run_migs (l1 ++ v :: l2) d in
  e = Some (num v) /\ inv = map num (filter invocable l1) ++ [num v].
Proof.
  revert d. induction l1 as [|w l1 IH]; intros d Hf Hv; simpl.
  - unfold fails in Hv. destruct (vmig v); try discriminate. auto.
  - simpl in Hf. apply orb_false_iff in Hf. destruct Hf as [Hw Hl].
    unfold fails, invocable in *. destruct (vmig w) eqn:E; try discriminate.
    + apply IH; assumption.
    + specialize (IH (d ++ [id]) Hl Hv).
      destruct (run_migs (l1 ++ v :: l2) (d ++ [id])) as [[inv d'] e].
      destruct IH as [-> ->]. simpl. auto.
Qed.

Lemma latest_ge vs v : In v vs -> num v <= latest vs.
Proof.
  induction vs as [|w vs IH]; simpl; [tauto|].
  intros [->|H]; [lia|]. specialize (IH H). lia.
Qed.

Lemma latest_in vs : vs <> [] -> exists v, In v vs /\ num v = latest vs.
Proof.
  induction vs as [|w vs IH]; [congruence|]. intros _.
  destruct vs as [|x vs].
  - exists w. simpl. split; [auto|lia].
  - destruct IH as [v [Hin Hv]]; [congruence|].
    simpl in *. destruct (N.max_spec (num w) (N.max (num x) (latest vs))) as [[_ E]|[_ E]].
    + exists v. split; [tauto|]. rewrite E. exact Hv.
    + exists w. split; [tauto|]. rewrite E. reflexivity.
Qed.

(** ** The upgrade as a whole *)

(** (1) Refusal of a newer database: no write, nothing invoked. *)
Lemma upgrade_reversion vs s :
  latest vs < stored s -> upgrade vs s = (ErrReversion, s, []).
Proof.
  intros H. unfold upgrade, upgrade_tx.
  destruct (N.ltb_spec (latest vs) (stored s)); [reflexivity|lia].
Qed.

(** (2) Any non-[Ok] outcome leaves the database (version and data) as it was. *)
Lemma upgrade_error_unchanged vs s o s' inv :
  upgrade vs s = (o, s', inv) -> o <> Ok -> s' = s.
Proof.
  unfold upgrade. destruct (upgrade_tx vs s) as [[o0 s0] inv0].
  destruct o0; intros H Hne; inv H; congruence.
Qed.

(** (3) Success records the latest version (or leaves an up-to-date database
    untouched). *)
Lemma upgrade_ok_version vs s s' inv :
  upgrade vs s = (Ok, s', inv) -> stored s' = latest vs.
Proof.
  unfold upgrade, upgrade_tx.
  destruct (N.ltb_spec (latest vs) (stored s)) as [H1|H1]; [discriminate|].
  destruct (N.ltb_spec (stored s) (latest vs)) as [H2|H2].
  - destruct (run_migs _ _) as [[inv0 d'] e]. destruct e; [discriminate|].
    intros H; inv H. reflexivity.
  - intros H; inv H. lia.
Qed.

(** (4) What runs: on success every pending non-nil migration, on failure the
    pending non-nil ones up to the first failing one - as sub-lists of the
    sorted pending list. *)
Lemma upgrade_ok_invoked vs s s' inv :
  upgrade vs s = (Ok, s', inv) ->
  inv = map num (filter invocable (versions_to_apply (stored s) vs)).
Proof.
  unfold upgrade, upgrade_tx.
  destruct (N.ltb_spec (latest vs) (stored s)) as [H1|H1]; [discriminate|].
  destruct (N.ltb_spec (stored s) (latest vs)) as [H2|H2].
  - destruct (existsb fails (versions_to_apply (stored s) vs)) eqn:Ef.
    + (* a failing entry exists: outcome cannot be Ok *)
      assert (exists l1 v l2, versions_to_apply (stored s) vs = l1 ++ v :: l2
                /\ existsb fails l1 = false /\ fails v = true) as (l1 & v & l2 & E & Hl1 & Hv).
      { clear -Ef. induction (versions_to_apply (stored s) vs) as [|w l IH]; [discriminate|].
        simpl in Ef. destruct (fails w) eqn:Ew.
        - exists [], w, l. auto.
        - simpl in Ef. destruct (IH Ef) as (l1 & v & l2 & E & Hl1 & Hv).
          exists (w :: l1), v, l2. subst l. simpl. rewrite Ew. auto. }
      pose proof (run_migs_fail l1 v l2 (data s) Hl1 Hv) as Hr.
      rewrite <- E in Hr.
      destruct (run_migs (versions_to_apply (stored s) vs) (data s)) as [[inv0 d'] e].
      destruct Hr as [-> _]. intros H; discriminate H.
    + pose proof (run_migs_ok _ (data s) Ef) as Hr.
      destruct (run_migs (versions_to_apply (stored s) vs) (data s)) as [[inv0 d'] e].
      destruct Hr as [-> ->]. intros H; injection H as _ <-. reflexivity.
  - intros H; injection H as _ <-.
    assert (versions_to_apply (stored s) vs = []) as ->; [|reflexivity].
    unfold versions_to_apply.
    assert (filter (fun v => stored s <? num v) vs = []) as ->; [|reflexivity].
    clear H1. induction vs as [|v vs IH]; [reflexivity|]. simpl in *.
    destruct (N.ltb_spec (stored s) (num v)); [lia|]. apply IH. lia.
Qed.

Lemma upgrade_fail_invoked vs s n s' inv :
  upgrade vs s = (ErrMigration n, s', inv) ->
  exists l1 v l2,
    versions_to_apply (stored s) vs = l1 ++ v :: l2 /\
    existsb fails l1 = false /\ fails v = true /\ num v = n /\
    inv = map num (filter invocable l1) ++ [n].
Proof.
  unfold upgrade, upgrade_tx.
  destruct (N.ltb_spec (latest vs) (stored s)) as [H1|H1]; [discriminate|].
  destruct (N.ltb_spec (stored s) (latest vs)) as [H2|H2]; [|discriminate].
  destruct (existsb fails (versions_to_apply (stored s) vs)) eqn:Ef.
  - assert (exists l1 v l2, versions_to_apply (stored s) vs = l1 ++ v :: l2
              /\ existsb fails l1 = false /\ fails v = true) as (l1 & v & l2 & E & Hl1 & Hv).
    { clear -Ef. induction (versions_to_apply (stored s) vs) as [|w l IH]; [discriminate|].
      simpl in Ef. destruct (fails w) eqn:Ew.
      - exists [], w, l. auto.
      - simpl in Ef. destruct (IH Ef) as (l1 & v & l2 & E & Hl1 & Hv).
        exists (w :: l1), v, l2. subst l. simpl. rewrite Ew. auto. }
    pose proof (run_migs_fail l1 v l2 (data s) Hl1 Hv) as Hr.
    rewrite <- E in Hr.
    destruct (run_migs (versions_to_apply (stored s) vs) (data s)) as [[inv0 d'] e].
    destruct Hr as [-> ->]. intros H; inv H.
    exists l1, v, l2. auto.
  - pose proof (run_migs_ok _ (data s) Ef) as Hr.
    destruct (run_migs (versions_to_apply (stored s) vs) (data s)) as [[inv0 d'] e].
    destruct Hr as [-> _]. intros H; discriminate H.
Qed.
