From Verif Require Import Base.Prelude Migrate.Migrate.

Local Open Scope N_scope.

Definition le_num (a b : version) : Prop := num a <= num b.

Lemma insert_perm v l : Permutation (v :: l) (insert v l).
Proof.
  induction l as [|w l IH]; simpl; [reflexivity|].
  destruct (num v <? num w); [reflexivity|].
  rewrite perm_swap. constructor. exact IH.
Qed.

Lemma sort_perm l : Permutation l (sort l).
Proof.
  induction l as [|v l IH]; simpl; [constructor|].
  rewrite <- insert_perm. constructor. exact IH.
Qed.

Lemma insert_sorted v l : Sorted le_num l -> Sorted le_num (insert v l).
Proof.
  induction 1 as [|w l Hs IH Hhd]; simpl; [repeat constructor|].
  destruct (N.ltb_spec (num v) (num w)) as [Hlt|Hge].
  - constructor; [constructor; assumption|]. constructor. unfold le_num. lia.
  - constructor; [exact IH|].
    destruct l as [|x l]; simpl.
    + constructor. unfold le_num. lia.
    + destruct (N.ltb_spec (num v) (num x)).
      * constructor. unfold le_num. lia.
      * constructor. inv Hhd. assumption.
Qed.

Lemma sort_sorted l : Sorted le_num (sort l).
Proof.
  induction l as [|v l IH]; simpl; [constructor|].
  apply insert_sorted. exact IH.
Qed.

Lemma sort_strongly_sorted l : StronglySorted le_num (sort l).
Proof.
  apply Sorted_StronglySorted; [|apply sort_sorted].
  intros a b c; unfold le_num; lia.
Qed.

(** The list to apply: a permutation of the entries numbered above [cur]
    (so each of them exactly once, and nothing else), ascending. *)
Lemma versions_to_apply_perm cur vs :
  Permutation (versions_to_apply cur vs) (filter (fun v => cur <? num v) vs).
Proof. unfold versions_to_apply. symmetry. apply sort_perm. Qed.

Lemma versions_to_apply_sorted cur vs :
  StronglySorted le_num (versions_to_apply cur vs).
Proof. apply sort_strongly_sorted. Qed.

Lemma versions_to_apply_above cur vs :
  Forall (fun v => cur < num v) (versions_to_apply cur vs).
Proof.
  eapply Permutation_Forall; [apply Permutation_sym, versions_to_apply_perm|].
  eapply Forall_impl; [|apply Forall_filter_true].
  intros v Hv; simpl in Hv. lia.
Qed.

(** With distinct numbers the order is strictly ascending. *)
Lemma strongly_sorted_nodup_lt l :
  StronglySorted le_num l -> NoDup (map num l) ->
  StronglySorted (fun a b => num a < num b) l.
Proof.
  induction 1 as [|a l Hs IH Hall]; intros Hnd; [constructor|].
  simpl in Hnd. inv Hnd.
  constructor; [apply IH; assumption|].
  rewrite Forall_forall in *. intros b Hb.
  specialize (Hall b Hb). unfold le_num in Hall.
  assert (num a <> num b).
  { intros E. match goal with H : ~ In _ _ |- _ => apply H end.
    rewrite E. apply in_map. exact Hb. }
  lia.
Qed.

Lemma NoDup_map_perm {A B} (f : A -> B) l l' :
  Permutation l l' -> NoDup (map f l) -> NoDup (map f l').
Proof.
  intros HP. apply Permutation_NoDup. apply Permutation_map. exact HP.
Qed.

Lemma NoDup_map_filter {A B} (f : A -> B) p l :
  NoDup (map f l) -> NoDup (map f (filter p l)).
Proof.
  induction l as [|x l IH]; simpl; intros H; [constructor|].
  inv H. destruct (p x); simpl; [constructor|]; auto.
  intros Hin. match goal with H : ~ In _ _ |- _ => apply H end.
  apply in_map_iff in Hin. destruct Hin as [y [Hy Hin]].
  apply in_map_iff. exists y. split; [exact Hy|].
  apply filter_In in Hin. tauto.
Qed.

Lemma versions_to_apply_strict cur vs :
  NoDup (map num vs) ->
  StronglySorted (fun a b => num a < num b) (versions_to_apply cur vs).
Proof.
  intros Hnd. apply strongly_sorted_nodup_lt; [apply versions_to_apply_sorted|].
  eapply NoDup_map_perm; [apply Permutation_sym, versions_to_apply_perm|].
  apply NoDup_map_filter. exact Hnd.
Qed.

(** ** What [run_migs] invokes *)

Definition invocable (v : version) : bool :=
  match vmig v with MNil => false | _ => true end.
Definition fails (v : version) : bool :=
  match vmig v with MFail _ => true | _ => false end.

(** Without a failing entry: every non-nil entry is invoked, in list order
    (whether or not errors are returned). *)
Lemma run_migs_ok ret l w :
  existsb fails l = false ->
  let '(inv, w', e) := run_migs ret l w in
  e = None /\ inv = map num (filter invocable l).
Proof.
  revert w. induction l as [|v l IH]; intros w Hf; simpl; [auto|].
  simpl in Hf. apply orb_false_iff in Hf. destruct Hf as [Hv Hl].
  unfold fails, invocable in *. destruct (vmig v) eqn:E; try discriminate.
  - apply IH. exact Hl.
  - specialize (IH (put_effect id w) Hl). destruct (run_migs ret l (put_effect id w)) as [[inv w'] e].
    destruct IH as [-> ->]. simpl. auto.
Qed.

(** With a failing entry, when its error is returned: the invoked ones are
    exactly the non-nil entries up to and including the first failing one;
    nothing after it runs. *)
Lemma run_migs_fail l1 v l2 w :
  existsb fails l1 = false -> fails v = true ->
  let '(inv, w', e) := run_migs true (l1 ++ v :: l2) w in
  e = Some (num v) /\ inv = map num (filter invocable l1) ++ [num v].
Proof.
  revert w. induction l1 as [|x l1 IH]; intros w Hf Hv; simpl.
  - unfold fails in Hv. destruct (vmig v); try discriminate. auto.
  - simpl in Hf. apply orb_false_iff in Hf. destruct Hf as [Hx Hl].
    unfold fails, invocable in *. destruct (vmig x) eqn:E; try discriminate.
    + apply IH; assumption.
    + specialize (IH (put_effect id w) Hl Hv).
      destruct (run_migs true (l1 ++ v :: l2) (put_effect id w)) as [[inv w'] e].
      destruct IH as [-> ->]. simpl. auto.
Qed.

(** No write of the migration loop touches the stored version. *)
Lemma run_migs_stored ret l w :
  let '(inv, w', e) := run_migs ret l w in stored w' = stored w.
Proof.
  revert w. induction l as [|v l IH]; intros w; simpl; [reflexivity|].
  destruct (vmig v) eqn:E.
  - apply IH.
  - specialize (IH (put_effect id w)). destruct (run_migs ret l (put_effect id w)) as [[inv w'] e].
    exact IH.
  - destruct ret; [reflexivity|].
    specialize (IH (put_effect id w)). destruct (run_migs false l (put_effect id w)) as [[inv w'] e].
    exact IH.
Qed.

Lemma first_failing l :
  existsb fails l = true ->
  exists l1 v l2, l = l1 ++ v :: l2 /\ existsb fails l1 = false /\ fails v = true.
Proof.
  induction l as [|w l IH]; [discriminate|]. simpl. intros Ef.
  destruct (fails w) eqn:Ew.
  - exists [], w, l. auto.
  - simpl in Ef. destruct (IH Ef) as (l1 & v & l2 & E & Hl1 & Hv).
    exists (w :: l1), v, l2. subst l. simpl. rewrite Ew. auto.
Qed.

Lemma latest_ge vs v : In v vs -> num v <= latest vs.
Proof.
  induction vs as [|w vs IH]; simpl; [tauto|].
  intros [->|H]; [lia|]. specialize (IH H). lia.
Qed.

Lemma latest_in vs : vs <> [] -> exists v, In v vs /\ num v = latest vs.
Proof.
  induction vs as [|w vs IH]; [congruence|]. intros _.
  destruct vs as [|x vs].
  - exists w. simpl. split; [auto|lia].
  - destruct IH as [v [Hin Hv]]; [congruence|].
    simpl in *. destruct (N.max_spec (num w) (N.max (num x) (latest vs))) as [[_ E]|[_ E]].
    + exists v. split; [tauto|]. rewrite E. exact Hv.
    + exists w. split; [tauto|]. rewrite E. reflexivity.
Qed.

Lemma nothing_pending cur vs : latest vs <= cur -> versions_to_apply cur vs = [].
Proof.
  intros H. unfold versions_to_apply.
  assert (filter (fun v => cur <? num v) vs = []) as ->; [|reflexivity].
  induction vs as [|v vs IH]; [reflexivity|]. simpl in *.
  destruct (N.ltb_spec cur (num v)); [lia|]. apply IH. lia.
Qed.

(** ** One service, on the working copy ([upgrade(mgr)]) *)

(** Refusal of a newer database: no write, nothing invoked - whatever the
    error handling around it looks like. *)
Lemma one_reversion c m w :
  latest (table m) < stored w -> upgrade_one c m w = (ErrReversion, w, []).
Proof.
  intros H. unfold upgrade_one.
  destruct (N.ltb_spec (latest (table m)) (stored w)); [reflexivity|lia].
Qed.

Lemma one_reversion_only c m w w' inv :
  upgrade_one c m w = (ErrReversion, w', inv) -> latest (table m) < stored w /\ w' = w /\ inv = [].
Proof.
  unfold upgrade_one.
  destruct (N.ltb_spec (latest (table m)) (stored w)) as [H1|H1].
  - intros H; inv H. auto.
  - destruct (N.ltb_spec (stored w) (latest (table m))) as [H2|H2]; [|discriminate].
    destruct (run_migs _ _ _) as [[inv0 w0] e]. destruct e; [discriminate|].
    destruct (setv_fails m); [destruct (setv_error_returned c)|]; discriminate.
Qed.

(** Success records the latest version (or leaves an up-to-date database
    untouched) - provided a failing SetVersion is reported. *)
Lemma one_ok_version c m w w' inv :
  setv_error_returned c = true ->
  upgrade_one c m w = (Ok, w', inv) -> stored w' = latest (table m).
Proof.
  intros Hs. unfold upgrade_one.
  destruct (N.ltb_spec (latest (table m)) (stored w)) as [H1|H1]; [discriminate|].
  destruct (N.ltb_spec (stored w) (latest (table m))) as [H2|H2].
  - destruct (run_migs _ _ _) as [[inv0 w0] e]. destruct e; [discriminate|].
    rewrite Hs. destruct (setv_fails m); [discriminate|].
    intros H; inv H. reflexivity.
  - intros H; inv H. lia.
Qed.

(** What runs: on success every pending non-nil migration, on failure the
    pending non-nil ones up to the first failing one - as sub-lists of the
    sorted pending list.  Both need the migration's error to be returned. *)
Lemma one_ok_invoked c m w w' inv :
  mig_error_returned c = true ->
  upgrade_one c m w = (Ok, w', inv) ->
  existsb fails (versions_to_apply (stored w) (table m)) = false /\
  inv = map num (filter invocable (versions_to_apply (stored w) (table m))).
Proof.
  intros Hm. unfold upgrade_one. rewrite Hm.
  destruct (N.ltb_spec (latest (table m)) (stored w)) as [H1|H1]; [discriminate|].
  destruct (N.ltb_spec (stored w) (latest (table m))) as [H2|H2].
  - destruct (existsb fails (versions_to_apply (stored w) (table m))) eqn:Ef.
    + destruct (first_failing _ Ef) as (l1 & v & l2 & E & Hl1 & Hv).
      pose proof (run_migs_fail l1 v l2 w Hl1 Hv) as Hr. rewrite <- E in Hr.
      destruct (run_migs true _ w) as [[inv0 w0] e].
      destruct Hr as [-> _]. intros H; discriminate H.
    + pose proof (run_migs_ok true _ w Ef) as Hr.
      destruct (run_migs true _ w) as [[inv0 w0] e].
      destruct Hr as [-> ->].
      destruct (setv_fails m); [destruct (setv_error_returned c)|];
        intros H; inv H; auto.
  - intros H; inv H. rewrite nothing_pending by lia. auto.
Qed.

Lemma one_fail_invoked c m w n w' inv :
  mig_error_returned c = true ->
  upgrade_one c m w = (ErrMigration n, w', inv) ->
  exists l1 v l2,
    versions_to_apply (stored w) (table m) = l1 ++ v :: l2 /\
    existsb fails l1 = false /\ fails v = true /\ num v = n /\
    inv = map num (filter invocable l1) ++ [n].
Proof.
  intros Hm. unfold upgrade_one. rewrite Hm.
  destruct (N.ltb_spec (latest (table m)) (stored w)) as [H1|H1]; [discriminate|].
  destruct (N.ltb_spec (stored w) (latest (table m))) as [H2|H2]; [|discriminate].
  destruct (existsb fails (versions_to_apply (stored w) (table m))) eqn:Ef.
  - destruct (first_failing _ Ef) as (l1 & v & l2 & E & Hl1 & Hv).
    pose proof (run_migs_fail l1 v l2 w Hl1 Hv) as Hr. rewrite <- E in Hr.
    destruct (run_migs true _ w) as [[inv0 w0] e].
    destruct Hr as [-> ->]. intros H; inv H.
    exists l1, v, l2. auto.
  - pose proof (run_migs_ok true _ w Ef) as Hr.
    destruct (run_migs true _ w) as [[inv0 w0] e].
    destruct Hr as [-> _].
    destruct (setv_fails m); [destruct (setv_error_returned c)|]; intros H; discriminate H.
Qed.

(** A pending migration that fails is reported: the result is not [Ok]. *)
Lemma one_failing_not_ok c m w :
  mig_error_returned c = true ->
  stored w <= latest (table m) ->
  existsb fails (versions_to_apply (stored w) (table m)) = true ->
  fst (fst (upgrade_one c m w)) <> Ok.
Proof.
  intros Hm Hle Ef E.
  destruct (upgrade_one c m w) as [[o w'] inv] eqn:Hu. simpl in E. subst o.
  destruct (one_ok_invoked c m w w' inv Hm Hu) as [Hnf _]. congruence.
Qed.

(** The working copy of a failed upgrade still carries the old version (the
    writes of the migrations that ran are in it, though). *)
Lemma one_error_stored c m w o w' inv :
  upgrade_one c m w = (o, w', inv) -> o <> Ok -> stored w' = stored w.
Proof.
  unfold upgrade_one.
  destruct (N.ltb_spec (latest (table m)) (stored w)) as [H1|H1]; [intros H; inv H; reflexivity|].
  destruct (N.ltb_spec (stored w) (latest (table m))) as [H2|H2]; [|intros H; inv H; reflexivity].
  pose proof (run_migs_stored (mig_error_returned c) (versions_to_apply (stored w) (table m)) w) as Hs.
  destruct (run_migs _ _ _) as [[inv0 w0] e]. destruct e.
  - intros H; inv H. auto.
  - destruct (setv_fails m); [destruct (setv_error_returned c)|]; intros H Hne; inv H; congruence.
Qed.

(** ** Several services ([Upgrade(mgrs...)]) on the working copies *)

Definition res_of (c : code) (p : mgr * db) := upgrade_one c (fst p) (snd p).

(** When every manager's error is returned, an [Ok] result means that every
    service's own upgrade returned [Ok], and working copies / invoked lists
    are theirs. *)
Lemma all_ok_each c l ws invs :
  mgr_error_returned c = true ->
  upgrade_all c l = (Ok, ws, invs) ->
  Forall (fun p => fst (fst (res_of c p)) = Ok) l /\
  ws = map (fun p => snd (fst (res_of c p))) l /\
  invs = map (fun p => snd (res_of c p)) l.
Proof.
  intros Hr. revert ws invs. induction l as [|[m w] l IH]; intros ws invs; simpl.
  - intros H; inv H. auto.
  - simpl. rewrite Hr.
    destruct (upgrade_one c m w) as [[o w'] inv] eqn:Hu.
    destruct o; simpl; try discriminate.
    destruct (upgrade_all c l) as [[o' ws'] invs'] eqn:Ha.
    intros H; inv H. destruct (IH ws' invs' eq_refl) as (Hf & -> & ->).
    assert (res_of c (m, w) = (Ok, w', inv)) as Er by exact Hu.
    simpl. rewrite Er. simpl. split; [|split; reflexivity].
    constructor; [rewrite Er; reflexivity|exact Hf].
Qed.

(** A service whose stored version is newer than its table makes the whole
    call fail. *)
Lemma all_newer_not_ok c l :
  mgr_error_returned c = true ->
  Exists (fun p => latest (table (fst p)) < stored (snd p)) l ->
  fst (fst (upgrade_all c l)) <> Ok.
Proof.
  intros Hr. induction l as [|[m w] l IH]; intros Hex; [inv Hex|]. simpl. rewrite Hr.
  destruct (upgrade_one c m w) as [[o w'] inv] eqn:Hu.
  simpl. rewrite orb_false_r.
  destruct (is_ok o) eqn:Eo.
  - destruct o; try discriminate. inv Hex.
    + simpl in *. rewrite one_reversion in Hu by assumption. discriminate.
    + specialize (IH H0). destruct (upgrade_all c l) as [[o' ws] invs]. exact IH.
  - simpl. intros ->. discriminate.
Qed.

(** A pending migration of some service that fails makes the whole call fail. *)
Lemma all_failing_not_ok c l :
  mgr_error_returned c = true -> mig_error_returned c = true ->
  Forall (fun p => stored (snd p) <= latest (table (fst p))) l ->
  Exists (fun p => existsb fails (versions_to_apply (stored (snd p)) (table (fst p))) = true) l ->
  fst (fst (upgrade_all c l)) <> Ok.
Proof.
  intros Hr Hm Hle Hex E.
  destruct (upgrade_all c l) as [[o ws] invs] eqn:Ha. simpl in E. subst o.
  destruct (all_ok_each c l ws invs Hr Ha) as (Hf & _ & _).
  rewrite Exists_exists in Hex. destruct Hex as (p & Hin & Hp).
  rewrite Forall_forall in Hf, Hle.
  apply (one_failing_not_ok c (fst p) (snd p) Hm (Hle p Hin) Hp). exact (Hf p Hin).
Qed.

(** ** The enclosing transaction *)

(** ONE Update around the call whose closure returns the error: any non-[Ok]
    result leaves the committed state of every service as it was.  This is the
    only place where the writes of a failed upgrade are undone, and it needs
    both facts about the call site. *)
Lemma open_atomic c ms ss o ss' invs :
  one_update c = true -> update_gets_error c = true ->
  open_upgrade c ms ss = (o, ss', invs) -> o <> Ok -> ss' = ss.
Proof.
  intros H1 Hg. unfold open_upgrade, call_in_update. rewrite H1, Hg.
  destruct (upgrade_all c (combine ms ss)) as [[o0 ws] invs0].
  intros H Hne; inv H. destruct o; simpl; congruence.
Qed.

Lemma open_newer_refused c ms ss o ss' invs :
  one_update c = true -> update_gets_error c = true -> mgr_error_returned c = true ->
  Exists (fun p => latest (table (fst p)) < stored (snd p)) (combine ms ss) ->
  open_upgrade c ms ss = (o, ss', invs) -> o <> Ok /\ ss' = ss.
Proof.
  intros H1 Hg Hr Hex H.
  assert (o <> Ok) as Hne.
  { pose proof (all_newer_not_ok c _ Hr Hex) as Hn.
    unfold open_upgrade, call_in_update in H. rewrite H1 in H.
    destruct (upgrade_all c (combine ms ss)) as [[o0 ws] invs0]. inv H. exact Hn. }
  split; [exact Hne|]. exact (open_atomic c ms ss o ss' invs H1 Hg H Hne).
Qed.

Lemma open_failing_unchanged c ms ss o ss' invs :
  one_update c = true -> update_gets_error c = true ->
  mgr_error_returned c = true -> mig_error_returned c = true ->
  Forall (fun p => stored (snd p) <= latest (table (fst p))) (combine ms ss) ->
  Exists (fun p => existsb fails (versions_to_apply (stored (snd p)) (table (fst p))) = true)
         (combine ms ss) ->
  open_upgrade c ms ss = (o, ss', invs) -> o <> Ok /\ ss' = ss.
Proof.
  intros H1 Hg Hr Hm Hle Hex H.
  assert (o <> Ok) as Hne.
  { pose proof (all_failing_not_ok c _ Hr Hm Hle Hex) as Hn.
    unfold open_upgrade, call_in_update in H. rewrite H1 in H.
    destruct (upgrade_all c (combine ms ss)) as [[o0 ws] invs0]. inv H. exact Hn. }
  split; [exact Hne|]. exact (open_atomic c ms ss o ss' invs H1 Hg H Hne).
Qed.

(** Success of the whole call: every service's own upgrade succeeded and the
    committed state is the working copy of each. *)
Lemma open_ok_each c ms ss ss' invs :
  one_update c = true -> mgr_error_returned c = true ->
  open_upgrade c ms ss = (Ok, ss', invs) ->
  Forall (fun p => fst (fst (res_of c p)) = Ok) (combine ms ss) /\
  ss' = map (fun p => snd (fst (res_of c p))) (combine ms ss) /\
  invs = map (fun p => snd (res_of c p)) (combine ms ss).
Proof.
  intros H1 Hr. unfold open_upgrade, call_in_update. rewrite H1.
  destruct (upgrade_all c (combine ms ss)) as [[o0 ws] invs0] eqn:Ha.
  intros H; inv H. simpl. exact (all_ok_each c _ ws invs Hr Ha).
Qed.

(** ** One service inside its transaction *)

Lemma upgrade_unfold c m s :
  one_update c = true -> mgr_error_returned c = true ->
  upgrade c m s =
  let '(o, w, inv) := upgrade_one c m s in
  (o, if is_ok o || negb (update_gets_error c) then w else s, inv).
Proof.
  intros H1 Hr. unfold upgrade, open_upgrade, call_in_update. rewrite H1. simpl.
  rewrite Hr.
  destruct (upgrade_one c m s) as [[o w] inv].
  destruct o; simpl; destruct (update_gets_error c); reflexivity.
Qed.

(** (1) Refusal of a newer database: no write, nothing invoked. *)
Lemma upgrade_reversion c m s :
  one_update c = true -> mgr_error_returned c = true ->
  latest (table m) < stored s -> upgrade c m s = (ErrReversion, s, []).
Proof.
  intros H1 Hr H. rewrite upgrade_unfold by assumption. rewrite one_reversion by assumption.
  simpl. destruct (update_gets_error c); reflexivity.
Qed.

(** (2) Any non-[Ok] outcome leaves the database (version and data) as it was. *)
Lemma upgrade_error_unchanged c m s o s' inv :
  one_update c = true -> mgr_error_returned c = true -> update_gets_error c = true ->
  upgrade c m s = (o, s', inv) -> o <> Ok -> s' = s.
Proof.
  intros H1 Hr Hg. rewrite upgrade_unfold by assumption. rewrite Hg.
  destruct (upgrade_one c m s) as [[o0 w] inv0].
  intros H Hne; inv H. destruct o; simpl; congruence.
Qed.

(** (3) Success records the latest version. *)
Lemma upgrade_ok_version c m s s' inv :
  one_update c = true -> mgr_error_returned c = true -> setv_error_returned c = true ->
  upgrade c m s = (Ok, s', inv) -> stored s' = latest (table m).
Proof.
  intros H1 Hr Hs. rewrite upgrade_unfold by assumption.
  destruct (upgrade_one c m s) as [[o0 w] inv0] eqn:Hu.
  intros H; inv H. simpl. exact (one_ok_version c m s _ _ Hs Hu).
Qed.

(** (4) What runs. *)
Lemma upgrade_ok_invoked c m s s' inv :
  one_update c = true -> mgr_error_returned c = true -> mig_error_returned c = true ->
  upgrade c m s = (Ok, s', inv) ->
  inv = map num (filter invocable (versions_to_apply (stored s) (table m))).
Proof.
  intros H1 Hr Hm. rewrite upgrade_unfold by assumption.
  destruct (upgrade_one c m s) as [[o0 w] inv0] eqn:Hu.
  intros H; inv H. exact (proj2 (one_ok_invoked c m s _ _ Hm Hu)).
Qed.

Lemma upgrade_fail_invoked c m s n s' inv :
  one_update c = true -> mgr_error_returned c = true -> mig_error_returned c = true ->
  upgrade c m s = (ErrMigration n, s', inv) ->
  exists l1 v l2,
    versions_to_apply (stored s) (table m) = l1 ++ v :: l2 /\
    existsb fails l1 = false /\ fails v = true /\ num v = n /\
    inv = map num (filter invocable l1) ++ [n].
Proof.
  intros H1 Hr Hm. rewrite upgrade_unfold by assumption.
  destruct (upgrade_one c m s) as [[o0 w] inv0] eqn:Hu.
  intros H; inv H. exact (one_fail_invoked c m s n _ _ Hm Hu).
Qed.

(** A failing pending migration is never reported as success. *)
Lemma upgrade_failing_not_ok c m s o s' inv :
  one_update c = true -> mgr_error_returned c = true -> mig_error_returned c = true ->
  stored s <= latest (table m) ->
  existsb fails (versions_to_apply (stored s) (table m)) = true ->
  upgrade c m s = (o, s', inv) -> o <> Ok.
Proof.
  intros H1 Hr Hm Hle Ef. rewrite upgrade_unfold by assumption.
  pose proof (one_failing_not_ok c m s Hm Hle Ef) as Hn.
  destruct (upgrade_one c m s) as [[o0 w] inv0]. intros H; inv H. exact Hn.
Qed.

(** ** The premises are needed

    Each of the facts, when false, admits a history in which the property
    fails (the model's other branch, evaluated). *)

Definition all_true : code :=
  {| mig_error_returned := true; setv_error_returned := true; mgr_error_returned := true;
     one_update := true; update_gets_error := true |}.

Definition three : list version :=
  [ {| num := 1; vmig := MOk 10 |}; {| num := 2; vmig := MOk 20 |}; {| num := 3; vmig := MFail 30 |} ].

(** (a) false - a transaction per version: migration 3 of 3 fails, versions 1
    and 2 stay applied and recorded. *)
Lemma needs_one_update :
  let c := {| mig_error_returned := true; setv_error_returned := true; mgr_error_returned := true;
              one_update := false; update_gets_error := true |} in
  upgrade c (plain three) {| stored := 0; data := [] |}
  = (ErrMigration 3, {| stored := 2; data := [10; 20] |}, [1; 2; 3]).
Proof. vm_compute. reflexivity. Qed.

(** (b) false at the call site - the closure hides the error from Update:
    the writes of migrations 1, 2 and the partial write of 3 are committed. *)
Lemma needs_error_to_update :
  let c := {| mig_error_returned := true; setv_error_returned := true; mgr_error_returned := true;
              one_update := true; update_gets_error := false |} in
  upgrade c (plain three) {| stored := 0; data := [] |}
  = (ErrMigration 3, {| stored := 0; data := [10; 20; 30] |}, [1; 2; 3]).
Proof. vm_compute. reflexivity. Qed.

(** (b) false in [upgrade] - a migration's error is dropped: the failed
    migration counts as applied and the latest version is recorded. *)
Lemma needs_migration_error :
  let c := {| mig_error_returned := false; setv_error_returned := true; mgr_error_returned := true;
              one_update := true; update_gets_error := true |} in
  upgrade c (plain ({| num := 4; vmig := MOk 40 |} :: three)) {| stored := 0; data := [] |}
  = (Ok, {| stored := 4; data := [10; 20; 30; 40] |}, [1; 2; 3; 4]).
Proof. vm_compute. reflexivity. Qed.

(** (b) false in [Upgrade] - a service's error is dropped: the second service
    is upgraded and committed although the first one failed. *)
Lemma needs_manager_error :
  let c := {| mig_error_returned := true; setv_error_returned := true; mgr_error_returned := false;
              one_update := true; update_gets_error := true |} in
  open_upgrade c [plain three; plain [ {| num := 1; vmig := MOk 11 |} ]]
               [ {| stored := 0; data := [] |}; {| stored := 0; data := [] |} ]
  = (Ok, [ {| stored := 0; data := [10; 20; 30] |}; {| stored := 1; data := [11] |} ], [[1; 2; 3]; [1]]).
Proof. vm_compute. reflexivity. Qed.

(** SetVersion's error dropped: success is reported without the version. *)
Lemma needs_setversion_error :
  let c := {| mig_error_returned := true; setv_error_returned := false; mgr_error_returned := true;
              one_update := true; update_gets_error := true |} in
  upgrade c {| table := [ {| num := 1; vmig := MOk 10 |} ]; setv_fails := true |} {| stored := 0; data := [] |}
  = (Ok, {| stored := 0; data := [10] |}, [1]).
Proof. vm_compute. reflexivity. Qed.
