(** Executable comparison used by the correspondence check of C19. *)
From Verif Require Import Base.Prelude Migrate.Migrate.

Definition outcome_eqb (a b : outcome) : bool :=
  match a, b with
  | Ok, Ok | ErrReversion, ErrReversion => true
  | ErrMigration n, ErrMigration m => N.eqb n m
  | _, _ => false
  end.

Definition listN_eqb (a b : list N) : bool :=
  if list_eq_dec N.eq_dec a b then true else false.

Definition db_eqb (a b : db) : bool :=
  N.eqb (stored a) (stored b) && listN_eqb (data a) (data b).

Definition case_ok (c : list version * db * (option outcome * db * list N)) : bool :=
  let '(vs, s, (o, s', inv)) := c in
  let '(mo, ms, minv) := upgrade vs s in
  match o with
  | Some o => outcome_eqb o mo && db_eqb s' ms && listN_eqb inv minv
  | None => false
  end.

Fixpoint mismatches_from {A} (f : A -> bool) (i : nat) (l : list A) : list nat :=
  match l with
  | [] => []
  | c :: l' => if f c then mismatches_from f (S i) l' else i :: mismatches_from f (S i) l'
  end.

Definition mismatches := mismatches_from case_ok 0.
