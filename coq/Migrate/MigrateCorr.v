(** Executable comparison used by the correspondence check of C19.

    Two kinds of cases, both evaluated on [open_upgrade]:
    - [case_ok]: migration.Upgrade(m1, ..., mk) with the harness' instrumented
      managers inside the harness' own walletdb.Update ([harness_code]: the
      facts about manager.go as regenerated, the call site is the harness');
      outcome, committed version and data of every service and the invoked
      migrations of every service are compared exactly;
    - [real_ok]: the REAL wtxmgr / waddrmgr migration managers, either through
      the repository's own call site (wallet.Open: [repo_code], all five
      regenerated facts) or through migration.Upgrade inside the harness'
      Update.  The real migrations are model terms [MOk n] / [MFail n] (n the
      version number; [MFail] where the harness injected a write failure).
      Compared: the class of the result, and per service the stored version
      afterwards, whether its namespace is byte-for-byte what it was, and the
      migrations that ran. *)
From Verif Require Import Base.Prelude Migrate.Migrate.

Definition outcome_eqb (a b : outcome) : bool :=
  match a, b with
  | Ok, Ok | ErrReversion, ErrReversion | ErrSetVersion, ErrSetVersion => true
  | ErrMigration n, ErrMigration m => N.eqb n m
  | _, _ => false
  end.

Definition listN_eqb (a b : list N) : bool :=
  if list_eq_dec N.eq_dec a b then true else false.

Definition db_eqb (a b : db) : bool :=
  N.eqb (stored a) (stored b) && listN_eqb (data a) (data b).

Fixpoint all2 {A B} (f : A -> B -> bool) (l : list A) (l' : list B) : bool :=
  match l, l' with
  | [], [] => true
  | a :: l, b :: l' => f a b && all2 f l l'
  | _, _ => false
  end.

Definition case := (list (mgr * db) * (option outcome * list (db * list N)))%type.

Definition case_ok (c : case) : bool :=
  let '(l, (o, obs)) := c in
  let '(mo, mss, minvs) := open_upgrade harness_code (map fst l) (map snd l) in
  match o with
  | Some o =>
    outcome_eqb o mo &&
    all2 (fun ob md => db_eqb (fst ob) (fst md) && listN_eqb (snd ob) (snd md)) obs (combine mss minvs)
  | None => false
  end.

(** result classes of a real case: 0 success, 1 refused as newer, 2 any other error *)
Definition outcome_class (o : outcome) : N :=
  match o with Ok => 0 | ErrReversion => 1 | _ => 2 end%N.

Definition real_case :=
  (bool * list (mgr * N) * (N * list (N * bool * list N)))%type.

Definition real_ok (c : real_case) : bool :=
  let '(through_repo_site, l, (cls, obs)) := c in
  let ss := map (fun p => {| stored := snd p; data := [] |}) l in
  let '(mo, mss, minvs) :=
    open_upgrade (if through_repo_site then repo_code else harness_code) (map fst l) ss in
  N.eqb cls (outcome_class mo) &&
  all2 (fun ob md =>
          let '(ver, unchanged, inv) := ob in
          let '(s, s', minv) := md in
          N.eqb ver (stored s') && Bool.eqb unchanged (db_eqb s s') && listN_eqb inv minv)
       obs (combine (combine ss mss) minvs).

Fixpoint mismatches_from {A} (f : A -> bool) (i : nat) (l : list A) : list nat :=
  match l with
  | [] => []
  | c :: l' => if f c then mismatches_from f (S i) l' else i :: mismatches_from f (S i) l'
  end.

Definition mismatches := mismatches_from case_ok 0.
Definition real_mismatches := mismatches_from real_ok 0.
