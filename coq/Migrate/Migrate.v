(** Model of walletdb/migration/manager.go (GetLatestVersion, VersionsToApply,
    upgrade) running inside one database transaction.

    A migration is a state transformer that may fail.  The "data" of the
    service's namespace is abstracted to the log of effects migrations have
    applied to it ([MOk id] appends [id]); this is exactly what the harness'
    instrumented migrations do to the real bucket (they put key [id]). *)
From Verif Require Import Base.Prelude.

Inductive mig :=
| MNil                (* Version.Migration == nil: skipped, still counted *)
| MOk (id : N)        (* succeeds, effect [id] on the namespace           *)
| MFail (id : N).     (* writes effect [id], then returns an error        *)

Record version := { num : N; vmig : mig }.

(** [GetLatestVersion]: maximum number, 0 for the empty table. *)
Definition latest (vs : list version) : N :=
  fold_right (fun v m => N.max (num v) m) 0%N vs.

(** Stable insertion sort by number ([sort.Slice] in the code; the order of
    entries with *equal* numbers is unspecified there). *)
Fixpoint insert (v : version) (l : list version) : list version :=
  match l with
  | [] => [v]
  | w :: l' => if (num v <? num w)%N then v :: l else w :: insert v l'
  end.
Definition sort (l : list version) : list version := fold_right insert [] l.

(** [VersionsToApply]. *)
Definition versions_to_apply (cur : N) (vs : list version) : list version :=
  sort (filter (fun v => (cur <? num v)%N) vs).

(** Database state of one service: stored version and namespace data. *)
Record db := { stored : N; data : list N }.

Inductive outcome := Ok | ErrReversion | ErrMigration (n : N).

(** Running the pending migrations in order inside the transaction's working
    copy; returns the log of migrations *invoked* (nil ones are skipped), the
    working data and the failing version number if any. *)
Fixpoint run_migs (l : list version) (d : list N) : list N * list N * option N :=
  match l with
  | [] => ([], d, None)
  | v :: l' =>
    match vmig v with
    | MNil => run_migs l' d
    | MOk id =>
      let '(inv, d', e) := run_migs l' (d ++ [id]) in (num v :: inv, d', e)
    | MFail id => ([num v], d ++ [id], Some (num v))
    end
  end.

(** [upgrade] on the transaction's working copy: result, working copy,
    list of invoked migration numbers. *)
Definition upgrade_tx (vs : list version) (s : db) : outcome * db * list N :=
  let l := latest vs in
  if (l <? stored s)%N then (ErrReversion, s, [])
  else if (stored s <? l)%N then
    let '(inv, d', e) := run_migs (versions_to_apply (stored s) vs) (data s) in
    match e with
    | Some n => (ErrMigration n, {| stored := stored s; data := d' |}, inv)
    | None => (Ok, {| stored := l; data := d' |}, inv)
    end
  else (Ok, s, []).

(** The enclosing [walletdb.Update]: commit on nil, roll back on error
    (the all-or-nothing behaviour of Update is property C11). *)
Definition upgrade (vs : list version) (s : db) : outcome * db * list N :=
  let '(o, s', inv) := upgrade_tx vs s in
  match o with
  | Ok => (o, s', inv)
  | _ => (o, s, inv)
  end.
